(* PROOFS: the global invariant fs_inv (PrGlobalDef) is kept by the directory-handle calls that
   write nothing (OpenRoot, OpenDir, CloseDir, Find, Iter, Label) and by OpenFile in all six
   modes.  One theorem step_ok_<Op> per operation, for every argument value and every outcome.

   1  tables: transport of fs_inv over a state with other directory handles / other cache
   2  handles: resolution of a directory handle under fs_inv
   3  the read-only operations
   4  OpenFile (continued in PrGlobalOpen2.v if this file grows) *)
From Coq Require Import NArith ZArith List Bool Lia Arith ZifyClasses ZifyInst Zify FMapPositive Permutation.
From SdFs Require Import FsTypes FsBase FsFat FsMgr FsLemmas PrBase PrFat PrAlloc PrDir PrSeek PrAllocEffect
  PrRw PrWrite PrFileSeq PrMulti PrEntry PrChain PrCount PrWf PrOpenClose PrGlobalDef.
From SdFs Require PrModes PrHandles PrCrash PrBounds PrOrder.
Import ListNotations.
Open Scope N_scope.
Local Arguments N.mul : simpl never.
Local Arguments N.add : simpl never.
Local Arguments N.sub : simpl never.
Local Arguments N.div : simpl never.
Local Arguments N.modulo : simpl never.
Local Arguments N.land : simpl never.
Local Arguments N.lor : simpl never.
Local Arguments N.min : simpl never.
Local Arguments N.max : simpl never.
Local Ltac Zify.zify_post_hook ::= Z.to_euclidean_division_equations.

(* ================================================================== 1. transport *)
(* the in-memory side of the invariant does not look at the handle counter, the clock, the
   device log; the directory table only has to hold handles of directories of the tree *)
Lemma go_transport fsz vid s s' vi v bl rch T :
  fs_inv_at fsz vid s vi v bl rch T ->
  s_disk s' = s_disk s -> s_vols s' = s_vols s -> s_files s' = s_files s ->
  s_lock s' = false -> no_faults s' -> cache_ok s' ->
  Forall (odir_ok v T) (s_dirs s') ->
  fs_inv_at fsz vid s' vi v bl rch T.
Proof.
  intros [A B C D E F G H I J K] Hd Hv Hf Hl Hnf Hc Hdirs.
  constructor; try assumption.
  - rewrite Hv. exact B.
  - destruct C as (_ & ((_ & _ & C3 & C4) & C5 & C6) & C7 & C8 & C9 & C10).
    split; [exact Hl|]. split.
    + split; [|split; assumption]. split; [exact Hnf|]. split; [exact Hc|].
      split; [rewrite Hv; exact C3|rewrite Hd; exact C4].
    + split; [exact C7|]. split; [exact C8|]. split; [rewrite Hd; exact C9|rewrite Hv; exact C10].
  - rewrite (pend_of_same s s' v Hd Hf), Hd. exact G.
  - rewrite Hf. rewrite Forall_forall in *. intros f Hin. exact (ofile_ok_same_disk s s' v T f Hd (H f Hin)).
  - rewrite Hf. exact I.
  - rewrite Hf. exact J.
Qed.

Lemma go_ro fsz vid s s1 vi v bl rch T :
  fs_inv_at fsz vid s vi v bl rch T -> ro_step s s1 -> fs_inv_at fsz vid s1 vi v bl rch T.
Proof.
  intros Hinv (Hd & Hc & Hnf & (M1 & M2 & M3 & _ & _ & M6 & _)).
  apply (go_transport fsz vid s s1 vi v bl rch T Hinv Hd M1 M3); try assumption.
  - rewrite M6. exact (proj1 (fi_vol _ _ _ _ _ _ _ _ Hinv)).
  - rewrite M2. exact (fi_dirs _ _ _ _ _ _ _ _ Hinv).
Qed.

(* what the invariant gives about the device and the volume table *)
Lemma go_facts fsz vid s vi v bl rch T : fs_inv_at fsz vid s vi v bl rch T ->
  s_lock s = false /\ no_faults s /\ cache_ok s /\ s_vols s = [v] /\ vi = 0%nat /\
  nth_error (s_vols s) 0 = Some v /\ vol_ok v /\ fat_layout v fsz /\ blocks_wf (s_disk s) /\ v_id v = vid.
Proof.
  intros Hinv. pose proof (fi_vol _ _ _ _ _ _ _ _ Hinv) as (Hl & ((Hnf & Hc & Hvi & _) & L & _) & _ & _ & Hwf & Hfind).
  pose proof (fi_single _ _ _ _ _ _ _ _ Hinv) as Ev.
  assert (E0 : vi = 0%nat).
  { rewrite Ev in Hfind. cbn [find_idx] in Hfind. rewrite N.eqb_refl in Hfind. injection Hfind as <-. reflexivity. }
  subst vi. repeat (split; [assumption|]). split; [reflexivity|]. split; [exact Hvi|].
  split; [exact (fl_vol _ _ L)|]. split; [exact L|]. split; [exact Hwf|exact (fi_vid _ _ _ _ _ _ _ _ Hinv)].
Qed.

(* only read calls were logged: no device write *)
Lemma reads_no_writes l : Forall PrModes.is_read_call l -> PrOrder.writes_of l = [].
Proof.
  intros H. unfold PrOrder.writes_of.
  assert (G : forall l0, Forall PrModes.is_read_call l0 -> flat_map PrOrder.wr1 l0 = []).
  { induction 1 as [|c l0 Hc _ IH]; [reflexivity|]. cbn [flat_map]. rewrite IH.
    destruct c; try reflexivity; destruct Hc. }
  apply G. apply Forall_forall. intros x Hx. rewrite Forall_forall in H. apply H. apply in_rev. exact Hx.
Qed.

Lemma reads_only_tsteps s s' : PrModes.reads_only s s' -> PrOrder.tsteps s s' [].
Proof. intros (_ & _ & l & E & Hl). exists l. split; [exact E|exact (reads_no_writes l Hl)]. Qed.

(* the conclusion of step_ok for a call that wrote nothing *)
Lemma go_conclude fsz vid s (r : outcome res) s' :
  fs_inv fsz vid s -> r <> Panic -> r <> OutOfFuel -> fs_inv fsz vid s' ->
  s_vols s' = s_vols s -> PrOrder.tsteps s s' [] ->
  r <> Panic /\ r <> OutOfFuel /\ fs_inv fsz vid s' /\ same_geo s s' /\
  exists ws, PrOrder.tsteps s s' ws /\ forall v, In v (s_vols s) -> Forall (PrBounds.in_region v fsz) ws.
Proof.
  intros Hinv R1 R2 Hinv' Hv Ht. split; [exact R1|]. split; [exact R2|]. split; [exact Hinv'|].
  destruct (fs_inv_vols fsz vid s Hinv) as (v & Ev & _). split.
  - exists v, v. split; [exact Ev|]. split; [rewrite Hv; exact Ev|apply geo_eq_refl].
  - exists []. split; [exact Ht|]. intros v0 _. constructor.
Qed.

Lemma tsteps_trace_eq s s1 s' ws : PrOrder.tsteps s s1 ws -> s_trace s' = s_trace s1 -> PrOrder.tsteps s s' ws.
Proof. intros (l & E & W) Ht. exists l. split; [rewrite Ht; exact E|exact W]. Qed.

(* ================================================================== 2. short names *)
(* an 8.3 name produced by the crate has 11 bytes, none below 0x20 *)
Definition sfn_wf (l : list N) : Prop := length l = 11%nat /\ Forall (fun x => 32 <= x) l.

Lemma set_bytes_one_wf l idx b : sfn_wf l -> idx < 11 -> 32 <= b -> sfn_wf (set_bytes l idx [b]).
Proof.
  intros (Hlen & Hall) Hi Hb. unfold set_bytes. split.
  - rewrite !app_length, firstn_length, skipn_length. cbn [length]. lia.
  - apply Forall_app. split; [apply Forall_forall; intros x Hx; rewrite Forall_forall in Hall; apply Hall; exact (In_firstn _ _ _ Hx)|].
    apply Forall_app. split; [constructor; [exact Hb|constructor]|].
    apply Forall_forall. intros x Hx. rewrite Forall_forall in Hall. apply Hall.
    clear - Hx. revert Hx. generalize (N.to_nat idx + length [b])%nat as k. intros k. revert l.
    induction k as [|k IH]; intros l Hx; [exact Hx|]. destruct l as [|a l]; [destruct Hx|].
    right. apply IH. exact Hx.
Qed.

Lemma upper_ge c : sfn_invalid_char c = false -> 32 <= upper c.
Proof.
  unfold sfn_invalid_char, upper. intros H. apply orb_false_iff in H. destruct H as [H1 H2].
  apply N.leb_gt in H1. cbn [existsb] in H2. repeat (apply orb_false_iff in H2; destruct H2 as [? H2]).
  destruct ((97 <=? c) && (c <=? 122)) eqn:E; [|lia].
  apply andb_true_iff in E. destruct E as [E1 E2]. apply N.leb_le in E1. lia.
Qed.

Lemma sfn_loop_wf : forall chars contents idx seen r, sfn_wf contents ->
  sfn_loop chars contents idx seen = Some r -> sfn_wf r.
Proof.
  induction chars as [|ch rest IH]; intros contents idx seen r Hc H; cbn [sfn_loop] in H.
  - destruct (idx =? 0); [discriminate|]. injection H as <-. exact Hc.
  - destruct (sfn_invalid_char ch) eqn:Ei; [discriminate|].
    destruct (255 <? ch); [discriminate|].
    destruct (ch =? 46).
    + destruct (negb seen && (1 <=? idx) && (idx <=? 8)); [|discriminate]. exact (IH _ _ _ _ Hc H).
    + cbv zeta in H. destruct seen.
      * destruct ((8 <=? idx) && (idx <? 11)) eqn:E; [|discriminate].
        apply andb_true_iff in E. destruct E as [_ E]. apply N.ltb_lt in E.
        exact (IH _ _ _ _ (set_bytes_one_wf _ _ _ Hc E (upper_ge ch Ei)) H).
      * destruct (idx <? 8) eqn:E; [|discriminate]. apply N.ltb_lt in E.
        assert (E' : idx < 11) by lia.
        exact (IH _ _ _ _ (set_bytes_one_wf _ _ _ Hc E' (upper_ge ch Ei)) H).
Qed.

Theorem sfn_of_str_wf name sfn : sfn_of_str name = Some sfn -> sfn_wf sfn.
Proof.
  unfold sfn_of_str. destruct (list_eqb name [46; 46]).
  { intros H. injection H as <-. split; [reflexivity|]. unfold PARENT_DIR_NAME. repeat constructor; lia. }
  destruct (list_eqb name [] || list_eqb name [46]).
  { intros H. injection H as <-. split; [reflexivity|]. unfold THIS_DIR_NAME. repeat constructor; lia. }
  apply sfn_loop_wf. split; [reflexivity|]. cbn [repeat]. repeat constructor; lia.
Qed.

(* ================================================================== 3. the directory behind a handle *)
(* c designates a directory of the tree: the root, or the first cluster of a directory node *)
Definition go_is_dir (T : list node) (c : N) : Prop :=
  c = CL_ROOT \/ exists e ch ks, In (NDir e ch ks) (all_nodes T) /\ e_cluster e = c.

Lemma flatten_ok d v : forall m p, node_ok d v p m -> forall n, In n (flatten m) ->
  n = m \/ exists e ch ks, In (NDir e ch ks) (flatten m) /\ node_ok d v (e_cluster e) n.
Proof.
  induction m as [e ch|e ch kids IH] using node_ind'; intros p Hm n Hn.
  - destruct Hn as [<-|[]]. left. reflexivity.
  - destruct Hn as [<-|Hn]; [left; reflexivity|]. right.
    apply in_flat_map in Hn. destruct Hn as (k & Hk & Hn).
    apply node_ok_dir in Hm. destruct Hm as (_ & Hkids).
    rewrite Forall_forall in IH, Hkids.
    destruct (IH k Hk (e_cluster e) (Hkids k Hk) n Hn) as [->|(e' & ch' & ks' & A & B)].
    + exists e, ch, kids. split; [apply flatten_self|exact (Hkids k Hk)].
    + exists e', ch', ks'. split; [exact (flatten_kid e ch kids k _ Hk A)|exact B].
Qed.

Lemma all_nodes_ok d v T : Forall (node_ok d v CL_ROOT) T -> forall n, In n (all_nodes T) ->
  exists p, node_ok d v p n /\ go_is_dir T p.
Proof.
  intros HT n Hn. apply in_flat_map in Hn. destruct Hn as (m & Hm & Hn).
  rewrite Forall_forall in HT.
  destruct (flatten_ok d v m CL_ROOT (HT m Hm) n Hn) as [->|(e & ch & ks & A & B)].
  - exists CL_ROOT. split; [exact (HT m Hm)|left; reflexivity].
  - exists (e_cluster e). split; [exact B|]. right. exists e, ch, ks. split; [|reflexivity].
    apply in_flat_map. exists m. split; assumption.
Qed.

(* the directory dc of the tree: its blocks, its soundness record, its kids *)
Record dir_ctx (d : disk) (v : vol) (bl : list N) (T : list node) (dc : N) (bl' : list N) (parent : N) (kids : list node) : Prop :=
  mk_dir_ctx {
  dx_blocks : dir_blocks d v dc = Some bl';
  dx_ok : dir_ok d v dc parent bl';
  dx_kids : Forall2 (node_rep d v) kids (dir_nodes d bl');
  dx_sub : forall n, In n kids -> In n (all_nodes T);
  dx_parent : go_is_dir T parent;
  dx_kids_ok : Forall (node_ok d v dc) kids;
  dx_where : (dc = CL_ROOT /\ bl' = bl /\ kids = T /\ parent = CL_ROOT) \/
             (exists e ch, In (NDir e ch kids) (all_nodes T) /\ e_cluster e = dc /\ bl' = data_blocks v ch /\
                           chain_at d v dc ch /\ 2 <= dc /\ dc < v_clusters v + 2)
}.

Lemma dir_blocks_chain d v c ch : vol_ok v -> chain_at d v c ch -> dir_blocks d v c = Some (data_blocks v ch).
Proof.
  intros Hv Hch. destruct (chain_of_head _ _ _ _ _ Hch) as (R1 & R2 & _).
  unfold dir_blocks, dir_first_cluster.
  replace (c =? CL_ROOT) with false by (symmetry; apply N.eqb_neq; exact (in_range_not_root v c Hv R2)).
  rewrite !andb_false_r. unfold chain_at in Hch. rewrite Hch. reflexivity.
Qed.

Theorem dir_ctx_of fsz vid s vi v bl rch T dc : fs_inv_at fsz vid s vi v bl rch T -> go_is_dir T dc ->
  exists bl' parent kids, dir_ctx (s_disk s) v bl T dc bl' parent kids.
Proof.
  intros Hinv Hdc. destruct (go_facts _ _ _ _ _ _ _ _ Hinv) as (_ & _ & _ & _ & _ & _ & Hv & _).
  pose proof (fi_disk _ _ _ _ _ _ _ _ Hinv) as [Droot Dtree Drootok Dnodes Dwf].
  destruct Hdc as [->|(e & ch & kids & Hn & <-)].
  - exists bl, CL_ROOT, T. constructor.
    + unfold root_dir in Droot. unfold dir_blocks, dir_first_cluster. rewrite N.eqb_refl, !andb_true_r.
      destruct (v_fat32 v); cbn [negb].
      * destruct Droot as (Hch & ->). unfold chain_at in Hch. rewrite Hch. reflexivity.
      * destruct Droot as (_ & ->). reflexivity.
    + exact Drootok.
    + exact Dtree.
    + intros n Hn. exact (all_nodes_top T n Hn).
    + left. reflexivity.
    + exact Dnodes.
    + left. repeat split; reflexivity.
  - destruct (all_nodes_rep _ _ _ _ Dtree _ Hn) as (t & bl0 & Hr & _).
    apply node_rep_dir in Hr. destruct Hr as (_ & _ & Hch & Hkids).
    destruct (all_nodes_ok _ _ _ Dnodes _ Hn) as (p & Hok & Hp).
    apply node_ok_dir in Hok. destruct Hok as (Hdok & Hkok).
    destruct (chain_of_head _ _ _ _ _ Hch) as (R1 & R2 & _).
    exists (data_blocks v ch), p, kids. constructor.
    + exact (dir_blocks_chain _ _ _ _ Hv Hch).
    + exact Hdok.
    + exact Hkids.
    + intros k Hk. exact (all_nodes_trans T _ k Hn (flatten_kid e ch kids k k Hk (flatten_self k))).
    + exact Hp.
    + exact Hkok.
    + right. exists e, ch. repeat (split; [first [assumption|reflexivity]|]). assumption.
Qed.

(* ---- resolution of a directory handle under the invariant ---- *)
Lemma vol_lookup s v h : s_vols s = [v] ->
  get_volume_by_id h s = if v_id v =? h then (Ok 0%nat, s) else (Err BadHandle, s).
Proof.
  intros Ev. rewrite PrHandles.get_volume_by_id_eq, Ev. cbn [find_idx]. destruct (v_id v =? h); reflexivity.
Qed.

Inductive dir_res (s : st) (v : vol) (T : list node) (d : N) : Prop :=
  | DrStale : PrHandles.no_dir d s -> dir_res s v T d
  | DrForeign di dd : get_dir_by_id d s = (Ok di, s) -> get_dir di s = (Ok dd, s) -> d_vol dd <> v_id v ->
      get_volume_by_id (d_vol dd) s = (Err BadHandle, s) -> dir_res s v T d
  | DrOk di dd : PrModes.resolves s d di dd 0 v -> d_vol dd = v_id v -> go_is_dir T (d_cluster dd) ->
      In dd (s_dirs s) -> dir_res s v T d.

Lemma dir_resolve fsz vid s vi v bl rch T d : fs_inv_at fsz vid s vi v bl rch T -> dir_res s v T d.
Proof.
  intros Hinv. destruct (go_facts _ _ _ _ _ _ _ _ Hinv) as (Hl & _ & _ & Ev & _ & Hv0 & _).
  destruct (find_idx (fun x => d_id x =? d) (s_dirs s) 0) as [di|] eqn:E.
  - destruct (find_idx_nth _ _ _ _ E) as (dd & Hdd & _). rewrite Nat.sub_0_r in Hdd.
    assert (H1 : get_dir_by_id d s = (Ok di, s)) by (rewrite PrHandles.get_dir_by_id_eq, E; reflexivity).
    assert (H2 : get_dir di s = (Ok dd, s)) by (rewrite PrHandles.get_dir_eq, Hdd; reflexivity).
    pose proof (vol_lookup s v (d_vol dd) Ev) as H3.
    destruct (N.eqb_spec (v_id v) (d_vol dd)) as [Eq|Ne].
    + apply (DrOk s v T d di dd); [|symmetry; exact Eq| |exact (nth_error_In _ _ Hdd)].
      * split; [exact Hl|]. split; [exact H1|]. split; [exact H2|]. split; [exact H3|].
        rewrite PrHandles.get_vol_eq, Hv0. reflexivity.
      * pose proof (fi_dirs _ _ _ _ _ _ _ _ Hinv) as Hd. rewrite Forall_forall in Hd.
        exact (Hd dd (nth_error_In _ _ Hdd) (eq_sym Eq)).
    + apply (DrForeign s v T d di dd H1 H2); [congruence|exact H3].
  - apply DrStale. intros x Hx. apply N.eqb_neq. exact (find_idx_none_inv _ _ _ E x Hx).
Qed.

(* ================================================================== 4. the operations that write nothing *)
(* ---- OpenRoot: the volume handle is not looked up; a handle on CL_ROOT is pushed ---- *)
Lemma open_root_dir_eq h s : s_lock s = false ->
  open_root_dir h s =
  if is_full (s_dirs s) (s_maxd s)
  then (Err TooManyOpenDirs, set_s_next_id s ((s_next_id s + 1) mod U32))
  else (Ok (s_next_id s), PrModes.push_new_dir s h CL_ROOT).
Proof.
  intros Hl. unfold open_root_dir. rewrite (PrHandles.locked_free _ s Hl).
  destruct (is_full (s_dirs s) (s_maxd s)) eqn:Hf; [|exact (PrModes.open_dir_tail s h CL_ROOT Hf)].
  rewrite (bind_ok _ _ _ _ _ (generate_spec s)). unfold push_dir. unfold bind at 1. rewrite PrHandles.bind_get.
  cbn [s_dirs s_maxd set_s_next_id]. rewrite Hf. reflexivity.
Qed.

(* the invariant after the handle counter advanced and, possibly, a handle was pushed *)
Lemma go_bump fsz vid s vi v bl rch T n : fs_inv_at fsz vid s vi v bl rch T ->
  fs_inv_at fsz vid (set_s_next_id s n) vi v bl rch T.
Proof.
  intros Hinv. destruct (go_facts _ _ _ _ _ _ _ _ Hinv) as (Hl & Hnf & Hc & _).
  apply (go_transport fsz vid s _ vi v bl rch T Hinv); try reflexivity; try assumption.
  exact (fi_dirs _ _ _ _ _ _ _ _ Hinv).
Qed.

Lemma go_push_dir fsz vid s vi v bl rch T vol_id c : fs_inv_at fsz vid s vi v bl rch T ->
  (vol_id = v_id v -> go_is_dir T c) ->
  fs_inv_at fsz vid (PrModes.push_new_dir s vol_id c) vi v bl rch T.
Proof.
  intros Hinv Hc0. destruct (go_facts _ _ _ _ _ _ _ _ Hinv) as (Hl & Hnf & Hc & _).
  apply (go_transport fsz vid s _ vi v bl rch T Hinv); try reflexivity; try assumption.
  unfold PrModes.push_new_dir. cbn [s_dirs set_s_dirs]. apply Forall_app. split; [exact (fi_dirs _ _ _ _ _ _ _ _ Hinv)|].
  constructor; [|constructor]. intros E. cbn [d_vol d_cluster] in *. exact (Hc0 E).
Qed.

Theorem step_ok_OpenRoot fsz vid h : step_ok fsz vid (OpenRoot h).
Proof.
  intros s r s' Hinv _ _ Hs. pose proof (fs_inv_lock fsz vid s Hinv) as Hl.
  cbn [step] in Hs. pose proof (open_root_dir_eq h s Hl) as E.
  destruct Hinv as (vi & v & bl & rch & T & Hat).
  assert (Hinv : fs_inv fsz vid s) by (exists vi, v, bl, rch, T; exact Hat).
  destruct (is_full (s_dirs s) (s_maxd s)).
  - rewrite (lift_err' _ _ _ _ _ E) in Hs. injection Hs as <- <-.
    apply go_conclude; try discriminate; try reflexivity; [exact Hinv| |apply PrOrder.tsteps_same_trace; reflexivity].
    exists vi, v, bl, rch, T. apply go_bump. exact Hat.
  - rewrite (lift_ok' _ _ _ _ _ E) in Hs. injection Hs as <- <-.
    apply go_conclude; try discriminate; try reflexivity; [exact Hinv| |apply PrOrder.tsteps_same_trace; reflexivity].
    exists vi, v, bl, rch, T. apply go_push_dir; [exact Hat|]. intros _. left. reflexivity.
Qed.

(* ---- CloseDir ---- *)
Theorem step_ok_CloseDir fsz vid h : step_ok fsz vid (CloseDir h).
Proof.
  intros s r s' Hinv _ _ Hs. pose proof (fs_inv_lock fsz vid s Hinv) as Hl.
  cbn [step] in Hs.
  destruct (find_idx (fun x => d_id x =? h) (s_dirs s) 0) as [di|] eqn:E.
  - assert (Hrun : close_dir h s = (Ok tt, set_s_dirs s (swap_remove (s_dirs s) di))).
    { unfold close_dir. rewrite (PrHandles.locked_free _ s Hl). unfold bind.
      rewrite PrHandles.get_dir_by_id_eq, E. reflexivity. }
    rewrite (lift_ok' _ _ _ _ _ Hrun) in Hs. injection Hs as <- <-.
    apply go_conclude; try discriminate; try reflexivity; [exact Hinv| |apply PrOrder.tsteps_same_trace; reflexivity].
    destruct Hinv as (vi & v & bl & rch & T & Hat). exists vi, v, bl, rch, T.
    destruct (go_facts _ _ _ _ _ _ _ _ Hat) as (_ & Hnf & Hc & _).
    apply (go_transport fsz vid s _ vi v bl rch T Hat); try reflexivity; try assumption.
    cbn [s_dirs set_s_dirs]. pose proof (fi_dirs _ _ _ _ _ _ _ _ Hat) as Hd. rewrite Forall_forall in *.
    intros x Hx. apply Hd. exact (swap_remove_subset _ _ _ Hx).
  - assert (Hno : PrHandles.no_dir h s) by (intros x Hx; apply N.eqb_neq; exact (find_idx_none_inv _ _ _ E x Hx)).
    destruct (PrHandles.C08_stale_dir_handle h s Hl Hno) as (E1 & _). cbn [step] in E1.
    rewrite E1 in Hs. injection Hs as <- <-. apply step_ok_same; [exact Hinv|discriminate|discriminate].
Qed.

(* ---- the lookup in a directory of the tree ---- *)
Lemma find_run fsz vid s vi v bl rch T dc sfn : fs_inv_at fsz vid s vi v bl rch T -> go_is_dir T dc ->
  exists bl' parent kids s1, dir_ctx (s_disk s) v bl T dc bl' parent kids /\
    find_directory_entry 0 dc sfn s =
      (match find (t_matches sfn) (live_in_blocks (s_disk s) bl') with
       | Some t => Ok (t_entry (v_fat32 v) t) | None => Err NotFound end, s1) /\
    ro_step s s1 /\ PrModes.reads_only s s1.
Proof.
  intros Hinv Hdc. destruct (go_facts _ _ _ _ _ _ _ _ Hinv) as (_ & Hnf & Hc & _ & _ & Hv0 & Hv & _).
  destruct (dir_ctx_of _ _ _ _ _ _ _ _ dc Hinv Hdc) as (bl' & parent & kids & Hctx).
  destruct (C06_find 0 v dc sfn s bl' Hv0 Hv Hnf Hc (dx_blocks _ _ _ _ _ _ _ _ Hctx)) as (s1 & Hrun & Hro).
  exists bl', parent, kids, s1. split; [exact Hctx|]. split; [exact Hrun|]. split; [exact Hro|].
  exact (PrModes.find_directory_entry_reads_only _ _ _ _ _ _ Hrun).
Qed.

Lemma go_ro_inv fsz vid s s1 : fs_inv fsz vid s -> ro_step s s1 -> fs_inv fsz vid s1.
Proof. intros (vi & v & bl & rch & T & Hat) Hro. exists vi, v, bl, rch, T. exact (go_ro _ _ _ _ _ _ _ _ _ Hat Hro). Qed.

Lemma ro_step_vols s s1 : ro_step s s1 -> s_vols s1 = s_vols s.
Proof. intros (_ & _ & _ & (M1 & _)). exact M1. Qed.

(* ---- Find ---- *)
Theorem step_ok_Find fsz vid h name : step_ok fsz vid (Find h name).
Proof.
  intros s r s' Hinv _ _ Hs. pose proof (fs_inv_lock fsz vid s Hinv) as Hl.
  cbn [step] in Hs. destruct Hinv as (vi & v & bl & rch & T & Hat).
  assert (Hinv : fs_inv fsz vid s) by (exists vi, v, bl, rch, T; exact Hat).
  destruct (dir_resolve _ _ _ _ _ _ _ _ h Hat) as [Hno|di dd H1 H2 Hne H3|di dd Hres Hvol Hdir Hin].
  - destruct (PrHandles.C08_stale_dir_handle h s Hl Hno) as (_ & E1 & _). specialize (E1 name). cbn [step] in E1.
    rewrite E1 in Hs. injection Hs as <- <-. apply step_ok_same; [exact Hinv|discriminate|discriminate].
  - assert (E : mgr_find h name s = (Err BadHandle, s)).
    { unfold mgr_find. rewrite (PrHandles.locked_free _ s Hl).
      rewrite (bind_ok _ _ _ _ _ H1), (bind_ok _ _ _ _ _ H2). apply bind_err. exact H3. }
    rewrite (lift_err' _ _ _ _ _ E) in Hs. injection Hs as <- <-. apply step_ok_same; [exact Hinv|discriminate|discriminate].
  - pose proof Hres as (_ & H1 & H2 & H3 & _).
    assert (E : mgr_find h name s = match sfn_of_str name with
                                    | None => (Err FilenameError, s)
                                    | Some sfn => find_directory_entry 0 (d_cluster dd) sfn s end).
    { unfold mgr_find. rewrite (PrHandles.locked_free _ s Hl).
      rewrite (bind_ok _ _ _ _ _ H1), (bind_ok _ _ _ _ _ H2), (bind_ok _ _ _ _ _ H3).
      destruct (sfn_of_str name); reflexivity. }
    destruct (sfn_of_str name) as [sfn|].
    + destruct (find_run _ _ _ _ _ _ _ _ (d_cluster dd) sfn Hat Hdir) as (bl' & parent & kids & s1 & _ & Hrun & Hro & Hrd).
      rewrite Hrun in E.
      assert (Hfin : fs_inv fsz vid s1) by exact (go_ro_inv _ _ _ _ Hinv Hro).
      destruct (find (t_matches sfn) (live_in_blocks (s_disk s) bl')) as [t|].
      * rewrite (lift_ok' _ _ _ _ _ E) in Hs. injection Hs as <- <-.
        apply go_conclude; try discriminate; [exact Hinv|exact Hfin|exact (ro_step_vols _ _ Hro)|exact (reads_only_tsteps _ _ Hrd)].
      * rewrite (lift_err' _ _ _ _ _ E) in Hs. injection Hs as <- <-.
        apply go_conclude; try discriminate; [exact Hinv|exact Hfin|exact (ro_step_vols _ _ Hro)|exact (reads_only_tsteps _ _ Hrd)].
    + rewrite (lift_err' _ _ _ _ _ E) in Hs. injection Hs as <- <-. apply step_ok_same; [exact Hinv|discriminate|discriminate].
Qed.

(* ---- Iter: the listing only reads; the callback runs under the lock ---- *)
#[local] Hint Resolve PrModes.ro_ret PrModes.ro_fail PrModes.ro_panic PrModes.ro_oof PrModes.ro_get PrModes.ro_get_vol
  PrModes.ro_dev_read PrModes.ro_add32 PrModes.ro_sub32 PrModes.ro_mul32 PrModes.ro_cache_read PrModes.ro_fat_block
  PrModes.ro_cluster_to_block PrModes.ro_next_cluster : ro.

Lemma ro_iter_blocks fat32 : forall n i acc, PrModes.ro (iter_blocks n fat32 i acc).
Proof. induction n as [|n IH]; intros i acc; cbn [iter_blocks]; PrModes.ro_go. Qed.

Lemma ro_iter_walk vi : forall fuel c acc, PrModes.ro (iter_walk fuel vi c acc).
Proof.
  induction fuel as [|f IH]; intros c acc; cbn [iter_walk]; PrModes.ro_go; try apply ro_iter_blocks.
Qed.

Lemma ro_iterate_dir_all vi c : PrModes.ro (iterate_dir_all vi c).
Proof. unfold iterate_dir_all. PrModes.ro_go. apply ro_iter_walk. Qed.

(* a call made while the lock is held changes nothing and fails softly *)
Lemma locked_step o s : s_lock s = true -> no_remount o ->
  exists r, step o s = (r, s) /\ r <> Panic /\ r <> OutOfFuel.
Proof.
  intros Hl Hn. destruct (PrHandles.result_returning o) eqn:Hr.
  - exists (Err LockError). split; [exact (PrHandles.C08_reentrant o s Hl Hr)|split; discriminate].
  - destruct (PrHandles.C08_reentrant_excluded s Hl) as (A & B & C & [b D]).
    destruct o; cbn [PrHandles.result_returning] in Hr; try discriminate.
    + exists (Ok (RBool b)). split; [exact D|split; discriminate].
    + exists (Err InvalidOffset). split; [exact (A f w x Hr)|split; discriminate].
    + apply negb_false_iff in Hr. apply N.eqb_eq in Hr. subst n.
      exists (Ok (RBytes [])). split; [exact (B f)|split; discriminate].
    + destruct data; [|discriminate]. exists (Ok (RNum 0)). split; [exact (C f)|split; discriminate].
    + destruct Hn.
Qed.

Lemma go_unlock fsz vid s vi v bl rch T : fs_inv_at fsz vid s vi v bl rch T ->
  fs_inv_at fsz vid (set_s_lock (set_s_lock s true) false) vi v bl rch T.
Proof.
  intros Hinv. destruct (go_facts _ _ _ _ _ _ _ _ Hinv) as (Hl & Hnf & Hc & _).
  apply (go_transport fsz vid s _ vi v bl rch T Hinv); try reflexivity; try assumption.
  exact (fi_dirs _ _ _ _ _ _ _ _ Hinv).
Qed.

(* the listing part, for a handle of the volume *)
Lemma iter_listing_run fsz vid s vi v bl rch T d di dd : fs_inv_at fsz vid s vi v bl rch T ->
  PrModes.resolves s d di dd 0 v -> go_is_dir T (d_cluster dd) ->
  exists shown s1, PrHandles.iter_listing d s = (Ok shown, s1) /\ ro_step s s1 /\ PrModes.reads_only s s1.
Proof.
  intros Hinv Hres Hdir. destruct (go_facts _ _ _ _ _ _ _ _ Hinv) as (_ & Hnf & Hc & _ & _ & Hv0 & Hv & _).
  destruct (dir_ctx_of _ _ _ _ _ _ _ _ (d_cluster dd) Hinv Hdir) as (bl' & parent & kids & Hctx).
  destruct (C06_iterate 0 v (d_cluster dd) s bl' Hv0 Hv Hnf Hc (dx_blocks _ _ _ _ _ _ _ _ Hctx)) as (s1 & Hrun & Hro).
  pose proof Hres as (_ & H1 & H2 & H3 & _).
  eexists. exists s1. split; [|split; [exact Hro|exact (ro_iterate_dir_all _ _ _ _ _ Hrun)]].
  unfold PrHandles.iter_listing.
  rewrite (bind_ok _ _ _ _ _ H1), (bind_ok _ _ _ _ _ H2), (bind_ok _ _ _ _ _ H3), (bind_ok _ _ _ _ _ Hrun).
  reflexivity.
Qed.

(* a call that wrote nothing, kept the volume table, and re-established the invariant *)
Definition quiet (fsz vid : N) (s s' : st) : Prop :=
  fs_inv fsz vid s' /\ s_vols s' = s_vols s /\ PrOrder.tsteps s s' [].

Lemma quiet_refl fsz vid s : fs_inv fsz vid s -> quiet fsz vid s s.
Proof. intros H. split; [exact H|]. split; [reflexivity|apply PrOrder.tsteps_refl]. Qed.

Lemma quiet_trans fsz vid a b c : quiet fsz vid a b -> quiet fsz vid b c -> quiet fsz vid a c.
Proof.
  intros (_ & V1 & T1) (I2 & V2 & T2). split; [exact I2|]. split; [congruence|].
  exact (PrOrder.tsteps_trans _ _ _ [] [] T1 T2).
Qed.

Lemma quiet_ro fsz vid s s1 : fs_inv fsz vid s -> ro_step s s1 -> PrModes.reads_only s s1 -> quiet fsz vid s s1.
Proof.
  intros Hinv Hro Hrd. split; [exact (go_ro_inv _ _ _ _ Hinv Hro)|]. split; [exact (ro_step_vols _ _ Hro)|].
  exact (reads_only_tsteps _ _ Hrd).
Qed.

Lemma quiet_conclude fsz vid s (r : outcome res) s' : fs_inv fsz vid s -> r <> Panic -> r <> OutOfFuel ->
  quiet fsz vid s s' ->
  r <> Panic /\ r <> OutOfFuel /\ fs_inv fsz vid s' /\ same_geo s s' /\
  exists ws, PrOrder.tsteps s s' ws /\ forall v, In v (s_vols s) -> Forall (PrBounds.in_region v fsz) ws.
Proof. intros Hinv R1 R2 (A & B & C). apply go_conclude; assumption. Qed.

(* iterate_dir with any callback that, under the lock, changes nothing and fails softly *)
Lemma mgr_iterate_run {R} fsz vid s d (im : M R) o s' : fs_inv fsz vid s ->
  (forall sL, s_lock sL = true -> exists r, im sL = (r, sL) /\ r <> Panic /\ r <> OutOfFuel) ->
  mgr_iterate d im s = (o, s') ->
  o <> Panic /\ o <> OutOfFuel /\ quiet fsz vid s s'.
Proof.
  intros Hinv Him Hs. pose proof (fs_inv_lock fsz vid s Hinv) as Hl.
  destruct Hinv as (vi & v & bl & rch & T & Hat).
  assert (Hinv : fs_inv fsz vid s) by (exists vi, v, bl, rch, T; exact Hat).
  rewrite (proj1 (PrHandles.C08_iterate_holds_lock _ d im s Hl)) in Hs.
  assert (Hbad : PrHandles.iter_listing d s = (Err BadHandle, s) -> o <> Panic /\ o <> OutOfFuel /\ quiet fsz vid s s').
  { intros E. rewrite E in Hs. cbn [PrHandles.iterate_outcome] in Hs. injection Hs as <- <-.
    split; [discriminate|]. split; [discriminate|exact (quiet_refl _ _ _ Hinv)]. }
  destruct (dir_resolve _ _ _ _ _ _ _ _ d Hat) as [Hno|di dd H1 H2 Hne H3|di dd Hres Hvol Hdir Hdd].
  - apply Hbad. unfold PrHandles.iter_listing. apply bind_err. exact (PrHandles.get_dir_by_id_stale d s Hno).
  - apply Hbad. unfold PrHandles.iter_listing. rewrite (bind_ok _ _ _ _ _ H1), (bind_ok _ _ _ _ _ H2). apply bind_err. exact H3.
  - destruct (iter_listing_run _ _ _ _ _ _ _ _ d di dd Hat Hres Hdir) as (shown & s1 & E & Hro & Hrd).
    rewrite E in Hs. pose proof (go_ro _ _ _ _ _ _ _ _ _ Hat Hro) as Hat1.
    destruct shown as [|e0 shown]; cbn [PrHandles.iterate_outcome] in Hs.
    + injection Hs as <- <-. split; [discriminate|]. split; [discriminate|exact (quiet_ro _ _ _ _ Hinv Hro Hrd)].
    + assert (Hq : quiet fsz vid s (set_s_lock (set_s_lock s1 true) false)).
      { split; [exists vi, v, bl, rch, T; exact (go_unlock _ _ _ _ _ _ _ _ Hat1)|]. split; [exact (ro_step_vols _ _ Hro)|].
        apply (tsteps_trace_eq s s1 _ [] (reads_only_tsteps _ _ Hrd)). reflexivity. }
      destruct (Him (set_s_lock s1 true) eq_refl) as (r' & Er & R1 & R2).
      rewrite Er in Hs. destruct r' as [a|e| |]; try contradiction; injection Hs as <- <-;
        (split; [discriminate|]; split; [discriminate|exact Hq]).
Qed.

Theorem step_ok_Iter fsz vid d inner : step_ok fsz vid (Iter d inner).
Proof.
  intros s r s' Hinv _ ((Hnr & _) & _) Hs. cbn [step] in Hs. unfold bind at 1 in Hs.
  destruct (mgr_iterate d match inner with Some o' => step o' | None => ret RUnit end s) as [o s1] eqn:E.
  apply (mgr_iterate_run fsz vid s d _ o s1 Hinv) in E.
  - destruct E as (R1 & R2 & Hq). destruct o as [a|e| |]; try contradiction; injection Hs as <- <-;
      apply quiet_conclude; try discriminate; assumption.
  - intros sL HL. destruct inner as [o'|].
    + exact (locked_step o' sL HL Hnr).
    + exists (Ok RUnit). split; [reflexivity|split; discriminate].
Qed.

(* ---- computations that are quiet from every state of the invariant ---- *)
Definition qm {A} (fsz vid : N) (m : M A) : Prop :=
  forall s o s', fs_inv fsz vid s -> m s = (o, s') -> o <> Panic /\ o <> OutOfFuel /\ quiet fsz vid s s'.

Lemma qm_ret {A} fsz vid (a : A) : qm fsz vid (ret a).
Proof. intros s o s' Hinv E. injection E as <- <-. split; [discriminate|]. split; [discriminate|exact (quiet_refl _ _ _ Hinv)]. Qed.

Lemma qm_fail {A} fsz vid e : qm fsz vid (@fail A e).
Proof. intros s o s' Hinv E. injection E as <- <-. split; [discriminate|]. split; [discriminate|exact (quiet_refl _ _ _ Hinv)]. Qed.

Lemma qm_bind {A B} fsz vid (m : M A) (k : A -> M B) : qm fsz vid m -> (forall a, qm fsz vid (k a)) -> qm fsz vid (bind m k).
Proof.
  intros Hm Hk s o s' Hinv E. unfold bind in E. destruct (m s) as [o1 s1] eqn:E1.
  destruct (Hm s o1 s1 Hinv E1) as (R1 & R2 & Q1).
  destruct o1 as [a|e| |]; try contradiction.
  - destruct (Hk a s1 o s' (proj1 Q1) E) as (R3 & R4 & Q2). split; [exact R3|]. split; [exact R4|exact (quiet_trans _ _ _ _ _ Q1 Q2)].
  - injection E as <- <-. split; [discriminate|]. split; [discriminate|exact Q1].
Qed.

Lemma qm_try {A} fsz vid (m : M A) : qm fsz vid m -> qm fsz vid (try m).
Proof.
  intros Hm s o s' Hinv E. unfold try in E. destruct (m s) as [o1 s1] eqn:E1.
  destruct (Hm s o1 s1 Hinv E1) as (R1 & R2 & Q1).
  destruct o1 as [a|e| |]; try contradiction; injection E as <- <-; (split; [discriminate|]; split; [discriminate|exact Q1]).
Qed.

Lemma qm_open_root_dir fsz vid h : qm fsz vid (open_root_dir h).
Proof.
  intros s o s' Hinv E. pose proof (fs_inv_lock fsz vid s Hinv) as Hl. rewrite (open_root_dir_eq h s Hl) in E.
  destruct Hinv as (vi & v & bl & rch & T & Hat).
  destruct (is_full (s_dirs s) (s_maxd s)); injection E as <- <-; (split; [discriminate|]; split; [discriminate|]).
  - split; [exists vi, v, bl, rch, T; apply go_bump; exact Hat|]. split; [reflexivity|apply PrOrder.tsteps_same_trace; reflexivity].
  - split; [exists vi, v, bl, rch, T; apply go_push_dir; [exact Hat|intros _; left; reflexivity]|].
    split; [reflexivity|apply PrOrder.tsteps_same_trace; reflexivity].
Qed.

Lemma qm_close_dir fsz vid h : qm fsz vid (close_dir h).
Proof.
  intros s o s' Hinv E. pose proof (fs_inv_lock fsz vid s Hinv) as Hl.
  unfold close_dir in E. rewrite (PrHandles.locked_free _ s Hl) in E. unfold bind in E.
  rewrite PrHandles.get_dir_by_id_eq in E.
  destruct (find_idx (fun x => d_id x =? h) (s_dirs s) 0) as [di|].
  - injection E as <- <-. split; [discriminate|]. split; [discriminate|].
    split; [|split; [reflexivity|apply PrOrder.tsteps_same_trace; reflexivity]].
    destruct Hinv as (vi & v & bl & rch & T & Hat). exists vi, v, bl, rch, T.
    destruct (go_facts _ _ _ _ _ _ _ _ Hat) as (_ & Hnf & Hc & _).
    apply (go_transport fsz vid s _ vi v bl rch T Hat); try reflexivity; try assumption.
    cbn [s_dirs set_s_dirs]. pose proof (fi_dirs _ _ _ _ _ _ _ _ Hat) as Hd. rewrite Forall_forall in *.
    intros x Hx. apply Hd. exact (swap_remove_subset _ _ _ Hx).
  - injection E as <- <-. split; [discriminate|]. split; [discriminate|exact (quiet_refl _ _ _ Hinv)].
Qed.

Lemma qm_mgr_iterate_plain fsz vid d : qm fsz vid (mgr_iterate d (ret tt)).
Proof.
  intros s o s' Hinv E. apply (mgr_iterate_run fsz vid s d (ret tt) o s' Hinv); [|exact E].
  intros sL _. exists (Ok tt). split; [reflexivity|split; discriminate].
Qed.

(* ---- Label ---- *)
Theorem step_ok_Label fsz vid h : step_ok fsz vid (Label h).
Proof.
  intros s r s' Hinv _ _ Hs. pose proof (fs_inv_lock fsz vid s Hinv) as Hl.
  destruct (fs_inv_vols fsz vid s Hinv) as (v & Ev & _).
  destruct (N.eqb_spec (v_id v) h) as [Eh|Nh].
  - cbn [step] in Hs. unfold lift, bind at 1 in Hs.
    destruct (get_root_volume_label h s) as [o s1] eqn:E.
    assert (Hq : o <> Panic /\ o <> OutOfFuel /\ quiet fsz vid s s1).
    { unfold get_root_volume_label in E. rewrite (PrHandles.locked_free _ s Hl) in E.
      assert (H1 : get_volume_by_id h s = (Ok 0%nat, s)).
      { rewrite (vol_lookup s v h Ev). apply N.eqb_eq in Eh. rewrite Eh. reflexivity. }
      assert (H2 : get_vol 0 s = (Ok v, s)) by (rewrite PrHandles.get_vol_eq, Ev; reflexivity).
      rewrite (bind_ok _ _ _ _ _ H1), (bind_ok _ _ _ _ _ H2) in E.
      destruct (trim_rev (rev (v_name v))).
      - revert E. apply (qm_bind fsz vid); [apply qm_open_root_dir|intros rd|exact Hinv].
        apply qm_bind; [apply qm_try, qm_mgr_iterate_plain|intros r0].
        apply qm_bind; [apply qm_try, qm_close_dir|intros _].
        destruct r0 as [[es o0]|e]; [|apply qm_fail].
        destruct (filter (fun e => e_attr e =? A_VOLUME) es); apply qm_ret.
      - injection E as <- <-. split; [discriminate|]. split; [discriminate|exact (quiet_refl _ _ _ Hinv)]. }
    destruct Hq as (R1 & R2 & Hq).
    destruct o as [a|e| |]; try contradiction; injection Hs as <- <-; apply quiet_conclude; try discriminate; assumption.
  - assert (Hno : PrHandles.no_vol h s) by (intros w Hw; rewrite Ev in Hw; destruct Hw as [<-|[]]; exact Nh).
    destruct (PrHandles.C08_stale_vol_handle h s Hl Hno) as (_ & E1).
    rewrite E1 in Hs. injection Hs as <- <-. apply step_ok_same; [exact Hinv|discriminate|discriminate].
Qed.

(* ================================================================== 5. what the lookup finds in a sound directory *)
Lemma sfn_first_byte sfn : sfn_wf sfn -> get8 sfn 0 <> 0.
Proof.
  intros (Hlen & Hall). destruct sfn as [|a l]; [discriminate|]. inversion Hall; subst. unfold get8. cbn [N.to_nat nth]. lia.
Qed.

Lemma live_is_dir_live d v own parent bl' : dir_ok d v own parent bl' -> live_in_blocks d bl' = dir_live d bl'.
Proof. intros H. exact (live_clean d bl' (do_tail _ _ _ _ _ H)). Qed.

(* the slot found is a live short entry with that name *)
Lemma found_slot d v own parent bl' sfn t : dir_ok d v own parent bl' -> sfn_wf sfn -> get8 sfn 0 <> 229 ->
  find (t_matches sfn) (live_in_blocks d bl') = Some t ->
  In t (dir_shorts d bl') /\ t_name t = sfn.
Proof.
  intros Hok Hwf H229 Hfind. rewrite (live_is_dir_live d v own parent bl' Hok) in Hfind.
  destruct (find_some _ _ Hfind) as [Hin Hm]. unfold t_matches in Hm.
  pose proof (matches_first _ _ Hm) as Hname. split; [|exact Hname].
  unfold dir_shorts. apply filter_In. split; [exact Hin|]. unfold short_slot.
  assert (Hval : t_is_valid t = true) by exact (matches_valid sfn (snd t) (sfn_first_byte sfn Hwf) H229 Hm).
  rewrite Hval. cbn [andb]. apply negb_true_iff. exact (proj1 (matches_parts _ _ Hm)).
Qed.

(* no live short entry has the name that was not found *)
Lemma notfound_slot d v own parent bl' sfn : dir_ok d v own parent bl' ->
  find (t_matches sfn) (live_in_blocks d bl') = None ->
  ~ In sfn (map t_name (dir_shorts d bl')).
Proof.
  intros Hok Hfind Hin. rewrite (live_is_dir_live d v own parent bl' Hok) in Hfind.
  apply in_map_iff in Hin. destruct Hin as (t & Hn & Ht). unfold dir_shorts in Ht. apply filter_In in Ht.
  pose proof (find_none _ _ Hfind t (proj1 Ht)) as Hm. unfold t_matches, matches in Hm.
  destruct (short_valid t (proj2 Ht)) as [_ Hnl]. unfold t_attr in Hnl.
  unfold t_name in Hn. rewrite Hn, list_eqb_refl, Hnl in Hm. discriminate.
Qed.

(* a live short entry that is no dot entry stands for a kid *)
Lemma short_kid d v bl T dc bl' parent kids t : dir_ctx d v bl T dc bl' parent kids ->
  In t (dir_shorts d bl') -> dot_slot t = false ->
  exists n, In n kids /\ node_rep d v n t /\ In n (all_nodes T) /\ In t (dir_nodes d bl').
Proof.
  intros Hctx Ht Hdot. unfold dir_shorts in Ht. apply filter_In in Ht. destruct Ht as [Hlive Hshort].
  assert (Hn : In t (dir_nodes d bl')).
  { unfold dir_nodes. apply filter_In. split; [exact Hlive|]. unfold node_slot. rewrite Hshort, Hdot. reflexivity. }
  destruct (Forall2_In_r _ _ _ t (dx_kids _ _ _ _ _ _ _ _ Hctx) Hn) as (n & Hk & Hr).
  exists n. split; [exact Hk|]. split; [exact Hr|]. split; [exact (dx_sub _ _ _ _ _ _ _ _ Hctx n Hk)|exact Hn].
Qed.

(* the dot-dot entry of a directory points at its parent *)
Lemma dotdot_parent d v bl T dc bl' parent kids t : dir_ctx d v bl T dc bl' parent kids ->
  In t (dir_shorts d bl') -> t_name t = PARENT_DIR_NAME ->
  e_cluster (t_entry (v_fat32 v) t) = parent.
Proof.
  intros Hctx Ht Hname. unfold dir_shorts in Ht. apply filter_In in Ht. destruct Ht as [Hlive Hshort].
  assert (Hdot : dot_slot t = true) by (unfold dot_slot; rewrite Hname; reflexivity).
  pose proof (do_dots _ _ _ _ _ (dx_ok _ _ _ _ _ _ _ _ Hctx)) as Hd. unfold dots_ok in Hd.
  assert (Hnd : forall l, no_dots l -> In t l -> False).
  { intros l Hl Hin. unfold no_dots in Hl. rewrite Forall_forall in Hl. rewrite (Hl t Hin Hshort) in Hdot. discriminate. }
  destruct (dc =? CL_ROOT); [exfalso; exact (Hnd _ Hd Hlive)|].
  destruct Hd as (t0 & t1 & rest & El & (_ & N0 & _) & (_ & _ & _ & C1) & Hrest).
  rewrite El in Hlive. destruct Hlive as [<-|[<-|Hin]].
  - rewrite Hname in N0. discriminate N0.
  - exact C1.
  - exfalso. exact (Hnd _ Hrest Hin).
Qed.

Lemma found_dir_is_dir d v bl T dc bl' parent kids sfn t : dir_ctx d v bl T dc bl' parent kids ->
  sfn_wf sfn -> get8 sfn 0 <> 229 -> list_eqb sfn THIS_DIR_NAME = false ->
  find (t_matches sfn) (live_in_blocks d bl') = Some t ->
  is_directory (e_attr (t_entry (v_fat32 v) t)) = true ->
  go_is_dir T (e_cluster (t_entry (v_fat32 v) t)).
Proof.
  intros Hctx Hwf H229 Hthis Hfind Hisdir.
  destruct (found_slot d v dc parent bl' sfn t (dx_ok _ _ _ _ _ _ _ _ Hctx) Hwf H229 Hfind) as (Hshort & Hname).
  destruct (list_eqb sfn PARENT_DIR_NAME) eqn:Epar.
  - apply list_eqb_true in Epar. rewrite (dotdot_parent d v bl T dc bl' parent kids t Hctx Hshort ltac:(congruence)).
    exact (dx_parent _ _ _ _ _ _ _ _ Hctx).
  - assert (Hdot : dot_slot t = false) by (unfold dot_slot; rewrite Hname, Hthis, Epar; reflexivity).
    destruct (short_kid d v bl T dc bl' parent kids t Hctx Hshort Hdot) as (n & _ & Hr & Hall & _).
    destruct n as [e ch|e ch ks].
    + apply node_rep_file in Hr. destruct Hr as (-> & Hnd & _). congruence.
    + apply node_rep_dir in Hr. destruct Hr as (-> & _). right. exists (t_entry (v_fat32 v) t), ch, ks. split; [exact Hall|reflexivity].
Qed.

(* ---- OpenDir ---- *)
Theorem step_ok_OpenDir fsz vid h name : step_ok fsz vid (OpenDir h name).
Proof.
  intros s r s' Hinv _ (_ & Hname) Hs. pose proof (fs_inv_lock fsz vid s Hinv) as Hl.
  cbn [op_name_ok] in Hname. destruct Hinv as (vi & v & bl & rch & T & Hat).
  assert (Hinv : fs_inv fsz vid s) by (exists vi, v, bl, rch, T; exact Hat).
  destruct (dir_resolve _ _ _ _ _ _ _ _ h Hat) as [Hno|di dd H1 H2 Hne H3|di dd Hres Hvol Hdir Hdd].
  { destruct (PrHandles.C08_stale_dir_handle h s Hl Hno) as (_ & _ & _ & _ & E1 & _). rewrite (E1 name) in Hs.
    injection Hs as <- <-. apply step_ok_same; [exact Hinv|discriminate|discriminate]. }
  { cbn [step] in Hs.
    assert (E : exists e, open_dir h name s = (Err e, s)).
    { unfold open_dir. rewrite (PrHandles.locked_free _ s Hl), PrHandles.bind_get.
      destruct (is_full (s_dirs s) (s_maxd s)); [eexists; reflexivity|].
      exists BadHandle. rewrite (bind_ok _ _ _ _ _ H1), (bind_ok _ _ _ _ _ H2). apply bind_err. exact H3. }
    destruct E as (e & E). rewrite (lift_err' _ _ _ _ _ E) in Hs. injection Hs as <- <-.
    apply step_ok_same; [exact Hinv|discriminate|discriminate]. }
  cbn [step] in Hs.
  destruct (is_full (s_dirs s) (s_maxd s)) eqn:Hfull.
  { assert (E : open_dir h name s = (Err TooManyOpenDirs, s)).
    { unfold open_dir. rewrite (PrHandles.locked_free _ s Hl), PrHandles.bind_get, Hfull. reflexivity. }
    rewrite (lift_err' _ _ _ _ _ E) in Hs. injection Hs as <- <-.
    apply step_ok_same; [exact Hinv|discriminate|discriminate]. }
  destruct (PrModes.C06_open_dir s h di dd 0%nat v name Hres Hfull) as (Hvid & Htab).
  unfold e5_name in Hname.
  destruct (sfn_of_str name) as [sfn|] eqn:Hsfn.
  2:{ rewrite (lift_err' _ _ _ _ _ Htab) in Hs. injection Hs as <- <-.
      apply step_ok_same; [exact Hinv|discriminate|discriminate]. }
  apply N.eqb_neq in Hname. pose proof (sfn_of_str_wf name sfn Hsfn) as Hwf.
  destruct (list_eqb sfn THIS_DIR_NAME) eqn:Ethis.
  { rewrite (lift_ok' _ _ _ _ _ Htab) in Hs. injection Hs as <- <-.
    apply quiet_conclude; try discriminate; [exact Hinv|].
    split; [|split; [reflexivity|apply PrOrder.tsteps_same_trace; reflexivity]].
    exists vi, v, bl, rch, T. apply go_push_dir; [exact Hat|]. intros _. exact Hdir. }
  destruct (find_run _ _ _ _ _ _ _ _ (d_cluster dd) sfn Hat Hdir) as (bl' & parent & kids & s1 & Hctx & Hrun & Hro & Hrd).
  destruct (Htab _ _ Hrun) as (_ & Hopen).
  pose proof (quiet_ro _ _ _ _ Hinv Hro Hrd) as Hq1.
  pose proof (go_ro _ _ _ _ _ _ _ _ _ Hat Hro) as Hat1.
  destruct (find (t_matches sfn) (live_in_blocks (s_disk s) bl')) as [t|] eqn:Hfind.
  - destruct (is_directory (e_attr (t_entry (v_fat32 v) t))) eqn:Hisdir.
    + rewrite (lift_ok' _ _ _ _ _ Hopen) in Hs. injection Hs as <- <-.
      apply quiet_conclude; try discriminate; [exact Hinv|].
      apply (quiet_trans _ _ _ _ _ Hq1).
      split; [|split; [reflexivity|apply PrOrder.tsteps_same_trace; reflexivity]].
      exists vi, v, bl, rch, T. apply go_push_dir; [exact Hat1|]. intros _.
      exact (found_dir_is_dir _ _ _ _ _ _ _ _ _ _ Hctx Hwf Hname Ethis Hfind Hisdir).
    + rewrite (lift_err' _ _ _ _ _ Hopen) in Hs. injection Hs as <- <-.
      apply quiet_conclude; try discriminate; assumption.
  - rewrite (lift_err' _ _ _ _ _ Hopen) in Hs. injection Hs as <- <-.
    apply quiet_conclude; try discriminate; assumption.
Qed.

(* ================================================================== 6. OpenFile *)
(* ---- a new record enters the file table ---- *)
Theorem go_push_file fsz vid s vi v bl rch T n nf : fs_inv_at fsz vid s vi v bl rch T ->
  ofile_ok s v T nf -> is_pending (s_disk s) v nf = false ->
  ~ In (f_id nf) (map f_id (s_files s)) -> ~ In (slot_key nf) (map slot_key (s_files s)) ->
  fs_inv_at fsz vid (set_s_files (set_s_next_id s n) (s_files s ++ [nf])) vi v bl rch T.
Proof.
  intros Hinv Hof Hpend Hid Hkey. pose proof Hinv as [A B C D E F G H I J K].
  destruct (go_facts _ _ _ _ _ _ _ _ Hinv) as (Hl & Hnf & Hc & _).
  set (s' := set_s_files (set_s_next_id s n) (s_files s ++ [nf])).
  constructor; [exact A|exact B|exact C|exact D|exact E|exact F| | | | |exact K].
  - replace (pend_of s' v) with (pend_of s v); [exact G|].
    unfold pend_of, s'. cbn [s_files s_disk set_s_files set_s_next_id]. rewrite filter_app, map_app.
    cbn [filter]. rewrite Hpend. cbn [map]. rewrite app_nil_r. reflexivity.
  - unfold s'. cbn [s_files set_s_files]. apply Forall_app. split.
    + rewrite Forall_forall in *. intros f Hf. apply (ofile_ok_same_disk s); [reflexivity|exact (H f Hf)].
    + constructor; [|constructor]. apply (ofile_ok_same_disk s); [reflexivity|exact Hof].
  - unfold s'. cbn [s_files set_s_files]. rewrite map_app. apply NoDup_snoc; assumption.
  - unfold s'. cbn [s_files set_s_files]. rewrite map_app. apply NoDup_snoc; assumption.
Qed.

(* ---- directory blocks are no FAT sectors ---- *)
Lemma cluster_block_not_fat fsz v c b : fat_layout v fsz -> 2 <= c -> In b (cluster_blocks v c) -> ~ fat_area v b.
Proof.
  intros L Hc Hb (c' & Hc' & E). destruct (In_cluster_blocks _ _ _ Hb) as (k & _ & Ek).
  apply (fat_sector_not_data v fsz 0 ((c' * fat_width v) / 512) c k L (layout_sector v fsz c' L Hc') Hc).
  unfold fat_copy_sector, fat_copy_start. cbn [N.eqb]. rewrite <- Ek, E. unfold fat_w, fat_width. lia.
Qed.

Lemma root16_block_not_fat fsz v b : PrBounds.part_layout v (v_nblocks v) fsz -> fat_layout v fsz -> v_fat32 v = false ->
  In b (root16_blocks v) -> ~ fat_area v b.
Proof.
  intros PL L E16 Hb (c' & Hc' & E). unfold root16_blocks in Hb. destruct (In_blocks_from _ _ _ Hb) as (k & _ & Ek).
  pose proof (layout_sector v fsz c' L Hc') as Hs.
  pose proof (PrBounds.layout_order v _ fsz PL) as (_ & O2 & _ & _ & O5 & _). destruct (O5 E16) as [O6 _].
  unfold fat_w in E. unfold fat_width in Hs. remember (c' * (if v_fat32 v then 4 else 2) / 512) as q. lia.
Qed.

Lemma dir_block_not_fat fsz vid s vi v bl rch T dc bl' parent kids b : fs_inv_at fsz vid s vi v bl rch T ->
  dir_ctx (s_disk s) v bl T dc bl' parent kids -> In b bl' -> ~ fat_area v b.
Proof.
  intros Hinv Hctx Hb. destruct (go_facts _ _ _ _ _ _ _ _ Hinv) as (_ & _ & _ & _ & _ & _ & _ & L & _).
  assert (Hch : forall c ch, chain_at (s_disk s) v c ch -> In b (data_blocks v ch) -> ~ fat_area v b).
  { intros c ch Hc Hin. unfold data_blocks in Hin. apply in_flat_map in Hin. destruct Hin as (x & Hx & Hin).
    destruct (chain_at_mem _ _ _ _ x Hc Hx) as (X1 & _). exact (cluster_block_not_fat fsz v x b L X1 Hin). }
  destruct (dx_where _ _ _ _ _ _ _ _ Hctx) as [(_ & -> & _)|(e & ch & _ & _ & -> & Hc & _)]; [|exact (Hch _ _ Hc Hb)].
  pose proof (di_root _ _ _ _ _ _ (fi_disk _ _ _ _ _ _ _ _ Hinv)) as Hroot. unfold root_dir in Hroot.
  destruct (v_fat32 v) eqn:E32.
  - destruct Hroot as (Hc & ->). exact (Hch _ _ Hc Hb).
  - destruct Hroot as (_ & ->). exact (root16_block_not_fat fsz v b (fi_layout _ _ _ _ _ _ _ _ Hinv) L E32 Hb).
Qed.

(* ---- the file node behind a slot that the lookup found ---- *)
Lemma dot_slot_name t : dot_slot t = PrModes.dot_name (t_name t).
Proof. reflexivity. Qed.

Lemma found_file d v bl T dc bl' parent kids sfn t : dir_ctx d v bl T dc bl' parent kids ->
  sfn_wf sfn -> get8 sfn 0 <> 229 -> PrModes.dot_name sfn = false ->
  find (t_matches sfn) (live_in_blocks d bl') = Some t ->
  is_directory (e_attr (t_entry (v_fat32 v) t)) = false ->
  exists ch, In (NFile (t_entry (v_fat32 v) t) ch) kids /\ In (NFile (t_entry (v_fat32 v) t) ch) (all_nodes T) /\
    node_rep d v (NFile (t_entry (v_fat32 v) t) ch) t /\ In t (dir_nodes d bl') /\
    In t (dir_shorts d bl') /\ t_name t = sfn.
Proof.
  intros Hctx Hwf H229 Hdot Hfind Hnd.
  destruct (found_slot d v dc parent bl' sfn t (dx_ok _ _ _ _ _ _ _ _ Hctx) Hwf H229 Hfind) as (Hshort & Hname).
  assert (Hd : dot_slot t = false) by (rewrite dot_slot_name, Hname; exact Hdot).
  destruct (short_kid d v bl T dc bl' parent kids t Hctx Hshort Hd) as (n & Hk & Hr & Hall & Hn).
  destruct n as [e ch|e ch ks].
  - pose proof Hr as Hr0. apply node_rep_file in Hr. destruct Hr as (-> & _). exists ch. repeat (split; [assumption|]). exact Hname.
  - apply node_rep_dir in Hr. destruct Hr as (-> & Hisd & _). congruence.
Qed.

Lemma t_entry_attr fat32 t : e_attr (t_entry fat32 t) = t_attr t.
Proof. reflexivity. Qed.

Lemma t_entry_name fat32 t : e_name (t_entry fat32 t) = t_name t.
Proof. reflexivity. Qed.

(* the record pushed by an open of an existing file satisfies the per-file invariant *)
Lemma found_ofile fsz vid s vi v bl rch T dc bl' parent kids sfn t e id off mode :
  fs_inv_at fsz vid s vi v bl rch T -> dir_ctx (s_disk s) v bl T dc bl' parent kids ->
  sfn_wf sfn -> get8 sfn 0 <> 229 -> PrModes.dot_name sfn = false ->
  find (t_matches sfn) (live_in_blocks (s_disk s) bl') = Some t ->
  e = t_entry (v_fat32 v) t -> is_directory (e_attr e) = false -> off <= e_size e ->
  let nf := mk_fileinfo id (v_id v) 0 (e_cluster e) off mode e false in
  ofile_ok s v T nf /\ is_pending (s_disk s) v nf = false.
Proof.
  intros Hinv Hctx Hwf H229 Hdot Hfind -> Hnd Hoff nf.
  destruct (found_file _ _ _ _ _ _ _ _ _ _ Hctx Hwf H229 Hdot Hfind Hnd) as (ch & Hk & Hall & Hr & Hn & Hshort & Hname).
  set (e := t_entry (v_fat32 v) t) in *.
  destruct (node_rep_slot _ _ _ _ _ Hr Hn) as (Hb & Ho & Hts & Hde & _). cbn [node_entry] in Hb, Ho, Hts, Hde.
  pose proof (dx_kids_ok _ _ _ _ _ _ _ _ Hctx) as Hkok. rewrite Forall_forall in Hkok.
  pose proof (Hkok _ Hk) as Hok. apply node_ok_file in Hok. destruct Hok as (Hsz & H32).
  apply node_rep_file in Hr. destruct Hr as (_ & _ & Hech).
  assert (Hfch : fchain (s_disk s) v nf = ch).
  { unfold fchain. cbn [f_entry nf]. destruct Hech as [(A1 & fu & A2)|(A1 & ->)].
    - replace (e_cluster e <? 2) with false by (symmetry; apply N.ltb_ge; exact A1).
      exact (chain_l_at _ _ _ _ (chain_at_any _ _ _ _ _ A2)).
    - replace (e_cluster e <? 2) with true by (symmetry; apply N.ltb_lt; exact A1). reflexivity. }
  assert (Hnp : is_pending (s_disk s) v nf = false).
  { unfold is_pending. cbn [f_entry nf]. rewrite Hde.
    destruct (N.ltb_spec (e_cluster e) 2) as [H|H]; [|reflexivity]. cbn [andb]. apply N.leb_gt. exact H. }
  split; [|exact Hnp].
  constructor; cbn [f_vol f_entry f_offset nf]; rewrite ?Hfch.
    + reflexivity.
    + constructor.
      * apply ts_from_fat_ok.
      * apply ts_from_fat_ok.
      * unfold e. rewrite t_entry_name, Hname. exact (proj1 Hwf).
      * exact Ho.
      * exact (dir_block_not_fat _ _ _ _ _ _ _ _ _ _ _ _ _ Hinv Hctx Hb).
    + exists e, ch. split; [exact Hall|]. repeat (split; [reflexivity|]). left. reflexivity.
    + split; [exact Hnd|]. unfold e. rewrite t_entry_attr. unfold dir_shorts in Hshort. apply filter_In in Hshort.
      destruct Hshort as [_ Hs]. unfold short_slot in Hs. apply andb_true_iff in Hs. apply negb_true_iff. exact (proj2 Hs).
    + unfold chain_ok. cbn [f_entry f_cur_off f_cur_cluster nf].
      destruct Hech as [(A1 & fu & A2)|(A1 & ->)]; [left|right].
      * split; [exact A1|]. split; [exists fu; exact A2|].
        destruct (chain_of_head _ _ _ _ _ A2) as (_ & _ & l' & ->). exists 0%nat. split; reflexivity.
      * split; [exact A1|]. split; [reflexivity|exact A1].
    + exact Hsz.
    + exact Hoff.
    + exact H32.
    + rewrite Hnp. discriminate.
Qed.

Lemma not_open_key s vol_id e : PrModes.is_open s vol_id e = false ->
  (forall f, In f (s_files s) -> f_vol f = vol_id) ->
  ~ In (e_block e, e_offset e) (map slot_key (s_files s)).
Proof.
  intros Hop Hvol Hin. apply in_map_iff in Hin. destruct Hin as (f & Hk & Hf).
  unfold slot_key in Hk. injection Hk as Hb Ho.
  unfold PrModes.is_open in Hop.
  assert (Hex : existsb (fun f0 => (f_vol f0 =? vol_id) && (e_block (f_entry f0) =? e_block e)
                                   && (e_offset (f_entry f0) =? e_offset e)) (s_files s) = true).
  { apply existsb_exists. exists f. split; [exact Hf|]. rewrite (Hvol f Hf), Hb, Ho, !N.eqb_refl. reflexivity. }
  rewrite Hex in Hop. discriminate.
Qed.

Lemma fresh_file_id s : id_fresh s -> ~ In (s_next_id s) (map f_id (s_files s)).
Proof.
  intros Hf Hin. apply (Hf (s_next_id s)); [|reflexivity].
  unfold PrHandles.all_ids, PrHandles.fids. apply in_or_app. right. apply in_or_app. right. exact Hin.
Qed.

Lemma files_on_vol fsz vid s vi v bl rch T : fs_inv_at fsz vid s vi v bl rch T ->
  forall f, In f (s_files s) -> f_vol f = v_id v.
Proof.
  intros Hinv f Hf. pose proof (fi_files _ _ _ _ _ _ _ _ Hinv) as H. rewrite Forall_forall in H.
  exact (of_vol _ _ _ _ (H f Hf)).
Qed.

(* what a lookup that is not refused says about the entry *)
Lemma refusal_none_ok md e op : PrModes.open_refusal md (Ok e) op = None ->
  op = false /\ is_directory (e_attr e) = false /\ mode_eqb md ReadWriteCreate = false.
Proof.
  cbn [PrModes.open_refusal]. destruct op; [discriminate|].
  destruct (mode_eqb md ReadWriteCreate); [discriminate|].
  destruct (is_read_only (e_attr e) && negb (mode_eqb md ReadOnly)); [discriminate|].
  destruct (is_directory (e_attr e)); [discriminate|]. auto.
Qed.

(* the context of a successful lookup, shared by the three successful forms of OpenFile *)
Record open_ctx (fsz vid : N) (s : st) (vi : nat) (v : vol) (bl rch : list N) (T : list node)
       (h : N) (name : list N) (di : nat) (dd : dirinfo) (sfn : list N)
       (bl' : list N) (parent : N) (kids : list node) (s1 : st) : Prop := mk_open_ctx {
  oc_inv : fs_inv_at fsz vid s vi v bl rch T;
  oc_fresh : id_fresh s;
  oc_res : PrModes.resolves s h di dd 0 v;
  oc_vol : d_vol dd = v_id v;
  oc_room : is_full (s_files s) (s_maxf s) = false;
  oc_sfn : sfn_of_str name = Some sfn;
  oc_e5 : get8 sfn 0 <> 229;
  oc_dot : PrModes.dot_name sfn = false;
  oc_dir : dir_ctx (s_disk s) v bl T (d_cluster dd) bl' parent kids;
  oc_look : find_directory_entry 0 (d_cluster dd) sfn s =
            (match find (t_matches sfn) (live_in_blocks (s_disk s) bl') with
             | Some t => Ok (t_entry (v_fat32 v) t) | None => Err NotFound end, s1);
  oc_ro : ro_step s s1;
  oc_rd : PrModes.reads_only s s1
}.

Lemma open_keep_case fsz vid s vi v bl rch T h name di dd sfn bl' parent kids s1 md t :
  open_ctx fsz vid s vi v bl rch T h name di dd sfn bl' parent kids s1 ->
  find (t_matches sfn) (live_in_blocks (s_disk s) bl') = Some t ->
  PrModes.open_refusal md (Ok (t_entry (v_fat32 v) t)) (PrModes.is_open s1 (d_vol dd) (t_entry (v_fat32 v) t)) = None ->
  md = ReadOnly \/ md = ReadWriteAppend \/ md = ReadWriteCreateOrAppend ->
  exists id s', open_file_in_dir h name md s = (Ok id, s') /\ quiet fsz vid s s'.
Proof.
  intros [Hat Hfresh Hres Hvol Hroom Hsfn He5 Hdot Hctx Hlook Hro Hrd] Hfind Href Hmd.
  rewrite Hfind in Hlook. set (e := t_entry (v_fat32 v) t) in *.
  pose proof (PrModes.C07_open_existing_keep s h di dd 0%nat v name sfn md e s1 Hres Hroom Hsfn Hdot Hlook Href Hmd) as Hopen.
  eexists. eexists. split; [exact Hopen|].
  destruct (refusal_none_ok _ _ _ Href) as (Hop & Hnd & _).
  pose proof (go_ro _ _ _ _ _ _ _ _ _ Hat Hro) as Hat1.
  pose proof Hro as (Hd & _ & _ & (_ & _ & M3 & M4 & _)).
  assert (Hinv : fs_inv fsz vid s) by (exists vi, v, bl, rch, T; exact Hat).
  apply (quiet_trans _ _ _ _ _ (quiet_ro _ _ _ _ Hinv Hro Hrd)).
  split; [|split; [reflexivity|apply PrOrder.tsteps_same_trace; reflexivity]].
  exists vi, v, bl, rch, T. rewrite Hvol in *.
  assert (Hoff : PrModes.start_offset md e <= e_size e) by (destruct md; cbn [PrModes.start_offset]; lia).
  rewrite <- Hd in Hctx, Hfind.
  destruct (found_ofile fsz vid s1 vi v bl rch T _ bl' parent kids sfn t e (s_next_id s1) _ (solve_mode_variant md true)
              Hat1 Hctx (sfn_of_str_wf _ _ Hsfn) He5 Hdot Hfind eq_refl Hnd Hoff) as (Hof & Hpend).
  apply go_push_file; [exact Hat1|exact Hof|exact Hpend| |].
  - cbn [f_id]. rewrite M3, M4. exact (fresh_file_id s Hfresh).
  - unfold slot_key at 1. cbn [f_entry]. exact (not_open_key s1 (v_id v) e Hop (files_on_vol _ _ _ _ _ _ _ _ Hat1)).
Qed.

(* ================================================================== 7. the walk of write_new_directory_entry over a full directory *)
Lemma last_default (l : list N) : forall a d d', last (a :: l) d = last (a :: l) d'.
Proof. induction l as [|b l IH]; intros a d d'; [reflexivity|]. exact (IH b d d'). Qed.

Lemma last_in_cons (l : list N) : forall a d, In (last (a :: l) d) (a :: l).
Proof. induction l as [|b l IH]; intros a d; [left; reflexivity|]. right. exact (IH b d). Qed.

Section GrowWalk.
  Variables (vi : nat) (v : vol) (name : list N) (attr fc : N).
  Hypothesis Hv : vol_ok v.
  Local Notation body := (create_body (v_fat32 v) name attr fc).
  Local Notation fbs := (for_blocks_from_stop dirent N free_in body (create_post (v_fat32 v) name attr fc)
                           (create_body_none (v_fat32 v) name attr fc)
                           (fun blk0 s0 x => create_body_some (v_fat32 v) name attr fc blk0 s0 x)).

  (* no block of the chain has a free slot: the walk only reads, reaches the end of the chain
     and continues with the allocation of one more cluster *)
  Lemma walk_grow_eq : forall ch c fuel s, nth_error (s_vols s) vi = Some v -> no_faults s -> cache_ok s ->
    chain_of (s_disk s) v c (length ch) = Some ch -> (length ch <= fuel)%nat ->
    stop_at N free_in (s_disk s) (flat_map (cluster_blocks v) ch) = None ->
    exists s0, rd_step s s0 /\
      walk_dir fuel vi c true body s =
      (cn <- alloc_cluster vi (Some (last ch c)) true ;; walk_dir (fuel - length ch) vi cn true body) s0.
  Proof.
    induction ch as [|c0 rest IH]; intros c fuel s Hvi Hnf Hc Hch Hfuel Hstop; [discriminate Hch|].
    destruct (chain_of_head _ _ _ _ _ Hch) as (R1 & R2 & (l' & El)). injection El as E1 E2. subst c0 l'.
    cbn [length] in Hch, Hfuel. destruct fuel as [|f]; [lia|].
    cbn [chain_of] in Hch.
    replace ((2 <=? c) && (c <? v_clusters v + 2)) with true in Hch
      by (symmetry; apply andb_true_iff; split; [apply N.leb_le|apply N.ltb_lt]; assumption).
    cbv zeta in Hch.
    cbn [walk_dir].
    rewrite (bind_ok _ _ _ _ _ (get_vol_some vi v s Hvi)).
    destruct (cluster_block_ok v c s Hv R1 R2) as (Hcb & Hfit).
    rewrite (bind_ok _ _ _ _ _ Hcb).
    assert (Hnr : (c =? CL_ROOT) = false) by (apply N.eqb_neq; apply (in_range_not_root v c Hv R2)).
    rewrite Hnr, andb_false_r. unfold for_blocks. rewrite bind_bind.
    rewrite (bind_ok _ _ _ _ _ (add32_ok _ _ s Hfit)).
    pose proof (fbs (N.to_nat (v_spc v)) (cluster_first_block v c) s Hnf Hc) as Hfb.
    fold (cluster_blocks v c) in Hfb.
    cbn [flat_map] in Hstop. rewrite stop_at_app in Hstop.
    destruct (stop_at N free_in (s_disk s) (cluster_blocks v c)) as [[blk x]|] eqn:Es; [discriminate Hstop|].
    destruct Hfb as (s1 & E & Hrd1). rewrite (bind_ok _ _ _ _ _ E).
    pose proof Hrd1 as ((Hd1 & Hc1 & Hnf1 & Hm1) & _).
    destruct (next_cluster_rd v c s1 Hv R2 Hnf1 Hc1) as (s2 & Hnc & Hrd2).
    pose proof (rd_trans _ _ _ Hrd1 Hrd2) as Hrd12.
    pose proof Hrd12 as ((Hd2 & Hc2 & Hnf2 & Hm2) & _).
    rewrite (bind_ok _ _ _ _ _ Hnc). rewrite Hd1.
    destruct (fat_entry (s_disk s) v c =? fat_bad v) eqn:Hbad; [discriminate|].
    destruct (fat_eoc_min v <=? fat_entry (s_disk s) v c) eqn:Heoc.
    - injection Hch as <-. rewrite (next_result_end _ _ Hbad Heoc).
      exists s2. split; [exact Hrd12|]. cbn [last length]. replace (S f - 1)%nat with f by lia. reflexivity.
    - destruct (chain_of (s_disk s) v (fat_entry (s_disk s) v c) (length rest)) as [l|] eqn:Hrest; [|discriminate].
      injection Hch as <-.
      destruct (chain_of_head _ _ _ _ _ Hrest) as (Q1 & _ & l'' & El).
      rewrite (next_result_link _ _ Hbad Heoc Q1).
      assert (Hvi2 : nth_error (s_vols s2) vi = Some v) by (apply (same_mgr_vol s s2); [exact Hm2|exact Hvi]).
      assert (Hrest2 : chain_of (s_disk s2) v (fat_entry (s_disk s) v c) (length l) = Some l)
        by (rewrite Hd2; exact Hrest).
      destruct (IH (fat_entry (s_disk s) v c) f s2 Hvi2 Hnf2 Hc2 Hrest2 ltac:(lia) ltac:(rewrite Hd2; exact Hstop))
        as (s0 & Hrd0 & Eq).
      exists s0. split; [exact (rd_trans _ _ _ Hrd12 Hrd0)|]. rewrite Eq.
      replace (S f - length (c :: l))%nat with (f - length l)%nat by (cbn [length]; lia).
      subst l. change (last (c :: fat_entry (s_disk s) v c :: l'') c) with (last (fat_entry (s_disk s) v c :: l'') c).
      rewrite (last_default l'' (fat_entry (s_disk s) v c) c (fat_entry (s_disk s) v c)). reflexivity.
  Qed.
End GrowWalk.

(* the walk continues in a cluster whose first block is all zeros: slot 0 of that block is taken *)
Lemma walk_fresh_cluster vi v a b name attr fc cn f s :
  vol_ok v -> nth_error (s_vols s) vi = Some (set_v_free (set_v_next_free v a) b) -> no_faults s -> cache_ok s ->
  2 <= cn -> cn < v_clusters v + 2 -> 0 < v_spc v ->
  disk_get (s_disk s) (cluster_first_block v cn) = zero_block ->
  exists r s', walk_dir (S f) vi cn true (create_body (v_fat32 v) name attr fc) s = (Ok (Some r), s') /\
    create_post (v_fat32 v) name attr fc (cluster_first_block v cn) 0 s r s'.
Proof.
  intros Hv Hvi Hnf Hc R1 R2 Hspc Hzero.
  assert (Hfree : free_in (s_disk s) (cluster_first_block v cn) = Some 0)
    by (unfold free_in; rewrite Hzero; reflexivity).
  destruct (create_body_some (v_fat32 v) name attr fc _ s 0 Hnf Hc Hfree) as (r & s' & Hb & Hpost).
  exists r, s'. split; [|exact Hpost].
  cbn [walk_dir]. rewrite (bind_ok _ _ _ _ _ (get_vol_some vi _ s Hvi)).
  change (cluster_to_block (set_v_free (set_v_next_free v a) b) cn) with (cluster_to_block v cn).
  destruct (cluster_block_ok v cn s Hv R1 R2) as (Hcb & Hfit).
  rewrite (bind_ok _ _ _ _ _ Hcb).
  assert (Hnr : (cn =? CL_ROOT) = false) by (apply N.eqb_neq; apply (in_range_not_root v cn Hv R2)).
  cbv zeta. rewrite Hnr, andb_false_r.
  change (v_spc (set_v_free (set_v_next_free v a) b)) with (v_spc v).
  unfold for_blocks. rewrite bind_bind. rewrite (bind_ok _ _ _ _ _ (add32_ok _ _ s Hfit)).
  replace (N.to_nat (v_spc v)) with (S (N.to_nat (v_spc v) - 1)) by lia. cbn [for_blocks_from].
  rewrite bind_bind. rewrite (bind_ok _ _ _ _ _ Hb). reflexivity.
Qed.

(* a step that wrote nothing to the device *)
Definition qstep (s s' : st) : Prop := ro_step s s' /\ PrOrder.tsteps s s' [].

Lemma qstep_trans a b c : qstep a b -> qstep b c -> qstep a c.
Proof. intros (A1 & A2) (B1 & B2). split; [exact (ro_trans _ _ _ A1 B1)|exact (PrOrder.tsteps_trans _ _ _ [] [] A2 B2)]. Qed.

Lemma rd_qstep s s' : rd_step s s' -> qstep s s'.
Proof. intros (A & l & E & Hl). split; [exact A|]. exists l. split; [exact E|exact (reads_no_writes l Hl)]. Qed.

Lemma quiet_qstep fsz vid s s' : fs_inv fsz vid s -> qstep s s' -> quiet fsz vid s s'.
Proof.
  intros Hinv (Hro & Ht). split; [exact (go_ro_inv _ _ _ _ Hinv Hro)|]. split; [exact (ro_step_vols _ _ Hro)|exact Ht].
Qed.

(* ---- the run of write_new_directory_entry: three outcomes ---- *)
Inductive create_res (vi : nat) (v : vol) (fsz : N) (dc : N) (name : list N) (attr fc : N) (s : st) (bl' : list N)
  : outcome dirent -> st -> Prop :=
  (* the directory has a free slot: it is taken *)
  | CrSlot blk off sl0 s' :
      find nv (slots_of (s_disk s) bl') = Some (blk, off, sl0) ->
      let e := mk_dirent name (clock_ts (s_clock s)) (clock_ts (s_clock s)) attr fc 0 blk off in
      s_disk s' = disk_set (s_disk s) blk (set_bytes (disk_get (s_disk s) blk) off (ser_bytes (v_fat32 v) e)) ->
      slot_write (s_disk s) (s_disk s') blk (off / 32) (ser_bytes (v_fat32 v) e) ->
      cache_ok s' -> no_faults s' -> same_tables s s' ->
      create_res vi v fsz dc name attr fc s bl' (Ok e) s'
  (* no free slot, and the directory cannot grow (FAT16 root) or the volume is full *)
  | CrFull s' :
      find nv (slots_of (s_disk s) bl') = None -> qstep s s' ->
      (negb (v_fat32 v) && (dc =? CL_ROOT) = true \/
       forall j, 2 <= j -> j < v_clusters v + 2 -> fat_get (s_disk s) v 0 j <> 0) ->
      create_res vi v fsz dc name attr fc s bl' (Err NotEnoughSpace) s'
  (* no free slot: the directory grows by a zeroed cluster, slot 0 of its first block is taken *)
  | CrGrow ch s0 cn sa e s' :
      find nv (slots_of (s_disk s) bl') = None ->
      chain_at (s_disk s) v (dir_first_cluster v dc) ch -> bl' = data_blocks v ch ->
      qstep s s0 -> alloc_pre s0 vi v fsz ->
      alloc_cluster vi (Some (last ch (dir_first_cluster v dc))) true s0 = (Ok cn, sa) ->
      create_post (v_fat32 v) name attr fc (cluster_first_block v cn) 0 sa e s' ->
      create_res vi v fsz dc name attr fc s bl' (Ok e) s'.

Theorem create_run fsz vi v dc name attr fc s bl' :
  alloc_pre s vi v fsz -> 0 < v_spc v -> blocks_wf (s_disk s) ->
  dir_blocks (s_disk s) v dc = Some bl' -> length name = 11%nat ->
  exists o s', write_new_directory_entry vi dc name attr fc s = (o, s') /\
               create_res vi v fsz dc name attr fc s bl' o s'.
Proof.
  intros Hpre Hspc Hwf Hbl Hname. pose proof Hpre as ((Hnf & Hc & Hvi & _) & L & _). pose proof (fl_vol _ _ L) as Hv.
  destruct (find nv (slots_of (s_disk s) bl')) as [[[blk off] sl0]|] eqn:Hfind.
  - destruct (write_new_directory_entry_spec vi v dc name attr fc s bl' blk off sl0 Hvi Hv Hnf Hc Hbl Hfind Hname (Hwf blk))
      as (s' & Hrun & Hd & Hsw & _ & _ & Hc' & Hnf' & _ & Htab & _).
    eexists. exists s'. split; [exact Hrun|]. exact (CrSlot vi v fsz dc name attr fc s bl' blk off sl0 s' Hfind Hd Hsw Hc' Hnf' Htab).
  - assert (Hstop : stop_at N free_in (s_disk s) bl' = None) by (rewrite stop_at_free, Hfind; reflexivity).
    rewrite write_new_is. rewrite (bind_ok _ _ _ _ _ (get_vol_some vi v s Hvi)).
    unfold dir_blocks in Hbl.
    destruct (negb (v_fat32 v) && (dc =? CL_ROOT)) eqn:Hroot.
    + pose proof Hroot as Hroot0. apply andb_true_iff in Hroot. destruct Hroot as [H16 Hdc].
      apply negb_true_iff in H16. apply N.eqb_eq in Hdc. subst dc. injection Hbl as <-.
      unfold dir_first_cluster, walk_fuel. rewrite H16. cbn [andb].
      replace (N.to_nat (v_clusters v) + 4)%nat with (S (N.to_nat (v_clusters v) + 3)) by lia.
      pose proof (walk_dir_root16_stop dirent N free_in (create_body false name attr fc)
                    (create_post false name attr fc) (create_body_none false name attr fc)
                    (fun blk0 s0 x => create_body_some false name attr fc blk0 s0 x)
                    vi v true Hv H16 (N.to_nat (v_clusters v) + 3) s Hvi Hnf Hc) as Hw.
      rewrite Hstop in Hw. destruct Hw as (s' & E & Hrd). rewrite (bind_ok _ _ _ _ _ E).
      eexists. exists s'. split; [reflexivity|].
      apply CrFull; [exact Hfind|exact (rd_qstep _ _ Hrd)|left; exact Hroot0].
    + destruct (chain_of (s_disk s) v (dir_first_cluster v dc) (walk_fuel v)) as [ch|] eqn:Hch; [|discriminate].
      injection Hbl as <-. set (c0 := dir_first_cluster v dc) in *.
      pose proof (chain_of_exact _ _ _ _ _ Hch) as Hch0.
      pose proof (range_nodup_length (v_clusters v) ch (chain_of_nodup _ _ _ _ _ Hch) (chain_of_range _ _ _ _ _ Hch)) as Hlen.
      destruct (walk_grow_eq vi v name attr fc Hv ch c0 (walk_fuel v) s Hvi Hnf Hc Hch0 ltac:(unfold walk_fuel; lia) Hstop)
        as (s0 & Hrd0 & Eq).
      unfold bind at 1. rewrite Eq. pose proof (rd_qstep _ _ Hrd0) as Hq0.
      pose proof (alloc_pre_ro vi v fsz s s0 Hpre (proj1 Hrd0)) as Hpre0.
      assert (Hlast : In (last ch c0) ch).
      { destruct (chain_of_head _ _ _ _ _ Hch) as (_ & _ & l' & ->). apply last_in_cons. }
      pose proof (chain_of_range _ _ _ _ _ Hch) as Hrange. rewrite Forall_forall in Hrange.
      assert (Hprev : forall p, Some (last ch c0) = Some p -> p < v_clusters v + 2)
        by (intros p Ep; injection Ep as <-; exact (proj2 (Hrange _ Hlast))).
      destruct (alloc_cluster_total vi v fsz (Some (last ch c0)) true s0 Hpre0 Hprev)
        as (o & sa & Hal & [(-> & Hnone & Hda & Hma & Hta & Hsta)|(cn & -> & Heff)]).
      * rewrite (bind_err _ _ _ _ _ Hal). eexists. exists sa. split; [reflexivity|].
        apply CrFull; [exact Hfind| |right; rewrite <- (proj1 (proj1 Hrd0)); exact Hnone].
        apply (qstep_trans _ _ _ Hq0). destruct Hsta as (Hnfa & Hca & _).
        split; [split; [exact Hda|split; [exact Hca|split; [exact Hnfa|exact Hma]]]|].
        exact (PrBounds.tr_ext_nil_tsteps _ _ Hta).
      * rewrite (bind_ok _ _ _ _ _ Hal).
        destruct (ae_range _ _ _ _ _ _ _ _ Heff) as (C1 & C2 & _).
        destruct (ae_vol _ _ _ _ _ _ _ _ Heff) as (nf & Evols & _).
        destruct (ae_inv _ _ _ _ _ _ _ _ Heff) as (Hnfa & Hca & _).
        pose proof Hpre0 as ((_ & _ & Hvi0 & _) & _).
        assert (Hvia : nth_error (s_vols sa) vi = Some (set_v_free (set_v_next_free v nf) (dec_free (v_free v))))
          by (rewrite Evols; exact (ls_nth_same _ _ _ _ Hvi0)).
        assert (Hzero : disk_get (s_disk sa) (cluster_first_block v cn) = zero_block).
        { rewrite <- (N.add_0_r (cluster_first_block v cn)). exact (ae_zero _ _ _ _ _ _ _ _ Heff eq_refl 0 Hspc). }
        assert (Hf : exists f', (walk_fuel v - length ch)%nat = S f') by (exists (walk_fuel v - length ch - 1)%nat; unfold walk_fuel; lia).
        destruct Hf as (f' & ->).
        destruct (walk_fresh_cluster vi v nf (dec_free (v_free v)) name attr fc cn f' sa Hv Hvia Hnfa Hca C1 C2 Hspc Hzero)
          as (r & s' & Hw & Hpost).
        rewrite Hw. eexists. exists s'. split; [reflexivity|].
        exact (CrGrow vi v fsz dc name attr fc s _ ch s0 cn sa r s' Hfind Hch eq_refl Hq0 Hpre0 Hal Hpost).
Qed.

(* ================================================================== 8. FRAME: the FAT changes under one node of the tree *)
(* the directory blocks are untouched; every chain but the one of the node at position p is kept;
   n1 is the tree the new disk shows at the slot of that node *)
Section ChainChange.
  Variables (d d' : disk) (v : vol) (p : N * N) (n1 : node) (T : list node).
  Hypothesis Hdirs : forall e ch kids, In (NDir e ch kids) (all_nodes T) ->
    forall j, In j (data_blocks v ch) -> disk_get d' j = disk_get d j.
  Hypothesis Hfile : forall e ch, In (NFile e ch) (all_nodes T) -> node_pos (NFile e ch) <> p ->
    entry_chain d v e ch -> entry_chain d' v e ch.
  Hypothesis Hdir : forall e ch kids, In (NDir e ch kids) (all_nodes T) -> node_pos (NDir e ch kids) <> p ->
    chain_at d v (e_cluster e) ch -> chain_at d' v (e_cluster e) ch.
  Hypothesis Hp : forall n t, In n (all_nodes T) -> node_pos n = p -> node_rep d v n t -> node_rep d' v n1 t.

  Lemma go_node_rep_chain : forall n, (forall m, In m (flatten n) -> In m (all_nodes T)) ->
    forall t, node_rep d v n t -> node_rep d' v (node_replace p n1 n) t.
  Proof.
    induction n as [e ch|e ch kids IH] using node_ind'; intros Hsub t H.
    - destruct (pos_eqb (node_pos (NFile e ch)) p) eqn:Ep.
      + apply pos_eqb_eq in Ep. rewrite (node_replace_hit p n1 _ Ep). exact (Hp _ t (Hsub _ (flatten_self _)) Ep H).
      + assert (Ep' : node_pos (NFile e ch) <> p) by (intros E; apply pos_eqb_eq in E; congruence).
        rewrite (node_replace_miss_file p n1 e ch Ep'). apply node_rep_file in H. apply node_rep_file.
        destruct H as (A & B & C). split; [exact A|]. split; [exact B|].
        exact (Hfile e ch (Hsub _ (flatten_self _)) Ep' C).
    - destruct (pos_eqb (node_pos (NDir e ch kids)) p) eqn:Ep.
      + apply pos_eqb_eq in Ep. rewrite (node_replace_hit p n1 _ Ep). exact (Hp _ t (Hsub _ (flatten_self _)) Ep H).
      + assert (Ep' : node_pos (NDir e ch kids) <> p) by (intros E; apply pos_eqb_eq in E; congruence).
        rewrite (node_replace_miss_dir p n1 e ch kids Ep'). apply node_rep_dir in H. apply node_rep_dir.
        destruct H as (A & B & C & D). split; [exact A|]. split; [exact B|].
        split; [exact (Hdir e ch kids (Hsub _ (flatten_self _)) Ep' C)|].
        rewrite (dir_nodes_ext d d' (data_blocks v ch) (Hdirs e ch kids (Hsub _ (flatten_self _)))).
        apply (Forall2_map_l _ _ _ _ _ D). intros k t' Hk Hr. rewrite Forall_forall in IH.
        apply (IH k Hk); [|exact Hr]. intros m Hm. apply Hsub. exact (flatten_kid e ch kids k m Hk Hm).
  Qed.

  Theorem go_tree_rep_chain bl : (forall j, In j bl -> disk_get d' j = disk_get d j) ->
    tree_rep d v bl T -> tree_rep d' v bl (forest_replace p n1 T).
  Proof.
    intros Hbl H. unfold tree_rep, forest_replace in *. rewrite (dir_nodes_ext d d' bl Hbl).
    apply (Forall2_map_l _ _ _ _ _ H). intros k t' Hk Hr. apply (go_node_rep_chain k); [|exact Hr].
    intros m Hm. apply in_flat_map. exists k. split; assumption.
  Qed.

  Hypothesis Hok1 : forall par, node_ok d' v par n1.

  Lemma go_node_ok_chain : forall n, (forall m, In m (flatten n) -> In m (all_nodes T)) ->
    forall par, node_ok d v par n -> node_ok d' v par (node_replace p n1 n).
  Proof.
    induction n as [e ch|e ch kids IH] using node_ind'; intros Hsub par H.
    - cbn [node_replace]. destruct (pos_eqb (node_pos (NFile e ch)) p); [apply Hok1|exact H].
    - cbn [node_replace]. destruct (pos_eqb (node_pos (NDir e ch kids)) p); [apply Hok1|].
      apply node_ok_dir in H. apply node_ok_dir. destruct H as (A & B). split.
      + apply (dir_ok_frame d d' v); [|exact A]. exact (Hdirs e ch kids (Hsub _ (flatten_self _))).
      + rewrite Forall_forall in *. intros k Hk. apply in_map_iff in Hk. destruct Hk as (k0 & <- & Hk0).
        apply (IH k0 Hk0); [|exact (B k0 Hk0)]. intros m Hm. apply Hsub. exact (flatten_kid e ch kids k0 m Hk0 Hm).
  Qed.

  Theorem go_forest_ok_chain par : Forall (node_ok d v par) T -> Forall (node_ok d' v par) (forest_replace p n1 T).
  Proof.
    rewrite !Forall_forall. intros H k Hk. apply in_map_iff in Hk. destruct Hk as (k0 & <- & Hk0).
    apply (go_node_ok_chain k0); [|exact (H k0 Hk0)]. intros m Hm. apply in_flat_map. exists k0. split; assumption.
  Qed.
End ChainChange.

Lemma flatten_dir_blocks v : forall n e ch kids, In (NDir e ch kids) (flatten n) ->
  forall j, In j (data_blocks v ch) -> In j (node_dir_blocks v n).
Proof.
  induction n as [e0 ch0|e0 ch0 kids0 IH] using node_ind'; intros e ch kids Hin j Hj.
  - destruct Hin as [E|[]]. discriminate E.
  - destruct Hin as [E|Hin].
    + injection E as <- <- <-. cbn [node_dir_blocks]. apply in_or_app. left. exact Hj.
    + apply in_flat_map in Hin. destruct Hin as (k & Hk & Hin). cbn [node_dir_blocks]. apply in_or_app. right.
      apply in_flat_map. exists k. split; [exact Hk|]. rewrite Forall_forall in IH. exact (IH k Hk e ch kids Hin j Hj).
Qed.

Lemma all_nodes_dir_blocks v bl T e ch kids : In (NDir e ch kids) (all_nodes T) ->
  forall j, In j (data_blocks v ch) -> In j (tree_dir_blocks v bl T).
Proof.
  intros Hin j Hj. apply in_flat_map in Hin. destruct Hin as (n & Hn & Hin). unfold tree_dir_blocks.
  apply in_or_app. right. apply in_flat_map. exists n. split; [exact Hn|exact (flatten_dir_blocks v n e ch kids Hin j Hj)].
Qed.

(* the chain of a file node is cut to its first cluster (its slot is as before) *)
Theorem go_disk_inv_cut d d' v bl rch T pend e ch :
  disk_inv d v bl rch T pend ->
  (forall j, In j bl -> disk_get d' j = disk_get d j) ->
  (forall e0 ch0 kids0, In (NDir e0 ch0 kids0) (all_nodes T) ->
     forall j, In j (data_blocks v ch0) -> disk_get d' j = disk_get d j) ->
  In (NFile e ch) (all_nodes T) -> 2 <= e_cluster e ->
  chain_at d' v (e_cluster e) [e_cluster e] ->
  (forall h2 ch2, In h2 (heads v T ++ pend) -> h2 <> e_cluster e -> chain_at d v h2 ch2 -> chain_at d' v h2 ch2) ->
  fat_wf d' v (heads v T ++ pend) ->
  e_size e <= bytes_per_cluster v -> e_size e < U32 ->
  disk_inv d' v bl rch (forest_replace (node_pos (NFile e ch)) (NFile e [e_cluster e]) T) pend.
Proof.
  intros [A B C D E F] Hbl Hdirs Hin Hc2 Hnew Hkeep W' Hsz H32.
  set (c := e_cluster e) in *. set (p := node_pos (NFile e ch)). set (n1 := NFile e [c]).
  destruct (heads_nodup v T pend (wf_heads _ _ _ E)) as (N1 & N2 & N3 & N4).
  assert (Hown : own_head (NFile e ch) = [c]) by (cbn [own_head]; fold c; apply N.leb_le in Hc2; rewrite Hc2; reflexivity).
  assert (Hcin : In c (flat_map node_heads T)) by (apply (own_head_in T _ c Hin); rewrite Hown; left; reflexivity).
  assert (Hhead : forall m h, In m (all_nodes T) -> In h (own_head m) -> In h (heads v T ++ pend))
    by (intros m h Hm Hh; apply in_or_app; left; unfold heads; apply in_or_app; right; exact (own_head_in T m h Hm Hh)).
  assert (Hother : forall m h, In m (all_nodes T) -> node_pos m <> p -> In h (own_head m) -> h <> c).
  { intros m h Hm Hpos Hh ->. apply Hpos.
    assert (Hc0 : In c (own_head (NFile e ch))) by (rewrite Hown; left; reflexivity).
    rewrite (flat_map_owner own_head _ N1 _ _ _ Hm Hin Hh Hc0). reflexivity. }
  assert (Hok1 : forall par, node_ok d' v par n1).
  { intros par. apply node_ok_file. cbn [length]. split; [|exact H32]. change (N.of_nat 1) with 1. rewrite N.mul_1_l. exact Hsz. }
  constructor.
  - unfold root_dir in *. destruct (v_fat32 v) eqn:E32; [|exact A]. destruct A as (A1 & A2). split; [|exact A2].
    assert (Hr : In (v_root_cluster v) (root_heads v)) by (unfold root_heads; rewrite E32; left; reflexivity).
    apply (Hkeep _ _ ltac:(apply in_or_app; left; unfold heads; apply in_or_app; left; exact Hr)); [|exact A1].
    intros Eq. apply (proj1 (N3 _ Hr)). rewrite Eq. exact Hcin.
  - apply (go_tree_rep_chain d d' v p n1 T Hdirs); [| | |exact Hbl|exact B].
    + intros e0 ch0 H0 Hp0 [(X1 & fu & X2)|X]; [left|right; exact X]. split; [exact X1|]. exists (walk_fuel v).
      assert (Ho : In (e_cluster e0) (own_head (NFile e0 ch0))) by (cbn [own_head]; apply N.leb_le in X1; rewrite X1; left; reflexivity).
      exact (Hkeep _ _ (Hhead _ _ H0 Ho) (Hother _ _ H0 Hp0 Ho) (chain_at_any _ _ _ _ _ X2)).
    + intros e0 ch0 kids0 H0 Hp0 X.
      assert (Ho : In (e_cluster e0) (own_head (NDir e0 ch0 kids0))) by (left; reflexivity).
      exact (Hkeep _ _ (Hhead _ _ H0 Ho) (Hother _ _ H0 Hp0 Ho) X).
    + intros n t Hn Hpn Hr. rewrite (pos_unique _ _ _ F Hn Hin Hpn) in Hr. apply node_rep_file in Hr.
      destruct Hr as (X1 & X2 & _). apply node_rep_file. split; [exact X1|]. split; [exact X2|].
      left. split; [exact Hc2|]. exists (walk_fuel v). exact Hnew.
  - apply (dir_ok_frame d d' v); [exact Hbl|exact C].
  - exact (go_forest_ok_chain d d' v p n1 T Hdirs Hok1 _ D).
  - assert (Hleaf : forall m, In m (all_nodes T) -> node_pos m = p -> m = NFile e ch)
      by (intros m Hm Hpm; exact (pos_unique _ _ _ F Hm Hin Hpm)).
    pose proof (heads_replace_perm p n1 eq_refl v T (NFile e ch) F Hin eq_refl eq_refl Hleaf) as P.
    rewrite Hown in P. change (own_head n1) with (own_head (NFile e ch)) in P. rewrite Hown in P.
    apply (Permutation_app_inv_l [c]) in P.
    apply (fat_wf_perm d' v (heads v T ++ pend)); [|exact W'].
    apply Permutation_app_tail. apply Permutation_sym. exact P.
  - rewrite (positions_replace p n1 eq_refl eq_refl T); [exact F|].
    intros m Hm Hpm. rewrite (pos_unique _ _ _ F Hm Hin Hpm). reflexivity.
Qed.

Print Assumptions step_ok_OpenRoot.
Print Assumptions step_ok_CloseDir.
Print Assumptions step_ok_Find.
Print Assumptions step_ok_Iter.
Print Assumptions step_ok_Label.
Print Assumptions step_ok_OpenDir.
Print Assumptions open_keep_case.
Print Assumptions create_run.
Print Assumptions go_disk_inv_cut.
