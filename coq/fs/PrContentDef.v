(* PROOFS / SPEC: the CONTENT of the files of a mounted volume over whole API histories (C01, C02).
   Foundation file: the views, the per-operation obligation step_content, and the history
   theorems assembled from `forall o, step_content fsz vid o` (+ PrGlobal.all_steps_ok).

   1  the views: disk_view (what a fresh mount of the raw medium shows for every file),
      mem_view (what the API shows: open files through their in-memory record), dir_view (the raw
      32-byte slots of every directory), the handle table; obs / observes
   2  the per-operation obligation step_content (one readable case per operation class)
   3  step_content for the operations that only move a cursor or only answer a question
   4  the history theorems (in PrContentDef2.v if this file grows)

   DESIGN CHOICES
   - Keys: a file is keyed by the POSITION OF ITS DIRECTORY SLOT (block, byte offset) = node_pos,
     unique by di_pos; a directory by its FIRST CLUSTER (CL_ROOT for the root), as the directory
     handles do (PrGlobalDef.is_dir_of).
   - Time stamps are shown as a reader of the medium decodes them, NORMALISED by one
     encode/decode round trip (PrEntry.ts_readback): the FAT format keeps 2-second granularity, so
     "mtime = the clock value" can only mean ts_readback (clock_ts k) = round2 (clock_ts k)
     (PrEntry.C02_clock_ts_roundtrip).  On a medium whose bytes are bytes (< 256) the
     normalisation is the identity on decoded values: ts_readback_from_fat.
   - The size is not a field: it is the length of fv_bytes (fv_size_len).
   - The trees are existentially quantified together with the fs_inv_at witnesses (observes);
     they are UNIQUE (fs_inv_at_det), so `observes` is a partial function of the state
     (observes_det) - exists/forall over observations are interchangeable for users.
   - A record that is not dirty is not written by flush / close: for such a file the statement
     "after the flush the medium shows what the API showed" needs the history-level invariant
     obs_sync (a clean open file shows what the medium shows), which every operation preserves
     given step_content (sync_step) and which holds whenever no file is open. *)
From Coq Require Import NArith ZArith List Bool Lia Arith ZifyClasses ZifyInst Zify FMapPositive Permutation.
From SdFs Require Import FsTypes FsBase FsFat FsMgr FsLemmas PrBase PrFat PrAlloc PrDir PrSeek PrAllocEffect
  PrRw PrWrite PrFileSeq PrMulti PrEntry PrChain PrCount PrWf PrOpenClose PrGlobalDef.
From SdFs Require PrModes PrHandles PrCrash PrBounds PrOrder.
Import ListNotations.
Open Scope N_scope.
Local Arguments N.mul : simpl never.
Local Arguments N.add : simpl never.
Local Arguments N.sub : simpl never.
Local Arguments N.div : simpl never.
Local Arguments N.modulo : simpl never.
Local Arguments N.land : simpl never.
Local Arguments N.lor : simpl never.
Local Arguments N.min : simpl never.
Local Arguments N.max : simpl never.
Local Ltac Zify.zify_post_hook ::= Z.to_euclidean_division_equations.

(* ================================================================== 1. the views *)
(* what is shown of one file: the 11-byte 8.3 name, the attribute byte, creation and
   modification time (normalised, see above), and exactly the bytes of the file *)
Record fview := mk_fview {
  fv_name : list N; fv_attr : N; fv_ctime : ts; fv_mtime : ts; fv_bytes : list N }.

Definition set_fv_bytes (x : fview) (b : list N) : fview :=
  mk_fview (fv_name x) (fv_attr x) (fv_ctime x) (fv_mtime x) b.
Definition set_fv_mtime (x : fview) (t : ts) : fview :=
  mk_fview (fv_name x) (fv_attr x) (fv_ctime x) t (fv_bytes x).
Definition set_fv_attr (x : fview) (a : N) : fview :=
  mk_fview (fv_name x) a (fv_ctime x) (fv_mtime x) (fv_bytes x).

(* a slot position: block, byte offset *)
Definition spos := (N * N)%type.
Definition fmap := list (spos * fview).         (* slot position -> file *)
Definition dmap := list (N * list tslot).       (* first cluster of a directory -> its raw slots *)

Fixpoint vget {A} (p : spos) (l : list (spos * A)) : option A :=
  match l with
  | [] => None
  | (q, x) :: r => if pos_eqb q p then Some x else vget p r
  end.
Fixpoint dget {A} (c : N) (l : list (N * A)) : option A :=
  match l with
  | [] => None
  | (k, x) :: r => if k =? c then Some x else dget c r
  end.

(* the entry fields and the first e_size bytes of the chain's clusters *)
Definition fv_of (e : dirent) (chain_bytes : list N) : fview :=
  mk_fview (e_name e) (e_attr e) (ts_readback (e_ctime e)) (ts_readback (e_mtime e))
           (firstn (N.to_nat (e_size e)) chain_bytes).

(* ---- the medium ---- *)
Definition disk_fv (d : disk) (v : vol) (n : node) : fview :=
  fv_of (node_entry n) (file_bytes d v (node_chain n)).
Definition file_item {A} (g : node -> A) (n : node) : list (spos * A) :=
  match n with NFile _ _ => [(node_pos n, g n)] | NDir _ _ _ => [] end.
(* every FILE node of the tree: its slot position and what the medium holds for it *)
Definition disk_view (d : disk) (v : vol) (T : list node) : fmap :=
  flat_map (file_item (disk_fv d v)) (all_nodes T).

(* ---- the API ---- *)
(* the open-file record whose directory slot is p *)
Definition open_at (s : st) (p : spos) : option fileinfo :=
  find (fun f => pos_eqb (slot_key f) p) (s_files s).
Definition mem_fv (s : st) (v : vol) (f : fileinfo) : fview :=
  fv_of (f_entry f) (file_bytes (s_disk s) v (fchain (s_disk s) v f)).
(* the same positions; an open file is shown through its in-memory record (name, attribute,
   times, size) and the chain of its in-memory first cluster *)
Definition mem_item (s : st) (v : vol) (n : node) : fview :=
  match open_at s (node_pos n) with
  | Some f => mem_fv s v f
  | None => disk_fv (s_disk s) v n
  end.
Definition mem_view (s : st) (v : vol) (T : list node) : fmap :=
  flat_map (file_item (mem_item s v)) (all_nodes T).

(* ---- the directories: the raw slots ((block, offset), 32 bytes) of all their blocks, in order ---- *)
Definition dir_item (d : disk) (v : vol) (n : node) : list (N * list tslot) :=
  match n with
  | NFile _ _ => []
  | NDir e ch _ => [(e_cluster e, slots_of d (data_blocks v ch))]
  end.
Definition dir_view (d : disk) (v : vol) (bl : list N) (T : list node) : dmap :=
  (CL_ROOT, slots_of d bl) :: flat_map (dir_item d v) (all_nodes T).

(* ---- the handles: for every open file handle its slot, mode, cursor and dirty flag ---- *)
Record hinfo := mk_hinfo { hi_pos : spos; hi_mode : mode; hi_off : N; hi_dirty : bool }.
Definition set_hi_off (x : hinfo) (o : N) : hinfo := mk_hinfo (hi_pos x) (hi_mode x) o (hi_dirty x).
Definition set_hi_dirty (x : hinfo) (b : bool) : hinfo := mk_hinfo (hi_pos x) (hi_mode x) (hi_off x) b.
Definition hinfo_of (f : fileinfo) : hinfo := mk_hinfo (slot_key f) (f_mode f) (f_offset f) (f_dirty f).
Definition hmap := list (N * hinfo).
Definition handles_of (s : st) : hmap := map (fun f => (f_id f, hinfo_of f)) (s_files s).
Definition hget (h : N) (l : hmap) : option hinfo := dget h l.

(* ---- the observation of a state ---- *)
Record obs := mk_obs { ob_mem : fmap; ob_disk : fmap; ob_dirs : dmap; ob_handles : hmap }.
Definition obs_at (s : st) (v : vol) (bl : list N) (T : list node) : obs :=
  mk_obs (mem_view s v T) (disk_view (s_disk s) v T) (dir_view (s_disk s) v bl T) (handles_of s).
(* ob is what state s shows (s satisfies the global invariant; the witnesses are unique) *)
Definition observes (fsz vid : N) (s : st) (ob : obs) : Prop :=
  exists vi v bl rch T, fs_inv_at fsz vid s vi v bl rch T /\ ob = obs_at s v bl T.

(* ================================================================== 2. the per-operation obligation *)
(* ---- vocabulary ---- *)
(* nothing that can be observed changes *)
Definition same_obs (a a' : obs) : Prop := a' = a.
(* the files: every position other than p shows the same in both views *)
Definition others_same (p : spos) (a a' : obs) : Prop :=
  forall q, q <> p -> vget q (ob_mem a') = vget q (ob_mem a) /\ vget q (ob_disk a') = vget q (ob_disk a).
Definition files_same (a a' : obs) : Prop :=
  forall q, vget q (ob_mem a') = vget q (ob_mem a) /\ vget q (ob_disk a') = vget q (ob_disk a).
Definition mem_same (a a' : obs) : Prop := forall q, vget q (ob_mem a') = vget q (ob_mem a).
(* the directories: no raw slot of any directory changes *)
Definition dirs_same (a a' : obs) : Prop := forall c, dget c (ob_dirs a') = dget c (ob_dirs a).
(* the directories: exactly the 32 bytes at slot p change, in the one directory dc that holds p;
   grow = true allows that directory to have received one more cluster of empty slots first
   (p may lie in it); every other directory keeps all its raw slots *)
Definition zero_slot (t : tslot) : Prop := snd t = repeat 0 32.
Definition dirs_slot (grow : bool) (p : spos) (a a' : obs) : Prop :=
  exists dc sl extra new,
    dget dc (ob_dirs a) = Some sl /\ In p (map fst (sl ++ extra)) /\
    Forall zero_slot extra /\ (grow = false -> extra = []) /\
    dget dc (ob_dirs a') = Some (map (upd_slot (fst p) (snd p) new) (sl ++ extra)) /\
    forall c, c <> dc -> dget c (ob_dirs a') = dget c (ob_dirs a).
(* the handle table *)
Definition handles_same (a a' : obs) : Prop := forall h, hget h (ob_handles a') = hget h (ob_handles a).
Definition handle_set (h : N) (hi : hinfo) (a a' : obs) : Prop :=
  forall k, hget k (ob_handles a') = if k =? h then Some hi else hget k (ob_handles a).
Definition handle_del (h : N) (a a' : obs) : Prop :=
  forall k, hget k (ob_handles a') = if k =? h then None else hget k (ob_handles a).
(* no handle is open on slot p *)
Definition not_open (p : spos) (a : obs) : Prop :=
  forall k hi, hget k (ob_handles a) = Some hi -> hi_pos hi <> p.

Definition writable (md : mode) : bool := negb (mode_eqb md ReadOnly).
(* the bytes a read of n bytes at offset off returns (firstn clips at the end of the file) *)
Definition read_slice (bytes : list N) (off n : N) : list N :=
  firstn (N.to_nat n) (skipn (N.to_nat off) bytes).
Definition stamp_of (clock : N) : ts := ts_readback (clock_ts clock).

(* ---- Read h n / IoRead h n ----
   a stale handle: BadHandle.  Otherwise the call answers with the slice [off, off + n) of the
   bytes that mem_view shows for the file of the handle (clipped at the end of the file); the
   cursor advances by the number of bytes returned; nothing else changes (both views, all
   directories, all other handles). *)
Definition read_content (io : bool) (h n : N) (r : outcome res) (a a' : obs) : Prop :=
  if io && (n =? 0) then r = Ok (RBytes []) /\ same_obs a a' else
  match hget h (ob_handles a) with
  | None => r = Err BadHandle /\ same_obs a a'
  | Some hi =>
      exists fv, vget (hi_pos hi) (ob_mem a) = Some fv /\
        let bs := read_slice (fv_bytes fv) (hi_off hi) n in
        r = Ok (RBytes bs) /\
        handle_set h (set_hi_off hi (hi_off hi + N.of_nat (length bs))) a a' /\
        ob_mem a' = ob_mem a /\ ob_disk a' = ob_disk a /\ ob_dirs a' = ob_dirs a
  end.

(* ---- Write h data / IoWrite h data ----
   stale handle: BadHandle; read-only handle: ReadOnlyErr; nothing changes.  Otherwise, with
   clip = the request clipped so that the file stays below 2^32 - 1 bytes (D23: still Ok):
   - Ok: the file's bytes in mem_view become the splice spec_write bytes off clip (overwrite at
     the cursor, extend), its mtime the clock value, its attribute gets the archive bit; the
     cursor advances by |clip|; the handle is dirty;
   - DiskFull: the same for a strict prefix of clip (k bytes), without time stamp / archive bit;
   - NotEnoughSpace: the file was empty and stays empty; the handle is dirty.
   In every case: every OTHER position of both views is unchanged, no directory slot changes,
   the other handles are unchanged.  The target's own disk_view entry keeps its name, attribute,
   times; its bytes (size as on the medium, data possibly partly new) are NOT specified until the
   next flush / close. *)
Definition meta_same (x y : fview) : Prop :=
  fv_name y = fv_name x /\ fv_attr y = fv_attr x /\ fv_ctime y = fv_ctime x /\ fv_mtime y = fv_mtime x.
Definition write_result (io : bool) (data : list N) : res :=
  if io then RNum (N.of_nat (length data)) else RUnit.
Definition write_content (io : bool) (h : N) (data : list N) (clock : N) (r : outcome res) (a a' : obs) : Prop :=
  match io, data with
  | true, [] => r = Ok (RNum 0) /\ same_obs a a'
  | _, _ =>
  match hget h (ob_handles a) with
  | None => r = Err BadHandle /\ same_obs a a'
  | Some hi =>
      if negb (writable (hi_mode hi)) then r = Err ReadOnlyErr /\ same_obs a a' else
      let p := hi_pos hi in
      exists fv dfv dfv', vget p (ob_mem a) = Some fv /\
        vget p (ob_disk a) = Some dfv /\ vget p (ob_disk a') = Some dfv' /\ meta_same dfv dfv' /\
        others_same p a a' /\ dirs_same a a' /\
        let clip := clip_write (hi_off hi) data in
        ((r = Ok (write_result io data) /\
          vget p (ob_mem a') =
            Some (set_fv_attr (set_fv_mtime (set_fv_bytes fv (spec_write (fv_bytes fv) (hi_off hi) clip))
                                            (stamp_of clock))
                              (N.lor (fv_attr fv) A_ARCHIVE)) /\
          handle_set h (set_hi_dirty (set_hi_off hi (hi_off hi + N.of_nat (length clip))) true) a a')
         \/
         (r = Err DiskFull /\ exists k, (k < length clip)%nat /\
          vget p (ob_mem a') = Some (set_fv_bytes fv (spec_write (fv_bytes fv) (hi_off hi) (firstn k clip))) /\
          handle_set h (set_hi_dirty (set_hi_off hi (hi_off hi + N.of_nat k)) true) a a')
         \/
         (r = Err NotEnoughSpace /\ fv_bytes fv = [] /\
          vget p (ob_mem a') = Some fv /\ handle_set h (set_hi_dirty hi true) a a'))
  end
  end.

(* ---- Flush h / CloseFile h ----   THE C02 STATEMENT
   stale handle: BadHandle, nothing changes.  Otherwise the call answers Ok and
   - dirty handle: disk_view' at the file's position = mem_view at that position BEFORE the
     call (name, attribute, creation time, mtime, exactly the bytes); in its directory only the
     file's own 32-byte slot changes;
   - clean handle: nothing is written (disk_view and the directories are unchanged);
   every other position of both views is unchanged; mem_view is unchanged at the position as
   long as the file stays open (Flush); after CloseFile the handle is gone and mem_view' shows
   the medium there (= what it showed before, for a dirty handle; for a clean one see obs_sync). *)
Definition flush_content (close : bool) (h : N) (r : outcome res) (a a' : obs) : Prop :=
  match hget h (ob_handles a) with
  | None => r = Err BadHandle /\ same_obs a a'
  | Some hi =>
      let p := hi_pos hi in
      r = Ok RUnit /\ others_same p a a' /\
      (if close then handle_del h a a' else handles_same a a') /\
      (if hi_dirty hi
       then vget p (ob_disk a') = vget p (ob_mem a) /\ vget p (ob_mem a) <> None /\ dirs_slot false p a a'
       else vget p (ob_disk a') = vget p (ob_disk a) /\ dirs_same a a') /\
      vget p (ob_mem a') = (if close then vget p (ob_disk a') else vget p (ob_mem a))
  end.

(* ---- OpenFile d name md ----
   every refusal (any Err): nothing changes.  Ok (RHandle hn): hn was no handle, and one of
   - KEEP (the file exists, is not open; mode ReadOnly / Append after resolving the Create-Or
     modes): both views and all directories unchanged; the handle starts at 0, at the end for
     Append, clean;
   - TRUNCATE (exists, not open): the file shows no bytes and mtime = the clock value in BOTH
     views (the entry is written at once); in its directory only its own slot changes;
   - CREATE (no file of that name): a NEW position p appears in both views with the 8.3 name,
     attribute 0 (the archive bit comes with the first write), ctime = mtime = the clock value,
     no bytes; the slot p of one directory changes, after that directory possibly grew by one
     cluster of empty slots;
   all other positions of both views unchanged, all other handles unchanged. *)
Definition open_model_off (md : mode) (fv : fview) : N :=
  match md with ReadWriteAppend => N.of_nat (length (fv_bytes fv)) | _ => 0 end.
Definition open_content (name : list N) (md : mode) (clock : N) (r : outcome res) (a a' : obs) : Prop :=
  match r with
  | Ok (RHandle hn) =>
      hget hn (ob_handles a) = None /\
      exists sfn p md1, sfn_of_str name = Some sfn /\ not_open p a /\
        md1 = solve_mode_variant md (match vget p (ob_mem a) with Some _ => true | None => false end) /\
        others_same p a a' /\
        match vget p (ob_mem a) with
        | Some fv =>
            fv_name fv = sfn /\
            ((* keep *)
             ((md1 = ReadOnly \/ md1 = ReadWriteAppend) /\
              files_same a a' /\ dirs_same a a' /\
              handle_set hn (mk_hinfo p md1 (open_model_off md1 fv) false) a a')
             \/ (* truncate *)
             (md1 = ReadWriteTruncate /\
              vget p (ob_mem a') = Some (set_fv_mtime (set_fv_bytes fv []) (stamp_of clock)) /\
              vget p (ob_disk a') = vget p (ob_mem a') /\
              dirs_slot false p a a' /\
              handle_set hn (mk_hinfo p md1 0 false) a a'))
        | None => (* create *)
            md1 = ReadWriteCreate /\ vget p (ob_disk a) = None /\
            vget p (ob_mem a') = Some (mk_fview sfn 0 (stamp_of clock) (stamp_of clock) []) /\
            vget p (ob_disk a') = vget p (ob_mem a') /\
            dirs_slot true p a a' /\
            handle_set hn (mk_hinfo p md1 0 false) a a'
        end
  | Ok _ => False
  | _ => same_obs a a'
  end.

(* ---- Delete d name ----
   any Err: nothing changes.  Ok: the file (not open) disappears from both views, every other
   position is unchanged; in its directory only its own slot changes (first byte 0xE5); handles
   unchanged. *)
Definition delete_content (name : list N) (r : outcome res) (a a' : obs) : Prop :=
  match r with
  | Ok _ =>
      r = Ok RUnit /\
      exists sfn p fv, sfn_of_str name = Some sfn /\ vget p (ob_mem a) = Some fv /\ fv_name fv = sfn /\
        not_open p a /\ vget p (ob_mem a') = None /\ vget p (ob_disk a') = None /\
        others_same p a a' /\ dirs_slot false p a a' /\ ob_handles a' = ob_handles a
  | _ => same_obs a a'
  end.

(* ---- Mkdir d name ----
   no file position changes in either view, in any outcome; handles unchanged.  Ok: a directory
   cnew appears; in the parent only one slot changes (after the parent possibly grew by one
   cluster of empty slots); every other directory keeps all its raw slots.  Any Err (including
   NotEnoughSpace after the new cluster was allocated and released again): no directory slot
   changes. *)
Definition mkdir_content (r : outcome res) (a a' : obs) : Prop :=
  files_same a a' /\ ob_handles a' = ob_handles a /\
  match r with
  | Ok _ =>
      r = Ok RUnit /\
      exists p cnew slnew dc sl extra new,
        vget p (ob_mem a) = None /\
        dget cnew (ob_dirs a) = None /\ dget cnew (ob_dirs a') = Some slnew /\ cnew <> dc /\
        dget dc (ob_dirs a) = Some sl /\ In p (map fst (sl ++ extra)) /\ Forall zero_slot extra /\
        dget dc (ob_dirs a') = Some (map (upd_slot (fst p) (snd p) new) (sl ++ extra)) /\
        forall c, c <> dc -> c <> cnew -> dget c (ob_dirs a') = dget c (ob_dirs a)
  | _ => dirs_same a a'
  end.

(* ---- the cursor operations and the questions ----
   len = the length of the bytes mem_view shows for the handle's file *)
Definition with_handle (h : N) (a : obs) (k : hinfo -> N -> Prop) (bad : Prop) : Prop :=
  match hget h (ob_handles a) with
  | None => bad
  | Some hi => exists fv, vget (hi_pos hi) (ob_mem a) = Some fv /\ k hi (N.of_nat (length (fv_bytes fv)))
  end.
Definition seek_content (h : N) (target : N -> N -> option N) (r : outcome res) (a a' : obs) : Prop :=
  with_handle h a (fun hi len =>
    match target len (hi_off hi) with
    | Some n => r = Ok RUnit /\ ob_mem a' = ob_mem a /\ ob_disk a' = ob_disk a /\ ob_dirs a' = ob_dirs a /\
                handle_set h (set_hi_off hi n) a a'
    | None => r = Err InvalidOffset /\ same_obs a a'
    end) (r = Err BadHandle /\ same_obs a a').
Definition io_seek_target (w : whence) (x : Z) (len off : N) : option N :=
  if PrSeek.seek_accepts w x len off then Some (Z.to_N (PrSeek.seek_target w x len off)) else None.
Definition io_seek_content (h : N) (w : whence) (x : Z) (r : outcome res) (a a' : obs) : Prop :=
  match hget h (ob_handles a) with
  | None => (exists e, r = Err e) /\ same_obs a a'
  | Some hi => exists fv, vget (hi_pos hi) (ob_mem a) = Some fv /\
      match io_seek_target w x (N.of_nat (length (fv_bytes fv))) (hi_off hi) with
      | Some n => r = Ok (RNum n) /\ ob_mem a' = ob_mem a /\ ob_disk a' = ob_disk a /\ ob_dirs a' = ob_dirs a /\
                  handle_set h (set_hi_off hi n) a a'
      | None => r = Err InvalidOffset /\ same_obs a a'
      end
  end.
Definition query_content (h : N) (answer : hinfo -> N -> res) (r : outcome res) (a a' : obs) : Prop :=
  same_obs a a' /\
  with_handle h a (fun hi len => r = Ok (answer hi len)) (r = Err BadHandle).

(* ---- the obligation ---- *)
Definition content_rel (o : op) (clock : N) (r : outcome res) (a a' : obs) : Prop :=
  match o with
  | Read h n => read_content false h n r a a'
  | IoRead h n => read_content true h n r a a'
  | Write h data => write_content false h data clock r a a'
  | IoWrite h data => write_content true h data clock r a a'
  | Flush h => flush_content false h r a a'
  | CloseFile h => flush_content true h r a a'
  | OpenFile d name md => open_content name md clock r a a'
  | Delete d name => delete_content name r a a'
  | Mkdir d name => mkdir_content r a a'
  | SeekStart h x => seek_content h (fun len off => spec_seek_start len off x) r a a'
  | SeekEnd h x => seek_content h (fun len off => spec_seek_end len off x) r a a'
  | SeekCur h x => seek_content h (fun len off => spec_seek_cur len off x) r a a'
  | IoSeek h w x => io_seek_content h w x r a a'
  | Length h => query_content h (fun _ len => RNum len) r a a'
  | Offset h => query_content h (fun hi _ => RNum (hi_off hi)) r a a'
  | Eof h => query_content h (fun hi len => RBool (hi_off hi =? len)) r a a'
  (* OpenRoot, OpenDir, CloseDir, Find, Iter (the inner call is refused by the lock), Label,
     HasOpen; OpenVol / CloseVol / Remount are outside op_known_ok *)
  | _ => same_obs a a'
  end.

(* from any state with the global invariant, for every observation of it (there is exactly
   one), the state after the call has an observation related as the operation's case says;
   clock = the value of the model's clock before the call *)
Definition step_content (fsz vid : N) (o : op) : Prop :=
  forall s r s' a, fs_inv fsz vid s -> id_fresh s -> op_known_ok o -> step o s = (r, s') ->
    observes fsz vid s a ->
    exists a', observes fsz vid s' a' /\ content_rel o (s_clock s) r a a'.

(* ================================================================== 1a. the normalisation of time stamps *)
(* decoded values are fixed points of the round trip when the two words are 16-bit words ... *)
Lemma ts_readback_from_fat date time : date < 65536 -> time < 65536 ->
  ts_readback (ts_from_fat date time) = ts_from_fat date time.
Proof.
  intros Hd Ht. unfold ts_readback.
  rewrite (reencode_time date time Ht), (reencode_date_fields date time Hd).
  rewrite !ts_from_fat_arith. unfold dec_ts.
  set (m := (date / 32) mod 16). set (dd := date mod 32). set (y := date / 512).
  assert (Hm : m < 16) by (subst m; lia). assert (Hdd : dd < 32) by (subst dd; lia).
  set (m1 := if m =? 0 then 1 else m). set (d1 := if dd =? 0 then 1 else dd).
  assert (Hm1 : m1 < 16 /\ (m1 =? 0) = false /\ m1 - 1 = (if m =? 0 then 0 else m - 1)).
  { subst m1. destruct (N.eqb_spec m 0) as [E|E]; [repeat split; try lia; reflexivity|].
    repeat split; try lia. apply N.eqb_neq. exact E. }
  assert (Hd1 : d1 < 32 /\ (d1 =? 0) = false /\ d1 - 1 = (if dd =? 0 then 0 else dd - 1)).
  { subst d1. destruct (N.eqb_spec dd 0) as [E|E]; [repeat split; try lia; reflexivity|].
    repeat split; try lia. apply N.eqb_neq. exact E. }
  destruct Hm1 as (A1 & A2 & A3). destruct Hd1 as (B1 & B2 & B3).
  assert (Y : (y * 512 + m1 * 32 + d1) / 512 = y) by lia.
  assert (M : ((y * 512 + m1 * 32 + d1) / 32) mod 16 = m1) by lia.
  assert (D : (y * 512 + m1 * 32 + d1) mod 32 = d1) by lia.
  rewrite Y, M, D, A2, B2, A3, B3. reflexivity.
Qed.

(* ... hence the round trip is idempotent on every value *)
Lemma ts_readback_idem t : ts_readback (ts_readback t) = ts_readback t.
Proof. unfold ts_readback at 2 3. apply ts_readback_from_fat; [apply fat_date_lt|apply fat_time_lt]. Qed.

Lemma stamp_of_round2 k : stamp_of k = round2 (clock_ts k).
Proof. exact (proj1 (C02_clock_ts_roundtrip k)). Qed.

(* ================================================================== 1b. lookups *)
Lemma pos_eqb_refl p : pos_eqb p p = true.
Proof. apply pos_eqb_eq. reflexivity. Qed.
Lemma pos_eqb_neq a b : a <> b -> pos_eqb a b = false.
Proof. intros H. destruct (pos_eqb a b) eqn:E; [|reflexivity]. apply pos_eqb_eq in E. contradiction. Qed.

Lemma vget_app {A} p (l1 l2 : list (spos * A)) :
  vget p (l1 ++ l2) = match vget p l1 with Some x => Some x | None => vget p l2 end.
Proof.
  induction l1 as [|[q x] l1 IH]; [reflexivity|]. cbn [app vget]. destruct (pos_eqb q p); [reflexivity|exact IH].
Qed.

Lemma vget_In {A} p (l : list (spos * A)) x : vget p l = Some x -> In (p, x) l.
Proof.
  induction l as [|[q y] l IH]; [discriminate|]. cbn [vget]. destruct (pos_eqb q p) eqn:E.
  - intros H. injection H as ->. apply pos_eqb_eq in E. subst q. left. reflexivity.
  - intros H. right. exact (IH H).
Qed.

Lemma vget_none {A} p (l : list (spos * A)) : ~ In p (map fst l) -> vget p l = None.
Proof.
  induction l as [|[q y] l IH]; [reflexivity|]. cbn [map fst vget]. intros H.
  rewrite pos_eqb_neq by (intros ->; apply H; left; reflexivity). apply IH. intros Hin. apply H. right. exact Hin.
Qed.

Lemma vget_nodup {A} p (l : list (spos * A)) x : NoDup (map fst l) -> In (p, x) l -> vget p l = Some x.
Proof.
  induction l as [|[q y] l IH]; intros Hnd Hin; [destruct Hin|]. cbn [map fst] in Hnd.
  inversion Hnd as [|? ? Hq Hnd']; subst. cbn [vget]. destruct Hin as [E|Hin].
  - injection E as -> ->. rewrite pos_eqb_refl. reflexivity.
  - rewrite pos_eqb_neq; [exact (IH Hnd' Hin)|]. intros ->. apply Hq.
    change p with (fst (p, x)). apply in_map. exact Hin.
Qed.

Lemma dget_In {A} c (l : list (N * A)) x : dget c l = Some x -> In (c, x) l.
Proof.
  induction l as [|[k y] l IH]; [discriminate|]. cbn [dget]. destruct (N.eqb_spec k c) as [->|E].
  - intros H. injection H as ->. left. reflexivity.
  - intros H. right. exact (IH H).
Qed.

Lemma dget_none {A} c (l : list (N * A)) : ~ In c (map fst l) -> dget c l = None.
Proof.
  induction l as [|[k y] l IH]; [reflexivity|]. cbn [map fst dget]. intros H.
  destruct (N.eqb_spec k c) as [->|E]; [exfalso; apply H; left; reflexivity|].
  apply IH. intros Hin. apply H. right. exact Hin.
Qed.

Lemma dget_nodup {A} c (l : list (N * A)) x : NoDup (map fst l) -> In (c, x) l -> dget c l = Some x.
Proof.
  induction l as [|[k y] l IH]; intros Hnd Hin; [destruct Hin|]. cbn [map fst] in Hnd.
  inversion Hnd as [|? ? Hq Hnd']; subst. cbn [dget]. destruct Hin as [E|Hin].
  - injection E as -> ->. rewrite N.eqb_refl. reflexivity.
  - destruct (N.eqb_spec k c) as [->|E]; [|exact (IH Hnd' Hin)]. exfalso. apply Hq.
    change c with (fst (c, x)). apply in_map. exact Hin.
Qed.

(* ---- the items of a view ---- *)
Lemma file_items_keys {A} (g : node -> A) L :
  map fst (flat_map (file_item g) L) = map node_pos (filter (fun n => negb (node_is_dir n)) L).
Proof.
  induction L as [|n L IH]; [reflexivity|]. cbn [flat_map filter]. rewrite map_app, IH.
  destruct n; reflexivity.
Qed.

Lemma nodup_map_filter {A B} (g : A -> B) (q : A -> bool) l : NoDup (map g l) -> NoDup (map g (filter q l)).
Proof.
  induction l as [|a l IH]; intros H; [constructor|]. cbn [map] in H. inversion H as [|? ? Ha Hl]; subst.
  cbn [filter]. destruct (q a); [|exact (IH Hl)]. cbn [map]. constructor; [|exact (IH Hl)].
  intros Hin. apply Ha. apply in_map_iff in Hin. destruct Hin as (x & E & Hx). apply filter_In in Hx.
  rewrite <- E. apply in_map. exact (proj1 Hx).
Qed.

Lemma file_items_nodup {A} (g : node -> A) L : NoDup (map node_pos L) -> NoDup (map fst (flat_map (file_item g) L)).
Proof. intros H. rewrite file_items_keys. apply nodup_map_filter. exact H. Qed.

(* a file node of the list is found at its position ... *)
Lemma vget_file_item {A} (g : node -> A) L e ch : NoDup (map node_pos L) -> In (NFile e ch) L ->
  vget (node_pos (NFile e ch)) (flat_map (file_item g) L) = Some (g (NFile e ch)).
Proof.
  intros Hnd Hin. apply vget_nodup; [exact (file_items_nodup g L Hnd)|].
  apply in_flat_map. exists (NFile e ch). split; [exact Hin|left; reflexivity].
Qed.

(* ... whatever is found is a file node of the list ... *)
Lemma vget_file_item_inv {A} (g : node -> A) L p x : vget p (flat_map (file_item g) L) = Some x ->
  exists e ch, In (NFile e ch) L /\ node_pos (NFile e ch) = p /\ x = g (NFile e ch).
Proof.
  intros H. apply vget_In in H. apply in_flat_map in H. destruct H as (n & Hn & Hi).
  destruct n as [e ch|e ch kids]; [|destruct Hi]. destruct Hi as [E|[]]. injection E as <- <-.
  exists e, ch. repeat split. exact Hn.
Qed.

(* ... and a position that is no file node's shows nothing *)
Lemma vget_file_item_none {A} (g : node -> A) L p :
  (forall e ch, In (NFile e ch) L -> node_pos (NFile e ch) <> p) -> vget p (flat_map (file_item g) L) = None.
Proof.
  intros H. destruct (vget p (flat_map (file_item g) L)) as [x|] eqn:E; [|reflexivity].
  destruct (vget_file_item_inv g L p x E) as (e & ch & Hin & Ep & _). exfalso. exact (H e ch Hin Ep).
Qed.

(* the two views list the same positions *)
Lemma view_keys s v T : map fst (mem_view s v T) = map fst (disk_view (s_disk s) v T).
Proof. unfold mem_view, disk_view. rewrite !file_items_keys. reflexivity. Qed.

Lemma vget_mem_none_iff s v T p : vget p (mem_view s v T) = None <-> vget p (disk_view (s_disk s) v T) = None.
Proof.
  unfold mem_view, disk_view. split; intros H.
  - apply vget_file_item_none. intros e ch Hin Ep.
    destruct (vget p (flat_map (file_item (mem_item s v)) (all_nodes T))) eqn:E; [discriminate|].
    assert (Hk : In p (map fst (flat_map (file_item (mem_item s v)) (all_nodes T)))).
    { apply in_map_iff. exists (p, mem_item s v (NFile e ch)). split; [reflexivity|].
      apply in_flat_map. exists (NFile e ch). split; [exact Hin|]. rewrite <- Ep. left. reflexivity. }
    clear H. induction (flat_map (file_item (mem_item s v)) (all_nodes T)) as [|[q y] l IH]; [destruct Hk|].
    cbn [vget] in E. destruct (pos_eqb q p) eqn:Eq; [discriminate|]. destruct Hk as [Hk|Hk].
    + cbn [fst] in Hk. subst q. rewrite pos_eqb_refl in Eq. discriminate.
    + exact (IH E Hk).
  - apply vget_file_item_none. intros e ch Hin Ep.
    assert (Hk : In p (map fst (flat_map (file_item (disk_fv (s_disk s) v)) (all_nodes T)))).
    { apply in_map_iff. exists (p, disk_fv (s_disk s) v (NFile e ch)). split; [reflexivity|].
      apply in_flat_map. exists (NFile e ch). split; [exact Hin|]. rewrite <- Ep. left. reflexivity. }
    induction (flat_map (file_item (disk_fv (s_disk s) v)) (all_nodes T)) as [|[q y] l IH]; [destruct Hk|].
    cbn [vget] in H. destruct (pos_eqb q p) eqn:Eq; [discriminate|]. destruct Hk as [Hk|Hk].
    + cbn [fst] in Hk. subst q. rewrite pos_eqb_refl in Eq. discriminate.
    + exact (IH H Hk).
Qed.

(* with no file open the API shows the medium *)
Lemma mem_item_closed s v n : s_files s = [] -> mem_item s v n = disk_fv (s_disk s) v n.
Proof. intros H. unfold mem_item, open_at. rewrite H. reflexivity. Qed.
Theorem mem_view_closed s v T : s_files s = [] -> mem_view s v T = disk_view (s_disk s) v T.
Proof.
  intros H. unfold mem_view, disk_view. apply flat_map_ext. intros n.
  destruct n; cbn [file_item]; [|reflexivity]. rewrite (mem_item_closed s v _ H). reflexivity.
Qed.

(* congruence: the items decide the view *)
Lemma mem_view_ext s s' v v' T :
  (forall e ch, In (NFile e ch) (all_nodes T) -> mem_item s' v' (NFile e ch) = mem_item s v (NFile e ch)) ->
  mem_view s' v' T = mem_view s v T.
Proof.
  intros H. unfold mem_view. induction (all_nodes T) as [|n L IH]; [reflexivity|]. cbn [flat_map].
  rewrite IH by (intros e ch Hin; apply H; right; exact Hin).
  destruct n as [e ch|e ch kids]; cbn [file_item]; [|reflexivity].
  rewrite (H e ch (or_introl eq_refl)). reflexivity.
Qed.
Lemma disk_view_ext d d' v v' T :
  (forall e ch, In (NFile e ch) (all_nodes T) -> file_bytes d' v' ch = file_bytes d v ch) ->
  disk_view d' v' T = disk_view d v T.
Proof.
  intros H. unfold disk_view. induction (all_nodes T) as [|n L IH]; [reflexivity|]. cbn [flat_map].
  rewrite IH by (intros e ch Hin; apply (H e ch); right; exact Hin).
  destruct n as [e ch|e ch kids]; cbn [file_item]; [|reflexivity].
  unfold disk_fv. cbn [node_entry node_chain]. rewrite (H e ch (or_introl eq_refl)). reflexivity.
Qed.

(* ---- geometry: only the geometry of the volume record matters ---- *)
Lemma file_bytes_geo d v w ch : geo_eq v w -> file_bytes d w ch = file_bytes d v ch.
Proof. intros (a & b & ->). reflexivity. Qed.
Lemma disk_view_geo d v w T : geo_eq v w -> disk_view d w T = disk_view d v T.
Proof. intros G. apply disk_view_ext. intros e ch _. apply file_bytes_geo. exact G. Qed.
Lemma dir_view_geo d v w bl T : geo_eq v w -> dir_view d w bl T = dir_view d v bl T.
Proof. intros (a & b & ->). reflexivity. Qed.

(* ---- handles ---- *)
Lemma hget_handles_of h l :
  hget h (map (fun f => (f_id f, hinfo_of f)) l) = option_map hinfo_of (find (fun f => f_id f =? h) l).
Proof.
  unfold hget. induction l as [|f l IH]; [reflexivity|]. cbn [map dget find].
  destruct (f_id f =? h); [reflexivity|exact IH].
Qed.

Lemma find_idx_find {A} (q : A -> bool) : forall l i j, find_idx q l i = Some j ->
  exists x, find q l = Some x /\ nth_error l (j - i) = Some x.
Proof.
  induction l as [|a l IH]; intros i j H; [discriminate|]. cbn [find_idx find] in *.
  destruct (q a) eqn:E.
  - injection H as <-. exists a. rewrite Nat.sub_diag. split; reflexivity.
  - destruct (IH _ _ H) as (x & Hx & Hn). exists x. split; [exact Hx|].
    pose proof (PrSeek.find_idx_ge _ _ _ _ H) as Hge.
    replace (j - i)%nat with (S (j - S i)) by lia. exact Hn.
Qed.

Lemma hget_resolves s h fi f : PrSeek.resolves s h fi f -> hget h (handles_of s) = Some (hinfo_of f).
Proof.
  intros (_ & Hf & Hn). unfold handles_of. rewrite hget_handles_of.
  destruct (find_idx_find _ _ _ _ Hf) as (x & Hx & Hn'). rewrite Nat.sub_0_r, Hn in Hn'. injection Hn' as <-.
  rewrite Hx. reflexivity.
Qed.

Lemma hget_stale s h : PrHandles.no_file h s -> hget h (handles_of s) = None.
Proof.
  intros Hno. unfold handles_of. rewrite hget_handles_of.
  destruct (find (fun f => f_id f =? h) (s_files s)) as [f|] eqn:E; [|reflexivity].
  destruct (find_some _ _ E) as (Hin & Hid). apply N.eqb_eq in Hid. exfalso. exact (Hno f Hin Hid).
Qed.

Lemma hget_Some_resolves s h hi : s_lock s = false -> hget h (handles_of s) = Some hi ->
  exists fi f, PrSeek.resolves s h fi f /\ hi = hinfo_of f.
Proof.
  intros Hl H. destruct (file_handle_cases s h Hl) as [(fi & f & Hr)|Hno].
  - exists fi, f. split; [exact Hr|]. rewrite (hget_resolves s h fi f Hr) in H. injection H as <-. reflexivity.
  - rewrite (hget_stale s h Hno) in H. discriminate.
Qed.

(* replacing the record at index fi by one with the same id *)
Lemma hget_list_set l fi f f' k : NoDup (map f_id l) -> nth_error l fi = Some f -> f_id f' = f_id f ->
  hget k (map (fun g => (f_id g, hinfo_of g)) (list_set l fi f')) =
  if k =? f_id f then Some (hinfo_of f') else hget k (map (fun g => (f_id g, hinfo_of g)) l).
Proof.
  revert fi. unfold hget. induction l as [|a l IH]; intros fi Hnd Hn Eid; [destruct fi; discriminate|].
  cbn [map] in Hnd. inversion Hnd as [|? ? Ha Hl]; subst. destruct fi as [|fi]; cbn [nth_error] in Hn.
  - injection Hn as ->. cbn [list_set map dget]. rewrite Eid. destruct (N.eqb_spec (f_id f) k) as [->|E].
    + rewrite N.eqb_refl. reflexivity.
    + replace (k =? f_id f) with false by (symmetry; apply N.eqb_neq; congruence). reflexivity.
  - cbn [list_set map dget]. destruct (N.eqb_spec (f_id a) k) as [E|E].
    + replace (k =? f_id f) with false; [reflexivity|]. symmetry. apply N.eqb_neq. intros E2. apply Ha.
      rewrite E, E2. apply in_map. exact (nth_error_In _ _ Hn).
    + exact (IH fi Hl Hn Eid).
Qed.

(* ================================================================== 1c. the witnesses of the invariant are unique *)
Lemma root_dir_det d v bl1 rch1 bl2 rch2 : root_dir d v bl1 rch1 -> root_dir d v bl2 rch2 -> bl1 = bl2 /\ rch1 = rch2.
Proof.
  unfold root_dir. destruct (v_fat32 v).
  - intros (C1 & ->) (C2 & ->). rewrite (chain_at_det _ _ _ _ _ C1 C2). split; reflexivity.
  - intros (-> & ->) (-> & ->). split; reflexivity.
Qed.

Theorem fs_inv_at_det fsz vid s vi1 v1 bl1 rch1 T1 vi2 v2 bl2 rch2 T2 :
  fs_inv_at fsz vid s vi1 v1 bl1 rch1 T1 -> fs_inv_at fsz vid s vi2 v2 bl2 rch2 T2 ->
  vi1 = vi2 /\ v1 = v2 /\ bl1 = bl2 /\ rch1 = rch2 /\ T1 = T2.
Proof.
  intros H1 H2.
  pose proof (fi_single _ _ _ _ _ _ _ _ H1) as E1. pose proof (fi_single _ _ _ _ _ _ _ _ H2) as E2.
  rewrite E1 in E2. injection E2 as <-.
  destruct (fi_vol _ _ _ _ _ _ _ _ H1) as (_ & _ & _ & _ & _ & F1).
  destruct (fi_vol _ _ _ _ _ _ _ _ H2) as (_ & _ & _ & _ & _ & F2).
  rewrite F1 in F2. injection F2 as <-.
  pose proof (fi_disk _ _ _ _ _ _ _ _ H1) as D1. pose proof (fi_disk _ _ _ _ _ _ _ _ H2) as D2.
  destruct (root_dir_det _ _ _ _ _ _ (di_root _ _ _ _ _ _ D1) (di_root _ _ _ _ _ _ D2)) as (<- & <-).
  rewrite (tree_rep_det _ _ _ _ _ (di_tree _ _ _ _ _ _ D1) (di_tree _ _ _ _ _ _ D2)).
  repeat split; reflexivity.
Qed.

Theorem observes_det fsz vid s a b : observes fsz vid s a -> observes fsz vid s b -> a = b.
Proof.
  intros (vi1 & v1 & bl1 & rch1 & T1 & H1 & ->) (vi2 & v2 & bl2 & rch2 & T2 & H2 & ->).
  destruct (fs_inv_at_det _ _ _ _ _ _ _ _ _ _ _ _ _ H1 H2) as (_ & <- & <- & _ & <-). reflexivity.
Qed.

Theorem observes_exists fsz vid s : fs_inv fsz vid s -> exists a, observes fsz vid s a.
Proof. intros (vi & v & bl & rch & T & H). exists (obs_at s v bl T), vi, v, bl, rch, T. split; [exact H|reflexivity]. Qed.

Lemma observes_inv fsz vid s a : observes fsz vid s a -> fs_inv fsz vid s.
Proof. intros (vi & v & bl & rch & T & H & _). exists vi, v, bl, rch, T. exact H. Qed.

(* how to produce an observation of the state after a call: the invariant (from PrGlobal.all_steps_ok)
   and ANY tree that represents the new disk *)
Theorem observes_intro fsz vid s v bl rch T : fs_inv fsz vid s -> s_vols s = [v] ->
  root_dir (s_disk s) v bl rch -> tree_rep (s_disk s) v bl T -> observes fsz vid s (obs_at s v bl T).
Proof.
  intros (vi & v0 & bl0 & rch0 & T0 & H) Ev Hr Ht.
  pose proof (fi_single _ _ _ _ _ _ _ _ H) as E. rewrite Ev in E. injection E as <-.
  pose proof (fi_disk _ _ _ _ _ _ _ _ H) as D.
  destruct (root_dir_det _ _ _ _ _ _ Hr (di_root _ _ _ _ _ _ D)) as (-> & ->).
  rewrite (tree_rep_det _ _ _ _ _ Ht (di_tree _ _ _ _ _ _ D)).
  exists vi, v, bl0, rch0, T0. split; [exact H|reflexivity].
Qed.

(* the same with the witnesses of the invariant at hand *)
Lemma observes_at fsz vid s vi v bl rch T : fs_inv_at fsz vid s vi v bl rch T -> observes fsz vid s (obs_at s v bl T).
Proof. intros H. exists vi, v, bl, rch, T. split; [exact H|reflexivity]. Qed.

Lemma observes_at_inv fsz vid s a vi v bl rch T : observes fsz vid s a -> fs_inv_at fsz vid s vi v bl rch T ->
  a = obs_at s v bl T.
Proof. intros Ho H. exact (observes_det fsz vid s _ _ Ho (observes_at _ _ _ _ _ _ _ _ H)). Qed.

(* ---- disk_view is what a FRESH MOUNT of the raw medium shows: it is computed from the disk and
   the geometry alone (root_of / tree_of read the raw blocks; no table of the manager is used) ---- *)
Theorem disk_view_fresh fsz vid s vi v bl rch T w depth bl0 rch0 T0 :
  fs_inv_at fsz vid s vi v bl rch T -> geo_eq v w ->
  root_of (s_disk s) w = Some (bl0, rch0) -> tree_of depth (s_disk s) w bl0 = Some T0 ->
  bl0 = bl /\ T0 = T /\
  disk_view (s_disk s) w T0 = disk_view (s_disk s) v T /\
  dir_view (s_disk s) w bl0 T0 = dir_view (s_disk s) v bl T.
Proof.
  intros H G Er Et. pose proof (fi_disk _ _ _ _ _ _ _ _ H) as D.
  pose proof (root_of_sound _ _ _ _ Er) as R0. pose proof (tree_of_sound _ _ _ _ _ Et) as T0r.
  apply PrWf.geo_eq_sym in G.
  pose proof (root_dir_geo _ _ _ _ _ G R0) as R1. pose proof (tree_rep_geo _ _ _ _ _ G T0r) as T1.
  destruct (root_dir_det _ _ _ _ _ _ R1 (di_root _ _ _ _ _ _ D)) as (-> & ->).
  rewrite (tree_rep_det _ _ _ _ _ T1 (di_tree _ _ _ _ _ _ D)).
  apply PrWf.geo_eq_sym in G.
  split; [reflexivity|]. split; [reflexivity|]. split; [apply disk_view_geo; exact G|apply dir_view_geo; exact G].
Qed.

(* and it does not depend on the tables of the manager at all: two states with the same disk and
   volume geometry show the same medium *)
Corollary disk_view_tables fsz vid s1 s2 a1 a2 : observes fsz vid s1 a1 -> observes fsz vid s2 a2 ->
  s_disk s2 = s_disk s1 -> same_geo s1 s2 -> ob_disk a2 = ob_disk a1 /\ ob_dirs a2 = ob_dirs a1.
Proof.
  intros (vi1 & v1 & bl1 & rch1 & T1 & H1 & ->) (vi2 & v2 & bl2 & rch2 & T2 & H2 & ->) Ed (x & y & Ex & Ey & G).
  rewrite (fi_single _ _ _ _ _ _ _ _ H1) in Ex. injection Ex as <-.
  rewrite (fi_single _ _ _ _ _ _ _ _ H2) in Ey. injection Ey as <-.
  pose proof (fi_disk _ _ _ _ _ _ _ _ H1) as D1. pose proof (fi_disk _ _ _ _ _ _ _ _ H2) as D2.
  rewrite Ed in D2. apply PrWf.geo_eq_sym in G.
  pose proof (root_dir_geo _ _ _ _ _ G (di_root _ _ _ _ _ _ D2)) as R.
  destruct (root_dir_det _ _ _ _ _ _ R (di_root _ _ _ _ _ _ D1)) as (-> & ->).
  pose proof (tree_rep_geo _ _ _ _ _ G (di_tree _ _ _ _ _ _ D2)) as Tr.
  rewrite (tree_rep_det _ _ _ _ _ Tr (di_tree _ _ _ _ _ _ D1)).
  apply PrWf.geo_eq_sym in G. cbn [obs_at ob_disk ob_dirs]. rewrite Ed.
  split; [apply disk_view_geo; exact G|apply dir_view_geo; exact G].
Qed.

(* ================================================================== 1d. the views of a state with the invariant *)
Lemma find_key_nodup {A} (key : A -> spos) : forall l f, NoDup (map key l) -> In f l ->
  find (fun g => pos_eqb (key g) (key f)) l = Some f.
Proof.
  induction l as [|a l IH]; intros f Hnd Hin; [destruct Hin|]. cbn [map] in Hnd.
  inversion Hnd as [|? ? Ha Hl]; subst. cbn [find]. destruct Hin as [->|Hin].
  - rewrite pos_eqb_refl. reflexivity.
  - rewrite pos_eqb_neq; [exact (IH f Hl Hin)|]. intros E. apply Ha. rewrite E. apply in_map. exact Hin.
Qed.

Lemma find_key_none {A} (key : A -> spos) l p : (forall g, In g l -> key g <> p) ->
  find (fun g => pos_eqb (key g) p) l = None.
Proof.
  intros H. destruct (find (fun g => pos_eqb (key g) p) l) as [g|] eqn:E; [|reflexivity].
  destruct (find_some _ _ E) as (Hin & Hk). apply pos_eqb_eq in Hk. exfalso. exact (H g Hin Hk).
Qed.

Section StateViews.
  Variables (fsz vid : N) (s : st) (vi : nat) (v : vol) (bl rch : list N) (T : list node).
  Hypothesis Hinv : fs_inv_at fsz vid s vi v bl rch T.

  Let Hdi := fi_disk _ _ _ _ _ _ _ _ Hinv.
  Let Hpos := di_pos _ _ _ _ _ _ Hdi.

  (* the record found at the slot of an open file is that file's *)
  Lemma open_at_file f : In f (s_files s) -> open_at s (slot_key f) = Some f.
  Proof. intros Hf. exact (find_key_nodup slot_key _ f (fi_fslots _ _ _ _ _ _ _ _ Hinv) Hf). Qed.

  Lemma open_at_none p : (forall f, In f (s_files s) -> slot_key f <> p) -> open_at s p = None.
  Proof. apply find_key_none. Qed.

  (* an open file is shown through its record *)
  Theorem vget_mem_open f : In f (s_files s) -> vget (slot_key f) (mem_view s v T) = Some (mem_fv s v f).
  Proof.
    intros Hf. destruct (of_node _ _ _ _ (ofile_of fsz vid s vi v bl rch T Hinv f Hf))
      as (e0 & ch0 & Hn & Eb & Eo & _).
    assert (Ep : node_pos (NFile e0 ch0) = slot_key f).
    { unfold node_pos, slot_key. cbn [node_entry]. rewrite Eb, Eo. reflexivity. }
    unfold mem_view. rewrite <- Ep. rewrite (vget_file_item (mem_item s v) _ e0 ch0 Hpos Hn).
    unfold mem_item. rewrite Ep, (open_at_file f Hf). reflexivity.
  Qed.

  (* a file node nobody has open is shown as the medium holds it *)
  Theorem vget_mem_closed e ch : In (NFile e ch) (all_nodes T) ->
    (forall f, In f (s_files s) -> slot_key f <> node_pos (NFile e ch)) ->
    vget (node_pos (NFile e ch)) (mem_view s v T) = Some (disk_fv (s_disk s) v (NFile e ch)).
  Proof.
    intros Hn Hno. unfold mem_view. rewrite (vget_file_item (mem_item s v) _ e ch Hpos Hn).
    unfold mem_item. rewrite (open_at_none _ Hno). reflexivity.
  Qed.

  Theorem vget_disk_node e ch : In (NFile e ch) (all_nodes T) ->
    vget (node_pos (NFile e ch)) (disk_view (s_disk s) v T) = Some (disk_fv (s_disk s) v (NFile e ch)).
  Proof. intros Hn. unfold disk_view. exact (vget_file_item _ _ e ch Hpos Hn). Qed.

  (* the medium's entry for the slot of an open file *)
  Lemma vget_disk_open f : In f (s_files s) ->
    exists e0 ch0, In (NFile e0 ch0) (all_nodes T) /\ node_pos (NFile e0 ch0) = slot_key f /\
      e_name e0 = e_name (f_entry f) /\
      vget (slot_key f) (disk_view (s_disk s) v T) = Some (disk_fv (s_disk s) v (NFile e0 ch0)).
  Proof.
    intros Hf. destruct (of_node _ _ _ _ (ofile_of fsz vid s vi v bl rch T Hinv f Hf))
      as (e0 & ch0 & Hn & Eb & Eo & En & _).
    assert (Ep : node_pos (NFile e0 ch0) = slot_key f).
    { unfold node_pos, slot_key. cbn [node_entry]. rewrite Eb, Eo. reflexivity. }
    exists e0, ch0. split; [exact Hn|]. split; [exact Ep|]. split; [exact En|].
    rewrite <- Ep. exact (vget_disk_node e0 ch0 Hn).
  Qed.

  (* the size is the number of bytes shown *)
  Lemma blocks_wf_inv : blocks_wf (s_disk s).
  Proof. destruct (fi_vol _ _ _ _ _ _ _ _ Hinv) as (_ & _ & _ & _ & W & _). exact W. Qed.

  Lemma fv_of_len e ch : e_size e <= N.of_nat (length ch) * bytes_per_cluster v ->
    N.of_nat (length (fv_bytes (fv_of e (file_bytes (s_disk s) v ch)))) = e_size e.
  Proof.
    intros Hs. unfold fv_of. cbn [fv_bytes]. rewrite firstn_length, (file_bytes_length _ _ _ blocks_wf_inv).
    unfold bytes_per_cluster in Hs. clear - Hs. lia.
  Qed.

  Lemma mem_fv_len f : In f (s_files s) -> N.of_nat (length (fv_bytes (mem_fv s v f))) = e_size (f_entry f).
  Proof.
    intros Hf. apply fv_of_len. exact (of_size _ _ _ _ (ofile_of fsz vid s vi v bl rch T Hinv f Hf)).
  Qed.

  (* what a handle shows: its record's slot, and the bytes have the record's size *)
  Theorem handle_view h fi f : PrSeek.resolves s h fi f ->
    hget h (handles_of s) = Some (hinfo_of f) /\
    vget (hi_pos (hinfo_of f)) (mem_view s v T) = Some (mem_fv s v f) /\
    N.of_nat (length (fv_bytes (mem_fv s v f))) = PrSeek.flen f /\
    fv_bytes (mem_fv s v f) =
      firstn (N.to_nat (e_size (f_entry f))) (file_bytes (s_disk s) v (fchain (s_disk s) v f)).
  Proof.
    intros Hr. pose proof (nth_error_In _ _ (proj2 (proj2 Hr))) as Hf.
    split; [exact (hget_resolves s h fi f Hr)|]. split; [exact (vget_mem_open f Hf)|].
    split; [exact (mem_fv_len f Hf)|reflexivity].
  Qed.

  (* ---- the directories ---- *)
  Lemma dir_cluster_not_root e ch kids : In (NDir e ch kids) (all_nodes T) -> e_cluster e <> CL_ROOT.
  Proof.
    intros Hn E.
    destruct (dir_node_chain _ _ _ _ _ _ Hdi e ch kids Hn) as (Hch & _).
    destruct (chain_at_head _ _ _ _ Hch) as (r & ->).
    destruct (chain_at_mem _ _ _ _ (e_cluster e) Hch (or_introl eq_refl)) as (_ & A & _).
    pose proof (PrBounds.pl_count _ _ _ (fi_layout _ _ _ _ _ _ _ _ Hinv)) as Hc. rewrite E in A.
    unfold CL_ROOT in A. destruct (v_fat32 v); lia.
  Qed.

  Lemma dir_nodes_unique e1 ch1 k1 e2 ch2 k2 : In (NDir e1 ch1 k1) (all_nodes T) -> In (NDir e2 ch2 k2) (all_nodes T) ->
    e_cluster e1 = e_cluster e2 -> NDir e1 ch1 k1 = NDir e2 ch2 k2.
  Proof.
    intros H1 H2 E. pose proof (di_wf _ _ _ _ _ _ Hdi) as W.
    destruct (heads_nodup v T _ (wf_heads _ _ _ W)) as (N1 & _).
    apply (flat_map_owner own_head _ N1 _ _ (e_cluster e1) H1 H2); cbn [own_head]; [left; reflexivity|left; symmetry; exact E].
  Qed.

  Lemma dget_dir_items d0 e ch kids : forall L, (forall n, In n L -> In n (all_nodes T)) -> In (NDir e ch kids) L ->
    dget (e_cluster e) (flat_map (dir_item d0 v) L) = Some (slots_of d0 (data_blocks v ch)).
  Proof.
    induction L as [|n L IH]; intros Hsub Hin; [destruct Hin|]. cbn [flat_map].
    destruct n as [e0 ch0|e0 ch0 k0]; cbn [dir_item app].
    - destruct Hin as [E|Hin]; [discriminate E|]. apply IH; [intros n Hn; apply Hsub; right; exact Hn|exact Hin].
    - cbn [dget]. destruct (N.eqb_spec (e_cluster e0) (e_cluster e)) as [E|E].
      + assert (X : NDir e0 ch0 k0 = NDir e ch kids).
        { apply dir_nodes_unique; [apply Hsub; left; reflexivity| |exact E].
          apply Hsub. exact Hin. }
        injection X as _ <- _. reflexivity.
      + destruct Hin as [X|Hin]; [injection X as -> _ _; contradiction|].
        apply IH; [intros n Hn; apply Hsub; right; exact Hn|exact Hin].
  Qed.

  (* the directory with handle cluster dc shows the raw slots of its blocks *)
  Theorem dget_dir_view d0 dc bld chd : is_dir_of v bl rch T dc bld chd ->
    dget dc (dir_view d0 v bl T) = Some (slots_of d0 bld).
  Proof.
    intros [(-> & -> & ->)|(e & kids & Hn & <- & ->)]; unfold dir_view; cbn [dget].
    - rewrite N.eqb_refl. reflexivity.
    - replace (CL_ROOT =? e_cluster e) with false
        by (symmetry; apply N.eqb_neq; intros E; exact (dir_cluster_not_root e chd kids Hn (eq_sym E))).
      apply (dget_dir_items d0 e chd kids (all_nodes T)); [intros n Hn'; exact Hn'|exact Hn].
  Qed.

  (* and whatever dir_view shows is such a directory *)
  Theorem dget_dir_view_inv d0 dc sl : dget dc (dir_view d0 v bl T) = Some sl ->
    exists bld chd, is_dir_of v bl rch T dc bld chd /\ sl = slots_of d0 bld.
  Proof.
    unfold dir_view. cbn [dget]. destruct (N.eqb_spec CL_ROOT dc) as [<-|E].
    - intros H. injection H as <-. exists bl, rch. split; [left; repeat split|reflexivity].
    - intros H. apply dget_In in H. apply in_flat_map in H. destruct H as (n & Hn & Hi).
      destruct n as [e ch|e ch kids]; [destruct Hi|]. destruct Hi as [X|[]]. injection X as <- <-.
      exists (data_blocks v ch), ch. split; [|reflexivity]. right. exists e, kids. repeat split. exact Hn.
  Qed.
End StateViews.

(* ================================================================== 1e. a record changes, its entry does not *)
Lemma resolves_id s h fi f : PrSeek.resolves s h fi f -> f_id f = h.
Proof.
  intros (_ & Hf & Hn). destruct (PrSeek.find_idx_nth _ _ _ _ Hf) as (x & Hx & Hp).
  rewrite Nat.sub_0_r, Hn in Hx. injection Hx as <-. apply N.eqb_eq. exact Hp.
Qed.

Lemma mem_fv_entry s s' v f f' : s_disk s' = s_disk s -> f_entry f' = f_entry f -> mem_fv s' v f' = mem_fv s v f.
Proof. intros Ed Ee. unfold mem_fv, fchain. rewrite Ed, Ee. reflexivity. Qed.

Lemma mem_item_list_set s s' v n fi f f' : s_disk s' = s_disk s ->
  nth_error (s_files s) fi = Some f -> s_files s' = list_set (s_files s) fi f' -> f_entry f' = f_entry f ->
  mem_item s' v n = mem_item s v n.
Proof.
  intros Ed Hn Ef Ee. unfold mem_item, open_at. rewrite Ef, Ed. clear Ef.
  revert fi Hn. induction (s_files s) as [|a l IH]; intros fi Hn; [destruct fi; discriminate|].
  destruct fi as [|fi]; cbn [nth_error] in Hn.
  - injection Hn as ->. cbn [list_set find]. unfold slot_key at 1 3. rewrite Ee.
    destruct (pos_eqb (e_block (f_entry f), e_offset (f_entry f)) (node_pos n)); [apply mem_fv_entry; assumption|].
    destruct (find (fun g => pos_eqb (slot_key g) (node_pos n)) l); [|reflexivity].
    apply mem_fv_entry; [exact Ed|reflexivity].
  - cbn [list_set find]. destruct (pos_eqb (slot_key a) (node_pos n)).
    + apply mem_fv_entry; [exact Ed|reflexivity].
    + exact (IH fi Hn).
Qed.

(* cursor, current cluster, offset, dirty flag of one record change; disk and entries do not:
   the API shows the same *)
Theorem mem_view_upd_file s s' v T fi f f' : s_disk s' = s_disk s ->
  nth_error (s_files s) fi = Some f -> s_files s' = list_set (s_files s) fi f' -> f_entry f' = f_entry f ->
  mem_view s' v T = mem_view s v T.
Proof. intros Ed Hn Ef Ee. apply mem_view_ext. intros e ch _. exact (mem_item_list_set s s' v _ fi f f' Ed Hn Ef Ee). Qed.

Lemma handles_upd_file s s' fi f f' h : NoDup (map f_id (s_files s)) -> PrSeek.resolves s h fi f ->
  s_files s' = list_set (s_files s) fi f' -> f_id f' = f_id f ->
  forall k, hget k (handles_of s') = if k =? h then Some (hinfo_of f') else hget k (handles_of s).
Proof.
  intros Hnd Hr Ef Eid k. unfold handles_of. rewrite Ef.
  rewrite (hget_list_set _ fi f f' k Hnd (proj2 (proj2 Hr)) Eid), (resolves_id s h fi f Hr). reflexivity.
Qed.

(* ================================================================== 3. step_content for the cursor operations and the questions *)
Lemma fs_inv_ids fsz vid s : fs_inv fsz vid s -> NoDup (map f_id (s_files s)).
Proof. intros (vi & v & bl & rch & T & H). exact (fi_fids _ _ _ _ _ _ _ _ H). Qed.

(* a call that leaves the state alone *)
Lemma content_same_state fsz vid s a : observes fsz vid s a -> exists a', observes fsz vid s a' /\ same_obs a a'.
Proof. intros H. exists a. split; [exact H|reflexivity]. Qed.

Lemma query_case fsz vid s a h (answer : hinfo -> N -> res) (r : outcome res) :
  observes fsz vid s a ->
  (forall fi f, PrSeek.resolves s h fi f -> r = Ok (answer (hinfo_of f) (PrSeek.flen f))) ->
  (PrHandles.no_file h s -> r = Err BadHandle) ->
  query_content h answer r a a.
Proof.
  intros (vi & v & bl & rch & T & Hat & ->) Hok Hbad. split; [reflexivity|]. unfold with_handle.
  cbn [obs_at ob_handles ob_mem].
  destruct (file_handle_cases s h (proj1 (fi_vol _ _ _ _ _ _ _ _ Hat))) as [(fi & f & Hr)|Hno].
  - destruct (handle_view fsz vid s vi v bl rch T Hat h fi f Hr) as (H1 & H2 & H3 & _).
    rewrite H1. exists (mem_fv s v f). split; [exact H2|]. rewrite H3. exact (Hok fi f Hr).
  - rewrite (hget_stale s h Hno). exact (Hbad Hno).
Qed.

Theorem content_Length fsz vid h : step_content fsz vid (Length h).
Proof.
  intros s r s' a Hinv _ _ Hs Ho. pose proof (fs_inv_lock fsz vid s Hinv) as Hl.
  assert (E : s' = s /\ query_content h (fun _ len => RNum len) r a a).
  { destruct (file_handle_cases s h Hl) as [(fi & f & Hr)|Hno].
    - cbn [step] in Hs. rewrite (lift_ok' _ _ _ _ _ (PrSeek.C01_file_length s h fi f Hr)) in Hs.
      injection Hs as <- <-. split; [reflexivity|]. apply (query_case fsz vid s a h _ _ Ho).
      + intros fi' f' Hr'. destruct Hr as (_ & A & B), Hr' as (_ & A' & B'). rewrite A in A'. injection A' as <-.
        rewrite B in B'. injection B' as <-. reflexivity.
      + intros Hno. exfalso. exact (Hno f (nth_error_In _ _ (proj2 (proj2 Hr))) (resolves_id s h fi f Hr)).
    - destruct (PrHandles.C08_stale_file_handle h s Hl Hno) as (_ & _ & _ & _ & _ & _ & _ & E & _ & _).
      rewrite E in Hs. injection Hs as <- <-. split; [reflexivity|]. apply (query_case fsz vid s a h _ _ Ho).
      + intros fi f Hr. exfalso. exact (Hno f (nth_error_In _ _ (proj2 (proj2 Hr))) (resolves_id s h fi f Hr)).
      + reflexivity. }
  destruct E as (-> & E). exists a. split; [exact Ho|exact E].
Qed.

Theorem content_Offset fsz vid h : step_content fsz vid (Offset h).
Proof.
  intros s r s' a Hinv _ _ Hs Ho. pose proof (fs_inv_lock fsz vid s Hinv) as Hl.
  assert (E : s' = s /\ query_content h (fun hi _ => RNum (hi_off hi)) r a a).
  { destruct (file_handle_cases s h Hl) as [(fi & f & Hr)|Hno].
    - cbn [step] in Hs. rewrite (lift_ok' _ _ _ _ _ (PrSeek.C01_file_offset s h fi f Hr)) in Hs.
      injection Hs as <- <-. split; [reflexivity|]. apply (query_case fsz vid s a h _ _ Ho).
      + intros fi' f' Hr'. destruct Hr as (_ & A & B), Hr' as (_ & A' & B'). rewrite A in A'. injection A' as <-.
        rewrite B in B'. injection B' as <-. reflexivity.
      + intros Hno. exfalso. exact (Hno f (nth_error_In _ _ (proj2 (proj2 Hr))) (resolves_id s h fi f Hr)).
    - destruct (PrHandles.C08_stale_file_handle h s Hl Hno) as (_ & _ & _ & _ & _ & _ & _ & _ & E & _).
      rewrite E in Hs. injection Hs as <- <-. split; [reflexivity|]. apply (query_case fsz vid s a h _ _ Ho).
      + intros fi f Hr. exfalso. exact (Hno f (nth_error_In _ _ (proj2 (proj2 Hr))) (resolves_id s h fi f Hr)).
      + reflexivity. }
  destruct E as (-> & E). exists a. split; [exact Ho|exact E].
Qed.

Theorem content_Eof fsz vid h : step_content fsz vid (Eof h).
Proof.
  intros s r s' a Hinv _ _ Hs Ho. pose proof (fs_inv_lock fsz vid s Hinv) as Hl.
  assert (E : s' = s /\ query_content h (fun hi len => RBool (hi_off hi =? len)) r a a).
  { destruct (file_handle_cases s h Hl) as [(fi & f & Hr)|Hno].
    - cbn [step] in Hs. rewrite (lift_ok' _ _ _ _ _ (PrSeek.C01_file_eof s h fi f Hr)) in Hs.
      injection Hs as <- <-. split; [reflexivity|]. apply (query_case fsz vid s a h _ _ Ho).
      + intros fi' f' Hr'. destruct Hr as (_ & A & B), Hr' as (_ & A' & B'). rewrite A in A'. injection A' as <-.
        rewrite B in B'. injection B' as <-. reflexivity.
      + intros Hno. exfalso. exact (Hno f (nth_error_In _ _ (proj2 (proj2 Hr))) (resolves_id s h fi f Hr)).
    - destruct (PrHandles.C08_stale_file_handle h s Hl Hno) as (_ & _ & _ & _ & _ & _ & _ & _ & _ & E).
      rewrite E in Hs. injection Hs as <- <-. split; [reflexivity|]. apply (query_case fsz vid s a h _ _ Ho).
      + intros fi f Hr. exfalso. exact (Hno f (nth_error_In _ _ (proj2 (proj2 Hr))) (resolves_id s h fi f Hr)).
      + reflexivity. }
  destruct E as (-> & E). exists a. split; [exact Ho|exact E].
Qed.

Theorem content_HasOpen fsz vid : step_content fsz vid HasOpen.
Proof.
  intros s r s' a Hinv _ _ Hs Ho. cbn [step] in Hs.
  rewrite (lift_ok' _ _ _ _ _ (PrHandles.C08_query_truthful s)) in Hs.
  injection Hs as <- <-. exists a. split; [exact Ho|reflexivity].
Qed.

(* the state after a successful seek: the record has a new offset *)
Lemma seek_moves fsz vid s a h fi f n : observes fsz vid s a -> PrSeek.resolves s h fi f -> n <= e_size (f_entry f) ->
  exists a', observes fsz vid (PrSeek.upd_file s fi (set_f_offset f n)) a' /\
    ob_mem a' = ob_mem a /\ ob_disk a' = ob_disk a /\ ob_dirs a' = ob_dirs a /\
    handle_set h (set_hi_off (hinfo_of f) n) a a'.
Proof.
  intros Ho Hr Hn. pose proof (observes_inv _ _ _ _ Ho) as Hinv. destruct Ho as (vi & v & bl & rch & T & Hat & ->).
  set (s' := PrSeek.upd_file s fi (set_f_offset f n)).
  pose proof (fs_inv_set_offset fsz vid s h fi f n Hinv Hr Hn) as Hinv'. fold s' in Hinv'.
  pose proof (fi_disk _ _ _ _ _ _ _ _ Hat) as D.
  exists (obs_at s' v bl T). split.
  - apply (observes_intro fsz vid s' v bl rch T Hinv').
    + exact (fi_single _ _ _ _ _ _ _ _ Hat).
    + exact (di_root _ _ _ _ _ _ D).
    + exact (di_tree _ _ _ _ _ _ D).
  - cbn [obs_at ob_mem ob_disk ob_dirs ob_handles]. split; [|split; [reflexivity|split; [reflexivity|]]].
    + apply (mem_view_upd_file s s' v T fi f (set_f_offset f n)); try reflexivity. exact (proj2 (proj2 Hr)).
    + intros k. cbn [ob_handles].
      exact (handles_upd_file s s' fi f (set_f_offset f n) h (fi_fids _ _ _ _ _ _ _ _ Hat) Hr eq_refl eq_refl k).
Qed.

Lemma seek_case fsz vid s a h (m : M unit) (target : N -> N -> option N) (ok : forall len off n, target len off = Some n -> n <= len)
      r s' :
  fs_inv fsz vid s -> observes fsz vid s a ->
  (forall fi f, PrSeek.resolves s h fi f -> m s = PrSeek.seek_result s fi f (target (PrSeek.flen f) (PrSeek.foff f))) ->
  (PrHandles.no_file h s -> m s = (Err BadHandle, s)) ->
  lift (fun _ => RUnit) m s = (r, s') ->
  exists a', observes fsz vid s' a' /\ seek_content h target r a a'.
Proof.
  intros Hinv Ho Hok Hbad Hs. pose proof (fs_inv_lock fsz vid s Hinv) as Hl.
  pose proof Ho as (vi & v & bl & rch & T & Hat & Ea). subst a.
  unfold seek_content, with_handle. cbn [obs_at ob_handles ob_mem].
  destruct (file_handle_cases s h Hl) as [(fi & f & Hr)|Hno].
  - destruct (handle_view fsz vid s vi v bl rch T Hat h fi f Hr) as (H1 & H2 & H3 & _).
    specialize (Hok fi f Hr). unfold PrSeek.flen, PrSeek.foff in *.
    destruct (target (e_size (f_entry f)) (f_offset f)) as [n|] eqn:Et; cbn [PrSeek.seek_result] in Hok.
    + rewrite (lift_ok' _ _ _ _ _ Hok) in Hs. injection Hs as <- <-.
      destruct (seek_moves fsz vid s _ h fi f n Ho Hr (ok _ _ _ Et)) as (a' & Ho' & M1 & M2 & M3 & M4).
      exists a'. split; [exact Ho'|]. rewrite H1.
      exists (mem_fv s v f). split; [exact H2|]. rewrite H3. cbn [hinfo_of hi_off]. rewrite Et.
      repeat split; assumption.
    + rewrite (lift_err' _ _ _ _ _ Hok) in Hs. injection Hs as <- <-.
      eexists. split; [exact Ho|]. rewrite H1.
      exists (mem_fv s v f). split; [exact H2|]. rewrite H3. cbn [hinfo_of hi_off]. rewrite Et.
      split; reflexivity.
  - rewrite (lift_err' _ _ _ _ _ (Hbad Hno)) in Hs. injection Hs as <- <-.
    eexists. split; [exact Ho|]. rewrite (hget_stale s h Hno).
    split; reflexivity.
Qed.

Theorem content_SeekStart fsz vid h x : step_content fsz vid (SeekStart h x).
Proof.
  intros s r s' a Hinv _ _ Hs Ho. cbn [step] in Hs. cbn [content_rel].
  apply (seek_case fsz vid s a h (file_seek_from_start h x) (fun len off => spec_seek_start len off x)
           (fun len off n E => PrSeek.spec_seek_start_ok len off x n E) r s' Hinv Ho); [| |exact Hs].
  - intros fi f Hr. exact (PrSeek.file_seek_from_start_spec s h fi f x Hr).
  - intros Hno. destruct (PrHandles.C08_stale_file_handle h s (fs_inv_lock _ _ _ Hinv) Hno) as (_ & _ & _ & _ & E & _).
    pose proof (E x) as E'. cbn [step] in E'. unfold lift in E'.
    destruct (file_seek_from_start h x s) as [[u|e| |] s1] eqn:Em; cbn in E'; unfold bind in E'; rewrite Em in E'; cbn in E';
      try discriminate E'. injection E' as -> ->. reflexivity.
Qed.

Lemma lift_unit_err (m : M unit) s e s1 : lift (fun _ => RUnit) m s = (Err e, s1) -> m s = (Err e, s1).
Proof.
  unfold lift, bind. destruct (m s) as [[u|e0| |] s2]; cbn; intros H; try discriminate H.
  injection H as -> ->. reflexivity.
Qed.

Theorem content_SeekEnd fsz vid h x : step_content fsz vid (SeekEnd h x).
Proof.
  intros s r s' a Hinv _ _ Hs Ho. cbn [step] in Hs. cbn [content_rel].
  apply (seek_case fsz vid s a h (file_seek_from_end h x) (fun len off => spec_seek_end len off x)
           (fun len off n E => PrSeek.spec_seek_end_ok len off x n E) r s' Hinv Ho); [| |exact Hs].
  - intros fi f Hr. exact (PrSeek.file_seek_from_end_spec s h fi f x Hr).
  - intros Hno. destruct (PrHandles.C08_stale_file_handle h s (fs_inv_lock _ _ _ Hinv) Hno) as (_ & _ & _ & _ & _ & _ & E & _).
    exact (lift_unit_err _ _ _ _ (E x)).
Qed.

Theorem content_SeekCur fsz vid h x : step_content fsz vid (SeekCur h x).
Proof.
  intros s r s' a Hinv _ _ Hs Ho. cbn [step] in Hs. cbn [content_rel].
  apply (seek_case fsz vid s a h (file_seek_from_current h x) (fun len off => spec_seek_cur len off x)
           (fun len off n E => PrSeek.spec_seek_cur_ok len off x n E) r s' Hinv Ho); [| |exact Hs].
  - intros fi f Hr. exact (PrSeek.file_seek_from_current_spec s h fi f x Hr).
  - intros Hno. destruct (PrHandles.C08_stale_file_handle h s (fs_inv_lock _ _ _ Hinv) Hno) as (_ & _ & _ & _ & _ & E & _).
    exact (lift_unit_err _ _ _ _ (E x)).
Qed.

Theorem content_IoSeek fsz vid h w x : step_content fsz vid (IoSeek h w x).
Proof.
  intros s r s' a Hinv _ _ Hs Ho. pose proof (fs_inv_lock fsz vid s Hinv) as Hl.
  pose proof Ho as (vi & v & bl & rch & T & Hat & Ea). subst a.
  cbn [content_rel]. unfold io_seek_content. cbn [obs_at ob_handles ob_mem].
  destruct (file_handle_cases s h Hl) as [(fi & f & Hr)|Hno].
  - cbn [step] in Hs. pose proof (PrSeek.C01_io_seek_spec s h fi f w x Hr) as E.
    destruct (handle_view fsz vid s vi v bl rch T Hat h fi f Hr) as (H1 & H2 & H3 & _).
    unfold PrSeek.flen, PrSeek.foff in *.
    destruct (PrSeek.seek_accepts w x (e_size (f_entry f)) (f_offset f)) eqn:Ea.
    + rewrite (lift_ok' _ _ _ _ _ E) in Hs. injection Hs as <- <-.
      assert (Hn : Z.to_N (PrSeek.seek_target w x (e_size (f_entry f)) (f_offset f)) <= e_size (f_entry f)).
      { unfold PrSeek.seek_accepts in Ea. apply andb_true_iff in Ea. destruct Ea as [Ea E2].
        apply andb_true_iff in Ea. destruct Ea as [_ E1]. apply Z.leb_le in E1. apply Z.leb_le in E2.
        clear - E1 E2. lia. }
      destruct (seek_moves fsz vid s _ h fi f _ Ho Hr Hn) as (a' & Ho' & M1 & M2 & M3 & M4).
      exists a'. split; [exact Ho'|]. rewrite H1. exists (mem_fv s v f). split; [exact H2|].
      rewrite H3. cbn [hinfo_of hi_off]. unfold io_seek_target. rewrite Ea. repeat split; assumption.
    + rewrite (lift_err' _ _ _ _ _ E) in Hs. injection Hs as <- <-.
      eexists. split; [exact Ho|]. rewrite H1. exists (mem_fv s v f). split; [exact H2|].
      rewrite H3. cbn [hinfo_of hi_off]. unfold io_seek_target. rewrite Ea. split; reflexivity.
  - cbn [step] in Hs. destruct (io_seek_stale h w x s Hl Hno) as (e & E).
    rewrite (lift_err' _ _ _ _ _ E) in Hs. injection Hs as <- <-.
    eexists. split; [exact Ho|]. rewrite (hget_stale s h Hno). split; [exists e; reflexivity|reflexivity].
Qed.

Print Assumptions ts_readback_idem.
Print Assumptions observes_intro.
Print Assumptions disk_view_fresh.
Print Assumptions handle_view.
Print Assumptions dget_dir_view.
Print Assumptions content_Length.
Print Assumptions content_Offset.
Print Assumptions content_Eof.
Print Assumptions content_HasOpen.
Print Assumptions content_SeekStart.
Print Assumptions content_SeekEnd.
Print Assumptions content_SeekCur.
Print Assumptions content_IoSeek.
