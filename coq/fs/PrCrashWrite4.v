(* PROOFS: C09 for Flush and CloseFile over whole histories: PrCrashDef4.step_keeps_flushed.
   A flush writes at most two blocks: the FAT32 information sector (outside the FAT, outside
   every directory and every data cluster) and the directory slot of the flushed file.  A file
   at ANOTHER slot is found on each of the (at most three) crashed media at the same path with
   the same entry and the same bytes: the tree of the final medium is the old tree with the node
   at the flushed slot replaced (PrGlobalWrite.gw_flush_dirty; the slot index is recovered with
   PrGlobalDef.tree_rep_replace and the uniqueness of the tree of a medium), every other node
   is untouched (PrCrashDef4.node_at_replace); the block of the slot is a directory block and
   lies in no file chain.
   Every outcome: stale handle, clean record (nothing written), dirty record.  No extra
   hypothesis.  CloseFile is the flush followed by table bookkeeping. *)
From Coq Require Import NArith ZArith List Bool Lia Arith ZifyClasses ZifyInst Zify FMapPositive Permutation.
From SdFs Require Import FsTypes FsBase FsFat FsMgr FsLemmas PrBase PrFat PrAlloc PrDir PrSeek PrAllocEffect
  PrRw PrWrite PrFileSeq PrMulti PrEntry PrChain PrCount PrWf PrOpenClose PrGlobalDef PrGlobalWrite.
From SdFs Require PrModes PrHandles PrBounds PrOrder PrGlobalOpen.
From SdFs Require Import PrCrash PrCrashDef PrCrashDef2 PrCrashDef3 PrCrashDef4.
Import ListNotations.
Open Scope N_scope.
Local Arguments N.mul : simpl never.
Local Arguments N.add : simpl never.
Local Arguments N.sub : simpl never.
Local Arguments N.div : simpl never.
Local Arguments N.modulo : simpl never.
Local Ltac Zify.zify_post_hook ::= Z.to_euclidean_division_equations.

(* a block that holds directory slots lies in the chain of no file node *)
Lemma dir_block_not_file_data d v bl rch T pend total fsz j e ch :
  disk_inv d v bl rch T pend -> PrBounds.part_layout v total fsz ->
  In j (tree_dir_blocks v bl T) -> In (NFile e ch) (all_nodes T) -> ~ In j (data_blocks v ch).
Proof.
  intros HD Hlay Hj Hn Hin.
  pose proof (di_wf _ _ _ _ _ _ HD) as W.
  destruct (heads_nodup v T pend (wf_heads _ _ _ W)) as (N1 & _ & N3 & _).
  destruct (all_nodes_rep d v bl T (di_tree _ _ _ _ _ _ HD) _ Hn) as (t & bl' & Hrep & _).
  apply node_rep_file in Hrep. destruct Hrep as (_ & _ & [(H2 & fu & Hc)|(_ & ->)]); [|destruct Hin].
  pose proof (chain_at_any _ _ _ _ _ Hc) as Hcat.
  assert (Hown : In (e_cluster e) (own_head (NFile e ch))).
  { cbn [own_head]. replace (2 <=? e_cluster e) with true by (symmetry; apply N.leb_le; exact H2). left. reflexivity. }
  assert (Hhs : In (e_cluster e) (heads v T ++ pend)).
  { apply in_or_app. left. unfold heads. apply in_or_app. right. exact (own_head_in T _ _ Hn Hown). }
  apply gw_tree_dir_blocks_iff in Hj. destruct Hj as [Hj|(e1 & dch & kids & Hn1 & Hj)].
  - pose proof (di_root _ _ _ _ _ _ HD) as Hroot. unfold root_dir in Hroot.
    destruct (v_fat32 v) eqn:E32.
    + destruct Hroot as (Hrc & Ebl). rewrite Ebl in Hj.
      assert (Hr : In (v_root_cluster v) (root_heads v)) by (unfold root_heads; rewrite E32; left; reflexivity).
      assert (Hr' : In (v_root_cluster v) (heads v T ++ pend)).
      { apply in_or_app. left. unfold heads. apply in_or_app. left. exact Hr. }
      pose proof (chain_blocks_apart d v _ _ _ _ _ j W Hr' Hhs Hrc Hcat Hj Hin) as E.
      apply (proj1 (N3 _ Hr)). rewrite E. exact (own_head_in T _ _ Hn Hown).
    + destruct Hroot as (_ & Ebl). rewrite Ebl in Hj. unfold data_blocks in Hin. apply in_flat_map in Hin.
      destruct Hin as (c & Hcc & Hjc). destruct (chain_at_mem _ _ _ _ c Hcat Hcc) as (A & _).
      exact (root16_no_cluster' v total fsz j c Hlay E32 Hj A Hjc).
  - destruct (dir_node_chain _ _ _ _ _ _ HD e1 dch kids Hn1) as (Hch1 & Hin1 & _).
    pose proof (chain_blocks_apart d v _ _ _ _ _ j W Hin1 Hhs Hch1 Hcat Hj Hin) as E.
    assert (Hown1 : In (e_cluster e) (own_head (NDir e1 dch kids))) by (cbn [own_head]; left; exact E).
    pose proof (flat_map_owner own_head _ N1 _ _ _ Hn1 Hn Hown1 Hown) as Eq. discriminate Eq.
Qed.

Section FlushKeeps.
  Variables (fsz vid : N) (s : st) (vi : nat) (v : vol) (bl rch : list N) (T : list node).
  Hypothesis Hinv : fs_inv_at fsz vid s vi v bl rch T.
  Variables (h : N) (fi : nat) (f : fileinfo).
  Hypothesis Hr : PrSeek.resolves s h fi f.
  Variables (path : list (list N)) (e2 : dirent) (bytes : list N).
  Hypothesis Hf : file_on_medium (s_disk s) v path e2 bytes.
  Hypothesis Hnt : ~ handle_targets s h e2.

  Let d := s_disk s.
  Let e := f_entry f.
  Let blk := e_block (f_entry f).

  Theorem flush_keeps : exists s', flush_file h s = (Ok tt, s') /\ same_mgr s s' /\
    crash_all (fun d' => file_on_medium d' v path e2 bytes) s s'.
  Proof.
    destruct (f_dirty f) eqn:Hdirty.
    2:{ exists s. split; [exact (flush_file_clean s h fi f Hr Hdirty)|]. split; [apply same_mgr_refl|].
        apply crash_all_quiet; [apply step_writes_same; reflexivity|exact Hf]. }
    destruct (gw_vol_facts _ _ _ _ _ _ _ _ Hinv) as (Hl & Hpre & Hfit & Hspc & Hwf & Hvid & Hnf & Hc & Hvi & L & Hvok).
    destruct (gw_file_facts _ _ _ _ _ _ _ _ h fi f Hinv Hr) as (O & Hfvol).
    pose proof Hr as (_ & Hfind & Hfi). pose proof (nth_error_In _ _ Hfi) as Hfin.
    destruct (gw_file_slot _ _ _ _ _ _ _ _ Hinv f Hfin)
      as (e0 & ch0 & i & Hn0 & Hpos0 & En & Ec & Hi & Eo & Hblk & Hns & Ee0 & Hch0).
    fold blk e d in Hpos0, En, Ec, Eo, Hblk, Hns, Ee0, Hch0.
    pose proof (of_slot _ _ _ _ O) as [Sct Smt Sname Soff Snfat]. fold blk e in Sct, Smt, Sname, Soff, Snfat.
    destruct (of_attr _ _ _ _ O) as (Adir & Alfn). fold e in Adir, Alfn.
    pose proof (of_size _ _ _ _ O) as Osize. pose proof (of_u32 _ _ _ _ O) as O32. fold e d in Osize, O32.
    pose proof (fi_disk _ _ _ _ _ _ _ _ Hinv) as HD. fold d in HD.
    pose proof (disk_inv_crash_inv_at _ _ _ _ _ _ HD) as CI.
    (* the other file in the tree *)
    destruct (proj1 (file_on_medium_tree d v bl rch T _ path e2 bytes CI) Hf) as (ch2 & Hat & _).
    pose proof (node_at_in _ _ _ Hat) as Hn2.
    assert (Hpos2 : node_pos (NFile e2 ch2) <> (blk, i * 32)).
    { intros E. apply Hnt. exists f. split; [exact Hfin|]. split; [exact (PrSeek.resolves_id _ _ _ _ Hr)|].
      unfold node_pos in E. cbn [node_entry] in E. injection E as E1 E2. fold e. rewrite Eo. split; symmetry; [exact E1|exact E2]. }
    assert (Hdata2 : forall j, In j (data_blocks v ch2) -> ~ In j (tree_dir_blocks v bl T)).
    { intros j Hj Hdj. exact (dir_block_not_file_data d v bl rch T _ _ fsz j e2 ch2 HD (fi_layout _ _ _ _ _ _ _ _ Hinv) Hdj Hn2 Hj). }
    (* the run *)
    set (old := slot (disk_get d blk) i) in *.
    set (new := ser_bytes (v_fat32 v) e).
    set (n0 := NFile e0 ch0) in *.
    destruct (info_run s vi v Hnf Hc Hvi Hwf) as (s1 & Hinfo & Hwf1 & Hkind).
    assert (Hnp : e_size e = 0 \/ e_cluster e <> 0).
    { destruct (of_chain _ _ _ _ O) as [(A1 & _)|(A1 & A2 & _)].
      - fold e in A1. right. clear - A1. lia.
      - fold e d in A2. left. rewrite A2 in Osize. cbn [length] in Osize. clear - Osize. lia. }
    destruct (flush_file_spec s h fi f vi v s1 Hr Hdirty (conj Hfvol Hvi) Hinfo Hnp Sct Smt Soff)
      as (s' & Hrun & Hd' & Hnew & Hfr' & Hc' & Hnf' & Hm' & Htr').
    fold blk e in Hd', Hnew, Hfr', Htr'.
    (* the information sector is neither a FAT sector, nor a directory block, nor in a data cluster *)
    assert (F1 : (forall j, fat_area v j -> disk_get (s_disk s1) j = disk_get d j) /\
                 (forall j, In j (tree_dir_blocks v bl T) -> disk_get (s_disk s1) j = disk_get d j) /\
                 (forall j, In j (data_blocks v ch2) -> disk_get (s_disk s1) j = disk_get d j)).
    { destruct Hinfo as (_ & _ & _ & _ & Hfr1 & Hsame). destruct (v_fat32 v) eqn:E32.
      - destruct (fi_info _ _ _ _ _ _ _ _ Hinv E32) as (I1 & I2). split; [|split]; intros j Hj; apply Hfr1; intros ->.
        + exact (I1 Hj).
        + destruct (gw_dir_block_kind _ _ _ _ _ _ _ _ Hinv _ Hj) as [(E & _)|(c & C1 & _ & Hin)]; [congruence|exact (I2 c C1 Hin)].
        + unfold data_blocks in Hj. apply in_flat_map in Hj. destruct Hj as (c & Hcc & Hjc).
          destruct (all_nodes_rep d v bl T (di_tree _ _ _ _ _ _ HD) _ Hn2) as (t & bl' & Hrep & _).
          apply node_rep_file in Hrep. destruct Hrep as (_ & _ & [(_ & fu & Hc2)|(_ & Ech)]); [|rewrite Ech in Hcc; destruct Hcc].
          exact (I2 c (proj1 (chain_at_mem _ _ _ _ c (chain_at_any _ _ _ _ _ Hc2) Hcc)) Hjc).
      - rewrite (Hsame (or_introl eq_refl)). split; [|split]; reflexivity. }
    destruct F1 as (F1a & F1b & F1c).
    pose proof (disk_inv_frame d (s_disk s1) v bl rch T (pend_of s v) F1a F1b HD) as HD1.
    pose proof (disk_inv_crash_inv_at _ _ _ _ _ _ HD1) as CI1.
    assert (P1 : file_on_medium (s_disk s1) v path e2 bytes).
    { exact (file_on_medium_keep d (s_disk s1) v bl rch T _ bl rch T _ path e2 ch2 CI Hat CI1 Hat F1c bytes Hf). }
    (* the slot write *)
    assert (Eold : disk_get (s_disk s1) blk = disk_get d blk) by (apply F1b; exact Hblk).
    assert (Hal : e_offset e mod 32 = 0) by (rewrite Eo; apply N.mod_mul; discriminate).
    assert (Ei : e_offset e / 32 = i) by (rewrite Eo; apply N.div_mul; discriminate).
    destruct (put_entry_slots (v_fat32 v) e (disk_get (s_disk s1) blk) (Hwf1 blk) Sname Soff Hal)
      as (Hlen' & Hslot & Hoth & _ & _).
    rewrite Ei in Hslot, Hoth. fold new in Hslot.
    assert (Hsw : slot_write (s_disk s1) (s_disk s') blk i new).
    { split; [exact Hfr'|]. rewrite Hnew. split; [exact Hslot|exact Hoth]. }
    assert (Hfat' : forall j, fat_area v j -> disk_get (s_disk s') j = disk_get d j).
    { intros j Hj. rewrite (slot_write_fat _ _ v blk i new Hsw Snfat j Hj). exact (F1a j Hj). }
    pose proof (ser_bytes_layout (v_fat32 v) e Sname) as Lay. cbv zeta in Lay. fold new in Lay.
    destruct Lay as (L0 & L11 & _ & _ & _ & _ & _ & _ & _ & Lb).
    assert (Ename0 : e_name e0 = firstn 11 old) by (rewrite Ee0; reflexivity).
    assert (Hb0 : get8 new 0 = get8 old 0).
    { rewrite Lb, <- En, Ename0. apply get8_firstn. }
    assert (Hname : t_name (blk, i * 32, new) = t_name (blk, i * 32, old)).
    { unfold t_name. cbn [snd]. rewrite L0, <- En, Ename0. reflexivity. }
    assert (Hend : is_end new = is_end old) by (unfold is_end; rewrite Hb0; reflexivity).
    assert (Hnsnew : node_slot (blk, i * 32, new) = true).
    { unfold node_slot, short_slot, dot_slot in *. rewrite Hname.
      apply andb_true_iff in Hns. destruct Hns as (Hs1 & Hs2). apply andb_true_iff in Hs1. destruct Hs1 as (Hv1 & _).
      apply andb_true_iff. split; [|exact Hs2]. apply andb_true_iff. split.
      - unfold t_is_valid, is_valid, is_end in *. cbn [snd] in *. rewrite Hb0. exact Hv1.
      - unfold t_attr. cbn [snd]. rewrite L11, Alfn. reflexivity. }
    (* the new node *)
    pose proof (gw_readback_fields (v_fat32 v) e blk (i * 32) Sname Adir O32
                  (gw_cluster_fits fsz vid s vi v bl rch T Hinv h fi f Hr)) as RB.
    cbv zeta in RB.
    change (t_entry (v_fat32 v) (blk, i * 32, ser_bytes (v_fat32 v) e)) with (gw_new_entry v f i) in RB.
    destruct RB as (R1 & R2 & R3 & R4 & R5 & R6).
    set (e' := gw_new_entry v f i) in *. set (n' := gw_new_node s v f i).
    assert (Hn' : node_rep (s_disk s') v n' (blk, i * 32, new)).
    { apply node_rep_file. fold e'. split; [reflexivity|]. split; [rewrite R2; exact Adir|].
      unfold fchain. fold e d. destruct (N.ltb_spec (e_cluster e) 2) as [Hlt|Hge].
      - right. rewrite R4. split; [exact Hlt|reflexivity].
      - left. rewrite R4. split; [exact Hge|].
        destruct (of_chain _ _ _ _ O) as [(_ & (fu & A2) & _)|(A1 & _)]; [fold e d in A2|fold e in A1; clear - A1 Hge; lia].
        exists fu. rewrite (chain_of_ext d (s_disk s') v Hfat'), A2.
        rewrite (chain_l_at _ _ _ _ (chain_at_any _ _ _ _ _ A2)). reflexivity. }
    (* the tree of the final medium: the one gw_flush_dirty names, with THIS slot index *)
    destruct (gw_flush_dirty fsz vid s vi v bl rch T Hinv h fi f Hr Hdirty) as (s'' & i' & Hrun'' & Hat'' & _).
    rewrite Hrun in Hrun''. injection Hrun'' as <-.
    pose proof (fi_disk _ _ _ _ _ _ _ _ Hat'') as HD''.
    pose proof (tree_rep_replace (s_disk s1) (s_disk s') v blk i new n' Hsw Snfat
                  ltac:(rewrite Eold; exact Hend) ltac:(rewrite Eold; exact Hns) Hnsnew Hn' bl T
                  (di_tree _ _ _ _ _ _ HD1)) as TR.
    pose proof (tree_rep_det _ _ _ _ _ TR (di_tree _ _ _ _ _ _ HD'')) as ET.
    rewrite <- ET in HD''.
    pose proof (disk_inv_crash_inv_at _ _ _ _ _ _ HD'') as CI2.
    assert (P2 : file_on_medium (s_disk s') v path e2 bytes).
    { apply (file_on_medium_keep (s_disk s1) (s_disk s') v bl rch T _ bl rch _ _ path e2 ch2 CI1 Hat CI2); [| |exact P1].
      - apply node_at_replace; [exact (di_pos _ _ _ _ _ _ HD)| |exact Hat|exact Hpos2].
        exists n0. split; [exact Hn0|]. split; [rewrite Hpos0, Eo; reflexivity|reflexivity].
      - intros j Hj. apply Hfr'. intros ->. exact (Hdata2 blk Hj Hblk). }
    exists s'. split; [exact Hrun|]. split; [exact Hm'|].
    assert (T12 : tr_ext s1 s' [(blk, put_entry (v_fat32 v) e (disk_get (s_disk s1) blk))])
      by exact (tr_ext_one_write s1 s' _ _ _ Hd' Htr').
    apply (crash_all_trans _ s s1 s').
    - destruct Hkind as [->|(_ & nb & T01)]; [apply traced_refl|exact (tr_ext_traced _ _ _ T01)].
    - exact (tr_ext_traced _ _ _ T12).
    - destruct Hkind as [->|(_ & nb & T01)].
      + apply crash_all_quiet; [apply step_writes_same; reflexivity|exact Hf].
      + exact (crash_all_one _ s s1 _ nb T01 Hf P1).
    - exact (crash_all_one _ s1 s' _ _ T12 P1 P2).
  Qed.
End FlushKeeps.

Theorem step_keeps_Flush fsz vid h : step_keeps_flushed fsz vid (Flush h).
Proof.
  intros s r s' Hinv _ _ Hs v path e bytes Ev Hf Hnt d' Hd. pose proof (fs_inv_lock fsz vid s Hinv) as Hl.
  destruct (file_handle_cases s h Hl) as [(fi & f & Hr)|Hno].
  - cbn [step] in Hs. destruct Hinv as (vi & v0 & bl & rch & T & Hat).
    pose proof (fi_single _ _ _ _ _ _ _ _ Hat) as Ev0. rewrite Ev in Ev0. injection Ev0 as <-.
    destruct (flush_keeps fsz vid s vi v bl rch T Hat h fi f Hr path e bytes Hf Hnt) as (s1 & Hrun & _ & Hall).
    rewrite (lift_ok' _ _ _ _ _ Hrun) in Hs. injection Hs as <- <-. exact (Hall d' Hd).
  - destruct (PrHandles.C08_stale_file_handle h s Hl Hno) as (_ & _ & E & _).
    rewrite E in Hs. injection Hs as <- <-.
    rewrite (crash_disks_quiet s s d' (step_writes_same s s eq_refl) Hd). exact Hf.
Qed.

Theorem step_keeps_CloseFile fsz vid h : step_keeps_flushed fsz vid (CloseFile h).
Proof.
  intros s r s' Hinv _ _ Hs v path e bytes Ev Hf Hnt d' Hd. pose proof (fs_inv_lock fsz vid s Hinv) as Hl.
  destruct (file_handle_cases s h Hl) as [(fi & f & Hr)|Hno].
  - cbn [step] in Hs. destruct Hinv as (vi & v0 & bl & rch & T & Hat).
    pose proof (fi_single _ _ _ _ _ _ _ _ Hat) as Ev0. rewrite Ev in Ev0. injection Ev0 as <-.
    destruct (flush_keeps fsz vid s vi v bl rch T Hat h fi f Hr path e bytes Hf Hnt) as (s1 & Hrun & Hm & Hall).
    rewrite (lift_ok' _ _ _ _ _ (close_file_after_flush s h fi f s1 Hr Hrun Hm)) in Hs. injection Hs as <- <-.
    apply (Hall d'). apply (crash_disks_same_r s s1 _ d' eq_refl). exact Hd.
  - destruct (PrHandles.C08_stale_file_handle h s Hl Hno) as (_ & _ & _ & E & _).
    rewrite E in Hs. injection Hs as <- <-.
    rewrite (crash_disks_quiet s s d' (step_writes_same s s eq_refl) Hd). exact Hf.
Qed.

Print Assumptions step_keeps_Flush.
Print Assumptions step_keeps_CloseFile.
