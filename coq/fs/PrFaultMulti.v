(* PROOFS for C11 with an ARBITRARY fault schedule (any number of armed device-call indices), part 1:
   schedule independence.  A run of any function of the model from s depends on the fault schedule only
   through the indices it actually reaches: from a state t that is s up to the schedule, with a
   schedule that agrees with that of s on [s_ncalls s, s_ncalls s'), the run returns the same result and
   ends in the same state up to the schedule.  Family `scd` over the whole model (composition as for
   PrFaultDef2.lockstep), `scd_step_all`, `scd_xstep`. *)
From Coq Require Import NArith ZArith List Bool Lia Arith FMapPositive.
From SdFs Require Import FsTypes FsBase FsFat FsMgr FsExt FsLemmas PrBase PrAllocEffect PrChain PrFault PrGlobalDef.
From SdFs Require PrHandles PrCrash.
From SdFs Require Import PrFault2 PrCrashDef PrCrashDef2 PrCrashDef4 PrFaultDef PrFaultDef2.
From SdFs Require Import PrExt PrExt2 PrExt3 PrExt5.
Import ListNotations.
Open Scope N_scope.

(* ================================================================== 1. the property and its composition *)
Definition agree_on (s t : st) (lo hi : N) : Prop :=
  forall i, lo <= i < hi -> (In i (s_faults s) <-> In i (s_faults t)).

Definition scd {A} (m : M A) : Prop :=
  book m /\
  forall s t r s', nf s = nf t -> m s = (r, s') -> agree_on s t (s_ncalls s) (s_ncalls s') ->
    exists t', m t = (r, t') /\ nf t' = nf s' /\ s_faults t' = s_faults t.

Lemma scd_here {A} (r : outcome A) : scd (fun s => (r, s)).
Proof.
  split; [apply book_here|]. intros s t r0 s' Hst E _. injection E as <- <-. exists t. repeat split. symmetry. exact Hst.
Qed.
Lemma scd_ret {A} (a : A) : scd (ret a). Proof. apply scd_here. Qed.
Lemma scd_fail {A} e : scd (@fail A e). Proof. apply scd_here. Qed.
Lemma scd_panic {A} : scd (@panic A). Proof. apply scd_here. Qed.
Lemma scd_oof {A} : scd (@out_of_fuel A). Proof. apply scd_here. Qed.

Lemma book_mono {A} (m : M A) s r s' : book m -> m s = (r, s') -> s_ncalls s <= s_ncalls s' /\ s_faults s' = s_faults s.
Proof. intros B E. destruct (B _ _ _ E) as (new & _ & C & F & _). split; [lia|exact F]. Qed.

Lemma scd_bind {A B} (m : M A) (k : A -> M B) : scd m -> (forall a, scd (k a)) -> scd (bind m k).
Proof.
  intros (Bm & Hm) Hk. split; [apply book_bind; [exact Bm|intros a; exact (proj1 (Hk a))]|].
  intros s t r s' Hst E Hag. unfold bind in E |- *. destruct (m s) as [r1 s1] eqn:E1.
  destruct (book_mono m s r1 s1 Bm E1) as (C1 & F1).
  destruct r1 as [a|e| |].
  - destruct (book_mono (k a) s1 r s' (proj1 (Hk a)) E) as (C2 & F2).
    destruct (Hm s t (Ok a) s1 Hst E1) as (t1 & Et1 & N1 & Ft1).
    { intros i Hi. apply Hag. lia. }
    rewrite Et1.
    destruct (proj2 (Hk a) s1 t1 r s' (eq_sym N1) E) as (t' & Et' & N' & Ft').
    { intros i Hi. rewrite F1, Ft1. apply Hag. lia. }
    exists t'. split; [exact Et'|]. split; [exact N'|congruence].
  - injection E as <- <-. destruct (Hm s t _ s1 Hst E1 Hag) as (t1 & Et1 & N1 & Ft1). rewrite Et1. exists t1. auto.
  - injection E as <- <-. destruct (Hm s t _ s1 Hst E1 Hag) as (t1 & Et1 & N1 & Ft1). rewrite Et1. exists t1. auto.
  - injection E as <- <-. destruct (Hm s t _ s1 Hst E1 Hag) as (t1 & Et1 & N1 & Ft1). rewrite Et1. exists t1. auto.
Qed.

Lemma scd_try {A} (m : M A) : scd m -> scd (try m).
Proof.
  intros (Bm & Hm). split; [apply book_try; exact Bm|].
  intros s t r s' Hst E Hag. unfold try in E |- *. destruct (m s) as [r1 s1] eqn:E1.
  assert (Es : s' = s1) by (destruct r1; injection E as _ <-; reflexivity). subst s'.
  destruct (Hm s t r1 s1 Hst E1 Hag) as (t1 & Et1 & N1 & Ft1). rewrite Et1. exists t1.
  split; [|split; assumption]. destruct r1; injection E as <-; reflexivity.
Qed.

Lemma scd_bind_get {B} (k : st -> M B) :
  (forall s0, scd (k s0)) -> (forall s0, k (nf s0) = k s0) -> scd (bind get k).
Proof.
  intros Hk Hn. split; [apply book_bind_get; intros s0; exact (proj1 (Hk s0))|].
  intros s t r s' Hst E Hag. rewrite PrHandles.bind_get in E. rewrite PrHandles.bind_get.
  assert (Ek : k t = k s) by (rewrite <- (Hn t), <- (Hn s), Hst; reflexivity).
  rewrite Ek. exact (proj2 (Hk s) s t r s' Hst E Hag).
Qed.

Lemma scd_modify g : (forall s, g (nf s) = nf (g s)) ->
  (forall s, s_trace (g s) = s_trace s /\ s_ncalls (g s) = s_ncalls s /\ s_faults (g s) = s_faults s) ->
  scd (modify g).
Proof.
  intros H1 H2. split; [apply book_modify; exact H2|].
  intros s t r s' Hst E _. injection E as <- <-. exists (g t). split; [reflexivity|].
  split; [rewrite <- !H1, Hst; reflexivity|exact (proj2 (proj2 (H2 t)))].
Qed.

(* ---- the device: the only place where the schedule is looked at ---- *)
Lemma faulty_agree s t : s_ncalls t = s_ncalls s ->
  (In (s_ncalls s) (s_faults s) <-> In (s_ncalls s) (s_faults t)) -> faulty t = faulty s.
Proof.
  intros Ec Hi. unfold faulty. rewrite Ec.
  assert (X : forall l, existsb (N.eqb (s_ncalls s)) l = true <-> In (s_ncalls s) l).
  { intros l. rewrite existsb_exists. split; [intros (x & Hx & Ex); apply N.eqb_eq in Ex; subst x; exact Hx|].
    intros H. exists (s_ncalls s). split; [exact H|apply N.eqb_refl]. }
  destruct (existsb _ (s_faults s)) eqn:A, (existsb _ (s_faults t)) eqn:B; try reflexivity.
  - apply X, Hi, X in A. congruence.
  - apply X, Hi, X in B. congruence.
Qed.

Lemma nf_fields s t : nf s = nf t ->
  s_disk s = s_disk t /\ s_ncalls s = s_ncalls t /\ s_trace s = s_trace t.
Proof. intros H. destruct (agree_fields s t H) as (A & _ & _ & _ & _ & _ & _ & _ & B & C & _). auto. Qed.

Lemma nf_set_fields s t f : nf s = nf t ->
  (forall x, nf (f x) = f (nf x)) -> nf (f s) = nf (f t).
Proof. intros H Hf. rewrite !Hf, H. reflexivity. Qed.

Lemma scd_dev_read i : scd (dev_read i).
Proof.
  split; [apply book_dev_read|]. intros s t r s' Hst E Hag.
  destruct (nf_fields s t Hst) as (Ed & Ec & Et).
  assert (Hf : faulty t = faulty s).
  { apply faulty_agree; [congruence|]. apply Hag. unfold dev_read in E. cbv zeta in E.
    destruct (faulty s); injection E as _ <-; cbn; lia. }
  unfold dev_read in E |- *. cbv zeta in E |- *. rewrite Hf. destruct (faulty s); injection E as <- <-.
  - eexists. split; [reflexivity|]. split; [|reflexivity]. rewrite <- Ec, <- Et.
    apply (nf_set_fields t s (fun x => set_s_trace (set_s_ncalls x (s_ncalls s + 1)) (DReadFail i :: s_trace s)));
      [symmetry; exact Hst|reflexivity].
  - eexists. split; [rewrite <- Ed; reflexivity|]. split; [|reflexivity]. rewrite <- Ec, <- Et.
    apply (nf_set_fields t s (fun x => set_s_trace (set_s_ncalls x (s_ncalls s + 1)) (DRead i :: s_trace s)));
      [symmetry; exact Hst|reflexivity].
Qed.

Lemma scd_dev_write i b : scd (dev_write i b).
Proof.
  split; [apply book_dev_write|]. intros s t r s' Hst E Hag.
  destruct (nf_fields s t Hst) as (Ed & Ec & Et).
  assert (Hf : faulty t = faulty s).
  { apply faulty_agree; [congruence|]. apply Hag. unfold dev_write in E. cbv zeta in E.
    destruct (faulty s); injection E as _ <-; cbn; lia. }
  unfold dev_write in E |- *. cbv zeta in E |- *. rewrite Hf. destruct (faulty s); injection E as <- <-.
  - eexists. split; [reflexivity|]. split; [|reflexivity]. rewrite <- Ec, <- Et.
    apply (nf_set_fields t s (fun x => set_s_trace (set_s_ncalls x (s_ncalls s + 1)) (DWriteFail i :: s_trace s)));
      [symmetry; exact Hst|reflexivity].
  - eexists. split; [reflexivity|]. split; [|reflexivity]. rewrite <- Ec, <- Et, <- Ed.
    apply (nf_set_fields t s (fun x => set_s_trace (set_s_disk (set_s_ncalls x (s_ncalls s + 1)) (disk_set (s_disk s) i b)) (DWrite i b :: s_trace s)));
      [symmetry; exact Hst|reflexivity].
Qed.

(* ================================================================== 2. the family *)
Create HintDb scd.
#[export] Hint Resolve scd_ret scd_fail scd_panic scd_oof scd_dev_read scd_dev_write : scd.

Ltac scd_step :=
  cbn beta iota;
  lazymatch goal with
  | |- scd (bind get _) => apply scd_bind_get; [intros ?|intros ?; reflexivity]
  | |- scd (bind _ _) => apply scd_bind; [|intros ?]
  | |- scd (try _) => apply scd_try
  | |- scd (modify _) => apply scd_modify; [intros ?; reflexivity|intros ?; repeat split; reflexivity]
  | |- scd (if ?c then _ else _) => destruct c
  | |- scd (match ?x with _ => _ end) => destruct x
  | |- scd (let _ := _ in _) => cbv zeta
  | |- scd _ => solve [auto 3 with scd]
  end.
Ltac scd_go := repeat scd_step.

Lemma scd_add32 a b : scd (add32 a b). Proof. unfold add32. scd_go. Qed.
Lemma scd_sub32 a b : scd (sub32 a b). Proof. unfold sub32. scd_go. Qed.
Lemma scd_mul32 a b : scd (mul32 a b). Proof. unfold mul32. scd_go. Qed.
#[export] Hint Resolve scd_add32 scd_sub32 scd_mul32 : scd.
Lemma scd_cache_read i : scd (cache_read i). Proof. unfold cache_read. scd_go. Qed.
Lemma scd_cache_modify f : scd (cache_modify f). Proof. unfold cache_modify. scd_go. Qed.
Lemma scd_write_back : scd write_back. Proof. unfold write_back. scd_go. Qed.
Lemma scd_write_back_with_duplicate d : scd (write_back_with_duplicate d).
Proof. unfold write_back_with_duplicate. scd_go. Qed.
Lemma scd_blank_mut i : scd (blank_mut i). Proof. unfold blank_mut. scd_go. Qed.
#[export] Hint Resolve scd_cache_read scd_cache_modify scd_write_back scd_write_back_with_duplicate scd_blank_mut : scd.

Lemma scd_for_blocks_from {R} (body : N -> M (option R)) :
  (forall i, scd (body i)) -> forall n i, scd (for_blocks_from n i body).
Proof.
  intros Hb. induction n as [|n IH]; intros i; cbn [for_blocks_from]; [apply scd_ret|].
  apply scd_bind; [apply Hb|]. intros [x|]; [apply scd_ret|apply IH].
Qed.
Lemma scd_for_blocks {R} (body : N -> M (option R)) first size :
  (forall i, scd (body i)) -> scd (for_blocks first size body).
Proof.
  intros Hb. unfold for_blocks. apply scd_bind; [apply scd_add32|]. intros _. apply scd_for_blocks_from. exact Hb.
Qed.

(* ---- FsFat ---- *)
Lemma scd_ts_to_fat t : scd (ts_to_fat t). Proof. unfold ts_to_fat. scd_go. Qed.
#[export] Hint Resolve scd_ts_to_fat : scd.
Lemma scd_get_timestamp : scd get_timestamp. Proof. unfold get_timestamp. scd_go. Qed.
Lemma scd_serialize b e : scd (serialize b e). Proof. unfold serialize. scd_go. Qed.
Lemma scd_get_vol vi : scd (get_vol vi). Proof. unfold get_vol. scd_go. Qed.
Lemma scd_put_vol vi v : scd (put_vol vi v). Proof. unfold put_vol. scd_go. Qed.
#[export] Hint Resolve scd_get_timestamp scd_serialize scd_get_vol scd_put_vol : scd.
Lemma scd_fat_block v a b : scd (fat_block v a b). Proof. unfold fat_block. scd_go. Qed.
Lemma scd_cluster_to_block v c : scd (cluster_to_block v c). Proof. unfold cluster_to_block. scd_go. Qed.
#[export] Hint Resolve scd_fat_block scd_cluster_to_block : scd.
Lemma scd_update_fat vi c x : scd (update_fat vi c x). Proof. unfold update_fat. scd_go. Qed.
Lemma scd_next_cluster v c : scd (next_cluster v c). Proof. unfold next_cluster. scd_go. Qed.
#[export] Hint Resolve scd_update_fat scd_next_cluster : scd.
Lemma scd_find_next_free_loop v endc : forall fuel cur, scd (find_next_free_loop fuel v cur endc).
Proof. induction fuel as [|f IH]; intros cur; cbn [find_next_free_loop]; scd_go. Qed.
Lemma scd_find_next_free_cluster v a b : scd (find_next_free_cluster v a b).
Proof. unfold find_next_free_cluster. apply scd_find_next_free_loop. Qed.
#[export] Hint Resolve scd_find_next_free_cluster : scd.
Lemma scd_zero_cluster v c : scd (zero_cluster v c).
Proof. unfold zero_cluster. scd_go. apply scd_for_blocks. intros i. scd_go. Qed.
#[export] Hint Resolve scd_zero_cluster : scd.
Lemma scd_alloc_cluster vi prev zero : scd (alloc_cluster vi prev zero).
Proof. unfold alloc_cluster. scd_go. Qed.
Lemma scd_bump_free vi : scd (bump_free vi). Proof. unfold bump_free. scd_go. Qed.
#[export] Hint Resolve scd_alloc_cluster scd_bump_free : scd.
Lemma scd_truncate_loop vi : forall fuel next, scd (truncate_loop fuel vi next).
Proof. induction fuel as [|f IH]; intros next; cbn [truncate_loop]; scd_go. Qed.
#[export] Hint Resolve scd_truncate_loop : scd.
Lemma scd_truncate_cluster_chain vi c : scd (truncate_cluster_chain vi c).
Proof. unfold truncate_cluster_chain. scd_go. Qed.
#[export] Hint Resolve scd_truncate_cluster_chain : scd.
Lemma scd_free_cluster_chain vi c : scd (free_cluster_chain vi c).
Proof. unfold free_cluster_chain. scd_go. Qed.
Lemma scd_write_entry_to_disk v e : scd (write_entry_to_disk v e).
Proof. unfold write_entry_to_disk. scd_go. Qed.
Lemma scd_update_info_sector vi : scd (update_info_sector vi).
Proof. unfold update_info_sector. scd_go. Qed.
#[export] Hint Resolve scd_free_cluster_chain scd_write_entry_to_disk scd_update_info_sector : scd.

Lemma scd_walk_dir {R} (body : N -> M (option R)) : (forall blk, scd (body blk)) ->
  forall fuel vi cluster grow, scd (walk_dir fuel vi cluster grow body).
Proof.
  intros Hb. induction fuel as [|f IH]; intros vi cluster grow; cbn [walk_dir]; [apply scd_oof|].
  scd_go; try (apply scd_for_blocks; exact Hb).
Qed.

Lemma scd_find_directory_entry vi c name : scd (find_directory_entry vi c name).
Proof. unfold find_directory_entry. scd_go. apply scd_walk_dir. intros blk. scd_go. Qed.
Lemma scd_iter_blocks fat32 : forall n i acc, scd (iter_blocks n fat32 i acc).
Proof. induction n as [|n IH]; intros i acc; cbn [iter_blocks]; scd_go. Qed.
#[export] Hint Resolve scd_find_directory_entry scd_iter_blocks : scd.
Lemma scd_iter_walk vi : forall fuel c acc, scd (iter_walk fuel vi c acc).
Proof. induction fuel as [|f IH]; intros c acc; cbn [iter_walk]; scd_go. Qed.
Lemma scd_iterate_dir_all vi c : scd (iterate_dir_all vi c).
Proof. unfold iterate_dir_all. scd_go. apply scd_iter_walk. Qed.
Lemma scd_delete_directory_entry vi c name : scd (delete_directory_entry vi c name).
Proof. unfold delete_directory_entry. scd_go. apply scd_walk_dir. intros blk. scd_go. Qed.
Lemma scd_write_new_directory_entry vi c name attr fc : scd (write_new_directory_entry vi c name attr fc).
Proof. unfold write_new_directory_entry. scd_go. apply scd_walk_dir. intros blk. scd_go. Qed.
#[export] Hint Resolve scd_iterate_dir_all scd_delete_directory_entry scd_write_new_directory_entry : scd.
Lemma scd_make_dir vi parent sfn att : scd (make_dir vi parent sfn att).
Proof. unfold make_dir. scd_go. apply scd_for_blocks_from. intros i. scd_go. Qed.
#[export] Hint Resolve scd_make_dir : scd.

(* ---- FsMgr ---- *)
Lemma scd_locked {A} (m : M A) : scd m -> scd (locked m).
Proof. intros H. unfold locked. scd_go. Qed.
Lemma scd_generate : scd generate. Proof. unfold generate. scd_go. Qed.
Lemma scd_get_volume_by_id h : scd (get_volume_by_id h). Proof. unfold get_volume_by_id. scd_go. Qed.
Lemma scd_get_dir_by_id h : scd (get_dir_by_id h). Proof. unfold get_dir_by_id. scd_go. Qed.
Lemma scd_get_file_by_id h : scd (get_file_by_id h). Proof. unfold get_file_by_id. scd_go. Qed.
Lemma scd_get_dir i : scd (get_dir i). Proof. unfold get_dir. scd_go. Qed.
Lemma scd_get_file i : scd (get_file i). Proof. unfold get_file. scd_go. Qed.
Lemma scd_put_file i f : scd (put_file i f). Proof. unfold put_file. scd_go. Qed.
Lemma scd_file_is_open v e : scd (file_is_open v e). Proof. unfold file_is_open. scd_go. Qed.
Lemma scd_push_dir d : scd (push_dir d). Proof. unfold push_dir. scd_go. Qed.
Lemma scd_push_file f : scd (push_file f). Proof. unfold push_file. scd_go. Qed.
#[export] Hint Resolve scd_generate scd_get_volume_by_id scd_get_dir_by_id scd_get_file_by_id scd_get_dir scd_get_file
  scd_put_file scd_file_is_open scd_push_dir scd_push_file : scd.

Lemma scd_bpb_create b : scd (bpb_create b). Proof. unfold bpb_create. scd_go. Qed.
#[export] Hint Resolve scd_bpb_create : scd.
Lemma scd_parse_volume id idx lba nb : scd (parse_volume id idx lba nb).
Proof. unfold parse_volume. scd_go. Qed.
#[export] Hint Resolve scd_parse_volume : scd.
Lemma scd_open_raw_volume idx : scd (open_raw_volume idx).
Proof. unfold open_raw_volume. apply scd_locked. scd_go. Qed.
Lemma scd_open_root_dir h : scd (open_root_dir h).
Proof. unfold open_root_dir. apply scd_locked. scd_go. Qed.
Lemma scd_open_dir h name : scd (open_dir h name).
Proof. unfold open_dir. apply scd_locked. scd_go. Qed.
Lemma scd_close_dir h : scd (close_dir h).
Proof. unfold close_dir. apply scd_locked. scd_go. Qed.
Lemma scd_close_volume h : scd (close_volume h).
Proof. unfold close_volume. apply scd_locked. scd_go. Qed.
Lemma scd_mgr_find h name : scd (mgr_find h name).
Proof. unfold mgr_find. apply scd_locked. scd_go. Qed.
Lemma scd_mgr_iterate {R} h (inner : M R) : scd inner -> scd (mgr_iterate h inner).
Proof. intros Hi. unfold mgr_iterate. apply scd_locked. scd_go. Qed.
#[export] Hint Resolve scd_open_root_dir scd_close_dir : scd.
Lemma scd_open_file_in_dir h name md : scd (open_file_in_dir h name md).
Proof. unfold open_file_in_dir. apply scd_locked. scd_go. Qed.
Lemma scd_delete_file_in_dir h name : scd (delete_file_in_dir h name).
Proof. unfold delete_file_in_dir. apply scd_locked. scd_go. Qed.
Lemma scd_get_root_volume_label h : scd (get_root_volume_label h).
Proof. unfold get_root_volume_label. apply scd_locked. scd_go; apply scd_mgr_iterate; apply scd_ret. Qed.

Lemma scd_fdod_walk v : forall n so sc, scd (fdod_walk n v so sc).
Proof. induction n as [|n IH]; intros so sc; cbn [fdod_walk]; scd_go. Qed.
#[export] Hint Resolve scd_fdod_walk : scd.
Lemma scd_find_data_on_disk vi start fs desired : scd (find_data_on_disk vi start fs desired).
Proof. unfold find_data_on_disk. scd_go. Qed.
#[export] Hint Resolve scd_find_data_on_disk : scd.
Lemma scd_read_loop fi vi : forall fuel space acc, scd (read_loop fuel fi vi space acc).
Proof. induction fuel as [|fu IH]; intros space acc; cbn [read_loop]; unfold f_left; scd_go. Qed.
Lemma scd_mgr_read h n : scd (mgr_read h n).
Proof. unfold mgr_read. apply scd_locked. scd_go. apply scd_read_loop. Qed.
Lemma scd_write_loop fi vi : forall fuel data, scd (write_loop fuel fi vi data).
Proof. induction fuel as [|fu IH]; intros data; cbn [write_loop]; scd_go. Qed.
#[export] Hint Resolve scd_write_loop : scd.
Lemma scd_mgr_write h data : scd (mgr_write h data).
Proof. unfold mgr_write. apply scd_locked. scd_go. Qed.
Lemma scd_flush_file h : scd (flush_file h).
Proof. unfold flush_file. apply scd_locked. scd_go. Qed.
#[export] Hint Resolve scd_mgr_read scd_mgr_write scd_flush_file : scd.
Lemma scd_close_file h : scd (close_file h).
Proof. unfold close_file. scd_go; apply scd_locked; scd_go. Qed.
Lemma scd_has_open_handles : scd has_open_handles.
Proof. unfold has_open_handles. scd_go. Qed.
Lemma scd_with_file {A} h (k : nat -> fileinfo -> M A) : (forall fi f, scd (k fi f)) -> scd (with_file h k).
Proof. intros Hk. unfold with_file. apply scd_locked. scd_go. Qed.
Lemma scd_file_eof h : scd (file_eof h). Proof. apply scd_with_file. intros; scd_go. Qed.
Lemma scd_file_length h : scd (file_length h). Proof. apply scd_with_file. intros; scd_go. Qed.
Lemma scd_file_offset h : scd (file_offset h). Proof. apply scd_with_file. intros; scd_go. Qed.
Lemma scd_file_seek_from_start h x : scd (file_seek_from_start h x). Proof. apply scd_with_file. intros; scd_go. Qed.
Lemma scd_file_seek_from_end h x : scd (file_seek_from_end h x). Proof. apply scd_with_file. intros; scd_go. Qed.
Lemma scd_file_seek_from_current h x : scd (file_seek_from_current h x).
Proof. apply scd_with_file. intros; cbv zeta; scd_go. Qed.
#[export] Hint Resolve scd_file_offset scd_file_seek_from_start scd_file_seek_from_end scd_file_seek_from_current : scd.
Lemma scd_make_dir_in_dir h name : scd (make_dir_in_dir h name).
Proof. unfold make_dir_in_dir. apply scd_locked. scd_go. Qed.
Lemma scd_io_seek h w x : scd (io_seek h w x). Proof. unfold io_seek. scd_go. Qed.
Lemma scd_io_read h n : scd (io_read h n). Proof. unfold io_read. scd_go. Qed.
Lemma scd_io_write h data : scd (io_write h data). Proof. unfold io_write. scd_go. Qed.
Lemma scd_remount id : scd (remount id). Proof. unfold remount. scd_go. Qed.
Lemma scd_lift {A} (f : A -> res) (m : M A) : scd m -> scd (lift f m).
Proof. intros H. unfold lift. scd_go. Qed.

(* every API call *)
Theorem scd_step_all : forall o, scd (step o).
Proof.
  fix IH 1. intros o. destruct o; cbn [step]; try (apply scd_lift).
  - apply scd_open_raw_volume.
  - apply scd_close_volume.
  - apply scd_open_root_dir.
  - apply scd_open_dir.
  - apply scd_close_dir.
  - apply scd_mgr_find.
  - apply scd_mgr_iterate. destruct inner as [o'|]; [apply IH|apply scd_ret].
  - apply scd_open_file_in_dir.
  - apply scd_close_file.
  - apply scd_flush_file.
  - apply scd_mgr_read.
  - apply scd_mgr_write.
  - apply scd_file_seek_from_start.
  - apply scd_file_seek_from_current.
  - apply scd_file_seek_from_end.
  - apply scd_file_length.
  - apply scd_file_offset.
  - apply scd_file_eof.
  - apply scd_delete_file_in_dir.
  - apply scd_make_dir_in_dir.
  - apply scd_get_root_volume_label.
  - apply scd_has_open_handles.
  - apply scd_io_seek.
  - apply scd_io_read.
  - apply scd_io_write.
  - apply scd_remount.
Qed.


(* ---- FsExt ---- *)
Lemma scd_iter_blocks_raw fat32 : forall n i acc, scd (iter_blocks_raw n fat32 i acc).
Proof. induction n as [|n IH]; intros i acc; cbn [iter_blocks_raw]; scd_go. Qed.
#[export] Hint Resolve scd_iter_blocks_raw : scd.
Lemma scd_iter_walk_raw vi : forall fuel c acc, scd (iter_walk_raw fuel vi c acc).
Proof. induction fuel as [|f IH]; intros c acc; cbn [iter_walk_raw]; scd_go. Qed.
Lemma scd_iterate_dir_raw vi c : scd (iterate_dir_raw vi c).
Proof. unfold iterate_dir_raw. scd_go. apply scd_iter_walk_raw. Qed.
#[export] Hint Resolve scd_iterate_dir_raw : scd.
Lemma scd_mgr_iterate_lfn d n : scd (mgr_iterate_lfn d n).
Proof. unfold mgr_iterate_lfn. apply scd_locked. scd_go. Qed.
Lemma scd_xlift {A} (f : A -> xres) (m : M A) : scd m -> scd (xlift f m).
Proof. intros H. unfold xlift. scd_go. Qed.
Lemma scd_expect {A} (m : M A) : scd m -> scd (expect m).
Proof. intros H. unfold expect. scd_go. Qed.

Theorem scd_xstep : forall o, scd (xstep o).
Proof.
  intros o. destruct o; cbn [xstep]; apply scd_xlift.
  - apply scd_step_all.
  - apply scd_mgr_iterate_lfn.
  - unfold drop_file. pose proof (scd_close_file f). scd_go.
  - unfold drop_dir. pose proof (scd_close_dir d). scd_go.
  - unfold drop_volume. pose proof (scd_close_volume v). scd_go.
  - unfold change_dir. pose proof (scd_open_dir d name). pose proof (scd_close_dir d). scd_go.
  - apply scd_expect, scd_file_eof.
  - apply scd_expect, scd_file_length.
  - apply scd_expect, scd_file_offset.
Qed.

Print Assumptions scd_step_all.
Print Assumptions scd_xstep.
