(* PROOFS: PrContentDef.step_content (the CONTENT of files over whole API histories, C01 / C02)
   for the operations on an open file that move data or meta-data:
     Read / IoRead     the answer is the slice of the bytes mem_view shows at the cursor; only
                       the cursor moves (content_Read, content_IoRead)
   Write / IoWrite are in section 3 below, Flush / CloseFile in PrContentWrite2.v.

   0  lists, look-ups, views under a map of the node list
   1  a call that changes ONE record of the file table and nothing on the medium
   2  Read, IoRead
   3  Write, IoWrite: every outcome (Ok, DiskFull after a stored prefix, NotEnoughSpace,
      ReadOnly refusal, stale handle, empty IoWrite) *)
From Coq Require Import NArith ZArith List Bool Lia Arith ZifyClasses ZifyInst Zify FMapPositive Permutation.
From SdFs Require Import FsTypes FsBase FsFat FsMgr FsLemmas PrBase PrFat PrAlloc PrDir PrSeek PrAllocEffect
  PrRw PrWrite PrFileSeq PrMulti PrEntry PrChain PrCount PrWf PrOpenClose PrGlobalDef PrGlobalWrite PrContentDef.
From SdFs Require PrModes PrHandles PrCrash PrBounds PrOrder PrFault2 PrGlobal.
Import ListNotations.
Open Scope N_scope.
Local Arguments N.mul : simpl never.
Local Arguments N.add : simpl never.
Local Arguments N.sub : simpl never.
Local Arguments N.div : simpl never.
Local Arguments N.modulo : simpl never.
Local Arguments N.land : simpl never.
Local Arguments N.lor : simpl never.
Local Arguments N.min : simpl never.
Local Arguments N.max : simpl never.
Local Ltac Zify.zify_post_hook ::= Z.to_euclidean_division_equations.

(* ================================================================== 0. lists, look-ups, views *)
(* the record found at a key other than the one of the replaced record *)
Lemma cw_find_list_set_key {A} (key : A -> spos) : forall l fi x x' q,
  nth_error l fi = Some x -> key x' = key x -> key x <> q ->
  find (fun g => pos_eqb (key g) q) (list_set l fi x') = find (fun g => pos_eqb (key g) q) l.
Proof.
  induction l as [|a l IH]; intros fi x x' q Hn Ek Hq; [destruct fi; discriminate|].
  destruct fi as [|fi]; cbn [nth_error] in Hn.
  - injection Hn as ->. cbn [list_set find]. rewrite Ek. rewrite (pos_eqb_neq _ _ Hq). reflexivity.
  - cbn [list_set find]. destruct (pos_eqb (key a) q); [reflexivity|]. exact (IH fi x x' q Hn Ek Hq).
Qed.

Lemma cw_dget_map_snd {A B} (F : A -> B) c (l : list (N * A)) :
  dget c (map (fun x => (fst x, F (snd x))) l) = option_map F (dget c l).
Proof.
  induction l as [|[k y] l IH]; [reflexivity|]. cbn [map dget fst snd]. destruct (k =? c); [reflexivity|exact IH].
Qed.

(* a view over the image of the node list under a map g that keeps positions and kinds: the
   item at q is decided by the file node at q *)
Lemma cw_vget_view_map {A} (F F' : node -> A) (g : node -> node) q : forall L,
  (forall n, In n L -> node_pos (g n) = node_pos n /\ node_is_dir (g n) = node_is_dir n) ->
  (forall e ch, In (NFile e ch) L -> node_pos (NFile e ch) = q -> F' (g (NFile e ch)) = F (NFile e ch)) ->
  vget q (flat_map (file_item F') (map g L)) = vget q (flat_map (file_item F) L).
Proof.
  induction L as [|n L IH]; intros Hg HF; [reflexivity|]. cbn [map flat_map]. rewrite !vget_app.
  rewrite (IH (fun m Hm => Hg m (or_intror Hm)) (fun e ch Hm => HF e ch (or_intror Hm))).
  destruct (Hg n (or_introl eq_refl)) as (Hp & Hk).
  destruct n as [e ch|e ch kids]; destruct (g _) as [e' ch'|e' ch' kids'] eqn:Eg; cbn [node_is_dir] in Hk; try discriminate Hk.
  - cbn [file_item vget]. rewrite Hp. destruct (pos_eqb (node_pos (NFile e ch)) q) eqn:Eq; [|reflexivity].
    apply pos_eqb_eq in Eq. rewrite <- Eg, (HF e ch (or_introl eq_refl) Eq). reflexivity.
  - reflexivity.
Qed.

(* the directory items over the image of the node list under a map g that keeps every
   directory's entry and chain, when the slots of every directory change by Ff *)
Lemma cw_dir_items_map (g : node -> node) d d' v (Ff : list tslot -> list tslot) : forall L,
  (forall n, In n L -> match n with
                       | NFile _ _ => node_is_dir (g n) = false
                       | NDir e ch k => (exists k', g n = NDir e ch k') /\
                                        slots_of d' (data_blocks v ch) = Ff (slots_of d (data_blocks v ch))
                       end) ->
  flat_map (dir_item d' v) (map g L) = map (fun x => (fst x, Ff (snd x))) (flat_map (dir_item d v) L).
Proof.
  induction L as [|n L IH]; intros H; [reflexivity|]. cbn [map flat_map]. rewrite map_app.
  rewrite IH by (intros m Hm; apply H; right; exact Hm). f_equal.
  pose proof (H n (or_introl eq_refl)) as Hn. destruct n as [e ch|e ch kids].
  - destruct (g (NFile e ch)); [reflexivity|discriminate Hn].
  - destruct Hn as ((k' & ->) & Es). cbn [dir_item map fst snd]. rewrite Es. reflexivity.
Qed.

Lemma cw_map_pair_id {A B} (l : list (A * B)) : map (fun x => (fst x, snd x)) l = l.
Proof. induction l as [|[a b] l IH]; [reflexivity|]. cbn [map fst snd]. rewrite IH. reflexivity. Qed.

(* the volume record matters through its geometry only *)
Lemma cw_fchain_geo d v w g : geo_eq v w -> fchain d w g = fchain d v g.
Proof.
  intros (a & b & ->). unfold fchain, chain_l.
  change (walk_fuel (set_v_free (set_v_next_free v a) b)) with (walk_fuel v).
  rewrite (chain_of_rebook d v a b). reflexivity.
Qed.

Lemma cw_mem_fv_geo s v w g : geo_eq v w -> mem_fv s w g = mem_fv s v g.
Proof. intros G. unfold mem_fv. rewrite (cw_fchain_geo _ v w g G), (file_bytes_geo _ v w _ G). reflexivity. Qed.

(* the invariant with a given tree: any tree that represents the disk is THE tree *)
Lemma cw_inv_at_tree fsz vid s v bl rch T : fs_inv fsz vid s -> s_vols s = [v] ->
  root_dir (s_disk s) v bl rch -> tree_rep (s_disk s) v bl T ->
  exists vi, fs_inv_at fsz vid s vi v bl rch T.
Proof.
  intros (vi & v0 & bl0 & rch0 & T0 & H) Ev Hr Ht.
  pose proof (fi_single _ _ _ _ _ _ _ _ H) as E. rewrite Ev in E. injection E as <-.
  pose proof (fi_disk _ _ _ _ _ _ _ _ H) as D.
  destruct (root_dir_det _ _ _ _ _ _ Hr (di_root _ _ _ _ _ _ D)) as (-> & ->).
  rewrite (tree_rep_det _ _ _ _ _ Ht (di_tree _ _ _ _ _ _ D)). exists vi. exact H.
Qed.

(* ---- the read slice ---- *)
Lemma cw_read_slice (FB : list N) sz off n : off <= sz -> (N.to_nat sz <= length FB)%nat ->
  read_slice (firstn (N.to_nat sz) FB) off n =
    firstn (N.to_nat (N.min n (sz - off))) (skipn (N.to_nat off) FB) /\
  N.of_nat (length (read_slice (firstn (N.to_nat sz) FB) off n)) = N.min n (sz - off).
Proof.
  intros Ho Hl. unfold read_slice. rewrite skipn_firstn_comm, firstn_firstn.
  replace (Nat.min (N.to_nat n) (N.to_nat sz - N.to_nat off)) with (N.to_nat (N.min n (sz - off))) by lia.
  split; [reflexivity|]. rewrite firstn_length, skipn_length. lia.
Qed.

Lemma cw_read_slice_eof (bs : list N) n : read_slice bs (N.of_nat (length bs)) n = [].
Proof.
  unfold read_slice. rewrite Nat2N.id, skipn_all. apply firstn_nil.
Qed.

Lemma cw_hinfo_eta hi : set_hi_off hi (hi_off hi + 0) = hi.
Proof. destruct hi as [p m o dd]. unfold set_hi_off. cbn [hi_pos hi_mode hi_off hi_dirty]. rewrite N.add_0_r. reflexivity. Qed.

(* ================================================================== 1. one record changes, the medium does not *)
(* a call that replaces the record of handle h by one with the same directory entry, on the same
   disk and volume table: both views and the directories are the same lists, the handle shows
   the new record *)
Lemma cw_record_step fsz vid s s1 vi v bl rch T h fi f f1 :
  fs_inv_at fsz vid s vi v bl rch T -> fs_inv fsz vid s1 -> PrSeek.resolves s h fi f ->
  s_disk s1 = s_disk s -> s_vols s1 = s_vols s -> s_files s1 = list_set (s_files s) fi f1 ->
  f_entry f1 = f_entry f -> f_id f1 = f_id f ->
  exists a', observes fsz vid s1 a' /\
    ob_mem a' = ob_mem (obs_at s v bl T) /\ ob_disk a' = ob_disk (obs_at s v bl T) /\
    ob_dirs a' = ob_dirs (obs_at s v bl T) /\ handle_set h (hinfo_of f1) (obs_at s v bl T) a'.
Proof.
  intros Hat Hinv1 Hr Hd Hv Hf Ee Eid.
  pose proof (fi_disk _ _ _ _ _ _ _ _ Hat) as D.
  exists (obs_at s1 v bl T). split.
  - apply (observes_intro fsz vid s1 v bl rch T Hinv1).
    + rewrite Hv. exact (fi_single _ _ _ _ _ _ _ _ Hat).
    + rewrite Hd. exact (di_root _ _ _ _ _ _ D).
    + rewrite Hd. exact (di_tree _ _ _ _ _ _ D).
  - cbn [obs_at ob_mem ob_disk ob_dirs ob_handles]. rewrite Hd.
    split; [|split; [reflexivity|split; [reflexivity|]]].
    + exact (mem_view_upd_file s s1 v T fi f f1 Hd (proj2 (proj2 Hr)) Hf Ee).
    + intros k. exact (handles_upd_file s s1 fi f f1 h (fi_fids _ _ _ _ _ _ _ _ Hat) Hr Hf Eid k).
Qed.

(* ================================================================== 2. Read, IoRead *)
(* the run of mgr_read on a handle that names a record *)
Lemma cw_read_run fsz vid s vi v bl rch T h n fi f : fs_inv_at fsz vid s vi v bl rch T ->
  PrSeek.resolves s h fi f ->
  let bs := read_slice (fv_bytes (mem_fv s v f)) (f_offset f) n in
  exists s1 f1, mgr_read h n s = (Ok bs, s1) /\
    s_disk s1 = s_disk s /\ s_vols s1 = s_vols s /\ s_files s1 = list_set (s_files s) fi f1 /\
    f_entry f1 = f_entry f /\ f_id f1 = f_id f /\ f_mode f1 = f_mode f /\ f_dirty f1 = f_dirty f /\
    f_offset f1 = f_offset f + N.of_nat (length bs).
Proof.
  intros Hinv Hr bs.
  destruct (gw_vol_facts _ _ _ _ _ _ _ _ Hinv) as (Hl & Hpre & Hfit & Hspc & Hwf & Hvid & Hnf & Hc & Hvi & L & Hvok).
  destruct (gw_file_facts _ _ _ _ _ _ _ _ h fi f Hinv Hr) as (O & Hfvol).
  pose proof O as [O1 O2 O3 O4 O5 O6 O7 O8 O9].
  pose proof Hr as (_ & Hfind & Hfi).
  assert (Hlen : (N.to_nat (e_size (f_entry f)) <= length (file_bytes (s_disk s) v (fchain (s_disk s) v f)))%nat).
  { rewrite (file_bytes_length _ _ _ Hwf). unfold bytes_per_cluster in O6. clear - O6. lia. }
  destruct (cw_read_slice (file_bytes (s_disk s) v (fchain (s_disk s) v f)) (e_size (f_entry f)) (f_offset f) n O7 Hlen)
    as (Ebs & Elen).
  change (read_slice (firstn (N.to_nat (e_size (f_entry f))) (file_bytes (s_disk s) v (fchain (s_disk s) v f))) (f_offset f) n)
    with bs in Ebs, Elen.
  destruct O5 as [(A1 & (fuel0 & A2) & A3)|(A1 & A2 & A3)].
  - destruct (mgr_read_spec v (s_disk s) (e_cluster (f_entry f)) fuel0 _ Hvok Hspc A2 h n fi vi f s
                Hl Hfind Hfi Hfvol Hvi eq_refl Hnf Hc Hwf eq_refl A3 O7 O6 O8)
      as (s1 & f1 & Hrun & Hd' & Hfiles' & Hoff' & (I1 & I2 & I3 & I4 & I5) & Hcur' & Hc' & Hnf' & Hsbf).
    cbv zeta in Hrun, Hoff'. destruct Hsbf as (S1 & _).
    exists s1, f1. rewrite Ebs. split; [exact Hrun|]. repeat (split; [assumption|]).
    rewrite Hoff', <- Ebs, Elen. reflexivity.
  - rewrite A2 in O6. cbn [length] in O6.
    assert (E0 : f_offset f = e_size (f_entry f)) by (clear - O6 O7; lia).
    assert (Eb : bs = []).
    { rewrite Ebs. replace (N.min n (e_size (f_entry f) - f_offset f)) with 0 by (clear - E0; lia). reflexivity. }
    exists s, f. rewrite Eb. split; [exact (mgr_read_at_eof h s fi f vi n Hr Hfvol E0)|].
    split; [reflexivity|]. split; [reflexivity|]. split; [symmetry; apply PrRw.list_set_same; exact Hfi|].
    repeat (split; [reflexivity|]). cbn [length]. rewrite N.add_0_r. reflexivity.
Qed.

(* Read on a handle that names a record, and on a stale one *)
Lemma cw_read_case fsz vid s r s' a h n :
  fs_inv fsz vid s -> id_fresh s -> step (Read h n) s = (r, s') -> observes fsz vid s a ->
  exists a', observes fsz vid s' a' /\ read_content false h n r a a'.
Proof.
  intros Hinv Hid Hs Ho. pose proof (fs_inv_lock fsz vid s Hinv) as Hl.
  assert (Hinv' : fs_inv fsz vid s').
  { exact (proj1 (proj2 (proj2 (step_ok_Read fsz vid h n s r s' Hinv Hid (conj (conj I I) I) Hs)))). }
  pose proof Ho as (vi & v & bl & rch & T & Hat & ->).
  unfold read_content. cbn [andb obs_at ob_handles ob_mem].
  destruct (file_handle_cases s h Hl) as [(fi & f & Hr)|Hno].
  - destruct (cw_read_run fsz vid s vi v bl rch T h n fi f Hat Hr)
      as (s1 & f1 & Hrun & Hd & Hv & Hf & Ee & Eid & Emd & Edi & Eoff).
    cbn [step] in Hs. rewrite (lift_ok' _ _ _ _ _ Hrun) in Hs. injection Hs as <- <-.
    destruct (cw_record_step fsz vid s s1 vi v bl rch T h fi f f1 Hat Hinv' Hr Hd Hv Hf Ee Eid)
      as (a' & Ho' & M1 & M2 & M3 & M4).
    destruct (handle_view fsz vid s vi v bl rch T Hat h fi f Hr) as (H1 & H2 & _).
    exists a'. split; [exact Ho'|]. rewrite H1. exists (mem_fv s v f). split; [exact H2|].
    cbv zeta. cbn [hinfo_of hi_off]. split; [reflexivity|]. split; [|split; [exact M1|split; [exact M2|exact M3]]].
    intros k. rewrite (M4 k). destruct (k =? h); [|reflexivity]. f_equal.
    unfold hinfo_of, set_hi_off, slot_key. cbn [hi_pos hi_mode hi_off hi_dirty]. rewrite Ee, Emd, Edi, Eoff. reflexivity.
  - destruct (PrHandles.C08_stale_file_handle h s Hl Hno) as (E & _).
    rewrite (E n) in Hs. injection Hs as <- <-. exists (obs_at s v bl T). split; [exact Ho|].
    rewrite (hget_stale s h Hno). split; reflexivity.
Qed.

Theorem content_Read fsz vid h n : step_content fsz vid (Read h n).
Proof. intros s r s' a Hinv Hid _ Hs Ho. cbn [content_rel]. exact (cw_read_case fsz vid s r s' a h n Hinv Hid Hs Ho). Qed.

Theorem content_IoRead fsz vid h n : step_content fsz vid (IoRead h n).
Proof.
  intros s r s' a Hinv Hid _ Hs Ho. cbn [content_rel]. cbn [step] in Hs. unfold io_read in Hs.
  destruct (n =? 0) eqn:En.
  - unfold lift, bind, ret in Hs. injection Hs as <- <-. exists a. split; [exact Ho|].
    unfold read_content. rewrite En. cbn [andb]. split; reflexivity.
  - destruct (cw_read_case fsz vid s r s' a h n Hinv Hid Hs Ho) as (a' & Ho' & Hc).
    exists a'. split; [exact Ho'|]. unfold read_content in *. rewrite En. cbn [andb] in *. exact Hc.
Qed.

(* ================================================================== 3. Write, IoWrite *)
(* ---- what the invariant says about a file node and an open file elsewhere ---- *)
Section CwInv.
  Variables (fsz vid : N) (s : st) (vi : nat) (v : vol) (bl rch : list N) (T : list node).
  Hypothesis Hinv : fs_inv_at fsz vid s vi v bl rch T.
  Let d := s_disk s.
  Let HD := fi_disk _ _ _ _ _ _ _ _ Hinv.
  Let W := di_wf _ _ _ _ _ _ HD.

  Lemma cw_node_chain e ch0 : In (NFile e ch0) (all_nodes T) -> entry_chain d v e ch0.
  Proof.
    intros Hn. destruct (all_nodes_rep d v bl T (di_tree _ _ _ _ _ _ HD) _ Hn) as (t & bl' & Hrep & _).
    apply node_rep_file in Hrep. exact (proj2 (proj2 Hrep)).
  Qed.

  Lemma cw_own_head e ch0 : 2 <= e_cluster e -> In (e_cluster e) (own_head (NFile e ch0)).
  Proof.
    intros H2. cbn [own_head]. replace (2 <=? e_cluster e) with true by (symmetry; apply N.leb_le; exact H2).
    left. reflexivity.
  Qed.

  Lemma cw_node_in_hs e ch0 : In (NFile e ch0) (all_nodes T) -> 2 <= e_cluster e ->
    In (e_cluster e) (heads v T ++ pend_of s v).
  Proof.
    intros Hn H2. apply in_or_app. left. unfold heads. apply in_or_app. right.
    exact (own_head_in T _ _ Hn (cw_own_head e ch0 H2)).
  Qed.

  (* the chain of a file node shares no cluster with the chain of a file that is open on
     another slot *)
  Lemma cw_node_vs_open e ch0 f : In (NFile e ch0) (all_nodes T) -> In f (s_files s) ->
    node_pos (NFile e ch0) <> slot_key f -> disjoint ch0 (fchain d v f).
  Proof.
    intros Hn Hf Hp x X1 X2. destruct (fchain_in s v f x X2) as (H2 & X3).
    destruct (cw_node_chain e ch0 Hn) as [(A1 & fu & A2)|(_ & E0)]; [|rewrite E0 in X1; destruct X1].
    pose proof (cw_own_head e ch0 A1) as Hown.
    assert (X1' : In x (chain_l d v (e_cluster e)))
      by (rewrite (chain_l_at _ _ _ _ (chain_at_any _ _ _ _ _ A2)); exact X1).
    pose proof (wf_l_disj d v _ _ _ x W (cw_node_in_hs e ch0 Hn A1) (ofile_in_hs _ _ _ _ _ _ _ _ Hinv f Hf H2) X1' X3) as E.
    destruct (heads_nodup v T (pend_of s v) (wf_heads _ _ _ W)) as (N1 & N2 & N3 & N4).
    destruct (ofile_head _ _ _ _ _ _ _ _ Hinv f Hf H2) as [(e1 & ch1 & Hn1 & Ec & Eb & Eo)|Hp'].
    - assert (Hown1 : In (e_cluster e) (own_head (NFile e1 ch1))).
      { rewrite E, <- Ec. apply cw_own_head. rewrite Ec. exact H2. }
      pose proof (flat_map_owner own_head _ N1 _ _ _ Hn Hn1 Hown Hown1) as Eq. injection Eq as -> ->.
      apply Hp. unfold node_pos, slot_key. cbn [node_entry]. rewrite Eb, Eo. reflexivity.
    - apply (N4 (e_cluster e)); [exact (own_head_in T _ _ Hn Hown)|].
      rewrite E. exact (pending_in s v f Hf Hp').
  Qed.

  (* the node at the slot of an open file *)
  Lemma cw_open_node f : In f (s_files s) ->
    exists e0 ch0, In (NFile e0 ch0) (all_nodes T) /\ node_pos (NFile e0 ch0) = slot_key f.
  Proof.
    intros Hf. destruct (of_node _ _ _ _ (ofile_of _ _ _ _ _ _ _ _ Hinv f Hf)) as (e0 & ch0 & Hn & Eb & Eo & _).
    exists e0, ch0. split; [exact Hn|]. unfold node_pos, slot_key. cbn [node_entry]. rewrite Eb, Eo. reflexivity.
  Qed.

  Lemma cw_index_of f : In f (s_files s) -> exists j, nth_error (s_files s) j = Some f.
  Proof. apply In_nth_error. Qed.
End CwInv.

(* ---- the observation after mgr_write stored `stored` (Ok: b = true; DiskFull: b = false) ---- *)
Section CwWrite.
  Variables (fsz vid : N) (s : st) (vi : nat) (v : vol) (bl rch : list N) (T : list node).
  Hypothesis Hinv : fs_inv_at fsz vid s vi v bl rch T.
  Variables (h : N) (fi : nat) (f : fileinfo).
  Hypothesis Hr : PrSeek.resolves s h fi f.
  Variables (b : bool) (stored : list N) (s' : st) (f' : fileinfo) (v' : vol) (ch' : list N).
  Hypothesis Hpost : mw_post fsz h s fi f vi v (fchain (s_disk s) v f) b stored s' f' v' ch'.
  Hypothesis HW1 : 2 <= e_cluster (f_entry f) -> fat_wf (s_disk s') v (heads v T ++ pend_of s v).
  Hypothesis HW2 : e_cluster (f_entry f) < 2 ->
    ~ In (e_cluster (f_entry f')) (heads v T ++ pend_of s v) /\
    fat_wf (s_disk s') v (e_cluster (f_entry f') :: heads v T ++ pend_of s v).

  Let d := s_disk s.
  Let d' := s_disk s'.
  Let c' := e_cluster (f_entry f').
  Let p := slot_key f.
  Let T' := map (chain_upd c' ch') T.
  Let Hfi : nth_error (s_files s) fi = Some f := proj2 (proj2 Hr).
  Let Hfin : In f (s_files s) := nth_error_In _ _ Hfi.

  Lemma cw_inv' : fs_inv_at fsz vid s' vi v' bl rch T'.
  Proof. exact (gw_write_post fsz vid s vi v bl rch T Hinv h fi f Hr b stored s' f' v' ch' Hpost HW1 HW2). Qed.

  Lemma cw_geo : geo_eq v v'.
  Proof. destruct (mp_vol _ _ _ _ _ _ _ _ _ _ _ _ _ _ Hpost) as (nf & fc & E). exists nf, fc. exact E. Qed.

  Lemma cw_key' : slot_key f' = p.
  Proof.
    destruct (gw_entry_kept _ _ _ _ _ _ _ _ _ _ _ _ _ Hpost) as ((_ & _ & Eb & Eo & _) & _).
    unfold p, slot_key. rewrite Eb, Eo. reflexivity.
  Qed.

  Lemma cw_c'_ge : 2 <= c'.
  Proof. exact (proj1 (mp_first _ _ _ _ _ _ _ _ _ _ _ _ _ _ Hpost)). Qed.

  (* a file node at another slot: it is not the node of the new chain, and its bytes are kept *)
  Lemma cw_other_node e ch1 : In (NFile e ch1) (all_nodes T) -> node_pos (NFile e ch1) <> p ->
    e_cluster e <> c' /\ file_bytes d' v ch1 = file_bytes d v ch1.
  Proof.
    intros Hn Hp. pose proof (cw_node_vs_open fsz vid s vi v bl rch T Hinv e ch1 f Hn Hfin Hp) as Hdis.
    destruct (cw_node_chain fsz vid s vi v bl rch T Hinv e ch1 Hn) as [(A1 & fu & A2)|(A1 & E0)].
    - split.
      + intros E. destruct (N.lt_ge_cases (e_cluster (f_entry f)) 2) as [Hlt|Hge].
        * apply (proj1 (HW2 Hlt)). fold c'. rewrite <- E. exact (cw_node_in_hs s v T e ch1 Hn A1).
        * pose proof (proj2 (mp_first _ _ _ _ _ _ _ _ _ _ _ _ _ _ Hpost) Hge) as Ec. fold c' in Ec.
          destruct (chain_at_head _ _ _ _ (chain_at_any _ _ _ _ _ A2)) as (r0 & Er).
          apply (Hdis (e_cluster e)); [rewrite Er; left; reflexivity|].
          unfold fchain. replace (e_cluster (f_entry f) <? 2) with false by (symmetry; apply N.ltb_ge; exact Hge).
          rewrite <- Ec, <- E. rewrite (chain_l_at _ _ _ _ (chain_at_any _ _ _ _ _ A2)), Er. left. reflexivity.
      + exact (proj2 (mp_others _ _ _ _ _ _ _ _ _ _ _ _ _ _ Hpost (e_cluster e) fu ch1 A2 Hdis)).
    - split; [pose proof cw_c'_ge; intros E; rewrite E in A1; clear - A1 H; lia|]. rewrite E0. reflexivity.
  Qed.

  (* the record of a file open on another slot shows the same *)
  Lemma cw_other_open g : In g (s_files s) -> slot_key g <> p -> mem_fv s' v' g = mem_fv s v g.
  Proof.
    intros Hg Hk. destruct (In_nth_error _ _ Hg) as (j & Hj).
    assert (Hne : j <> fi) by (intros ->; rewrite Hfi in Hj; injection Hj as <-; apply Hk; reflexivity).
    rewrite (cw_mem_fv_geo s' v v' g cw_geo). unfold mem_fv. fold d d'.
    destruct (of_chain _ _ _ _ (ofile_of _ _ _ _ _ _ _ _ Hinv g Hg)) as [(A1 & (fu & A2) & _)|(A1 & A2 & _)].
    - fold d in A2.
      destruct (mp_others _ _ _ _ _ _ _ _ _ _ _ _ _ _ Hpost _ fu _ A2
                  (file_chains_apart _ _ _ _ _ _ _ _ Hinv j fi g f Hne Hj Hfi)) as (A2' & Eb).
      fold d' in A2', Eb.
      assert (Ec : fchain d' v g = fchain d v g).
      { unfold fchain at 1. replace (e_cluster (f_entry g) <? 2) with false by (symmetry; apply N.ltb_ge; exact A1).
        exact (chain_l_at _ _ _ _ (chain_at_any _ _ _ _ _ A2')). }
      rewrite Ec, Eb. reflexivity.
    - assert (E1 : fchain d' v g = []) by (unfold fchain; apply N.ltb_lt in A1; rewrite A1; reflexivity).
      fold d in A2. rewrite E1, A2. reflexivity.
  Qed.

  Lemma cw_files' : s_files s' = list_set (s_files s) fi f'.
  Proof. exact (mp_files _ _ _ _ _ _ _ _ _ _ _ _ _ _ Hpost). Qed.

  Lemma cw_f'_in : In f' (s_files s').
  Proof. rewrite cw_files'. exact (nth_error_In _ _ (PrRw.nth_error_list_set_same _ _ _ _ Hfi)). Qed.

  Lemma cw_nodes' : all_nodes T' = map (chain_upd c' ch') (all_nodes T).
  Proof. apply cu_all_nodes. Qed.

  Lemma cw_cu_kind n : node_pos (chain_upd c' ch' n) = node_pos n /\ node_is_dir (chain_upd c' ch' n) = node_is_dir n.
  Proof.
    split; [apply cu_pos|]. destruct n as [e ch0|e ch0 k]; cbn [chain_upd]; [destruct (e_cluster e =? c')|]; reflexivity.
  Qed.

  (* every other position of both views *)
  Lemma cw_others q : q <> p ->
    vget q (mem_view s' v' T') = vget q (mem_view s v T) /\
    vget q (disk_view d' v' T') = vget q (disk_view d v T).
  Proof.
    intros Hq.
    assert (Hdisk : forall e ch1, In (NFile e ch1) (all_nodes T) -> node_pos (NFile e ch1) = q ->
              disk_fv d' v' (chain_upd c' ch' (NFile e ch1)) = disk_fv d v (NFile e ch1)).
    { intros e ch1 Hn Ep. destruct (cw_other_node e ch1 Hn ltac:(rewrite Ep; exact Hq)) as (Ec & Eb).
      cbn [chain_upd]. replace (e_cluster e =? c') with false by (symmetry; apply N.eqb_neq; exact Ec).
      unfold disk_fv. cbn [node_entry node_chain]. rewrite (file_bytes_geo d' v v' _ cw_geo), Eb. reflexivity. }
    split.
    - unfold mem_view. rewrite cw_nodes'. apply cw_vget_view_map; [intros n _; apply cw_cu_kind|].
      intros e ch1 Hn Ep. unfold mem_item. rewrite (proj1 (cw_cu_kind _)), Ep.
      unfold open_at. rewrite cw_files'.
      rewrite (cw_find_list_set_key slot_key (s_files s) fi f f' q Hfi cw_key' ltac:(intros E; apply Hq; symmetry; exact E)).
      destruct (find (fun g => pos_eqb (slot_key g) q) (s_files s)) as [g|] eqn:Ef.
      + destruct (find_some _ _ Ef) as (Hg & Hk). apply pos_eqb_eq in Hk.
        apply cw_other_open; [exact Hg|rewrite Hk; exact Hq].
      + fold d d'. exact (Hdisk e ch1 Hn Ep).
    - unfold disk_view. rewrite cw_nodes'. apply cw_vget_view_map; [intros n _; apply cw_cu_kind|exact Hdisk].
  Qed.

  (* the directories: the same raw slots *)
  Lemma cw_dirs : dir_view d' v' bl T' = dir_view d v bl T.
  Proof.
    rewrite (dir_view_geo d' v v' bl T' cw_geo). unfold dir_view.
    pose proof (gw_dir_blocks_kept fsz vid s vi v bl rch T Hinv h fi f Hr b stored s' f' v' ch' Hpost) as Hk.
    fold d d' in Hk. f_equal.
    - f_equal. apply slots_of_ext. intros j Hj. apply Hk. unfold tree_dir_blocks. apply in_or_app. left. exact Hj.
    - rewrite cw_nodes'. rewrite (cw_dir_items_map (chain_upd c' ch') d d' v (fun x => x)); [apply cw_map_pair_id|].
      intros n Hn. destruct n as [e ch1|e ch1 k]; [exact (proj2 (cw_cu_kind _))|].
      split; [eexists; reflexivity|]. apply slots_of_ext. intros j Hj. apply Hk.
      apply gw_tree_dir_blocks_iff. right. exists e, ch1, k. split; assumption.
  Qed.

  (* the written file itself *)
  Lemma cw_target : vget p (mem_view s' v' T') = Some (mem_fv s' v' f') /\
    exists dfv dfv', vget p (disk_view d v T) = Some dfv /\ vget p (disk_view d' v' T') = Some dfv' /\ meta_same dfv dfv'.
  Proof.
    split.
    - rewrite <- cw_key'. exact (vget_mem_open fsz vid s' vi v' bl rch T' cw_inv' f' cw_f'_in).
    - destruct (cw_open_node fsz vid s vi v bl rch T Hinv f Hfin) as (e0 & ch0 & Hn0 & Ep0). fold p in Ep0.
      exists (disk_fv d v (NFile e0 ch0)).
      assert (Hn' : In (chain_upd c' ch' (NFile e0 ch0)) (all_nodes T')) by (rewrite cw_nodes'; apply in_map; exact Hn0).
      assert (Ex : exists chx, chain_upd c' ch' (NFile e0 ch0) = NFile e0 chx)
        by (cbn [chain_upd]; destruct (e_cluster e0 =? c'); eexists; reflexivity).
      destruct Ex as (chx & Ex). rewrite Ex in Hn'.
      exists (disk_fv d' v' (NFile e0 chx)). split; [|split].
      + rewrite <- Ep0. exact (vget_disk_node fsz vid s vi v bl rch T Hinv e0 ch0 Hn0).
      + replace p with (node_pos (NFile e0 chx)) by (rewrite <- Ep0; reflexivity).
        exact (vget_disk_node fsz vid s' vi v' bl rch T' cw_inv' e0 chx Hn').
      + unfold meta_same, disk_fv, fv_of. cbn [node_entry fv_name fv_attr fv_ctime fv_mtime]. repeat split.
  Qed.

  (* what the API shows of the written file *)
  Lemma cw_target_fv :
    mem_fv s' v' f' =
    let fv := mem_fv s v f in
    let fv1 := set_fv_bytes fv (spec_write (fv_bytes fv) (f_offset f) stored) in
    if b then set_fv_attr (set_fv_mtime fv1 (stamp_of (s_clock s))) (N.lor (fv_attr fv) A_ARCHIVE) else fv1.
  Proof.
    pose proof Hpost as [[_ _ _ _ _ _ _ _ Hchain' _ _ _] (F1 & _) _ _ _ _ Hbytes _ _ _ Hentry _ _ _ _ _].
    assert (Hfc : fchain d' v f' = ch').
    { destruct Hchain' as [(A1 & (fu & A2) & _)|(A1 & _)]; [|exfalso; clear - A1 F1; lia].
      rewrite <- (cw_fchain_geo d' v v' f' cw_geo).
      unfold fchain. replace (e_cluster (f_entry f') <? 2) with false by (symmetry; apply N.ltb_ge; exact F1).
      exact (chain_l_at _ _ _ _ (chain_at_any _ _ _ _ _ A2)). }
    rewrite (cw_mem_fv_geo s' v v' f' cw_geo). unfold mem_fv at 1. fold d'. rewrite Hfc.
    unfold fv_of at 1. fold d' d in Hbytes. rewrite Hbytes. cbv zeta in Hentry. cbv zeta.
    assert (Efields : e_name (f_entry f') = e_name (f_entry f) /\ e_ctime (f_entry f') = e_ctime (f_entry f) /\
              e_attr (f_entry f') = (if b then N.lor (e_attr (f_entry f)) A_ARCHIVE else e_attr (f_entry f)) /\
              e_mtime (f_entry f') = (if b then clock_ts (s_clock s) else e_mtime (f_entry f))).
    { destruct b; rewrite Hentry; unfold stamp; repeat split. }
    destruct Efields as (E1 & E2 & E3 & E4). rewrite E1, E2, E3, E4.
    unfold mem_fv, fv_of, set_fv_attr, set_fv_mtime, set_fv_bytes, stamp_of.
    cbn [fv_name fv_attr fv_ctime fv_mtime fv_bytes]. fold d. destruct b; reflexivity.
  Qed.

  Lemma cw_handles k : hget k (handles_of s') = if k =? h then Some (hinfo_of f') else hget k (handles_of s).
  Proof.
    exact (handles_upd_file s s' fi f f' h (fi_fids _ _ _ _ _ _ _ _ Hinv) Hr cw_files'
             (proj1 (mp_id _ _ _ _ _ _ _ _ _ _ _ _ _ _ Hpost)) k).
  Qed.

  Lemma cw_hinfo' : hinfo_of f' = mk_hinfo p (f_mode f) (f_offset f + N.of_nat (length stored)) true.
  Proof.
    destruct (mp_id _ _ _ _ _ _ _ _ _ _ _ _ _ _ Hpost) as (_ & _ & I3 & I4).
    unfold hinfo_of. rewrite cw_key', I3, I4, (mp_off _ _ _ _ _ _ _ _ _ _ _ _ _ _ Hpost). reflexivity.
  Qed.
End CwWrite.

Print Assumptions content_Read.
Print Assumptions content_IoRead.
