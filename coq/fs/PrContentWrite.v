(* PROOFS: PrContentDef.step_content (the CONTENT of files over whole API histories, C01 / C02)
   for the operations on an open file that move data or meta-data:
     Read / IoRead     the answer is the slice of the bytes mem_view shows at the cursor; only
                       the cursor moves; both views and the directories are the same lists
     Write / IoWrite   the bytes of the target in mem_view become the splice of the (clipped)
                       data at the cursor, mtime = the clock value, archive bit; every other
                       position of both views and every directory slot unchanged
     Flush / CloseFile dirty: disk_view' at the slot = mem_view there before the call, exactly
                       one 32-byte slot of one directory changes; clean: nothing written;
                       CloseFile removes the handle
   Main theorems: content_Read, content_IoRead, content_Write, content_IoWrite, content_Flush,
   content_CloseFile : step_content fsz vid (..) - all arguments, every outcome, no extra
   hypothesis.  No case of read_content / write_content / flush_content had to be changed.

   0  lists, look-ups, views under a map of the node list
   1  a call that changes ONE record of the file table and nothing on the medium
   2  Read, IoRead (cw_read_run: PrRw.mgr_read_spec)
   3  Write, IoWrite: every outcome (Ok, DiskFull after a stored prefix, NotEnoughSpace,
      ReadOnly refusal, stale handle, empty IoWrite); PrWrite.mgr_write_spec, the tree
      map (chain_upd ..) T of PrGlobalWrite.gw_write_post (cw_write_obs, cw_mgr_write)
   4  Flush, CloseFile: the run of a dirty flush with the exact new disk and the tree
      forest_replace p (NFile (decoded slot) chain) T (cw_flush_run, record cw_flushed), the
      observation after it (cwf_rel), the record leaving the table (cw_drop_obs)
   5  an example: the theorems applied to a write / flush / close run from gx_state *)
From Coq Require Import NArith ZArith List Bool Lia Arith ZifyClasses ZifyInst Zify FMapPositive Permutation.
From SdFs Require Import FsTypes FsBase FsFat FsMgr FsLemmas PrBase PrFat PrAlloc PrDir PrSeek PrAllocEffect
  PrRw PrWrite PrFileSeq PrMulti PrEntry PrChain PrCount PrWf PrOpenClose PrGlobalDef PrGlobalWrite PrContentDef.
From SdFs Require PrModes PrHandles PrCrash PrBounds PrOrder PrFault2.
Import ListNotations.
Open Scope N_scope.
Local Arguments N.mul : simpl never.
Local Arguments N.add : simpl never.
Local Arguments N.sub : simpl never.
Local Arguments N.div : simpl never.
Local Arguments N.modulo : simpl never.
Local Arguments N.land : simpl never.
Local Arguments N.lor : simpl never.
Local Arguments N.min : simpl never.
Local Arguments N.max : simpl never.
Local Ltac Zify.zify_post_hook ::= Z.to_euclidean_division_equations.

(* ================================================================== 0. lists, look-ups, views *)
(* the record found at a key other than the one of the replaced record *)
Lemma cw_find_list_set_key {A} (key : A -> spos) : forall l fi x x' q,
  nth_error l fi = Some x -> key x' = key x -> key x <> q ->
  find (fun g => pos_eqb (key g) q) (list_set l fi x') = find (fun g => pos_eqb (key g) q) l.
Proof.
  induction l as [|a l IH]; intros fi x x' q Hn Ek Hq; [destruct fi; discriminate|].
  destruct fi as [|fi]; cbn [nth_error] in Hn.
  - injection Hn as ->. cbn [list_set find]. rewrite Ek. rewrite (pos_eqb_neq _ _ Hq). reflexivity.
  - cbn [list_set find]. destruct (pos_eqb (key a) q); [reflexivity|]. exact (IH fi x x' q Hn Ek Hq).
Qed.

Lemma cw_dget_map_snd {A B} (F : A -> B) c (l : list (N * A)) :
  dget c (map (fun x => (fst x, F (snd x))) l) = option_map F (dget c l).
Proof.
  induction l as [|[k y] l IH]; [reflexivity|]. cbn [map dget fst snd]. destruct (k =? c); [reflexivity|exact IH].
Qed.

(* a view over the image of the node list under a map g that keeps positions and kinds: the
   item at q is decided by the file node at q *)
Lemma cw_vget_view_map {A} (F F' : node -> A) (g : node -> node) q : forall L,
  (forall n, In n L -> node_pos (g n) = node_pos n /\ node_is_dir (g n) = node_is_dir n) ->
  (forall e ch, In (NFile e ch) L -> node_pos (NFile e ch) = q -> F' (g (NFile e ch)) = F (NFile e ch)) ->
  vget q (flat_map (file_item F') (map g L)) = vget q (flat_map (file_item F) L).
Proof.
  induction L as [|n L IH]; intros Hg HF; [reflexivity|]. cbn [map flat_map]. rewrite !vget_app.
  rewrite (IH (fun m Hm => Hg m (or_intror Hm)) (fun e ch Hm => HF e ch (or_intror Hm))).
  destruct (Hg n (or_introl eq_refl)) as (Hp & Hk).
  destruct n as [e ch|e ch kids]; destruct (g _) as [e' ch'|e' ch' kids'] eqn:Eg; cbn [node_is_dir] in Hk; try discriminate Hk.
  - cbn [file_item vget]. rewrite Hp. destruct (pos_eqb (node_pos (NFile e ch)) q) eqn:Eq; [|reflexivity].
    apply pos_eqb_eq in Eq. rewrite <- Eg, (HF e ch (or_introl eq_refl) Eq). reflexivity.
  - reflexivity.
Qed.

(* the directory items over the image of the node list under a map g that keeps every
   directory's entry and chain, when the slots of every directory change by Ff *)
Lemma cw_dir_items_map (g : node -> node) d d' v (Ff : list tslot -> list tslot) : forall L,
  (forall n, In n L -> match n with
                       | NFile _ _ => node_is_dir (g n) = false
                       | NDir e ch k => (exists k', g n = NDir e ch k') /\
                                        slots_of d' (data_blocks v ch) = Ff (slots_of d (data_blocks v ch))
                       end) ->
  flat_map (dir_item d' v) (map g L) = map (fun x => (fst x, Ff (snd x))) (flat_map (dir_item d v) L).
Proof.
  induction L as [|n L IH]; intros H; [reflexivity|]. cbn [map flat_map]. rewrite map_app.
  rewrite IH by (intros m Hm; apply H; right; exact Hm). f_equal.
  pose proof (H n (or_introl eq_refl)) as Hn. destruct n as [e ch|e ch kids].
  - destruct (g (NFile e ch)); [reflexivity|discriminate Hn].
  - destruct Hn as ((k' & ->) & Es). cbn [dir_item map fst snd]. rewrite Es. reflexivity.
Qed.

Lemma cw_map_pair_id {A B} (l : list (A * B)) : map (fun x => (fst x, snd x)) l = l.
Proof. induction l as [|[a b] l IH]; [reflexivity|]. cbn [map fst snd]. rewrite IH. reflexivity. Qed.

(* the volume record matters through its geometry only *)
Lemma cw_fchain_geo d v w g : geo_eq v w -> fchain d w g = fchain d v g.
Proof.
  intros (a & b & ->). unfold fchain, chain_l.
  change (walk_fuel (set_v_free (set_v_next_free v a) b)) with (walk_fuel v).
  rewrite (chain_of_rebook d v a b). reflexivity.
Qed.

Lemma cw_mem_fv_geo s v w g : geo_eq v w -> mem_fv s w g = mem_fv s v g.
Proof. intros G. unfold mem_fv. rewrite (cw_fchain_geo _ v w g G), (file_bytes_geo _ v w _ G). reflexivity. Qed.

(* the invariant with a given tree: any tree that represents the disk is THE tree *)
Lemma cw_inv_at_tree fsz vid s v bl rch T : fs_inv fsz vid s -> s_vols s = [v] ->
  root_dir (s_disk s) v bl rch -> tree_rep (s_disk s) v bl T ->
  exists vi, fs_inv_at fsz vid s vi v bl rch T.
Proof.
  intros (vi & v0 & bl0 & rch0 & T0 & H) Ev Hr Ht.
  pose proof (fi_single _ _ _ _ _ _ _ _ H) as E. rewrite Ev in E. injection E as <-.
  pose proof (fi_disk _ _ _ _ _ _ _ _ H) as D.
  destruct (root_dir_det _ _ _ _ _ _ Hr (di_root _ _ _ _ _ _ D)) as (-> & ->).
  rewrite (tree_rep_det _ _ _ _ _ Ht (di_tree _ _ _ _ _ _ D)). exists vi. exact H.
Qed.

(* ---- the read slice ---- *)
Lemma cw_read_slice (FB : list N) sz off n : off <= sz -> (N.to_nat sz <= length FB)%nat ->
  read_slice (firstn (N.to_nat sz) FB) off n =
    firstn (N.to_nat (N.min n (sz - off))) (skipn (N.to_nat off) FB) /\
  N.of_nat (length (read_slice (firstn (N.to_nat sz) FB) off n)) = N.min n (sz - off).
Proof.
  intros Ho Hl. unfold read_slice. rewrite skipn_firstn_comm, firstn_firstn.
  replace (Nat.min (N.to_nat n) (N.to_nat sz - N.to_nat off)) with (N.to_nat (N.min n (sz - off))) by lia.
  split; [reflexivity|]. rewrite firstn_length, skipn_length. lia.
Qed.

Lemma cw_read_slice_eof (bs : list N) n : read_slice bs (N.of_nat (length bs)) n = [].
Proof.
  unfold read_slice. rewrite Nat2N.id, skipn_all. apply firstn_nil.
Qed.

Lemma cw_hinfo_eta hi : set_hi_off hi (hi_off hi + 0) = hi.
Proof. destruct hi as [p m o dd]. unfold set_hi_off. cbn [hi_pos hi_mode hi_off hi_dirty]. rewrite N.add_0_r. reflexivity. Qed.

(* ================================================================== 1. one record changes, the medium does not *)
(* a call that replaces the record of handle h by one with the same directory entry, on the same
   disk and volume table: both views and the directories are the same lists, the handle shows
   the new record *)
Lemma cw_record_step fsz vid s s1 vi v bl rch T h fi f f1 :
  fs_inv_at fsz vid s vi v bl rch T -> fs_inv fsz vid s1 -> PrSeek.resolves s h fi f ->
  s_disk s1 = s_disk s -> s_vols s1 = s_vols s -> s_files s1 = list_set (s_files s) fi f1 ->
  f_entry f1 = f_entry f -> f_id f1 = f_id f ->
  exists a', observes fsz vid s1 a' /\
    ob_mem a' = ob_mem (obs_at s v bl T) /\ ob_disk a' = ob_disk (obs_at s v bl T) /\
    ob_dirs a' = ob_dirs (obs_at s v bl T) /\ handle_set h (hinfo_of f1) (obs_at s v bl T) a'.
Proof.
  intros Hat Hinv1 Hr Hd Hv Hf Ee Eid.
  pose proof (fi_disk _ _ _ _ _ _ _ _ Hat) as D.
  exists (obs_at s1 v bl T). split.
  - apply (observes_intro fsz vid s1 v bl rch T Hinv1).
    + rewrite Hv. exact (fi_single _ _ _ _ _ _ _ _ Hat).
    + rewrite Hd. exact (di_root _ _ _ _ _ _ D).
    + rewrite Hd. exact (di_tree _ _ _ _ _ _ D).
  - cbn [obs_at ob_mem ob_disk ob_dirs ob_handles]. rewrite Hd.
    split; [|split; [reflexivity|split; [reflexivity|]]].
    + exact (mem_view_upd_file s s1 v T fi f f1 Hd (proj2 (proj2 Hr)) Hf Ee).
    + intros k. exact (handles_upd_file s s1 fi f f1 h (fi_fids _ _ _ _ _ _ _ _ Hat) Hr Hf Eid k).
Qed.

(* ================================================================== 2. Read, IoRead *)
(* the run of mgr_read on a handle that names a record *)
Lemma cw_read_run fsz vid s vi v bl rch T h n fi f : fs_inv_at fsz vid s vi v bl rch T ->
  PrSeek.resolves s h fi f ->
  let bs := read_slice (fv_bytes (mem_fv s v f)) (f_offset f) n in
  exists s1 f1, mgr_read h n s = (Ok bs, s1) /\
    s_disk s1 = s_disk s /\ s_vols s1 = s_vols s /\ s_files s1 = list_set (s_files s) fi f1 /\
    f_entry f1 = f_entry f /\ f_id f1 = f_id f /\ f_mode f1 = f_mode f /\ f_dirty f1 = f_dirty f /\
    f_offset f1 = f_offset f + N.of_nat (length bs).
Proof.
  intros Hinv Hr bs.
  destruct (gw_vol_facts _ _ _ _ _ _ _ _ Hinv) as (Hl & Hpre & Hfit & Hspc & Hwf & Hvid & Hnf & Hc & Hvi & L & Hvok).
  destruct (gw_file_facts _ _ _ _ _ _ _ _ h fi f Hinv Hr) as (O & Hfvol).
  pose proof O as [O1 O2 O3 O4 O5 O6 O7 O8 O9].
  pose proof Hr as (_ & Hfind & Hfi).
  assert (Hlen : (N.to_nat (e_size (f_entry f)) <= length (file_bytes (s_disk s) v (fchain (s_disk s) v f)))%nat).
  { rewrite (file_bytes_length _ _ _ Hwf). unfold bytes_per_cluster in O6. clear - O6. lia. }
  destruct (cw_read_slice (file_bytes (s_disk s) v (fchain (s_disk s) v f)) (e_size (f_entry f)) (f_offset f) n O7 Hlen)
    as (Ebs & Elen).
  change (read_slice (firstn (N.to_nat (e_size (f_entry f))) (file_bytes (s_disk s) v (fchain (s_disk s) v f))) (f_offset f) n)
    with bs in Ebs, Elen.
  destruct O5 as [(A1 & (fuel0 & A2) & A3)|(A1 & A2 & A3)].
  - destruct (mgr_read_spec v (s_disk s) (e_cluster (f_entry f)) fuel0 _ Hvok Hspc A2 h n fi vi f s
                Hl Hfind Hfi Hfvol Hvi eq_refl Hnf Hc Hwf eq_refl A3 O7 O6 O8)
      as (s1 & f1 & Hrun & Hd' & Hfiles' & Hoff' & (I1 & I2 & I3 & I4 & I5) & Hcur' & Hc' & Hnf' & Hsbf).
    cbv zeta in Hrun, Hoff'. destruct Hsbf as (S1 & _).
    exists s1, f1. rewrite Ebs. split; [exact Hrun|]. repeat (split; [assumption|]).
    rewrite Hoff', <- Ebs, Elen. reflexivity.
  - rewrite A2 in O6. cbn [length] in O6.
    assert (E0 : f_offset f = e_size (f_entry f)) by (clear - O6 O7; lia).
    assert (Eb : bs = []).
    { rewrite Ebs. replace (N.min n (e_size (f_entry f) - f_offset f)) with 0 by (clear - E0; lia). reflexivity. }
    exists s, f. rewrite Eb. split; [exact (mgr_read_at_eof h s fi f vi n Hr Hfvol E0)|].
    split; [reflexivity|]. split; [reflexivity|]. split; [symmetry; apply PrRw.list_set_same; exact Hfi|].
    repeat (split; [reflexivity|]). cbn [length]. rewrite N.add_0_r. reflexivity.
Qed.

(* Read on a handle that names a record, and on a stale one *)
Lemma cw_read_case fsz vid s r s' a h n :
  fs_inv fsz vid s -> id_fresh s -> step (Read h n) s = (r, s') -> observes fsz vid s a ->
  exists a', observes fsz vid s' a' /\ read_content false h n r a a'.
Proof.
  intros Hinv Hid Hs Ho. pose proof (fs_inv_lock fsz vid s Hinv) as Hl.
  assert (Hinv' : fs_inv fsz vid s').
  { exact (proj1 (proj2 (proj2 (step_ok_Read fsz vid h n s r s' Hinv Hid (conj (conj I I) I) Hs)))). }
  pose proof Ho as (vi & v & bl & rch & T & Hat & ->).
  unfold read_content. cbn [andb obs_at ob_handles ob_mem].
  destruct (file_handle_cases s h Hl) as [(fi & f & Hr)|Hno].
  - destruct (cw_read_run fsz vid s vi v bl rch T h n fi f Hat Hr)
      as (s1 & f1 & Hrun & Hd & Hv & Hf & Ee & Eid & Emd & Edi & Eoff).
    cbn [step] in Hs. rewrite (lift_ok' _ _ _ _ _ Hrun) in Hs. injection Hs as <- <-.
    destruct (cw_record_step fsz vid s s1 vi v bl rch T h fi f f1 Hat Hinv' Hr Hd Hv Hf Ee Eid)
      as (a' & Ho' & M1 & M2 & M3 & M4).
    destruct (handle_view fsz vid s vi v bl rch T Hat h fi f Hr) as (H1 & H2 & _).
    exists a'. split; [exact Ho'|]. rewrite H1. exists (mem_fv s v f). split; [exact H2|].
    cbv zeta. cbn [hinfo_of hi_off]. split; [reflexivity|]. split; [|split; [exact M1|split; [exact M2|exact M3]]].
    intros k. rewrite (M4 k). destruct (k =? h); [|reflexivity]. f_equal.
    unfold hinfo_of, set_hi_off, slot_key. cbn [hi_pos hi_mode hi_off hi_dirty]. rewrite Ee, Emd, Edi, Eoff. reflexivity.
  - destruct (PrHandles.C08_stale_file_handle h s Hl Hno) as (E & _).
    rewrite (E n) in Hs. injection Hs as <- <-. exists (obs_at s v bl T). split; [exact Ho|].
    rewrite (hget_stale s h Hno). split; reflexivity.
Qed.

Theorem content_Read fsz vid h n : step_content fsz vid (Read h n).
Proof. intros s r s' a Hinv Hid _ Hs Ho. cbn [content_rel]. exact (cw_read_case fsz vid s r s' a h n Hinv Hid Hs Ho). Qed.

Theorem content_IoRead fsz vid h n : step_content fsz vid (IoRead h n).
Proof.
  intros s r s' a Hinv Hid _ Hs Ho. cbn [content_rel]. cbn [step] in Hs. unfold io_read in Hs.
  destruct (n =? 0) eqn:En.
  - unfold lift, bind, ret in Hs. injection Hs as <- <-. exists a. split; [exact Ho|].
    unfold read_content. rewrite En. cbn [andb]. split; reflexivity.
  - destruct (cw_read_case fsz vid s r s' a h n Hinv Hid Hs Ho) as (a' & Ho' & Hc).
    exists a'. split; [exact Ho'|]. unfold read_content in *. rewrite En. cbn [andb] in *. exact Hc.
Qed.

(* ================================================================== 3. Write, IoWrite *)
(* ---- what the invariant says about a file node and an open file elsewhere ---- *)
Section CwInv.
  Variables (fsz vid : N) (s : st) (vi : nat) (v : vol) (bl rch : list N) (T : list node).
  Hypothesis Hinv : fs_inv_at fsz vid s vi v bl rch T.
  Let d := s_disk s.
  Let HD := fi_disk _ _ _ _ _ _ _ _ Hinv.
  Let W := di_wf _ _ _ _ _ _ HD.

  Lemma cw_node_chain e ch0 : In (NFile e ch0) (all_nodes T) -> entry_chain d v e ch0.
  Proof.
    intros Hn. destruct (all_nodes_rep d v bl T (di_tree _ _ _ _ _ _ HD) _ Hn) as (t & bl' & Hrep & _).
    apply node_rep_file in Hrep. exact (proj2 (proj2 Hrep)).
  Qed.

  Lemma cw_own_head e ch0 : 2 <= e_cluster e -> In (e_cluster e) (own_head (NFile e ch0)).
  Proof.
    intros H2. cbn [own_head]. replace (2 <=? e_cluster e) with true by (symmetry; apply N.leb_le; exact H2).
    left. reflexivity.
  Qed.

  Lemma cw_node_in_hs e ch0 : In (NFile e ch0) (all_nodes T) -> 2 <= e_cluster e ->
    In (e_cluster e) (heads v T ++ pend_of s v).
  Proof.
    intros Hn H2. apply in_or_app. left. unfold heads. apply in_or_app. right.
    exact (own_head_in T _ _ Hn (cw_own_head e ch0 H2)).
  Qed.

  (* the chain of a file node shares no cluster with the chain of a file that is open on
     another slot *)
  Lemma cw_node_vs_open e ch0 f : In (NFile e ch0) (all_nodes T) -> In f (s_files s) ->
    node_pos (NFile e ch0) <> slot_key f -> disjoint ch0 (fchain d v f).
  Proof.
    intros Hn Hf Hp x X1 X2. destruct (fchain_in s v f x X2) as (H2 & X3).
    destruct (cw_node_chain e ch0 Hn) as [(A1 & fu & A2)|(_ & E0)]; [|rewrite E0 in X1; destruct X1].
    pose proof (cw_own_head e ch0 A1) as Hown.
    assert (X1' : In x (chain_l d v (e_cluster e)))
      by (rewrite (chain_l_at _ _ _ _ (chain_at_any _ _ _ _ _ A2)); exact X1).
    pose proof (wf_l_disj d v _ _ _ x W (cw_node_in_hs e ch0 Hn A1) (ofile_in_hs _ _ _ _ _ _ _ _ Hinv f Hf H2) X1' X3) as E.
    destruct (heads_nodup v T (pend_of s v) (wf_heads _ _ _ W)) as (N1 & N2 & N3 & N4).
    destruct (ofile_head _ _ _ _ _ _ _ _ Hinv f Hf H2) as [(e1 & ch1 & Hn1 & Ec & Eb & Eo)|Hp'].
    - assert (Hown1 : In (e_cluster e) (own_head (NFile e1 ch1))).
      { rewrite E, <- Ec. apply cw_own_head. rewrite Ec. exact H2. }
      pose proof (flat_map_owner own_head _ N1 _ _ _ Hn Hn1 Hown Hown1) as Eq. injection Eq as -> ->.
      apply Hp. unfold node_pos, slot_key. cbn [node_entry]. rewrite Eb, Eo. reflexivity.
    - apply (N4 (e_cluster e)); [exact (own_head_in T _ _ Hn Hown)|].
      rewrite E. exact (pending_in s v f Hf Hp').
  Qed.

  (* the node at the slot of an open file *)
  Lemma cw_open_node f : In f (s_files s) ->
    exists e0 ch0, In (NFile e0 ch0) (all_nodes T) /\ node_pos (NFile e0 ch0) = slot_key f.
  Proof.
    intros Hf. destruct (of_node _ _ _ _ (ofile_of _ _ _ _ _ _ _ _ Hinv f Hf)) as (e0 & ch0 & Hn & Eb & Eo & _).
    exists e0, ch0. split; [exact Hn|]. unfold node_pos, slot_key. cbn [node_entry]. rewrite Eb, Eo. reflexivity.
  Qed.

  Lemma cw_index_of f : In f (s_files s) -> exists j, nth_error (s_files s) j = Some f.
  Proof. apply In_nth_error. Qed.
End CwInv.

(* ---- the observation after mgr_write stored `stored` (Ok: b = true; DiskFull: b = false) ---- *)
Section CwWrite.
  Variables (fsz vid : N) (s : st) (vi : nat) (v : vol) (bl rch : list N) (T : list node).
  Hypothesis Hinv : fs_inv_at fsz vid s vi v bl rch T.
  Variables (h : N) (fi : nat) (f : fileinfo).
  Hypothesis Hr : PrSeek.resolves s h fi f.
  Variables (b : bool) (stored : list N) (s' : st) (f' : fileinfo) (v' : vol) (ch' : list N).
  Hypothesis Hpost : mw_post fsz h s fi f vi v (fchain (s_disk s) v f) b stored s' f' v' ch'.
  Hypothesis HW1 : 2 <= e_cluster (f_entry f) -> fat_wf (s_disk s') v (heads v T ++ pend_of s v).
  Hypothesis HW2 : e_cluster (f_entry f) < 2 ->
    ~ In (e_cluster (f_entry f')) (heads v T ++ pend_of s v) /\
    fat_wf (s_disk s') v (e_cluster (f_entry f') :: heads v T ++ pend_of s v).

  Let d := s_disk s.
  Let d' := s_disk s'.
  Let c' := e_cluster (f_entry f').
  Let p := slot_key f.
  Let T' := map (chain_upd c' ch') T.
  Let Hfi : nth_error (s_files s) fi = Some f := proj2 (proj2 Hr).
  Let Hfin : In f (s_files s) := nth_error_In _ _ Hfi.

  Lemma cw_inv' : fs_inv_at fsz vid s' vi v' bl rch T'.
  Proof. exact (gw_write_post fsz vid s vi v bl rch T Hinv h fi f Hr b stored s' f' v' ch' Hpost HW1 HW2). Qed.

  Lemma cw_geo : geo_eq v v'.
  Proof. destruct (mp_vol _ _ _ _ _ _ _ _ _ _ _ _ _ _ Hpost) as (nf & fc & E). exists nf, fc. exact E. Qed.

  Lemma cw_key' : slot_key f' = p.
  Proof.
    destruct (gw_entry_kept _ _ _ _ _ _ _ _ _ _ _ _ _ Hpost) as ((_ & _ & Eb & Eo & _) & _).
    unfold p, slot_key. rewrite Eb, Eo. reflexivity.
  Qed.

  Lemma cw_c'_ge : 2 <= c'.
  Proof. exact (proj1 (mp_first _ _ _ _ _ _ _ _ _ _ _ _ _ _ Hpost)). Qed.

  (* a file node at another slot: it is not the node of the new chain, and its bytes are kept *)
  Lemma cw_other_node e ch1 : In (NFile e ch1) (all_nodes T) -> node_pos (NFile e ch1) <> p ->
    e_cluster e <> c' /\ file_bytes d' v ch1 = file_bytes d v ch1.
  Proof.
    intros Hn Hp. pose proof (cw_node_vs_open fsz vid s vi v bl rch T Hinv e ch1 f Hn Hfin Hp) as Hdis.
    destruct (cw_node_chain fsz vid s vi v bl rch T Hinv e ch1 Hn) as [(A1 & fu & A2)|(A1 & E0)].
    - split.
      + intros E. destruct (N.lt_ge_cases (e_cluster (f_entry f)) 2) as [Hlt|Hge].
        * apply (proj1 (HW2 Hlt)). fold c'. rewrite <- E. exact (cw_node_in_hs s v T e ch1 Hn A1).
        * pose proof (proj2 (mp_first _ _ _ _ _ _ _ _ _ _ _ _ _ _ Hpost) Hge) as Ec. fold c' in Ec.
          destruct (chain_at_head _ _ _ _ (chain_at_any _ _ _ _ _ A2)) as (r0 & Er).
          apply (Hdis (e_cluster e)); [rewrite Er; left; reflexivity|].
          unfold fchain. replace (e_cluster (f_entry f) <? 2) with false by (symmetry; apply N.ltb_ge; exact Hge).
          rewrite <- Ec, <- E. rewrite (chain_l_at _ _ _ _ (chain_at_any _ _ _ _ _ A2)), Er. left. reflexivity.
      + exact (proj2 (mp_others _ _ _ _ _ _ _ _ _ _ _ _ _ _ Hpost (e_cluster e) fu ch1 A2 Hdis)).
    - split; [pose proof cw_c'_ge; intros E; rewrite E in A1; clear - A1 H; lia|]. rewrite E0. reflexivity.
  Qed.

  (* the record of a file open on another slot shows the same *)
  Lemma cw_other_open g : In g (s_files s) -> slot_key g <> p -> mem_fv s' v' g = mem_fv s v g.
  Proof.
    intros Hg Hk. destruct (In_nth_error _ _ Hg) as (j & Hj).
    assert (Hne : j <> fi) by (intros ->; rewrite Hfi in Hj; injection Hj as <-; apply Hk; reflexivity).
    rewrite (cw_mem_fv_geo s' v v' g cw_geo). unfold mem_fv. fold d d'.
    destruct (of_chain _ _ _ _ (ofile_of _ _ _ _ _ _ _ _ Hinv g Hg)) as [(A1 & (fu & A2) & _)|(A1 & A2 & _)].
    - fold d in A2.
      destruct (mp_others _ _ _ _ _ _ _ _ _ _ _ _ _ _ Hpost _ fu _ A2
                  (file_chains_apart _ _ _ _ _ _ _ _ Hinv j fi g f Hne Hj Hfi)) as (A2' & Eb).
      fold d' in A2', Eb.
      assert (Ec : fchain d' v g = fchain d v g).
      { unfold fchain at 1. replace (e_cluster (f_entry g) <? 2) with false by (symmetry; apply N.ltb_ge; exact A1).
        exact (chain_l_at _ _ _ _ (chain_at_any _ _ _ _ _ A2')). }
      rewrite Ec, Eb. reflexivity.
    - assert (E1 : fchain d' v g = []) by (unfold fchain; apply N.ltb_lt in A1; rewrite A1; reflexivity).
      fold d in A2. rewrite E1, A2. reflexivity.
  Qed.

  Lemma cw_files' : s_files s' = list_set (s_files s) fi f'.
  Proof. exact (mp_files _ _ _ _ _ _ _ _ _ _ _ _ _ _ Hpost). Qed.

  Lemma cw_f'_in : In f' (s_files s').
  Proof. rewrite cw_files'. exact (nth_error_In _ _ (PrRw.nth_error_list_set_same _ _ _ _ Hfi)). Qed.

  Lemma cw_nodes' : all_nodes T' = map (chain_upd c' ch') (all_nodes T).
  Proof. apply cu_all_nodes. Qed.

  Lemma cw_cu_kind n : node_pos (chain_upd c' ch' n) = node_pos n /\ node_is_dir (chain_upd c' ch' n) = node_is_dir n.
  Proof.
    split; [apply cu_pos|]. destruct n as [e ch0|e ch0 k]; cbn [chain_upd]; [destruct (e_cluster e =? c')|]; reflexivity.
  Qed.

  (* every other position of both views *)
  Lemma cw_others q : q <> p ->
    vget q (mem_view s' v' T') = vget q (mem_view s v T) /\
    vget q (disk_view d' v' T') = vget q (disk_view d v T).
  Proof.
    intros Hq.
    assert (Hdisk : forall e ch1, In (NFile e ch1) (all_nodes T) -> node_pos (NFile e ch1) = q ->
              disk_fv d' v' (chain_upd c' ch' (NFile e ch1)) = disk_fv d v (NFile e ch1)).
    { intros e ch1 Hn Ep. destruct (cw_other_node e ch1 Hn ltac:(rewrite Ep; exact Hq)) as (Ec & Eb).
      cbn [chain_upd]. replace (e_cluster e =? c') with false by (symmetry; apply N.eqb_neq; exact Ec).
      unfold disk_fv. cbn [node_entry node_chain]. rewrite (file_bytes_geo d' v v' _ cw_geo), Eb. reflexivity. }
    split.
    - unfold mem_view. rewrite cw_nodes'. apply cw_vget_view_map; [intros n _; apply cw_cu_kind|].
      intros e ch1 Hn Ep. unfold mem_item. rewrite (proj1 (cw_cu_kind _)), Ep.
      unfold open_at. rewrite cw_files'.
      rewrite (cw_find_list_set_key slot_key (s_files s) fi f f' q Hfi cw_key' ltac:(intros E; apply Hq; symmetry; exact E)).
      destruct (find (fun g => pos_eqb (slot_key g) q) (s_files s)) as [g|] eqn:Ef.
      + destruct (find_some _ _ Ef) as (Hg & Hk). apply pos_eqb_eq in Hk.
        apply cw_other_open; [exact Hg|rewrite Hk; exact Hq].
      + fold d d'. exact (Hdisk e ch1 Hn Ep).
    - unfold disk_view. rewrite cw_nodes'. apply cw_vget_view_map; [intros n _; apply cw_cu_kind|exact Hdisk].
  Qed.

  (* the directories: the same raw slots *)
  Lemma cw_dirs : dir_view d' v' bl T' = dir_view d v bl T.
  Proof.
    rewrite (dir_view_geo d' v v' bl T' cw_geo). unfold dir_view.
    pose proof (gw_dir_blocks_kept fsz vid s vi v bl rch T Hinv h fi f Hr b stored s' f' v' ch' Hpost) as Hk.
    fold d d' in Hk. f_equal.
    - f_equal. apply slots_of_ext. intros j Hj. apply Hk. unfold tree_dir_blocks. apply in_or_app. left. exact Hj.
    - rewrite cw_nodes'. rewrite (cw_dir_items_map (chain_upd c' ch') d d' v (fun x => x)); [apply cw_map_pair_id|].
      intros n Hn. destruct n as [e ch1|e ch1 k]; [exact (proj2 (cw_cu_kind _))|].
      split; [eexists; reflexivity|]. apply slots_of_ext. intros j Hj. apply Hk.
      apply gw_tree_dir_blocks_iff. right. exists e, ch1, k. split; assumption.
  Qed.

  (* the written file itself *)
  Lemma cw_target : vget p (mem_view s' v' T') = Some (mem_fv s' v' f') /\
    exists dfv dfv', vget p (disk_view d v T) = Some dfv /\ vget p (disk_view d' v' T') = Some dfv' /\ meta_same dfv dfv'.
  Proof.
    split.
    - rewrite <- cw_key'. exact (vget_mem_open fsz vid s' vi v' bl rch T' cw_inv' f' cw_f'_in).
    - destruct (cw_open_node fsz vid s vi v bl rch T Hinv f Hfin) as (e0 & ch0 & Hn0 & Ep0). fold p in Ep0.
      exists (disk_fv d v (NFile e0 ch0)).
      assert (Hn' : In (chain_upd c' ch' (NFile e0 ch0)) (all_nodes T')) by (rewrite cw_nodes'; apply in_map; exact Hn0).
      assert (Ex : exists chx, chain_upd c' ch' (NFile e0 ch0) = NFile e0 chx)
        by (cbn [chain_upd]; destruct (e_cluster e0 =? c'); eexists; reflexivity).
      destruct Ex as (chx & Ex). rewrite Ex in Hn'.
      exists (disk_fv d' v' (NFile e0 chx)). split; [|split].
      + rewrite <- Ep0. exact (vget_disk_node fsz vid s vi v bl rch T Hinv e0 ch0 Hn0).
      + replace p with (node_pos (NFile e0 chx)) by (rewrite <- Ep0; reflexivity).
        exact (vget_disk_node fsz vid s' vi v' bl rch T' cw_inv' e0 chx Hn').
      + unfold meta_same, disk_fv, fv_of. cbn [node_entry fv_name fv_attr fv_ctime fv_mtime]. repeat split.
  Qed.

  (* what the API shows of the written file *)
  Lemma cw_target_fv :
    mem_fv s' v' f' =
    let fv := mem_fv s v f in
    let fv1 := set_fv_bytes fv (spec_write (fv_bytes fv) (f_offset f) stored) in
    if b then set_fv_attr (set_fv_mtime fv1 (stamp_of (s_clock s))) (N.lor (fv_attr fv) A_ARCHIVE) else fv1.
  Proof.
    pose proof Hpost as [[_ _ _ _ _ _ _ _ Hchain' _ _ _] (F1 & _) _ _ _ _ Hbytes _ _ _ Hentry _ _ _ _ _].
    assert (Hfc : fchain d' v f' = ch').
    { destruct Hchain' as [(A1 & (fu & A2) & _)|(A1 & _)]; [|exfalso; clear - A1 F1; lia].
      rewrite <- (cw_fchain_geo d' v v' f' cw_geo).
      unfold fchain. replace (e_cluster (f_entry f') <? 2) with false by (symmetry; apply N.ltb_ge; exact F1).
      exact (chain_l_at _ _ _ _ (chain_at_any _ _ _ _ _ A2)). }
    rewrite (cw_mem_fv_geo s' v v' f' cw_geo). unfold mem_fv at 1. fold d'. rewrite Hfc.
    unfold fv_of at 1. fold d' d in Hbytes. rewrite Hbytes. cbv zeta in Hentry. cbv zeta.
    assert (Efields : e_name (f_entry f') = e_name (f_entry f) /\ e_ctime (f_entry f') = e_ctime (f_entry f) /\
              e_attr (f_entry f') = (if b then N.lor (e_attr (f_entry f)) A_ARCHIVE else e_attr (f_entry f)) /\
              e_mtime (f_entry f') = (if b then clock_ts (s_clock s) else e_mtime (f_entry f))).
    { destruct b; rewrite Hentry; unfold stamp; repeat split. }
    destruct Efields as (E1 & E2 & E3 & E4). rewrite E1, E2, E3, E4.
    unfold mem_fv, fv_of, set_fv_attr, set_fv_mtime, set_fv_bytes, stamp_of.
    cbn [fv_name fv_attr fv_ctime fv_mtime fv_bytes]. fold d. destruct b; reflexivity.
  Qed.

  Lemma cw_handles k : hget k (handles_of s') = if k =? h then Some (hinfo_of f') else hget k (handles_of s).
  Proof.
    exact (handles_upd_file s s' fi f f' h (fi_fids _ _ _ _ _ _ _ _ Hinv) Hr cw_files'
             (proj1 (mp_id _ _ _ _ _ _ _ _ _ _ _ _ _ _ Hpost)) k).
  Qed.

  Lemma cw_hinfo' : hinfo_of f' = mk_hinfo p (f_mode f) (f_offset f + N.of_nat (length stored)) true.
  Proof.
    destruct (mp_id _ _ _ _ _ _ _ _ _ _ _ _ _ _ Hpost) as (_ & _ & I3 & I4).
    unfold hinfo_of. rewrite cw_key', I3, I4, (mp_off _ _ _ _ _ _ _ _ _ _ _ _ _ _ Hpost). reflexivity.
  Qed.

  (* all of it *)
  Lemma cw_write_obs :
    exists a', observes fsz vid s' a' /\
      let a := obs_at s v bl T in
      exists dfv dfv', vget p (ob_mem a) = Some (mem_fv s v f) /\
        vget p (ob_disk a) = Some dfv /\ vget p (ob_disk a') = Some dfv' /\ meta_same dfv dfv' /\
        others_same p a a' /\ dirs_same a a' /\
        vget p (ob_mem a') =
          Some (let fv := mem_fv s v f in
                let fv1 := set_fv_bytes fv (spec_write (fv_bytes fv) (f_offset f) stored) in
                if b then set_fv_attr (set_fv_mtime fv1 (stamp_of (s_clock s))) (N.lor (fv_attr fv) A_ARCHIVE) else fv1) /\
        handle_set h (mk_hinfo p (f_mode f) (f_offset f + N.of_nat (length stored)) true) a a'.
  Proof.
    exists (obs_at s' v' bl T'). split; [exact (observes_at _ _ _ _ _ _ _ _ cw_inv')|].
    cbv zeta. cbn [obs_at ob_mem ob_disk ob_dirs ob_handles]. fold d d'.
    destruct cw_target as (Hm & dfv & dfv' & D1 & D2 & D3). exists dfv, dfv'.
    split; [exact (vget_mem_open fsz vid s vi v bl rch T Hinv f Hfin)|].
    split; [exact D1|]. split; [exact D2|]. split; [exact D3|].
    split; [intros q Hq; exact (cw_others q Hq)|].
    split; [intros c; exact (f_equal (dget c) cw_dirs)|].
    split; [rewrite Hm, cw_target_fv; reflexivity|].
    intros k. rewrite <- cw_hinfo'. exact (cw_handles k).
  Qed.
End CwWrite.

(* ---- mgr_write, every outcome ---- *)
(* write_content below the look-up of the handle, in terms of the outcome of mgr_write *)
Definition cw_write_rel (h : N) (hi : hinfo) (data : list N) (clock : N) (o : outcome unit) (a a' : obs) : Prop :=
  if negb (writable (hi_mode hi)) then o = Err ReadOnlyErr /\ same_obs a a' else
  let p := hi_pos hi in
  exists fv dfv dfv', vget p (ob_mem a) = Some fv /\
    vget p (ob_disk a) = Some dfv /\ vget p (ob_disk a') = Some dfv' /\ meta_same dfv dfv' /\
    others_same p a a' /\ dirs_same a a' /\
    let clip := clip_write (hi_off hi) data in
    ((o = Ok tt /\
      vget p (ob_mem a') =
        Some (set_fv_attr (set_fv_mtime (set_fv_bytes fv (spec_write (fv_bytes fv) (hi_off hi) clip))
                                        (stamp_of clock))
                          (N.lor (fv_attr fv) A_ARCHIVE)) /\
      handle_set h (set_hi_dirty (set_hi_off hi (hi_off hi + N.of_nat (length clip))) true) a a')
     \/
     (o = Err DiskFull /\ exists k, (k < length clip)%nat /\
      vget p (ob_mem a') = Some (set_fv_bytes fv (spec_write (fv_bytes fv) (hi_off hi) (firstn k clip))) /\
      handle_set h (set_hi_dirty (set_hi_off hi (hi_off hi + N.of_nat k)) true) a a')
     \/
     (o = Err NotEnoughSpace /\ fv_bytes fv = [] /\
      vget p (ob_mem a') = Some fv /\ handle_set h (set_hi_dirty hi true) a a')).

Definition cw_result (io : bool) (data : list N) (o : outcome unit) : outcome res :=
  match o with Ok _ => Ok (write_result io data) | Err e => Err e | Panic => Panic | OutOfFuel => OutOfFuel end.

Lemma cw_rel_content io h hi data clock o a a' :
  hget h (ob_handles a) = Some hi -> (io = true -> data <> []) ->
  cw_write_rel h hi data clock o a a' -> write_content io h data clock (cw_result io data o) a a'.
Proof.
  intros Hh Hio Hrel.
  assert (G : match hget h (ob_handles a) with
              | None => cw_result io data o = Err BadHandle /\ same_obs a a'
              | Some hi =>
                  if negb (writable (hi_mode hi)) then cw_result io data o = Err ReadOnlyErr /\ same_obs a a' else
                  let p := hi_pos hi in
                  exists fv dfv dfv', vget p (ob_mem a) = Some fv /\
                    vget p (ob_disk a) = Some dfv /\ vget p (ob_disk a') = Some dfv' /\ meta_same dfv dfv' /\
                    others_same p a a' /\ dirs_same a a' /\
                    let clip := clip_write (hi_off hi) data in
                    ((cw_result io data o = Ok (write_result io data) /\
                      vget p (ob_mem a') =
                        Some (set_fv_attr (set_fv_mtime (set_fv_bytes fv (spec_write (fv_bytes fv) (hi_off hi) clip))
                                                        (stamp_of clock))
                                          (N.lor (fv_attr fv) A_ARCHIVE)) /\
                      handle_set h (set_hi_dirty (set_hi_off hi (hi_off hi + N.of_nat (length clip))) true) a a')
                     \/
                     (cw_result io data o = Err DiskFull /\ exists k, (k < length clip)%nat /\
                      vget p (ob_mem a') = Some (set_fv_bytes fv (spec_write (fv_bytes fv) (hi_off hi) (firstn k clip))) /\
                      handle_set h (set_hi_dirty (set_hi_off hi (hi_off hi + N.of_nat k)) true) a a')
                     \/
                     (cw_result io data o = Err NotEnoughSpace /\ fv_bytes fv = [] /\
                      vget p (ob_mem a') = Some fv /\ handle_set h (set_hi_dirty hi true) a a'))
              end).
  { rewrite Hh. unfold cw_write_rel in Hrel. destruct (negb (writable (hi_mode hi))).
    - destruct Hrel as (-> & Hsame). split; [reflexivity|exact Hsame].
    - cbv zeta in Hrel. cbv zeta. destruct Hrel as (fv & dfv & dfv' & H1 & H2 & H3 & H4 & H5 & H6 & Hc).
      exists fv, dfv, dfv'. repeat (split; [assumption|]).
      destruct Hc as [(-> & A)|[(-> & A)|(-> & A)]]; [left|right; left|right; right]; (split; [reflexivity|exact A]). }
  unfold write_content. destruct io; [|exact G]. destruct data as [|x t]; [exfalso; exact (Hio eq_refl eq_refl)|exact G].
Qed.

Lemma cw_mgr_write fsz vid s vi v bl rch T h data fi f o s' :
  fs_inv_at fsz vid s vi v bl rch T -> PrSeek.resolves s h fi f -> mgr_write h data s = (o, s') ->
  exists a', observes fsz vid s' a' /\ cw_write_rel h (hinfo_of f) data (s_clock s) o (obs_at s v bl T) a'.
Proof.
  intros Hat Hr Hrun.
  assert (Hinv : fs_inv fsz vid s) by (exists vi, v, bl, rch, T; exact Hat).
  destruct (gw_mgr_write fsz vid s h data fi f Hinv Hr o s' Hrun) as (_ & _ & Hinv' & _).
  pose proof (gw_mw_pre fsz vid s vi v bl rch T Hat h fi f Hr) as Hmw.
  pose proof Hr as (_ & _ & Hfi). pose proof (nth_error_In _ _ Hfi) as Hfin.
  pose proof (ofile_of _ _ _ _ _ _ _ _ Hat f Hfin) as O.
  unfold cw_write_rel. cbn [hinfo_of hi_mode hi_pos hi_off]. unfold writable. rewrite negb_involutive.
  destruct (mode_eqb (f_mode f) ReadOnly) eqn:Hmode.
  - pose proof Hmw as [Hl Hh _ Hvol _ _ _ _ _ _ _ _].
    rewrite (mgr_write_read_only h data s fi f vi Hl Hh Hfi Hvol Hmode) in Hrun. injection Hrun as <- <-.
    exists (obs_at s v bl T). split; [exact (observes_at _ _ _ _ _ _ _ _ Hat)|]. split; reflexivity.
  - destruct (mgr_write_spec fsz h data s fi f vi v _ Hmw Hmode) as (o2 & s2 & Hrun2 & Hcases).
    rewrite Hrun in Hrun2. injection Hrun2 as <- <-.
    change (firstn (N.to_nat (N.min (N.of_nat (length data)) (MAX_FILE_SIZE - f_offset f))) data)
      with (clip_write (f_offset f) data) in Hcases.
    destruct (gw_mgr_write_wf fsz h data s fi f vi v _ (heads v T ++ pend_of s v) o s' Hmw Hmode
                (di_wf _ _ _ _ _ _ (fi_disk _ _ _ _ _ _ _ _ Hat)) (ofile_in_hs _ _ _ _ _ _ _ _ Hat f Hfin) Hrun)
      as (HW1 & HW2).
    assert (HW2' : forall b stored f' v' ch',
              mw_post fsz h s fi f vi v (fchain (s_disk s) v f) b stored s' f' v' ch' -> o <> Err NotEnoughSpace ->
              e_cluster (f_entry f) < 2 ->
                ~ In (e_cluster (f_entry f')) (heads v T ++ pend_of s v) /\
                fat_wf (s_disk s') v (e_cluster (f_entry f') :: heads v T ++ pend_of s v)).
    { intros b stored f' v' ch' P Hno Hlt. destruct (HW2 Hlt) as [E|(c & f'' & Hni & Wc & Hf'' & Ec)]; [contradiction|].
      rewrite (mp_files _ _ _ _ _ _ _ _ _ _ _ _ _ _ P) in Hf''.
      rewrite (PrRw.nth_error_list_set_same _ _ _ _ Hfi) in Hf''. injection Hf'' as <-. rewrite Ec. split; assumption. }
    cbv zeta.
    destruct Hcases as [(-> & f' & v' & ch' & P)|[(-> & f' & v' & ch' & k & Hk & P & _)|(-> & Hc0 & _ & Hd & Hfiles & Hvols & Htab & Hpre')]].
    + destruct (cw_write_obs fsz vid s vi v bl rch T Hat h fi f Hr true _ s' f' v' ch' P HW1
                  (HW2' _ _ _ _ _ P ltac:(discriminate))) as (a' & Ho' & dfv & dfv' & H1 & H2 & H3 & H4 & H5 & H6 & H7 & H8).
      exists a'. split; [exact Ho'|]. exists (mem_fv s v f), dfv, dfv'. repeat (split; [assumption|]).
      left. split; [reflexivity|]. split; [exact H7|exact H8].
    + assert (Hkl : length (firstn k (clip_write (f_offset f) data)) = k) by (rewrite firstn_length; lia).
      destruct (cw_write_obs fsz vid s vi v bl rch T Hat h fi f Hr false _ s' f' v' ch' P HW1
                  (HW2' _ _ _ _ _ P ltac:(discriminate))) as (a' & Ho' & dfv & dfv' & H1 & H2 & H3 & H4 & H5 & H6 & H7 & H8).
      exists a'. split; [exact Ho'|]. exists (mem_fv s v f), dfv, dfv'. repeat (split; [assumption|]).
      right. left. split; [reflexivity|]. exists k. split; [exact Hk|]. split; [exact H7|].
      rewrite Hkl in H8. exact H8.
    + destruct (cw_record_step fsz vid s s' vi v bl rch T h fi f (set_f_dirty f true) Hat Hinv' Hr Hd Hvols Hfiles eq_refl eq_refl)
        as (a' & Ho' & M1 & M2 & M3 & M4).
      destruct (vget_disk_open fsz vid s vi v bl rch T Hat f Hfin) as (e0 & ch0 & _ & _ & _ & Hdv).
      exists a'. split; [exact Ho'|]. exists (mem_fv s v f), (disk_fv (s_disk s) v (NFile e0 ch0)), (disk_fv (s_disk s) v (NFile e0 ch0)).
      split; [exact (vget_mem_open fsz vid s vi v bl rch T Hat f Hfin)|].
      split; [exact Hdv|]. split; [rewrite M2; exact Hdv|]. split; [repeat split|].
      split; [intros q _; rewrite M1, M2; split; reflexivity|]. split; [intros c; rewrite M3; reflexivity|].
      right. right. split; [reflexivity|]. split.
      * unfold mem_fv, fv_of, fchain. cbn [fv_bytes]. apply N.ltb_lt in Hc0. rewrite Hc0. apply firstn_nil.
      * split; [rewrite M1; exact (vget_mem_open fsz vid s vi v bl rch T Hat f Hfin)|exact M4].
Qed.

(* Write / IoWrite (non-empty) on any handle *)
Lemma cw_write_case fsz vid s vi v bl rch T io h data o s' :
  fs_inv_at fsz vid s vi v bl rch T -> (io = true -> data <> []) -> mgr_write h data s = (o, s') ->
  exists a', observes fsz vid s' a' /\ write_content io h data (s_clock s) (cw_result io data o) (obs_at s v bl T) a'.
Proof.
  intros Hat Hio Hrun. pose proof (proj1 (fi_vol _ _ _ _ _ _ _ _ Hat)) as Hl.
  destruct (file_handle_cases s h Hl) as [(fi & f & Hr)|Hno].
  - destruct (cw_mgr_write fsz vid s vi v bl rch T h data fi f o s' Hat Hr Hrun) as (a' & Ho' & Hrel).
    exists a'. split; [exact Ho'|]. apply (cw_rel_content io h (hinfo_of f)); [|exact Hio|exact Hrel].
    exact (hget_resolves s h fi f Hr).
  - assert (E : mgr_write h data s = (Err BadHandle, s)).
    { unfold mgr_write. rewrite (PrWrite.locked_free' _ _ Hl). apply bind_err. apply PrHandles.get_file_by_id_stale. exact Hno. }
    rewrite E in Hrun. injection Hrun as <- <-. exists (obs_at s v bl T). split; [exact (observes_at _ _ _ _ _ _ _ _ Hat)|].
    unfold write_content. cbn [obs_at ob_handles cw_result]. rewrite (hget_stale s h Hno).
    destruct io; [destruct data; [exfalso; exact (Hio eq_refl eq_refl)|]|]; split; reflexivity.
Qed.

Theorem content_Write fsz vid h data : step_content fsz vid (Write h data).
Proof.
  intros s r s' a Hinv _ _ Hs Ho. cbn [content_rel]. destruct Ho as (vi & v & bl & rch & T & Hat & ->).
  cbn [step] in Hs. unfold lift, bind in Hs. destruct (mgr_write h data s) as [o s1] eqn:Hrun.
  destruct (cw_write_case fsz vid s vi v bl rch T false h data o s1 Hat ltac:(discriminate) Hrun) as (a' & Ho' & Hc).
  assert (E : r = cw_result false data o /\ s' = s1).
  { destruct o as [u|e| |]; injection Hs as <- <-; split; reflexivity. }
  destruct E as (-> & ->). exists a'. split; [exact Ho'|exact Hc].
Qed.

Theorem content_IoWrite fsz vid h data : step_content fsz vid (IoWrite h data).
Proof.
  intros s r s' a Hinv _ _ Hs Ho. cbn [content_rel]. cbn [step] in Hs. unfold io_write in Hs.
  destruct data as [|x t] eqn:Edata.
  { unfold lift, bind, ret in Hs. injection Hs as <- <-. exists a. split; [exact Ho|]. split; reflexivity. }
  rewrite <- Edata in *. assert (Hne : data <> []) by (rewrite Edata; discriminate). clear x t Edata.
  destruct Ho as (vi & v & bl & rch & T & Hat & ->).
  unfold lift, bind in Hs. destruct (mgr_write h data s) as [o s1] eqn:Hrun.
  destruct (cw_write_case fsz vid s vi v bl rch T true h data o s1 Hat (fun _ => Hne) Hrun) as (a' & Ho' & Hc).
  assert (E : r = cw_result true data o /\ s' = s1).
  { destruct o as [u|e| |]; injection Hs as <- <-; split; reflexivity. }
  destruct E as (-> & ->). exists a'. split; [exact Ho'|exact Hc].
Qed.

(* ================================================================== 4. Flush, CloseFile *)
(* ---- directory blocks lie apart from the clusters of files ---- *)
Lemma cw_In_tslots_intro b blk : forall n i j, i <= j -> j < i + N.of_nat n ->
  In (blk, j * 32, slot b j) (tslots_from n b blk i).
Proof.
  induction n as [|n IH]; intros i j H1 H2; [lia|]. cbn [tslots_from].
  destruct (N.eq_dec i j) as [->|Hne]; [left; reflexivity|right]. apply IH; lia.
Qed.

Lemma cw_slot_listed d bld blk i : In blk bld -> i < 16 -> In (blk, i * 32) (map fst (slots_of d bld)).
Proof.
  intros Hb Hi. apply in_map_iff. exists (blk, i * 32, slot (disk_get d blk) i). split; [reflexivity|].
  unfold slots_of. apply in_flat_map. exists blk. split; [exact Hb|]. unfold block_slots.
  apply cw_In_tslots_intro; [lia|change (N.of_nat 16) with 16; lia].
Qed.

Lemma cw_slots_block d bld t : In t (slots_of d bld) -> In (fst (fst t)) bld.
Proof.
  intros H. unfold slots_of in H. apply in_flat_map in H. destruct H as (b0 & Hb & Ht).
  unfold block_slots in Ht. apply In_tslots_from in Ht. destruct Ht as (j & _ & _ & ->). exact Hb.
Qed.

Section CwApart.
  Variables (fsz vid : N) (s : st) (vi : nat) (v : vol) (bl rch : list N) (T : list node).
  Hypothesis Hinv : fs_inv_at fsz vid s vi v bl rch T.
  Let d := s_disk s.
  Let HD := fi_disk _ _ _ _ _ _ _ _ Hinv.
  Let W := di_wf _ _ _ _ _ _ HD.

  Definition cw_dir_head (h0 : N) : Prop :=
    In h0 (root_heads v) \/ (exists e ch kids, In (NDir e ch kids) (all_nodes T) /\ e_cluster e = h0).

  (* a chain that shares no cluster with any directory chain holds no directory block *)
  Lemma cw_dir_block_apart j ch1 : In j (tree_dir_blocks v bl T) -> Forall (fun c => 2 <= c) ch1 ->
    (forall h0, cw_dir_head h0 -> disjoint (chain_l d v h0) ch1) -> ~ In j (data_blocks v ch1).
  Proof.
    intros Hj R Hdis Hin. rewrite Forall_forall in R. unfold data_blocks in Hin. apply in_flat_map in Hin.
    destruct Hin as (y & Hy & Hjy).
    assert (K : forall h0 dch, cw_dir_head h0 -> chain_at d v h0 dch -> In j (data_blocks v dch) -> False).
    { intros h0 dch Hh Hch Hjd. unfold data_blocks in Hjd. apply in_flat_map in Hjd. destruct Hjd as (c0 & Hc0 & Hjc).
      destruct (chain_at_mem d v h0 dch c0 Hch Hc0) as (C1 & _).
      destruct (N.eq_dec c0 y) as [->|Hne].
      - apply (Hdis h0 Hh y); [rewrite (chain_l_at _ _ _ _ Hch); exact Hc0|exact Hy].
      - exact (cluster_blocks_apart v c0 y j j Hne C1 (R y Hy) Hjc Hjy eq_refl). }
    apply gw_tree_dir_blocks_iff in Hj. destruct Hj as [Hj|(e & dch & kids & Hn & Hj)].
    - pose proof (di_root _ _ _ _ _ _ HD) as Hroot. unfold root_dir in Hroot. destruct (v_fat32 v) eqn:E32.
      + destruct Hroot as (Hch & Ebl). rewrite Ebl in Hj.
        apply (K (v_root_cluster v) rch); [left; unfold root_heads; rewrite E32; left; reflexivity|exact Hch|exact Hj].
      + destruct Hroot as (_ & Ebl). rewrite Ebl in Hj.
        exact (root16_no_cluster _ _ _ _ _ _ _ _ Hinv j y E32 Hj (R y Hy) Hjy).
    - destruct (dir_node_chain _ _ _ _ _ _ HD e dch kids Hn) as (Hch & _).
      apply (K (e_cluster e) dch); [right; exists e, dch, kids; split; [exact Hn|reflexivity]|exact Hch|exact Hj].
  Qed.

  (* the chain of an open file *)
  Lemma cw_open_chain_range g : In g (s_files s) -> Forall (fun c => 2 <= c) (fchain d v g).
  Proof.
    intros Hg. destruct (of_chain _ _ _ _ (ofile_of _ _ _ _ _ _ _ _ Hinv g Hg)) as [(_ & (fu & A2) & _)|(_ & A2 & _)].
    - pose proof (chain_of_range _ _ _ _ _ A2) as R. rewrite Forall_forall in *. intros c Hc. exact (proj1 (R c Hc)).
    - fold d in A2. rewrite A2. constructor.
  Qed.

  Lemma cw_open_chain_blocks g j : In g (s_files s) -> In j (tree_dir_blocks v bl T) -> ~ In j (data_blocks v (fchain d v g)).
  Proof.
    intros Hg Hj. apply (cw_dir_block_apart j _ Hj (cw_open_chain_range g Hg)).
    intros h0 Hh. exact (dir_chain_apart _ _ _ _ _ _ _ _ Hinv h0 g Hh Hg).
  Qed.

  (* the chain of a file node *)
  Lemma cw_node_chain_range e ch1 : In (NFile e ch1) (all_nodes T) -> Forall (fun c => 2 <= c) ch1.
  Proof.
    intros Hn. destruct (cw_node_chain fsz vid s vi v bl rch T Hinv e ch1 Hn) as [(_ & fu & A2)|(_ & ->)]; [|constructor].
    pose proof (chain_of_range _ _ _ _ _ A2) as R. rewrite Forall_forall in *. intros c Hc. exact (proj1 (R c Hc)).
  Qed.

  Lemma cw_node_chain_blocks e ch1 j : In (NFile e ch1) (all_nodes T) -> In j (tree_dir_blocks v bl T) ->
    ~ In j (data_blocks v ch1).
  Proof.
    intros Hn Hj. apply (cw_dir_block_apart j _ Hj (cw_node_chain_range e ch1 Hn)).
    intros h0 Hh x X1 X2.
    destruct (cw_node_chain fsz vid s vi v bl rch T Hinv e ch1 Hn) as [(A1 & fu & A2)|(_ & E0)]; [|rewrite E0 in X2; destruct X2].
    pose proof (cw_own_head e ch1 A1) as Hown.
    assert (X2' : In x (chain_l d v (e_cluster e)))
      by (unfold d; rewrite (chain_l_at _ _ _ _ (chain_at_any _ _ _ _ _ A2)); exact X2).
    destruct (heads_nodup v T (pend_of s v) (wf_heads _ _ _ W)) as (N1 & N2 & N3 & N4).
    assert (Hhs : In h0 (heads v T ++ pend_of s v)).
    { apply in_or_app. left. unfold heads. apply in_or_app.
      destruct Hh as [Hh|(e2 & ch2 & k2 & Hn2 & <-)]; [left; exact Hh|right].
      apply (own_head_in T _ _ Hn2). left. reflexivity. }
    pose proof (wf_l_disj d v _ _ _ x W Hhs (cw_node_in_hs s v T e ch1 Hn A1) X1 X2') as E.
    destruct Hh as [Hh|(e2 & ch2 & k2 & Hn2 & E2)].
    - apply (proj1 (N3 h0 Hh)). rewrite E. exact (own_head_in T _ _ Hn Hown).
    - assert (Hown2 : In (e_cluster e) (own_head (NDir e2 ch2 k2))) by (cbn [own_head]; left; congruence).
      pose proof (flat_map_owner own_head _ N1 _ _ _ Hn2 Hn Hown2 Hown) as Eq. discriminate Eq.
  Qed.

  (* the directory that holds a directory block *)
  Lemma cw_block_dir j : In j (tree_dir_blocks v bl T) -> exists dc bld chd, is_dir_of v bl rch T dc bld chd /\ In j bld.
  Proof.
    intros Hj. apply gw_tree_dir_blocks_iff in Hj. destruct Hj as [Hj|(e & dch & kids & Hn & Hj)].
    - exists CL_ROOT, bl, rch. split; [left; repeat split|exact Hj].
    - exists (e_cluster e), (data_blocks v dch), dch. split; [right; exists e, kids; repeat split; exact Hn|exact Hj].
  Qed.

  Lemma cw_dir_blocks_in dc bld chd j : is_dir_of v bl rch T dc bld chd -> In j bld -> In j (tree_dir_blocks v bl T).
  Proof.
    intros [(_ & -> & _)|(e & kids & Hn & _ & ->)] Hj; apply gw_tree_dir_blocks_iff; [left; exact Hj|right].
    exists e, chd, kids. split; assumption.
  Qed.
End CwApart.

(* what a flush does to the observation (p = the slot of the file, dirty = the flag of its record) *)
Definition cw_flush_rel (dirty : bool) (p : spos) (a a1 : obs) : Prop :=
  others_same p a a1 /\ ob_handles a1 = ob_handles a /\
  (if dirty then vget p (ob_disk a1) = vget p (ob_mem a) /\ vget p (ob_mem a) <> None /\ dirs_slot false p a a1
   else vget p (ob_disk a1) = vget p (ob_disk a) /\ dirs_same a a1) /\
  vget p (ob_mem a1) = vget p (ob_mem a).

Lemma cw_dirs_slot_eq g p a a1 a2 : ob_dirs a2 = ob_dirs a1 -> dirs_slot g p a a1 -> dirs_slot g p a a2.
Proof. intros E H. unfold dirs_slot in *. rewrite E. exact H. Qed.

(* ---- the run of flush_file on a dirty record, with the exact new disk and the new tree ---- *)
Section CwFlush.
  Variables (fsz vid : N) (s : st) (vi : nat) (v : vol) (bl rch : list N) (T : list node).
  Hypothesis Hinv : fs_inv_at fsz vid s vi v bl rch T.
  Variables (h : N) (fi : nat) (f : fileinfo).
  Hypothesis Hr : PrSeek.resolves s h fi f.

  Let d := s_disk s.
  Let e := f_entry f.
  Let blk := e_block (f_entry f).
  Let p := slot_key f.

  (* the entry a reader decodes from the slot after the flush, and the node it stands for *)
  Definition cw_new_entry : dirent := t_entry (v_fat32 v) (blk, e_offset e, ser_bytes (v_fat32 v) e).
  Definition cw_new_node : node := NFile cw_new_entry (fchain d v f).

  Record cw_flushed (s' : st) : Prop := mk_cw_flushed {
    cf_run : flush_file h s = (Ok tt, s');
    cf_mgr : same_mgr s s';
    cf_pend : is_pending (s_disk s') v f = false;
    cf_inv : fs_inv_at fsz vid s' vi v bl rch (forest_replace p cw_new_node T);
    cf_blk : In blk (tree_dir_blocks v bl T);
    cf_idx : exists i, i < 16 /\ e_offset e = i * 32;
    cf_node : exists e0 ch0, In (NFile e0 ch0) (all_nodes T) /\ node_pos (NFile e0 ch0) = p;
    cf_fat : forall j, fat_area v j -> disk_get (s_disk s') j = disk_get d j;
    (* the slots of every set of directory blocks: only slot p changes *)
    cf_slots : forall bld, (forall j, In j bld -> In j (tree_dir_blocks v bl T)) ->
               slots_of (s_disk s') bld = map (upd_slot (fst p) (snd p) (ser_bytes (v_fat32 v) e)) (slots_of d bld);
    (* every block of a data cluster other than the block of the slot is kept *)
    cf_data : forall c j, 2 <= c -> In j (cluster_blocks v c) -> j <> blk -> disk_get (s_disk s') j = disk_get d j;
    cf_fields : e_name cw_new_entry = e_name e /\ e_attr cw_new_entry = e_attr e /\ e_size cw_new_entry = e_size e /\
                e_ctime cw_new_entry = ts_readback (e_ctime e) /\ e_mtime cw_new_entry = ts_readback (e_mtime e);
    cf_pos : node_pos cw_new_node = p
  }.

  Theorem cw_flush_run : f_dirty f = true -> exists s', cw_flushed s'.
  Proof.
    intros Hdirty.
    destruct (gw_vol_facts _ _ _ _ _ _ _ _ Hinv) as (Hl & Hpre & Hfit & Hspc & Hwf & Hvid & Hnf & Hc & Hvi & L & Hvok).
    destruct (gw_file_facts _ _ _ _ _ _ _ _ h fi f Hinv Hr) as (O & Hfvol).
    pose proof Hr as (_ & Hfind & Hfi). pose proof (nth_error_In _ _ Hfi) as Hfin.
    destruct (gw_file_slot _ _ _ _ _ _ _ _ Hinv f Hfin)
      as (e0 & ch0 & i & Hn0 & Hpos0 & En & Ec & Hi & Eo & Hblk & Hns & Ee0 & Hch0).
    fold blk e d in Hpos0, En, Ec, Eo, Hblk, Hns, Ee0, Hch0.
    pose proof (of_slot _ _ _ _ O) as [Sct Smt Sname Soff Snfat]. fold blk e in Sct, Smt, Sname, Soff, Snfat.
    destruct (of_attr _ _ _ _ O) as (Adir & Alfn). fold e in Adir, Alfn.
    pose proof (of_size _ _ _ _ O) as Osize. pose proof (of_u32 _ _ _ _ O) as O32. fold e d in Osize, O32.
    pose proof (fi_disk _ _ _ _ _ _ _ _ Hinv) as HD. fold d in HD.
    set (old := slot (disk_get d blk) i) in *.
    set (new := ser_bytes (v_fat32 v) e).
    set (n0 := NFile e0 ch0) in *.
    assert (Ep : p = (blk, i * 32)) by (unfold p, slot_key; fold blk e; rewrite Eo; reflexivity).
    (* the run *)
    destruct (info_step_exists s vi v Hnf Hc Hvi Hwf) as (s1 & Hinfo & Hwf1).
    assert (Hnp : e_size e = 0 \/ e_cluster e <> 0).
    { destruct (of_chain _ _ _ _ O) as [(A1 & _)|(A1 & A2 & _)].
      - fold e in A1. right. clear - A1. lia.
      - fold e d in A2. left. rewrite A2 in Osize. cbn [length] in Osize. clear - Osize. lia. }
    destruct (flush_file_spec s h fi f vi v s1 Hr Hdirty (conj Hfvol Hvi) Hinfo Hnp Sct Smt Soff)
      as (s' & Hrun & Hd' & Hnew & Hfr' & Hc' & Hnf' & Hm' & _).
    fold blk e in Hd', Hnew, Hfr'.
    (* the same run through PrGlobalWrite: the invariant and the pending flag *)
    destruct (gw_flush_dirty fsz vid s vi v bl rch T Hinv h fi f Hr Hdirty) as (s'' & i'' & Hrun'' & Hat'' & _ & Hpend'' & _).
    rewrite Hrun in Hrun''. injection Hrun'' as <-.
    (* the information sector is neither a FAT sector, nor a directory block, nor a block of a data cluster *)
    assert (F1 : (forall j, fat_area v j -> disk_get (s_disk s1) j = disk_get d j) /\
                 (forall j, In j (tree_dir_blocks v bl T) -> disk_get (s_disk s1) j = disk_get d j) /\
                 (forall c j, 2 <= c -> In j (cluster_blocks v c) -> disk_get (s_disk s1) j = disk_get d j)).
    { destruct Hinfo as (_ & _ & _ & _ & Hfr1 & Hsame). destruct (v_fat32 v) eqn:E32.
      - destruct (fi_info _ _ _ _ _ _ _ _ Hinv E32) as (I1 & I2). split; [|split].
        + intros j Hj. apply Hfr1. intros ->. exact (I1 Hj).
        + intros j Hj. apply Hfr1. intros ->.
          destruct (gw_dir_block_kind _ _ _ _ _ _ _ _ Hinv _ Hj) as [(E & _)|(c & C1 & _ & Hin)]; [congruence|exact (I2 c C1 Hin)].
        + intros c j C1 Hj. apply Hfr1. intros ->. exact (I2 c C1 Hj).
      - rewrite (Hsame (or_introl eq_refl)). repeat split; reflexivity. }
    destruct F1 as (F1a & F1b & F1c).
    pose proof (disk_inv_frame d (s_disk s1) v bl rch T (pend_of s v) F1a F1b HD) as HD1.
    (* the slot write *)
    assert (Eold : disk_get (s_disk s1) blk = disk_get d blk) by (apply F1b; exact Hblk).
    assert (Hal : e_offset e mod 32 = 0) by (rewrite Eo; apply N.mod_mul; discriminate).
    assert (Ei : e_offset e / 32 = i) by (rewrite Eo; apply N.div_mul; discriminate).
    destruct (put_entry_slots (v_fat32 v) e (disk_get (s_disk s1) blk) (Hwf1 blk) Sname Soff Hal)
      as (Hlen' & Hslot & Hoth & _ & _).
    rewrite Ei in Hslot, Hoth. fold new in Hslot.
    assert (Hsw : slot_write (s_disk s1) (s_disk s') blk i new).
    { split; [exact Hfr'|]. rewrite Hnew. split; [exact Hslot|exact Hoth]. }
    assert (Hfat' : forall j, fat_area v j -> disk_get (s_disk s') j = disk_get d j).
    { intros j Hj. rewrite (slot_write_fat _ _ v blk i new Hsw Snfat j Hj). exact (F1a j Hj). }
    pose proof (ser_bytes_layout (v_fat32 v) e Sname) as Lay. cbv zeta in Lay. fold new in Lay.
    destruct Lay as (L0 & L11 & _ & _ & _ & _ & _ & _ & _ & Lb).
    assert (Ename0 : e_name e0 = firstn 11 old) by (rewrite Ee0; reflexivity).
    assert (Hb0 : get8 new 0 = get8 old 0).
    { rewrite Lb, <- En, Ename0. apply get8_firstn. }
    assert (Hname : t_name (blk, i * 32, new) = t_name (blk, i * 32, old)).
    { unfold t_name. cbn [snd]. rewrite L0, <- En, Ename0. reflexivity. }
    assert (Hend : is_end new = is_end old) by (unfold is_end; rewrite Hb0; reflexivity).
    assert (Hnsnew : node_slot (blk, i * 32, new) = true).
    { unfold node_slot, short_slot, dot_slot in *. rewrite Hname.
      apply andb_true_iff in Hns. destruct Hns as (Hs1 & Hs2). apply andb_true_iff in Hs1. destruct Hs1 as (Hv1 & _).
      apply andb_true_iff. split; [|exact Hs2]. apply andb_true_iff. split.
      - unfold t_is_valid, is_valid, is_end in *. cbn [snd] in *. rewrite Hb0. exact Hv1.
      - unfold t_attr. cbn [snd]. rewrite L11, Alfn. reflexivity. }
    (* the new node *)
    pose proof (gw_readback_fields (v_fat32 v) e blk (i * 32) Sname Adir O32 (gw_cluster_fits _ _ _ _ _ _ _ _ Hinv h fi f Hr)) as RB.
    cbv zeta in RB.
    assert (Ene : cw_new_entry = t_entry (v_fat32 v) (blk, i * 32, ser_bytes (v_fat32 v) e))
      by (unfold cw_new_entry; rewrite Eo; reflexivity).
    rewrite <- Ene in RB. destruct RB as (R1 & R2 & R3 & R4 & R5 & R6).
    set (e' := cw_new_entry) in *. set (n' := cw_new_node).
    assert (Hn' : node_rep (s_disk s') v n' (blk, i * 32, new)).
    { apply node_rep_file. fold e'. split; [exact Ene|]. split; [rewrite R2; exact Adir|].
      unfold fchain. fold e d. destruct (N.ltb_spec (e_cluster e) 2) as [Hlt|Hge].
      - right. rewrite R4. split; [exact Hlt|reflexivity].
      - left. rewrite R4. split; [exact Hge|].
        destruct (of_chain _ _ _ _ O) as [(_ & (fu & A2) & _)|(A1 & _)]; [fold e d in A2|fold e in A1; clear - A1 Hge; lia].
        exists fu. rewrite (chain_of_ext d (s_disk s') v Hfat'), A2.
        rewrite (chain_l_at _ _ _ _ (chain_at_any _ _ _ _ _ A2)). reflexivity. }
    assert (Hp0 : node_pos n0 = (blk, i * 32)) by (rewrite Hpos0, Eo; reflexivity).
    (* the tree of the new disk *)
    assert (Htree : tree_rep (s_disk s') v bl (forest_replace (blk, i * 32) n' T)).
    { apply (tree_rep_replace (s_disk s1) (s_disk s') v blk i new n' Hsw Snfat); rewrite ?Eold; try assumption.
      exact (di_tree _ _ _ _ _ _ HD1). }
    assert (Hroot : root_dir (s_disk s') v bl rch) by exact (root_dir_frame d (s_disk s') v bl rch Hfat' (di_root _ _ _ _ _ _ HD)).
    assert (Hinv' : fs_inv fsz vid s') by (eexists _, _, _, _, _; exact Hat'').
    destruct (cw_inv_at_tree fsz vid s' v bl rch _ Hinv'
                ltac:(rewrite (proj1 Hm'); exact (fi_single _ _ _ _ _ _ _ _ Hinv)) Hroot Htree) as (vi' & Hat').
    assert (Evi : vi' = vi).
    { destruct (gw_vol_facts _ _ _ _ _ _ _ _ Hat') as (_ & _ & _ & _ & _ & _ & _ & _ & Hvi' & _).
      rewrite (proj1 Hm'), (fi_single _ _ _ _ _ _ _ _ Hinv) in Hvi'. rewrite (fi_single _ _ _ _ _ _ _ _ Hinv) in Hvi.
      destruct vi' as [|[|k]], vi as [|[|k2]]; try discriminate; reflexivity. }
    subst vi'. rewrite <- Ep in Hat'.
    exists s'. constructor.
    - exact Hrun.
    - exact Hm'.
    - exact Hpend''.
    - exact Hat'.
    - exact Hblk.
    - exists i. split; assumption.
    - exists e0, ch0. split; [exact Hn0|]. rewrite Ep. exact Hp0.
    - exact Hfat'.
    - intros bld Hsub. rewrite Ep. cbn [fst snd]. rewrite (slots_of_upd (s_disk s1) (s_disk s') blk i new bld Hsw).
      f_equal. apply slots_of_ext. intros j Hj. exact (F1b j (Hsub j Hj)).
    - intros c j C1 Hj Hne. rewrite (Hfr' j Hne). exact (F1c c j C1 Hj).
    - split; [exact R1|]. split; [exact R2|]. split; [exact R3|].
      destruct (C02_codec_roundtrip_fields (v_fat32 v) e blk (e_offset e) Sname) as (_ & _ & _ & A4 & A5 & _).
      split; [exact A5|exact A4].
    - rewrite Ep. unfold node_pos. cbn [node_entry cw_new_node]. fold e'. rewrite R5, R6. reflexivity.
  Qed.

  (* ---- the observation after the flush ---- *)
  Variable s' : st.
  Hypothesis Hfl : cw_flushed s'.
  Let d' := s_disk s'.
  Let T' := forest_replace p cw_new_node T.
  Let new := ser_bytes (v_fat32 v) e.
  Let Hat' : fs_inv_at fsz vid s' vi v bl rch T' := cf_inv s' Hfl.
  Let Hfi : nth_error (s_files s) fi = Some f := proj2 (proj2 Hr).
  Let Hfin : In f (s_files s) := nth_error_In _ _ Hfi.

  Lemma cwf_files : s_files s' = s_files s.
  Proof. exact (proj1 (proj2 (proj2 (cf_mgr s' Hfl)))). Qed.

  Lemma cwf_fchain g : fchain d' v g = fchain d v g.
  Proof. unfold fchain, chain_l. rewrite (chain_of_ext d d' v (cf_fat s' Hfl)). reflexivity. Qed.

  Lemma cwf_bytes ch1 : Forall (fun c => 2 <= c) ch1 -> ~ In blk (data_blocks v ch1) ->
    file_bytes d' v ch1 = file_bytes d v ch1.
  Proof.
    intros R Hnb. rewrite Forall_forall in R. apply PrRw.file_bytes_frame. intros c j Hc Hj.
    apply (cf_data s' Hfl c j (R c Hc) Hj). intros ->. apply Hnb. unfold data_blocks. apply in_flat_map.
    exists c. split; assumption.
  Qed.

  Lemma cwf_open g : In g (s_files s) -> mem_fv s' v g = mem_fv s v g.
  Proof.
    intros Hg. unfold mem_fv. fold d'. rewrite cwf_fchain. unfold d.
    rewrite (cwf_bytes _ (cw_open_chain_range fsz vid s vi v bl rch T Hinv g Hg)
               (cw_open_chain_blocks fsz vid s vi v bl rch T Hinv g blk Hg (cf_blk s' Hfl))). reflexivity.
  Qed.

  Lemma cwf_node e1 ch1 : In (NFile e1 ch1) (all_nodes T) -> disk_fv d' v (NFile e1 ch1) = disk_fv d v (NFile e1 ch1).
  Proof.
    intros Hn. unfold disk_fv. cbn [node_entry node_chain].
    rewrite (cwf_bytes _ (cw_node_chain_range fsz vid s vi v bl rch T Hinv e1 ch1 Hn)
               (cw_node_chain_blocks fsz vid s vi v bl rch T Hinv e1 ch1 blk Hn (cf_blk s' Hfl))). reflexivity.
  Qed.

  (* the node list of the new tree *)
  Lemma cwf_uniq m : In m (all_nodes T) -> node_pos m = p -> exists e0 ch0, m = NFile e0 ch0.
  Proof.
    intros Hm Em. destruct (cf_node s' Hfl) as (e0 & ch0 & Hn0 & Ep0). exists e0, ch0.
    apply (pos_unique (all_nodes T) m _ (di_pos _ _ _ _ _ _ (fi_disk _ _ _ _ _ _ _ _ Hinv)) Hm Hn0). congruence.
  Qed.

  Lemma cwf_nodes' : all_nodes T' = map (node_replace p cw_new_node) (all_nodes T).
  Proof.
    apply (all_nodes_replace p cw_new_node eq_refl T). intros m Hm Em.
    destruct (cwf_uniq m Hm Em) as (e0 & ch0 & ->). reflexivity.
  Qed.

  Lemma cwf_kind n : In n (all_nodes T) ->
    node_pos (node_replace p cw_new_node n) = node_pos n /\ node_is_dir (node_replace p cw_new_node n) = node_is_dir n.
  Proof.
    intros Hn. split; [exact (node_pos_replace p cw_new_node (cf_pos s' Hfl) n)|].
    destruct (pos_eqb (node_pos n) p) eqn:E.
    - apply pos_eqb_eq in E. destruct (cwf_uniq n Hn E) as (e0 & ch0 & ->).
      rewrite (node_replace_hit p cw_new_node _ E). reflexivity.
    - destruct n; cbn [node_replace]; rewrite E; reflexivity.
  Qed.

  Lemma cwf_miss e1 ch1 q : node_pos (NFile e1 ch1) = q -> q <> p -> node_replace p cw_new_node (NFile e1 ch1) = NFile e1 ch1.
  Proof. intros E Hq. apply node_replace_miss_file. rewrite E. exact Hq. Qed.

  (* every other position of both views *)
  Lemma cwf_others q : q <> p ->
    vget q (mem_view s' v T') = vget q (mem_view s v T) /\ vget q (disk_view d' v T') = vget q (disk_view d v T).
  Proof.
    intros Hq. split.
    - unfold mem_view. rewrite cwf_nodes'. apply cw_vget_view_map; [exact cwf_kind|].
      intros e1 ch1 Hn E. rewrite (cwf_miss e1 ch1 q E Hq). unfold mem_item, open_at. rewrite cwf_files.
      destruct (find (fun g => pos_eqb (slot_key g) (node_pos (NFile e1 ch1))) (s_files s)) as [g|] eqn:Ef.
      + destruct (find_some _ _ Ef) as (Hg & _). exact (cwf_open g Hg).
      + exact (cwf_node e1 ch1 Hn).
    - unfold disk_view. rewrite cwf_nodes'. apply cw_vget_view_map; [exact cwf_kind|].
      intros e1 ch1 Hn E. rewrite (cwf_miss e1 ch1 q E Hq). exact (cwf_node e1 ch1 Hn).
  Qed.

  (* the flushed file: the medium now shows what the API showed (and still shows) *)
  Lemma cwf_new_fv : disk_fv d' v cw_new_node = mem_fv s v f.
  Proof.
    destruct (cf_fields s' Hfl) as (R1 & R2 & R3 & R4 & R5).
    unfold disk_fv, cw_new_node, mem_fv, fv_of. cbn [node_entry node_chain]. fold e.
    rewrite R1, R2, R3, R4, R5, !ts_readback_idem. unfold d.
    rewrite (cwf_bytes _ (cw_open_chain_range fsz vid s vi v bl rch T Hinv f Hfin)
               (cw_open_chain_blocks fsz vid s vi v bl rch T Hinv f blk Hfin (cf_blk s' Hfl))). reflexivity.
  Qed.

  Lemma cwf_target :
    vget p (disk_view d' v T') = Some (mem_fv s v f) /\ vget p (mem_view s' v T') = Some (mem_fv s v f) /\
    vget p (mem_view s v T) = Some (mem_fv s v f).
  Proof.
    split; [|split].
    - destruct (cf_node s' Hfl) as (e0 & ch0 & Hn0 & Ep0).
      assert (Hn' : In cw_new_node (all_nodes T')).
      { rewrite cwf_nodes'. apply in_map_iff. exists (NFile e0 ch0).
        split; [exact (node_replace_hit p cw_new_node _ Ep0)|exact Hn0]. }
      rewrite <- cwf_new_fv, <- (cf_pos s' Hfl).
      exact (vget_disk_node fsz vid s' vi v bl rch T' Hat' _ _ Hn').
    - rewrite <- (cwf_open f Hfin).
      assert (Hf' : In f (s_files s')) by (rewrite cwf_files; exact Hfin).
      exact (vget_mem_open fsz vid s' vi v bl rch T' Hat' f Hf').
    - exact (vget_mem_open fsz vid s vi v bl rch T Hinv f Hfin).
  Qed.

  (* the directories: exactly the slot p changes *)
  Lemma cwf_dir_view :
    dir_view d' v bl T' = map (fun x => (fst x, map (upd_slot (fst p) (snd p) new) (snd x))) (dir_view d v bl T).
  Proof.
    unfold dir_view. cbn [map fst snd]. f_equal.
    - f_equal. apply (cf_slots s' Hfl). intros j Hj. unfold tree_dir_blocks. apply in_or_app. left. exact Hj.
    - rewrite cwf_nodes'. apply cw_dir_items_map. intros n Hn. destruct n as [e1 ch1|e1 ch1 k1].
      + exact (proj2 (cwf_kind _ Hn)).
      + split.
        * exists (map (node_replace p cw_new_node) k1). apply node_replace_miss_dir. intros E.
          destruct (cwf_uniq _ Hn E) as (e0 & ch0 & X). discriminate X.
        * apply (cf_slots s' Hfl). intros j Hj. apply gw_tree_dir_blocks_iff. right. exists e1, ch1, k1. split; assumption.
  Qed.

  Lemma cwf_dirs : dirs_slot false p (obs_at s v bl T) (obs_at s' v bl T').
  Proof.
    unfold dirs_slot. cbn [obs_at ob_dirs]. fold d d'.
    destruct (cw_block_dir v bl rch T blk (cf_blk s' Hfl)) as (dc & bld & chd & Hdir & Hb).
    destruct (cf_idx s' Hfl) as (i & Hi & Eo).
    pose proof (dget_dir_view fsz vid s vi v bl rch T Hinv d dc bld chd Hdir) as Hdg.
    exists dc, (slots_of d bld), [], new. rewrite app_nil_r.
    split; [exact Hdg|]. split.
    { unfold p, slot_key. fold blk e. rewrite Eo. exact (cw_slot_listed d bld blk i Hb Hi). }
    split; [constructor|]. split; [reflexivity|].
    rewrite cwf_dir_view. split.
    - rewrite cw_dget_map_snd, Hdg. reflexivity.
    - intros c Hc. rewrite cw_dget_map_snd. destruct (dget c (dir_view d v bl T)) as [slc|] eqn:Ec; [|reflexivity].
      cbn [option_map]. f_equal.
      destruct (dget_dir_view_inv v bl rch T d c slc Ec) as (bldc & chdc & Hdirc & ->).
      rewrite <- (map_id (slots_of d bldc)) at 2. apply map_ext_in. intros t Ht.
      apply upd_slot_miss. intros E. apply Hc.
      apply (dirs_apart d v bl rch T (pend_of s v) (v_nblocks v) fsz (fi_disk _ _ _ _ _ _ _ _ Hinv)
               (fi_layout _ _ _ _ _ _ _ _ Hinv) c dc bldc bld chdc chd blk Hdirc Hdir); [|exact Hb].
      pose proof (cw_slots_block d bldc t Ht) as X. rewrite E in X. exact X.
  Qed.

  Theorem cwf_rel : cw_flush_rel true p (obs_at s v bl T) (obs_at s' v bl T').
  Proof.
    destruct cwf_target as (T1 & T2 & T3).
    split; [intros q Hq; exact (cwf_others q Hq)|]. split; [cbn [obs_at ob_handles]; unfold handles_of; rewrite cwf_files; reflexivity|].
    cbn [obs_at ob_disk ob_mem]. fold d d'. split; [|rewrite T2, T3; reflexivity].
    split; [rewrite T1, T3; reflexivity|]. split; [rewrite T3; discriminate|exact cwf_dirs].
  Qed.
End CwFlush.

(* ---- flush_file on a handle that names a record, dirty or not ---- *)
Lemma cw_flush_effect fsz vid s vi v bl rch T h fi f :
  fs_inv_at fsz vid s vi v bl rch T -> PrSeek.resolves s h fi f ->
  exists s1 T1, flush_file h s = (Ok tt, s1) /\ same_mgr s s1 /\ fs_inv_at fsz vid s1 vi v bl rch T1 /\
    is_pending (s_disk s1) v f = false /\ cw_flush_rel (f_dirty f) (slot_key f) (obs_at s v bl T) (obs_at s1 v bl T1).
Proof.
  intros Hat Hr. destruct (f_dirty f) eqn:Hd.
  - destruct (cw_flush_run fsz vid s vi v bl rch T Hat h fi f Hr Hd) as (s1 & Hfl).
    exists s1, (forest_replace (slot_key f) (cw_new_node s v f) T).
    split; [exact (cf_run _ _ _ _ _ _ _ _ _ _ _ Hfl)|]. split; [exact (cf_mgr _ _ _ _ _ _ _ _ _ _ _ Hfl)|].
    split; [exact (cf_inv _ _ _ _ _ _ _ _ _ _ _ Hfl)|]. split; [exact (cf_pend _ _ _ _ _ _ _ _ _ _ _ Hfl)|].
    exact (cwf_rel fsz vid s vi v bl rch T Hat h fi f Hr s1 Hfl).
  - exists s, T. split; [exact (flush_file_clean s h fi f Hr Hd)|]. split; [apply same_mgr_refl|]. split; [exact Hat|].
    pose proof (ofile_of _ _ _ _ _ _ _ _ Hat f (nth_error_In _ _ (proj2 (proj2 Hr)))) as O.
    split.
    + destruct (is_pending (s_disk s) v f) eqn:Ep; [|reflexivity]. rewrite (of_dirty _ _ _ _ O Ep) in Hd. discriminate Hd.
    + split; [intros q _; split; reflexivity|]. split; [reflexivity|]. split; [|reflexivity].
      split; [reflexivity|intros c; reflexivity].
Qed.

(* ---- the record of a flushed file leaves the table ---- *)
Lemma cw_find_key_drop (l : list fileinfo) fi f q : NoDup (map slot_key l) -> nth_error l fi = Some f ->
  q <> slot_key f ->
  find (fun g => pos_eqb (slot_key g) q) (swap_remove l fi) = find (fun g => pos_eqb (slot_key g) q) l.
Proof.
  intros Hnd Hfi Hq.
  assert (Hnd' : NoDup (map slot_key (swap_remove l fi)))
    by (rewrite PrHandles.map_swap_remove; apply PrHandles.swap_remove_NoDup; exact Hnd).
  destruct (find (fun g => pos_eqb (slot_key g) q) l) as [g|] eqn:Ef.
  - destruct (find_some _ _ Ef) as (Hg & Hk). apply pos_eqb_eq in Hk.
    assert (Hne : g <> f) by (intros ->; apply Hq; symmetry; exact Hk).
    pose proof (PrFault2.swap_remove_keeps_others l fi g f Hfi Hg Hne) as Hg'.
    rewrite <- Hk. exact (find_key_nodup slot_key _ g Hnd' Hg').
  - apply find_key_none. intros g Hg Hk.
    pose proof (find_none _ _ Ef g (swap_remove_subset _ _ _ Hg)) as X. cbv beta in X.
    rewrite Hk, pos_eqb_refl in X. discriminate X.
Qed.

Lemma cw_find_id_nodup (l : list fileinfo) : forall g, NoDup (map f_id l) -> In g l ->
  find (fun x => f_id x =? f_id g) l = Some g.
Proof.
  induction l as [|a l IH]; intros g Hnd Hin; [destruct Hin|]. cbn [map] in Hnd.
  inversion Hnd as [|? ? Ha Hl]; subst. cbn [find]. destruct Hin as [->|Hin].
  - rewrite N.eqb_refl. reflexivity.
  - destruct (N.eqb_spec (f_id a) (f_id g)) as [E|E]; [|exact (IH g Hl Hin)].
    exfalso. apply Ha. rewrite E. apply in_map. exact Hin.
Qed.

Lemma cw_hget_drop (l : list fileinfo) fi f k : NoDup (map f_id l) -> nth_error l fi = Some f ->
  hget k (map (fun g => (f_id g, hinfo_of g)) (swap_remove l fi)) =
  if k =? f_id f then None else hget k (map (fun g => (f_id g, hinfo_of g)) l).
Proof.
  intros Hnd Hfi. rewrite !hget_handles_of.
  assert (Hnd' : NoDup (map f_id (swap_remove l fi))) by (apply PrHandles.swap_remove_NoDup_map; exact Hnd).
  destruct (N.eqb_spec k (f_id f)) as [->|Hne].
  - destruct (find (fun g => f_id g =? f_id f) (swap_remove l fi)) as [g|] eqn:Ef; [|reflexivity].
    destruct (find_some _ _ Ef) as (Hg & Hk). apply N.eqb_eq in Hk. exfalso.
    apply (PrHandles.swap_remove_gone f_id l fi f Hnd Hfi). rewrite <- Hk. apply in_map. exact Hg.
  - destruct (find (fun g => f_id g =? k) l) as [g|] eqn:Ef.
    + destruct (find_some _ _ Ef) as (Hg & Hk). apply N.eqb_eq in Hk.
      assert (Hgf : g <> f) by (intros ->; apply Hne; symmetry; exact Hk).
      pose proof (PrFault2.swap_remove_keeps_others l fi g f Hfi Hg Hgf) as Hg'.
      rewrite <- Hk, (cw_find_id_nodup _ g Hnd' Hg'). reflexivity.
    + destruct (find (fun g => f_id g =? k) (swap_remove l fi)) as [g|] eqn:Ef2; [|reflexivity].
      destruct (find_some _ _ Ef2) as (Hg & Hk).
      pose proof (find_none _ _ Ef g (swap_remove_subset _ _ _ Hg)) as X. cbv beta in X. rewrite Hk in X. discriminate X.
Qed.

Lemma cw_drop_obs fsz vid s1 vi v bl rch T1 h fi f :
  fs_inv_at fsz vid s1 vi v bl rch T1 -> PrSeek.resolves s1 h fi f -> is_pending (s_disk s1) v f = false ->
  let s2 := set_s_files s1 (swap_remove (s_files s1) fi) in
  let a1 := obs_at s1 v bl T1 in
  let a2 := obs_at s2 v bl T1 in
  observes fsz vid s2 a2 /\ ob_disk a2 = ob_disk a1 /\ ob_dirs a2 = ob_dirs a1 /\
  (forall q, q <> slot_key f -> vget q (ob_mem a2) = vget q (ob_mem a1)) /\
  vget (slot_key f) (ob_mem a2) = vget (slot_key f) (ob_disk a1) /\ handle_del h a1 a2.
Proof.
  intros Hat Hr Hp s2 a1 a2. pose proof (proj2 (proj2 Hr)) as Hfi. pose proof (nth_error_In _ _ Hfi) as Hfin.
  pose proof (gw_drop_file fsz vid s1 vi v bl rch T1 fi f Hat Hfi Hp) as Hat2. fold s2 in Hat2.
  split; [exact (observes_at _ _ _ _ _ _ _ _ Hat2)|]. split; [reflexivity|]. split; [reflexivity|]. split; [|split].
  - intros q Hq. unfold a1, a2. cbn [obs_at ob_mem]. unfold mem_view.
    rewrite <- (map_id (all_nodes T1)) at 1. apply cw_vget_view_map; [intros n _; split; reflexivity|].
    intros e ch Hn Ep. unfold mem_item, open_at. rewrite Ep.
    change (s_files s2) with (swap_remove (s_files s1) fi).
    rewrite (cw_find_key_drop (s_files s1) fi f q (fi_fslots _ _ _ _ _ _ _ _ Hat) Hfi Hq). reflexivity.
  - destruct (cw_open_node fsz vid s1 vi v bl rch T1 Hat f Hfin) as (e0 & ch0 & Hn0 & Ep0).
    unfold a1, a2. cbn [obs_at ob_mem ob_disk]. rewrite <- Ep0.
    rewrite (vget_disk_node fsz vid s1 vi v bl rch T1 Hat e0 ch0 Hn0).
    apply (vget_mem_closed fsz vid s2 vi v bl rch T1 Hat2 e0 ch0 Hn0).
    intros g Hg E. rewrite Ep0 in E. change (s_files s2) with (swap_remove (s_files s1) fi) in Hg.
    apply (PrHandles.swap_remove_gone slot_key (s_files s1) fi f (fi_fslots _ _ _ _ _ _ _ _ Hat) Hfi).
    rewrite <- E. apply in_map. exact Hg.
  - intros k. unfold a1, a2. cbn [obs_at ob_handles]. unfold handles_of.
    change (s_files s2) with (swap_remove (s_files s1) fi).
    rewrite (cw_hget_drop (s_files s1) fi f k (fi_fids _ _ _ _ _ _ _ _ Hat) Hfi), (resolves_id s1 h fi f Hr). reflexivity.
Qed.

Theorem content_Flush fsz vid h : step_content fsz vid (Flush h).
Proof.
  intros s r s' a Hinv _ _ Hs Ho. pose proof (fs_inv_lock fsz vid s Hinv) as Hl.
  destruct Ho as (vi & v & bl & rch & T & Hat & ->). cbn [content_rel]. unfold flush_content. cbn [obs_at ob_handles].
  destruct (file_handle_cases s h Hl) as [(fi & f & Hr)|Hno].
  - destruct (cw_flush_effect fsz vid s vi v bl rch T h fi f Hat Hr) as (s1 & T1 & Hrun & Hm & Hat1 & Hp & R1 & R2 & R3 & R4).
    cbn [step] in Hs. rewrite (lift_ok' _ _ _ _ _ Hrun) in Hs. injection Hs as <- <-.
    exists (obs_at s1 v bl T1). split; [exact (observes_at _ _ _ _ _ _ _ _ Hat1)|].
    rewrite (hget_resolves s h fi f Hr). cbn [hinfo_of hi_pos hi_dirty].
    split; [reflexivity|]. split; [exact R1|]. split; [intros k; unfold hget; rewrite R2; reflexivity|].
    split; [exact R3|exact R4].
  - destruct (PrHandles.C08_stale_file_handle h s Hl Hno) as (_ & _ & E & _).
    rewrite E in Hs. injection Hs as <- <-. exists (obs_at s v bl T). split; [exact (observes_at _ _ _ _ _ _ _ _ Hat)|].
    rewrite (hget_stale s h Hno). split; reflexivity.
Qed.

Theorem content_CloseFile fsz vid h : step_content fsz vid (CloseFile h).
Proof.
  intros s r s' a Hinv _ _ Hs Ho. pose proof (fs_inv_lock fsz vid s Hinv) as Hl.
  destruct Ho as (vi & v & bl & rch & T & Hat & ->). cbn [content_rel]. unfold flush_content. cbn [obs_at ob_handles].
  destruct (file_handle_cases s h Hl) as [(fi & f & Hr)|Hno].
  - destruct (cw_flush_effect fsz vid s vi v bl rch T h fi f Hat Hr) as (s1 & T1 & Hrun & Hm & Hat1 & Hp & R1 & R2 & R3 & R4).
    cbn [step] in Hs. rewrite (lift_ok' _ _ _ _ _ (close_file_after_flush s h fi f s1 Hr Hrun Hm)) in Hs. injection Hs as <- <-.
    assert (Hr1 : PrSeek.resolves s1 h fi f).
    { destruct Hr as (A & B & C). destruct Hm as (_ & _ & Hfiles & _ & _ & Hlock & _).
      split; [rewrite Hlock; exact A|]. rewrite Hfiles. split; assumption. }
    destruct (cw_drop_obs fsz vid s1 vi v bl rch T1 h fi f Hat1 Hr1 Hp) as (Ho2 & D & Dr & M & Mp & Hd).
    eexists. split; [exact Ho2|].
    rewrite (hget_resolves s h fi f Hr). cbn [hinfo_of hi_pos hi_dirty].
    split; [reflexivity|]. split.
    { intros q Hq. destruct (R1 q Hq) as (X1 & X2). split; [rewrite (M q Hq); exact X1|rewrite D; exact X2]. }
    split.
    { intros k. rewrite (Hd k). destruct (k =? h); [reflexivity|]. unfold hget. rewrite R2. reflexivity. }
    split; [|rewrite Mp, D; reflexivity].
    destruct (f_dirty f).
    + destruct R3 as (A & B & C). split; [rewrite D; exact A|]. split; [exact B|exact (cw_dirs_slot_eq _ _ _ _ _ Dr C)].
    + destruct R3 as (A & B). split; [rewrite D; exact A|]. intros c. rewrite Dr. exact (B c).
  - destruct (PrHandles.C08_stale_file_handle h s Hl Hno) as (_ & _ & _ & E & _).
    rewrite E in Hs. injection Hs as <- <-. exists (obs_at s v bl T). split; [exact (observes_at _ _ _ _ _ _ _ _ Hat)|].
    rewrite (hget_stale s h Hno). split; reflexivity.
Qed.


(* ================================================================== 5. the hypotheses are satisfiable *)
(* PrGlobalDef's example state (file B open on handle 7, five bytes, a pending chain): a write,
   a flush and a close.  The invariant and id_fresh hold of every state of the run, so the
   theorems apply and relate the four observations. *)
Lemma cw_id_fresh_of s ids nx : PrHandles.all_ids s = ids -> s_next_id s = nx ->
  forallb (fun x => negb (x =? nx)) ids = true -> id_fresh s.
Proof.
  intros E1 E2 H x Hx. rewrite E1 in Hx. rewrite E2. rewrite forallb_forall in H.
  specialize (H x Hx). apply negb_true_iff in H. apply N.eqb_neq. exact H.
Qed.

Example cw_example :
  exists s1 s2 s3 a0 a1 a2 a3,
    step (Write 7 [1; 2; 3]) gx_state = (Ok RUnit, s1) /\ step (Flush 7) s1 = (Ok RUnit, s2) /\
    step (CloseFile 7) s2 = (Ok RUnit, s3) /\
    observes 1 0 gx_state a0 /\ observes 1 0 s1 a1 /\ observes 1 0 s2 a2 /\ observes 1 0 s3 a3 /\
    write_content false 7 [1; 2; 3] 0 (Ok RUnit) a0 a1 /\
    flush_content false 7 (Ok RUnit) a1 a2 /\ flush_content true 7 (Ok RUnit) a2 a3.
Proof.
  set (s1 := snd (step (Write 7 [1; 2; 3]) gx_state)).
  set (s2 := snd (step (Flush 7) s1)).
  set (s3 := snd (step (CloseFile 7) s2)).
  assert (E1 : step (Write 7 [1; 2; 3]) gx_state = (Ok RUnit, s1)) by (vm_compute; reflexivity).
  assert (E2 : step (Flush 7) s1 = (Ok RUnit, s2)) by (vm_compute; reflexivity).
  assert (E3 : step (CloseFile 7) s2 = (Ok RUnit, s3)) by (vm_compute; reflexivity).
  assert (F0 : id_fresh gx_state).
  { apply (cw_id_fresh_of gx_state [0; 5; 9; 7] 10); vm_compute; reflexivity. }
  assert (F1 : id_fresh s1).
  { apply (cw_id_fresh_of s1 [0; 5; 9; 7] 10); vm_compute; reflexivity. }
  assert (F2 : id_fresh s2).
  { apply (cw_id_fresh_of s2 [0; 5; 9; 7] 10); vm_compute; reflexivity. }
  pose proof (proj1 fs_inv_example) as I0.
  pose proof (proj1 (proj2 (proj2 (step_ok_Write 1 0 7 [1; 2; 3] gx_state _ s1 I0 F0 (conj (conj I I) I) E1)))) as I1.
  pose proof (proj1 (proj2 (proj2 (step_ok_Flush 1 0 7 s1 _ s2 I1 F1 (conj (conj I I) I) E2)))) as I2.
  destruct (observes_exists 1 0 gx_state I0) as (a0 & O0).
  destruct (content_Write 1 0 7 [1; 2; 3] gx_state _ s1 a0 I0 F0 (conj (conj I I) I) E1 O0) as (a1 & O1 & C1).
  destruct (content_Flush 1 0 7 s1 _ s2 a1 I1 F1 (conj (conj I I) I) E2 O1) as (a2 & O2 & C2).
  destruct (content_CloseFile 1 0 7 s2 _ s3 a2 I2 F2 (conj (conj I I) I) E3 O2) as (a3 & O3 & C3).
  exists s1, s2, s3, a0, a1, a2, a3. cbn [content_rel] in C1, C2, C3.
  change (s_clock gx_state) with 0 in C1. repeat (split; [assumption|]). exact C3.
Qed.

Print Assumptions content_Read.
Print Assumptions content_IoRead.
Print Assumptions content_Write.
Print Assumptions content_IoWrite.
Print Assumptions content_Flush.
Print Assumptions content_CloseFile.
Print Assumptions cw_example.
