(* PROOFS: C11 for `Mkdir d name`, part 2 - the media, at the level of the FAT and the blocks.
     mkf_prefix  : the run of make_dir up to the `try` (PrCrashMkdir.mkc_prefix with the state exposed);
     mkf_W       : the fault-free write_new_directory_entry from there: it returns NotEnoughSpace
                   without a write, or Ok and then its LAST device call is the write of the slot;
                   every crashed medium BEFORE that write is `mk_crashc`: as PrCrashMkdir.mk_crash,
                   with the new directory's cluster c explicitly a lost one-cluster chain;
     release_after : free_cluster_chain on c, run without a fault from a state whose medium is
                   mk_crashc, succeeds and leaves a PrCrashMkdir.mk_crash medium (c free again, the
                   parent as before or one zeroed cluster longer, possibly one more lost cluster). *)
From Coq Require Import NArith ZArith List Bool Lia Arith ZifyClasses ZifyInst Zify FMapPositive Permutation.
From SdFs Require Import FsTypes FsBase FsFat FsMgr FsLemmas PrBase PrFat PrAlloc PrDir PrSeek PrAllocEffect
  PrRw PrWrite PrFileSeq PrMulti PrEntry PrChain PrCount PrWf PrOpenClose PrGlobalDef PrGlobalMkdirR.
From SdFs Require PrModes PrHandles PrBounds PrOrder.
From SdFs Require Import PrCrash PrCrashDef PrCrashDef2 PrCrashDef3 PrCrashDef4 PrCrashDelete PrCrashMkdir.
From SdFs Require Import PrFaultMkdir.
Import ListNotations.
Open Scope N_scope.
Local Arguments N.mul : simpl never.
Local Arguments N.add : simpl never.
Local Arguments N.sub : simpl never.
Local Arguments N.div : simpl never.
Local Arguments N.modulo : simpl never.
Local Arguments N.land : simpl never.
Local Arguments N.lor : simpl never.
Local Ltac Zify.zify_post_hook ::= Z.to_euclidean_division_equations.

(* ================================================================== 1. the common prefix, with its state *)
Lemma mkf_prefix fsz total vi v hs parent sfn s c s1 :
  alloc_pre s vi v fsz -> PrBounds.part_layout v total fsz -> blocks_wf (s_disk s) ->
  fat_wf (s_disk s) v hs ->
  alloc_cluster vi None false s = (Ok c, s1) ->
  exists s6 v1,
    make_dir_pre vi parent sfn A_DIRECTORY s = (Ok c, s6) /\ traced s1 s6 /\
    map fst (step_writes s1 s6) = cluster_blocks v c /\
    prefix_ok fsz vi v hs (if parent =? CL_ROOT then CL_EMPTY else parent) s c s6 v1.
Proof.
  intros Hpre L Hbw W Hal.
  pose proof Hpre as ((Hnf & Hc & Hvi & Hlen) & FL & Hh). pose proof (fl_vol v fsz FL) as Hv.
  pose proof (PrBounds.pl_spc v total fsz L) as Hspc.
  assert (Hprev0 : forall p, @None N = Some p -> p < v_clusters v + 2) by (intros p Ep; discriminate Ep).
  pose proof (alloc_cluster_effect vi v fsz None false s c s1 Hpre Hprev0 Hal) as Heff.
  destruct (ae_range _ _ _ _ _ _ _ _ Heff) as (C1 & C2 & C3).
  destruct (ae_vol _ _ _ _ _ _ _ _ Heff) as (nf & Evols & _).
  destruct (ae_tables _ _ _ _ _ _ _ _ Heff) as (A1 & A2 & A3 & A4 & A5 & A6 & A7 & A8 & A9).
  set (v1 := set_v_free (set_v_next_free v nf) (dec_free (v_free v))) in *.
  assert (G1 : geo_eq v v1) by (exists nf, (dec_free (v_free v)); reflexivity).
  assert (Hv1 : nth_error (s_vols s1) vi = Some v1) by (rewrite Evols; exact (ls_nth_same _ _ _ _ Hvi)).
  destruct (alloc_cluster_keeps_pre vi v fsz None false s c s1 Hpre Hprev0 Hal) as (w & Hw & Hpre1 & _).
  rewrite Hv1 in Hw. inversion Hw; subst w. clear Hw.
  pose proof Hpre1 as ((Hnf1 & Hc1 & _ & Hlen1) & FL1 & Hh1). pose proof (fl_vol v1 fsz FL1) as Hvok1.
  set (start := cluster_first_block v c).
  destruct (cluster_block_ok v1 c s1 Hvok1 C1 C2) as (Hcb & Hfit).
  change (cluster_first_block v1 c) with start in Hcb, Hfit. change (v_spc v1) with (v_spc v) in Hfit.
  set (now := clock_ts (s_clock s)).
  set (pcl := if parent =? CL_ROOT then CL_EMPTY else parent).
  set (dot := ser_bytes (v_fat32 v) (mk_dirent THIS_DIR_NAME now now A_DIRECTORY c 0 start 0)).
  set (dotdot := ser_bytes (v_fat32 v) (mk_dirent PARENT_DIR_NAME now now A_DIRECTORY pcl 0 start 32)).
  set (s2 := set_s_clock s1 (s_clock s1 + 1)).
  set (s3 := set_s_cache (set_s_tag s2 (Some start)) zero_block).
  set (s4 := set_s_cache s3 (set_bytes (set_bytes zero_block 0 dot) 32 dotdot)).
  assert (T4 : s_tag s4 = Some start) by reflexivity.
  assert (N4 : no_faults s4) by (apply (no_faults_step s1); [reflexivity|cbn; lia|exact Hnf1]).
  pose proof (write_back_ok start s4 T4 N4) as Hwb.
  match type of Hwb with _ = (_, ?st) => set (s5 := st) in * end.
  destruct (PrOrder.write_back_steps start s4 _ _ T4 N4 Hwb) as (_ & [S5 G5] & M5 & _).
  destruct (zero_loop (N.to_nat (v_spc v) - 1) (start + 1) s5 (proj1 G5) (proj2 G5))
    as (s6 & Hrun & Hnf6 & Hc6 & M6 & Hz6 & Hfr6 & Tr6).
  assert (Hts : ts_ok now) by apply ts_cal_ok, clock_ts_cal.
  assert (E2 : get_timestamp s1 = (Ok now, s2)) by (unfold now; rewrite <- A4; reflexivity).
  assert (E3 : blank_mut start s2 = (Ok tt, s3)) by reflexivity.
  assert (E4 : cache_modify (fun b => set_bytes (set_bytes b 0 dot) 32 dotdot) s3 = (Ok tt, s4)) by reflexivity.
  assert (Emk : make_dir_pre vi parent sfn A_DIRECTORY s = (Ok c, s6)).
  { unfold make_dir_pre. rewrite (bind_ok _ _ _ _ _ Hal).
    rewrite (bind_ok _ _ _ _ _ (get_vol_some vi v1 s1 Hv1)).
    rewrite (bind_ok _ _ _ _ _ Hcb).
    rewrite (bind_ok _ _ _ _ _ E2).
    rewrite (bind_ok _ _ _ _ _ E3).
    change (v_fat32 v1) with (v_fat32 v). change (v_spc v1) with (v_spc v).
    rewrite (bind_ok _ _ _ _ _ (serialize_ok (v_fat32 v) (mk_dirent THIS_DIR_NAME now now A_DIRECTORY c 0 start 0) s3 Hts Hts)).
    fold pcl.
    rewrite (bind_ok _ _ _ _ _ (serialize_ok (v_fat32 v) (mk_dirent PARENT_DIR_NAME now now A_DIRECTORY pcl 0 start 32) s3 Hts Hts)).
    fold dot dotdot.
    rewrite (bind_ok _ _ _ _ _ E4).
    rewrite (bind_ok _ _ _ _ _ Hwb).
    rewrite (bind_ok _ _ _ _ _ (add32_ok _ _ s5 Hfit)).
    rewrite (bind_ok _ _ _ _ _ Hrun). reflexivity. }
  exists s6, v1. split; [exact Emk|].
  assert (T5 : PrOrder.tsteps s1 s5 [start]).
  { apply (PrOrder.tsteps_trans _ s4 _ [] _); [apply PrOrder.tsteps_same_trace; reflexivity|exact S5]. }
  assert (T6 : PrOrder.tsteps s5 s6 (PrOrder.blocks_from (N.to_nat (v_spc v) - 1) (start + 1))).
  { pose proof (tr_ext_tsteps _ _ _ Tr6) as T. rewrite map_map in T. cbn [fst] in T. rewrite map_id in T. exact T. }
  split.
  { apply (traced_trans _ s2); [exact (tm_get_timestamp _ _ _ E2)|].
    apply (traced_trans _ s3); [exact (tm_blank_mut start _ _ _ E3)|].
    apply (traced_trans _ s4); [exact (tm_cache_modify _ _ _ _ E4)|].
    apply (traced_trans _ s5); [exact (tm_write_back _ _ _ Hwb)|].
    exact (tm_for_blocks_from _ tm_zero_body _ _ _ _ _ Hrun). }
  split.
  { rewrite (PrBounds.cluster_blocks_cons v c Hspc). fold start.
    exact (tsteps_step_writes _ _ _ (PrOrder.tsteps_trans _ _ _ _ _ T5 T6)). }
  (* the device after the prefix *)
  assert (D5 : s_disk s5 = disk_set (s_disk s1) start (set_bytes (set_bytes zero_block 0 dot) 32 dotdot)) by reflexivity.
  assert (Elen : N.of_nat (N.to_nat (v_spc v) - 1) = v_spc v - 1) by lia.
  rewrite Elen in Hz6, Hfr6.
  assert (Hstart6 : disk_get (s_disk s6) start = set_bytes (set_bytes zero_block 0 dot) 32 dotdot).
  { rewrite Hfr6 by lia. rewrite D5. apply disk_get_set_same. }
  assert (Hout6 : forall j, j < start \/ start + v_spc v <= j -> disk_get (s_disk s6) j = disk_get (s_disk s1) j).
  { intros j Hj. rewrite Hfr6 by lia. rewrite D5. apply disk_get_set_other. lia. }
  assert (Hfs16 : fat_same v fsz (s_disk s1) (s_disk s6)).
  { intros j Hj. apply Hout6. destruct (PrBounds.in_fat_is_copy_sector v fsz j Hj) as (copy & k & Hk & ->).
    exact (PrBounds.fat_sector_outside_cluster v fsz copy k c FL Hk C1). }
  assert (Hnew6 : fat_get (s_disk s6) v 0 c = enc v CL_EOF).
  { rewrite (fat_same_get v fsz _ _ c FL C2 Hfs16). apply (ae_new _ _ _ _ _ _ _ _ Heff). discriminate. }
  assert (Hoth6 : forall x, x < v_clusters v + 2 -> x <> c -> fat_get (s_disk s6) v 0 x = fat_get (s_disk s) v 0 x).
  { intros x Hx Hne. rewrite (fat_same_get v fsz _ _ x FL Hx Hfs16).
    apply (ae_other _ _ _ _ _ _ _ _ Heff); [exact (layout_sector v fsz x FL Hx)|exact Hne|discriminate]. }
  destruct (wf_new_head (s_disk s) (s_disk s6) v hs c W C1 C2 C3 Hnew6 (fun x _ X2 Hne => Hoth6 x X2 Hne))
    as (W6 & Hch6 & Hfresh & Hkeep).
  assert (Hvols6 : s_vols s6 = s_vols s1) by (rewrite (proj1 M6); reflexivity).
  constructor.
  - rewrite Hvols6. exact Evols.
  - exact G1.
  - apply (alloc_pre_frame v fsz vi v1 s1 s6 Hpre1 G1 Hnf6 Hc6); [rewrite Hvols6; exact Hv1|exact Hfs16].
  - apply (tabs8_trans _ s5); [|exact (tabs8_mgr _ _ M6)]. unfold tabs8. cbn. repeat split; assumption.
  - destruct M6 as (_ & _ & _ & _ & E & _). rewrite E. cbn. rewrite A4. reflexivity.
  - assert (Hbw1 : blocks_wf (s_disk s1)) by exact (alloc_blocks_wf _ _ _ _ _ _ _ _ Hbw Heff).
    assert (Hdl : length dot = 32%nat) by (apply ser_bytes_length; reflexivity).
    assert (Hddl : length dotdot = 32%nat) by (apply ser_bytes_length; reflexivity).
    assert (Hzl : length zero_block = 512%nat) by apply repeat_length.
    assert (Hbw5 : blocks_wf (s_disk s5)).
    { rewrite D5. apply blocks_wf_set; [exact Hbw1|].
      rewrite set_bytes_length; rewrite set_bytes_length; rewrite ?Hzl, ?Hdl, ?Hddl; cbn; lia. }
    intros i. destruct (N.le_gt_cases (start + 1) i) as [Hi1|Hi1]; [destruct (N.lt_ge_cases i (start + v_spc v)) as [Hi2|Hi2]|].
    + rewrite Hz6 by lia. exact Hzl.
    + rewrite Hfr6 by lia. apply Hbw5.
    + rewrite Hfr6 by lia. apply Hbw5.
  - constructor.
    + repeat split; assumption.
    + exact Hstart6.
    + intros k K1 K2. apply Hz6; lia.
  - exact W6.
  - exact Hch6.
  - exact Hfresh.
  - exact Hkeep.
  - intros j Hj Hnc. rewrite Hout6.
    + apply (alloc_frame_blocks vi v fsz None false s c s1 Hpre Hprev0 Heff j Hj). intros E. discriminate E.
    + rewrite in_cluster_blocks_iff in Hnc. unfold in_cluster in Hnc. fold start in Hnc. lia.
  - exact Hoth6.
  - assert (T1 : PrOrder.tsteps s s1 (fat_writes v c)).
    { pose proof (tr_ext_tsteps _ _ _ (ae_trace _ _ _ _ _ _ _ _ Heff)) as T. rewrite dwrites_alloc in T.
      cbn [app] in T. rewrite app_nil_r in T. exact T. }
    rewrite (PrBounds.cluster_blocks_cons v c Hspc). fold start.
    exact (PrOrder.tsteps_trans _ _ _ _ _ T1 (PrOrder.tsteps_trans _ _ _ _ _ T5 T6)).
Qed.


(* ================================================================== 2. the media before the slot is written *)
(* PrCrashMkdir.mk_crash with the cluster c of the new directory named: c is a lost one-cluster chain *)
Inductive mk_crashc (fsz : N) (v : vol) (hs : list N) (parent : N) (pbl : list N) (c : N) (D : disk) : disk -> Prop :=
| mkcc_keep d' lost :
    fat_wf d' v ((hs ++ lost) ++ [c]) -> chain_at d' v c [c] ->
    (forall h ch, In h hs -> chain_at D v h ch -> chain_at d' v h ch) -> free_frame fsz v D d' ->
    mk_crashc fsz v hs parent pbl c D d'
| mkcc_grown d' c' pc pch :
    negb (v_fat32 v) && (parent =? CL_ROOT) = false -> pc = dir_first_cluster v parent ->
    In pc hs -> chain_at D v pc pch -> pbl = flat_map (cluster_blocks v) pch ->
    2 <= c' -> c' < v_clusters v + 2 -> fat_get D v 0 c' = 0 ->
    (forall j, In j (cluster_blocks v c') -> disk_get d' j = zero_block) ->
    fat_wf d' v (hs ++ [c]) -> chain_at d' v c [c] -> chain_at d' v pc (pch ++ [c']) ->
    (forall h ch, In h hs -> h <> pc -> chain_at D v h ch -> chain_at d' v h ch) ->
    free_frame fsz v D d' ->
    mk_crashc fsz v hs parent pbl c D d'.

Lemma px_crashc fsz vi v hs pcl parent pbl s c s6 v1 : fat_layout v fsz ->
  prefix_ok fsz vi v hs pcl s c s6 v1 -> mk_crashc fsz v hs parent pbl c (s_disk s) (s_disk s6).
Proof.
  intros L PX. destruct (mk_range _ _ _ _ _ _ (px_cluster _ _ _ _ _ _ _ _ _ PX)) as (C1 & C2 & C3).
  apply (mkcc_keep fsz v hs parent pbl c (s_disk s) (s_disk s6) []).
  - rewrite app_nil_r. apply (fat_wf_perm _ v (c :: hs)); [apply Permutation_cons_append|exact (px_wf _ _ _ _ _ _ _ _ _ PX)].
  - exact (px_new _ _ _ _ _ _ _ _ _ PX).
  - exact (px_chains _ _ _ _ _ _ _ _ _ PX).
  - intros j J1 J2. exact (px_frame _ _ _ _ _ _ _ _ _ PX j J1 (J2 c C1 C2 C3)).
Qed.

Notation wnde vi parent sfn c := (write_new_directory_entry vi parent sfn A_DIRECTORY c).

(* the fault-free entry write from the state after the common prefix *)
Theorem mkf_W fsz total vi v hs parent sfn pbl s c s6 v1 :
  PrBounds.part_layout v total fsz -> clusters_fit v ->
  dir_blocks (s_disk s) v parent = Some pbl ->
  (negb (v_fat32 v) && (parent =? CL_ROOT) = false -> In (dir_first_cluster v parent) hs) ->
  length sfn = 11%nat ->
  prefix_ok fsz vi v hs (if parent =? CL_ROOT then CL_EMPTY else parent) s c s6 v1 ->
  exists rW s7, wnde vi parent sfn c s6 = (rW, s7) /\
    ((rW = Err NotEnoughSpace /\ step_writes s6 s7 = []) \/
     (exists e sp ib bb l np, rW = Ok e /\ s_trace s7 = DWrite ib bb :: l ++ s_trace sp /\
        Forall PrModes.is_read_call l /\ s_trace sp = np ++ s_trace s6 /\
        forall d', crash_disks s6 sp d' -> mk_crashc fsz v hs parent pbl c (s_disk s) d')).
Proof.
  intros L Hfit Hbl Hhead Hname PX.
  destruct (prefix_parent fsz total vi v hs _ parent pbl s c s6 v1 L Hbl Hhead PX) as (Hf & Hsame & Hslots & Hbl6).
  pose proof PX as [Evols G Hpre6 Htabs Hclk Hbw6 Hcl W6 Hnew6 Hfresh Hkeep Hframe Hfat Hsteps].
  pose proof Hpre6 as ((Hnf6 & Hc6 & Hvi6 & _) & FL1 & Hh1). pose proof (fl_vol v1 fsz FL1) as Hvok1.
  assert (FL : fat_layout v fsz) by exact (geo_layout v1 v fsz (geo_eq_sym _ _ G) FL1).
  pose proof (px_crashc fsz vi v hs _ parent pbl s c s6 v1 FL PX) as K6.
  destruct (find nv (slots_of (s_disk s) pbl)) as [[[blk off] sl0]|] eqn:Hfind.
  { (* the parent has a free slot: reads, then the one write *)
    pose proof (find_some _ _ Hfind) as [Hin _].
    apply In_slots_of in Hin. destruct Hin as (b & i & Hb & Hi & Et). injection Et as Eb Eo Es. subst b.
    assert (Hfind6 : find nv (slots_of (s_disk s6) pbl) = Some (blk, off, sl0)) by (rewrite Hslots; exact Hfind).
    pose proof (write_new_directory_entry_spec vi v1 parent sfn A_DIRECTORY c s6 pbl blk off sl0
                  Hvi6 Hvok1 Hnf6 Hc6 Hbl6 Hfind6 Hname (Hbw6 blk)) as Spec.
    cbv zeta in Spec. destruct Spec as (s' & Erun & _ & _ & _ & _ & _ & _ & _ & _ & l & Htr & Hl).
    eexists _, s'. split; [exact Erun|]. right.
    eexists _, s6, blk, _, l, []. split; [reflexivity|]. split; [exact Htr|]. split; [exact Hl|]. split; [reflexivity|].
    intros d' Hd. rewrite (crash_disks_quiet s6 s6 d' (step_writes_same s6 s6 eq_refl) Hd). exact K6. }
  destruct (mk_range _ _ _ _ _ _ Hcl) as (C1 & C2 & C3).
  destruct (geo_facts v v1 G) as (Gspc & G32 & Gcl & Gwf & Gcfb & Gcb & Gfg & Genc & Gdfc & Groot & Gfw & Gfat & Gdata).
  assert (Hstop6 : stop_at N free_in (s_disk s6) pbl = None) by (rewrite stop_at_free, Hslots, Hfind; reflexivity).
  set (body := create_body (v_fat32 v1) sfn A_DIRECTORY c).
  set (post := create_post (v_fat32 v1) sfn A_DIRECTORY c).
  pose proof (create_body_none (v_fat32 v1) sfn A_DIRECTORY c) as Bn. fold body in Bn.
  assert (Bs : forall blk t x, no_faults t -> cache_ok t -> free_in (s_disk t) blk = Some x ->
                 exists r t', body blk t = (Ok (Some r), t') /\ post blk x t r t')
    by (intros blk0 t0 x; exact (create_body_some (v_fat32 v1) sfn A_DIRECTORY c blk0 t0 x)).
  unfold dir_blocks in Hbl. destruct (negb (v_fat32 v) && (parent =? CL_ROOT)) eqn:Eroot.
  - (* the fixed root directory of a FAT16 volume is full *)
    apply andb_true_iff in Eroot. destruct Eroot as [H16 Hdc]. apply negb_true_iff in H16.
    apply N.eqb_eq in Hdc. subst parent. inversion Hbl; subst pbl. clear Hbl.
    assert (H16' : v_fat32 v1 = false) by (rewrite G32; exact H16).
    pose proof (walk_dir_root16_stop dirent N free_in body post Bn Bs vi v1 true Hvok1 H16'
                  (N.to_nat (v_clusters v1) + 3) s6 Hvi6 Hnf6 Hc6) as Hw.
    rewrite Groot, Hstop6 in Hw. destruct Hw as (s7 & Ewalk & Hrd7).
    assert (Ewn : write_new_directory_entry vi CL_ROOT sfn A_DIRECTORY c s6 = (Err NotEnoughSpace, s7)).
    { rewrite write_new_is. rewrite (bind_ok _ _ _ _ _ (get_vol_some vi v1 s6 Hvi6)).
      fold body. unfold dir_first_cluster, walk_fuel. rewrite H16'. cbn [andb].
      replace (N.to_nat (v_clusters v1) + 4)%nat with (S (N.to_nat (v_clusters v1) + 3)) by lia.
      rewrite (bind_ok _ _ _ _ _ Ewalk). reflexivity. }
    eexists _, s7. split; [exact Ewn|]. left. split; [reflexivity|exact (proj2 (rd_traced s6 s7 Hrd7))].
  - (* the parent is a cluster chain: it has to grow *)
    destruct (chain_of (s_disk s) v (dir_first_cluster v parent) (walk_fuel v)) as [pch|] eqn:Hch; [|discriminate].
    inversion Hbl; subst pbl. clear Hbl.
    set (pc := dir_first_cluster v parent) in *.
    assert (Hpc : In pc hs) by exact (Hhead eq_refl).
    assert (Hch6 : chain_at (s_disk s6) v pc pch) by exact (Hkeep pc pch Hpc Hch).
    assert (Hch61 : chain_of (s_disk s6) v1 pc (walk_fuel v1) = Some pch)
      by (apply (chain_at_geo _ v v1 pc pch G); exact Hch6).
    assert (Hstop61 : stop_at N free_in (s_disk s6) (flat_map (cluster_blocks v1) pch) = None).
    { replace (flat_map (cluster_blocks v1) pch) with (flat_map (cluster_blocks v) pch); [exact Hstop6|].
      apply flat_map_ext. intros x. symmetry. apply Gcb. }
    destruct (walk_dir_chain_grow dirent N free_in body post Bn Bs vi v1 Hvok1 (walk_fuel v1) pc s6 pch
                Hvi6 Hnf6 Hc6 Hch61 Hstop61) as (s7 & Hrd7 & Ewalk).
    pose proof Hrd7 as ((Hd7 & Hc7 & Hnf7 & Hm7) & _).
    pose proof (alloc_pre_ro vi v1 fsz s6 s7 Hpre6 (proj1 Hrd7)) as Hpre7.
    destruct (chain_of_head _ _ _ _ _ Hch) as (_ & _ & l' & El).
    assert (Hne : pch <> []) by (rewrite El; discriminate).
    destruct (exists_last Hne) as (pre & p & Esplit).
    assert (Elast : last pch pc = p) by (rewrite Esplit; apply last_last).
    rewrite Elast in Ewalk.
    assert (Hpin : In p pch) by (rewrite Esplit; apply in_or_app; right; left; reflexivity).
    pose proof (chain_of_range _ _ _ _ _ Hch) as Rg. rewrite Forall_forall in Rg. destruct (Rg p Hpin) as (P1 & P2).
    assert (Hprev : forall q, Some p = Some q -> q < v_clusters v1 + 2)
      by (intros q E; inversion E; subst q; rewrite Gcl; exact P2).
    destruct (alloc_cluster_total vi v1 fsz (Some p) true s7 Hpre7 Hprev)
      as (o & s8 & Hal & [(-> & Hnone & Hd8 & Hm8 & T8 & Hst8)|(c' & -> & Heff)]).
    + (* no free cluster is left *)
      assert (Ewn : write_new_directory_entry vi parent sfn A_DIRECTORY c s6 = (Err NotEnoughSpace, s8)).
      { rewrite write_new_is. rewrite (bind_ok _ _ _ _ _ (get_vol_some vi v1 s6 Hvi6)).
        rewrite Gdfc. fold pc body.
        assert (E : walk_dir (walk_fuel v1) vi pc true body s6 = (Err NotEnoughSpace, s8))
          by (rewrite Ewalk; exact (bind_err _ _ _ _ _ Hal)).
        exact (bind_err _ _ _ _ _ E). }
      eexists _, s8. split; [exact Ewn|]. left. split; [reflexivity|].
      apply tsteps_nil_writes.
      exact (PrOrder.tsteps_trans _ _ _ [] [] (rd_tsteps _ _ Hrd7) (tr_ext_tsteps _ _ _ T8)).
    + (* the parent grows by the zeroed cluster c' *)
      destruct (ae_range _ _ _ _ _ _ _ _ Heff) as (R1 & R2 & R3). pose proof R2 as R2'. pose proof R3 as R3'.
      rewrite Gcl in R2. rewrite Gfg in R3.
      assert (Hpnz : fat_get (s_disk s7) v 0 p <> 0).
      { rewrite Hd7. destruct (chain_at_mem _ _ _ _ p Hch6 Hpin) as (_ & _ & Z & _). exact Z. }
      assert (Hpc' : p <> c') by (intros ->; apply Hpnz; exact R3).
      assert (Hcc' : c' <> c).
      { intros ->. destruct (chain_at_mem _ _ _ _ c Hnew6 (or_introl eq_refl)) as (_ & _ & Z & _).
        apply Z. rewrite <- Hd7. exact R3. }
      assert (R3s : fat_get (s_disk s) v 0 c' = 0) by (rewrite <- (Hfat c' R2 Hcc'), <- Hd7; exact R3).
      assert (W7 : fat_wf (s_disk s7) v1 (c :: hs)) by (rewrite Hd7; exact (fat_wf_geo _ v v1 _ G W6)).
      assert (Hch7 : chain_at (s_disk s7) v1 pc (pre ++ [p]))
        by (rewrite <- Esplit, Hd7; apply (chain_at_geo _ v v1 pc pch G); exact Hch6).
      destruct (alloc_vol_explicit vi v1 fsz (Some p) true s7 c' s8 Hpre7 Heff) as (v2 & Evols8 & G12 & Hpre8).
      pose proof (geo_eq_trans _ _ _ G G12) as G2.
      destruct (geo_facts v v2 G2) as (Gspc2 & G322 & Gcl2 & Gwf2 & Gcfb2 & Gcb2 & Gfg2 & Genc2 & _ & _ & _ & Gfat2 & _).
      pose proof Hpre8 as ((Hnf8 & Hc8 & Hvi8 & _) & FL2 & Hh2). pose proof (fl_vol v2 fsz FL2) as Hvok2.
      pose proof (chain_length _ _ _ _ _ Hch) as Hlen.
      assert (Hk : exists k', (walk_fuel v1 - length pch)%nat = S k').
      { exists (walk_fuel v1 - length pch - 1)%nat. rewrite Gwf. unfold walk_fuel. lia. }
      destruct Hk as (k' & Ek). rewrite Ek in Ewalk.
      pose proof (PrBounds.pl_spc v total fsz L) as Hspc.
      set (nb := cluster_first_block v c').
      assert (Hz8 : forall k, k < v_spc v -> disk_get (s_disk s8) (nb + k) = zero_block).
      { intros k Hk. unfold nb. rewrite <- Gcfb. apply (ae_zero _ _ _ _ _ _ _ _ Heff eq_refl). rewrite Gspc. exact Hk. }
      assert (Hnb8 : disk_get (s_disk s8) nb = zero_block) by (rewrite <- (N.add_0_r nb); apply Hz8; lia).
      assert (Hnew8 : fat_get (s_disk s8) v1 0 c' = enc v1 CL_EOF)
        by (apply (ae_new _ _ _ _ _ _ _ _ Heff); congruence).
      assert (Hcs2 : chain_of (s_disk s8) v2 c' (S k') = Some [c']).
      { rewrite (chain_of_geo _ v1 v2 G12). apply (PrWrite.chain_single _ _ _ k'); [exact R1|rewrite Gcl; exact R2|].
        rewrite fat_entry_get. exact Hnew8. }
      assert (Est : stop_at N free_in (s_disk s8) (flat_map (cluster_blocks v2) [c']) = Some (nb, 0)).
      { cbn [flat_map]. rewrite app_nil_r, Gcb2, (PrBounds.cluster_blocks_cons v c' Hspc). fold nb.
        unfold stop_at. cbn [first_some]. unfold free_in at 1. rewrite Hnb8.
        replace (free_slot 16 zero_block 0) with (Some 0) by (vm_compute; reflexivity). reflexivity. }
      pose proof (walk_dir_chain_stop dirent N free_in body post Bn Bs vi v2 true Hvok2 (S k') c' s8 [c']
                    Hvi8 Hnf8 Hc8 Hcs2) as Hw.
      rewrite Est in Hw. destruct Hw as (s0 & r & s' & Erun & Hrd0 & HQ).
      pose proof Hrd0 as ((Hd0 & Hc0 & Hnf0 & Hm0) & _).
      unfold post, create_post in HQ. cbv zeta in HQ.
      destruct HQ as (Er & Hd' & Hc' & Hnf' & Hclk' & Htab' & l & Htr & Hl).
      assert (Ewn : write_new_directory_entry vi parent sfn A_DIRECTORY c s6 = (Ok r, s')).
      { rewrite write_new_is. rewrite (bind_ok _ _ _ _ _ (get_vol_some vi v1 s6 Hvi6)). rewrite Gdfc. fold pc body.
        assert (E : walk_dir (walk_fuel v1) vi pc true body s6 = (Ok (Some r), s'))
          by (rewrite Ewalk, (bind_ok _ _ _ _ _ Hal); exact Erun).
        rewrite (bind_ok _ _ _ _ _ E). reflexivity. }
      destruct (rd_traced s6 s7 Hrd7) as (T67 & Q67).
      pose proof (ae_trace _ _ _ _ _ _ _ _ Heff) as X78. pose proof (tr_ext_traced _ _ _ X78) as T78.
      destruct (rd_traced s8 s0 Hrd0) as (T80 & Q80).
      pose proof (traced_trans _ _ _ T67 (traced_trans _ _ _ T78 T80)) as (np & Enp & _).
      eexists _, s'. split; [exact Ewn|]. right.
      eexists _, s0, nb, _, l, np. split; [reflexivity|]. split; [exact Htr|]. split; [exact Hl|]. split; [exact Enp|].
      set (P := mk_crashc fsz v hs parent (flat_map (cluster_blocks v) pch) c (s_disk s)).
      assert (Hfrk : forall d', (forall j, PrCrash.non_fat v1 fsz j -> ~ In j (cluster_blocks v1 c') ->
                                   disk_get d' j = disk_get (s_disk s7) j) -> free_frame fsz v (s_disk s) d').
      { intros d' Gf j J1 J2. rewrite (Gf j).
        - rewrite Hd7. exact (Hframe j J1 (J2 c C1 C2 C3)).
        - exact (not_fat_not_sector v1 fsz j (fun Hi => J1 (proj1 (Gfat fsz j) Hi))).
        - rewrite Gcb. exact (J2 c' R1 R2 R3s). }
      assert (Hc7c : chain_at (s_disk s7) v1 c [c]) by (rewrite Hd7; apply (chain_at_geo _ v v1 c [c] G); exact Hnew6).
      assert (A78 : forall d', crash_disks s7 s8 d' -> P d').
      { intros d' Hd. apply (crash_disks_tr_ext s7 s8 _ d' X78) in Hd. destruct Hd as (k & _ & ->).
        destruct (alloc_media fsz v1 (hs ++ [c]) (s_disk s7) (Some p) true c' k pc pre FL1 (link_ok_geo v v1 G Hfit)
                    (PrCrash.st_ok_len vi v1 fsz s7 (proj1 Hpre7))) as (Gf & [(lost & Wk & Hck)|(p0 & Ep & Wk & Hnewc & Hothk & Hzk)]).
        - apply (fat_wf_perm _ v1 (c :: hs)); [apply Permutation_cons_append|exact W7].
        - exact R1.
        - exact R2'.
        - exact R3'.
        - intros p0 Ep. injection Ep as <-. split; [apply in_or_app; left; exact Hpc|exact Hch7].
        - apply (mkcc_keep fsz v hs parent _ c (s_disk s) _ lost).
          + apply (fat_wf_geo _ v1 v _ (geo_eq_sym _ _ G)).
            apply (fat_wf_perm _ v1 ((hs ++ [c]) ++ lost)); [|exact Wk].
            rewrite <- !app_assoc. apply Permutation_app_head. apply Permutation_app_comm.
          + apply (chain_at_geo _ v v1 c [c] G). apply (Hck c [c]); [apply in_or_app; right; left; reflexivity|exact Hc7c].
          + intros h ch Hh Hc. apply (chain_at_geo _ v v1 h ch G). apply (Hck h ch (in_or_app _ _ _ (or_introl Hh))).
            rewrite Hd7. apply (chain_at_geo _ v v1 h ch G). exact (Hkeep h ch Hh Hc).
          + exact (Hfrk _ Gf).
        - injection Ep as <-.
          apply (mkcc_grown fsz v hs parent _ c (s_disk s) _ c' pc pch).
          + exact Eroot.
          + reflexivity.
          + exact Hpc.
          + exact Hch.
          + reflexivity.
          + exact R1.
          + exact R2.
          + exact R3s.
          + intros j Hj. apply (Hzk eq_refl). rewrite Gcb. exact Hj.
          + exact (fat_wf_geo _ v1 v _ (geo_eq_sym _ _ G) Wk).
          + apply (chain_at_geo _ v v1 c [c] G). apply (Hothk c [c]); [apply in_or_app; right; left; reflexivity| |exact Hc7c].
            intros ->. exact (Hfresh Hpc).
          + rewrite Esplit, <- app_assoc. cbn [app]. apply (chain_at_geo _ v v1 _ _ G). exact Hnewc.
          + intros h ch Hh Hn Hc. apply (chain_at_geo _ v v1 h ch G). apply (Hothk h ch (in_or_app _ _ _ (or_introl Hh)) Hn).
            rewrite Hd7. apply (chain_at_geo _ v v1 h ch G). exact (Hkeep h ch Hh Hc).
          + exact (Hfrk _ Gf). }
      assert (P8 : P (s_disk s8)) by exact (A78 _ (crash_disks_new s7 s8 T78)).
      apply (crash_all_trans P s6 s7 s0 T67 (traced_trans _ _ _ T78 T80)).
      * exact (crash_all_quiet P s6 s7 Q67 K6).
      * apply (crash_all_trans P s7 s8 s0 T78 T80 A78).
        exact (crash_all_quiet P s8 s0 Q80 P8).
Qed.

(* ================================================================== 3. the release, run without a fault *)
Theorem release_after fsz vi v w hs parent pbl c D t :
  fat_layout w fsz -> geo_eq v w -> st_ok vi w fsz t ->
  mk_crashc fsz v hs parent pbl c D (s_disk t) ->
  exists s', free_cluster_chain vi c t = (Ok tt, s') /\ traced t s' /\
             mk_crash fsz v hs parent pbl D (s_disk s').
Proof.
  intros Lw G Hst HK.
  destruct (geo_facts v w G) as (_ & _ & _ & _ & _ & Gcb & _ & _ & _ & _ & _ & Gfat & _).
  assert (Lv : fat_layout v fsz) by exact (geo_layout w v fsz (geo_eq_sym _ _ G) Lw).
  assert (Hnfj : forall j, ~ PrBounds.in_fat v fsz j -> PrCrash.non_fat w fsz j).
  { intros j J1. exact (not_fat_not_sector w fsz j (fun Hi => J1 (proj1 (Gfat fsz j) Hi))). }
  remember (s_disk t) as d7 eqn:Ed7.
  destruct HK as [d7 lost Wd Hcc Hk Hfr|d7 c' pc pch Eroot Epc Hpc Hpch Epbl R1 R2 R3 Hz Wd Hcc Hnew Hoth Hfr]; subst d7.
  - destruct (free_media vi w fsz t c (hs ++ lost) Lw Hst (fat_wf_geo _ v w _ G Wd)
                (proj2 (chain_at_geo _ v w c [c] G) Hcc)) as (s' & Erun & Tr & Hall).
    exists s'. split; [exact Erun|]. split; [exact Tr|].
    destruct (Hall _ (crash_disks_new t s' Tr)) as (Hnf & lost' & Wd' & Hcd).
    apply mkc_keep. exists (lost ++ lost'). split; [|split].
    + rewrite app_assoc. exact (fat_wf_geo _ w v _ (geo_eq_sym _ _ G) Wd').
    + intros h ch Hh Hch. apply (chain_at_geo _ v w h ch G). apply (Hcd h ch (in_or_app _ _ _ (or_introl Hh))).
      apply (chain_at_geo _ v w h ch G). exact (Hk h ch Hh Hch).
    + intros j J1 J2. rewrite (Hnf j (Hnfj j J1)). exact (Hfr j J1 J2).
  - destruct (free_media vi w fsz t c hs Lw Hst (fat_wf_geo _ v w _ G Wd)
                (proj2 (chain_at_geo _ v w c [c] G) Hcc)) as (s' & Erun & Tr & Hall).
    exists s'. split; [exact Erun|]. split; [exact Tr|].
    destruct (Hall _ (crash_disks_new t s' Tr)) as (Hnf & lost' & Wd' & Hcd).
    apply (mkc_grown fsz v hs parent pbl D _ c' pc pch lost'); try assumption.
    + intros j Hj. rewrite (Hnf j).
      * exact (Hz j Hj).
      * apply Hnfj. intros Hi. exact (fat_not_cluster v fsz j c' Lv R1 Hi Hj).
    + exact (fat_wf_geo _ w v _ (geo_eq_sym _ _ G) Wd').
    + apply (chain_at_geo _ v w pc _ G). apply (Hcd pc _ Hpc). apply (chain_at_geo _ v w pc _ G). exact Hnew.
    + intros h ch Hh Hn Hch. apply (chain_at_geo _ v w h ch G). apply (Hcd h ch Hh).
      apply (chain_at_geo _ v w h ch G). exact (Hoth h ch Hh Hn Hch).
    + intros j J1 J2. rewrite (Hnf j (Hnfj j J1)). exact (Hfr j J1 J2).
Qed.

Print Assumptions mkf_prefix.
Print Assumptions mkf_W.
Print Assumptions release_after.
