(* Extraction of the executable model (ExtrOcamlBasic only). *)
From Coq Require Import NArith ZArith List FMapPositive Extraction ExtrOcamlBasic.
From SdFs Require Import FsTypes FsBase FsFat FsMgr FsExt PrGlobalDef PrFsck PrFsck2.
Extraction Language OCaml.
Extraction "../../build/extract/fs/fsx.ml" step xstep init_state disk_set disk_get zero_block sfn_of_str clock_ts PositiveMap.elements PositiveMap.empty fs_inv_fast crash_inv_fast pend_of bpb_fat_size.
