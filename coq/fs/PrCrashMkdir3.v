(* EXAMPLES for PrCrashMkdir / PrCrashMkdir2: the hypotheses of step_crash_Mkdir / step_keeps_Mkdir
   are satisfiable on runs that take the interesting paths, and the decider PrCrashDef.crash_inv_b
   finds on every crashed medium the lost chains the proofs predict.
   1  a blank FAT16 volume (PrGlobalMkdir.mkd_ex_state): Mkdir in the fixed root directory
      (mk_slot: seven writes - both FAT copies, the four blocks of the new cluster, the root block last).
   2  PrGlobalDef's gx_state (FAT16, 100 clusters of 2 blocks; root: file A, directory D (cluster
      4) with file C, file B open with the pending chain [6]) after 29 Mkdir calls that fill the
      32 slots of D: the next Mkdir in D has to GROW D (mk_grown): eight writes
        FAT (36 := end of chain), blocks 98 99 (dot entries, zeros), FAT (37 := end of chain),
        blocks 100 101 (zeros), FAT (35 -> 37: D's chain grows), block 100 (the entry).
      Lost chains on the nine crashed media: [6] / [6;36] x3 / [6;36;37] x3 / [6;36] (37 belongs
      to D now, zeroed) / [6] (36 is the new directory).  File A of the root is found on every
      one of them with the same entry and bytes.
   3  the same state after 29 Mkdir calls in the ROOT (full): the next Mkdir takes a cluster, finds
      no slot, releases the cluster (mk_full1). *)
From Coq Require Import NArith ZArith List Bool Lia Arith FMapPositive.
From SdFs Require Import FsTypes FsBase FsFat FsMgr FsLemmas PrBase PrDir PrAllocEffect PrWf PrGlobalDef PrGlobalMkdir PrGlobal.
From SdFs Require PrHandles PrRw.
From SdFs Require Import PrCrash PrCrashDef PrCrashDef2 PrCrashDef4 PrCrashDef5 PrCrashDelete PrCrashMkdir2.
Import ListNotations.
Open Scope N_scope.

(* ================================================================== 1. the fixed root directory *)
Example mkdir_root_crash :
  let s' := snd (step (Mkdir 9 [65]) mkd_ex_state) in
  fst (step (Mkdir 9 [65]) mkd_ex_state) = Ok RUnit /\
  length (step_writes mkd_ex_state s') = 7%nat /\
  forall d', crash_disks mkd_ex_state s' d' -> crash_inv 256 PrFat.ex_vol16 d'.
Proof.
  cbv zeta. split; [vm_compute; reflexivity|]. split; [vm_compute; reflexivity|].
  assert (I0 : PrHandles.all_ids mkd_ex_state = [0; 9] /\ s_next_id mkd_ex_state = 10) by (vm_compute; split; reflexivity).
  assert (Hfresh : id_fresh mkd_ex_state).
  { intros x Hx. rewrite (proj1 I0) in Hx. rewrite (proj2 I0). destruct Hx as [<-|[<-|[]]]; discriminate. }
  assert (Hk : op_known_ok (Mkdir 9 [65])) by (repeat split; vm_compute; reflexivity).
  destruct (step (Mkdir 9 [65]) mkd_ex_state) as [r s'] eqn:E. cbn [snd].
  intros d' Hd. exact (step_crash_Mkdir 256 0 9 [65] mkd_ex_state r s' mkd_ex_inv Hfresh Hk E PrFat.ex_vol16 d' eq_refl Hd).
Qed.

(* ================================================================== 2. the parent directory grows *)
Definition cg_names : list N :=
  firstn 29 ([48;49;50;51;52;53;54;55;56;57] ++ [65;66;68;69;70;71;72;73;74;75;76;77;78;79;80;81;82;83;84;85;86;87;88;89;90]).
Definition cg_fill : list op := map (fun c => Mkdir 9 [c]) cg_names.
Definition cg_state : st := snd (run_ops cg_fill gx_state).
Definition cg_op : op := Mkdir 9 [89; 89].
Definition cg_after : st := snd (step cg_op cg_state).
(* the volume record after the 29 calls: same geometry, the allocation hint moved *)
Definition cg_vol : vol := set_v_next_free exd_vol (Some 36).

Lemma gx_handles_ok : PrHandles.handles_ok 10 gx_state.
Proof.
  split; [|split; [|split]].
  - split; [vm_compute; reflexivity|]. intros x Hx.
    assert (E : PrHandles.all_ids gx_state = [0; 5; 9; 7]) by (vm_compute; reflexivity). rewrite E in Hx.
    destruct Hx as [<-|[<-|[<-|[<-|[]]]]]; (split; [vm_compute; reflexivity|]).
    + exists 10. repeat split; vm_compute; try reflexivity; discriminate.
    + exists 5. repeat split; vm_compute; try reflexivity; discriminate.
    + exists 1. repeat split; vm_compute; try reflexivity; discriminate.
    + exists 3. repeat split; vm_compute; try reflexivity; discriminate.
  - vm_compute. repeat constructor; intros [].
  - vm_compute. repeat constructor; cbn; intuition discriminate.
  - vm_compute. repeat constructor; intros [].
Qed.

Lemma cg_fill_ok : Forall op_known_ok cg_fill.
Proof.
  apply Forall_forall. intros o Ho. unfold cg_fill in Ho. apply in_map_iff in Ho. destruct Ho as (c & <- & Hc).
  split; [split; exact I|]. cbn [op_name_ok].
  assert (H : forallb (fun c => negb (e5_name [c])) cg_names = true) by (vm_compute; reflexivity).
  rewrite forallb_forall in H. apply negb_true_iff. exact (H c Hc).
Qed.

Lemma cg_inv : fs_inv 1 0 cg_state.
Proof.
  pose proof (C03_history 1 0 cg_fill gx_state 10 (proj1 fs_inv_example) gx_handles_ok) as H.
  unfold cg_state. destruct (run_ops cg_fill gx_state) as [rs s'] eqn:E. cbn [snd].
  apply H; [vm_compute; reflexivity|exact cg_fill_ok].
Qed.

Definition cg_tree : list node :=
  match tree_of 5 (s_disk cg_state) cg_vol (root16_blocks cg_vol) with Some T => T | None => [] end.
Definition cg_nA : node := nth 0 cg_tree (NFile (mk_dirent [] (clock_ts 0) (clock_ts 0) 0 0 0 0 0) []).

Example mkdir_grow_crash :
  fst (step cg_op cg_state) = Ok RUnit /\
  map fst (step_writes cg_state cg_after) = [11; 98; 99; 11; 100; 101; 11; 100] /\
  (forall d', crash_disks cg_state cg_after d' -> crash_inv 1 cg_vol d') /\
  (exists bytes, file_on_medium (s_disk cg_state) cg_vol [e_name (node_entry cg_nA)] (node_entry cg_nA) bytes /\
     e_size (node_entry cg_nA) = 1500 /\
     forall d', crash_disks cg_state cg_after d' ->
       file_on_medium d' cg_vol [e_name (node_entry cg_nA)] (node_entry cg_nA) bytes) /\
  map (fun k => let d := prefix_disk (step_writes cg_state cg_after) k (s_disk cg_state) in
                (crash_inv_b 5 1 d cg_vol,
                 match tree_of 5 d cg_vol (root16_blocks cg_vol) with
                 | Some T => (length (all_nodes T), lost_heads d cg_vol (heads cg_vol T)) | None => (0%nat, []) end))
      (seq 0 9)
  = [(true, (33%nat, [6])); (true, (33%nat, [6; 36])); (true, (33%nat, [6; 36])); (true, (33%nat, [6; 36]));
     (true, (33%nat, [6; 36; 37])); (true, (33%nat, [6; 36; 37])); (true, (33%nat, [6; 36; 37]));
     (true, (33%nat, [6; 36])); (true, (34%nat, [6]))].
Proof.
  assert (I0 : PrHandles.all_ids cg_state = [0; 5; 9; 7] /\ s_next_id cg_state = 10) by (vm_compute; split; reflexivity).
  assert (Hfresh : id_fresh cg_state).
  { intros x Hx. rewrite (proj1 I0) in Hx. rewrite (proj2 I0). destruct Hx as [<-|[<-|[<-|[<-|[]]]]]; discriminate. }
  assert (Hk : op_known_ok cg_op) by (repeat split; vm_compute; reflexivity).
  assert (Es : step cg_op cg_state = (Ok RUnit, cg_after)).
  { unfold cg_after. destruct (step cg_op cg_state) as [r s'] eqn:E. cbn [snd]. f_equal.
    change r with (fst (r, s')). rewrite <- E. vm_compute. reflexivity. }
  assert (Ev : s_vols cg_state = [cg_vol]) by (vm_compute; reflexivity).
  split; [rewrite Es; reflexivity|]. split; [vm_compute; reflexivity|].
  split; [intros d' Hd; exact (step_crash_Mkdir 1 0 9 [89; 89] cg_state _ _ cg_inv Hfresh Hk Es cg_vol d' Ev Hd)|].
  split; [|vm_compute; reflexivity].
  (* the file A of the root directory *)
  assert (ET : tree_of 5 (s_disk cg_state) cg_vol (root16_blocks cg_vol) = Some cg_tree) by (vm_compute; reflexivity).
  assert (ER : root_of (s_disk cg_state) cg_vol = Some (root16_blocks cg_vol, [])) by (vm_compute; reflexivity).
  assert (EA : exists chA, cg_nA = NFile (node_entry cg_nA) chA) by (eexists; vm_compute; reflexivity).
  destruct EA as (chA & EA).
  assert (HinA : In cg_nA cg_tree).
  { unfold cg_nA. apply nth_In. assert (L : length cg_tree = 3%nat) by (vm_compute; reflexivity). rewrite L. lia. }
  assert (CI : crash_inv_at (s_disk cg_state) cg_vol (root16_blocks cg_vol) [] cg_tree [6]).
  { constructor.
    - exact (root_of_sound _ _ _ _ ER).
    - exact (tree_of_sound 5 _ _ _ _ ET).
    - apply dir_ok_b_ok. vm_compute. reflexivity.
    - assert (H : forallb (node_ok_crash_b (s_disk cg_state) cg_vol CL_ROOT) cg_tree = true) by (vm_compute; reflexivity).
      rewrite forallb_forall in H. apply Forall_forall. intros n Hn. exact (node_ok_crash_b_ok _ _ n _ (H n Hn)).
    - apply fat_wf_b_spec. vm_compute. reflexivity.
    - apply nodup_pb_ok. vm_compute. reflexivity. }
  exists (firstn (N.to_nat (e_size (node_entry cg_nA))) (PrRw.file_bytes (s_disk cg_state) cg_vol chA)).
  assert (HA : file_on_medium (s_disk cg_state) cg_vol [e_name (node_entry cg_nA)] (node_entry cg_nA)
                 (firstn (N.to_nat (e_size (node_entry cg_nA))) (PrRw.file_bytes (s_disk cg_state) cg_vol chA))).
  { exists (root16_blocks cg_vol), [], cg_tree, [6], chA. split; [exact CI|]. split; [|reflexivity].
    rewrite <- EA. change (e_name (node_entry cg_nA)) with (e_name (node_entry cg_nA)).
    apply (na_here cg_tree cg_nA). exact HinA. }
  split; [exact HA|]. split; [vm_compute; reflexivity|].
  intros d' Hd.
  apply (step_keeps_Mkdir 1 0 9 [89; 89] cg_state _ _ cg_inv Hfresh Hk Es cg_vol _ _ _ Ev HA); [|exact Hd].
  intros [].
Qed.

(* ================================================================== 3. no room in the parent: the cluster is released *)
(* gx_state after 29 Mkdir calls in the ROOT: the 32 entries of the fixed FAT16 root directory are
   in use.  The next Mkdir in the root takes cluster 36, writes its two blocks, finds no slot and
   releases the cluster (mk_full1): NotEnoughSpace; four writes; cluster 36 is a lost one-cluster
   chain on the media in between and free again on the last one. *)
Definition cf_fill : list op := map (fun c => Mkdir 5 [c; 49]) cg_names.
Definition cf_state : st := snd (run_ops cf_fill gx_state).
Definition cf_op : op := Mkdir 5 [89; 89].
Definition cf_after : st := snd (step cf_op cf_state).

Lemma cf_fill_ok : Forall op_known_ok cf_fill.
Proof.
  apply Forall_forall. intros o Ho. unfold cf_fill in Ho. apply in_map_iff in Ho. destruct Ho as (c & <- & Hc).
  split; [split; exact I|]. cbn [op_name_ok].
  assert (H : forallb (fun c => negb (e5_name [c; 49])) cg_names = true) by (vm_compute; reflexivity).
  rewrite forallb_forall in H. apply negb_true_iff. exact (H c Hc).
Qed.

Lemma cf_inv : fs_inv 1 0 cf_state.
Proof.
  pose proof (C03_history 1 0 cf_fill gx_state 10 (proj1 fs_inv_example) gx_handles_ok) as H.
  unfold cf_state. destruct (run_ops cf_fill gx_state) as [rs s'] eqn:E. cbn [snd].
  apply H; [vm_compute; reflexivity|exact cf_fill_ok].
Qed.

Example mkdir_full_crash :
  fst (step cf_op cf_state) = Err NotEnoughSpace /\
  map fst (step_writes cf_state cf_after) = [11; 98; 99; 11] /\
  (forall d', crash_disks cf_state cf_after d' -> crash_inv 1 cg_vol d') /\
  map (fun k => let d := prefix_disk (step_writes cf_state cf_after) k (s_disk cf_state) in
                (crash_inv_b 5 1 d cg_vol,
                 match tree_of 5 d cg_vol (root16_blocks cg_vol) with
                 | Some T => (length (all_nodes T), lost_heads d cg_vol (heads cg_vol T)) | None => (0%nat, []) end))
      (seq 0 5)
  = [(true, (33%nat, [6])); (true, (33%nat, [6; 36])); (true, (33%nat, [6; 36])); (true, (33%nat, [6; 36]));
     (true, (33%nat, [6]))].
Proof.
  assert (I0 : PrHandles.all_ids cf_state = [0; 5; 9; 7] /\ s_next_id cf_state = 10) by (vm_compute; split; reflexivity).
  assert (Hfresh : id_fresh cf_state).
  { intros x Hx. rewrite (proj1 I0) in Hx. rewrite (proj2 I0). destruct Hx as [<-|[<-|[<-|[<-|[]]]]]; discriminate. }
  assert (Hk : op_known_ok cf_op) by (repeat split; vm_compute; reflexivity).
  assert (Es : step cf_op cf_state = (Err NotEnoughSpace, cf_after)).
  { unfold cf_after. destruct (step cf_op cf_state) as [r s'] eqn:E. cbn [snd]. f_equal.
    change r with (fst (r, s')). rewrite <- E. vm_compute. reflexivity. }
  assert (Ev : s_vols cf_state = [cg_vol]) by (vm_compute; reflexivity).
  split; [rewrite Es; reflexivity|]. split; [vm_compute; reflexivity|].
  split; [|vm_compute; reflexivity].
  intros d' Hd. exact (step_crash_Mkdir 1 0 5 [89; 89] cf_state _ _ cf_inv Hfresh Hk Es cg_vol d' Ev Hd).
Qed.

Print Assumptions mkdir_root_crash.
Print Assumptions mkdir_grow_crash.
Print Assumptions mkdir_full_crash.
