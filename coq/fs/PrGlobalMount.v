(* The MOUNT end of the chain of history theorems.  Every history theorem of the development
   (PrGlobal.C03_history / C04_history / C05_history, PrC16.C16_history, PrCrashAll, PrContent,
   PrFaultAll) starts from a state with [fs_inv fsz vid s] and [PrHandles.handles_ok age s] and
   excludes OpenVol from the history.  Here: a volume manager without a volume that MOUNTS a sound
   medium is such a state.
   1  the run of OpenVol from a manager without a volume (fresh_mgr; FsMgr.init_state is one;
      stale root-directory handles are allowed: open_root_dir does not look the volume up)
   2  C03_mount_establishes (decider form; _prop: Prop form; _fast: PrFsck form; _init: from
      init_state, with handles_ok): successful OpenVol + the disk-level invariant of the mounted
      record => fs_inv.  Everything about the volume RECORD comes from the mount code
      (PrMountLayout.mount_facts_all) except partition_fits
   3  partition_fits (finding D38): the one premise about the record the mount code does not
      discharge; NECESSARY (fs_inv_partition_fits); implied by the decider (vol_inv_b);
      C03_mount_needs_partition_fits: PrMountLayout.dev_parts mounts and has fs_inv for no fsz
   4  C03 / C04 / C05 / C16_from_mount_history: histories OpenVol idx :: ops; mirror_b, truthful_b
   5  C08_mount_unmount (CloseVol: Ok, empty table; the medium changes in the FAT32 information
      sector ONLY - on FAT16 not at all - and keeps disk_inv), C08_remount (Remount = dropping the
      manager: crash_inv, the pending chains become lost chains)
   5b the record a LATER mount computes: relabel (same record up to handle, free count, hint);
      disk_inv / crash_inv do not look at the handle; no call writes block 0 or the boot sector
      (history_keeps_outside), so the record of the state stays the record of the medium
      (vol_from_medium); C08_remount_then_mount, C08_unmount_then_mount
   6  non-vacuity: a formatted FAT16 image (5000 clusters) with files and a directory: mount,
      history, unmount + mount, Remount with a pending chain (crash_inv holds, fs_inv does NOT)
   What fs_inv needs and NEITHER the mount code NOR the decider provides: blocks_wf (every block
   of the raw medium has 512 bytes: blocks_wf_b decides it) and a device without armed faults
   (fresh_mgr: no_faults).  The cache and trace fields cause no gap: the mount path leaves the
   cache coherent (rd), fs_inv says nothing about the trace.
   Build order: after PrGlobal, PrC16, PrFsck, PrCrashDef2, PrMountLayout. *)
From Coq Require Import NArith ZArith List Bool Lia Arith ZifyClasses ZifyInst Zify FMapPositive Permutation.
From SdFs Require Import FsTypes FsBase FsFat FsMgr FsLemmas PrBase PrFat PrAlloc PrDir PrSeek PrAllocEffect
  PrRw PrWrite PrFileSeq PrMulti PrEntry PrChain PrCount PrWf PrOpenClose.
From SdFs Require PrModes PrHandles PrCrash PrBounds PrOrder.
From SdFs Require Import PrGlobalDef.
From SdFs Require PrMountLayout PrGlobal PrC16Def PrC16 PrFsck PrCrashDef PrCrashDef2 PrGlobalWrite.
Import ListNotations.
Open Scope N_scope.
Local Arguments N.mul : simpl never.
Local Arguments N.add : simpl never.
Local Arguments N.sub : simpl never.
Local Arguments N.div : simpl never.
Local Arguments N.modulo : simpl never.
Local Arguments N.land : simpl never.
Local Arguments N.lor : simpl never.
Local Ltac Zify.zify_post_hook ::= Z.to_euclidean_division_equations.

(* ================================================================== 1. the run of OpenVol *)
(* a manager with no volume open: no volume, no file; the only directory handles are stale ROOT
   handles (open_root_dir does not look the volume up, so OpenRoot x succeeds before any OpenVol;
   the crate's own tests rely on it); lock free, a working device, a coherent cache *)
Definition root_handle (dd : dirinfo) : Prop := d_cluster dd = CL_ROOT.
Definition fresh_mgr (s : st) : Prop :=
  s_vols s = [] /\ Forall root_handle (s_dirs s) /\ s_files s = [] /\ s_lock s = false /\
  no_faults s /\ cache_ok s.

Lemma fresh_init d off mv md mf : fresh_mgr (init_state d off mv md mf []).
Proof.
  unfold fresh_mgr, init_state. cbn [s_vols s_dirs s_files s_lock].
  split; [reflexivity|]. split; [constructor|]. split; [reflexivity|]. split; [reflexivity|].
  split; [intros n H; destruct H|intros i H; discriminate H].
Qed.

(* what the read-only code of the mount path keeps: the medium, the directory and file tables,
   the lock; the device keeps working and the cache stays coherent *)
Definition mframe (s s' : st) : Prop :=
  s_disk s' = s_disk s /\ s_dirs s' = s_dirs s /\ s_files s' = s_files s /\ s_lock s' = s_lock s /\
  no_faults s' /\ cache_ok s'.

Definition rd {A} (m : M A) : Prop :=
  forall s o s', m s = (o, s') -> no_faults s -> cache_ok s -> mframe s s'.

Lemma mframe_refl s : no_faults s -> cache_ok s -> mframe s s.
Proof. intros A B. unfold mframe. repeat (split; [reflexivity|]). split; assumption. Qed.

Lemma mframe_trans a b c : mframe a b -> mframe b c -> mframe a c.
Proof.
  intros (A1 & A2 & A3 & A4 & A5 & A6) (B1 & B2 & B3 & B4 & B5 & B6).
  unfold mframe. repeat split; try congruence; assumption.
Qed.

Lemma rd_ret {A} (a : A) : rd (ret a).
Proof. intros s o s' E Hf Hc. inversion E; subst. exact (mframe_refl _ Hf Hc). Qed.
Lemma rd_fail {A} e : rd (@fail A e).
Proof. intros s o s' E Hf Hc. inversion E; subst. exact (mframe_refl _ Hf Hc). Qed.
Lemma rd_panic {A} : rd (@panic A).
Proof. intros s o s' E Hf Hc. inversion E; subst. exact (mframe_refl _ Hf Hc). Qed.
Lemma rd_get : rd get.
Proof. intros s o s' E Hf Hc. inversion E; subst. exact (mframe_refl _ Hf Hc). Qed.

Lemma rd_bind {A B} (m : M A) (k : A -> M B) : rd m -> (forall a, rd (k a)) -> rd (bind m k).
Proof.
  intros Hm Hk s o s' E Hf Hc. unfold bind in E.
  destruct (m s) as [[a|e| |] s1] eqn:Em; pose proof (Hm _ _ _ Em Hf Hc) as H1.
  - destruct H1 as (X1 & X2 & X3 & X4 & X5 & X6).
    exact (mframe_trans _ _ _ (conj X1 (conj X2 (conj X3 (conj X4 (conj X5 X6))))) (Hk a _ _ _ E X5 X6)).
  - inversion E; subst; exact H1.
  - inversion E; subst; exact H1.
  - inversion E; subst; exact H1.
Qed.

Lemma rd_cache_read i : rd (cache_read i).
Proof.
  intros s o s' E Hf Hc. destruct (cache_read_spec i s Hf Hc) as (s2 & E2 & D & _ & _ & C & F & SM & _).
  rewrite E2 in E. inversion E; subst s2. clear E.
  destruct SM as (_ & M2 & M3 & _ & _ & M6 & _).
  unfold mframe. repeat split; assumption.
Qed.

(* a table / counter update: everything mframe speaks of is untouched *)
Lemma rd_modify (f : st -> st) :
  (forall s, s_disk (f s) = s_disk s /\ s_dirs (f s) = s_dirs s /\ s_files (f s) = s_files s /\
             s_lock (f s) = s_lock s /\ s_faults (f s) = s_faults s /\ s_ncalls (f s) = s_ncalls s /\
             s_cache (f s) = s_cache s /\ s_tag (f s) = s_tag s) -> rd (modify f).
Proof.
  intros H s o s' E Hf Hc. inversion E; subst. destruct (H s) as (A1 & A2 & A3 & A4 & A5 & A6 & A7 & A8).
  unfold mframe. repeat (split; [assumption|]). split.
  - intros n Hn. rewrite A5 in Hn. rewrite A6. exact (Hf n Hn).
  - intros i Hi. rewrite A8 in Hi. rewrite A7, A1. exact (Hc i Hi).
Qed.

Lemma rd_add32 a b : rd (add32 a b).
Proof. unfold add32. destruct (a + b <? U32); [apply rd_ret|apply rd_panic]. Qed.
Lemma rd_mul32 a b : rd (mul32 a b).
Proof. unfold mul32. destruct (a * b <? U32); [apply rd_ret|apply rd_panic]. Qed.

Ltac rd_step :=
  match goal with
  | |- rd (bind _ _) => apply rd_bind; [|intros ?]
  | |- rd (ret _) => apply rd_ret
  | |- rd (fail _) => apply rd_fail
  | |- rd panic => apply rd_panic
  | |- rd get => apply rd_get
  | |- rd (cache_read _) => apply rd_cache_read
  | |- rd (add32 _ _) => apply rd_add32
  | |- rd (mul32 _ _) => apply rd_mul32
  | |- rd (if ?b then _ else _) => destruct b
  | |- rd (match ?x with _ => _ end) => destruct x
  | |- rd (let _ := _ in _) => cbv zeta
  end.

Lemma rd_bpb_create b : rd (bpb_create b).
Proof. unfold bpb_create. repeat rd_step. Qed.

Lemma rd_parse_volume id idx lba nb : rd (parse_volume id idx lba nb).
Proof. unfold parse_volume. repeat (rd_step || apply rd_bpb_create). Qed.

Lemma rd_generate : rd generate.
Proof.
  unfold generate. repeat rd_step. apply rd_modify. intros s.
  cbn [set_s_next_id s_disk s_dirs s_files s_lock s_faults s_ncalls s_cache s_tag]. repeat split; reflexivity.
Qed.

Lemma rd_open_raw_volume idx : rd (open_raw_volume idx).
Proof.
  unfold open_raw_volume, locked.
  repeat (rd_step || apply rd_parse_volume || apply rd_generate).
  apply rd_modify. intros s.
  cbn [set_s_vols s_disk s_dirs s_files s_lock s_faults s_ncalls s_cache s_tag]. repeat split; reflexivity.
Qed.

Lemma cached_ok s i : cache_ok s -> PrMountLayout.cached s i = disk_get (s_disk s) i.
Proof.
  intros Hc. unfold PrMountLayout.cached, opt_eqb. destruct (s_tag s) as [j|] eqn:Et; [|reflexivity].
  destruct (N.eqb_spec i j) as [->|_]; [exact (Hc j Et)|reflexivity].
Qed.

(* the run of a successful OpenVol from a manager with nothing open: one volume record, under the
   old counter value as handle; the medium is untouched, nothing else is open, the cache is
   coherent; the record is what parse_volume computes from the partition entry idx of block 0 and
   the boot sector at the entry's start *)
Theorem mount_run idx s0 vid s1 : fresh_mgr s0 -> step (OpenVol idx) s0 = (Ok (RHandle vid), s1) ->
  exists v, s_vols s1 = [v] /\ v_id v = vid /\ vid = s_next_id s0 /\ v_idx v = idx /\
    s_disk s1 = s_disk s0 /\ s_dirs s1 = s_dirs s0 /\ s_files s1 = [] /\ s_lock s1 = false /\
    no_faults s1 /\ cache_ok s1 /\
    v_lba v = PrMountLayout.mbr_start (disk_get (s_disk s0) 0) idx /\
    v_nblocks v = PrMountLayout.mbr_size (disk_get (s_disk s0) 0) idx /\
    PrMountLayout.mount_facts (disk_get (s_disk s0) (v_lba v)) vid idx (v_lba v) (v_nblocks v) v.
Proof.
  intros (Fv & Fd & Ff & Fl & Fnf & Fc) E. cbn [step] in E.
  apply PrHandles.lift_ok_inv in E. destruct E as (id & E & Er). injection Er as ->.
  pose proof (rd_open_raw_volume idx s0 _ s1 E Fnf Fc) as (M1 & M2 & M3 & M4 & M5 & M6).
  destruct (PrMountLayout.open_raw_volume_inv _ _ _ _ E) as
    (mbr & sa & b & v & Hm & Em & _ & Hi & _ & _ & _ & Eb & MF & Ev & Eid).
  pose proof (rd_cache_read 0 s0 _ sa Hm Fnf Fc) as (R1 & _ & _ & _ & _ & R6).
  rewrite (cached_ok s0 0 Fc) in Em. rewrite (cached_ok sa _ R6), R1 in Eb. subst mbr b.
  exists v. rewrite Fv in Ev. cbn [app] in Ev.
  pose proof (PrMountLayout.mf_lba _ _ _ _ _ _ MF) as El. pose proof (PrMountLayout.mf_nb _ _ _ _ _ _ MF) as En.
  split; [exact Ev|]. split; [exact (PrMountLayout.mf_id _ _ _ _ _ _ MF)|]. split; [exact Eid|].
  split; [exact (PrMountLayout.mf_idx _ _ _ _ _ _ MF)|]. split; [exact M1|].
  split; [exact M2|]. split; [congruence|]. split; [congruence|]. split; [exact M5|]. split; [exact M6|].
  split; [exact El|]. split; [exact En|]. rewrite El, En. exact MF.
Qed.

(* ================================================================== 2. the mounted state satisfies the invariant *)
(* the handle side (PrHandles.C08_handles_ok_step): the mounted state is inside the handle window,
   one generation older; a manager with empty tables has age 0 *)
Theorem mount_handles_ok age idx s0 : PrHandles.handles_ok age s0 -> age < U32 - 1 ->
  PrHandles.handles_ok (age + 1) (snd (step (OpenVol idx) s0)).
Proof. intros H Ha. exact (PrHandles.C08_handles_ok_step age (OpenVol idx) s0 Ha I H). Qed.

Lemma handles_ok_empty s : s_vols s = [] -> s_dirs s = [] -> s_files s = [] -> s_next_id s < U32 ->
  PrHandles.handles_ok 0 s.
Proof.
  intros Fv Fd Ff Hn. unfold PrHandles.handles_ok, PrHandles.fresh_inv, PrHandles.all_ids,
    PrHandles.vids, PrHandles.dids, PrHandles.fids. rewrite Fv, Fd, Ff. cbn [map app].
  split; [split; [exact Hn|intros x []]|]. repeat split; constructor.
Qed.

(* the core: a successful OpenVol from a manager with nothing open, on a medium of 512-byte
   blocks; the record lies inside the partition entry and the device (w.r.t. ANY FAT size fsz that
   fits the record: the decider below supplies it); the medium has the disk-level invariant read
   with the mounted record and no pending chain.  Everything else fs_inv asks for - lock, device,
   cache, the volume index, fat_layout, hint_ok, clusters_fit, spc, info_ok, the empty file and
   directory tables - comes from the mount code. *)
Theorem mount_fs_inv_core fsz idx s0 vid s1 v bl rch T :
  fresh_mgr s0 -> blocks_wf (s_disk s0) ->
  step (OpenVol idx) s0 = (Ok (RHandle vid), s1) -> s_vols s1 = [v] ->
  PrBounds.part_layout v (v_nblocks v) fsz -> v_lba v + v_nblocks v < U32 ->
  disk_inv (s_disk s1) v bl rch T [] ->
  fs_inv fsz vid s1.
Proof.
  intros F Hwf E Ev L Hdev Hdi. pose proof F as (_ & Froot & _).
  destruct (mount_run idx s0 vid s1 F E) as
    (v' & Ev' & Eid & _ & _ & Ed & Edirs & Efiles & El & Hnf & Hc & _ & _ & MF).
  rewrite Ev in Ev'. injection Ev' as <-.
  destruct (PrMountLayout.mount_facts_all _ _ _ _ _ _ MF) as (_ & _ & _ & _ & _ & _ & _ & _ & Hhint).
  assert (Hwf1 : blocks_wf (s_disk s1)) by (rewrite Ed; exact Hwf).
  exists 0%nat, v, bl, rch, T. constructor.
  - exact Eid.
  - exact Ev.
  - split; [exact El|]. split.
    + split; [|split; [exact (PrBounds.part_layout_fat_layout _ _ _ L Hdev)|exact Hhint]].
      split; [exact Hnf|]. split; [exact Hc|]. split; [rewrite Ev; reflexivity|].
      intros k _. apply Hwf1.
    + split; [exact (PrBounds.part_layout_fit _ _ _ L)|].
      split; [pose proof (PrBounds.pl_spc _ _ _ L); lia|]. split; [exact Hwf1|].
      rewrite Ev. cbn [find_idx]. rewrite N.eqb_refl. reflexivity.
  - exact L.
  - exact Hdev.
  - exact (part_layout_info_ok _ _ _ L).
  - unfold pend_of. rewrite Efiles. exact Hdi.
  - rewrite Efiles. constructor.
  - rewrite Efiles. constructor.
  - rewrite Efiles. constructor.
  - rewrite Edirs. apply (Forall_impl _ (P := root_handle)); [|exact Froot]. intros dd Hr _. left. exact Hr.
Qed.

(* ---- the premise the mount code does NOT discharge (known finding D38): the data area ends
   inside the partition entry, the entry inside the 32-bit device.  parse_volume compares neither
   the BPB's total block count with the entry's size, nor forms lba_start + num_blocks. ---- *)
Definition partition_fits (v : vol) : Prop :=
  PrBounds.data_end v <= v_nblocks v /\ v_lba v + v_nblocks v < U32.
Definition partition_fits_b (v : vol) : bool :=
  (PrBounds.data_end v <=? v_nblocks v) && (v_lba v + v_nblocks v <? U32).
Lemma partition_fits_b_ok v : partition_fits_b v = true <-> partition_fits v.
Proof. unfold partition_fits_b, partition_fits. rewrite andb_true_iff, N.leb_le, N.ltb_lt. tauto. Qed.

(* it is implied by: the BPB's total block count does not exceed the partition entry's size *)
Lemma partition_fits_bpb b id idx lba nb v : PrMountLayout.mount_facts b id idx lba nb v ->
  bpb_total_blocks b <= v_nblocks v -> v_lba v + v_nblocks v < U32 -> partition_fits v.
Proof.
  intros MF Ht Hd. split; [|exact Hd].
  pose proof (PrMountLayout.ml_data _ _ _ (PrMountLayout.mount_layout_holds _ _ _ _ _ _ MF)). lia.
Qed.

(* it is NECESSARY: part of fs_inv, for every fsz *)
Lemma fs_inv_partition_fits fsz vid s v : fs_inv fsz vid s -> s_vols s = [v] -> partition_fits v.
Proof.
  intros (vi & v0 & bl & rch & T & H) Ev. rewrite (fi_single _ _ _ _ _ _ _ _ H) in Ev. injection Ev as <-.
  split; [exact (PrBounds.pl_data _ _ _ (fi_layout _ _ _ _ _ _ _ _ H))|exact (fi_dev _ _ _ _ _ _ _ _ H)].
Qed.

(* C03, mount, Prop form.  fsz = the FAT size of the boot sector the code read.
   Premises about the medium: 512-byte blocks; partition_fits; disk_inv for the mounted record
   with no pending chain.  Everything about the record comes from the mount code
   (PrMountLayout.mount_facts_all). *)
Theorem C03_mount_establishes_prop idx s0 vid s1 v bl rch T :
  fresh_mgr s0 -> blocks_wf (s_disk s0) ->
  step (OpenVol idx) s0 = (Ok (RHandle vid), s1) -> s_vols s1 = [v] ->
  partition_fits v ->
  disk_inv (s_disk s1) v bl rch T [] ->
  fs_inv (bpb_fat_size (disk_get (s_disk s0) (v_lba v))) vid s1.
Proof.
  intros F Hwf E Ev (Hfit & Hdev) Hdi.
  destruct (mount_run idx s0 vid s1 F E) as (v' & Ev' & _ & _ & _ & _ & _ & _ & _ & _ & _ & _ & _ & MF).
  rewrite Ev in Ev'. injection Ev' as <-.
  apply (mount_fs_inv_core _ idx s0 vid s1 v bl rch T F Hwf E Ev); [|exact Hdev|exact Hdi].
  apply (PrMountLayout.part_layout_total v _ (v_nblocks v) _ (PrMountLayout.mount_part_layout _ _ _ _ _ _ MF)).
  split; [exact Hfit|unfold U32 in Hdev; lia].
Qed.

(* C03, mount, decider form: NO premise about the record - vol_inv_b (part of fs_inv_b) checks
   part_layout w.r.t. the partition entry's size and the 32-bit bound, i.e. partition_fits.
   fsz is whatever FAT size the decider was run with (the BPB's: corollary below).
   blocks_wf is a fact about the raw medium that fs_inv needs (lc_vol) and the decider does not
   check: the model's disk is a map to byte lists, a real block device has 512-byte blocks. *)
Theorem C03_mount_establishes depth fsz idx s0 vid s1 v :
  fresh_mgr s0 -> blocks_wf (s_disk s0) ->
  step (OpenVol idx) s0 = (Ok (RHandle vid), s1) -> s_vols s1 = [v] ->
  fs_inv_b depth fsz (s_disk s1) v [] = true ->
  fs_inv fsz vid s1.
Proof.
  intros F Hwf E Ev Hb.
  destruct (fs_inv_b_sound depth fsz _ v [] Hb) as ((L & Hdev & _) & bl & rch & T & Hdi).
  exact (mount_fs_inv_core fsz idx s0 vid s1 v bl rch T F Hwf E Ev L Hdev Hdi).
Qed.

(* the same for the extraction-friendly decider of PrFsck *)
Theorem C03_mount_establishes_fast depth fsz idx s0 vid s1 v :
  fresh_mgr s0 -> blocks_wf (s_disk s0) ->
  step (OpenVol idx) s0 = (Ok (RHandle vid), s1) -> s_vols s1 = [v] ->
  PrFsck.fs_inv_fast depth fsz (s_disk s1) v [] = true ->
  fs_inv fsz vid s1.
Proof. rewrite PrFsck.fs_inv_fast_eq. apply C03_mount_establishes. Qed.

(* ... as asked: from FsMgr.init_state, any limits, any id offset below 2^32 (the counter is a
   u32), with the BPB's FAT size; the invariant AND the handle window *)
Theorem C03_mount_establishes_init depth d off mv md mf idx vid s1 v :
  blocks_wf d -> off < U32 ->
  step (OpenVol idx) (init_state d off mv md mf []) = (Ok (RHandle vid), s1) -> s_vols s1 = [v] ->
  let fsz := bpb_fat_size (disk_get d (v_lba v)) in
  fs_inv_b depth fsz (s_disk s1) v [] = true ->
  s_disk s1 = d /\ fs_inv fsz vid s1 /\ PrHandles.handles_ok 1 s1.
Proof.
  intros Hwf Hoff E Ev fsz Hb. pose proof (fresh_init d off mv md mf) as F.
  split; [|split].
  - destruct (mount_run idx _ vid s1 F E) as (_ & _ & _ & _ & _ & Ed & _). exact Ed.
  - exact (C03_mount_establishes depth fsz idx _ vid s1 v F Hwf E Ev Hb).
  - pose proof (mount_handles_ok 0 idx _ (PrHandles.handles_ok_init d off mv md mf [] Hoff) ltac:(unfold U32; lia)) as H.
    rewrite E in H. exact H.
Qed.

(* ================================================================== 3. partition_fits is not established by the mount code *)
(* a decidable form of blocks_wf: every block that is present in the map has 512 bytes (an absent
   block reads as the zero block) *)
Definition blocks_wf_b (d : disk) : bool :=
  forallb (fun p => Nat.eqb (length (snd p)) 512) (PositiveMap.elements d).
Lemma blocks_wf_b_ok d : blocks_wf_b d = true -> blocks_wf d.
Proof.
  unfold blocks_wf_b, blocks_wf, disk_get. rewrite forallb_forall. intros H i.
  destruct (PositiveMap.find (N.succ_pos i) d) as [b|] eqn:E; [|reflexivity].
  apply PositiveMap.elements_correct in E. apply Nat.eqb_eq. exact (H _ E).
Qed.

(* PrMountLayout.dev_parts (finding D38): partition entry 0 = (start 1, size 97), the boot sector
   at block 1 describes a FAT16 volume of 5097 sectors whose data area begins at block 98 - in
   partition 1.  OpenVol 0 succeeds; the mounted state satisfies fs_inv for NO fsz. *)
Theorem C03_mount_needs_partition_fits :
  exists s0 vid s1, fresh_mgr s0 /\ blocks_wf (s_disk s0) /\
    step (OpenVol 0) s0 = (Ok (RHandle vid), s1) /\ forall fsz, ~ fs_inv fsz vid s1.
Proof.
  exists PrMountLayout.dev_parts.
  assert (R : match step (OpenVol 0) PrMountLayout.dev_parts with
              | (Ok (RHandle h), s') => match s_vols s' with [v] => partition_fits_b v = false | _ => False end
              | _ => False
              end) by (vm_compute; reflexivity).
  destruct (step (OpenVol 0) PrMountLayout.dev_parts) as [[[ |h| | | | | | ]|e| |] s1] eqn:E; try contradiction.
  exists h, s1. split; [apply fresh_init|]. split; [apply blocks_wf_b_ok; vm_compute; reflexivity|].
  split; [reflexivity|]. intros fsz Hinv.
  destruct (s_vols s1) as [|v [|w r]] eqn:Ev; try contradiction.
  apply (fs_inv_partition_fits fsz h s1 v Hinv) in Ev. apply partition_fits_b_ok in Ev. congruence.
Qed.

(* ================================================================== 4. histories that begin with the mount *)
(* the facts of the medium that make a successful OpenVol the start of a sound history, all
   decidable: 512-byte blocks, the decider accepts the image read with the mounted record *)
Record mounted_ok (depth : nat) (fsz idx age : N) (s0 : st) (vid : N) (s1 : st) (v : vol) : Prop := mk_mounted_ok {
  mo_fresh : fresh_mgr s0;
  mo_wf : blocks_wf (s_disk s0);
  mo_handles : PrHandles.handles_ok age s0;
  mo_age : age < U32 - 1;
  mo_open : step (OpenVol idx) s0 = (Ok (RHandle vid), s1);
  mo_vol : s_vols s1 = [v];
  mo_b : fs_inv_b depth fsz (s_disk s1) v [] = true
}.

Lemma mounted_start depth fsz idx age s0 vid s1 v : mounted_ok depth fsz idx age s0 vid s1 v ->
  fs_inv fsz vid s1 /\ PrHandles.handles_ok (age + 1) s1.
Proof.
  intros [F Hwf Hh Ha E Ev Hb]. split.
  - exact (C03_mount_establishes depth fsz idx s0 vid s1 v F Hwf E Ev Hb).
  - pose proof (mount_handles_ok age idx s0 Hh Ha) as H. rewrite E in H. exact H.
Qed.

(* from FsMgr.init_state: age 0 *)
Lemma mounted_ok_init depth fsz d off mv md mf idx vid s1 v :
  blocks_wf d -> off < U32 ->
  step (OpenVol idx) (init_state d off mv md mf []) = (Ok (RHandle vid), s1) -> s_vols s1 = [v] ->
  fs_inv_b depth fsz (s_disk s1) v [] = true ->
  mounted_ok depth fsz idx 0 (init_state d off mv md mf []) vid s1 v.
Proof.
  intros Hwf Hoff E Ev Hb. constructor; try assumption.
  - apply fresh_init.
  - exact (PrHandles.handles_ok_init d off mv md mf [] Hoff).
  - unfold U32. lia.
Qed.

Lemma run_ops_mount idx ops s0 vid s1 : step (OpenVol idx) s0 = (Ok (RHandle vid), s1) ->
  run_ops (OpenVol idx :: ops) s0 = (Ok (RHandle vid) :: fst (run_ops ops s1), snd (run_ops ops s1)).
Proof. intros E. cbn [run_ops]. rewrite E. destruct (run_ops ops s1). reflexivity. Qed.

(* C03 for histories OpenVol idx :: ops: the invariant after the last call, no call panics or
   runs out of fuel, the geometry of the mounted record never changes, every device write after
   the mount lies in a region of the volume *)
Theorem C03_from_mount_history depth fsz idx age ops s0 vid s1 v :
  mounted_ok depth fsz idx age s0 vid s1 v ->
  age + 1 + N.of_nat (length ops) < U32 - 1 -> Forall op_known_ok ops ->
  let '(rs, s') := run_ops (OpenVol idx :: ops) s0 in
  fs_inv fsz vid s' /\ same_geo s1 s' /\
  Forall (fun r => r <> Panic /\ r <> OutOfFuel) rs /\
  exists ws, PrOrder.tsteps s1 s' ws /\ Forall (PrBounds.in_region v fsz) ws.
Proof.
  intros M Hage Hops. destruct (mounted_start _ _ _ _ _ _ _ _ M) as (Hinv & Hh).
  rewrite (run_ops_mount idx ops s0 vid s1 (mo_open _ _ _ _ _ _ _ _ M)).
  pose proof (PrGlobal.C03_history fsz vid ops s1 (age + 1) Hinv Hh Hage Hops) as H.
  destruct (run_ops ops s1) as [rs s']. cbn [fst snd].
  destruct H as (A & B & C & ws & D1 & D2). split; [exact A|]. split; [exact B|].
  split; [constructor; [split; discriminate|exact C]|].
  exists ws. split; [exact D1|]. apply D2. rewrite (mo_vol _ _ _ _ _ _ _ _ M). left. reflexivity.
Qed.

(* ... after EVERY call of the history *)
Theorem C03_from_mount_every_call depth fsz idx age ops1 ops2 s0 vid s1 v :
  mounted_ok depth fsz idx age s0 vid s1 v ->
  age + 1 + N.of_nat (length (ops1 ++ ops2)) < U32 - 1 -> Forall op_known_ok (ops1 ++ ops2) ->
  fs_inv fsz vid (snd (run_ops (OpenVol idx :: ops1) s0)).
Proof.
  intros M Hage Hops. destruct (mounted_start _ _ _ _ _ _ _ _ M) as (Hinv & Hh).
  rewrite (run_ops_mount idx ops1 s0 vid s1 (mo_open _ _ _ _ _ _ _ _ M)). cbn [snd].
  exact (PrGlobal.C03_after_every_call fsz vid ops1 ops2 s1 (age + 1) Hinv Hh Hage Hops).
Qed.

(* C04: every device write of the history after the mount lies in a region of the mounted
   volume (the mount itself writes nothing: mount_run, s_disk s1 = s_disk s0) *)
Theorem C04_from_mount_history depth fsz idx age ops s0 vid s1 v :
  mounted_ok depth fsz idx age s0 vid s1 v ->
  age + 1 + N.of_nat (length ops) < U32 - 1 -> Forall op_known_ok ops ->
  s_disk s1 = s_disk s0 /\
  exists ws, PrOrder.tsteps s1 (snd (run_ops ops s1)) ws /\ Forall (PrBounds.in_region v fsz) ws.
Proof.
  intros M Hage Hops. destruct (mounted_start _ _ _ _ _ _ _ _ M) as (Hinv & Hh).
  split.
  - destruct (mount_run idx s0 vid s1 (mo_fresh _ _ _ _ _ _ _ _ M) (mo_open _ _ _ _ _ _ _ _ M)) as (_ & _ & _ & _ & _ & Ed & _).
    exact Ed.
  - destruct (PrGlobal.C04_history fsz vid ops s1 (age + 1) Hinv Hh Hage Hops) as (ws & A & B).
    exists ws. split; [exact A|]. apply B. rewrite (mo_vol _ _ _ _ _ _ _ _ M). left. reflexivity.
Qed.

(* C05: once every file is closed, clusters in use = clusters on live chains *)
Theorem C05_from_mount_history depth fsz idx age ops s0 vid s1 v :
  mounted_ok depth fsz idx age s0 vid s1 v ->
  age + 1 + N.of_nat (length ops) < U32 - 1 -> Forall op_known_ok ops ->
  let s' := snd (run_ops ops s1) in
  s_files s' = [] ->
  exists v' bl rch T, s_vols s' = [v'] /\ root_dir (s_disk s') v' bl rch /\ tree_rep (s_disk s') v' bl T /\
    Permutation (used_list (s_disk s') v') (rch ++ flat_map node_chain (all_nodes T)).
Proof.
  intros M Hage Hops. destruct (mounted_start _ _ _ _ _ _ _ _ M) as (Hinv & Hh).
  exact (PrGlobal.C05_history fsz vid ops s1 (age + 1) Hinv Hh Hage Hops).
Qed.

(* ---- C16: the extra premises, at the mounted state ---- *)
(* the hint: from the mount code *)
Lemma mount_facts_hint_in b id idx lba nb v : PrMountLayout.mount_facts b id idx lba nb v -> PrC16Def.hint_in v.
Proof.
  intros MF c Ec. destruct (v_fat32 v) eqn:E32.
  - destruct (PrMountLayout.mf_32 _ _ _ _ _ _ MF E32) as (_ & _ & _ & _ & _ & _ & fc & nx & _ & En).
    rewrite En in Ec.
    destruct (N.eqb_spec nx 4294967295) as [A|A]; [discriminate Ec|].
    destruct (N.eqb_spec nx 0) as [B|B]; [discriminate Ec|].
    destruct (N.eqb_spec nx 1) as [C|C]; [discriminate Ec|].
    destruct (N.leb_spec (v_clusters v + 2) nx) as [D|D]; [discriminate Ec|].
    cbn [orb] in Ec. inversion Ec. lia.
  - destruct (PrMountLayout.mf_16 _ _ _ _ _ _ MF E32) as (_ & _ & _ & _ & En & _). congruence.
Qed.

Theorem mount_hint_inv idx s0 vid s1 : fresh_mgr s0 -> step (OpenVol idx) s0 = (Ok (RHandle vid), s1) ->
  PrC16Def.hint_inv s1.
Proof.
  intros F E. destruct (mount_run idx s0 vid s1 F E) as (v & Ev & _ & _ & _ & _ & _ & _ & _ & _ & _ & _ & _ & MF).
  intros w Hw. rewrite Ev in Hw. destruct Hw as [<-|[]]. exact (mount_facts_hint_in _ _ _ _ _ _ MF).
Qed.

(* a FAT16 volume has no free count; a FAT32 one has none exactly when the information sector
   says 0xFFFFFFFF *)
Theorem mount_unknown16 idx s0 vid s1 v : fresh_mgr s0 -> step (OpenVol idx) s0 = (Ok (RHandle vid), s1) ->
  s_vols s1 = [v] -> v_fat32 v = false -> PrC16Def.unknown_inv s1.
Proof.
  intros F E Ev E16. destruct (mount_run idx s0 vid s1 F E) as (v' & Ev' & _ & _ & _ & _ & _ & _ & _ & _ & _ & _ & _ & MF).
  rewrite Ev in Ev'. injection Ev' as <-.
  intros w Hw. rewrite Ev in Hw. destruct Hw as [<-|[]].
  destruct (PrMountLayout.mf_16 _ _ _ _ _ _ MF E16) as (_ & _ & _ & Ef & _). exact Ef.
Qed.

(* mirror and truthfulness are facts about the medium: decidable forms *)
Definition mirror_b (d : disk) (v : vol) (fsz : N) : bool :=
  range_all (N.to_nat fsz) 0
    (fun k => list_eqb (disk_get d (fat_copy_sector v 1 k)) (disk_get d (fat_copy_sector v 0 k))).
Lemma mirror_b_ok d v fsz : mirror_b d v fsz = true -> fat_mirrored d v fsz.
Proof.
  unfold mirror_b, fat_mirrored. rewrite range_all_spec. intros H k Hk.
  apply list_eqb_true. apply H; [lia|]. rewrite N2Nat.id. lia.
Qed.
Definition truthful_b (d : disk) (v : vol) : bool :=
  match v_free v with Some k => k =? N.of_nat (free_entries d v) | None => false end.
Lemma truthful_b_ok d v : truthful_b d v = true <-> truthful d v.
Proof.
  unfold truthful_b, truthful. destruct (v_free v) as [k|].
  - rewrite N.eqb_eq. split; [intros ->; reflexivity|intros H; inversion H; reflexivity].
  - split; discriminate.
Qed.

Lemma single_inv (P : vol -> Prop) s v : s_vols s = [v] -> P v -> forall w, In w (s_vols s) -> P w.
Proof. intros Ev H w Hw. rewrite Ev in Hw. destruct Hw as [<-|[]]. exact H. Qed.

(* C16 for histories that begin with the mount: the hint is unknown or in range after every
   history (unconditionally); when the FAT copies are identical at mount they are identical after
   the history; a free count that was right at mount is right after it; an unknown one stays
   unknown *)
Theorem C16_from_mount_history depth fsz idx age ops s0 vid s1 v :
  mounted_ok depth fsz idx age s0 vid s1 v ->
  age + 1 + N.of_nat (length ops) < U32 - 1 -> Forall op_known_ok ops ->
  let s' := snd (run_ops ops s1) in
  PrC16Def.hint_inv s' /\
  (mirror_b (s_disk s1) v fsz = true -> PrC16Def.mirror_inv fsz s') /\
  (truthful_b (s_disk s1) v = true -> PrC16Def.truthful_inv s') /\
  (v_free v = None -> PrC16Def.unknown_inv s').
Proof.
  intros M Hage Hops s'. destruct (mounted_start _ _ _ _ _ _ _ _ M) as (Hinv & Hh).
  destruct (PrC16.C16_history fsz vid ops s1 (age + 1) Hinv Hh Hage Hops) as (A & B & C & D).
  pose proof (mo_vol _ _ _ _ _ _ _ _ M) as Ev.
  split; [exact (D (mount_hint_inv idx s0 vid s1 (mo_fresh _ _ _ _ _ _ _ _ M) (mo_open _ _ _ _ _ _ _ _ M)))|].
  split; [intros Hm; apply A; exact (single_inv (fun w => fat_mirrored (s_disk s1) w fsz) s1 v Ev (mirror_b_ok _ _ _ Hm))|].
  split; [intros Ht; apply B; exact (single_inv (fun w => truthful (s_disk s1) w) s1 v Ev (proj1 (truthful_b_ok _ _) Ht))|].
  intros Hu. apply C. exact (single_inv (fun w => v_free w = None) s1 v Ev Hu).
Qed.

(* ================================================================== 5. unmount, and dropping the manager *)

(* under fs_inv every open file is on the one volume: "no open file of that volume" = no open file *)
Lemma no_files_of_vol fsz vid s : fs_inv fsz vid s ->
  existsb (fun f => f_vol f =? vid) (s_files s) = false -> s_files s = [].
Proof.
  intros (vi & v & bl & rch & T & H) Hex.
  pose proof (fi_files _ _ _ _ _ _ _ _ H) as Hf. pose proof (fi_vid _ _ _ _ _ _ _ _ H) as Eid.
  destruct (s_files s) as [|f r]; [reflexivity|]. exfalso.
  pose proof (Forall_inv Hf) as Ho. cbn [existsb] in Hex.
  rewrite (of_vol _ _ _ _ Ho), Eid, N.eqb_refl in Hex. discriminate Hex.
Qed.

(* C08, CloseVol.  On a state of the invariant with no open file and no open directory of the
   volume (the two guards of close_volume), CloseVol vid
   - returns Ok (the only device access is the FAT32 information sector; the device works),
   - leaves an EMPTY volume table; the directory table, handle counter and lock are as before,
   - changes the medium in ONE block at most, the FAT32 information sector (the free count and
     next-free hint of the record are stored; on FAT16, or with both fields unknown, the medium
     is untouched) - so "the disk is unchanged" is true of FAT16 only,
   - keeps 512-byte blocks and the disk-level invariant of the closed record (same root, same
     tree, no pending chain),
   so the state is again a manager without a volume (fresh_mgr, when the remaining directory
   handles are stale root handles) and the handle window is one generation older: a later OpenVol
   starts over from C03_mount_establishes. *)
Theorem C08_mount_unmount fsz vid s vi v bl rch T :
  fs_inv_at fsz vid s vi v bl rch T ->
  existsb (fun f => f_vol f =? vid) (s_files s) = false ->
  existsb (fun d => d_vol d =? vid) (s_dirs s) = false ->
  exists s', step (CloseVol vid) s = (Ok RUnit, s') /\
    s_vols s' = [] /\ s_dirs s' = s_dirs s /\ s_files s' = [] /\ s_lock s' = false /\
    s_next_id s' = s_next_id s /\ no_faults s' /\ cache_ok s' /\
    blocks_wf (s_disk s') /\
    (forall j, j <> v_info v -> disk_get (s_disk s') j = disk_get (s_disk s) j) /\
    (v_fat32 v = false \/ (v_free v = None /\ v_next_free v = None) -> s_disk s' = s_disk s) /\
    disk_inv (s_disk s') v bl rch T [] /\
    (Forall root_handle (s_dirs s) -> fresh_mgr s').
Proof.
  intros Hinv Hxf Hxd.
  assert (Ef : s_files s = []) by (apply (no_files_of_vol fsz vid s); [exists vi, v, bl, rch, T; exact Hinv|exact Hxf]).
  pose proof (fi_vid _ _ _ _ _ _ _ _ Hinv) as Eid. pose proof (fi_single _ _ _ _ _ _ _ _ Hinv) as Ev.
  destruct (fi_vol _ _ _ _ _ _ _ _ Hinv) as (Hl & ((Hnf & Hc & Hvi & _) & _ & _) & _ & _ & Hwf & Hfind).
  assert (Evi : vi = 0%nat).
  { rewrite Ev in Hvi. destruct vi as [|k]; [reflexivity|]. destruct k; discriminate Hvi. }
  subst vi.
  destruct (info_step_exists s 0%nat v Hnf Hc Hvi Hwf) as (s1 & (Hrun & Hnf1 & Hc1 & Hm & Hfr & Hsame) & Hwf1).
  destruct Hm as (M1 & M2 & M3 & M4 & M5 & M6 & _).
  exists (set_s_vols s1 []).
  assert (Erun : step (CloseVol vid) s = (Ok RUnit, set_s_vols s1 [])).
  { cbn [step]. apply (PrHandles.lift_ok (fun _ => RUnit) _ s tt).
    unfold close_volume. rewrite (PrHandles.locked_free _ s Hl), PrHandles.bind_get, Hxf, Hxd.
    unfold bind at 1. rewrite PrHandles.get_volume_by_id_eq. rewrite <- Eid, Hfind.
    rewrite (bind_ok _ _ _ _ _ Hrun). unfold modify. rewrite M1, Ev. reflexivity. }
  assert (Hdi : disk_inv (s_disk s1) v bl rch T []).
  { pose proof (fi_disk _ _ _ _ _ _ _ _ Hinv) as HD. unfold pend_of in HD. rewrite Ef in HD. cbn [filter map] in HD.
    apply (disk_inv_frame (s_disk s) (s_disk s1) v bl rch T []); [| |exact HD].
    - intros j Hj. destruct (v_fat32 v) eqn:E32; [|rewrite (Hsame (or_introl eq_refl)); reflexivity].
      apply Hfr. intros ->. exact (proj1 (fi_info _ _ _ _ _ _ _ _ Hinv E32) Hj).
    - intros j Hj. destruct (v_fat32 v) eqn:E32; [|rewrite (Hsame (or_introl eq_refl)); reflexivity].
      apply Hfr. intros ->. destruct (fi_info _ _ _ _ _ _ _ _ Hinv E32) as (_ & I2).
      destruct (PrGlobalWrite.gw_dir_block_kind _ _ _ _ _ _ _ _ Hinv _ Hj) as [(E & _)|(c & C1 & _ & Hin)];
        [congruence|exact (I2 c C1 Hin)]. }
  split; [exact Erun|]. cbn [set_s_vols s_vols s_dirs s_files s_lock s_next_id s_disk].
  split; [reflexivity|]. split; [exact M2|]. split; [congruence|]. split; [congruence|]. split; [exact M4|].
  split; [exact Hnf1|]. split; [exact Hc1|]. split; [exact Hwf1|]. split; [exact Hfr|].
  split; [intros H; rewrite (Hsame H); reflexivity|]. split; [exact Hdi|].
  intros Hroot. unfold fresh_mgr. cbn [set_s_vols s_vols s_dirs s_files s_lock].
  split; [reflexivity|]. split; [rewrite M2; exact Hroot|]. split; [congruence|]. split; [congruence|].
  split; [exact Hnf1|exact Hc1].
Qed.

(* the handle window after the unmount (PrHandles.C08_handles_ok_step) *)
Corollary unmount_handles_ok age vid s : PrHandles.handles_ok age s -> age < U32 - 1 ->
  PrHandles.handles_ok (age + 1) (snd (step (CloseVol vid) s)).
Proof. intros H Ha. exact (PrHandles.C08_handles_ok_step age (CloseVol vid) s Ha I H). Qed.

(* the guards, otherwise (PrHandles.C08_volume_rules): with a file or directory of the volume open,
   CloseVol is refused and nothing changes - the invariant stays *)
Theorem C08_unmount_refused fsz vid s :
  fs_inv fsz vid s ->
  existsb (fun f => f_vol f =? vid) (s_files s) || existsb (fun d => d_vol d =? vid) (s_dirs s) = true ->
  step (CloseVol vid) s = (Err VolumeStillInUse, s).
Proof.
  intros Hinv Hx. exact (proj1 (PrHandles.C08_volume_rules s (fs_inv_lock fsz vid s Hinv)) vid Hx).
Qed.

(* Remount (harness op: the manager is dropped WITHOUT closing anything, a new one is made on the
   same device with the given id offset).  The medium is untouched.  What holds of it is NOT the
   disk-level part of fs_inv for an empty file table: the chains of the files that were open and
   whose directory slot does not know them yet (pend_of) are referenced by nothing any more -
   they are LOST chains.  Exactly PrCrashDef.crash_inv (same root, same tree, fat_wf over the
   heads of the tree plus the lost heads; file sizes may exceed nothing here, but crash_inv does
   not say so). *)
Theorem C08_remount fsz vid s vi v bl rch T off :
  fs_inv_at fsz vid s vi v bl rch T ->
  let s' := snd (step (Remount off) s) in
  fst (step (Remount off) s) = Ok RUnit /\
  fresh_mgr s' /\ s_dirs s' = [] /\ s_next_id s' = off /\ s_disk s' = s_disk s /\ blocks_wf (s_disk s') /\
  PrCrashDef.crash_inv_at (s_disk s') v bl rch T (pend_of s v) /\
  PrCrashDef.crash_inv fsz v (s_disk s') /\
  (* with no pending chain (e.g. no open file) it IS the disk-level invariant *)
  (pend_of s v = [] -> disk_inv (s_disk s') v bl rch T []).
Proof.
  intros Hinv s'.
  destruct (fi_vol _ _ _ _ _ _ _ _ Hinv) as (Hl & ((Hnf & Hc & _ & _) & _ & _) & _ & _ & Hwf & _).
  subst s'. cbn [step]. unfold lift, remount, bind, modify, ret. cbn [fst snd].
  split; [reflexivity|]. split.
  { unfold fresh_mgr. cbn. split; [reflexivity|]. split; [constructor|]. split; [reflexivity|].
    split; [reflexivity|]. split; [exact Hnf|intros i H; discriminate H]. }
  split; [reflexivity|]. split; [reflexivity|]. split; [reflexivity|]. split; [exact Hwf|].
  cbn [s_disk set_s_next_id set_s_lock set_s_files set_s_dirs set_s_vols set_s_tag set_s_cache].
  pose proof (fi_disk _ _ _ _ _ _ _ _ Hinv) as HD.
  split; [exact (PrCrashDef.disk_inv_crash_inv_at _ _ _ _ _ _ HD)|].
  split; [exact (PrCrashDef.fs_inv_crash_inv _ _ _ _ _ _ _ _ Hinv)|].
  intros Ep. rewrite Ep in HD. exact HD.
Qed.

(* ================================================================== 5b. the record a later mount computes *)
(* w is v under another handle and with another free-space record: what a later mount of the
   same boot sector computes (same_boot_relabel below) *)
Definition relabel (v w : vol) : Prop := exists i, geo_eq (set_v_id v i) w.

Lemma relabel_refl v : relabel v v.
Proof. exists (v_id v). exists (v_next_free v), (v_free v). destruct v; reflexivity. Qed.
Lemma geo_relabel v w : geo_eq v w -> relabel v w.
Proof. intros (a & b & ->). exists (v_id v), a, b. destruct v; reflexivity. Qed.
Lemma relabel_geo_r v w x : relabel v w -> geo_eq w x -> relabel v x.
Proof. intros (i & G) G2. exists i. exact (geo_eq_trans _ _ _ G G2). Qed.
Lemma relabel_geo_l v w x : geo_eq v w -> relabel w x -> relabel v x.
Proof. intros (a & b & ->) (i & a' & b' & ->). exists i, a', b'. reflexivity. Qed.

(* ---- nothing in the invariants looks at the handle ---- *)
Lemma rl_clusters v w : relabel v w -> v_clusters w = v_clusters v.
Proof. intros (i & a & b & ->). reflexivity. Qed.
Lemma rl_fat32 v w : relabel v w -> v_fat32 w = v_fat32 v.
Proof. intros (i & a & b & ->). reflexivity. Qed.
Lemma rl_fat_get d v w c : relabel v w -> fat_get d w 0 c = fat_get d v 0 c.
Proof. intros (i & a & b & ->). reflexivity. Qed.
Lemma rl_chain_of d v w : relabel v w -> forall f c, chain_of d w c f = chain_of d v c f.
Proof.
  intros (i & a & b & ->). induction f as [|f IH]; intros c; [reflexivity|].
  cbn [chain_of]. cbv zeta. rewrite IH. reflexivity.
Qed.
Lemma rl_chain_at d v w h ch : relabel v w -> (chain_at d w h ch <-> chain_at d v h ch).
Proof.
  intros G. unfold chain_at. rewrite (rl_chain_of d v w G).
  replace (walk_fuel w) with (walk_fuel v); [tauto|]. unfold walk_fuel. rewrite (rl_clusters _ _ G). reflexivity.
Qed.
Lemma rl_reachable d v w hs c : relabel v w -> (reachable d w hs c <-> reachable d v hs c).
Proof.
  intros G. unfold reachable. split; intros (h & ch & A & B & C); exists h, ch;
    (split; [exact A|split; [|exact C]]); apply (rl_chain_at d v w h ch G); exact B.
Qed.
Lemma rl_fat_wf d v w hs : relabel v w -> fat_wf d v hs -> fat_wf d w hs.
Proof.
  intros G [A B C D]. constructor.
  - intros h Hh. destruct (A h Hh) as (ch & Hch). exists ch. apply (rl_chain_at d v w h ch G). exact Hch.
  - exact B.
  - intros h1 h2 ch1 ch2 c H1 H2 X1 X2. apply (C h1 h2 ch1 ch2 c H1 H2).
    + apply (rl_chain_at d v w h1 ch1 G). exact X1.
    + apply (rl_chain_at d v w h2 ch2 G). exact X2.
  - intros c C1 C2. rewrite (rl_clusters _ _ G) in C2. rewrite (rl_fat_get d v w c G).
    rewrite (rl_reachable d v w hs c G). exact (D c C1 C2).
Qed.
Lemma rl_data_blocks v w ch : relabel v w -> data_blocks w ch = data_blocks v ch.
Proof. intros (i & a & b & ->). reflexivity. Qed.
Lemma rl_entry_chain d v w e ch : relabel v w -> entry_chain d v e ch -> entry_chain d w e ch.
Proof.
  intros G [(A & fu & B)|A]; [left|right; exact A]. split; [exact A|]. exists fu.
  rewrite (rl_chain_of d v w G). exact B.
Qed.
Lemma rl_node_rep d v w : relabel v w -> forall n t, node_rep d v n t -> node_rep d w n t.
Proof.
  intros G. pose proof (rl_fat32 v w G) as E32.
  induction n as [e ch|e ch kids IH] using node_ind'; intros t H.
  - apply node_rep_file in H. apply node_rep_file. rewrite E32. destruct H as (A & B & C).
    split; [exact A|]. split; [exact B|]. exact (rl_entry_chain d v w e ch G C).
  - apply node_rep_dir in H. apply node_rep_dir. rewrite E32, (rl_data_blocks v w ch G).
    destruct H as (A & B & C & D). split; [exact A|]. split; [exact B|].
    split; [apply (rl_chain_at d v w _ _ G); exact C|].
    revert D. generalize (dir_nodes d (data_blocks v ch)) as ts.
    induction IH as [|k ks Hk _ IHks]; intros ts D; inversion D; subst; constructor; auto.
Qed.
Lemma rl_tree_rep d v w bl T : relabel v w -> tree_rep d v bl T -> tree_rep d w bl T.
Proof.
  intros G H. unfold tree_rep in *. induction H as [|n t ns ts Hn _ IH]; constructor; [|exact IH].
  exact (rl_node_rep d v w G n t Hn).
Qed.
Lemma rl_root_dir d v w bl rch : relabel v w -> root_dir d v bl rch -> root_dir d w bl rch.
Proof.
  intros G. pose proof (rl_chain_at d v w) as C. pose proof (rl_data_blocks v w) as D.
  unfold root_dir. rewrite (rl_fat32 v w G).
  replace (v_root_cluster w) with (v_root_cluster v) by (destruct G as (i & a & b & ->); reflexivity).
  replace (root16_blocks w) with (root16_blocks v) by (destruct G as (i & a & b & ->); reflexivity).
  destruct (v_fat32 v); [|tauto].
  intros (A & B). split; [apply (C _ _ G); exact A|rewrite B; symmetry; apply D; exact G].
Qed.
Lemma rl_dir_ok d v w own parent bl : relabel v w -> dir_ok d v own parent bl -> dir_ok d w own parent bl.
Proof. intros G [A B D]. constructor; try assumption. rewrite (rl_fat32 v w G). exact D. Qed.
Lemma rl_node_ok d v w : relabel v w -> forall n p, node_ok d v p n -> node_ok d w p n.
Proof.
  intros G. assert (Eb : bytes_per_cluster w = bytes_per_cluster v) by (destruct G as (i & a & b & ->); reflexivity).
  induction n as [e ch|e ch kids IH] using node_ind'; intros p H.
  - apply node_ok_file in H. apply node_ok_file. rewrite Eb. exact H.
  - apply node_ok_dir in H. apply node_ok_dir. rewrite (rl_data_blocks v w ch G).
    destruct H as (A & B). split; [exact (rl_dir_ok d v w _ _ _ G A)|].
    rewrite Forall_forall in *. intros k Hk. apply (IH k Hk). apply B. exact Hk.
Qed.
Lemma rl_node_ok_crash d v w : relabel v w -> forall n p,
  PrCrashDef.node_ok_crash d v p n -> PrCrashDef.node_ok_crash d w p n.
Proof.
  intros G. induction n as [e ch|e ch kids IH] using node_ind'; intros p H; [exact I|].
  apply PrCrashDef.node_ok_crash_dir in H. apply PrCrashDef.node_ok_crash_dir. rewrite (rl_data_blocks v w ch G).
  destruct H as (A & B). split; [exact (rl_dir_ok d v w _ _ _ G A)|].
  rewrite Forall_forall in *. intros k Hk. apply (IH k Hk). apply B. exact Hk.
Qed.
Lemma rl_heads v w T : relabel v w -> heads w T = heads v T.
Proof. intros (i & a & b & ->). reflexivity. Qed.

Theorem disk_inv_relabel d v w bl rch T pend : relabel v w ->
  disk_inv d v bl rch T pend -> disk_inv d w bl rch T pend.
Proof.
  intros G [A B C D E F]. constructor.
  - exact (rl_root_dir d v w bl rch G A).
  - exact (rl_tree_rep d v w bl T G B).
  - exact (rl_dir_ok d v w _ _ _ G C).
  - rewrite Forall_forall in *. intros n Hn. exact (rl_node_ok d v w G n _ (D n Hn)).
  - rewrite (rl_heads v w T G). exact (rl_fat_wf d v w _ G E).
  - exact F.
Qed.

Theorem crash_inv_at_relabel d v w bl rch T lost : relabel v w ->
  PrCrashDef.crash_inv_at d v bl rch T lost -> PrCrashDef.crash_inv_at d w bl rch T lost.
Proof.
  intros G [A B C D E F]. constructor.
  - exact (rl_root_dir d v w bl rch G A).
  - exact (rl_tree_rep d v w bl T G B).
  - exact (rl_dir_ok d v w _ _ _ G C).
  - rewrite Forall_forall in *. intros n Hn. exact (rl_node_ok_crash d v w G n _ (D n Hn)).
  - rewrite (rl_heads v w T G). exact (rl_fat_wf d v w _ G E).
  - exact F.
Qed.

Lemma part_layout_relabel v w total fsz : relabel v w ->
  PrBounds.part_layout v total fsz -> PrBounds.part_layout w total fsz.
Proof. intros (i & a & b & ->) [A1 A2 A3 A4 A5 A6 A7 A8 A9]. constructor; assumption. Qed.

Lemma relabel_size v w : relabel v w -> v_lba w = v_lba v /\ v_nblocks w = v_nblocks v /\ v_idx w = v_idx v.
Proof. intros (i & a & b & ->). repeat split; reflexivity. Qed.

Theorem crash_inv_relabel fsz v w d : relabel v w -> PrCrashDef.crash_inv fsz v d -> PrCrashDef.crash_inv fsz w d.
Proof.
  intros G ((L & Hdev) & bl & rch & T & lost & H). destruct (relabel_size v w G) as (E1 & E2 & _). split.
  - split; [rewrite E2; exact (part_layout_relabel v w _ fsz G L)|rewrite E1, E2; exact Hdev].
  - exists bl, rch, T, lost. exact (crash_inv_at_relabel d v w bl rch T lost G H).
Qed.

(* ---- the fields PrMountLayout.mount_facts leaves open: the FAT16-only fields of a FAT32 record
   and the FAT32-only fields of a FAT16 record are 0 ---- *)
Local Tactic Notation "ibind" hyp(H) "as" ident(a) ident(s1) ident(H1) :=
  apply PrOrder.bind_inv_ok in H; destruct H as (a & s1 & H1 & H).

Definition unused_zero (v : vol) : Prop :=
  if v_fat32 v then v_root_entries v = 0 /\ v_root_block v = 0 else v_info v = 0 /\ v_root_cluster v = 0.

Lemma parse_volume_unused id idx lba nb s v s' : parse_volume id idx lba nb s = (Ok v, s') -> unused_zero v.
Proof.
  intros H. unfold parse_volume in H.
  ibind H as b s1 Hb. ibind H as p s2 Hc. destruct p as [cc f32]. cbv beta iota in H.
  destruct (U32 <=? lba + bpb_total_blocks b); [exfalso; exact (PrMountLayout.fail_inv _ _ _ _ H)|].
  destruct ((le16 b 14 =? 0) || (get8 b 16 =? 0)); [exfalso; exact (PrMountLayout.fail_inv _ _ _ _ H)|].
  destruct (bpb_fat_size b * 512 <? (cc + 2) * (if f32 then 4 else 2)); [exfalso; exact (PrMountLayout.fail_inv _ _ _ _ H)|].
  ibind H as second s3 Hs.
  destruct f32.
  - ibind H as nf s4 Hm. ibind H as fd s5 Ha.
    destruct (268435445 <? cc); [exfalso; exact (PrMountLayout.fail_inv _ _ _ _ H)|].
    destruct ((le16 b 48 =? 0) || (le16 b 14 <=? le16 b 48)); [exfalso; exact (PrMountLayout.fail_inv _ _ _ _ H)|].
    ibind H as ia s6 Hia. ibind H as ib s7 Hib.
    destruct (negb (le32 ib 0 =? 1096897106)); [exfalso; exact (PrMountLayout.fail_inv _ _ _ _ H)|].
    destruct (negb (le32 ib 484 =? 1631679090)); [exfalso; exact (PrMountLayout.fail_inv _ _ _ _ H)|].
    destruct (negb (le32 ib 508 =? 2857697280)); [exfalso; exact (PrMountLayout.fail_inv _ _ _ _ H)|].
    apply PrMountLayout.ret_inv in H. destruct H as [-> ->]. split; reflexivity.
  - destruct (negb (le16 b 11 =? 512)); [exfalso; exact (PrMountLayout.fail_inv _ _ _ _ H)|].
    ibind H as nf s4 Hm. ibind H as fr s5 Ha. ibind H as fd s6 Ha2.
    apply PrMountLayout.ret_inv in H. destruct H as [-> ->]. split; reflexivity.
Qed.

Lemma open_raw_volume_unused idx s id s' v : open_raw_volume idx s = (Ok id, s') ->
  In v (s_vols s') -> ~ In v (s_vols s) -> unused_zero v.
Proof.
  intros H Hin Hnew. unfold open_raw_volume, locked in H.
  unfold bind at 1 in H. unfold get at 1 in H.
  destruct (s_lock s); [exfalso; exact (PrMountLayout.fail_inv _ _ _ _ H)|].
  unfold bind at 1 in H. unfold get at 1 in H.
  destruct (is_full (s_vols s) (s_maxv s)); [exfalso; exact (PrMountLayout.fail_inv _ _ _ _ H)|].
  destruct (existsb (fun v => v_idx v =? idx) (s_vols s)); [exfalso; exact (PrMountLayout.fail_inv _ _ _ _ H)|].
  ibind H as mbr s0 Hm.
  destruct (negb (le16 mbr 510 =? 43605)); [exfalso; exact (PrMountLayout.fail_inv _ _ _ _ H)|].
  destruct (4 <=? idx); [exfalso; exact (PrMountLayout.fail_inv _ _ _ _ H)|].
  destruct (negb (N.land (get8 mbr (446 + 16 * idx)) 127 =? 0)); [exfalso; exact (PrMountLayout.fail_inv _ _ _ _ H)|].
  destruct (negb (partition_type_ok (get8 mbr (446 + 16 * idx + 4)))); [exfalso; exact (PrMountLayout.fail_inv _ _ _ _ H)|].
  ibind H as v0 s1 Hp. ibind H as id' s2 Hg. ibind H as u s3 Hmod.
  apply PrMountLayout.ret_inv in H. destruct H as [-> ->].
  apply PrMountLayout.generate_inv in Hg. destruct Hg as [-> ->].
  unfold modify in Hmod. inversion Hmod; subst s3. clear Hmod.
  cbn [s_vols set_s_vols set_s_next_id] in Hin.
  destruct (PrMountLayout.parse_volume_inv _ _ _ _ _ _ _ Hp) as (_ & _ & _ & _ & Pv & _).
  destruct (PrMountLayout.cache_read_ok_inv _ _ _ _ Hm) as (_ & Mv & _).
  rewrite Pv, Mv in Hin. apply in_app_or in Hin. destruct Hin as [Hin|[<-|[]]]; [contradiction|].
  pose proof (parse_volume_unused _ _ _ _ _ _ _ Hp) as U. unfold unused_zero in *.
  cbn [set_v_id v_fat32 v_root_entries v_root_block v_info v_root_cluster]. exact U.
Qed.

(* v is a record the mount code computes from the boot sector b (under its own handle, partition
   index, start and size) *)
Definition mounted_rec (b : block) (v : vol) : Prop :=
  PrMountLayout.mount_facts b (v_id v) (v_idx v) (v_lba v) (v_nblocks v) v /\ unused_zero v.

(* two records computed from the same boot sector for the same partition entry differ in the
   handle, the free count and the hint only *)
Theorem same_boot_relabel b v w : mounted_rec b v -> mounted_rec b w ->
  v_idx v = v_idx w -> v_lba v = v_lba w -> v_nblocks v = v_nblocks w -> relabel v w.
Proof.
  intros (MV & UV) (MW & UW) Eidx Elba Enb.
  destruct MV as [_ _ _ _ Vcc _ V16 V32 _ _ _ _ _ Vspc Vfat Vsec Vfirst _ VF16 VF32 _ _ _ _].
  destruct MW as [_ _ _ _ Wcc _ W16 W32 _ _ _ _ _ Wspc Wfat Wsec Wfirst _ WF16 WF32 _ _ _ _].
  assert (Ecc : v_clusters v = v_clusters w) by congruence.
  assert (E32 : v_fat32 v = v_fat32 w).
  { destruct (v_fat32 v) eqn:A, (v_fat32 w) eqn:B; try reflexivity.
    - destruct (V32 eq_refl) as (X & _). specialize (W16 eq_refl). lia.
    - destruct (W32 eq_refl) as (X & _). specialize (V16 eq_refl). lia. }
  exists (v_id w), (v_next_free w), (v_free w).
  unfold unused_zero in UV, UW. rewrite <- E32 in *.
  destruct v as [vid vidx vlba vnb vname vspc vfd vfs vsf vfree vnf vcc vf32 vre vrb vinfo vrc].
  destruct w as [wid widx wlba wnb wname wspc wfd wfs wsf wfree wnf wcc wf32 wre wrb winfo wrc].
  cbn [v_id v_idx v_lba v_nblocks v_name v_spc v_first_data v_fat_start v_second_fat v_free v_next_free
       v_clusters v_fat32 v_root_entries v_root_block v_info v_root_cluster set_v_id set_v_free set_v_next_free] in *.
  subst wf32 widx wlba wnb wcc. subst vspc wspc vfs wfs vsf wsf.
  destruct vf32.
  - destruct (VF32 eq_refl) as (_ & _ & Ei & _ & Er & En & _).
    destruct (WF32 eq_refl) as (_ & _ & Ei' & _ & Er' & En' & _).
    destruct UV as [-> ->]. destruct UW as [-> ->]. subst. reflexivity.
  - destruct (VF16 eq_refl) as (_ & A1 & A2 & _ & _ & A5).
    destruct (WF16 eq_refl) as (_ & B1 & B2 & _ & _ & B5).
    destruct UV as [-> ->]. destruct UW as [-> ->]. subst. reflexivity.
Qed.

(* ---- the record of the state is the record of the medium ---- *)
(* v is - up to handle, free count and hint - what a mount of partition entry v_idx v of the
   medium d computes: start and size are the entry's, and the geometry is that of a record the
   mount code computes from the boot sector at the start.  True after OpenVol
   (mount_vol_from_medium), kept by every history (history_vol_from_medium: no call writes block
   0 or the boot sector, PrBounds.C04_regions_not_outside). *)
Definition vol_from_medium (d : disk) (v : vol) : Prop :=
  v_lba v = PrMountLayout.mbr_start (disk_get d 0) (v_idx v) /\
  v_nblocks v = PrMountLayout.mbr_size (disk_get d 0) (v_idx v) /\
  exists v0, mounted_rec (disk_get d (v_lba v)) v0 /\ geo_eq v0 v.

Lemma geo_eq_fields v w : geo_eq v w -> v_id w = v_id v /\ v_idx w = v_idx v /\ v_lba w = v_lba v /\ v_nblocks w = v_nblocks v.
Proof. intros (a & b & ->). repeat split; reflexivity. Qed.

Lemma vol_from_medium_geo d v w : geo_eq v w -> vol_from_medium d v -> vol_from_medium d w.
Proof.
  intros G (A & B & v0 & M & G0). destruct (geo_eq_fields v w G) as (_ & E1 & E2 & E3).
  unfold vol_from_medium. rewrite E1, E2, E3. split; [exact A|]. split; [exact B|].
  exists v0. split; [exact M|exact (geo_eq_trans _ _ _ G0 G)].
Qed.

Lemma vol_from_medium_ext d d' v : disk_get d' 0 = disk_get d 0 -> disk_get d' (v_lba v) = disk_get d (v_lba v) ->
  vol_from_medium d v -> vol_from_medium d' v.
Proof. intros E0 El (A & B & H). unfold vol_from_medium. rewrite E0, El. auto. Qed.

Theorem mount_vol_from_medium idx s0 vid s1 v : fresh_mgr s0 ->
  step (OpenVol idx) s0 = (Ok (RHandle vid), s1) -> s_vols s1 = [v] -> vol_from_medium (s_disk s1) v.
Proof.
  intros F E Ev. destruct (mount_run idx s0 vid s1 F E) as
    (v' & Ev' & Eid & _ & Eidx & Ed & _ & _ & _ & _ & _ & El & En & MF).
  rewrite Ev in Ev'. injection Ev' as <-. rewrite Ed.
  split; [rewrite Eidx; exact El|]. split; [rewrite Eidx; exact En|].
  exists v. split; [|apply geo_eq_refl]. split; [rewrite Eid, Eidx; exact MF|].
  cbn [step] in E. apply PrHandles.lift_ok_inv in E. destruct E as (id & E & _).
  apply (open_raw_volume_unused idx s0 id s1 v E); [rewrite Ev; left; reflexivity|].
  destruct F as (Fv & _). rewrite Fv. intros [].
Qed.

(* every run of API calls only appends to the device log, the medium is the old one with the
   logged writes applied *)
Lemma traced_run ops : forall s, PrCrashDef.traced s (snd (run_ops ops s)).
Proof.
  induction ops as [|o rest IH]; intros s; [apply PrCrashDef.traced_refl|].
  cbn [run_ops]. destruct (step o s) as [r s1] eqn:E. specialize (IH s1).
  destruct (run_ops rest s1) as [rs s']. cbn [snd] in *.
  exact (PrCrashDef.traced_trans _ _ _ (PrCrashDef2.traced_step o s r s1 E) IH).
Qed.

(* C04 in terms of the MEDIUM: a history leaves every block outside the regions of the volume as
   it was - in particular block 0 and the boot sector *)
Theorem history_keeps_outside fsz vid ops s age v j :
  fs_inv fsz vid s -> PrHandles.handles_ok age s ->
  age + N.of_nat (length ops) < U32 - 1 -> Forall op_known_ok ops ->
  s_vols s = [v] -> ~ PrBounds.in_region v fsz j ->
  disk_get (s_disk (snd (run_ops ops s))) j = disk_get (s_disk s) j.
Proof.
  intros Hinv Hh Hage Hops Ev Hj.
  destruct (PrGlobal.C04_history fsz vid ops s age Hinv Hh Hage Hops) as (ws & Hts & Hreg).
  pose proof (traced_run ops s) as Htr.
  rewrite (PrCrashDef.traced_disk _ _ Htr). apply PrCrash.apply_ws_other.
  rewrite (PrCrashDef.tsteps_step_writes _ _ _ Hts). intros Hin.
  specialize (Hreg v ltac:(rewrite Ev; left; reflexivity)). rewrite Forall_forall in Hreg. exact (Hj (Hreg j Hin)).
Qed.

Theorem history_vol_from_medium fsz vid ops s age v :
  fs_inv fsz vid s -> PrHandles.handles_ok age s ->
  age + N.of_nat (length ops) < U32 - 1 -> Forall op_known_ok ops ->
  s_vols s = [v] -> vol_from_medium (s_disk s) v ->
  exists v', s_vols (snd (run_ops ops s)) = [v'] /\ geo_eq v v' /\
             vol_from_medium (s_disk (snd (run_ops ops s))) v'.
Proof.
  intros Hinv Hh Hage Hops Ev Hm.
  assert (L : PrBounds.part_layout v (v_nblocks v) fsz).
  { destruct Hinv as (vi & v0 & bl & rch & T & H). rewrite (fi_single _ _ _ _ _ _ _ _ H) in Ev. injection Ev as <-.
    exact (fi_layout _ _ _ _ _ _ _ _ H). }
  pose proof (history_keeps_outside fsz vid ops s age v 0 Hinv Hh Hage Hops Ev) as K0.
  pose proof (history_keeps_outside fsz vid ops s age v (v_lba v) Hinv Hh Hage Hops Ev) as Kl.
  pose proof (PrGlobal.C03_history fsz vid ops s age Hinv Hh Hage Hops) as H.
  destruct (run_ops ops s) as [rs s']. cbn [snd] in *.
  destruct H as (_ & (va & vb & Eva & Evb & G) & _). rewrite Ev in Eva. injection Eva as <-.
  exists vb. split; [exact Evb|]. split; [exact G|].
  apply (vol_from_medium_geo _ v vb G). apply (vol_from_medium_ext (s_disk s)); [| |exact Hm].
  - apply K0. intros Hr. destruct (PrBounds.C04_regions_not_outside v _ fsz 0 L Hr) as (X & _). apply X. reflexivity.
  - apply Kl. intros Hr. destruct (PrBounds.C04_regions_not_outside v _ fsz _ L Hr) as (_ & X & _). apply X. reflexivity.
Qed.

(* a later mount of the same partition entry, on a medium whose block 0 and boot sector are as
   they were, computes the same record up to handle, free count and hint *)
Theorem later_mount_relabel d v sa vid' sb v' :
  vol_from_medium d v -> fresh_mgr sa ->
  disk_get (s_disk sa) 0 = disk_get d 0 -> disk_get (s_disk sa) (v_lba v) = disk_get d (v_lba v) ->
  step (OpenVol (v_idx v)) sa = (Ok (RHandle vid'), sb) -> s_vols sb = [v'] ->
  relabel v v'.
Proof.
  intros (A & B & v0 & M0 & G0) F E0 El E Ev.
  destruct (mount_vol_from_medium _ sa vid' sb v' F E Ev) as (A' & B' & v1 & M1 & G1).
  destruct (mount_run _ sa vid' sb F E) as (v'' & Ev'' & _ & _ & Eidx & Ed & _).
  rewrite Ev in Ev''. injection Ev'' as <-. rewrite Ed in *.
  destruct (geo_eq_fields v0 v G0) as (_ & I0 & L0 & N0). destruct (geo_eq_fields v1 v' G1) as (_ & I1 & L1 & N1).
  assert (Elba : v_lba v' = v_lba v) by (rewrite A', A, Eidx, E0; reflexivity).
  assert (Enb : v_nblocks v' = v_nblocks v) by (rewrite B', B, Eidx, E0; reflexivity).
  rewrite Elba, El in M1.
  assert (R : relabel v0 v1) by (apply (same_boot_relabel _ v0 v1 M0 M1); congruence).
  apply (relabel_geo_l v v0 v' (geo_eq_sym _ _ G0)). exact (relabel_geo_r v0 v1 v' R G1).
Qed.

(* C08, Remount then OpenVol: the later mount computes the old record up to handle, free count
   and hint; the medium is crash-sound FOR THAT RECORD, the pending chains of the files that were
   open being lost chains (PrCrashDef.crash_inv); it satisfies fs_inv again exactly when nothing
   was pending (otherwise clusters are marked in use that nothing references: fat_wf over the
   heads of the tree alone fails, see remount_loses_pending below) *)
Theorem C08_remount_then_mount fsz vid s vi v bl rch T off vid' sb v' :
  fs_inv_at fsz vid s vi v bl rch T -> vol_from_medium (s_disk s) v ->
  step (OpenVol (v_idx v)) (snd (step (Remount off) s)) = (Ok (RHandle vid'), sb) -> s_vols sb = [v'] ->
  relabel v v' /\ s_disk sb = s_disk s /\
  PrCrashDef.crash_inv_at (s_disk sb) v' bl rch T (pend_of s v) /\
  PrCrashDef.crash_inv fsz v' (s_disk sb) /\
  (pend_of s v = [] -> fs_inv fsz vid' sb).
Proof.
  intros Hinv Hm E Ev.
  destruct (C08_remount fsz vid s vi v bl rch T off Hinv) as (_ & F & _ & _ & Ed & Hwf & C1 & C2 & C3).
  set (sa := snd (step (Remount off) s)) in *.
  assert (R : relabel v v').
  { apply (later_mount_relabel (s_disk s) v sa vid' sb v' Hm F); try assumption; rewrite Ed; reflexivity. }
  destruct (mount_run _ sa vid' sb F E) as (_ & _ & _ & _ & _ & Edb & _).
  split; [exact R|]. split; [congruence|]. rewrite Edb.
  split; [exact (crash_inv_at_relabel _ v v' _ _ _ _ R C1)|].
  split; [exact (crash_inv_relabel fsz v v' _ R C2)|].
  intros Ep. destruct (relabel_size v v' R) as (E1 & E2 & _).
  apply (mount_fs_inv_core fsz _ sa vid' sb v' bl rch T F Hwf E Ev).
  - rewrite E2. exact (part_layout_relabel v v' _ fsz R (fi_layout _ _ _ _ _ _ _ _ Hinv)).
  - rewrite E1, E2. exact (fi_dev _ _ _ _ _ _ _ _ Hinv).
  - rewrite Edb. exact (disk_inv_relabel _ v v' _ _ _ _ R (C3 Ep)).
Qed.

(* C08, CloseVol then OpenVol: the later mount computes the old record up to handle, free count
   and hint, and the mounted state satisfies fs_inv again (same root, same tree) *)
Theorem C08_unmount_then_mount fsz vid s vi v bl rch T sa vid' sb v' :
  fs_inv_at fsz vid s vi v bl rch T -> vol_from_medium (s_disk s) v ->
  Forall root_handle (s_dirs s) ->
  step (CloseVol vid) s = (Ok RUnit, sa) ->
  step (OpenVol (v_idx v)) sa = (Ok (RHandle vid'), sb) -> s_vols sb = [v'] ->
  relabel v v' /\ fs_inv fsz vid' sb /\ disk_inv (s_disk sb) v' bl rch T [].
Proof.
  intros Hinv Hm Hroot Ec E Ev.
  assert (Hl : s_lock s = false) by exact (proj1 (fi_vol _ _ _ _ _ _ _ _ Hinv)).
  destruct (existsb (fun f => f_vol f =? vid) (s_files s) || existsb (fun d => d_vol d =? vid) (s_dirs s)) eqn:Hx.
  { rewrite (proj1 (PrHandles.C08_volume_rules s Hl) vid Hx) in Ec. discriminate Ec. }
  apply orb_false_iff in Hx. destruct Hx as (Hxf & Hxd).
  destruct (C08_mount_unmount fsz vid s vi v bl rch T Hinv Hxf Hxd) as
    (sa' & Ec' & _ & _ & _ & _ & _ & _ & _ & Hwf & Hfr & Hsame & Hdi & Hfresh).
  rewrite Ec in Ec'. injection Ec' as <-. specialize (Hfresh Hroot).
  assert (Hout : forall j, j = 0 \/ j = v_lba v -> disk_get (s_disk sa) j = disk_get (s_disk s) j).
  { intros j Hj. destruct (v_fat32 v) eqn:E32; [|rewrite (Hsame (or_introl eq_refl)); reflexivity].
    apply Hfr. destruct (PrBounds.pl_info _ _ _ (fi_layout _ _ _ _ _ _ _ _ Hinv) E32) as (I1 & _).
    destruct Hj as [->| ->]; lia. }
  assert (R : relabel v v').
  { apply (later_mount_relabel (s_disk s) v sa vid' sb v' Hm Hfresh); try assumption; apply Hout; auto. }
  destruct (mount_run _ sa vid' sb Hfresh E) as (_ & _ & _ & _ & _ & Edb & _).
  destruct (relabel_size v v' R) as (E1 & E2 & _).
  assert (Hdi' : disk_inv (s_disk sb) v' bl rch T []) by (rewrite Edb; exact (disk_inv_relabel _ v v' _ _ _ _ R Hdi)).
  split; [exact R|]. split; [|exact Hdi'].
  apply (mount_fs_inv_core fsz _ sa vid' sb v' bl rch T Hfresh Hwf E Ev).
  - rewrite E2. exact (part_layout_relabel v v' _ fsz R (fi_layout _ _ _ _ _ _ _ _ Hinv)).
  - rewrite E1, E2. exact (fi_dev _ _ _ _ _ _ _ _ Hinv).
  - exact Hdi'.
Qed.

(* ================================================================== 6. non-vacuity *)
(* A formatted FAT16 partition (entry 0 of the master boot record: type 6, start 2048, 5097
   blocks): 1 block per cluster, 1 reserved sector, 2 FATs of 32 sectors (blocks 2049.. and
   2081..), 512 root entries (blocks 2113..2144), 5000 clusters from block 2145.
   Root: file A (clusters 2 -> 3, 600 bytes), directory D (cluster 4), empty file B.
   D: ".", "..", file C (cluster 5, 10 bytes).  A fresh manager (init_state, id offset 0). *)
Definition mx_boot : block := PrMountLayout.mk_boot 1 1 2 512 5097 32 0 0 0.
Definition mx_fat : block := set_bytes zero_block 0 [248;255; 255;255; 3;0; 255;255; 255;255; 255;255].
Definition mx_root : block :=
  set_bytes zero_block 0 (gx_ent (gx_name 65) 32 2 600 ++ gx_ent (gx_name 68) 16 4 0 ++ gx_ent (gx_name 66) 32 0 0).
Definition mx_disk : disk :=
  fold_right (fun p d => disk_set d (fst p) (snd p)) (PositiveMap.empty block)
    [(0, PrMountLayout.mk_mbr (6, 2048, 5097) (0, 0, 0)); (2048, mx_boot);
     (2049, mx_fat); (2081, mx_fat); (2113, mx_root); (2147, gx_dir_blk)].
Definition mx_s0 : st := init_state mx_disk 0 4 4 4 [].
Definition mx_s1 : st := snd (step (OpenVol 0) mx_s0).

Lemma mx_disk_wf : blocks_wf mx_disk.
Proof. apply blocks_wf_b_ok. vm_compute. reflexivity. Qed.

(* OpenVol 0 succeeds (handle 0), the decider accepts the image read with the mounted record; the
   FAT copies are identical; a FAT16 record has no free count *)
Lemma mx_open : exists v,
  step (OpenVol 0) mx_s0 = (Ok (RHandle 0), mx_s1) /\ s_vols mx_s1 = [v] /\
  PrFsck.fs_inv_fast 5 32 (s_disk mx_s1) v [] = true /\
  bpb_fat_size (disk_get (s_disk mx_s0) (v_lba v)) = 32 /\
  mirror_b (s_disk mx_s1) v 32 = true /\ v_free v = None /\ v_idx v = 0.
Proof.
  assert (R : match step (OpenVol 0) mx_s0 with
              | (Ok (RHandle h), s1) =>
                  match s_vols s1 with
                  | [v] => h = 0 /\ PrFsck.fs_inv_fast 5 32 (s_disk s1) v [] = true /\
                           bpb_fat_size (disk_get (s_disk mx_s0) (v_lba v)) = 32 /\
                           mirror_b (s_disk s1) v 32 = true /\ v_free v = None /\ v_idx v = 0
                  | _ => False
                  end
              | _ => False
              end) by (vm_compute; repeat split; reflexivity).
  unfold mx_s1. destruct (step (OpenVol 0) mx_s0) as [[[ |h| | | | | | ]|e| |] s1] eqn:E; try contradiction.
  cbn [snd]. destruct (s_vols s1) as [|v [|w r]] eqn:Ev; try contradiction.
  destruct R as (-> & R). exists v. split; [reflexivity|]. split; [reflexivity|]. exact R.
Qed.

(* the premises of section 4 hold of it *)
Lemma mx_mounted : exists v, mounted_ok 5 32 0 0 mx_s0 0 mx_s1 v /\
  mirror_b (s_disk mx_s1) v 32 = true /\ v_free v = None /\ v_idx v = 0 /\
  bpb_fat_size (disk_get (s_disk mx_s0) (v_lba v)) = 32.
Proof.
  destruct mx_open as (v & E & Ev & Hb & Hf & Hm & Hu & Hi). exists v.
  split; [|auto]. unfold mx_s0. apply mounted_ok_init.
  - exact mx_disk_wf.
  - unfold U32. lia.
  - exact E.
  - exact Ev.
  - rewrite <- PrFsck.fs_inv_fast_eq. exact Hb.
Qed.

(* C03_mount_establishes applies: the mounted state has the invariant (w.r.t. the FAT size of
   the boot sector), is inside the handle window, and its record is the record of the medium *)
Example mx_fs_inv : exists v, s_vols mx_s1 = [v] /\
  fs_inv (bpb_fat_size (disk_get (s_disk mx_s0) (v_lba v))) 0 mx_s1 /\
  PrHandles.handles_ok 1 mx_s1 /\ vol_from_medium (s_disk mx_s1) v.
Proof.
  destruct mx_mounted as (v & M & _ & _ & _ & Hf). exists v. rewrite Hf.
  destruct (mounted_start _ _ _ _ _ _ _ _ M) as (A & B).
  split; [exact (mo_vol _ _ _ _ _ _ _ _ M)|]. split; [exact A|]. split; [exact B|].
  exact (mount_vol_from_medium 0 mx_s0 0 mx_s1 v (mo_fresh _ _ _ _ _ _ _ _ M) (mo_open _ _ _ _ _ _ _ _ M) (mo_vol _ _ _ _ _ _ _ _ M)).
Qed.

(* a history from there: open the root, create E, write, flush, write across a cluster boundary,
   close, open D, delete C, make directory F, close the directories *)
Definition mx_ops : list op :=
  [OpenRoot 0; OpenFile 1 [69] ReadWriteCreate; Write 2 [1; 2; 3]; Flush 2; Write 2 (repeat 9 600);
   CloseFile 2; OpenDir 1 [68]; Delete 3 [67]; Mkdir 1 [70]; CloseDir 3; CloseDir 1].
Notation mx_s2 := (snd (run_ops mx_ops mx_s1)) (only parsing).

Lemma mx_ops_known : Forall op_known_ok mx_ops.
Proof. unfold mx_ops. repeat constructor. Qed.

(* sanity check against the executable model: every call succeeds and the decider accepts the
   image after EVERY call, with the pending heads of that moment *)
Fixpoint mx_check (ops : list op) (s : st) : list (bool * bool) :=
  match ops with
  | [] => []
  | o :: rest =>
      let '(r, s1) := step o s in
      let v := hd exd_vol (s_vols s1) in
      (match r with Ok _ => true | _ => false end,
       PrFsck.fs_inv_fast 5 32 (s_disk s1) v (pend_of s1 v)) :: mx_check rest s1
  end.
Example mx_run_checked : Forall (fun p => p = (true, true)) (mx_check mx_ops mx_s1).
Proof. vm_compute. repeat constructor. Qed.

(* the theorems: the invariant after the history that begins with the mount; the FAT copies still
   identical, the free count still unknown, the hint unknown or in range *)
Example mx_history :
  fs_inv 32 0 (snd (run_ops (OpenVol 0 :: mx_ops) mx_s0)) /\
  PrC16Def.mirror_inv 32 mx_s2 /\ PrC16Def.unknown_inv mx_s2 /\ PrC16Def.hint_inv mx_s2.
Proof.
  destruct mx_mounted as (v & M & Hm & Hu & _).
  assert (Hage : 0 + 1 + N.of_nat (length mx_ops) < U32 - 1) by (vm_compute; reflexivity).
  split.
  - exact (C03_from_mount_every_call 5 32 0 0 mx_ops [] mx_s0 0 mx_s1 v M
             ltac:(rewrite app_nil_r; exact Hage) ltac:(rewrite app_nil_r; exact mx_ops_known)).
  - destruct (C16_from_mount_history 5 32 0 0 mx_ops mx_s0 0 mx_s1 v M Hage mx_ops_known) as (A & B & _ & D).
    split; [exact (B Hm)|]. split; [exact (D Hu)|exact A].
Qed.

(* unmount and mount again: CloseVol 0 succeeds on the state after the history, OpenVol 0
   succeeds again (handle 4), and C08_unmount_then_mount gives the invariant for the new record *)
Example mx_unmount_mount : exists sa sb v',
  step (CloseVol 0) mx_s2 = (Ok RUnit, sa) /\ step (OpenVol 0) sa = (Ok (RHandle 4), sb) /\
  s_vols sb = [v'] /\ fs_inv 32 4 sb.
Proof.
  destruct mx_mounted as (v & M & _ & _ & Hidx & _).
  destruct (mounted_start _ _ _ _ _ _ _ _ M) as (Hinv & Hh).
  assert (Hage : 0 + 1 + N.of_nat (length mx_ops) < U32 - 1) by (vm_compute; reflexivity).
  pose proof (mo_vol _ _ _ _ _ _ _ _ M) as Ev.
  pose proof (mount_vol_from_medium 0 mx_s0 0 mx_s1 v (mo_fresh _ _ _ _ _ _ _ _ M) (mo_open _ _ _ _ _ _ _ _ M) Ev) as Hvm.
  destruct (history_vol_from_medium 32 0 mx_ops mx_s1 (0 + 1) v Hinv Hh Hage mx_ops_known Ev Hvm) as (v2 & Ev2 & G & Hvm2).
  pose proof (PrGlobal.C03_after_every_call 32 0 mx_ops [] mx_s1 (0 + 1) Hinv Hh
                ltac:(rewrite app_nil_r; exact Hage) ltac:(rewrite app_nil_r; exact mx_ops_known)) as Hinv2.
  destruct Hinv2 as (vi & v2' & bl & rch & T & Hat).
  pose proof (fi_single _ _ _ _ _ _ _ _ Hat) as Ev2'. rewrite Ev2 in Ev2'. injection Ev2' as <-.
  assert (Eidx : v_idx v2 = 0) by (destruct (geo_eq_fields v v2 G) as (_ & X & _); congruence).
  assert (R : match step (CloseVol 0) mx_s2 with
              | (Ok RUnit, sa) => match step (OpenVol 0) sa with
                                  | (Ok (RHandle h), sb) => h = 4 /\ s_dirs mx_s2 = []
                                  | _ => False end
              | _ => False
              end) by (vm_compute; split; reflexivity).
  destruct (step (CloseVol 0) mx_s2) as [[[ | | | | | | | ]|e| |] sa] eqn:Ec; try contradiction.
  destruct (step (OpenVol 0) sa) as [[[ |h| | | | | | ]|e| |] sb] eqn:Eo; try contradiction.
  destruct R as (-> & Ed).
  assert (Ev' : exists v', s_vols sb = [v']).
  { assert (F : fresh_mgr sa).
    { destruct (existsb (fun f => f_vol f =? 0) (s_files mx_s2) || existsb (fun d => d_vol d =? 0) (s_dirs mx_s2)) eqn:Hx.
      - rewrite (proj1 (PrHandles.C08_volume_rules mx_s2 (proj1 (fi_vol _ _ _ _ _ _ _ _ Hat))) 0 Hx) in Ec. discriminate Ec.
      - apply orb_false_iff in Hx. destruct Hx as (Hxf & Hxd).
        destruct (C08_mount_unmount 32 0 mx_s2 vi v2 bl rch T Hat Hxf Hxd) as (sa' & Ec' & X).
        rewrite Ec in Ec'. injection Ec' as <-.
        apply (proj2 (proj2 (proj2 (proj2 (proj2 (proj2 (proj2 (proj2 (proj2 (proj2 (proj2 X))))))))))).
        rewrite Ed. constructor. }
    destruct (mount_run 0 sa 4 sb F Eo) as (v' & Ev' & _). exists v'. exact Ev'. }
  destruct Ev' as (v' & Ev').
  exists sa, sb, v'. split; [reflexivity|]. split; [exact Eo|]. split; [exact Ev'|].
  rewrite <- Eidx in Eo.
  exact (proj1 (proj2 (C08_unmount_then_mount 32 0 mx_s2 vi v2 bl rch T sa 4 sb v' Hat Hvm2
                         ltac:(rewrite Ed; constructor) Ec Eo Ev'))).
Qed.

(* Remount with a PENDING chain: E is created and written (cluster 6 allocated, the directory slot
   still says "no cluster"), the manager is dropped (Remount 100), the volume mounted again
   (handle 100).  C08_remount_then_mount applies: the medium is crash-sound for the new record,
   with the lost head 6.  fs_inv does NOT hold of the mounted state, for any fsz: cluster 6 is
   marked in use and no directory entry leads to it (a lost cluster, the kind fsck reclaims). *)
Definition mx_ops3 : list op := [OpenRoot 0; OpenFile 1 [69] ReadWriteCreate; Write 2 [1; 2; 3]].
Notation mx_s3 := (snd (run_ops mx_ops3 mx_s1)) (only parsing).
Notation mx_s4 := (snd (step (OpenVol 0) (snd (step (Remount 100) mx_s3)))) (only parsing).

Theorem mx_remount_loses_pending : exists v3 v4,
  fs_inv 32 0 mx_s3 /\ s_vols mx_s3 = [v3] /\ pend_of mx_s3 v3 = [6] /\
  step (OpenVol 0) (snd (step (Remount 100) mx_s3)) = (Ok (RHandle 100), mx_s4) /\
  s_vols mx_s4 = [v4] /\ relabel v3 v4 /\
  PrCrashDef.crash_inv 32 v4 (s_disk mx_s4) /\
  forall fsz, ~ fs_inv fsz 100 mx_s4.
Proof.
  destruct mx_mounted as (v & M & _ & _ & Hidx & _).
  destruct (mounted_start _ _ _ _ _ _ _ _ M) as (Hinv & Hh).
  assert (Hops : Forall op_known_ok mx_ops3) by (unfold mx_ops3; repeat constructor).
  assert (Hage : 0 + 1 + N.of_nat (length mx_ops3) < U32 - 1) by (vm_compute; reflexivity).
  pose proof (mo_vol _ _ _ _ _ _ _ _ M) as Ev.
  pose proof (mount_vol_from_medium 0 mx_s0 0 mx_s1 v (mo_fresh _ _ _ _ _ _ _ _ M) (mo_open _ _ _ _ _ _ _ _ M) Ev) as Hvm.
  destruct (history_vol_from_medium 32 0 mx_ops3 mx_s1 (0 + 1) v Hinv Hh Hage Hops Ev Hvm) as (v3 & Ev3 & G & Hvm3).
  pose proof (PrGlobal.C03_after_every_call 32 0 mx_ops3 [] mx_s1 (0 + 1) Hinv Hh
                ltac:(rewrite app_nil_r; exact Hage) ltac:(rewrite app_nil_r; exact Hops)) as Hinv3.
  assert (Eidx : v_idx v3 = 0) by (destruct (geo_eq_fields v v3 G) as (_ & X & _); congruence).
  assert (R : match s_vols mx_s3 with
              | [w] => pend_of mx_s3 w = [6]
              | _ => False
              end) by (vm_compute; reflexivity).
  rewrite Ev3 in R.
  assert (R4 : match step (OpenVol 0) (snd (step (Remount 100) mx_s3)) with
               | (Ok (RHandle h), sb) =>
                   h = 100 /\
                   match s_vols sb with
                   | [w] => s_files sb = [] /\ v_fat32 w = false /\
                            match tree_of 5 (s_disk sb) w (root16_blocks w) with
                            | Some T0 => fat_wf_b (s_disk sb) w (heads w T0 ++ []) = false
                            | None => False
                            end
                   | _ => False
                   end
               | _ => False
               end) by (vm_compute; repeat split; reflexivity).
  destruct (step (OpenVol 0) (snd (step (Remount 100) mx_s3))) as [[[ |h| | | | | | ]|e| |] sb] eqn:Eo; try contradiction.
  cbn [snd]. destruct R4 as (-> & R4).
  destruct (s_vols sb) as [|v4 [|w r]] eqn:Ev4; try contradiction.
  destruct R4 as (Ef4 & E16 & R4).
  exists v3, v4. split; [exact Hinv3|]. split; [exact Ev3|]. split; [exact R|]. split; [reflexivity|].
  split; [reflexivity|].
  destruct Hinv3 as (vi & v3' & bl & rch & T & Hat).
  pose proof (fi_single _ _ _ _ _ _ _ _ Hat) as Ev3'. rewrite Ev3 in Ev3'. injection Ev3' as <-.
  rewrite <- Eidx in Eo.
  destruct (C08_remount_then_mount 32 0 _ vi v3 bl rch T 100 100 sb v4 Hat Hvm3 Eo Ev4) as (Rl & _ & _ & Cr & _).
  split; [exact Rl|]. split; [exact Cr|].
  intros fsz (vi' & w & bl' & rch' & T' & H).
  pose proof (fi_single _ _ _ _ _ _ _ _ H) as Ew. rewrite Ev4 in Ew. injection Ew as <-.
  pose proof (fi_disk _ _ _ _ _ _ _ _ H) as HD. unfold pend_of in HD. rewrite Ef4 in HD. cbn [filter map] in HD.
  pose proof (di_root _ _ _ _ _ _ HD) as Hroot. unfold root_dir in Hroot. rewrite E16 in Hroot. destruct Hroot as (_ & ->).
  destruct (tree_of 5 (s_disk sb) v4 (root16_blocks v4)) as [T0|] eqn:Et; [|contradiction].
  pose proof (tree_rep_det _ _ _ _ _ (di_tree _ _ _ _ _ _ HD) (tree_of_sound _ _ _ _ _ Et)) as ->.
  pose proof (proj2 (fat_wf_b_spec _ _ _) (di_wf _ _ _ _ _ _ HD)) as Hb.
  congruence.
Qed.

(* ================================================================== assumptions *)
Print Assumptions mount_run.
Print Assumptions mount_handles_ok.
Print Assumptions mount_fs_inv_core.
Print Assumptions fs_inv_partition_fits.
Print Assumptions C03_mount_establishes_prop.
Print Assumptions C03_mount_establishes.
Print Assumptions C03_mount_establishes_fast.
Print Assumptions C03_mount_establishes_init.
Print Assumptions C03_mount_needs_partition_fits.
Print Assumptions C03_from_mount_history.
Print Assumptions C03_from_mount_every_call.
Print Assumptions C04_from_mount_history.
Print Assumptions C05_from_mount_history.
Print Assumptions mount_hint_inv.
Print Assumptions mount_unknown16.
Print Assumptions C16_from_mount_history.
Print Assumptions C08_mount_unmount.
Print Assumptions C08_unmount_refused.
Print Assumptions C08_remount.
Print Assumptions disk_inv_relabel.
Print Assumptions crash_inv_relabel.
Print Assumptions same_boot_relabel.
Print Assumptions mount_vol_from_medium.
Print Assumptions history_keeps_outside.
Print Assumptions history_vol_from_medium.
Print Assumptions later_mount_relabel.
Print Assumptions C08_remount_then_mount.
Print Assumptions C08_unmount_then_mount.
Print Assumptions mx_fs_inv.
Print Assumptions mx_run_checked.
Print Assumptions mx_history.
Print Assumptions mx_unmount_mount.
Print Assumptions mx_remount_loses_pending.
