(* PROOFS: C11 for `Mkdir d name`, part 1 - the run under ONE armed device fault, cut at the one
   `try` site of the model whose handler WRITES after a device error (FsFat.make_dir: a failed
   write_new_directory_entry is followed by free_cluster_chain on the new directory's cluster).
     1. make_dir_in_dir = mkdir_pre3 (handles, lookup, allocation of c, the blocks of c) ;
                          try (write_new_directory_entry) ; release / Ok        (mdd_split)
        pfx / lockstep / traced for mkdir_pre3;
     2. `qf m`: a device failure is the LAST device call of the run and the run returns
        Err DeviceError (every function below write_new_directory_entry); with lock-step this gives:
        the successful writes of a faulted run are those of the fault-free run BEFORE its own last
        device call (fault_strict) - a faulted write_new_directory_entry never wrote the slot;
     3. mkdir_fault_cases: the armed run of Mkdir that reached the fault returns an error and
        - its medium is a crashed medium of the fault-free Mkdir (fault before the `try`, or inside
          the release of a fault-free NotEnoughSpace), or
        - the fault fired inside write_new_directory_entry: the medium is a crashed medium of the
          fault-free entry write, never the last one when that write succeeds, and the release then
          ran with no fault left (mk_hard). *)
From Coq Require Import NArith ZArith List Bool Lia Arith FMapPositive.
From SdFs Require Import FsTypes FsBase FsFat FsMgr FsLemmas PrBase PrAllocEffect PrChain PrFault PrGlobalDef.
From SdFs Require PrHandles PrCrash PrModes PrDir.
From SdFs Require Import PrFault2 PrCrashDef PrCrashDef2 PrCrashDef4 PrFaultDef PrFaultDef2 PrFaultDef3.
From SdFs Require Import PrGlobalMkdirR.
Import ListNotations.
Open Scope N_scope.

(* ================================================================== 0. the monad, pointwise *)
Lemma bind_ext {A B} (m : M A) (k k' : A -> M B) s :
  (forall a s1, k a s1 = k' a s1) -> bind m k s = bind m k' s.
Proof. intros H. unfold bind. destruct (m s) as [[a|e| |] s1]; try reflexivity. apply H. Qed.

Lemma bind_ret_r {A} (m : M A) s : bind m (fun a => ret a) s = m s.
Proof. unfold bind, ret. destruct (m s) as [[a|e| |] s1]; reflexivity. Qed.

(* ================================================================== 1. make_dir_in_dir, cut in three *)
(* the handles, the name, the lookup: yields (volume index, parent cluster, short name) *)
Definition mkdir_head (d : N) (name : list N) : M (nat * N * list N) := locked (
  s <- get ;;
  if is_full (s_dirs s) (s_maxd s) then fail TooManyOpenDirs else
  di <- get_dir_by_id d ;;
  dd <- get_dir di ;;
  vi <- get_volume_by_id (d_vol dd) ;;
  match sfn_of_str name with
  | None => fail FilenameError
  | Some sfn =>
      if list_eqb sfn THIS_DIR_NAME || list_eqb sfn PARENT_DIR_NAME then fail DirAlreadyExists else
      r <- try (find_directory_entry vi (d_cluster dd) sfn) ;;
      match r with
      | inl e => if is_directory (e_attr e) then fail DirAlreadyExists else fail FileAlreadyExists
      | inr NotFound => ret (vi, d_cluster dd, sfn)
      | inr e => fail e
      end
  end).

(* make_dir up to the `try`: the new cluster, its block with the dot entries, its zeroed blocks *)
Definition make_dir_pre (vi : nat) (parent : N) (sfn : list N) (att : N) : M N :=
  new_dir_cluster <- alloc_cluster vi None false ;;
  v <- get_vol vi ;;
  start <- cluster_to_block v new_dir_cluster ;;
  now <- get_timestamp ;;
  blank_mut start ;;;
  dot <- serialize (v_fat32 v) (mk_dirent THIS_DIR_NAME now now att new_dir_cluster 0 start 0) ;;
  dotdot <- serialize (v_fat32 v)
              (mk_dirent PARENT_DIR_NAME now now att (if parent =? CL_ROOT then CL_EMPTY else parent) 0 start 32) ;;
  cache_modify (fun b => set_bytes (set_bytes b 0 dot) 32 dotdot) ;;;
  write_back ;;;
  _ <- add32 start (v_spc v) ;;
  _ <- for_blocks_from (N.to_nat (v_spc v) - 1) (start + 1)
         (fun i => blank_mut i ;;; write_back ;;; ret (@None unit)) ;;
  ret new_dir_cluster.

Definition mkdir_pre3 (d : N) (name : list N) : M (nat * N * list N * N) :=
  p <- mkdir_head d name ;;
  c <- make_dir_pre (fst (fst p)) (snd (fst p)) (snd p) A_DIRECTORY ;;
  ret (p, c).

Lemma make_dir_split vi parent sfn s :
  make_dir vi parent sfn A_DIRECTORY s =
  (c <- make_dir_pre vi parent sfn A_DIRECTORY ;; mkdir_rest vi parent sfn c) s.
Proof.
  unfold make_dir, make_dir_pre, mkdir_rest.
  repeat (rewrite PrDir.bind_bind; apply bind_ext; intros ? ?).
  reflexivity.
Qed.

Lemma mdd_split d name s :
  make_dir_in_dir d name s =
  (q <- mkdir_pre3 d name ;; mkdir_rest (fst (fst (fst q))) (snd (fst (fst q))) (snd (fst q)) (snd q)) s.
Proof.
  unfold make_dir_in_dir, mkdir_pre3, mkdir_head, locked.
  rewrite !PrDir.bind_bind. rewrite !PrHandles.bind_get.
  destruct (s_lock s); [reflexivity|].
  rewrite !PrDir.bind_bind. rewrite !PrHandles.bind_get.
  destruct (is_full (s_dirs s) (s_maxd s)); [reflexivity|].
  rewrite PrDir.bind_bind. apply bind_ext. intros di s1.
  rewrite PrDir.bind_bind. apply bind_ext. intros dd s2.
  rewrite PrDir.bind_bind. apply bind_ext. intros vi s3.
  destruct (sfn_of_str name) as [sfn|]; [|reflexivity].
  destruct (list_eqb sfn THIS_DIR_NAME || list_eqb sfn PARENT_DIR_NAME); [reflexivity|].
  rewrite PrDir.bind_bind. apply bind_ext. intros r s4.
  destruct r as [e|e].
  - destruct (is_directory (e_attr e)); reflexivity.
  - destruct e; try reflexivity.
    unfold bind at 1. unfold ret at 1. cbn [fst snd].
    rewrite PrDir.bind_bind. rewrite make_dir_split. apply bind_ext. intros c s5. reflexivity.
Qed.

(* ---- prefix runs, lock-step ---- *)
Lemma pfx_mkdir_head d name : pfx (mkdir_head d name).
Proof. unfold mkdir_head. apply pfx_locked. pfx_go. Qed.
Lemma pfx_make_dir_pre vi parent sfn att : pfx (make_dir_pre vi parent sfn att).
Proof. unfold make_dir_pre. pfx_go. apply pfx_for_blocks_from. intros i. pfx_go. Qed.
Lemma pfx_mkdir_pre3 d name : pfx (mkdir_pre3 d name).
Proof.
  unfold mkdir_pre3. apply pfx_bind; [apply pfx_mkdir_head|]. intros p.
  apply pfx_bind; [apply pfx_make_dir_pre|]. intros c. apply pfx_ret.
Qed.

Lemma ls_mkdir_head d name : lockstep (mkdir_head d name).
Proof. unfold mkdir_head. apply ls_locked. ls_go. Qed.
Lemma ls_make_dir_pre vi parent sfn att : lockstep (make_dir_pre vi parent sfn att).
Proof. unfold make_dir_pre. ls_go. apply ls_for_blocks_from. intros i. ls_go. Qed.
Lemma ls_mkdir_pre3 d name : lockstep (mkdir_pre3 d name).
Proof.
  unfold mkdir_pre3. apply ls_bind; [apply ls_mkdir_head|]. intros p.
  apply ls_bind; [apply ls_make_dir_pre|]. intros c. apply ls_ret.
Qed.

(* ================================================================== 2. the failed call is the last call *)
(* under ANY schedule: if a device failure was logged during the run, it is the newest event of the
   run (nothing was attempted after it) and the run returned Err DeviceError *)
Definition qf {A} (m : M A) : Prop :=
  forall s r s', m s = (r, s') ->
    exists new, ext s s' new /\
      (fails new -> r = Err DeviceError /\ exists fl pre, new = fl :: pre /\ is_fail fl).

Lemma qf_quiet {A} (m : M A) : (forall s, s_trace (snd (m s)) = s_trace s) -> qf m.
Proof.
  intros H s r s' E. exists []. split; [unfold ext; cbn [app]; rewrite <- (H s), E; reflexivity|].
  intros Hf. destruct (fails_nil Hf).
Qed.
Lemma qf_ret {A} (a : A) : qf (ret a). Proof. apply qf_quiet. reflexivity. Qed.
Lemma qf_fail {A} e : qf (@fail A e). Proof. apply qf_quiet. reflexivity. Qed.
Lemma qf_panic {A} : qf (@panic A). Proof. apply qf_quiet. reflexivity. Qed.
Lemma qf_oof {A} : qf (@out_of_fuel A). Proof. apply qf_quiet. reflexivity. Qed.
Lemma qf_modify f : (forall s, s_trace (f s) = s_trace s) -> qf (modify f).
Proof. intros H. apply qf_quiet. exact H. Qed.

Lemma qf_bind {A B} (m : M A) (k : A -> M B) : qf m -> (forall a, qf (k a)) -> qf (bind m k).
Proof.
  intros Hm Hk s r s' E. unfold bind in E. destruct (m s) as [r1 s1] eqn:E1.
  destruct (Hm _ _ _ E1) as (n1 & X1 & F1).
  destruct r1 as [a|e| |].
  - destruct (Hk a _ _ _ E) as (n2 & X2 & F2). exists (n2 ++ n1). split; [exact (ext_trans _ _ _ _ _ X1 X2)|].
    intros Hf. apply fails_app in Hf. destruct Hf as [Hf|Hf].
    + destruct (F2 Hf) as (-> & fl & pre & -> & Hfl). split; [reflexivity|]. exists fl, (pre ++ n1). split; [reflexivity|exact Hfl].
    + destruct (F1 Hf) as (Hr & _). discriminate Hr.
  - injection E as <- <-. exists n1. split; [exact X1|]. intros Hf. destruct (F1 Hf) as (Hr & Hl).
    injection Hr as ->. split; [reflexivity|exact Hl].
  - injection E as <- <-. exists n1. split; [exact X1|]. intros Hf. destruct (F1 Hf) as (Hr & _). discriminate Hr.
  - injection E as <- <-. exists n1. split; [exact X1|]. intros Hf. destruct (F1 Hf) as (Hr & _). discriminate Hr.
Qed.

Lemma qf_bind_get {B} (k : st -> M B) : (forall s0, qf (k s0)) -> qf (bind get k).
Proof. intros Hk s r s' E. rewrite PrHandles.bind_get in E. exact (Hk s _ _ _ E). Qed.

(* a catch site whose handler hands a caught DeviceError on without touching the device *)
Definition reraisesq {A B} (k : A + err -> M B) : Prop :=
  forall s, exists s2, k (inr DeviceError) s = (Err DeviceError, s2) /\ s_trace s2 = s_trace s.

Lemma qf_try_bind {A B} (m : M A) (k : A + err -> M B) :
  qf m -> (forall x, qf (k x)) -> reraisesq k -> qf (bind (try m) k).
Proof.
  intros Hm Hk Hh s r s' E. unfold bind, try in E. destruct (m s) as [r1 s1] eqn:E1.
  destruct (Hm _ _ _ E1) as (n1 & X1 & F1).
  assert (Hgo : forall x, (fails n1 -> x = inr DeviceError) -> k x s1 = (r, s') ->
            exists new, ext s s' new /\ (fails new -> r = Err DeviceError /\ exists fl pre, new = fl :: pre /\ is_fail fl)).
  { intros x Hx E2. destruct (Hk x _ _ _ E2) as (n2 & X2 & F2). exists (n2 ++ n1).
    split; [exact (ext_trans _ _ _ _ _ X1 X2)|]. intros Hf. apply fails_app in Hf. destruct Hf as [Hf|Hf].
    - destruct (F2 Hf) as (-> & fl & pre & -> & Hfl). split; [reflexivity|]. exists fl, (pre ++ n1). split; [reflexivity|exact Hfl].
    - rewrite (Hx Hf) in E2. destruct (Hh s1) as (s2 & Eh & Th). rewrite Eh in E2. injection E2 as <- <-.
      assert (n2 = []) by (apply (ext_unique s1 s2); [exact X2|unfold ext; cbn [app]; exact Th]). subst n2.
      split; [reflexivity|]. destruct (F1 Hf) as (_ & fl & pre & -> & Hfl). exists fl, pre. split; [reflexivity|exact Hfl]. }
  destruct r1 as [a|e| |].
  - apply (Hgo (inl a)); [|exact E]. intros Hf. destruct (F1 Hf) as (Hr & _). discriminate Hr.
  - apply (Hgo (inr e)); [|exact E]. intros Hf. destruct (F1 Hf) as (Hr & _). injection Hr as ->. reflexivity.
  - injection E as <- <-. exists n1. split; [exact X1|]. intros Hf. destruct (F1 Hf) as (Hr & _). discriminate Hr.
  - injection E as <- <-. exists n1. split; [exact X1|]. intros Hf. destruct (F1 Hf) as (Hr & _). discriminate Hr.
Qed.

Lemma qf_dev_read i : qf (dev_read i).
Proof.
  intros s r s' E. unfold dev_read in E. cbv zeta in E. destruct (faulty s); injection E as <- <-.
  - exists [DReadFail i]. split; [reflexivity|]. intros _. split; [reflexivity|]. exists (DReadFail i), []. split; [reflexivity|exact I].
  - exists [DRead i]. split; [reflexivity|]. intros Hf. exfalso. revert Hf. apply fails_cons_ok; [intros []|apply fails_nil].
Qed.
Lemma qf_dev_write i b : qf (dev_write i b).
Proof.
  intros s r s' E. unfold dev_write in E. cbv zeta in E. destruct (faulty s); injection E as <- <-.
  - exists [DWriteFail i]. split; [reflexivity|]. intros _. split; [reflexivity|]. exists (DWriteFail i), []. split; [reflexivity|exact I].
  - exists [DWrite i b]. split; [reflexivity|]. intros Hf. exfalso. revert Hf. apply fails_cons_ok; [intros []|apply fails_nil].
Qed.

Create HintDb qf.
#[export] Hint Resolve qf_ret qf_fail qf_panic qf_oof qf_dev_read qf_dev_write : qf.

Ltac reraisesq_tac := intros ?; eexists; split; reflexivity.
Ltac qf_step :=
  cbn beta iota;
  lazymatch goal with
  | |- qf (bind get _) => apply qf_bind_get; intros ?
  | |- qf (bind (try _) _) => apply qf_try_bind; [|intros [?|?]|reraisesq_tac]
  | |- qf (bind _ _) => apply qf_bind; [|intros ?]
  | |- qf (modify _) => apply qf_modify; intros ?; reflexivity
  | |- qf (if ?c then _ else _) => destruct c
  | |- qf (match ?x with _ => _ end) => destruct x
  | |- qf (let _ := _ in _) => cbv zeta
  | |- qf _ => solve [auto 2 with qf]
  end.
Ltac qf_go := repeat qf_step.

Lemma qf_add32 a b : qf (add32 a b). Proof. unfold add32. qf_go. Qed.
Lemma qf_sub32 a b : qf (sub32 a b). Proof. unfold sub32. qf_go. Qed.
Lemma qf_mul32 a b : qf (mul32 a b). Proof. unfold mul32. qf_go. Qed.
#[export] Hint Resolve qf_add32 qf_sub32 qf_mul32 : qf.
Lemma qf_get_vol vi : qf (get_vol vi). Proof. unfold get_vol. qf_go. Qed.
Lemma qf_put_vol vi v : qf (put_vol vi v). Proof. unfold put_vol. qf_go. Qed.
Lemma qf_get_timestamp : qf get_timestamp. Proof. unfold get_timestamp. qf_go. Qed.
Lemma qf_cache_read i : qf (cache_read i). Proof. unfold cache_read. qf_go. Qed.
Lemma qf_cache_modify f : qf (cache_modify f). Proof. unfold cache_modify. qf_go. Qed.
Lemma qf_write_back : qf write_back. Proof. unfold write_back. qf_go. Qed.
Lemma qf_write_back_dup d : qf (write_back_with_duplicate d). Proof. unfold write_back_with_duplicate. qf_go. Qed.
Lemma qf_blank_mut i : qf (blank_mut i). Proof. unfold blank_mut. qf_go. Qed.
#[export] Hint Resolve qf_get_vol qf_put_vol qf_get_timestamp qf_cache_read qf_cache_modify
  qf_write_back qf_write_back_dup qf_blank_mut : qf.
Lemma qf_fat_block v a b : qf (fat_block v a b). Proof. unfold fat_block. qf_go. Qed.
Lemma qf_cluster_to_block v c : qf (cluster_to_block v c). Proof. unfold cluster_to_block. qf_go. Qed.
Lemma qf_ts_to_fat t : qf (ts_to_fat t). Proof. unfold ts_to_fat. qf_go. Qed.
#[export] Hint Resolve qf_fat_block qf_cluster_to_block qf_ts_to_fat : qf.
Lemma qf_serialize b e : qf (serialize b e). Proof. unfold serialize. qf_go. Qed.
#[export] Hint Resolve qf_serialize : qf.
Lemma qf_update_fat vi c x : qf (update_fat vi c x). Proof. unfold update_fat. qf_go. Qed.
Lemma qf_next_cluster v c : qf (next_cluster v c). Proof. unfold next_cluster. qf_go. Qed.
#[export] Hint Resolve qf_update_fat qf_next_cluster : qf.
Lemma qf_for_blocks_from {R} (body : N -> M (option R)) :
  (forall i, qf (body i)) -> forall n i, qf (for_blocks_from n i body).
Proof. intros Hb. induction n as [|n IH]; intros i; cbn [for_blocks_from]; qf_go. Qed.
Lemma qf_for_blocks {R} (body : N -> M (option R)) first size :
  (forall i, qf (body i)) -> qf (for_blocks first size body).
Proof. intros Hb. unfold for_blocks. qf_go. apply qf_for_blocks_from. exact Hb. Qed.
Lemma qf_find_next_free_loop v endc : forall fuel cur, qf (find_next_free_loop fuel v cur endc).
Proof. induction fuel as [|f IH]; intros cur; cbn [find_next_free_loop]; qf_go. Qed.
Lemma qf_find_next_free_cluster v a b : qf (find_next_free_cluster v a b).
Proof. apply qf_find_next_free_loop. Qed.
#[export] Hint Resolve qf_find_next_free_cluster : qf.
Lemma qf_zero_cluster v c : qf (zero_cluster v c).
Proof. unfold zero_cluster. qf_go. apply qf_for_blocks. intros i. qf_go. Qed.
#[export] Hint Resolve qf_zero_cluster : qf.
Lemma qf_alloc_cluster vi prev zero : qf (alloc_cluster vi prev zero).
Proof. unfold alloc_cluster. qf_go. Qed.
#[export] Hint Resolve qf_alloc_cluster : qf.
Lemma qf_walk_dir {R} vi grow (body : N -> M (option R)) :
  (forall blk, qf (body blk)) -> forall fuel cluster, qf (walk_dir fuel vi cluster grow body).
Proof.
  intros Hb. induction fuel as [|fuel IH]; intros cluster; cbn [walk_dir]; qf_go.
  all: apply qf_for_blocks; exact Hb.
Qed.
Lemma qf_write_new_directory_entry vi dc name attr fc : qf (write_new_directory_entry vi dc name attr fc).
Proof. unfold write_new_directory_entry. qf_go. apply qf_walk_dir. intros blk. qf_go. Qed.

(* ================================================================== 3. reached / not reached, and the medium *)
(* a run that is, call for call, the run without the fault has not reached the armed call *)
Lemma eq_not_reached {A} (m : M A) n s r s' :
  lockstep m -> pending n s -> m s = (r, s') -> m (nf s) = (r, nf s') -> pending n s'.
Proof.
  intros Hm Hp E N1.
  destruct (proj2 Hm n s r s' Hp E) as [(Hp1 & _)|(pre & fl & post & r0 & s0 & rest0 & T & Hfl & NP & Cn & N0 & T0 & R0)];
    [exact Hp1|exfalso].
  destruct (proj1 Hm _ _ _ N1) as (new & X & _ & _ & G). specialize (G (nf_no_faults s)). apply G.
  unfold ext in X. change (s_trace (nf s')) with (s_trace s') in X. change (s_trace (nf s)) with (s_trace s) in X.
  rewrite X in T. assert (new = post ++ fl :: pre) by (apply (app_inv_tail (s_trace s)); rewrite T, <- app_assoc; reflexivity).
  subst new. apply is_fail_fails. exact Hfl.
Qed.

(* reached, in a function that stops at the failed call: the log of the armed run is the failed
   call on top of a proper initial part of the log of the fault-free run *)
Lemma fault_strict {A} (m : M A) n s r s' :
  lockstep m -> qf m -> pending n s -> m s = (r, s') -> n < s_ncalls s' ->
  r = Err DeviceError /\ passed n s' /\
  exists pre fl r0 s0 rest0,
    s_trace s' = fl :: pre ++ s_trace s /\ is_fail fl /\
    m (nf s) = (r0, s0) /\ s_trace s0 = rest0 ++ pre ++ s_trace s /\ rest0 <> [].
Proof.
  intros Hm Hq Hp E Hn.
  destruct (proj2 Hm n s r s' Hp E) as [(Hp1 & _)|(pre & fl & post & r0 & s0 & rest0 & T & Hfl & NP & Cn & N0 & T0 & R0)].
  { exfalso. destruct Hp1 as (_ & C). lia. }
  destruct (Hq _ _ _ E) as (new & X & F). unfold ext in X.
  assert (En : new = post ++ fl :: pre) by (apply (app_inv_tail (s_trace s)); rewrite <- X, T, <- app_assoc; reflexivity).
  destruct F as (Hr & fl' & pre' & En' & Hfl'); [rewrite En; apply is_fail_fails; exact Hfl|].
  split; [exact Hr|]. split; [exact (ls_reached_passed m n s r s' Hm Hp E Hn)|].
  destruct post as [|x post].
  - exists pre, fl, r0, s0, rest0. repeat split; assumption.
  - exfalso. apply NP. rewrite En in En'. cbn [app] in En'. injection En' as -> _.
    exact (is_fail_fails fl' [] post Hfl').
Qed.

Lemma dwr_fail_cons fl l : is_fail fl -> dwr (fl :: l) = dwr l.
Proof. destruct fl; intros H; try destruct H; reflexivity. Qed.
Lemma reads_dwr l : Forall PrModes.is_read_call l -> dwr l = [].
Proof. induction 1 as [|x l Hx _ IH]; [reflexivity|]. destruct x; try destruct Hx; exact IH. Qed.

Lemma prefix_disk_app_len (a b : list (N * block)) D : PrCrash.prefix_disk (a ++ b) (length a) D = apply_ws a D.
Proof. unfold PrCrash.prefix_disk. rewrite firstn_app, firstn_all, Nat.sub_diag. cbn [firstn]. rewrite app_nil_r. reflexivity. Qed.

(* the writes of the one run are the first writes of the other *)
Lemma prefix_crash a a' b b' pre x y : s_disk a' = s_disk a ->
  traced a b -> s_trace b = x ++ s_trace a -> dwr x = dwr pre ->
  s_trace b' = y ++ pre ++ s_trace a' -> crash_disks a' b' (s_disk b).
Proof.
  intros Hd T Eb Ex Eb'. exists (length (rev (dwr pre))).
  rewrite (step_writes_ext a' b' (y ++ pre)) by (rewrite Eb', <- app_assoc; reflexivity).
  rewrite dwr_app, rev_app_distr. split; [rewrite app_length; lia|].
  rewrite prefix_disk_app_len, Hd. rewrite (traced_disk a b T), (step_writes_ext a b x Eb), Ex. reflexivity.
Qed.

Lemma pfx_crash s s' s0 ws ws0 : tr_ext s s' ws -> tr_ext (nf s) s0 (ws ++ ws0) -> crash_disks (nf s) s0 (s_disk s').
Proof.
  intros X X0. exists (length ws). rewrite (tr_ext_step_writes _ _ _ X0). split; [rewrite app_length; lia|].
  rewrite prefix_disk_app_len. exact (tr_ext_disk _ _ _ X).
Qed.

Lemma pfx_tm {A} (m : M A) : pfx m -> tm m.
Proof. intros H s r s' E. destruct (H _ _ _ E) as (ws & X & _). exact (tr_ext_traced _ _ _ X). Qed.

Lemma tm_mkdir_rest' vi parent sfn c : tm (mkdir_rest vi parent sfn c).
Proof. unfold mkdir_rest. tm_go. Qed.

(* the fault-free call, from the fault-free run of its first part *)
Lemma mdd_from_pre3 d name S q0 S6 : mkdir_pre3 d name S = (q0, S6) ->
  exists r0 s0, make_dir_in_dir d name S = (r0, s0) /\ traced S S6 /\ traced S6 s0.
Proof.
  intros H. pose proof (pfx_tm _ (pfx_mkdir_pre3 d name) _ _ _ H) as T1.
  rewrite mdd_split. unfold bind at 1. rewrite H. destruct q0 as [q|e| |].
  - destruct (mkdir_rest (fst (fst (fst q))) (snd (fst (fst q))) (snd (fst q)) (snd q) S6) as [r0 s0] eqn:E.
    exists r0, s0. split; [reflexivity|]. split; [exact T1|exact (tm_mkdir_rest' _ _ _ _ _ _ _ E)].
  - eexists _, S6. split; [reflexivity|]. split; [exact T1|apply traced_refl].
  - eexists _, S6. split; [reflexivity|]. split; [exact T1|apply traced_refl].
  - eexists _, S6. split; [reflexivity|]. split; [exact T1|apply traced_refl].
Qed.

(* ================================================================== 4. the armed run of Mkdir *)
Notation wnde vi parent sfn c := (write_new_directory_entry vi parent sfn A_DIRECTORY c).

(* the fault fired inside write_new_directory_entry *)
Inductive mk_hard (d : N) (name : list N) (s : st) (r : outcome unit) (s' : st) : Prop :=
| mk_mk_hard (mh_vi : nat) (mh_parent : N) (mh_sfn : list N) (mh_c : N) (mh_s6 mh_s7 : st)
    (mh_r0 : outcome dirent) (mh_S7 : st) :
  (* no fault: the first part ends in the state nf mh_s6 *)
  mkdir_pre3 d name (nf s) = (Ok (mh_vi, mh_parent, mh_sfn, mh_c), nf mh_s6) ->
  (* armed: the entry write fails from mh_s6 (equal to that state up to the schedule) *)
  wnde mh_vi mh_parent mh_sfn mh_c mh_s6 = (Err DeviceError, mh_s7) ->
  no_faults mh_s7 ->
  (* no fault: the entry write from there *)
  wnde mh_vi mh_parent mh_sfn mh_c (nf mh_s6) = (mh_r0, mh_S7) ->
  (* the medium after the failed entry write is a crashed medium of the fault-free one ... *)
  crash_disks (nf mh_s6) mh_S7 (s_disk mh_s7) ->
  (* ... and not the last one when the last device call of the fault-free entry write is a write *)
  (forall sp ib bb l np, s_trace mh_S7 = DWrite ib bb :: l ++ s_trace sp ->
     Forall PrModes.is_read_call l -> s_trace sp = np ++ s_trace (nf mh_s6) ->
     crash_disks (nf mh_s6) sp (s_disk mh_s7)) ->
  (* then the release, with no fault left *)
  (free_cluster_chain mh_vi mh_c ;;; @fail unit DeviceError) mh_s7 = (r, s') ->
  mk_hard d name s r s'.

Theorem mkdir_fault_cases d name s i r s' :
  make_dir_in_dir d name (arm s i) = (r, s') -> s_ncalls s + i < s_ncalls s' ->
  ((exists e, r = Err e) /\
   exists r0 s0, make_dir_in_dir d name (nf s) = (r0, s0) /\ crash_disks (nf s) s0 (s_disk s'))
  \/ mk_hard d name s r s'.
Proof.
  intros E Hreach. set (n := s_ncalls s + i) in *.
  pose proof (pending_arm s i) as Hp. fold n in Hp.
  rewrite mdd_split in E. unfold bind at 1 in E.
  destruct (mkdir_pre3 d name (arm s i)) as [q s6a] eqn:E1.
  destruct (pfx_mkdir_pre3 d name _ _ _ E1) as (ws1 & X1 & C1). change (nf (arm s i)) with (nf s) in C1.
  assert (Hnotok : (forall a, q <> Ok a) -> (r, s') = (cast q, s6a) ->
            (exists e, r = Err e) /\
            exists r0 s0, make_dir_in_dir d name (nf s) = (r0, s0) /\ crash_disks (nf s) s0 (s_disk s')).
  { intros Hq Er. injection Er as -> ->.
    destruct C1 as [C1|(-> & q0 & S6 & ws0 & C1 & X0)].
    - exfalso. pose proof (eq_not_reached _ n _ _ _ (ls_mkdir_pre3 d name) Hp E1 C1) as (_ & C). lia.
    - split; [eexists; reflexivity|].
      destruct (mdd_from_pre3 d name (nf s) q0 S6 C1) as (r0 & s0 & Er & T1 & T2).
      exists r0, s0. split; [exact Er|]. apply (crash_disks_left (nf s) S6 s0 _ T1 T2).
      exact (pfx_crash (arm s i) s6a S6 ws1 ws0 X1 X0). }
  destruct q as [q|e| |]; [|left; apply Hnotok; [discriminate|symmetry; exact E]..].
  destruct C1 as [C1|(C1 & _)]; [|discriminate C1].
  pose proof (eq_not_reached _ n _ _ _ (ls_mkdir_pre3 d name) Hp E1 C1) as Hp6.
  destruct q as [[[vi parent] sfn] c]. cbn [fst snd] in E.
  destruct (mdd_from_pre3 d name (nf s) _ _ C1) as (rF & sF & EF & T1 & T2).
  rewrite mdd_split in EF. unfold bind at 1 in EF. rewrite C1 in EF. cbn [fst snd] in EF.
  unfold mkdir_rest in E, EF. unfold bind at 1 in E. unfold bind at 1 in EF. unfold try in E, EF.
  destruct (wnde vi parent sfn c s6a) as [rW s7a] eqn:E2.
  destruct (N.le_gt_cases (s_ncalls s7a) n) as [Hle|Hgt].
  - (* the entry write did not reach the armed call *)
    left.
    destruct (ls_not_reached _ n _ _ _ (ls_write_new_directory_entry vi parent sfn A_DIRECTORY c) Hp6 E2 Hle) as (Hp7 & N2).
    rewrite N2 in EF. pose proof (tm_write_new_directory_entry _ _ _ _ _ _ _ _ N2) as T67.
    destruct rW as [e|e| |]; try (exfalso; injection E as _ <-; destruct Hp7 as (_ & C); lia).
    unfold bind in E, EF.
    destruct (free_cluster_chain vi c s7a) as [rf sf] eqn:E3.
    destruct (pfx_free_cluster_chain vi c _ _ _ E3) as (ws3 & X3 & [C3|(-> & rf0 & sf0 & ws30 & C3 & X30)]).
    + exfalso. pose proof (eq_not_reached _ n _ _ _ (ls_free_cluster_chain vi c) Hp7 E3 C3) as (_ & C).
      destruct rf; injection E as _ <-; lia.
    + injection E as <- <-. split; [eexists; reflexivity|].
      rewrite C3 in EF. exists rF, sF. split; [rewrite mdd_split; unfold bind at 1; rewrite C1; cbn [fst snd];
        unfold mkdir_rest; unfold bind at 1; unfold try; rewrite N2; unfold bind; rewrite C3; exact EF|].
      assert (EsF : sF = sf0) by (destruct rf0; injection EF as _ <-; reflexivity). subst sF.
      apply (crash_disks_right (nf s) (nf s6a) sf0 _ T1 T2).
      apply (crash_disks_right (nf s6a) (nf s7a) sf0 _ T67 (tm_free_cluster_chain _ _ _ _ _ C3)).
      exact (pfx_crash s7a sf sf0 ws3 ws30 X3 X30).
  - (* the armed call is a device call of the entry write *)
    right.
    destruct (fault_strict _ n _ _ _ (ls_write_new_directory_entry vi parent sfn A_DIRECTORY c)
                (qf_write_new_directory_entry vi parent sfn A_DIRECTORY c) Hp6 E2 Hgt)
      as (-> & Hps & pre & fl & r0 & S7 & rest0 & T & Hfl & N0 & T0 & R0).
    pose proof (tm_write_new_directory_entry _ _ _ _ _ _ _ _ E2) as T67a.
    refine (mk_mk_hard d name s r s' vi parent sfn c s6a s7a r0 S7 C1 E2 (passed_no_faults _ _ Hps) N0 _ _ E).
    + apply (prefix_crash s6a (nf s6a) s7a S7 pre (fl :: pre) rest0 eq_refl T67a).
      * exact T.
      * apply dwr_fail_cons. exact Hfl.
      * exact T0.
    + intros sp ib bb l np ES7 Hl Esp.
      change (s_trace (nf s6a)) with (s_trace s6a) in Esp.
      rewrite T0, Esp in ES7. change (DWrite ib bb :: l ++ np ++ s_trace s6a) with ((DWrite ib bb :: l) ++ np ++ s_trace s6a) in ES7.
      rewrite !app_assoc in ES7. apply app_inv_tail in ES7.
      destruct rest0 as [|x rest0]; [contradiction R0; reflexivity|]. cbn [app] in ES7. injection ES7 as -> ES7.
      assert (Ed : dwr np = dwr rest0 ++ dwr pre).
      { rewrite <- dwr_app, ES7, dwr_app, (reads_dwr l Hl). reflexivity. }
      exists (length (rev (dwr pre))).
      rewrite (step_writes_ext (nf s6a) sp np Esp), Ed, rev_app_distr. split; [rewrite app_length; lia|].
      rewrite prefix_disk_app_len. change (s_disk (nf s6a)) with (s_disk s6a).
      rewrite (traced_disk s6a s7a T67a), (step_writes_ext s6a s7a (fl :: pre) T), (dwr_fail_cons fl pre Hfl). reflexivity.
Qed.

Print Assumptions mkdir_fault_cases.
