(* PROOFS for property C07 (open modes, read-only protection, typing of directory entries)
   about the layer-B model of the volume manager: decision tables for open_file_in_dir,
   delete_file_in_dir, make_dir_in_dir, and write on a read-only handle.  For ALL states
   and inputs.  The directory lookup is treated abstractly: it is run in state s and returns
   (r, s1); what is known about s1 is proved separately (the lookup only reads). *)
From Coq Require Import NArith ZArith List Bool Lia Arith FMapPositive.
From SdFs Require Import FsTypes FsBase FsFat FsMgr FsLemmas PrBase PrHandles.
Import ListNotations.
Open Scope N_scope.

(* ================================================================== the lookup only reads *)
Definition is_read_call (c : devcall) : Prop :=
  match c with DRead _ | DReadFail _ => True | _ => False end.

(* tables, counter, clock, lock, limits, fault schedule equal (same_mgr); the medium equal;
   the device-call log grew by read calls only *)
Definition reads_only (s s' : st) : Prop :=
  same_mgr s s' /\ s_disk s' = s_disk s /\
  exists l, s_trace s' = l ++ s_trace s /\ Forall is_read_call l.

Lemma ro_refl s : reads_only s s.
Proof. split; [apply same_mgr_refl|]. split; [reflexivity|]. exists []. split; [reflexivity | constructor]. Qed.
Lemma ro_trans a b c : reads_only a b -> reads_only b c -> reads_only a c.
Proof.
  intros (M1 & D1 & l1 & T1 & F1) (M2 & D2 & l2 & T2 & F2).
  split; [eapply same_mgr_trans; eassumption|]. split; [congruence|].
  exists (l2 ++ l1). split; [rewrite T2, T1, app_assoc; reflexivity | apply Forall_app; auto].
Qed.

Definition ro {A} (m : M A) : Prop := forall s o s', m s = (o, s') -> reads_only s s'.

Lemma ro_ret {A} (a : A) : ro (ret a). Proof. intros s o s' E; inversion E; subst; apply ro_refl. Qed.
Lemma ro_fail {A} e : ro (@fail A e). Proof. intros s o s' E; inversion E; subst; apply ro_refl. Qed.
Lemma ro_panic {A} : ro (@panic A). Proof. intros s o s' E; inversion E; subst; apply ro_refl. Qed.
Lemma ro_oof {A} : ro (@out_of_fuel A). Proof. intros s o s' E; inversion E; subst; apply ro_refl. Qed.
Lemma ro_get : ro get. Proof. intros s o s' E; inversion E; subst; apply ro_refl. Qed.
Lemma ro_bind {A B} (m : M A) (k : A -> M B) : ro m -> (forall a, ro (k a)) -> ro (bind m k).
Proof.
  intros Hm Hk s o s' E. unfold bind in E.
  destruct (m s) as [[a|e| |] s1] eqn:Em; pose proof (Hm _ _ _ Em) as H1.
  - eapply ro_trans; [exact H1 | exact (Hk a _ _ _ E)].
  - inversion E; subst; exact H1.
  - inversion E; subst; exact H1.
  - inversion E; subst; exact H1.
Qed.
Lemma ro_try {A} (m : M A) : ro m -> ro (try m).
Proof.
  intros Hm s o s' E. unfold try in E.
  destruct (m s) as [[a|e| |] s1] eqn:Em; pose proof (Hm _ _ _ Em) as H1; inversion E; subst; exact H1.
Qed.
Lemma ro_modify f : (forall s, reads_only s (f s)) -> ro (modify f).
Proof. intros Hf s o s' E. inversion E; subst. apply Hf. Qed.

Ltac ro_setter := intros ?; split; [unfold same_mgr; repeat split; reflexivity|]; split; [reflexivity|];
  exists []; split; [reflexivity | constructor].

Lemma ro_get_vol vi : ro (get_vol vi).
Proof. intros s o s' E. rewrite get_vol_eq in E. destruct (nth_error _ _); inversion E; subst; apply ro_refl. Qed.
Lemma ro_dev_read i : ro (dev_read i).
Proof.
  intros s o s' E. unfold dev_read in E.
  destruct (faulty s); inversion E; subst; (split; [unfold same_mgr; repeat split; reflexivity|]);
    (split; [reflexivity|]); eexists [_]; (split; [reflexivity|]); repeat constructor.
Qed.

Create HintDb ro.
#[export] Hint Resolve ro_ret ro_fail ro_panic ro_oof ro_get ro_get_vol ro_dev_read : ro.

Ltac ro_step :=
  match goal with
  | |- ro (bind _ _) => apply ro_bind; [|intros ?]
  | |- ro (try _) => apply ro_try
  | |- ro (modify _) => apply ro_modify; ro_setter
  | |- ro (if ?b then _ else _) => destruct b
  | |- ro (match ?x with _ => _ end) => destruct x
  | |- ro (let _ := _ in _) => cbv zeta
  | |- ro _ => solve [auto 2 with ro]
  end.
Ltac ro_go := repeat ro_step.

Lemma ro_add32 a b : ro (add32 a b). Proof. unfold add32. ro_go. Qed.
Lemma ro_sub32 a b : ro (sub32 a b). Proof. unfold sub32. ro_go. Qed.
Lemma ro_mul32 a b : ro (mul32 a b). Proof. unfold mul32. ro_go. Qed.
#[export] Hint Resolve ro_add32 ro_sub32 ro_mul32 : ro.
Lemma ro_cache_read i : ro (cache_read i). Proof. unfold cache_read. ro_go. Qed.
#[export] Hint Resolve ro_cache_read : ro.
Lemma ro_fat_block v a b : ro (fat_block v a b). Proof. unfold fat_block. ro_go. Qed.
Lemma ro_cluster_to_block v c : ro (cluster_to_block v c). Proof. unfold cluster_to_block. ro_go. Qed.
#[export] Hint Resolve ro_fat_block ro_cluster_to_block : ro.
Lemma ro_next_cluster v c : ro (next_cluster v c). Proof. unfold next_cluster. ro_go. Qed.
#[export] Hint Resolve ro_next_cluster : ro.
Lemma ro_for_blocks_from {R} (body : N -> M (option R)) :
  (forall i, ro (body i)) -> forall n i, ro (for_blocks_from n i body).
Proof.
  intros Hb. induction n as [|n IH]; intros i; cbn [for_blocks_from]; [apply ro_ret|].
  apply ro_bind; [apply Hb|]. intros [x|]; [apply ro_ret | apply IH].
Qed.
Lemma ro_for_blocks {R} (body : N -> M (option R)) first size :
  (forall i, ro (body i)) -> ro (for_blocks first size body).
Proof.
  intros Hb. unfold for_blocks. apply ro_bind; [apply ro_add32|]. intros _. apply ro_for_blocks_from. exact Hb.
Qed.
#[export] Hint Resolve ro_for_blocks : ro.
(* a walk that does not grow the directory *)
Lemma ro_walk_dir {R} vi (body : N -> M (option R)) :
  (forall blk, ro (body blk)) -> forall fuel cluster, ro (walk_dir fuel vi cluster false body).
Proof.
  intros Hb. induction fuel as [|fuel IH]; intros cluster; cbn [walk_dir]; ro_go.
Qed.

(* the lookup: nothing but reads *)
Theorem find_directory_entry_reads_only vi c name : ro (find_directory_entry vi c name).
Proof. unfold find_directory_entry. ro_go. apply ro_walk_dir. intros blk. ro_go. Qed.

(* ================================================================== resolved handles *)
(* "the directory handle d and its volume handle resolve" (and the lock is free) *)
Definition resolves (s : st) (d : N) (di : nat) (dd : dirinfo) (vi : nat) (v : vol) : Prop :=
  s_lock s = false /\
  get_dir_by_id d s = (Ok di, s) /\ get_dir di s = (Ok dd, s) /\
  get_volume_by_id (d_vol dd) s = (Ok vi, s) /\ get_vol vi s = (Ok v, s).

Lemma resolves_vol_id s d di dd vi v : resolves s d di dd vi v -> v_id v = d_vol dd.
Proof.
  intros (_ & _ & _ & H3 & H4). rewrite get_volume_by_id_eq in H3. rewrite get_vol_eq in H4.
  destruct (find_idx _ _ _) as [i|] eqn:Ef; inversion H3; subst i.
  destruct (nth_error (s_vols s) vi) as [v'|] eqn:En; inversion H4; subst v'.
  apply find_idx_some in Ef. destruct Ef as (_ & _ & x & Hx & Hp).
  rewrite Nat.sub_0_r in Hx. rewrite En in Hx. injection Hx as <-. apply N.eqb_eq. exact Hp.
Qed.

Lemma bind_ret {A B} (a : A) (k : A -> M B) s : bind (ret a) k s = k a s.
Proof. reflexivity. Qed.
Lemma bind_fail {A B} e (k : A -> M B) s : bind (fail e) k s = (Err e, s).
Proof. reflexivity. Qed.

(* the test "this entry is already open on that volume", as the crate computes it *)
Definition is_open (s : st) (vol_id : N) (e : dirent) : bool :=
  existsb (fun f => (f_vol f =? vol_id) && (e_block (f_entry f) =? e_block e)
                    && (e_offset (f_entry f) =? e_offset e)) (s_files s).
Lemma file_is_open_eq vol_id e s : file_is_open vol_id e s = (Ok (is_open s vol_id e), s).
Proof. reflexivity. Qed.

Definition dot_name (sfn : list N) : bool := list_eqb sfn THIS_DIR_NAME || list_eqb sfn PARENT_DIR_NAME.

(* ================================================================== open_file_in_dir: the refusals *)
(* SPEC side: the documented decision table.  Input: the requested mode, the outcome r of
   the lookup, and whether the entry found is already open.  Output: the refusal, if any. *)
Definition open_refusal (md : mode) (r : outcome dirent) (already_open : bool) : option err :=
  match r with
  | Err NotFound => if creating md then None else Some NotFound
  | Err e => Some e
  | Ok e =>
      if already_open then Some FileAlreadyOpen
      else if mode_eqb md ReadWriteCreate then Some FileAlreadyExists
      else if is_read_only (e_attr e) && negb (mode_eqb md ReadOnly) then Some ReadOnlyErr
      else if is_directory (e_attr e) then Some OpenedDirAsFile
      else None
  | Panic | OutOfFuel => None
  end.

Definition found_open (s1 : st) (vol_id : N) (r : outcome dirent) : bool :=
  match r with Ok e => is_open s1 vol_id e | _ => false end.

(* the common prefix: lock, limit, handles, name *)
Ltac open_prefix Hres Hfull Hsfn :=
  let Hl := fresh "Hl" in let H1 := fresh "H1" in let H2 := fresh "H2" in
  let H3 := fresh "H3" in let H4 := fresh "H4" in
  pose proof Hres as (Hl & H1 & H2 & H3 & H4);
  rewrite (locked_free _ _ Hl), bind_get, Hfull;
  rewrite (bind_ok _ _ _ _ _ H1), (bind_ok _ _ _ _ _ H2); cbv zeta;
  rewrite (bind_ok _ _ _ _ _ H3), (bind_ok _ _ _ _ _ H4), Hsfn.

Theorem C07_open_dot_name : forall s d di dd vi v name sfn md,
  resolves s d di dd vi v -> is_full (s_files s) (s_maxf s) = false ->
  sfn_of_str name = Some sfn -> dot_name sfn = true ->
  open_file_in_dir d name md s = (Err OpenedDirAsFile, s).
Proof.
  intros s d di dd vi v name sfn md Hres Hfull Hsfn Hdot.
  unfold open_file_in_dir. open_prefix Hres Hfull Hsfn.
  unfold dot_name in Hdot. rewrite Hdot. reflexivity.
Qed.

Lemma mode_variant_not_create md : mode_eqb md ReadWriteCreate = false ->
  solve_mode_variant md true = match md with
    | ReadWriteCreateOrAppend => ReadWriteAppend | ReadWriteCreateOrTruncate => ReadWriteTruncate | m => m end.
Proof. destruct md; reflexivity. Qed.

(* every refusal of the table is what the call returns, and the state is the state after
   the lookup: nothing was done besides the lookup's reads *)
Theorem C07_open_refusals : forall s d di dd vi v name sfn md r s1 e,
  resolves s d di dd vi v -> is_full (s_files s) (s_maxf s) = false ->
  sfn_of_str name = Some sfn -> dot_name sfn = false ->
  find_directory_entry vi (d_cluster dd) sfn s = (r, s1) ->
  open_refusal md r (found_open s1 (d_vol dd) r) = Some e ->
  open_file_in_dir d name md s = (Err e, s1).
Proof.
  intros s d di dd vi v name sfn md r s1 e Hres Hfull Hsfn Hdot Hfind Href.
  pose proof (resolves_vol_id _ _ _ _ _ _ Hres) as Hvid.
  unfold open_file_in_dir. open_prefix Hres Hfull Hsfn.
  unfold dot_name in Hdot. rewrite Hdot.
  unfold bind at 1. unfold try. rewrite Hfind.
  destruct r as [ent|er| |]; cbn [open_refusal found_open] in Href; try discriminate.
  - (* found *)
    rewrite bind_ret, (bind_ok _ _ _ _ _ (file_is_open_eq _ _ _)), Hvid.
    destruct (is_open s1 (d_vol dd) ent) eqn:Hop; [injection Href as <-; reflexivity|].
    destruct (mode_eqb md ReadWriteCreate) eqn:Hc.
    { injection Href as <-. destruct md; try discriminate. reflexivity. }
    rewrite (mode_variant_not_create md Hc).
    assert (Hro : mode_eqb (match md with
        | ReadWriteCreateOrAppend => ReadWriteAppend | ReadWriteCreateOrTruncate => ReadWriteTruncate | m => m end)
        ReadOnly = mode_eqb md ReadOnly) by (destruct md; reflexivity).
    destruct (is_read_only (e_attr ent) && negb (mode_eqb md ReadOnly)) eqn:Hr.
    { injection Href as <-. destruct md; try discriminate; cbn [mode_eqb] in *; rewrite Hr; reflexivity. }
    destruct (is_directory (e_attr ent)) eqn:Hd; [|discriminate].
    injection Href as <-. destruct md; try discriminate; cbn [mode_eqb] in *; rewrite Hr, Hd; reflexivity.
  - (* lookup failed *)
    destruct er; try (injection Href as <-; reflexivity).
    destruct (creating md); [discriminate|]. injection Href as <-. reflexivity.
Qed.
