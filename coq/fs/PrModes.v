(* PROOFS for property C07 (open modes, read-only protection, typing of directory entries)
   about the layer-B model of the volume manager: decision tables for open_file_in_dir,
   delete_file_in_dir, make_dir_in_dir, and write on a read-only handle.  For ALL states
   and inputs.  The directory lookup is treated abstractly: it is run in state s and returns
   (r, s1); what is known about s1 is proved separately (the lookup only reads). *)
From Coq Require Import NArith ZArith List Bool Lia Arith FMapPositive.
From SdFs Require Import FsTypes FsBase FsFat FsMgr FsLemmas PrBase PrHandles.
Import ListNotations.
Open Scope N_scope.

(* ================================================================== the lookup only reads *)
Definition is_read_call (c : devcall) : Prop :=
  match c with DRead _ | DReadFail _ => True | _ => False end.

(* tables, counter, clock, lock, limits, fault schedule equal (same_mgr); the medium equal;
   the device-call log grew by read calls only *)
Definition reads_only (s s' : st) : Prop :=
  same_mgr s s' /\ s_disk s' = s_disk s /\
  exists l, s_trace s' = l ++ s_trace s /\ Forall is_read_call l.

Lemma ro_refl s : reads_only s s.
Proof. split; [apply same_mgr_refl|]. split; [reflexivity|]. exists []. split; [reflexivity | constructor]. Qed.
Lemma ro_trans a b c : reads_only a b -> reads_only b c -> reads_only a c.
Proof.
  intros (M1 & D1 & l1 & T1 & F1) (M2 & D2 & l2 & T2 & F2).
  split; [eapply same_mgr_trans; eassumption|]. split; [congruence|].
  exists (l2 ++ l1). split; [rewrite T2, T1, app_assoc; reflexivity | apply Forall_app; auto].
Qed.

Definition ro {A} (m : M A) : Prop := forall s o s', m s = (o, s') -> reads_only s s'.

Lemma ro_ret {A} (a : A) : ro (ret a). Proof. intros s o s' E; inversion E; subst; apply ro_refl. Qed.
Lemma ro_fail {A} e : ro (@fail A e). Proof. intros s o s' E; inversion E; subst; apply ro_refl. Qed.
Lemma ro_panic {A} : ro (@panic A). Proof. intros s o s' E; inversion E; subst; apply ro_refl. Qed.
Lemma ro_oof {A} : ro (@out_of_fuel A). Proof. intros s o s' E; inversion E; subst; apply ro_refl. Qed.
Lemma ro_get : ro get. Proof. intros s o s' E; inversion E; subst; apply ro_refl. Qed.
Lemma ro_bind {A B} (m : M A) (k : A -> M B) : ro m -> (forall a, ro (k a)) -> ro (bind m k).
Proof.
  intros Hm Hk s o s' E. unfold bind in E.
  destruct (m s) as [[a|e| |] s1] eqn:Em; pose proof (Hm _ _ _ Em) as H1.
  - eapply ro_trans; [exact H1 | exact (Hk a _ _ _ E)].
  - inversion E; subst; exact H1.
  - inversion E; subst; exact H1.
  - inversion E; subst; exact H1.
Qed.
Lemma ro_try {A} (m : M A) : ro m -> ro (try m).
Proof.
  intros Hm s o s' E. unfold try in E.
  destruct (m s) as [[a|e| |] s1] eqn:Em; pose proof (Hm _ _ _ Em) as H1; inversion E; subst; exact H1.
Qed.
Lemma ro_modify f : (forall s, reads_only s (f s)) -> ro (modify f).
Proof. intros Hf s o s' E. inversion E; subst. apply Hf. Qed.

Ltac ro_setter := intros ?; split; [unfold same_mgr; repeat split; reflexivity|]; split; [reflexivity|];
  exists []; split; [reflexivity | constructor].

Lemma ro_get_vol vi : ro (get_vol vi).
Proof. intros s o s' E. rewrite get_vol_eq in E. destruct (nth_error _ _); inversion E; subst; apply ro_refl. Qed.
Lemma ro_dev_read i : ro (dev_read i).
Proof.
  intros s o s' E. unfold dev_read in E.
  destruct (faulty s); inversion E; subst; (split; [unfold same_mgr; repeat split; reflexivity|]);
    (split; [reflexivity|]); eexists [_]; (split; [reflexivity|]); repeat constructor.
Qed.

Create HintDb ro.
#[export] Hint Resolve ro_ret ro_fail ro_panic ro_oof ro_get ro_get_vol ro_dev_read : ro.

Ltac ro_step :=
  match goal with
  | |- ro (bind _ _) => apply ro_bind; [|intros ?]
  | |- ro (try _) => apply ro_try
  | |- ro (modify _) => apply ro_modify; ro_setter
  | |- ro (if ?b then _ else _) => destruct b
  | |- ro (match ?x with _ => _ end) => destruct x
  | |- ro (let _ := _ in _) => cbv zeta
  | |- ro _ => solve [auto 2 with ro]
  end.
Ltac ro_go := repeat ro_step.

Lemma ro_add32 a b : ro (add32 a b). Proof. unfold add32. ro_go. Qed.
Lemma ro_sub32 a b : ro (sub32 a b). Proof. unfold sub32. ro_go. Qed.
Lemma ro_mul32 a b : ro (mul32 a b). Proof. unfold mul32. ro_go. Qed.
#[export] Hint Resolve ro_add32 ro_sub32 ro_mul32 : ro.
Lemma ro_cache_read i : ro (cache_read i). Proof. unfold cache_read. ro_go. Qed.
#[export] Hint Resolve ro_cache_read : ro.
Lemma ro_fat_block v a b : ro (fat_block v a b). Proof. unfold fat_block. ro_go. Qed.
Lemma ro_cluster_to_block v c : ro (cluster_to_block v c). Proof. unfold cluster_to_block. ro_go. Qed.
#[export] Hint Resolve ro_fat_block ro_cluster_to_block : ro.
Lemma ro_next_cluster v c : ro (next_cluster v c). Proof. unfold next_cluster. ro_go. Qed.
#[export] Hint Resolve ro_next_cluster : ro.
Lemma ro_for_blocks_from {R} (body : N -> M (option R)) :
  (forall i, ro (body i)) -> forall n i, ro (for_blocks_from n i body).
Proof.
  intros Hb. induction n as [|n IH]; intros i; cbn [for_blocks_from]; [apply ro_ret|].
  apply ro_bind; [apply Hb|]. intros [x|]; [apply ro_ret | apply IH].
Qed.
Lemma ro_for_blocks {R} (body : N -> M (option R)) first size :
  (forall i, ro (body i)) -> ro (for_blocks first size body).
Proof.
  intros Hb. unfold for_blocks. apply ro_bind; [apply ro_add32|]. intros _. apply ro_for_blocks_from. exact Hb.
Qed.
#[export] Hint Resolve ro_for_blocks : ro.
(* a walk that does not grow the directory *)
Lemma ro_walk_dir {R} vi (body : N -> M (option R)) :
  (forall blk, ro (body blk)) -> forall fuel cluster, ro (walk_dir fuel vi cluster false body).
Proof.
  intros Hb. induction fuel as [|fuel IH]; intros cluster; cbn [walk_dir]; ro_go.
Qed.

(* the lookup: nothing but reads *)
Theorem find_directory_entry_reads_only vi c name : ro (find_directory_entry vi c name).
Proof. unfold find_directory_entry. ro_go. apply ro_walk_dir. intros blk. ro_go. Qed.

(* ================================================================== resolved handles *)
(* "the directory handle d and its volume handle resolve" (and the lock is free) *)
Definition resolves (s : st) (d : N) (di : nat) (dd : dirinfo) (vi : nat) (v : vol) : Prop :=
  s_lock s = false /\
  get_dir_by_id d s = (Ok di, s) /\ get_dir di s = (Ok dd, s) /\
  get_volume_by_id (d_vol dd) s = (Ok vi, s) /\ get_vol vi s = (Ok v, s).

Lemma resolves_vol_id s d di dd vi v : resolves s d di dd vi v -> v_id v = d_vol dd.
Proof.
  intros (_ & _ & _ & H3 & H4). rewrite get_volume_by_id_eq in H3. rewrite get_vol_eq in H4.
  destruct (find_idx _ _ _) as [i|] eqn:Ef; inversion H3; subst i.
  destruct (nth_error (s_vols s) vi) as [v'|] eqn:En; inversion H4; subst v'.
  apply find_idx_some in Ef. destruct Ef as (_ & _ & x & Hx & Hp).
  rewrite Nat.sub_0_r in Hx. rewrite En in Hx. injection Hx as <-. apply N.eqb_eq. exact Hp.
Qed.

Lemma bind_ret {A B} (a : A) (k : A -> M B) s : bind (ret a) k s = k a s.
Proof. reflexivity. Qed.
Lemma bind_fail {A B} e (k : A -> M B) s : bind (fail e) k s = (Err e, s).
Proof. reflexivity. Qed.

(* the test "this entry is already open on that volume", as the crate computes it *)
Definition is_open (s : st) (vol_id : N) (e : dirent) : bool :=
  existsb (fun f => (f_vol f =? vol_id) && (e_block (f_entry f) =? e_block e)
                    && (e_offset (f_entry f) =? e_offset e)) (s_files s).
Lemma file_is_open_eq vol_id e s : file_is_open vol_id e s = (Ok (is_open s vol_id e), s).
Proof. reflexivity. Qed.

Definition dot_name (sfn : list N) : bool := list_eqb sfn THIS_DIR_NAME || list_eqb sfn PARENT_DIR_NAME.

(* ================================================================== open_file_in_dir: the refusals *)
(* SPEC side: the documented decision table.  Input: the requested mode, the outcome r of
   the lookup, and whether the entry found is already open.  Output: the refusal, if any. *)
Definition open_refusal (md : mode) (r : outcome dirent) (already_open : bool) : option err :=
  match r with
  | Err NotFound => if creating md then None else Some NotFound
  | Err e => Some e
  | Ok e =>
      if already_open then Some FileAlreadyOpen
      else if mode_eqb md ReadWriteCreate then Some FileAlreadyExists
      else if is_read_only (e_attr e) && negb (mode_eqb md ReadOnly) then Some ReadOnlyErr
      else if is_directory (e_attr e) then Some OpenedDirAsFile
      else None
  | Panic | OutOfFuel => None
  end.

Definition found_open (s1 : st) (vol_id : N) (r : outcome dirent) : bool :=
  match r with Ok e => is_open s1 vol_id e | _ => false end.

(* the common prefix: lock, limit, handles, name *)
Ltac open_prefix Hres Hfull Hsfn :=
  let Hl := fresh "Hl" in let H1 := fresh "H1" in let H2 := fresh "H2" in
  let H3 := fresh "H3" in let H4 := fresh "H4" in
  pose proof Hres as (Hl & H1 & H2 & H3 & H4);
  rewrite (locked_free _ _ Hl), bind_get, Hfull;
  rewrite (bind_ok _ _ _ _ _ H1), (bind_ok _ _ _ _ _ H2); cbv zeta;
  rewrite (bind_ok _ _ _ _ _ H3), (bind_ok _ _ _ _ _ H4), Hsfn.

Theorem C07_open_dot_name : forall s d di dd vi v name sfn md,
  resolves s d di dd vi v -> is_full (s_files s) (s_maxf s) = false ->
  sfn_of_str name = Some sfn -> dot_name sfn = true ->
  open_file_in_dir d name md s = (Err OpenedDirAsFile, s).
Proof.
  intros s d di dd vi v name sfn md Hres Hfull Hsfn Hdot.
  unfold open_file_in_dir. open_prefix Hres Hfull Hsfn.
  unfold dot_name in Hdot. rewrite Hdot. reflexivity.
Qed.

Lemma mode_variant_not_create md : mode_eqb md ReadWriteCreate = false ->
  solve_mode_variant md true = match md with
    | ReadWriteCreateOrAppend => ReadWriteAppend | ReadWriteCreateOrTruncate => ReadWriteTruncate | m => m end.
Proof. destruct md; reflexivity. Qed.

(* every refusal of the table is what the call returns, and the state is the state after
   the lookup: nothing was done besides the lookup's reads *)
Theorem C07_open_refusals : forall s d di dd vi v name sfn md r s1 e,
  resolves s d di dd vi v -> is_full (s_files s) (s_maxf s) = false ->
  sfn_of_str name = Some sfn -> dot_name sfn = false ->
  find_directory_entry vi (d_cluster dd) sfn s = (r, s1) ->
  open_refusal md r (found_open s1 (d_vol dd) r) = Some e ->
  open_file_in_dir d name md s = (Err e, s1).
Proof.
  intros s d di dd vi v name sfn md r s1 e Hres Hfull Hsfn Hdot Hfind Href.
  pose proof (resolves_vol_id _ _ _ _ _ _ Hres) as Hvid.
  unfold open_file_in_dir. open_prefix Hres Hfull Hsfn.
  unfold dot_name in Hdot. rewrite Hdot.
  unfold bind at 1. unfold try. rewrite Hfind.
  destruct r as [ent|er| |]; cbn [open_refusal found_open] in Href; try discriminate.
  - (* found *)
    rewrite bind_ret, (bind_ok _ _ _ _ _ (file_is_open_eq _ _ _)), Hvid.
    destruct (is_open s1 (d_vol dd) ent) eqn:Hop; [injection Href as <-; reflexivity|].
    destruct (mode_eqb md ReadWriteCreate) eqn:Hc.
    { injection Href as <-. destruct md; try discriminate. reflexivity. }
    rewrite (mode_variant_not_create md Hc).
    assert (Hro : mode_eqb (match md with
        | ReadWriteCreateOrAppend => ReadWriteAppend | ReadWriteCreateOrTruncate => ReadWriteTruncate | m => m end)
        ReadOnly = mode_eqb md ReadOnly) by (destruct md; reflexivity).
    destruct (is_read_only (e_attr ent) && negb (mode_eqb md ReadOnly)) eqn:Hr.
    { injection Href as <-. destruct md; try discriminate; cbn [mode_eqb] in *; rewrite Hr; reflexivity. }
    destruct (is_directory (e_attr ent)) eqn:Hd; [|discriminate].
    injection Href as <-. destruct md; try discriminate; cbn [mode_eqb] in *; rewrite Hr; reflexivity.
  - (* lookup failed *)
    destruct er; try (injection Href as <-; reflexivity).
    destruct (creating md); [discriminate|]. injection Href as <-. reflexivity.
Qed.

(* ================================================================== what a successful computation returns *)
Definition yields {A} (P : A -> Prop) (m : M A) : Prop := forall s a s', m s = (Ok a, s') -> P a.

Lemma bind_ok_inv {A B} (m : M A) (k : A -> M B) s b s' :
  bind m k s = (Ok b, s') -> exists a s1, m s = (Ok a, s1) /\ k a s1 = (Ok b, s').
Proof.
  unfold bind. destruct (m s) as [[a|e| |] s1]; intros E; try discriminate. exists a, s1. auto.
Qed.

Lemma yields_bind {A B} (Pa : A -> Prop) (P : B -> Prop) (m : M A) (k : A -> M B) :
  yields Pa m -> (forall a, Pa a -> yields P (k a)) -> yields P (bind m k).
Proof.
  intros Hm Hk s b s' E. apply bind_ok_inv in E. destruct E as (a & s1 & E1 & E2).
  exact (Hk a (Hm _ _ _ E1) _ _ _ E2).
Qed.
Lemma yields_bind0 {A B} (P : B -> Prop) (m : M A) (k : A -> M B) :
  (forall a, yields P (k a)) -> yields P (bind m k).
Proof. intros Hk. apply (yields_bind (fun _ => True)); [intros ? ? ? ?; exact I | intros a _; apply Hk]. Qed.
Lemma yields_ret {A} (P : A -> Prop) a : P a -> yields P (ret a).
Proof. intros H s b s' E. inversion E; subst. exact H. Qed.
Lemma yields_fail {A} (P : A -> Prop) e : yields P (fail e). Proof. intros s b s' E. discriminate. Qed.
Lemma yields_panic {A} (P : A -> Prop) : yields P panic. Proof. intros s b s' E. discriminate. Qed.
Lemma yields_oof {A} (P : A -> Prop) : yields P out_of_fuel. Proof. intros s b s' E. discriminate. Qed.

Definition on_some {R} (P : R -> Prop) (r : option R) : Prop := forall x, r = Some x -> P x.

Lemma yields_for_blocks_from {R} (P : R -> Prop) (body : N -> M (option R)) :
  (forall i, yields (on_some P) (body i)) -> forall n i, yields (on_some P) (for_blocks_from n i body).
Proof.
  intros Hb. induction n as [|n IH]; intros i; cbn [for_blocks_from].
  - apply yields_ret. intros x Hx. discriminate.
  - apply (yields_bind (on_some P)); [apply Hb|]. intros [x|] Hr; [apply yields_ret; exact Hr | apply IH].
Qed.

Lemma yields_walk_dir {R} (P : R -> Prop) vi grow (body : N -> M (option R)) :
  (forall blk, yields (on_some P) (body blk)) ->
  forall fuel cluster, yields (on_some P) (walk_dir fuel vi cluster grow body).
Proof.
  intros Hb. assert (Hnone : on_some P None) by (intros x Hx; discriminate).
  induction fuel as [|fuel IH]; intros cluster; cbn [walk_dir]; [apply yields_oof|].
  apply yields_bind0; intros v. apply yields_bind0; intros first.
  apply (yields_bind (on_some P)).
  { unfold for_blocks. apply yields_bind0; intros _. apply yields_for_blocks_from. exact Hb. }
  intros [x|] Hr; [apply yields_ret; exact Hr|].
  destruct (negb (v_fat32 v) && (cluster =? CL_ROOT)); [apply yields_ret; exact Hnone|].
  apply yields_bind0; intros [n|e]; [apply IH|].
  destruct e; try (apply yields_ret; exact Hnone); try apply yields_fail.
  destruct grow; [|apply yields_ret; exact Hnone].
  apply yields_bind0; intros c. apply IH.
Qed.

(* the entry write_new_directory_entry returns is the one it was asked to write: that name,
   those attributes, that first cluster, size 0 *)
Definition new_entry_ok (name : list N) (attr fc : N) (e : dirent) : Prop :=
  e_name e = name /\ e_attr e = attr /\ e_cluster e = fc /\ e_size e = 0.
Theorem write_new_directory_entry_result vi dc name attr fc :
  yields (new_entry_ok name attr fc) (write_new_directory_entry vi dc name attr fc).
Proof.
  unfold write_new_directory_entry. apply yields_bind0; intros v.
  apply (yields_bind (on_some (new_entry_ok name attr fc))).
  - apply yields_walk_dir. intros blk. apply yields_bind0; intros b.
    destruct (free_slot 16 b 0) as [i|]; [|apply yields_ret; intros x Hx; discriminate].
    apply yields_bind0; intros ctime. cbv zeta. apply yields_bind0; intros bytes.
    apply yields_bind0; intros _. apply yields_bind0; intros _. apply yields_ret.
    intros x Hx. injection Hx as <-. exact (conj eq_refl (conj eq_refl (conj eq_refl eq_refl))).
  - intros [e|] Hr; [apply yields_ret; exact (Hr e eq_refl) | apply yields_fail].
Qed.

(* ================================================================== open_file_in_dir: the successes *)
Definition start_offset (md : mode) (e : dirent) : N :=
  match md with ReadWriteAppend | ReadWriteCreateOrAppend => e_size e | _ => 0 end.

(* existing file, mode ReadOnly / ReadWriteAppend / ReadWriteCreateOrAppend: the handle is
   the counter value, the file record starts at offset 0 (at the end for the append
   variants), carries the entry as found (so its length is the entry's size), and the
   state is otherwise the state after the lookup - no device traffic at all *)
Theorem C07_open_existing_keep : forall s d di dd vi v name sfn md e s1,
  resolves s d di dd vi v -> is_full (s_files s) (s_maxf s) = false ->
  sfn_of_str name = Some sfn -> dot_name sfn = false ->
  find_directory_entry vi (d_cluster dd) sfn s = (Ok e, s1) ->
  open_refusal md (Ok e) (is_open s1 (d_vol dd) e) = None ->
  md = ReadOnly \/ md = ReadWriteAppend \/ md = ReadWriteCreateOrAppend ->
  open_file_in_dir d name md s =
    (Ok (s_next_id s1),
     set_s_files (set_s_next_id s1 ((s_next_id s1 + 1) mod U32))
       (s_files s1 ++ [mk_fileinfo (s_next_id s1) (d_vol dd) 0 (e_cluster e) (start_offset md e)
                                   (solve_mode_variant md true) e false])).
Proof.
  intros s d di dd vi v name sfn md e s1 Hres Hfull Hsfn Hdot Hfind Href Hmd.
  pose proof (resolves_vol_id _ _ _ _ _ _ Hres) as Hvid.
  unfold open_file_in_dir. open_prefix Hres Hfull Hsfn.
  unfold dot_name in Hdot. rewrite Hdot.
  unfold bind at 1. unfold try. rewrite Hfind.
  rewrite bind_ret, (bind_ok _ _ _ _ _ (file_is_open_eq _ _ _)), Hvid.
  cbn [open_refusal] in Href.
  destruct (is_open s1 (d_vol dd) e) eqn:Hop; [discriminate|].
  destruct (mode_eqb md ReadWriteCreate) eqn:Hc; [discriminate|].
  destruct (is_read_only (e_attr e) && negb (mode_eqb md ReadOnly)) eqn:Hr; [discriminate|].
  destruct (is_directory (e_attr e)) eqn:Hd; [discriminate|].
  destruct Hmd as [-> | [-> | ->]]; cbn [solve_mode_variant mode_eqb start_offset] in *;
    rewrite Hr, (bind_ok _ _ _ _ _ (file_is_open_eq _ _ _)), Hop,
            (bind_ok _ _ _ _ _ (generate_spec s1)); reflexivity.
Qed.

(* existing file, mode ReadWriteTruncate / ReadWriteCreateOrTruncate: if the call succeeds
   the new file record has offset 0 and an entry of size 0 (and the entry's first cluster) *)
Theorem C07_open_existing_truncate : forall s d di dd vi v name sfn md e s1 id s',
  resolves s d di dd vi v -> is_full (s_files s) (s_maxf s) = false ->
  sfn_of_str name = Some sfn -> dot_name sfn = false ->
  find_directory_entry vi (d_cluster dd) sfn s = (Ok e, s1) ->
  open_refusal md (Ok e) (is_open s1 (d_vol dd) e) = None ->
  md = ReadWriteTruncate \/ md = ReadWriteCreateOrTruncate ->
  open_file_in_dir d name md s = (Ok id, s') ->
  id = s_next_id s1 /\
  exists s4 now, s' = set_s_files s4 (s_files s4 ++
    [mk_fileinfo id (d_vol dd) 0 (e_cluster e) 0 ReadWriteTruncate (set_e_mtime (set_e_size e 0) now) false]).
Proof.
  intros s d di dd vi v name sfn md e s1 id s' Hres Hfull Hsfn Hdot Hfind Href Hmd.
  pose proof (resolves_vol_id _ _ _ _ _ _ Hres) as Hvid.
  unfold open_file_in_dir. open_prefix Hres Hfull Hsfn.
  unfold dot_name in Hdot. rewrite Hdot.
  unfold bind at 1. unfold try. rewrite Hfind.
  rewrite bind_ret, (bind_ok _ _ _ _ _ (file_is_open_eq _ _ _)), Hvid.
  cbn [open_refusal] in Href.
  destruct (is_open s1 (d_vol dd) e) eqn:Hop; [discriminate|].
  destruct (mode_eqb md ReadWriteCreate) eqn:Hc; [discriminate|].
  destruct (is_read_only (e_attr e) && negb (mode_eqb md ReadOnly)) eqn:Hr; [discriminate|].
  destruct (is_directory (e_attr e)) eqn:Hd; [discriminate|].
  assert (Hgoal : forall k,
    (truncate_cluster_chain vi (e_cluster e) ;;;
     now <- get_timestamp ;;
     v' <- get_vol vi ;;
     write_entry_to_disk v' (set_e_mtime (set_e_size e 0) now) ;;;
     push_file (set_f_entry (mk_fileinfo k (d_vol dd) 0 (e_cluster e) 0 ReadWriteTruncate e false)
                            (set_e_mtime (set_e_size e 0) now)) ;;; ret k) (set_s_next_id s1 ((s_next_id s1 + 1) mod U32))
      = (Ok id, s') ->
    id = k /\ exists s4 now, s' = set_s_files s4 (s_files s4 ++
      [mk_fileinfo id (d_vol dd) 0 (e_cluster e) 0 ReadWriteTruncate (set_e_mtime (set_e_size e 0) now) false])).
  { intros k E.
    apply bind_ok_inv in E. destruct E as (_ & sa & _ & E).
    apply bind_ok_inv in E. destruct E as (now & sb & _ & E).
    apply bind_ok_inv in E. destruct E as (v' & sc & _ & E).
    apply bind_ok_inv in E. destruct E as (_ & sd & _ & E).
    unfold bind, push_file, modify, ret in E. injection E as <- <-.
    split; [reflexivity|]. exists sd, now. reflexivity. }
  destruct Hmd as [-> | ->]; cbn [solve_mode_variant mode_eqb] in *;
    rewrite Hr, (bind_ok _ _ _ _ _ (file_is_open_eq _ _ _)), Hop,
            (bind_ok _ _ _ _ _ (generate_spec s1)); apply Hgoal.
Qed.

(* missing name, creating mode (ReadWriteCreate and the two create-or variants): if the call
   succeeds, a new entry was written - that name, no attributes, no cluster, size 0 - and the
   new file record is in mode ReadWriteCreate at offset 0 with that entry *)
Theorem C07_open_create : forall s d di dd vi v name sfn md s1 id s',
  resolves s d di dd vi v -> is_full (s_files s) (s_maxf s) = false ->
  sfn_of_str name = Some sfn -> dot_name sfn = false ->
  find_directory_entry vi (d_cluster dd) sfn s = (Err NotFound, s1) ->
  creating md = true ->
  open_file_in_dir d name md s = (Ok id, s') ->
  id = s_next_id s1 /\
  exists s4 entry, s' = set_s_files s4 (s_files s4 ++
      [mk_fileinfo id (d_vol dd) 0 CL_EMPTY 0 ReadWriteCreate entry false]) /\
    e_name entry = sfn /\ e_attr entry = 0 /\ e_cluster entry = CL_EMPTY /\ e_size entry = 0.
Proof.
  intros s d di dd vi v name sfn md s1 id s' Hres Hfull Hsfn Hdot Hfind Hcr.
  unfold open_file_in_dir. open_prefix Hres Hfull Hsfn.
  unfold dot_name in Hdot. rewrite Hdot.
  unfold bind at 1. unfold try. rewrite Hfind. rewrite Hcr, !bind_ret.
  assert (Hm : solve_mode_variant md false = ReadWriteCreate) by (destruct md; try discriminate; reflexivity).
  cbn [negb]. rewrite Hm. intros E.
  apply bind_ok_inv in E. destruct E as (vi2 & sa & Ea & E). rewrite get_volume_by_id_eq in Ea.
  assert (sa = s1) by (destruct (find_idx _ _ _); inversion Ea; reflexivity). subst sa.
  apply bind_ok_inv in E. destruct E as (entry & sb & Eb & E).
  pose proof (write_new_directory_entry_result _ _ _ _ _ _ _ _ Eb) as (N1 & N2 & N3 & N4).
  pose proof (keeps_frame _ (fun s0 => keeps_write_new_directory_entry s0 vi2 (d_cluster dd) sfn 0 CL_EMPTY)
                _ _ _ Eb) as (_ & _ & _ & Hn & _).
  rewrite (bind_ok _ _ _ _ _ (generate_spec sb)) in E.
  unfold bind, push_file, modify, ret in E. injection E as <- <-.
  split; [exact Hn|]. exists (set_s_next_id sb ((s_next_id sb + 1) mod U32)), entry.
  rewrite N3. split; [reflexivity|]. auto.
Qed.

(* a refused open changes nothing on the medium, nor in the tables; the device saw reads only *)
Corollary C07_open_refusal_medium : forall s d di dd vi v name sfn md r s1 e,
  resolves s d di dd vi v -> is_full (s_files s) (s_maxf s) = false ->
  sfn_of_str name = Some sfn -> dot_name sfn = false ->
  find_directory_entry vi (d_cluster dd) sfn s = (r, s1) ->
  open_refusal md r (found_open s1 (d_vol dd) r) = Some e ->
  fst (open_file_in_dir d name md s) = Err e /\ reads_only s (snd (open_file_in_dir d name md s)).
Proof.
  intros. rewrite (C07_open_refusals _ _ _ _ _ _ _ _ _ _ _ _ H H0 H1 H2 H3 H4). split; [reflexivity|].
  exact (find_directory_entry_reads_only _ _ _ _ _ _ H3).
Qed.

(* ================================================================== delete_file_in_dir *)
Definition delete_refusal (r : outcome dirent) (already_open : bool) : option err :=
  match r with
  | Err e => Some e                           (* a missing name: NotFound *)
  | Ok e => if is_directory (e_attr e) then Some DeleteDirAsFile
            else if already_open then Some FileAlreadyOpen else None
  | Panic | OutOfFuel => None
  end.

Theorem C07_delete_refusals : forall s d di dd vi v name sfn r s1 e,
  resolves s d di dd vi v -> sfn_of_str name = Some sfn ->
  find_directory_entry vi (d_cluster dd) sfn s = (r, s1) ->
  delete_refusal r (found_open s1 (d_vol dd) r) = Some e ->
  delete_file_in_dir d name s = (Err e, s1) /\ reads_only s s1.
Proof.
  intros s d di dd vi v name sfn r s1 e Hres Hsfn Hfind Href.
  split; [|exact (find_directory_entry_reads_only _ _ _ _ _ _ Hfind)].
  pose proof Hres as (Hl & H1 & H2 & H3 & H4).
  unfold delete_file_in_dir. rewrite (locked_free _ _ Hl).
  rewrite (bind_ok _ _ _ _ _ H1), (bind_ok _ _ _ _ _ H2), (bind_ok _ _ _ _ _ H3), Hsfn.
  unfold bind at 1. rewrite Hfind.
  destruct r as [ent|er| |]; cbn [delete_refusal found_open] in Href; try discriminate.
  - destruct (is_directory (e_attr ent)); [injection Href as <-; reflexivity|].
    rewrite (bind_ok _ _ _ _ _ (file_is_open_eq _ _ _)).
    destruct (is_open s1 (d_vol dd) ent); [injection Href as <-; reflexivity | discriminate].
  - injection Href as <-. reflexivity.
Qed.

(* ================================================================== make_dir_in_dir *)
Definition mkdir_refusal (r : outcome dirent) : option err :=
  match r with
  | Ok e => Some (if is_directory (e_attr e) then DirAlreadyExists else FileAlreadyExists)
  | Err NotFound => None
  | Err e => Some e
  | Panic | OutOfFuel => None
  end.

Theorem C07_mkdir_refusals : forall s d di dd vi v name sfn,
  resolves s d di dd vi v -> is_full (s_dirs s) (s_maxd s) = false -> sfn_of_str name = Some sfn ->
  (dot_name sfn = true -> make_dir_in_dir d name s = (Err DirAlreadyExists, s)) /\
  (dot_name sfn = false -> forall r s1 e,
     find_directory_entry vi (d_cluster dd) sfn s = (r, s1) -> mkdir_refusal r = Some e ->
     make_dir_in_dir d name s = (Err e, s1) /\ reads_only s s1).
Proof.
  intros s d di dd vi v name sfn Hres Hfull Hsfn.
  pose proof Hres as (Hl & H1 & H2 & H3 & H4).
  assert (Hpre : make_dir_in_dir d name s =
    (if dot_name sfn then fail DirAlreadyExists else
     r <- try (find_directory_entry vi (d_cluster dd) sfn) ;;
     match r with
     | inl e => if is_directory (e_attr e) then fail DirAlreadyExists else fail FileAlreadyExists
     | inr NotFound => make_dir vi (d_cluster dd) sfn A_DIRECTORY
     | inr e => fail e
     end) s).
  { unfold make_dir_in_dir. rewrite (locked_free _ _ Hl), bind_get, Hfull.
    rewrite (bind_ok _ _ _ _ _ H1), (bind_ok _ _ _ _ _ H2), (bind_ok _ _ _ _ _ H3), Hsfn. reflexivity. }
  rewrite Hpre. split; intros Hdot; rewrite Hdot; [reflexivity|].
  intros r s1 e Hfind Href.
  split; [|exact (find_directory_entry_reads_only _ _ _ _ _ _ Hfind)].
  unfold bind, try. rewrite Hfind.
  destruct r as [ent|er| |]; cbn [mkdir_refusal] in Href; try discriminate.
  - injection Href as <-. destruct (is_directory (e_attr ent)); reflexivity.
  - destruct er; try discriminate; injection Href as <-; reflexivity.
Qed.

(* ================================================================== write on a read-only handle *)
(* a handle opened ReadOnly rejects writes: ReadOnlyErr, and NOTHING changes (no device call,
   no table change).  (The volume is looked up before the mode is tested; it resolves.) *)
Theorem C07_write_read_only : forall s h fi f vi data,
  s_lock s = false ->
  get_file_by_id h s = (Ok fi, s) -> get_file fi s = (Ok f, s) ->
  get_volume_by_id (f_vol f) s = (Ok vi, s) -> f_mode f = ReadOnly ->
  step (Write h data) s = (Err ReadOnlyErr, s) /\
  (data <> [] -> step (IoWrite h data) s = (Err ReadOnlyErr, s)).
Proof.
  intros s h fi f vi data Hl H1 H2 H3 Hm.
  assert (Hw : mgr_write h data s = (Err ReadOnlyErr, s)).
  { unfold mgr_write. rewrite (locked_free _ _ Hl).
    rewrite (bind_ok _ _ _ _ _ H1), (bind_ok _ _ _ _ _ H2), (bind_ok _ _ _ _ _ H3), Hm. reflexivity. }
  split; [|intros Hd]; cbn [step]; apply lift_err; [exact Hw|].
  unfold io_write. destruct data; [contradiction|]. apply bind_err. exact Hw.
Qed.

(* if the file's volume is gone the write is refused as well (BadHandle), state unchanged *)
Theorem C07_write_read_only_any : forall s h fi f data,
  s_lock s = false ->
  get_file_by_id h s = (Ok fi, s) -> get_file fi s = (Ok f, s) -> f_mode f = ReadOnly ->
  exists e, (e = ReadOnlyErr \/ e = BadHandle) /\ step (Write h data) s = (Err e, s).
Proof.
  intros s h fi f data Hl H1 H2 Hm.
  destruct (get_volume_by_id (f_vol f) s) as [o1 s1] eqn:E3.
  pose proof E3 as E3'. rewrite get_volume_by_id_eq in E3'.
  destruct (find_idx _ _ _) as [vi|]; injection E3' as <- <-.
  - exists ReadOnlyErr. split; [left; reflexivity|].
    exact (proj1 (C07_write_read_only s h fi f vi data Hl H1 H2 E3 Hm)).
  - exists BadHandle. split; [right; reflexivity|]. cbn [step]. apply lift_err.
    unfold mgr_write. rewrite (locked_free _ _ Hl).
    rewrite (bind_ok _ _ _ _ _ H1), (bind_ok _ _ _ _ _ H2). apply bind_err. exact E3.
Qed.

(* the hypotheses are satisfiable: the table has rows *)
Example open_refusal_rows :
  let e := mk_dirent [] (mk_ts 0 0 0 0 0 0) (mk_ts 0 0 0 0 0 0) 1 5 100 0 0 in
  let dir := set_e_attr e 16 in
  open_refusal ReadOnly (Err NotFound) false = Some NotFound /\
  open_refusal ReadWriteCreateOrAppend (Err NotFound) false = None /\
  open_refusal ReadOnly (Ok e) true = Some FileAlreadyOpen /\
  open_refusal ReadWriteCreate (Ok e) false = Some FileAlreadyExists /\
  open_refusal ReadWriteAppend (Ok e) false = Some ReadOnlyErr /\
  open_refusal ReadOnly (Ok e) false = None /\
  open_refusal ReadOnly (Ok dir) false = Some OpenedDirAsFile /\
  delete_refusal (Ok dir) false = Some DeleteDirAsFile /\
  mkdir_refusal (Ok e) = Some FileAlreadyExists /\ mkdir_refusal (Ok dir) = Some DirAlreadyExists.
Proof. cbv zeta. repeat split; reflexivity. Qed.

(* `resolves` is satisfiable: one volume (handle 1), its root directory open (handle 2) *)
Example resolves_example :
  let v := mk_vol 1 0 0 100 [] 1 10 1 None None None 5000 false 512 5 0 0 in
  let dd := mk_dirinfo 2 1 CL_ROOT in
  let s := mk_st (PositiveMap.empty block) zero_block None [v] [dd] [] 3 0 0 [] [] false 1 2 1 in
  resolves s 2 0 dd 0 v /\ is_full (s_files s) (s_maxf s) = false /\ is_full (s_dirs s) (s_maxd s) = false /\
  sfn_of_str [65; 46; 66] = Some [65; 32; 32; 32; 32; 32; 32; 32; 66; 32; 32] /\
  dot_name [65; 32; 32; 32; 32; 32; 32; 32; 66; 32; 32] = false.
Proof. cbv zeta. unfold resolves. repeat split; reflexivity. Qed.

Print Assumptions find_directory_entry_reads_only.
Print Assumptions write_new_directory_entry_result.
Print Assumptions C07_open_dot_name.
Print Assumptions C07_open_refusals.
Print Assumptions C07_open_refusal_medium.
Print Assumptions C07_open_existing_keep.
Print Assumptions C07_open_existing_truncate.
Print Assumptions C07_open_create.
Print Assumptions C07_delete_refusals.
Print Assumptions C07_mkdir_refusals.
Print Assumptions C07_write_read_only.
Print Assumptions C07_write_read_only_any.

(* ================================================================== addendum: open_dir (serves C06 and C07) *)
(* pushing a directory record with a fresh id onto a table that has room *)
Definition push_new_dir (s1 : st) (vol_id cluster : N) : st :=
  set_s_dirs (set_s_next_id s1 ((s_next_id s1 + 1) mod U32))
             (s_dirs s1 ++ [mk_dirinfo (s_next_id s1) vol_id cluster]).

Lemma open_dir_tail s1 vol_id cluster : is_full (s_dirs s1) (s_maxd s1) = false ->
  (id <- generate ;; push_dir (mk_dirinfo id vol_id cluster) ;;; ret id) s1 =
  (Ok (s_next_id s1), push_new_dir s1 vol_id cluster).
Proof.
  intros Hf. rewrite (bind_ok _ _ _ _ _ (generate_spec s1)).
  unfold push_dir. unfold bind at 1. rewrite bind_get.
  cbn [s_dirs s_maxd set_s_next_id]. rewrite Hf. reflexivity.
Qed.

(* the decision table of open_dir, the handles resolving and the table having room:
   - a name that does not parse: FilenameError, nothing changes;
   - "." : a new handle on the SAME cluster and volume as d, no device call at all;
   - otherwise the lookup decides: its error is passed on (NotFound for a missing name);
     an entry without the directory attribute: OpenedFileAsDir; an entry with it: a new
     handle on the entry's cluster (get_entry has already mapped a stored cluster 0 of a
     directory entry to CL_ROOT, so ".." of a first-level directory designates the root)
     on the volume of d.  In every case the state is the state s1 after the lookup - which
     only read (reads_only s s1) - plus, on success, the pushed record. *)
Theorem C06_open_dir : forall s d di dd vi v name,
  resolves s d di dd vi v -> is_full (s_dirs s) (s_maxd s) = false ->
  v_id v = d_vol dd /\
  match sfn_of_str name with
  | None => open_dir d name s = (Err FilenameError, s)
  | Some sfn =>
      if list_eqb sfn THIS_DIR_NAME
      then open_dir d name s = (Ok (s_next_id s), push_new_dir s (v_id v) (d_cluster dd))
      else forall r s1, find_directory_entry vi (d_cluster dd) sfn s = (r, s1) ->
        reads_only s s1 /\
        open_dir d name s =
          match r with
          | Ok e => if is_directory (e_attr e)
                    then (Ok (s_next_id s1), push_new_dir s1 (v_id v) (e_cluster e))
                    else (Err OpenedFileAsDir, s1)
          | Err e => (Err e, s1)
          | Panic => (Panic, s1)
          | OutOfFuel => (OutOfFuel, s1)
          end
  end.
Proof.
  intros s d di dd vi v name Hres Hfull.
  split; [exact (resolves_vol_id _ _ _ _ _ _ Hres)|].
  pose proof Hres as (Hl & H1 & H2 & H3 & H4).
  assert (Hpre : open_dir d name s =
    match sfn_of_str name with
    | None => fail FilenameError
    | Some sfn =>
        if list_eqb sfn THIS_DIR_NAME then
          id <- generate ;; push_dir (mk_dirinfo id (v_id v) (d_cluster dd)) ;;; ret id
        else
          e <- find_directory_entry vi (d_cluster dd) sfn ;;
          if negb (is_directory (e_attr e)) then fail OpenedFileAsDir else
          id <- generate ;; push_dir (mk_dirinfo id (v_id v) (e_cluster e)) ;;; ret id
    end s).
  { unfold open_dir. rewrite (locked_free _ _ Hl), bind_get, Hfull.
    rewrite (bind_ok _ _ _ _ _ H1), (bind_ok _ _ _ _ _ H2), (bind_ok _ _ _ _ _ H3), (bind_ok _ _ _ _ _ H4).
    reflexivity. }
  rewrite Hpre. destruct (sfn_of_str name) as [sfn|]; [|reflexivity].
  destruct (list_eqb sfn THIS_DIR_NAME); [apply open_dir_tail; exact Hfull|].
  intros r s1 Hfind.
  pose proof (find_directory_entry_reads_only _ _ _ _ _ _ Hfind) as Hro.
  split; [exact Hro|].
  unfold bind at 1. rewrite Hfind.
  destruct r as [e|e| |]; try reflexivity.
  destruct (is_directory (e_attr e)); cbn [negb]; [|reflexivity].
  apply open_dir_tail.
  destruct Hro as ((_ & Hd & _ & _ & _ & _ & _ & Hm & _) & _). rewrite Hd, Hm. exact Hfull.
Qed.

(* the "." row does not touch the device: log, call counter, medium, cache are those of s *)
Corollary C06_open_dir_this_no_device : forall s vol_id cluster,
  s_trace (push_new_dir s vol_id cluster) = s_trace s /\ s_ncalls (push_new_dir s vol_id cluster) = s_ncalls s /\
  s_disk (push_new_dir s vol_id cluster) = s_disk s /\ s_files (push_new_dir s vol_id cluster) = s_files s /\
  s_vols (push_new_dir s vol_id cluster) = s_vols s.
Proof. intros. repeat split; reflexivity. Qed.

Print Assumptions C06_open_dir.
Print Assumptions C06_open_dir_this_no_device.
