(* PROOFS about the write side of file data access in the layer-B model (C01):
   A. the allocation premise of PrRw.write_one_chunk_extend (ext_eff) derived from
      PrAllocEffect.alloc_cluster_effect; the unconditional step of write_loop (in place, extending,
      or DiskFull);
   B. write_loop as a whole, by induction on the fuel (write_loop_spec);
   C. mgr_write, the public operation (preamble, clipping at MAX_FILE_SIZE, time stamp).
   Everything is for ALL inputs; no bounds. *)
From Coq Require Import NArith ZArith List Bool Lia Arith ZifyClasses ZifyInst Zify FMapPositive.
From SdFs Require Import FsTypes FsBase FsFat FsMgr FsLemmas PrBase PrFat PrAlloc PrDir PrAllocEffect PrRw.
Import ListNotations.
Open Scope N_scope.
Local Arguments N.mul : simpl never.
Local Arguments N.add : simpl never.
Local Arguments N.sub : simpl never.
Local Arguments N.div : simpl never.
Local Arguments N.modulo : simpl never.
Local Arguments N.land : simpl never.
Local Arguments N.lor : simpl never.
Local Arguments N.min : simpl never.
Local Arguments N.max : simpl never.
Local Ltac Zify.zify_post_hook ::= Z.to_euclidean_division_equations.

(* ================================================================== 0. small facts *)
(* the FAT type limits the cluster count: every data cluster number is below the bad-cluster
   mark, so a link to it is neither "bad" nor "end of chain" and is stored unchanged.
   (FAT16: at most 65524 clusters; FAT32: at most 268435444.) *)
Definition clusters_fit (v : vol) : Prop := v_clusters v + 2 <= fat_bad v.

Lemma clusters_fit_rebook v nf fc : clusters_fit v -> clusters_fit (vol_rebook v nf fc).
Proof. intros H. exact H. Qed.

Lemma fit_enc v c : clusters_fit v -> c < v_clusters v + 2 -> enc v c = c.
Proof.
  unfold clusters_fit, fat_bad. intros Hf Hc. apply enc_cluster; [exact Hc|].
  destruct (v_fat32 v); lia.
Qed.

Lemma fit_link v c : clusters_fit v -> c < v_clusters v + 2 ->
  (c =? fat_bad v) = false /\ (fat_eoc_min v <=? c) = false.
Proof.
  unfold clusters_fit, fat_bad, fat_eoc_min. intros Hf Hc.
  split; [apply N.eqb_neq|apply N.leb_gt]; destruct (v_fat32 v); lia.
Qed.

Lemma eof_is_end v : (enc v CL_EOF =? fat_bad v) = false /\ (fat_eoc_min v <=? enc v CL_EOF) = true.
Proof.
  rewrite enc_eof. unfold fat_bad, fat_eoc_min. destruct (v_fat32 v); split; reflexivity.
Qed.

(* the layout puts the first FAT copy below the data area *)
Lemma layout_below_data v fsz : fat_layout v fsz -> fat_below_data v.
Proof.
  intros L c Hc. pose proof (layout_sector v fsz c L Hc) as Hq.
  pose proof (fl_data1 v fsz L) as D1.
  change (fat_w v) with (fat_width v).
  remember (c * fat_width v / 512) as q. lia.
Qed.

(* every cluster of a chain has a non-zero entry *)
Lemma chain_entry_nonzero d v : forall f x l, chain_of d v x f = Some l ->
  forall y, In y l -> fat_entry d v y <> 0.
Proof.
  induction f as [|f IH]; intros x l H y Hy; [discriminate|].
  cbn [chain_of] in H.
  destruct ((2 <=? x) && (x <? v_clusters v + 2)); [|discriminate]. cbv zeta in H.
  destruct (fat_entry d v x =? fat_bad v); [discriminate|].
  destruct (fat_eoc_min v <=? fat_entry d v x) eqn:He.
  - inversion H; subst l. destruct Hy as [<-|[]]. apply N.leb_le in He.
    unfold fat_eoc_min in He. destruct (v_fat32 v); lia.
  - destruct (chain_of d v (fat_entry d v x) f) as [l0|] eqn:E; [|discriminate].
    inversion H; subst l. destruct Hy as [<-|Hy]; [|exact (IH _ _ E y Hy)].
    destruct (chain_of_head _ _ _ _ _ E) as (Q1 & _ & _). lia.
Qed.

(* a chain only depends on the entries of its own clusters *)
Lemma chain_of_frame_on d d' v : forall f x l, chain_of d v x f = Some l ->
  (forall y, In y l -> fat_entry d' v y = fat_entry d v y) -> chain_of d' v x f = Some l.
Proof.
  induction f as [|f IH]; intros x l H Hsame; [discriminate|].
  destruct (chain_of_head _ _ _ _ _ H) as (_ & _ & l' & El). subst l.
  cbn [chain_of] in *.
  destruct ((2 <=? x) && (x <? v_clusters v + 2)); [|discriminate]. cbv zeta in *.
  rewrite (Hsame x) by (left; reflexivity).
  destruct (fat_entry d v x =? fat_bad v); [discriminate|].
  destruct (fat_eoc_min v <=? fat_entry d v x); [exact H|].
  destruct (chain_of d v (fat_entry d v x) f) as [l0|] eqn:E; [|discriminate].
  injection H as El. subst l'. rewrite (IH _ _ E); [reflexivity|].
  intros y Hy. apply Hsame. right. exact Hy.
Qed.

(* the chain after its last cluster cl is linked to a fresh end-of-chain cluster c *)
Lemma chain_extend d d' v cl c :
  2 <= c -> c < v_clusters v + 2 -> clusters_fit v ->
  fat_entry d' v cl = c -> fat_entry d' v c = enc v CL_EOF ->
  forall f x l, chain_of d v x f = Some l -> nth_error l (length l - 1) = Some cl ->
  (forall y, In y l -> y <> cl -> fat_entry d' v y = fat_entry d v y) ->
  chain_of d' v x (S f) = Some (l ++ [c]).
Proof.
  intros C1 C2 Hfit Hcl Hc.
  destruct (fit_link v c Hfit C2) as (Lb & Le). destruct (eof_is_end v) as (Eb & Ee).
  assert (Hrc : (2 <=? c) && (c <? v_clusters v + 2) = true)
    by (apply andb_true_iff; split; [apply N.leb_le|apply N.ltb_lt]; assumption).
  assert (Hone : forall g, chain_of d' v c (S g) = Some [c]).
  { intros g. cbn [chain_of]. rewrite Hrc. cbv zeta. rewrite Hc, Eb, Ee. reflexivity. }
  induction f as [|f IH]; intros x l H Hlast Hsame; [discriminate|].
  pose proof (chain_of_nodup _ _ _ _ _ H) as Hnd.
  cbn [chain_of] in H.
  destruct ((2 <=? x) && (x <? v_clusters v + 2)) eqn:Hr; [|discriminate]. cbv zeta in H.
  destruct (fat_entry d v x =? fat_bad v) eqn:Hb; [discriminate|].
  destruct (fat_eoc_min v <=? fat_entry d v x) eqn:He.
  - inversion H; subst l. cbn in Hlast. inversion Hlast; subst x.
    change (chain_of d' v cl (S (S f))) with
      (if (2 <=? cl) && (cl <? v_clusters v + 2) then
         let e := fat_entry d' v cl in
         if e =? fat_bad v then None
         else if fat_eoc_min v <=? e then Some [cl]
         else match chain_of d' v e (S f) with Some l => Some (cl :: l) | None => None end
       else None).
    rewrite Hr. cbv zeta. rewrite Hcl, Lb, Le, Hone. reflexivity.
  - destruct (chain_of d v (fat_entry d v x) f) as [l0|] eqn:E; [|discriminate].
    inversion H; subst l.
    destruct (chain_of_head _ _ _ _ _ E) as (_ & _ & l1 & El0).
    assert (Hlast0 : nth_error l0 (length l0 - 1) = Some cl).
    { subst l0. cbn [length] in *. replace (S (S (length l1)) - 1)%nat with (S (length l1)) in Hlast by lia.
      cbn [nth_error] in Hlast. replace (S (length l1) - 1)%nat with (length l1) by lia. exact Hlast. }
    assert (Hin : In cl l0) by (eapply nth_error_In; exact Hlast0).
    assert (Hx : x <> cl) by (intros ->; inversion Hnd; contradiction).
    change (chain_of d' v x (S (S f))) with
      (if (2 <=? x) && (x <? v_clusters v + 2) then
         let e := fat_entry d' v x in
         if e =? fat_bad v then None
         else if fat_eoc_min v <=? e then Some [x]
         else match chain_of d' v e (S f) with Some l => Some (x :: l) | None => None end
       else None).
    rewrite Hr. cbv zeta. rewrite (Hsame x (or_introl eq_refl) Hx), Hb, He.
    rewrite (IH _ _ E Hlast0); [reflexivity|].
    intros y Hy Hne. apply Hsame; [right; exact Hy|exact Hne].
Qed.

(* the last cluster of a chain carries an end-of-chain entry *)
Lemma chain_last_entry d v f x l cl : chain_of d v x f = Some l ->
  nth_error l (length l - 1) = Some cl -> fat_entry d v cl <> 0 /\ 2 <= cl /\ cl < v_clusters v + 2.
Proof.
  intros H Hl. assert (Hin : In cl l) by (eapply nth_error_In; exact Hl).
  split; [exact (chain_entry_nonzero _ _ _ _ _ H cl Hin)|].
  pose proof (chain_of_range _ _ _ _ _ H) as R. rewrite Forall_forall in R. exact (R cl Hin).
Qed.

(* ---- writes and block sizes ---- *)
Lemma blocks_wf_apply ws : forall d, blocks_wf d ->
  Forall (fun p => length (snd p) = 512%nat) ws -> blocks_wf (apply_ws ws d).
Proof.
  induction ws as [|p ws IH]; intros d Hd Hall; [exact Hd|].
  inversion Hall; subst. unfold apply_ws. cbn [fold_left].
  apply IH; [|assumption]. apply blocks_wf_set; assumption.
Qed.

Lemma Forall_map_const {A} (P : N * block -> Prop) (l : list A) (g : A -> N * block) :
  (forall x, P (g x)) -> Forall P (map g l).
Proof. intros H. induction l as [|a l IH]; constructor; auto. Qed.

(* ---- list_set ---- *)
Lemma ls_other {A} (l : list A) : forall i j y, i <> j -> nth_error (list_set l i y) j = nth_error l j.
Proof. exact (@ls_nth_other A l). Qed.

(* ================================================================== A. the effect of an allocation on files *)
(* What a successful `alloc_cluster vi prev false` means for the files of the volume. *)
Record alloc_files (vi : nat) (v : vol) (fsz : N) (prev : option N) (s : st) (c : N) (s' : st) : Prop :=
  mk_alloc_files {
  af_range : 2 <= c /\ c < v_clusters v + 2 /\ fat_entry (s_disk s) v c = 0;
  af_vol : exists nf fc, s_vols s' = list_set (s_vols s) vi (vol_rebook v nf fc) /\
                         alloc_pre s' vi (vol_rebook v nf fc) fsz;
  af_wf : blocks_wf (s_disk s');
  (* every block that is no FAT sector is untouched *)
  af_data : forall j, (forall copy k, k < fsz -> j <> fat_copy_sector v copy k) ->
            disk_get (s_disk s') j = disk_get (s_disk s) j;
  (* entries: c is end-of-chain, prev links to c, the others are as before *)
  af_new : fat_entry (s_disk s') v c = enc v CL_EOF;
  af_prev : forall p, prev = Some p -> fat_entry (s_disk s') v p = enc v c;
  af_other : forall y, y < v_clusters v + 2 -> y <> c -> prev <> Some y ->
             fat_entry (s_disk s') v y = fat_entry (s_disk s) v y;
  (* every chain that does not contain prev is unchanged and does not contain c *)
  af_chains : forall x f l, chain_of (s_disk s) v x f = Some l -> (forall p, prev = Some p -> ~ In p l) ->
              chain_of (s_disk s') v x f = Some l /\ ~ In c l;
  af_files : s_files s' = s_files s;
  af_tables : same_tables s s'
}.

Theorem alloc_files_of_effect vi v fsz prev s c s' :
  alloc_pre s vi v fsz -> blocks_wf (s_disk s) ->
  (forall p, prev = Some p -> p < v_clusters v + 2 /\ fat_entry (s_disk s) v p <> 0) ->
  alloc_cluster vi prev false s = (Ok c, s') ->
  alloc_files vi v fsz prev s c s'.
Proof.
  intros Hpre Hwf Hprev Hrun.
  assert (Hprev' : forall p, prev = Some p -> p < v_clusters v + 2 /\ fat_get (s_disk s) v 0 p <> 0).
  { intros p Hp. rewrite <- fat_entry_get. exact (Hprev p Hp). }
  destruct (alloc_cluster_effect_inuse vi v fsz prev false s c s' Hpre Hprev' Hrun) as (Heff & Hne & Hnew).
  destruct (alloc_cluster_keeps_pre vi v fsz prev false s c s' Hpre (fun p Hp => proj1 (Hprev' p Hp)) Hrun)
    as (v' & Hv' & Hpre' & _ & _ & _).
  destruct (alloc_cluster_data_frame vi v fsz prev false s c s' Hpre (fun p Hp => proj1 (Hprev' p Hp)) Hrun)
    as (Hfr & _ & _).
  pose proof Hpre as ((Hnf & Hc & Hv & Hlen) & L & Hh).
  destruct (ae_range _ _ _ _ _ _ _ _ Heff) as (R1 & R2 & R3).
  destruct (ae_vol _ _ _ _ _ _ _ _ Heff) as (nf & Evols & _).
  destruct (ae_tables _ _ _ _ _ _ _ _ Heff) as (T1 & T2 & T3 & T4 & T5 & T6 & T7 & T8 & T9).
  assert (Hother : forall y, y < v_clusters v + 2 -> y <> c -> prev <> Some y ->
            fat_entry (s_disk s') v y = fat_entry (s_disk s) v y).
  { intros y Hy Hyc Hyp. rewrite !fat_entry_get.
    apply (ae_other _ _ _ _ _ _ _ _ Heff); [apply (layout_sector v fsz y L Hy)|exact Hyc|exact Hyp]. }
  constructor.
  - rewrite fat_entry_get. repeat split; assumption.
  - exists nf, (dec_free (v_free v)). split; [exact Evols|].
    assert (E : v' = vol_rebook v nf (dec_free (v_free v))).
    { rewrite Evols in Hv'. rewrite (ls_nth_same _ _ _ _ Hv) in Hv'. inversion Hv'. reflexivity. }
    rewrite <- E. exact Hpre'.
  - destruct (ae_trace _ _ _ _ _ _ _ _ Heff) as (new & _ & _ & Hd). rewrite Hd.
    apply blocks_wf_apply; [exact Hwf|]. unfold alloc_writes. cbn [app].
    apply Forall_app. split.
    + apply Forall_map_const. intros i. cbn [snd]. unfold alloc_nb1. apply fat_put_block_length. apply Hwf.
    + destruct prev as [p|]; [|constructor].
      apply Forall_map_const. intros i. cbn [snd]. unfold alloc_nb2. apply fat_put_block_length.
      destruct (fat_sector v 0 p =? fat_sector v 0 c); [|apply Hwf].
      unfold alloc_nb1. apply fat_put_block_length. apply Hwf.
  - intros j Hj. apply Hfr; [exact Hj|]. intros E. discriminate E.
  - rewrite fat_entry_get. exact Hnew.
  - intros p Hp. rewrite fat_entry_get. exact (ae_prev _ _ _ _ _ _ _ _ Heff p Hp).
  - exact Hother.
  - intros x f l Hl Hp.
    assert (Hcl : ~ In c l).
    { intros Hin. apply (chain_entry_nonzero _ _ _ _ _ Hl c Hin). rewrite fat_entry_get. exact R3. }
    split; [|exact Hcl].
    apply (chain_of_frame_on _ _ _ _ _ _ Hl). intros y Hy.
    pose proof (chain_of_range _ _ _ _ _ Hl) as R. rewrite Forall_forall in R.
    apply Hother; [exact (proj2 (R y Hy))|intros ->; contradiction|].
    intros E. exact (Hp y E Hy).
  - exact T2.
  - unfold same_tables. repeat split; assumption.
Qed.

(* A.1  PrRw's ext_eff, from the effect theorem of alloc_cluster *)
Theorem ext_eff_of_alloc vi v fsz first fuel0 ch cl s1 c s2 :
  alloc_pre s1 vi v fsz -> clusters_fit v -> blocks_wf (s_disk s1) ->
  chain_of (s_disk s1) v first fuel0 = Some ch -> nth_error ch (length ch - 1) = Some cl ->
  alloc_cluster vi (Some cl) false s1 = (Ok c, s2) ->
  ext_eff vi v first ch s1 c s2 /\ alloc_files vi v fsz (Some cl) s1 c s2 /\
  chain_of (s_disk s2) v first (S fuel0) = Some (ch ++ [c]).
Proof.
  intros Hpre Hfit Hwf Hch Hcl Hrun.
  destruct (chain_last_entry _ _ _ _ _ _ Hch Hcl) as (Hnz & Q1 & Q2).
  assert (Hprev : forall p, Some cl = Some p -> p < v_clusters v + 2 /\ fat_entry (s_disk s1) v p <> 0)
    by (intros p E; inversion E; subst p; split; assumption).
  pose proof (alloc_files_of_effect vi v fsz (Some cl) s1 c s2 Hpre Hwf Hprev Hrun) as AF.
  destruct (af_range _ _ _ _ _ _ _ AF) as (R1 & R2 & R3).
  assert (Hchain : chain_of (s_disk s2) v first (S fuel0) = Some (ch ++ [c])).
  { apply (chain_extend (s_disk s1) (s_disk s2) v cl c R1 R2 Hfit); try assumption.
    - rewrite (af_prev _ _ _ _ _ _ _ AF cl eq_refl). apply fit_enc; assumption.
    - exact (af_new _ _ _ _ _ _ _ AF).
    - intros y Hy Hne. pose proof (chain_of_range _ _ _ _ _ Hch) as R. rewrite Forall_forall in R.
      apply (af_other _ _ _ _ _ _ _ AF); [exact (proj2 (R y Hy))| |congruence].
      intros ->. apply (chain_entry_nonzero _ _ _ _ _ Hch c Hy). exact R3. }
  split; [|split; [exact AF|exact Hchain]].
  destruct (af_vol _ _ _ _ _ _ _ AF) as (nf & fc & Evols & ((Hnf2 & Hc2 & _ & _) & L2 & _)).
  destruct Hpre as (_ & L & _).
  constructor.
  - exists nf, fc. exact Evols.
  - exists (S fuel0). exact Hchain.
  - exact Hnf2.
  - exact Hc2.
  - exact (af_wf _ _ _ _ _ _ _ AF).
  - exact (af_files _ _ _ _ _ _ _ AF).
  - intros c0 b Hc0 Hb. apply (af_data _ _ _ _ _ _ _ AF). intros copy k Hk E.
    destruct (In_cluster_blocks _ _ _ Hb) as (q & _ & ->).
    pose proof (chain_of_range _ _ _ _ _ Hch) as R. rewrite Forall_forall in R.
    exact (fat_sector_not_data v fsz copy k c0 q L Hk (proj1 (R c0 Hc0)) (eq_sym E)).
  - exact (af_tables _ _ _ _ _ _ _ AF).
Qed.

(* ================================================================== list facts about set_bytes *)
Lemma set_bytes_nil b off : set_bytes b off [] = b.
Proof. unfold set_bytes. cbn [app length]. rewrite Nat.add_0_r. apply firstn_skipn. Qed.

Lemma set_bytes_app_l b p off l : (N.to_nat off + length l <= length b)%nat ->
  set_bytes b off l ++ p = set_bytes (b ++ p) off l.
Proof.
  intros H. unfold set_bytes. rewrite firstn_app, skipn_app.
  replace (N.to_nat off - length b)%nat with 0%nat by lia.
  replace (N.to_nat off + length l - length b)%nat with 0%nat by lia.
  cbn [firstn skipn]. rewrite app_nil_r, <- !app_assoc. reflexivity.
Qed.

Lemma set_bytes_compose b off l1 l2 : (N.to_nat off + length l1 <= length b)%nat ->
  set_bytes (set_bytes b off l1) (off + N.of_nat (length l1)) l2 = set_bytes b off (l1 ++ l2).
Proof.
  intros H. unfold set_bytes at 1 3.
  replace (N.to_nat (off + N.of_nat (length l1))) with (N.to_nat off + length l1)%nat by lia.
  assert (Hf : length (firstn (N.to_nat off) b) = N.to_nat off) by (rewrite firstn_length; lia).
  unfold set_bytes.
  replace (firstn (N.to_nat off + length l1)
             (firstn (N.to_nat off) b ++ l1 ++ skipn (N.to_nat off + length l1) b))
    with (firstn (N.to_nat off) b ++ l1).
  2:{ rewrite app_assoc. rewrite firstn_app.
      rewrite app_length, Hf.
      rewrite (firstn_all2 (n := (N.to_nat off + length l1)%nat) (firstn (N.to_nat off) b ++ l1))
        by (rewrite app_length, Hf; lia).
      replace (N.to_nat off + length l1 - (N.to_nat off + length l1))%nat with 0%nat by lia.
      cbn [firstn]. rewrite app_nil_r. reflexivity. }
  replace (skipn (N.to_nat off + length l1 + length l2)
             (firstn (N.to_nat off) b ++ l1 ++ skipn (N.to_nat off + length l1) b))
    with (skipn (N.to_nat off + length (l1 ++ l2)) b).
  2:{ rewrite app_assoc. rewrite skipn_app. rewrite (app_length (firstn (N.to_nat off) b) l1), Hf.
      rewrite (skipn_all2 (n := (N.to_nat off + length l1 + length l2)%nat) (firstn (N.to_nat off) b ++ l1))
        by (rewrite app_length, Hf; lia). cbn [app].
      rewrite skipn_add. rewrite app_length. f_equal. lia. }
  rewrite <- !app_assoc. reflexivity.
Qed.

Lemma firstn_set_bytes_spec (b : list N) off (l : list N) (sz : nat) :
  (N.to_nat off <= sz)%nat -> (sz <= length b)%nat ->
  (N.to_nat off + length l <= length b)%nat ->
  firstn (Nat.max sz (N.to_nat off + length l)) (set_bytes b off l)
  = firstn (N.to_nat off) (firstn sz b) ++ l ++ skipn (N.to_nat off + length l) (firstn sz b).
Proof.
  intros H1 H2 H3. unfold set_bytes.
  rewrite firstn_firstn. replace (Nat.min (N.to_nat off) sz) with (N.to_nat off) by lia.
  assert (Hf : length (firstn (N.to_nat off) b) = N.to_nat off) by (rewrite firstn_length; lia).
  rewrite firstn_app, Hf. rewrite firstn_all2 by lia. f_equal.
  rewrite firstn_app. rewrite firstn_all2 by lia. f_equal.
  rewrite skipn_firstn_comm. f_equal. lia.
Qed.

(* ================================================================== the loop invariant *)
Lemma vol_rebook_self v : v = vol_rebook v (v_next_free v) (v_free v).
Proof. destruct v; reflexivity. Qed.

Lemma alloc_pre_ro vi v fsz s s1 : alloc_pre s vi v fsz -> ro_step s s1 -> alloc_pre s1 vi v fsz.
Proof.
  intros ((Hnf & Hc & Hv & Hlen) & L & Hh) (Hd & Hc1 & Hnf1 & Hm).
  split; [|split; assumption].
  split; [exact Hnf1|]. split; [exact Hc1|]. split; [exact (same_mgr_vol s s1 vi v Hm Hv)|].
  rewrite Hd. exact Hlen.
Qed.

Lemma entry_eta e : set_e_size e (e_size e) = e.
Proof. destruct e; reflexivity. Qed.

Lemma in_place_room n spc off (data : list N) : off < n * (spc * 512) ->
  off + wr_to_copy off data <= n * (spc * 512).
Proof.
  unfold wr_to_copy. rewrite N.mul_assoc. remember (n * spc) as X. clear HeqX. intros H. lia.
Qed.

(* SPEC side: a write of `data` at offset off (off <= length old) into the byte array old *)
Definition spec_write (old : list N) (off : N) (data : list N) : list N :=
  firstn (N.to_nat off) old ++ data ++ skipn (N.to_nat off + length data) old.

Lemma spec_write_length old off data : (N.to_nat off <= length old)%nat ->
  length (spec_write old off data) = Nat.max (length old) (N.to_nat off + length data).
Proof.
  intros H. unfold spec_write. rewrite !app_length, firstn_length, skipn_length. lia.
Qed.

(* the fuel of write_loop: every iteration but the last fills its block *)
Lemma fuel_step off n fu tc : tc = N.min (512 - off mod 512) n -> 0 < n ->
  n + off mod 512 + 512 < 512 * N.of_nat (S fu) ->
  (1 <= fu)%nat /\ (0 < n - tc -> (n - tc) + (off + tc) mod 512 + 512 < 512 * N.of_nat fu).
Proof. intros -> Hn H. split; [lia|]. intros Hr. lia. Qed.

Section Loop.
  Variable fsz : N.       (* sectors per FAT *)
  Variable vi fi : nat.   (* index of the volume / of the open-file record *)
  Variable first : N.     (* first cluster of the file *)

  (* what holds of the state between two iterations of write_loop: the volume record v and the
     device satisfy the preconditions of alloc_cluster, the clusters of the file are ch, the
     record f of the file has a valid cursor, offset <= size <= room in the clusters *)
  Record wl_inv (v : vol) (ch : list N) (f : fileinfo) (s : st) : Prop := mk_wl_inv {
    wi_pre : alloc_pre s vi v fsz;
    wi_fit : clusters_fit v;
    wi_spc : 0 < v_spc v;
    wi_wf : blocks_wf (s_disk s);
    wi_chain : exists fuel, chain_of (s_disk s) v first fuel = Some ch;
    wi_file : nth_error (s_files s) fi = Some f;
    wi_first : e_cluster (f_entry f) = first;
    wi_cur : cursor_ok v ch (f_cur_off f, f_cur_cluster f);
    wi_off : f_offset f <= e_size (f_entry f);
    wi_size : e_size (f_entry f) <= N.of_nat (length ch) * bytes_per_cluster v
  }.

  (* the frame: every block that is neither a FAT sector nor a block of the file's (new)
     clusters is unchanged; every chain that shares no cluster with the file is still a chain,
     with the same clusters, and shares no cluster with the file's new chain *)
  Definition wframe (v : vol) (ch ch' : list N) (D D' : disk) : Prop :=
    (forall j, (forall copy k, k < fsz -> j <> fat_copy_sector v copy k) ->
               ~ In j (flat_map (cluster_blocks v) ch') -> disk_get D' j = disk_get D j) /\
    (forall x fu l, chain_of D v x fu = Some l -> (forall y, In y l -> ~ In y ch) ->
               chain_of D' v x fu = Some l /\ (forall y, In y l -> ~ In y ch')).

  (* from state s (volume record v, chain ch, file record f) the bytes `stored` have been put
     at the offset of f, reaching state s' (v', ch', f') *)
  Record wl_post (v : vol) (ch : list N) (f : fileinfo) (s : st) (stored : list N)
                 (v' : vol) (ch' : list N) (f' : fileinfo) (s' : st) : Prop := mk_wl_post {
    wp_inv : wl_inv v' ch' f' s';
    wp_vol : exists nf fc, v' = vol_rebook v nf fc;
    wp_ext : exists ext, ch' = ch ++ ext;
    (* exactly the clusters needed: a cluster is added only if a byte was stored in it *)
    wp_min : length ch' = length ch \/
             N.of_nat (length ch' - 1) * bytes_per_cluster v < f_offset f + N.of_nat (length stored);
    (* the bytes of the clusters: the old ones, followed by the previous contents `pad` of the
       added clusters, with `stored` put at the offset *)
    wp_bytes : exists pad,
       length pad = ((length ch' - length ch) * (N.to_nat (v_spc v) * 512))%nat /\
       file_bytes (s_disk s') v ch' = set_bytes (file_bytes (s_disk s) v ch ++ pad) (f_offset f) stored;
    wp_off : f_offset f' = f_offset f + N.of_nat (length stored);
    wp_size : e_size (f_entry f') = N.max (e_size (f_entry f)) (f_offset f + N.of_nat (length stored));
    wp_entry : f_entry f' = set_e_size (f_entry f) (e_size (f_entry f'));
    wp_id : f_id f' = f_id f /\ f_vol f' = f_vol f /\ f_mode f' = f_mode f /\ f_dirty f' = f_dirty f;
    wp_files : s_files s' = list_set (s_files s) fi f';
    wp_vols : s_vols s' = list_set (s_vols s) vi v';
    wp_frame : wframe v ch ch' (s_disk s) (s_disk s');
    wp_tables : same_tables s s'
  }.

  Lemma wr_file_fields f cur tc :
    f_offset (wr_file f cur tc) = f_offset f + tc /\
    e_size (f_entry (wr_file f cur tc)) = N.max (e_size (f_entry f)) (f_offset f + tc) /\
    f_entry (wr_file f cur tc) = set_e_size (f_entry f) (e_size (f_entry (wr_file f cur tc))) /\
    e_cluster (f_entry (wr_file f cur tc)) = e_cluster (f_entry f) /\
    f_cur_off (wr_file f cur tc) = fst cur /\ f_cur_cluster (wr_file f cur tc) = snd cur /\
    f_id (wr_file f cur tc) = f_id f /\ f_vol (wr_file f cur tc) = f_vol f /\
    f_mode (wr_file f cur tc) = f_mode f /\ f_dirty (wr_file f cur tc) = f_dirty f.
  Proof.
    unfold wr_file. cbv zeta.
    cbn [f_offset f_entry f_cur_off f_cur_cluster f_id f_vol f_mode f_dirty
         set_f_offset set_f_entry set_f_cur_cluster set_f_cur_off].
    split; [reflexivity|].
    destruct (e_size (f_entry f) <? f_offset f + tc) eqn:E.
    - apply N.ltb_lt in E. cbn [e_size set_e_size e_cluster]. repeat split; try reflexivity. lia.
    - apply N.ltb_ge in E. rewrite entry_eta. repeat split; try reflexivity. lia.
  Qed.

  Lemma wr_to_copy_le off data : wr_to_copy off data <= N.of_nat (length data).
  Proof. unfold wr_to_copy. lia. Qed.

  Lemma stored_length (data : list N) tc : tc <= N.of_nat (length data) ->
    N.of_nat (length (firstn (N.to_nat tc) data)) = tc.
  Proof. intros H. rewrite firstn_length. lia. Qed.

  (* ---------------------------------------------------------------- one iteration, in place *)
  Lemma wl_step_in_place fu v ch f data s :
    wl_inv v ch f s -> data <> [] -> f_offset f < U32 ->
    f_offset f < N.of_nat (length ch) * bytes_per_cluster v ->
    let tc := wr_to_copy (f_offset f) data in
    exists f' s',
      write_loop (S fu) fi vi data s = write_loop fu fi vi (skipn (N.to_nat tc) data) s' /\
      wl_post v ch f s (firstn (N.to_nat tc) data) v ch f' s'.
  Proof.
    intros [Hpre Hfit Hspc Hwf (fuel0 & Hch) Hfi Hfirst Hcur Hoff Hsize] Hdata H32 Hin tc.
    pose proof Hpre as ((Hnf & Hc & Hvi & Hlen) & L & Hh).
    pose proof (fl_vol v fsz L) as Hv.
    set (B := bytes_per_cluster v) in *.
    assert (HB : B = v_spc v * 512) by reflexivity.
    destruct (write_one_chunk_in_place v (s_disk s) first fuel0 ch Hv Hspc Hch fu fi vi f data s
                Hvi Hfi eq_refl Hnf Hc Hwf Hfirst (or_introl Hcur) Hin H32 Hdata)
      as (cj & s' & Hn & Hrun & Hd' & Hfiles' & Hc' & Hnf' & Hsbf).
    fold B in Hn, Hd', Hfiles'. fold tc in Hrun, Hd', Hfiles'.
    set (off := f_offset f) in *.
    set (blk := cluster_first_block v cj + (off mod B) / 512) in *.
    set (chunk := firstn (N.to_nat tc) data) in *.
    set (f' := wr_file f (off / B * B, cj) tc) in *.
    destruct (wr_file_fields f (off / B * B, cj) tc) as (F1 & F2 & F3 & F4 & F5 & F6 & F7 & F8 & F9 & F10).
    fold f' off in F1, F2, F3, F4, F5, F6, F7, F8, F9, F10.
    assert (Htc : tc <= N.of_nat (length data)) by apply wr_to_copy_le.
    assert (Htc512 : off mod 512 + tc <= 512) by (unfold tc, wr_to_copy; lia).
    assert (Hlen_chunk : N.of_nat (length chunk) = tc) by (apply stored_length; exact Htc).
    destruct (chain_of_links _ _ _ _ _ Hch _ cj Hn) as (R1 & R2 & _).
    assert (Hq : (off mod B) / 512 < v_spc v) by (apply div512_lt; rewrite HB; apply N.mod_lt; lia).
    assert (Hblk_in : In blk (flat_map (cluster_blocks v) ch)).
    { apply in_flat_map. exists cj. split; [eapply nth_error_In; exact Hn|].
      apply In_cluster_blocks_intro. exact Hq. }
    assert (Hnb : length (set_bytes (disk_get (s_disk s) blk) (off mod 512) chunk) = 512%nat).
    { rewrite set_bytes_length; [apply Hwf|]. rewrite Hwf. lia. }
    assert (Hchains : forall x fu0, chain_of (s_disk s') v x fu0 = chain_of (s_disk s) v x fu0).
    { intros x fu0. rewrite Hd'. apply chain_of_data_write; [exact (layout_below_data v fsz L)|exact R1]. }
    exists f', s'. split; [exact Hrun|]. constructor.
    - (* the invariant *)
      constructor.
      + split; [|split; assumption]. split; [exact Hnf'|]. split; [exact Hc'|].
        split; [rewrite (proj1 Hsbf); exact Hvi|].
        intros k Hk. rewrite Hd'. rewrite disk_get_set_other; [apply Hlen; exact Hk|].
        intros E. exact (fat_sector_not_data v fsz 0 k cj _ L Hk R1 (eq_sym E)).
      + exact Hfit.
      + exact Hspc.
      + rewrite Hd'. apply blocks_wf_set; assumption.
      + exists fuel0. rewrite Hchains. exact Hch.
      + rewrite Hfiles'. eapply nth_error_list_set_same. exact Hfi.
      + rewrite F4. exact Hfirst.
      + rewrite F5, F6. cbn [fst snd]. exact (proj1 (find_data_cursor v ch Hspc off cj Hn)).
      + rewrite F1, F2. lia.
      + rewrite F2. fold B.
        pose proof (in_place_room (N.of_nat (length ch)) (v_spc v) off data Hin) as Hroom.
        fold tc in Hroom. change (v_spc v * 512) with B in Hroom.
        clear - Hroom Hsize. lia.
    - exists (v_next_free v), (v_free v). apply vol_rebook_self.
    - exists []. rewrite app_nil_r. reflexivity.
    - left. reflexivity.
    - exists []. split; [rewrite Nat.sub_diag; reflexivity|].
      rewrite app_nil_r, Hd'. unfold blk, B.
      apply (write_chunk_file_bytes v (s_disk s) first fuel0 ch Hspc Hch off cj chunk Hwf Hn). lia.
    - rewrite F1, Hlen_chunk. reflexivity.
    - rewrite F2, Hlen_chunk. reflexivity.
    - exact F3.
    - repeat split; assumption.
    - exact Hfiles'.
    - rewrite (proj1 Hsbf). symmetry. apply list_set_same. exact Hvi.
    - split.
      + intros j _ Hj. rewrite Hd'. apply disk_get_set_other. intros E. subst j. contradiction.
      + intros x fu0 l Hl Hdis. rewrite Hchains. split; [exact Hl|exact Hdis].
    - apply same_tables_of_sbf. exact Hsbf.
  Qed.

  (* ---------------------------------------------------------------- one iteration, at the end of the chain *)
  Lemma wr_to_copy_aligned off (data : list N) : off mod 512 = 0 ->
    wr_to_copy off data = N.min 512 (N.of_nat (length data)).
  Proof. intros E. unfold wr_to_copy. rewrite E. reflexivity. Qed.

  Lemma chain_last d v x f ch : chain_of d v x f = Some ch ->
    exists cl, nth_error ch (length ch - 1) = Some cl /\ (0 < length ch)%nat.
  Proof.
    intros H. destruct (chain_of_head _ _ _ _ _ H) as (_ & _ & l' & ->).
    destruct (nth_error (x :: l') (length (x :: l') - 1)) as [cl|] eqn:E.
    - exists cl. split; [reflexivity|cbn; lia].
    - apply nth_error_None in E. cbn [length] in E. lia.
  Qed.

  (* the offset is exactly at the end of the last cluster: a cluster is allocated and linked,
     or - when no entry of the FAT is free - the loop stops with DiskFull, nothing written *)
  Lemma wl_step_at_end fu v ch f data s :
    wl_inv v ch f s -> data <> [] -> f_offset f < U32 ->
    f_offset f = N.of_nat (length ch) * bytes_per_cluster v ->
    let tc := wr_to_copy (f_offset f) data in
    (exists v' c f' s',
       write_loop (S fu) fi vi data s = write_loop fu fi vi (skipn (N.to_nat tc) data) s' /\
       wl_post v ch f s (firstn (N.to_nat tc) data) v' (ch ++ [c]) f' s')
    \/ (exists s',
       write_loop (S fu) fi vi data s = (Err DiskFull, s') /\
       (forall j, 2 <= j -> j < v_clusters v + 2 -> fat_entry (s_disk s) v j <> 0) /\
       s_disk s' = s_disk s /\ same_mgr s s' /\ alloc_pre s' vi v fsz).
  Proof.
    intros [Hpre Hfit Hspc Hwf (fuel0 & Hch) Hfi Hfirst Hcur Hoff Hsize] Hdata H32 Hend tc.
    pose proof Hpre as ((Hnf & Hc & Hvi & Hlen) & L & Hh).
    pose proof (fl_vol v fsz L) as Hv.
    set (B := bytes_per_cluster v) in *.
    assert (HB : B = v_spc v * 512) by reflexivity.
    destruct (chain_last _ _ _ _ _ Hch) as (cl & Hcl & Hlen0).
    destruct (chain_last_entry _ _ _ _ _ _ Hch Hcl) as (Hclnz & Q1 & Q2).
    destruct (find_data_on_disk_eof v (s_disk s) first fuel0 ch Hv Hspc Hch vi (f_cur_off f, f_cur_cluster f)
                (f_offset f) s Hvi eq_refl Hnf Hc (or_introl Hcur) Hend H32)
      as (cl' & s1 & Hn1 & Hrun1 & Hro1).
    rewrite Hcl in Hn1. inversion Hn1; subst cl'. clear Hn1.
    pose proof (alloc_pre_ro vi v fsz s s1 Hpre Hro1) as Hpre1.
    assert (Hprev : forall p, Some cl = Some p -> p < v_clusters v + 2)
      by (intros p E; inversion E; subst p; exact Q2).
    destruct (alloc_cluster_total vi v fsz (Some cl) false s1 Hpre1 Hprev) as (o & s2 & Ha & Hres).
    destruct Hres as [(-> & Hnone & Hd2 & Hm2 & _ & Hst2)|(c0 & -> & Heff0)].
    { (* no free entry: DiskFull *)
      right. exists s2. split.
      { rewrite (write_loop_unfold fu fi vi data s Hdata).
        rewrite (bind_ok _ _ _ _ _ (get_file_some fi f s Hfi)). cbv zeta. rewrite Hfirst.
        rewrite (bind_ok _ _ _ _ _ Hrun1). cbv beta iota. cbn [snd].
        rewrite bind_bind. rewrite (bind_ok _ _ _ _ _ (PrAlloc.try_err _ _ _ _ Ha)). reflexivity. }
      split.
      { intros j J1 J2. rewrite fat_entry_get, <- (proj1 Hro1). exact (Hnone j J1 J2). }
      split; [rewrite Hd2; exact (proj1 Hro1)|].
      split; [exact (same_mgr_trans _ _ _ (proj2 (proj2 (proj2 Hro1))) Hm2)|].
      split; [exact Hst2|split; assumption]. }
    (* a free entry exists: every run of the allocation succeeds *)
      left.
      destruct (ae_range _ _ _ _ _ _ _ _ Heff0) as (W1 & W2 & W3). rewrite (proj1 Hro1) in W3.
      assert (Halloc : forall s1', ro_step s s1' ->
                exists c s2', alloc_cluster vi (Some cl) false s1' = (Ok c, s2') /\
                              ext_eff vi v first ch s1' c s2').
      { intros s1' Hro'. pose proof (alloc_pre_ro vi v fsz s s1' Hpre Hro') as Hpre'.
        destruct (alloc_cluster_succeeds vi v fsz (Some cl) false s1' c0 Hpre' Hprev W1 W2
                    ltac:(rewrite (proj1 Hro'); exact W3)) as (c & s2' & Ha').
        exists c, s2'. split; [exact Ha'|].
        refine (proj1 (ext_eff_of_alloc vi v fsz first fuel0 ch cl s1' c s2' Hpre' Hfit _ _ Hcl Ha'));
          rewrite (proj1 Hro'); assumption. }
      clear s1 Hrun1 Hro1 Hpre1 s2 Ha Heff0 W1 W2 W3.
      destruct (write_one_chunk_extend v (s_disk s) first fuel0 ch fu fi vi f data s cl Hv Hspc Hch Hvi Hfi
                  eq_refl Hnf Hc Hfirst (or_introl Hcur) Hend H32 Hdata Hcl Halloc)
        as (s1 & c & s2 & s' & Hro1 & Ha & _ & Hrun & Hd' & Hfb' & Hfb2 & Hfiles' & Hcur' & Hvols' & Hwf'
            & Hc' & Hnf' & Htab').
      cbv zeta in Hrun, Hd', Hfb', Hfiles'.
      pose proof (alloc_pre_ro vi v fsz s s1 Hpre Hro1) as Hpre1.
      destruct (ext_eff_of_alloc vi v fsz first fuel0 ch cl s1 c s2 Hpre1 Hfit
                  ltac:(rewrite (proj1 Hro1); exact Hwf) ltac:(rewrite (proj1 Hro1); exact Hch) Hcl Ha)
        as (_ & AF & Hchain2).
      destruct (af_range _ _ _ _ _ _ _ AF) as (R1 & R2 & R3).
      destruct (af_vol _ _ _ _ _ _ _ AF) as (nf & fc & Evols & Hpre2).
      set (v' := vol_rebook v nf fc) in *.
      assert (E3 : f_offset f mod 512 = 0).
      { rewrite Hend, HB. apply mul_bpc_mod512. }
      assert (Etc : N.min 512 (N.of_nat (length data)) = tc)
        by (symmetry; apply wr_to_copy_aligned; exact E3).
      rewrite Etc in Hrun, Hd', Hfb', Hfiles'.
      set (off := f_offset f) in *.
      set (chunk := firstn (N.to_nat tc) data) in *.
      set (f' := wr_file f (off, c) tc) in *.
      destruct (wr_file_fields f (off, c) tc) as (F1 & F2 & F3 & F4 & F5 & F6 & F7 & F8 & F9 & F10).
      fold f' off in F1, F2, F3, F4, F5, F6, F7, F8, F9, F10.
      assert (Htc : tc <= N.of_nat (length data)) by apply wr_to_copy_le.
      assert (Htc512 : tc <= 512) by (clear - Etc; lia).
      assert (Hlen_chunk : N.of_nat (length chunk) = tc) by (apply stored_length; exact Htc).
      pose proof Hpre2 as ((_ & _ & _ & Hlen2) & L2 & Hh2).
      assert (Hblk0 : cluster_first_block v c = cluster_first_block v c + 0) by (rewrite N.add_0_r; reflexivity).
      assert (Hblk_in : In (cluster_first_block v c) (cluster_blocks v c)).
      { rewrite Hblk0 at 1. apply In_cluster_blocks_intro. exact Hspc. }
      assert (Hchains : forall x fu0, chain_of (s_disk s') v x fu0 = chain_of (s_disk s2) v x fu0).
      { intros x fu0. rewrite Hd', Hblk0. apply chain_of_data_write; [exact (layout_below_data v fsz L)|exact R1]. }
      exists v', c, f', s'. split; [exact Hrun|]. constructor.
      - (* the invariant *)
        constructor.
        + split; [|split; assumption]. split; [exact Hnf'|]. split; [exact Hc'|].
          split; [rewrite Hvols', Evols; eapply nth_error_list_set_same; exact (proj1 (proj2 (proj2 (proj1 Hpre1))))|].
          intros k Hk. rewrite Hd'. rewrite disk_get_set_other; [apply Hlen2; exact Hk|].
          intros E. rewrite Hblk0 in E.
          exact (fat_sector_not_data v fsz 0 k c 0 L Hk R1 (eq_sym E)).
        + exact Hfit.
        + exact Hspc.
        + exact Hwf'.
        + exists (S fuel0). unfold v'. rewrite chain_of_rebook, Hchains. exact Hchain2.
        + rewrite Hfiles'. eapply nth_error_list_set_same. exact Hfi.
        + rewrite F4. exact Hfirst.
        + rewrite F5, F6. exact Hcur'.
        + rewrite F1, F2. clear. lia.
        + rewrite F2. change (bytes_per_cluster v') with B. rewrite app_length. cbn [length].
          replace (length ch + 1)%nat with (S (length ch)) by lia. rewrite of_nat_succ_mul.
          assert (512 <= B) by (rewrite HB; clear - Hspc; lia).
          clear - H Hsize Hend Htc512. fold off in Hend. lia.
      - exists nf, fc. reflexivity.
      - exists [c]. reflexivity.
      - right. rewrite app_length. cbn [length]. replace (length ch + 1 - 1)%nat with (length ch) by lia.
        fold B. rewrite Hlen_chunk. fold off in Hend.
        assert (0 < tc).
        { unfold tc, wr_to_copy. destruct data as [|x t]; [congruence|]. cbn [length]. clear. lia. }
        clear - H Hend. lia.
      - exists (cluster_bytes (s_disk s2) v c). split.
        + rewrite (cluster_bytes_length _ _ _ (af_wf _ _ _ _ _ _ _ AF)). rewrite app_length. cbn [length].
          replace (length ch + 1 - length ch)%nat with 1%nat by lia. apply eq_sym, Nat.mul_1_l.
        + rewrite Hfb', file_bytes_snoc, Hfb2. reflexivity.
      - rewrite F1, Hlen_chunk. reflexivity.
      - rewrite F2, Hlen_chunk. reflexivity.
      - exact F3.
      - repeat split; assumption.
      - exact Hfiles'.
      - rewrite Hvols', Evols. rewrite (proj1 (proj2 (proj2 (proj2 Hro1)))). reflexivity.
      - split.
        + intros j Hfat Hj. rewrite Hd'. rewrite disk_get_set_other.
          * rewrite (af_data _ _ _ _ _ _ _ AF j Hfat). rewrite (proj1 Hro1). reflexivity.
          * intros E. subst j. apply Hj. apply in_flat_map. exists c. split; [|exact Hblk_in].
            apply in_or_app. right. left. reflexivity.
        + intros x fu0 l Hl Hdis.
          destruct (af_chains _ _ _ _ _ _ _ AF x fu0 l ltac:(rewrite (proj1 Hro1); exact Hl)) as (Hl2 & Hcl2).
          { intros p E. inversion E; subst p. intros Hin. apply (Hdis cl Hin). eapply nth_error_In. exact Hcl. }
          split; [rewrite Hchains; exact Hl2|].
          intros y Hy Hin. apply in_app_or in Hin. destruct Hin as [Hin|[<-|[]]].
          * exact (Hdis y Hy Hin).
          * exact (Hcl2 Hy).
      - exact Htab'.
  Qed.

  (* ---------------------------------------------------------------- composing steps *)
  Lemma file_bytes_rebook d v nf fc ch : file_bytes d (vol_rebook v nf fc) ch = file_bytes d v ch.
  Proof. reflexivity. Qed.

  Lemma wframe_trans v nf fc ch ch1 ch2 D D1 D2 :
    (exists e, ch2 = ch1 ++ e) ->
    wframe v ch ch1 D D1 -> wframe (vol_rebook v nf fc) ch1 ch2 D1 D2 -> wframe v ch ch2 D D2.
  Proof.
    intros (e & ->) (A1 & A2) (B1 & B2). split.
    - intros j Hfat Hj. rewrite (B1 j Hfat Hj). apply (A1 j Hfat).
      intros Hin. apply Hj. rewrite flat_map_app. apply in_or_app. left. exact Hin.
    - intros x fu l Hl Hdis. destruct (A2 x fu l Hl Hdis) as (Hl1 & Hdis1).
      destruct (B2 x fu l ltac:(rewrite chain_of_rebook; exact Hl1) Hdis1) as (Hl2 & Hdis2).
      rewrite chain_of_rebook in Hl2. split; assumption.
  Qed.

  Lemma wl_post_trans v ch f s st1 v1 ch1 f1 s1 st2 v2 ch2 f2 s2 :
    wl_inv v ch f s ->
    wl_post v ch f s st1 v1 ch1 f1 s1 -> wl_post v1 ch1 f1 s1 st2 v2 ch2 f2 s2 ->
    wl_post v ch f s (st1 ++ st2) v2 ch2 f2 s2.
  Proof.
    intros I0 [I1 (nf1 & fc1 & Ev1) (e1 & Ee1) M1 (pad1 & Lp1 & FB1) O1 Z1 En1 (A1 & A2 & A3 & A4) Fl1 Vl1 Fr1 T1]
           [I2 (nf2 & fc2 & Ev2) (e2 & Ee2) M2 (pad2 & Lp2 & FB2) O2 Z2 En2 (B1 & B2 & B3 & B4) Fl2 Vl2 Fr2 T2].
    subst v1. subst ch1.
    change (bytes_per_cluster (vol_rebook v nf1 fc1)) with (bytes_per_cluster v) in *.
    change (v_spc (vol_rebook v nf1 fc1)) with (v_spc v) in *.
    rewrite !file_bytes_rebook in FB2.
    set (X := (N.to_nat (v_spc v) * 512)%nat) in *.
    set (off := f_offset f) in *.
    assert (Hl0 : length (file_bytes (s_disk s) v ch) = (length ch * X)%nat)
      by (apply file_bytes_length; exact (wi_wf _ _ _ _ I0)).
    assert (Hlen1 : length (file_bytes (s_disk s) v ch ++ pad1) = (length (ch ++ e1) * X)%nat).
    { rewrite app_length, Hl0, Lp1, !app_length.
      replace (length ch + length e1 - length ch)%nat with (length e1) by lia. lia. }
    assert (Hb1 : (N.to_nat off + length st1 <= length (ch ++ e1) * X)%nat).
    { pose proof (wi_off _ _ _ _ I1) as P1. pose proof (wi_size _ _ _ _ I1) as P2.
      change (bytes_per_cluster (vol_rebook v nf1 fc1)) with (v_spc v * 512) in P2.
      rewrite O1 in P1. unfold X. clear - P1 P2. lia. }
    constructor.
    - exact I2.
    - exists nf2, fc2. subst v2. reflexivity.
    - exists (e1 ++ e2). rewrite Ee2, app_assoc. reflexivity.
    - rewrite app_length. destruct M2 as [M2|M2].
      + destruct M1 as [M1|M1]; [left; congruence|right].
        rewrite M2. rewrite O1 in *. clear - M1. lia.
      + right. rewrite O1 in M2. clear - M2. lia.
    - exists (pad1 ++ pad2). split.
      + rewrite app_length, Lp1, Lp2. rewrite Ee2, !app_length.
        replace (length ch + length e1 - length ch)%nat with (length e1) by lia.
        replace (length ch + length e1 + length e2 - (length ch + length e1))%nat with (length e2) by lia.
        replace (length ch + length e1 + length e2 - length ch)%nat with (length e1 + length e2)%nat by lia.
        lia.
      + rewrite FB2, FB1, O1.
        rewrite set_bytes_app_l by (rewrite Hlen1; exact Hb1).
        rewrite set_bytes_compose by (rewrite app_length, Hlen1; lia).
        rewrite <- app_assoc. reflexivity.
    - rewrite O2, O1, app_length. lia.
    - rewrite Z2, Z1, O1, app_length. lia.
    - rewrite En2, En1. reflexivity.
    - repeat split; congruence.
    - rewrite Fl2, Fl1. apply list_set_twice.
    - rewrite Vl2, Vl1. apply list_set_twice.
    - exact (wframe_trans v nf1 fc1 ch (ch ++ e1) ch2 _ _ _ (ex_intro _ e2 Ee2) Fr1 Fr2).
    - exact (same_tables_trans _ _ _ T1 T2).
  Qed.

  (* nothing stored: a state with the same disk and tables *)
  Lemma wl_post_idle v ch f s s' :
    wl_inv v ch f s -> s_disk s' = s_disk s -> same_mgr s s' -> alloc_pre s' vi v fsz ->
    wl_post v ch f s [] v ch f s'.
  Proof.
    intros [Hpre Hfit Hspc Hwf (fuel0 & Hch) Hfi Hfirst Hcur Hoff Hsize] Hd Hm Hpre'.
    pose proof (same_mgr_files _ _ Hm) as Hfiles.
    constructor.
    - constructor; try assumption.
      + rewrite Hd. exact Hwf.
      + exists fuel0. rewrite Hd. exact Hch.
      + rewrite Hfiles. exact Hfi.
    - exists (v_next_free v), (v_free v). apply vol_rebook_self.
    - exists []. rewrite app_nil_r. reflexivity.
    - left. reflexivity.
    - exists []. split; [rewrite Nat.sub_diag; reflexivity|].
      rewrite app_nil_r, set_bytes_nil, Hd. reflexivity.
    - cbn [length]. lia.
    - cbn [length]. lia.
    - symmetry. apply entry_eta.
    - repeat split; reflexivity.
    - rewrite Hfiles. symmetry. apply list_set_same. exact Hfi.
    - rewrite (proj1 Hm). symmetry. apply list_set_same. exact (proj1 (proj2 (proj2 (proj1 Hpre)))).
    - split.
      + intros j _ _. rewrite Hd. reflexivity.
      + intros x fu l Hl Hdis. rewrite Hd. split; assumption.
    - apply same_tables_of_sbf. apply sbf_of_same_mgr. exact Hm.
  Qed.

  (* ---------------------------------------------------------------- B. the whole loop *)
  (* By induction on the fuel.  From a state satisfying the invariant, for data of any length
     that fits below 2^32: the loop ends; either with Ok - all of `data` is stored at the offset -
     or with DiskFull - then exactly the first k bytes are stored, where offset + k is the end
     of the last cluster that could still be allocated, and no entry of the FAT is free.
     In both cases wl_post describes the final state: file bytes, offset, size, chain, frame. *)
  Theorem write_loop_spec : forall fuel data v ch f s,
    wl_inv v ch f s -> f_offset f + N.of_nat (length data) < U32 ->
    (1 <= fuel)%nat ->
    (data <> [] -> N.of_nat (length data) + f_offset f mod 512 + 512 < 512 * N.of_nat fuel) ->
    exists o s' v' ch' f' stored,
      write_loop fuel fi vi data s = (o, s') /\
      wl_post v ch f s stored v' ch' f' s' /\
      ((o = Ok tt /\ stored = data) \/
       (o = Err DiskFull /\ exists k, (k < length data)%nat /\ stored = firstn k data /\
          f_offset f + N.of_nat k = N.of_nat (length ch') * bytes_per_cluster v /\
          (forall j, 2 <= j -> j < v_clusters v + 2 -> fat_entry (s_disk s') v j <> 0))).
  Proof.
    induction fuel as [|fu IH]; intros data v ch f s Hinv H32 Hf1 Hfuel; [lia|].
    destruct data as [|x t] eqn:Edata.
    { exists (Ok tt), s, v, ch, f, []. split; [reflexivity|]. split; [|left; split; reflexivity].
      apply wl_post_idle; [exact Hinv|reflexivity|apply same_mgr_refl|exact (wi_pre _ _ _ _ Hinv)]. }
    rewrite <- Edata in *. assert (Hdata : data <> []) by (rewrite Edata; discriminate).
    clear x t Edata. specialize (Hfuel Hdata).
    set (off := f_offset f) in *. set (tc := wr_to_copy off data).
    assert (Hn : 0 < N.of_nat (length data)) by (destruct data; [congruence|cbn [length]; lia]).
    assert (Htc : tc <= N.of_nat (length data)) by apply wr_to_copy_le.
    destruct (fuel_step off (N.of_nat (length data)) fu tc eq_refl Hn Hfuel) as (Hfu1 & Hfu2).
    assert (Hrest_len : N.of_nat (length (skipn (N.to_nat tc) data)) = N.of_nat (length data) - tc)
      by (rewrite skipn_length; lia).
    assert (Hst_len : N.of_nat (length (firstn (N.to_nat tc) data)) = tc) by (apply stored_length; exact Htc).
    pose proof (wi_off _ _ _ _ Hinv) as Hoff. pose proof (wi_size _ _ _ _ Hinv) as Hsize. fold off in Hoff.
    (* the continuation, common to both kinds of step *)
    assert (Hcont : forall v1 ch1 f1 s1,
              write_loop (S fu) fi vi data s = write_loop fu fi vi (skipn (N.to_nat tc) data) s1 ->
              wl_post v ch f s (firstn (N.to_nat tc) data) v1 ch1 f1 s1 ->
              exists o s' v' ch' f' stored,
                write_loop (S fu) fi vi data s = (o, s') /\
                wl_post v ch f s stored v' ch' f' s' /\
                ((o = Ok tt /\ stored = data) \/
                 (o = Err DiskFull /\ exists k, (k < length data)%nat /\ stored = firstn k data /\
                    off + N.of_nat k = N.of_nat (length ch') * bytes_per_cluster v /\
                    (forall j, 2 <= j -> j < v_clusters v + 2 -> fat_entry (s_disk s') v j <> 0)))).
    { intros v1 ch1 f1 s1 Hrun P1.
      pose proof (wp_off _ _ _ _ _ _ _ _ _ P1) as O1. fold off in O1. rewrite Hst_len in O1.
      destruct (wp_vol _ _ _ _ _ _ _ _ _ P1) as (nf1 & fc1 & Ev1).
      destruct (IH (skipn (N.to_nat tc) data) v1 ch1 f1 s1 (wp_inv _ _ _ _ _ _ _ _ _ P1)
                  ltac:(rewrite O1, Hrest_len; clear - H32 Htc; lia) Hfu1)
        as (o & s' & v' & ch' & f' & st2 & Hrun2 & P2 & Hres).
      { intros Hne. rewrite O1, Hrest_len. apply Hfu2.
        destruct (skipn (N.to_nat tc) data) eqn:E; [congruence|].
        rewrite <- Hrest_len. cbn [length]. lia. }
      exists o, s', v', ch', f', (firstn (N.to_nat tc) data ++ st2).
      split; [rewrite Hrun; exact Hrun2|].
      split; [exact (wl_post_trans _ _ _ _ _ _ _ _ _ _ _ _ _ _ Hinv P1 P2)|].
      destruct Hres as [(-> & ->)|(-> & k & Hk & -> & Hoffk & Hfull)].
      - left. split; [reflexivity|apply firstn_skipn].
      - right. split; [reflexivity|]. exists (N.to_nat tc + k)%nat.
        split; [rewrite skipn_length in Hk; clear - Hk Htc; lia|].
        split; [symmetry; apply firstn_add|].
        subst v1. change (bytes_per_cluster (vol_rebook v nf1 fc1)) with (bytes_per_cluster v) in Hoffk.
        split; [rewrite <- Hoffk, O1; clear; lia|exact Hfull]. }
    destruct (N.lt_ge_cases off (N.of_nat (length ch) * bytes_per_cluster v)) as [Hin|Hge].
    - destruct (wl_step_in_place fu v ch f data s Hinv Hdata ltac:(fold off; clear - H32; lia) Hin)
        as (f1 & s1 & Hrun & P1).
      exact (Hcont v ch f1 s1 Hrun P1).
    - assert (Hend : off = N.of_nat (length ch) * bytes_per_cluster v) by (clear - Hge Hoff Hsize; lia).
      destruct (wl_step_at_end fu v ch f data s Hinv Hdata ltac:(fold off; clear - H32; lia) Hend)
        as [(v1 & c & f1 & s1 & Hrun & P1)|(s1 & Hrun & Hfull & Hd1 & Hm1 & Hpre1)].
      + exact (Hcont v1 (ch ++ [c]) f1 s1 Hrun P1).
      + exists (Err DiskFull), s1, v, ch, f, []. split; [exact Hrun|].
        split; [exact (wl_post_idle v ch f s s1 Hinv Hd1 Hm1 Hpre1)|].
        right. split; [reflexivity|]. exists 0%nat.
        split; [clear - Hn; lia|]. split; [reflexivity|].
        split; [fold off; rewrite Hend; clear; lia|].
        intros j J1 J2. rewrite Hd1. exact (Hfull j J1 J2).
  Qed.

  (* ---------------------------------------------------------------- B, in the words of C01 *)
  (* the contents of the file - the first `size` bytes of its clusters - after the loop are the
     contents before with `stored` spliced in at the offset *)
  Theorem wl_post_contents v ch f s stored v' ch' f' s' :
    wl_inv v ch f s -> wl_post v ch f s stored v' ch' f' s' ->
    firstn (N.to_nat (e_size (f_entry f'))) (file_bytes (s_disk s') v ch') =
    spec_write (firstn (N.to_nat (e_size (f_entry f))) (file_bytes (s_disk s) v ch)) (f_offset f) stored.
  Proof.
    intros I0 [I1 (nf1 & fc1 & Ev1) (e1 & Ee1) M1 (pad1 & Lp1 & FB1) O1 Z1 En1 _ Fl1 Vl1 Fr1 T1].
    subst v' ch'.
    set (X := (N.to_nat (v_spc v) * 512)%nat) in *.
    assert (Hl0 : length (file_bytes (s_disk s) v ch) = (length ch * X)%nat)
      by (apply file_bytes_length; exact (wi_wf _ _ _ _ I0)).
    assert (Hlen1 : length (file_bytes (s_disk s) v ch ++ pad1) = (length (ch ++ e1) * X)%nat).
    { rewrite app_length, Hl0, Lp1, !app_length.
      replace (length ch + length e1 - length ch)%nat with (length e1) by lia. lia. }
    pose proof (wi_off _ _ _ _ I0) as P0. pose proof (wi_size _ _ _ _ I0) as Q0.
    change (bytes_per_cluster v) with (v_spc v * 512) in Q0.
    assert (Hb1 : (N.to_nat (f_offset f) + length stored <= length (ch ++ e1) * X)%nat).
    { pose proof (wi_off _ _ _ _ I1) as P1. pose proof (wi_size _ _ _ _ I1) as P2.
      change (bytes_per_cluster (vol_rebook v nf1 fc1)) with (v_spc v * 512) in P2.
      rewrite O1 in P1. unfold X. clear - P1 P2. lia. }
    assert (Hsz0 : (N.to_nat (e_size (f_entry f)) <= length ch * X)%nat) by (unfold X; clear - Q0; lia).
    rewrite FB1, Z1.
    replace (N.to_nat (N.max (e_size (f_entry f)) (f_offset f + N.of_nat (length stored))))
      with (Nat.max (N.to_nat (e_size (f_entry f))) (N.to_nat (f_offset f) + length stored)) by (clear; lia).
    rewrite firstn_set_bytes_spec; [|clear - P0; lia|rewrite Hlen1, app_length; clear - Hsz0; nia|rewrite Hlen1; exact Hb1].
    unfold spec_write.
    rewrite (firstn_app (N.to_nat (e_size (f_entry f)))).
    replace (N.to_nat (e_size (f_entry f)) - length (file_bytes (s_disk s) v ch))%nat with 0%nat by (rewrite Hl0; lia).
    cbn [firstn]. rewrite app_nil_r. reflexivity.
  Qed.

  (* "writing to one file never changes what any other file reads back": every chain of the
     volume that shares no cluster with the file is still a chain and holds the same bytes *)
  Theorem wl_post_others v ch f s stored v' ch' f' s' :
    wl_inv v ch f s -> wl_post v ch f s stored v' ch' f' s' ->
    forall x fu l, chain_of (s_disk s) v x fu = Some l -> (forall y, In y l -> ~ In y ch) ->
      chain_of (s_disk s') v x fu = Some l /\ file_bytes (s_disk s') v l = file_bytes (s_disk s) v l.
  Proof.
    intros I0 P x fu l Hl Hdis.
    destruct (wp_frame _ _ _ _ _ _ _ _ _ P) as (A1 & A2).
    destruct (A2 x fu l Hl Hdis) as (Hl' & Hdis').
    split; [exact Hl'|].
    destruct (wi_pre _ _ _ _ I0) as (_ & L & _).
    destruct (wi_chain _ _ _ _ (wp_inv _ _ _ _ _ _ _ _ _ P)) as (fuel1 & Hch1).
    pose proof (chain_of_range _ _ _ _ _ Hch1) as R1. rewrite Forall_forall in R1.
    pose proof (chain_of_range _ _ _ _ _ Hl) as R. rewrite Forall_forall in R.
    apply file_bytes_frame. intros y b Hy Hb. apply A1.
    - intros copy k Hk E. destruct (In_cluster_blocks _ _ _ Hb) as (q & _ & ->).
      exact (fat_sector_not_data v fsz copy k y q L Hk (proj1 (R y Hy)) (eq_sym E)).
    - intros Hin. apply in_flat_map in Hin. destruct Hin as (y' & Hy' & Hb').
      refine (cluster_blocks_apart v y y' b b _ (proj1 (R y Hy)) (proj1 (R1 y' Hy')) Hb Hb' eq_refl).
      intros ->. exact (Hdis' y' Hy Hy').
  Qed.
End Loop.

(* ================================================================== C. mgr_write *)
(* ---- running the monadic plumbing ---- *)
Lemma locked_free' {A} (m : M A) s : s_lock s = false -> locked m s = m s.
Proof. intros H. unfold locked, bind, get. rewrite H. reflexivity. Qed.

Lemma get_file_by_id_ok h s fi :
  find_idx (fun g => f_id g =? h) (s_files s) 0 = Some fi -> get_file_by_id h s = (Ok fi, s).
Proof. intros H. unfold get_file_by_id, bind, get. rewrite H. reflexivity. Qed.

Lemma get_volume_by_id_ok id s vi :
  find_idx (fun w => v_id w =? id) (s_vols s) 0 = Some vi -> get_volume_by_id id s = (Ok vi, s).
Proof. intros H. unfold get_volume_by_id, bind, get. rewrite H. reflexivity. Qed.

Lemma find_idx_at {A} (p : A -> bool) l : forall i j, find_idx p l i = Some j ->
  exists x, nth_error l (j - i) = Some x /\ p x = true.
Proof.
  induction l as [|a t IH]; intros i j H; cbn in H; [discriminate|].
  destruct (p a) eqn:Hp.
  - injection H as <-. exists a. rewrite Nat.sub_diag. split; [reflexivity|exact Hp].
  - assert (Hge : forall l0 i0 j0, find_idx p l0 i0 = Some j0 -> (i0 <= j0)%nat).
    { induction l0 as [|b l0 IH0]; intros i0 j0 H0; cbn in H0; [discriminate|].
      destruct (p b); [injection H0 as <-; lia|apply IH0 in H0; lia]. }
    pose proof (Hge _ _ _ H) as G. destruct (IH _ _ H) as (x & Hn & Hx). exists x. split; [|exact Hx].
    replace (j - i)%nat with (S (j - S i)) by lia. exact Hn.
Qed.

Lemma find_idx_set {A} (p : A -> bool) y : forall l i j,
  find_idx p l i = Some j -> p y = true -> find_idx p (list_set l (j - i) y) i = Some j.
Proof.
  induction l as [|a t IH]; intros i j H Hy; cbn in H; [discriminate|].
  destruct (p a) eqn:Hp.
  - injection H as <-. rewrite Nat.sub_diag. cbn. rewrite Hy. reflexivity.
  - assert (Hge : forall l0 i0 j0, find_idx p l0 i0 = Some j0 -> (i0 <= j0)%nat).
    { induction l0 as [|b l0 IH0]; intros i0 j0 H0; cbn in H0; [discriminate|].
      destruct (p b); [injection H0 as <-; lia|apply IH0 in H0; lia]. }
    pose proof (Hge _ _ _ H) as G.
    replace (j - i)%nat with (S (j - S i)) by lia. cbn. rewrite Hp. apply IH; assumption.
Qed.

(* replacing the record of a volume by one with the same id does not change the lookup *)
Lemma find_vol_set id vols vi v v' :
  find_idx (fun w => v_id w =? id) vols 0 = Some vi -> nth_error vols vi = Some v -> v_id v' = v_id v ->
  find_idx (fun w => v_id w =? id) (list_set vols vi v') 0 = Some vi.
Proof.
  intros H Hn E. pose proof (find_idx_set (fun w => v_id w =? id) v' vols 0 vi H) as G.
  rewrite Nat.sub_0_r in G. apply G.
  destruct (find_idx_at _ _ _ _ H) as (x & Hx & Hp). rewrite Nat.sub_0_r, Hn in Hx. inversion Hx; subst x.
  rewrite E. exact Hp.
Qed.

Lemma find_file_set h files fi f f' :
  find_idx (fun g => f_id g =? h) files 0 = Some fi -> nth_error files fi = Some f -> f_id f' = f_id f ->
  find_idx (fun g => f_id g =? h) (list_set files fi f') 0 = Some fi.
Proof.
  intros H Hn E. pose proof (find_idx_set (fun g => f_id g =? h) f' files 0 fi H) as G.
  rewrite Nat.sub_0_r in G. apply G.
  destruct (find_idx_at _ _ _ _ H) as (x & Hx & Hp). rewrite Nat.sub_0_r, Hn in Hx. inversion Hx; subst x.
  rewrite E. exact Hp.
Qed.

(* ---- the text of mgr_write after the handle, the volume and the mode are resolved ---- *)
Definition mw_tail (fi : nat) : M unit :=
  f4 <- get_file fi ;;
  now <- get_timestamp ;;
  let e := f_entry f4 in
  put_file fi (set_f_entry f4 (set_e_mtime (set_e_attr e (N.lor (e_attr e) A_ARCHIVE)) now)).

Definition mw_rest (fi : nat) (data : list N) : M unit :=
  f2 <- get_file fi ;;
  vi2 <- get_volume_by_id (f_vol f2) ;;
  (if f_cur_cluster f2 <? e_cluster (f_entry f2)
   then put_file fi (set_f_cur_cluster (set_f_cur_off f2 0) (e_cluster (f_entry f2)))
   else ret tt) ;;;
  f3 <- get_file fi ;;
  let to_write := N.min (N.of_nat (length data)) (MAX_FILE_SIZE - f_offset f3) in
  write_loop (N.to_nat (to_write / 512) + 3) fi vi2 (firstn (N.to_nat to_write) data) ;;;
  mw_tail fi.

Definition mw_first (fi vi : nat) (f : fileinfo) : M unit :=
  if e_cluster (f_entry f) <? RESERVED_ENTRIES then
    c <- alloc_cluster vi None false ;;
    f1 <- get_file fi ;;
    put_file fi (set_f_entry f1 (set_e_cluster (f_entry f1) c))
  else ret tt.

Lemma mgr_write_unfold h data s fi f vi :
  s_lock s = false -> find_idx (fun g => f_id g =? h) (s_files s) 0 = Some fi ->
  nth_error (s_files s) fi = Some f ->
  find_idx (fun w => v_id w =? f_vol f) (s_vols s) 0 = Some vi ->
  mgr_write h data s =
  if mode_eqb (f_mode f) ReadOnly then (Err ReadOnlyErr, s)
  else (mw_first fi vi f ;;; mw_rest fi data) (upd_file s fi (set_f_dirty f true)).
Proof.
  intros Hl Hh Hfi Hv. unfold mgr_write. rewrite (locked_free' _ _ Hl).
  rewrite (bind_ok _ _ _ _ _ (get_file_by_id_ok h s fi Hh)).
  rewrite (bind_ok _ _ _ _ _ (get_file_some fi f s Hfi)).
  rewrite (bind_ok _ _ _ _ _ (get_volume_by_id_ok _ s vi Hv)).
  destruct (mode_eqb (f_mode f) ReadOnly); reflexivity.
Qed.

(* the mode check: a ReadOnly handle refuses the write, nothing changes (cf. PrModes.C07_write_read_only) *)
Theorem mgr_write_read_only h data s fi f vi :
  s_lock s = false -> find_idx (fun g => f_id g =? h) (s_files s) 0 = Some fi ->
  nth_error (s_files s) fi = Some f ->
  find_idx (fun w => v_id w =? f_vol f) (s_vols s) 0 = Some vi ->
  mode_eqb (f_mode f) ReadOnly = true ->
  mgr_write h data s = (Err ReadOnlyErr, s).
Proof. intros Hl Hh Hfi Hv Hm. rewrite (mgr_write_unfold h data s fi f vi Hl Hh Hfi Hv), Hm. reflexivity. Qed.

Definition reset_cursor (f : fileinfo) : fileinfo :=
  if f_cur_cluster f <? e_cluster (f_entry f)
  then set_f_cur_cluster (set_f_cur_off f 0) (e_cluster (f_entry f)) else f.

Lemma mw_rest_run fi data s f2 vi :
  nth_error (s_files s) fi = Some f2 ->
  find_idx (fun w => v_id w =? f_vol f2) (s_vols s) 0 = Some vi ->
  let f3 := reset_cursor f2 in
  let tw := N.min (N.of_nat (length data)) (MAX_FILE_SIZE - f_offset f3) in
  mw_rest fi data s =
  (write_loop (N.to_nat (tw / 512) + 3) fi vi (firstn (N.to_nat tw) data) ;;; mw_tail fi)
    (upd_file s fi f3).
Proof.
  intros Hfi Hv f3 tw. unfold mw_rest.
  rewrite (bind_ok _ _ _ _ _ (get_file_some fi f2 s Hfi)).
  rewrite (bind_ok _ _ _ _ _ (get_volume_by_id_ok _ s vi Hv)).
  subst tw f3. unfold reset_cursor.
  destruct (f_cur_cluster f2 <? e_cluster (f_entry f2)).
  - rewrite put_file_ok'.
    rewrite (bind_ok _ _ _ _ _ (get_file_some fi _ (upd_file s fi _)
               ltac:(cbn; eapply nth_error_list_set_same; exact Hfi))).
    reflexivity.
  - assert (E : upd_file s fi f2 = s).
    { unfold upd_file. rewrite (list_set_same _ _ _ Hfi). destruct s; reflexivity. }
    rewrite E.
    rewrite bind_ret.
    rewrite (bind_ok _ _ _ _ _ (get_file_some fi f2 s Hfi)). reflexivity.
Qed.

Definition stamp (e : dirent) (now : ts) : dirent :=
  set_e_mtime (set_e_attr e (N.lor (e_attr e) A_ARCHIVE)) now.

Lemma mw_tail_run fi s f4 : nth_error (s_files s) fi = Some f4 ->
  mw_tail fi s = (Ok tt, upd_file (set_s_clock s (s_clock s + 1)) fi
                           (set_f_entry f4 (stamp (f_entry f4) (clock_ts (s_clock s))))).
Proof.
  intros Hfi. unfold mw_tail. rewrite (bind_ok _ _ _ _ _ (get_file_some fi f4 s Hfi)). reflexivity.
Qed.

(* ---- the representation of one open file, as mgr_write needs it ---- *)
(* the clusters of the file: the chain from its first cluster, with a valid cursor; or none
   at all - a file that was created empty has first cluster 0 and its cursor there *)
Definition chain_ok (s : st) (v : vol) (f : fileinfo) (ch : list N) : Prop :=
  (2 <= e_cluster (f_entry f) /\
   (exists fuel, chain_of (s_disk s) v (e_cluster (f_entry f)) fuel = Some ch) /\
   cursor_ok v ch (f_cur_off f, f_cur_cluster f))
  \/ (e_cluster (f_entry f) < 2 /\ ch = [] /\ f_cur_cluster f < 2).

Record mw_pre (fsz h : N) (s : st) (fi : nat) (f : fileinfo) (vi : nat) (v : vol) (ch : list N) : Prop :=
  mk_mw_pre {
  mq_lock : s_lock s = false;
  mq_find : find_idx (fun g => f_id g =? h) (s_files s) 0 = Some fi;
  mq_file : nth_error (s_files s) fi = Some f;
  mq_vol : find_idx (fun w => v_id w =? f_vol f) (s_vols s) 0 = Some vi;
  mq_pre : alloc_pre s vi v fsz;
  mq_fit : clusters_fit v;
  mq_spc : 0 < v_spc v;
  mq_wf : blocks_wf (s_disk s);
  mq_chain : chain_ok s v f ch;
  mq_off : f_offset f <= e_size (f_entry f);
  mq_size : e_size (f_entry f) <= N.of_nat (length ch) * bytes_per_cluster v;
  mq_u32 : e_size (f_entry f) < U32
}.

Lemma chain_single d v c g : 2 <= c -> c < v_clusters v + 2 -> fat_entry d v c = enc v CL_EOF ->
  chain_of d v c (S g) = Some [c].
Proof.
  intros C1 C2 Hc. destruct (eof_is_end v) as (Eb & Ee). cbn [chain_of].
  replace ((2 <=? c) && (c <? v_clusters v + 2)) with true
    by (symmetry; apply andb_true_iff; split; [apply N.leb_le|apply N.ltb_lt]; assumption).
  cbv zeta. rewrite Hc, Eb, Ee. reflexivity.
Qed.

Lemma reset_cursor_fields f :
  f_entry (reset_cursor f) = f_entry f /\ f_offset (reset_cursor f) = f_offset f /\
  f_id (reset_cursor f) = f_id f /\ f_vol (reset_cursor f) = f_vol f /\
  f_mode (reset_cursor f) = f_mode f /\ f_dirty (reset_cursor f) = f_dirty f.
Proof. unfold reset_cursor. destruct (f_cur_cluster f <? e_cluster (f_entry f)); repeat split; reflexivity. Qed.

Lemma reset_cursor_ok v ch f : cursor_ok v ch (0, e_cluster (f_entry f)) ->
  (e_cluster (f_entry f) <= f_cur_cluster f -> cursor_ok v ch (f_cur_off f, f_cur_cluster f)) ->
  cursor_ok v ch (f_cur_off (reset_cursor f), f_cur_cluster (reset_cursor f)).
Proof.
  intros H0 H1. unfold reset_cursor. destruct (N.ltb_spec (f_cur_cluster f) (e_cluster (f_entry f))).
  - exact H0.
  - exact (H1 H).
Qed.

(* what the preamble of mgr_write achieves: state sD, record fD, volume record vD, chain chD *)
Record mw_prep (fsz : N) (vi fi : nat) (s : st) (f : fileinfo) (v : vol) (ch : list N)
               (sD : st) (fD : fileinfo) (vD : vol) (chD : list N) : Prop := mk_mw_prep {
  pr_inv : wl_inv fsz vi fi (e_cluster (f_entry fD)) vD chD fD sD;
  pr_first : 2 <= e_cluster (f_entry fD) /\
             (2 <= e_cluster (f_entry f) -> e_cluster (f_entry fD) = e_cluster (f_entry f));
  pr_entry : f_entry fD = set_e_cluster (f_entry f) (e_cluster (f_entry fD));
  pr_off : f_offset fD = f_offset f;
  pr_id : f_id fD = f_id f /\ f_vol fD = f_vol f /\ f_mode fD = f_mode f /\ f_dirty fD = true;
  pr_vol : exists nf fc, vD = vol_rebook v nf fc;
  pr_vols : s_vols sD = list_set (s_vols s) vi vD;
  pr_files : s_files sD = list_set (s_files s) fi fD;
  pr_chain : (chD = ch /\ s_disk sD = s_disk s) \/ (ch = [] /\ chD = [e_cluster (f_entry fD)]);
  pr_frame : wframe fsz v ch chD (s_disk s) (s_disk sD);
  pr_tables : same_tables s sD
}.

Lemma mw_prepare fsz h data s fi f vi v ch :
  mw_pre fsz h s fi f vi v ch ->
  let sA := upd_file s fi (set_f_dirty f true) in
  (exists sD fD vD chD,
     mw_prep fsz vi fi s f v ch sD fD vD chD /\
     let tw := N.min (N.of_nat (length data)) (MAX_FILE_SIZE - f_offset f) in
     (mw_first fi vi f ;;; mw_rest fi data) sA =
     (write_loop (N.to_nat (tw / 512) + 3) fi vi (firstn (N.to_nat tw) data) ;;; mw_tail fi) sD)
  \/ (exists s', (mw_first fi vi f ;;; mw_rest fi data) sA = (Err NotEnoughSpace, s') /\
        e_cluster (f_entry f) < 2 /\
        (forall j, 2 <= j -> j < v_clusters v + 2 -> fat_entry (s_disk s) v j <> 0) /\
        s_disk s' = s_disk s /\ same_mgr sA s' /\ alloc_pre s' vi v fsz).
Proof.
  intros [Hl Hh Hfi Hvol Hpre Hfit Hspc Hwf Hchain Hoff Hsize H32] sA.
  set (fA := set_f_dirty f true) in *.
  assert (HfiA : nth_error (s_files sA) fi = Some fA)
    by (cbn; eapply nth_error_list_set_same; exact Hfi).
  assert (HpreA : alloc_pre sA vi v fsz) by exact Hpre.
  pose proof Hpre as ((Hnf & Hc & Hvi & Hlen) & L & Hh0).
  destruct Hchain as [(A1 & (fuel0 & A2) & A3)|(A1 & -> & A3)].
  - (* the file has clusters *)
    left.
    assert (E : (e_cluster (f_entry f) <? RESERVED_ENTRIES) = false) by (apply N.ltb_ge; exact A1).
    destruct (reset_cursor_fields fA) as (G1 & G2 & G3 & G4 & G5 & G6).
    exists (upd_file sA fi (reset_cursor fA)), (reset_cursor fA), v, ch. split.
    + constructor.
      * constructor; try assumption.
        -- exists fuel0. rewrite G1. exact A2.
        -- cbn. rewrite list_set_twice. eapply nth_error_list_set_same. exact Hfi.
        -- reflexivity.
        -- apply reset_cursor_ok; [exact (cursor_ok_first v _ _ _ _ A2)|intros _; exact A3].
        -- rewrite G1, G2. exact Hoff.
        -- rewrite G1. exact Hsize.
      * rewrite G1. split; [exact A1|intros _; reflexivity].
      * rewrite G1. cbn. destruct (f_entry f); reflexivity.
      * exact G2.
      * rewrite G3, G4, G5, G6. repeat split; reflexivity.
      * exists (v_next_free v), (v_free v). apply vol_rebook_self.
      * cbn. symmetry. apply list_set_same. exact Hvi.
      * cbn. apply list_set_twice.
      * left. split; reflexivity.
      * split; [intros j _ _; reflexivity|intros x fu l Hl0 Hdis; split; assumption].
      * unfold same_tables. cbn. repeat split; reflexivity.
    + cbv zeta. unfold mw_first. rewrite E, bind_ret.
      rewrite (mw_rest_run fi data sA fA vi HfiA Hvol). cbv zeta. rewrite G2. reflexivity.
  - (* the file has no cluster yet: one is allocated *)
    assert (E : (e_cluster (f_entry f) <? RESERVED_ENTRIES) = true) by (apply N.ltb_lt; exact A1).
    assert (HprevN : forall p, @None N = Some p -> p < v_clusters v + 2) by (intros p Ep; discriminate Ep).
    destruct (alloc_cluster_total vi v fsz None false sA HpreA HprevN) as (o & s2 & Ha & Hres).
    destruct Hres as [(-> & Hnone & Hd2 & Hm2 & _ & Hst2)|(c & -> & _)].
    + right. exists s2. split.
      { unfold mw_first. rewrite E. rewrite bind_bind. rewrite (bind_err _ _ _ _ _ Ha). reflexivity. }
      split; [exact A1|]. split; [intros j J1 J2; rewrite fat_entry_get; exact (Hnone j J1 J2)|].
      split; [exact Hd2|]. split; [exact Hm2|]. split; [exact Hst2|split; assumption].
    + left.
      pose proof (alloc_files_of_effect vi v fsz None sA c s2 HpreA Hwf
                    ltac:(intros p Ep; discriminate Ep) Ha) as AF.
      destruct (af_range _ _ _ _ _ _ _ AF) as (R1 & R2 & R3).
      destruct (af_vol _ _ _ _ _ _ _ AF) as (nf & fc & Evols & Hpre2).
      set (v' := vol_rebook v nf fc) in *.
      set (fB := set_f_entry fA (set_e_cluster (f_entry fA) c)).
      set (sC := upd_file s2 fi fB).
      assert (Hfi2 : nth_error (s_files s2) fi = Some fA) by (rewrite (af_files _ _ _ _ _ _ _ AF); exact HfiA).
      assert (HfiC : nth_error (s_files sC) fi = Some fB) by (cbn; eapply nth_error_list_set_same; exact Hfi2).
      assert (HvolC : find_idx (fun w => v_id w =? f_vol fB) (s_vols sC) 0 = Some vi).
      { cbn [sC upd_file s_vols set_s_files]. rewrite Evols. apply (find_vol_set _ _ _ v); [exact Hvol|exact Hvi|reflexivity]. }
      assert (Hreset : reset_cursor fB = set_f_cur_cluster (set_f_cur_off fB 0) c).
      { unfold reset_cursor. change (f_cur_cluster fB) with (f_cur_cluster f).
        change (e_cluster (f_entry fB)) with c.
        replace (f_cur_cluster f <? c) with true by (symmetry; apply N.ltb_lt; clear - A3 R1; lia).
        reflexivity. }
      set (fD := set_f_cur_cluster (set_f_cur_off fB 0) c) in *.
      exists (upd_file sC fi fD), fD, v', [c]. split.
      * cbn [length] in Hsize.
        assert (E0 : e_size (f_entry f) = 0) by (clear - Hsize; lia).
        constructor.
        -- constructor.
           ++ exact Hpre2.
           ++ exact Hfit.
           ++ exact Hspc.
           ++ exact (af_wf _ _ _ _ _ _ _ AF).
           ++ exists 1%nat. unfold v'. rewrite chain_of_rebook.
              exact (chain_single _ _ _ _ R1 R2 (af_new _ _ _ _ _ _ _ AF)).
           ++ cbn. rewrite list_set_twice. eapply nth_error_list_set_same. exact Hfi2.
           ++ reflexivity.
           ++ exists 0%nat. split; reflexivity.
           ++ exact Hoff.
           ++ change (e_size (f_entry fD)) with (e_size (f_entry f)). rewrite E0. clear. lia.
        -- split; [exact R1|]. intros G. clear - G A1. lia.
        -- reflexivity.
        -- reflexivity.
        -- repeat split; reflexivity.
        -- exists nf, fc. reflexivity.
        -- cbn. exact Evols.
        -- cbn. rewrite (af_files _ _ _ _ _ _ _ AF). cbn. rewrite !list_set_twice. reflexivity.
        -- right. split; reflexivity.
        -- split.
           ++ intros j Hfat _. exact (af_data _ _ _ _ _ _ _ AF j Hfat).
           ++ intros x fu l Hl0 _.
              destruct (af_chains _ _ _ _ _ _ _ AF x fu l Hl0 ltac:(intros p Ep; discriminate Ep)) as (Hl2 & Hcl).
              split; [exact Hl2|]. intros y Hy [<-|[]]. exact (Hcl Hy).
        -- pose proof (af_tables _ _ _ _ _ _ _ AF) as T. unfold same_tables in *. cbn in *. exact T.
      * cbv zeta. unfold mw_first. rewrite E. rewrite bind_bind. rewrite (bind_ok _ _ _ _ _ Ha).
        rewrite bind_bind. rewrite (bind_ok _ _ _ _ _ (get_file_some fi fA s2 Hfi2)).
        rewrite put_file_ok'. fold fB. fold sC.
        rewrite (mw_rest_run fi data sC fB vi HfiC HvolC). cbv zeta. rewrite Hreset. reflexivity.
Qed.

(* ---- the frame, for other files ---- *)
Lemma wframe_others fsz v ch ch' D D' :
  fat_layout v fsz -> Forall (fun c => 2 <= c) ch' -> wframe fsz v ch ch' D D' ->
  forall x fu l, chain_of D v x fu = Some l -> (forall y, In y l -> ~ In y ch) ->
    chain_of D' v x fu = Some l /\ file_bytes D' v l = file_bytes D v l.
Proof.
  intros L R1 (A1 & A2) x fu l Hl Hdis. rewrite Forall_forall in R1.
  destruct (A2 x fu l Hl Hdis) as (Hl' & Hdis'). split; [exact Hl'|].
  pose proof (chain_of_range _ _ _ _ _ Hl) as R. rewrite Forall_forall in R.
  apply file_bytes_frame. intros y b Hy Hb. apply A1.
  - intros copy k Hk E. destruct (In_cluster_blocks _ _ _ Hb) as (q & _ & ->).
    exact (fat_sector_not_data v fsz copy k y q L Hk (proj1 (R y Hy)) (eq_sym E)).
  - intros Hin. apply in_flat_map in Hin. destruct Hin as (y' & Hy' & Hb').
    refine (cluster_blocks_apart v y y' b b _ (proj1 (R y Hy)) (R1 y' Hy') Hb Hb' eq_refl).
    intros ->. exact (Hdis' y' Hy Hy').
Qed.

Definition no_free (d : disk) (v : vol) : Prop :=
  forall j, 2 <= j -> j < v_clusters v + 2 -> fat_entry d v j <> 0.

(* the state after mgr_write stored `stored` at the offset; stamped = the call ran to its end
   (archive bit set and modification time taken from the clock) *)
Record mw_post (fsz h : N) (s : st) (fi : nat) (f : fileinfo) (vi : nat) (v : vol) (ch : list N)
               (stamped : bool) (stored : list N)
               (s' : st) (f' : fileinfo) (v' : vol) (ch' : list N) : Prop := mk_mw_post {
  mp_pre : mw_pre fsz h s' fi f' vi v' ch';
  mp_first : 2 <= e_cluster (f_entry f') /\
             (2 <= e_cluster (f_entry f) -> e_cluster (f_entry f') = e_cluster (f_entry f));
  mp_vol : exists nf fc, v' = vol_rebook v nf fc;
  mp_vols : s_vols s' = list_set (s_vols s) vi v';
  mp_ext : exists ext, ch' = ch ++ ext;
  mp_min : length ch' = length ch \/ (ch = [] /\ length ch' = 1%nat) \/
           N.of_nat (length ch' - 1) * bytes_per_cluster v < f_offset f + N.of_nat (length stored);
  mp_bytes : firstn (N.to_nat (e_size (f_entry f'))) (file_bytes (s_disk s') v ch') =
             spec_write (firstn (N.to_nat (e_size (f_entry f))) (file_bytes (s_disk s) v ch))
                        (f_offset f) stored;
  mp_off : f_offset f' = f_offset f + N.of_nat (length stored);
  mp_size : e_size (f_entry f') = N.max (e_size (f_entry f)) (f_offset f + N.of_nat (length stored));
  mp_id : f_id f' = f_id f /\ f_vol f' = f_vol f /\ f_mode f' = f_mode f /\ f_dirty f' = true;
  mp_entry : f_entry f' =
             let e0 := set_e_size (set_e_cluster (f_entry f) (e_cluster (f_entry f'))) (e_size (f_entry f')) in
             if stamped then stamp e0 (clock_ts (s_clock s)) else e0;
  mp_clock : s_clock s' = if stamped then s_clock s + 1 else s_clock s;
  mp_files : s_files s' = list_set (s_files s) fi f';
  mp_frame : wframe fsz v ch ch' (s_disk s) (s_disk s');
  mp_others : forall x fu l, chain_of (s_disk s) v x fu = Some l -> (forall y, In y l -> ~ In y ch) ->
              chain_of (s_disk s') v x fu = Some l /\ file_bytes (s_disk s') v l = file_bytes (s_disk s) v l;
  mp_tables : s_dirs s' = s_dirs s /\ s_next_id s' = s_next_id s /\ s_lock s' = s_lock s /\
              s_maxv s' = s_maxv s /\ s_maxd s' = s_maxd s /\ s_maxf s' = s_maxf s /\
              s_faults s' = s_faults s
}.

Lemma mw_post_build fsz h s fi f vi v ch sD fD vD chD stored s1 f1 v1 ch1 :
  mw_pre fsz h s fi f vi v ch -> mw_prep fsz vi fi s f v ch sD fD vD chD ->
  wl_post fsz vi fi (e_cluster (f_entry fD)) vD chD fD sD stored v1 ch1 f1 s1 ->
  f_offset f + N.of_nat (length stored) < U32 ->
  mw_post fsz h s fi f vi v ch false stored s1 f1 v1 ch1.
Proof.
  intros [Hl Hh Hfi Hvol Hpre Hfit Hspc Hwf Hchain Hoff Hsize H32]
         [Pinv (Pf1 & Pf2) Pentry Poff (Pi1 & Pi2 & Pi3 & Pi4) (nf0 & fc0 & EvD) PvolsD PfilesD Pchain Pframe Ptab]
         P Hfit32.
  pose proof (wl_post_contents _ _ _ _ _ _ _ _ _ _ _ _ _ Pinv P) as Hbytes.
  destruct P as [I1 (nf1 & fc1 & Ev1) (e1 & Ee1) M1 _ O1 Z1 En1 (A1 & A2 & A3 & A4) Fl1 Vl1 Fr1 T1].
  pose proof Hpre as ((_ & _ & Hvi & _) & L & _).
  assert (EsD : e_size (f_entry fD) = e_size (f_entry f)) by (rewrite Pentry; reflexivity).
  assert (Ec1 : e_cluster (f_entry f1) = e_cluster (f_entry fD)) by exact (wi_first _ _ _ _ _ _ _ _ I1).
  destruct T1 as (T1 & T2 & T3 & T4 & T5 & T6 & T7 & T8).
  destruct Ptab as (U1 & U2 & U3 & U4 & U5 & U6 & U7 & U8).
  assert (Hfiles : s_files s1 = list_set (s_files s) fi f1) by (rewrite Fl1, PfilesD; apply list_set_twice).
  assert (Hvols : s_vols s1 = list_set (s_vols s) vi v1) by (rewrite Vl1, PvolsD; apply list_set_twice).
  subst vD. subst v1.
  destruct (wi_chain _ _ _ _ _ _ _ _ I1) as (fuel1 & Hch1).
  constructor.
  - constructor.
    + congruence.
    + rewrite Hfiles. apply (find_file_set _ _ _ f); [exact Hh|exact Hfi|congruence].
    + exact (wi_file _ _ _ _ _ _ _ _ I1).
    + rewrite Hvols, A2, Pi2. apply (find_vol_set _ _ _ v); [exact Hvol|exact Hvi|reflexivity].
    + exact (wi_pre _ _ _ _ _ _ _ _ I1).
    + exact (wi_fit _ _ _ _ _ _ _ _ I1).
    + exact (wi_spc _ _ _ _ _ _ _ _ I1).
    + exact (wi_wf _ _ _ _ _ _ _ _ I1).
    + left. rewrite Ec1. split; [exact Pf1|]. split; [exists fuel1; exact Hch1|exact (wi_cur _ _ _ _ _ _ _ _ I1)].
    + exact (wi_off _ _ _ _ _ _ _ _ I1).
    + exact (wi_size _ _ _ _ _ _ _ _ I1).
    + rewrite Z1, EsD, Poff. clear - H32 Hfit32. lia.
  - rewrite Ec1. split; assumption.
  - exists nf1, fc1. reflexivity.
  - exact Hvols.
  - destruct Pchain as [(-> & _)|(-> & ->)].
    + exists e1. exact Ee1.
    + exists ([e_cluster (f_entry fD)] ++ e1). exact Ee1.
  - rewrite Poff in M1. change (bytes_per_cluster (vol_rebook v nf0 fc0)) with (bytes_per_cluster v) in M1.
    destruct Pchain as [(-> & _)|(-> & ->)].
    + destruct M1 as [M1|M1]; [left; exact M1|right; right; exact M1].
    + destruct M1 as [M1|M1]; [right; left; split; [reflexivity|exact M1]|right; right; exact M1].
  - rewrite file_bytes_rebook in Hbytes. rewrite Hbytes, EsD, Poff. f_equal.
    destruct Pchain as [(-> & Ed)|(-> & ->)].
    + rewrite file_bytes_rebook, Ed. reflexivity.
    + cbn [length] in Hsize. replace (e_size (f_entry f)) with 0 by (clear - Hsize; lia). reflexivity.
  - rewrite O1, Poff. reflexivity.
  - rewrite Z1, EsD, Poff. reflexivity.
  - repeat split; congruence.
  - cbv zeta. rewrite En1 at 1. rewrite Pentry, Ec1. reflexivity.
  - congruence.
  - exact Hfiles.
  - apply (wframe_trans fsz v nf0 fc0 ch chD ch1 _ _ _ (ex_intro _ e1 Ee1) Pframe Fr1).
  - apply (wframe_others fsz v ch ch1 _ _ L).
    + pose proof (chain_of_range _ _ _ _ _ Hch1) as R. rewrite Forall_forall in *. intros c Hc. exact (proj1 (R c Hc)).
    + apply (wframe_trans fsz v nf0 fc0 ch chD ch1 _ _ _ (ex_intro _ e1 Ee1) Pframe Fr1).
  - repeat split; congruence.
Qed.

(* the last statements of mgr_write: archive bit and modification time; the clock ticks *)
Lemma mw_post_stamp fsz h s fi f vi v ch stored s1 f1 v1 ch1 :
  mw_post fsz h s fi f vi v ch false stored s1 f1 v1 ch1 ->
  mw_post fsz h s fi f vi v ch true stored
    (upd_file (set_s_clock s1 (s_clock s1 + 1)) fi (set_f_entry f1 (stamp (f_entry f1) (clock_ts (s_clock s1)))))
    (set_f_entry f1 (stamp (f_entry f1) (clock_ts (s_clock s1)))) v1 ch1.
Proof.
  intros [[Hl Hh Hfi Hvol Hpre Hfit Hspc Hwf Hchain Hoff Hsize H32] F1 V1 V2 X1 M1 B1 O1 Z1 (I1 & I2 & I3 & I4)
          E1 C1 Fl1 Fr1 Ot1 (T1 & T2 & T3 & T4 & T5 & T6 & T7)].
  cbv zeta in E1. cbv iota in C1.
  set (fF := set_f_entry f1 (stamp (f_entry f1) (clock_ts (s_clock s1)))).
  constructor; try assumption.
  - constructor; try assumption.
    + cbn. apply (find_file_set _ _ _ f1); [exact Hh|exact Hfi|reflexivity].
    + cbn. eapply nth_error_list_set_same. exact Hfi.
  - repeat split; assumption.
  - cbv zeta. change (f_entry fF) with (stamp (f_entry f1) (clock_ts (s_clock s1))).
    change (e_cluster (stamp (f_entry f1) (clock_ts (s_clock s1)))) with (e_cluster (f_entry f1)).
    change (e_size (stamp (f_entry f1) (clock_ts (s_clock s1)))) with (e_size (f_entry f1)).
    rewrite C1. rewrite E1 at 1. reflexivity.
  - cbn. rewrite C1. reflexivity.
  - cbn. rewrite Fl1. apply list_set_twice.
  - repeat split; assumption.
Qed.

(* C.  mgr_write, the public operation, for a handle that is not ReadOnly.
   `clip` is what the call stores: the request clipped so that the file stays below 2^32 - 1
   bytes - and the call still answers Ok (finding D23).
   Three outcomes exist (and no other: no panic, no fuel exhaustion, no other error):
   - Ok: clip is stored; the record is dirty, has the first cluster (allocated if the file had
     none), the new offset and size, the archive bit and the time of the clock;
   - DiskFull: exactly the first k bytes of clip are stored, up to the end of the last cluster
     that could be allocated; offset and size say so; no archive bit / time stamp;
   - NotEnoughSpace: the file had no cluster and none is free; only the dirty flag is set. *)
Theorem mgr_write_spec fsz h data s fi f vi v ch :
  mw_pre fsz h s fi f vi v ch -> mode_eqb (f_mode f) ReadOnly = false ->
  let clip := firstn (N.to_nat (N.min (N.of_nat (length data)) (MAX_FILE_SIZE - f_offset f))) data in
  exists o s', mgr_write h data s = (o, s') /\
    ((o = Ok tt /\ exists f' v' ch', mw_post fsz h s fi f vi v ch true clip s' f' v' ch') \/
     (o = Err DiskFull /\ exists f' v' ch' k, (k < length clip)%nat /\
        mw_post fsz h s fi f vi v ch false (firstn k clip) s' f' v' ch' /\
        f_offset f + N.of_nat k = N.of_nat (length ch') * bytes_per_cluster v /\
        no_free (s_disk s') v) \/
     (o = Err NotEnoughSpace /\ e_cluster (f_entry f) < 2 /\ no_free (s_disk s) v /\
        s_disk s' = s_disk s /\ s_files s' = list_set (s_files s) fi (set_f_dirty f true) /\
        s_vols s' = s_vols s /\ same_tables s s' /\ alloc_pre s' vi v fsz)).
Proof.
  intros Hmw Hmode clip.
  pose proof Hmw as [Hl Hh Hfi Hvol Hpre Hfit Hspc Hwf Hchain Hoff Hsize H32].
  rewrite (mgr_write_unfold h data s fi f vi Hl Hh Hfi Hvol), Hmode.
  destruct (mw_prepare fsz h data s fi f vi v ch Hmw)
    as [(sD & fD & vD & chD & Prep & Hrun)|(s' & Hrun & Hc0 & Hnone & Hd & Hm & Hpre')].
  2:{ exists (Err NotEnoughSpace), s'. split; [exact Hrun|]. right. right.
      split; [reflexivity|]. split; [exact Hc0|]. split; [exact Hnone|]. split; [exact Hd|].
      destruct Hm as (M1 & M2 & M3 & M4 & M5 & M6 & M7 & M8 & M9 & M10).
      split; [exact M3|]. split; [exact M1|]. split; [|exact Hpre']. unfold same_tables. repeat split; assumption. }
  cbv zeta in Hrun. rewrite Hrun. clear Hrun.
  set (tw := N.min (N.of_nat (length data)) (MAX_FILE_SIZE - f_offset f)) in *.
  assert (Hclip_len : N.of_nat (length clip) = tw) by (unfold clip; rewrite firstn_length; unfold tw; lia).
  pose proof (pr_off _ _ _ _ _ _ _ _ _ _ _ Prep) as PoffD.
  assert (HtwM : f_offset f + tw <= MAX_FILE_SIZE) by (unfold tw, MAX_FILE_SIZE, U32 in *; clear - Hoff H32; lia).
  destruct (write_loop_spec fsz vi fi (e_cluster (f_entry fD)) (N.to_nat (tw / 512) + 3) clip vD chD fD sD
              (pr_inv _ _ _ _ _ _ _ _ _ _ _ Prep))
    as (o & s1 & v1 & ch1 & f1 & stored & Hloop & P & Hres).
  { rewrite PoffD, Hclip_len. unfold MAX_FILE_SIZE, U32 in *. clear - HtwM. lia. }
  { clear. lia. }
  { intros _. rewrite PoffD, Hclip_len. clear. lia. }
  destruct Hres as [(-> & ->)|(-> & k & Hk & -> & Hoffk & Hfull)].
  - (* all of clip stored: the tail runs *)
    rewrite (bind_ok _ _ _ _ _ Hloop).
    pose proof (mw_post_build fsz h s fi f vi v ch sD fD vD chD clip s1 f1 v1 ch1 Hmw Prep P
                  ltac:(rewrite Hclip_len; unfold MAX_FILE_SIZE, U32 in *; clear - HtwM; lia)) as Q.
    rewrite (mw_tail_run fi s1 f1 (mq_file _ _ _ _ _ _ _ _ (mp_pre _ _ _ _ _ _ _ _ _ _ _ _ _ _ Q))).
    eexists. eexists. split; [reflexivity|]. left. split; [reflexivity|].
    eexists. exists v1, ch1. exact (mw_post_stamp _ _ _ _ _ _ _ _ _ _ _ _ _ Q).
  - (* the disk filled up part-way *)
    rewrite (bind_err _ _ _ _ _ Hloop).
    assert (Hkl : N.of_nat (length (firstn k clip)) = N.of_nat k) by (rewrite firstn_length; clear - Hk; lia).
    pose proof (mw_post_build fsz h s fi f vi v ch sD fD vD chD (firstn k clip) s1 f1 v1 ch1 Hmw Prep P
                  ltac:(rewrite Hkl; unfold MAX_FILE_SIZE, U32 in *; clear - HtwM Hk Hclip_len; lia)) as Q.
    exists (Err DiskFull), s1. split; [reflexivity|]. right. left. split; [reflexivity|].
    exists f1, v1, ch1, k. split; [exact Hk|]. split; [exact Q|].
    destruct (pr_vol _ _ _ _ _ _ _ _ _ _ _ Prep) as (nf0 & fc0 & ->).
    split; [rewrite <- PoffD; exact Hoffk|exact Hfull].
Qed.

(* finding D23, as a statement about the model: a request that would take the file past
   2^32 - 1 bytes is cut short - strictly fewer bytes than asked for are stored - and, by
   mgr_write_spec, the call still answers Ok when the disk has room *)
Lemma D23_clip_is_short off (data : list N) : off <= MAX_FILE_SIZE -> MAX_FILE_SIZE < off + N.of_nat (length data) ->
  let clip := firstn (N.to_nat (N.min (N.of_nat (length data)) (MAX_FILE_SIZE - off))) data in
  N.of_nat (length clip) = MAX_FILE_SIZE - off /\ (length clip < length data)%nat.
Proof. intros H1 H2 clip. unfold clip. rewrite firstn_length. unfold MAX_FILE_SIZE in *. lia. Qed.

(* ================================================================== the hypotheses are satisfiable *)
(* PrRw's example: the FAT16 volume of PrDir (100 clusters of 2 blocks, one FAT of 1 sector at
   block 11, data area from block 30) with the file of 1500 bytes in clusters 2 -> 3, open
   for writing with handle 7 at offset 700 *)
Lemma exd_layout : fat_layout exd_vol 1.
Proof.
  constructor.
  - constructor; try (intros _); vm_compute; reflexivity.
  - intros sf E. discriminate E.
  - vm_compute. reflexivity.
  - intros sf E. discriminate E.
  - vm_compute. discriminate.
  - intros sf E. discriminate E.
Qed.

Lemma exr_alloc_pre : alloc_pre exr_state 0 exd_vol 1.
Proof.
  split; [|split; [exact exd_layout|intros c E; discriminate E]].
  split; [intros n H; destruct H|]. split; [intros i H; discriminate H|]. split; [reflexivity|].
  intros k _. apply exd_disk_wf.
Qed.

Example write_example :
  mw_pre 1 7 exr_state 0 exr_file 0 exd_vol [2; 3] /\
  wl_inv 1 0 0 2 exd_vol [2; 3] exr_file exr_state /\
  mode_eqb (f_mode exr_file) ReadOnly = false /\
  (* the conclusions, computed: 2000 bytes written at offset 700 need a third cluster *)
  let data := repeat 7 2000 in
  fst (mgr_write 7 data exr_state) = Ok tt /\
  (let s' := snd (mgr_write 7 data exr_state) in
   chain_of (s_disk s') exd_vol 2 5 = Some [2; 3; 4] /\
   option_map (fun g => (f_offset g, e_size (f_entry g), f_dirty g, e_attr (f_entry g)))
              (nth_error (s_files s') 0) = Some (2700, 2700, true, 32) /\
   firstn 2700 (file_bytes (s_disk s') exd_vol [2; 3; 4]) =
   spec_write (firstn 1500 (file_bytes exd_disk exd_vol [2; 3])) 700 data).
Proof.
  assert (Hcur : cursor_ok exd_vol [2; 3] (f_cur_off exr_file, f_cur_cluster exr_file))
    by (exists 0%nat; split; reflexivity).
  split; [|split; [|split; [reflexivity|]]].
  - constructor; try reflexivity; try exact exr_alloc_pre; try exact exd_disk_wf;
      try (vm_compute; discriminate).
    left. split; [vm_compute; discriminate|]. split; [exists 5%nat; vm_compute; reflexivity|exact Hcur].
  - constructor; try reflexivity; try exact exr_alloc_pre; try exact exd_disk_wf; try exact Hcur;
      try (vm_compute; discriminate).
    exists 5%nat. vm_compute. reflexivity.
  - cbv zeta. split; [vm_compute; reflexivity|]. split; [vm_compute; reflexivity|].
    split; vm_compute; reflexivity.
Qed.

(* a file that was created empty (first cluster 0): the first write allocates cluster 4 *)
Definition exw_empty_file : fileinfo :=
  mk_fileinfo 7 0 0 0 0 ReadWriteCreate (set_e_size (set_e_cluster exr_entry 0) 0) false.
Definition exw_empty_state : st :=
  mk_st exd_disk zero_block None [exd_vol] [] [exw_empty_file] 8 0 0 [] [] false 1 1 1.

Example write_empty_example :
  mw_pre 1 7 exw_empty_state 0 exw_empty_file 0 exd_vol [] /\
  fst (mgr_write 7 [1; 2; 3] exw_empty_state) = Ok tt /\
  (let s' := snd (mgr_write 7 [1; 2; 3] exw_empty_state) in
   option_map (fun g => (e_cluster (f_entry g), f_cur_off g, f_cur_cluster g, f_offset g, e_size (f_entry g)))
              (nth_error (s_files s') 0) = Some (4, 0, 4, 3, 3) /\
   firstn 3 (file_bytes (s_disk s') exd_vol [4]) = [1; 2; 3]).
Proof.
  split; [|split; [vm_compute; reflexivity|split; vm_compute; reflexivity]].
  constructor; try reflexivity; try exact exd_disk_wf; try (vm_compute; discriminate).
  - split; [|split; [exact exd_layout|intros c E; discriminate E]].
    split; [intros n H; destruct H|]. split; [intros i H; discriminate H|]. split; [reflexivity|].
    intros k _. apply exd_disk_wf.
  - right. split; [reflexivity|]. split; reflexivity.
Qed.

(* a full volume (every FAT entry is an end-of-chain mark): a file of one full cluster, offset
   1000; a write of 100 bytes stores 24 bytes - up to the end of the cluster - then DiskFull *)
Definition exw_full_disk : disk :=
  disk_set (PositiveMap.empty block) 11 (set_bytes zero_block 0 (repeat 255 204)).
Definition exw_full_file : fileinfo :=
  mk_fileinfo 7 0 0 2 1000 ReadWriteAppend (set_e_size exr_entry 1024) false.
Definition exw_full_state : st :=
  mk_st exw_full_disk zero_block None [exd_vol] [] [exw_full_file] 8 0 0 [] [] false 1 1 1.

Example write_full_example :
  mw_pre 1 7 exw_full_state 0 exw_full_file 0 exd_vol [2] /\
  fst (mgr_write 7 (repeat 9 100) exw_full_state) = Err DiskFull /\
  (let s' := snd (mgr_write 7 (repeat 9 100) exw_full_state) in
   option_map (fun g => (f_offset g, e_size (f_entry g), f_dirty g))
              (nth_error (s_files s') 0) = Some (1024, 1024, true) /\
   skipn 1000 (file_bytes (s_disk s') exd_vol [2]) = repeat 9 24).
Proof.
  assert (Hwf : blocks_wf exw_full_disk) by (apply blocks_wf_elements; vm_compute; reflexivity).
  split; [|split; [vm_compute; reflexivity|split; vm_compute; reflexivity]].
  constructor; try reflexivity; try exact Hwf; try (vm_compute; discriminate).
  - split; [|split; [exact exd_layout|intros c E; discriminate E]].
    split; [intros n H; destruct H|]. split; [intros i H; discriminate H|]. split; [reflexivity|].
    intros k _. apply Hwf.
  - left. split; [vm_compute; discriminate|]. split; [exists 5%nat; vm_compute; reflexivity|].
    exists 0%nat. split; reflexivity.
Qed.

Print Assumptions alloc_files_of_effect.
Print Assumptions ext_eff_of_alloc.
Print Assumptions wl_step_in_place.
Print Assumptions wl_step_at_end.
Print Assumptions write_loop_spec.
Print Assumptions wl_post_contents.
Print Assumptions wl_post_others.
Print Assumptions mgr_write_read_only.
Print Assumptions mgr_write_spec.
Print Assumptions D23_clip_is_short.
Print Assumptions write_example.
Print Assumptions write_empty_example.
Print Assumptions write_full_example.
