(* PROOFS: which slot a read-only OpenFile resolves to.
   PrContentDef.open_content leaves the position of the new handle existential.  Here, for the
   read-only open: a successful open_file_in_dir d name ReadOnly found - with find_directory_entry,
   i.e. (PrDir.C06_find) as the FIRST live slot of the directory's blocks whose 11 name bytes are the
   8.3 name - an entry e that is no directory and not open; the pushed record carries e, so the handle's
   position is (e_block e, e_offset e); a Read on it returns the bytes the API shows at THAT slot. *)
From Coq Require Import NArith ZArith List Bool Lia Arith FMapPositive Permutation.
From SdFs Require Import FsTypes FsBase FsFat FsMgr FsExt FsLemmas PrBase PrFat PrAlloc PrDir PrChain PrCount PrWf PrOpenClose.
From SdFs Require PrHandles PrOrder PrBounds PrSeek.
From SdFs Require Import PrModes.
From SdFs Require Import PrGlobalDef PrGlobalOpen PrGlobal.
From SdFs Require Import PrExt PrExt2 PrExt3.
From SdFs Require Import PrContentDef PrContentDef2 PrContentDef3.
From SdFs Require Import PrExt4.
From SdFs Require Import PrSess7.
Import ListNotations.
Open Scope N_scope.
Local Arguments N.mul : simpl never.
Local Arguments N.add : simpl never.
Local Arguments N.sub : simpl never.

(* ================================================================== (1) the model level *)
Theorem open_ro_resolves s d di dd vi v name sfn hn s' :
  PrModes.resolves s d di dd vi v -> sfn_of_str name = Some sfn ->
  open_file_in_dir d name ReadOnly s = (Ok hn, s') ->
  exists e s1, find_directory_entry vi (d_cluster dd) sfn s = (Ok e, s1) /\
    is_directory (e_attr e) = false /\ PrModes.is_open s1 (d_vol dd) e = false /\
    hn = s_next_id s1 /\
    s' = set_s_files (set_s_next_id s1 ((s_next_id s1 + 1) mod U32))
           (s_files s1 ++ [mk_fileinfo (s_next_id s1) (d_vol dd) 0 (e_cluster e) 0 ReadOnly e false]).
Proof.
  intros Hres Hsfn E.
  destruct (is_full (s_files s) (s_maxf s)) eqn:Hfull.
  { exfalso. pose proof Hres as (Hl & _). unfold open_file_in_dir in E.
    rewrite (PrHandles.locked_free _ _ Hl), PrHandles.bind_get, Hfull in E. discriminate E. }
  destruct (PrModes.dot_name sfn) eqn:Hdot.
  { rewrite (C07_open_dot_name s d di dd vi v name sfn ReadOnly Hres Hfull Hsfn Hdot) in E. discriminate E. }
  destruct (find_directory_entry vi (d_cluster dd) sfn s) as [r s1] eqn:Hfind.
  destruct (open_refusal ReadOnly r (found_open s1 (d_vol dd) r)) as [er|] eqn:Href.
  { rewrite (C07_open_refusals s d di dd vi v name sfn ReadOnly r s1 er Hres Hfull Hsfn Hdot Hfind Href) in E. discriminate E. }
  destruct r as [e|er| |].
  - cbn [open_refusal found_open] in Href.
    destruct (PrModes.is_open s1 (d_vol dd) e) eqn:Hop; [discriminate Href|].
    cbn [mode_eqb negb andb] in Href. rewrite andb_false_r in Href.
    destruct (is_directory (e_attr e)) eqn:Hd; [discriminate Href|].
    assert (Href' : open_refusal ReadOnly (Ok e) (PrModes.is_open s1 (d_vol dd) e) = None).
    { cbn [open_refusal]. rewrite Hop. cbn [mode_eqb negb andb]. rewrite andb_false_r, Hd. reflexivity. }
    rewrite (C07_open_existing_keep s d di dd vi v name sfn ReadOnly e s1 Hres Hfull Hsfn Hdot Hfind Href' (or_introl eq_refl)) in E.
    injection E as <- <-. exists e, s1. repeat split; assumption || reflexivity.
  - exfalso. cbn [open_refusal] in Href. destruct er; discriminate Href.
  - exfalso. pose proof Hres as (Hl & H1 & H2 & H3 & H4). unfold open_file_in_dir in E.
    rewrite (PrHandles.locked_free _ _ Hl), PrHandles.bind_get, Hfull in E.
    rewrite (bind_ok _ _ _ _ _ H1), (bind_ok _ _ _ _ _ H2) in E. cbv zeta in E.
    rewrite (bind_ok _ _ _ _ _ H3), (bind_ok _ _ _ _ _ H4), Hsfn in E.
    unfold PrModes.dot_name in Hdot. rewrite Hdot in E.
    unfold bind at 1 in E. unfold try in E. rewrite Hfind in E. discriminate E.
  - exfalso. pose proof Hres as (Hl & H1 & H2 & H3 & H4). unfold open_file_in_dir in E.
    rewrite (PrHandles.locked_free _ _ Hl), PrHandles.bind_get, Hfull in E.
    rewrite (bind_ok _ _ _ _ _ H1), (bind_ok _ _ _ _ _ H2) in E. cbv zeta in E.
    rewrite (bind_ok _ _ _ _ _ H3), (bind_ok _ _ _ _ _ H4), Hsfn in E.
    unfold PrModes.dot_name in Hdot. rewrite Hdot in E.
    unfold bind at 1 in E. unfold try in E. rewrite Hfind in E. discriminate E.
Qed.

(* ... with PrDir.C06_find: the entry is that of the FIRST live slot of the directory whose name
   bytes are the 8.3 name *)
Corollary open_ro_first_match s d di dd vi v name sfn hn s' bl :
  PrModes.resolves s d di dd vi v -> sfn_of_str name = Some sfn ->
  open_file_in_dir d name ReadOnly s = (Ok hn, s') ->
  nth_error (s_vols s) vi = Some v -> vol_ok v -> no_faults s -> cache_ok s ->
  dir_blocks (s_disk s) v (d_cluster dd) = Some bl ->
  exists t, find (t_matches sfn) (live_in_blocks (s_disk s) bl) = Some t /\
    is_directory (e_attr (t_entry (v_fat32 v) t)) = false /\
    exists f, In f (s_files s') /\ f_id f = hn /\ f_entry f = t_entry (v_fat32 v) t /\
      f_offset f = 0 /\ f_mode f = ReadOnly.
Proof.
  intros Hres Hsfn E Hvi Hv Hnf Hc Hbl.
  destruct (open_ro_resolves s d di dd vi v name sfn hn s' Hres Hsfn E) as (e & s1 & Hfind & Hd & _ & -> & ->).
  destruct (C06_find vi v (d_cluster dd) sfn s bl Hvi Hv Hnf Hc Hbl) as (s2 & Hrun & _).
  rewrite Hfind in Hrun.
  destruct (find (t_matches sfn) (live_in_blocks (s_disk s) bl)) as [t|]; [|discriminate Hrun].
  injection Hrun as -> _. exists t. split; [reflexivity|]. split; [exact Hd|].
  eexists. split; [cbn [s_files set_s_files]; apply in_or_app; right; left; reflexivity|].
  repeat split; reflexivity.
Qed.

(* ================================================================== the API level *)
(* the handle of a successful read-only OpenFile stands on the slot of the entry the lookup found, and
   Read returns the bytes the API showed at THAT slot - no existential position any more *)
Theorem C01x_open_ro_by_name fsz vid s age a d di dd vi v name sfn hn s' n :
  fs_inv fsz vid s -> PrHandles.handles_ok age s -> age + 1 < U32 - 1 -> e5_name name = false ->
  observes fsz vid s a -> PrModes.resolves s d di dd vi v -> sfn_of_str name = Some sfn ->
  xstep (XOp (OpenFile d name ReadOnly)) s = (Ok (XR (RHandle hn)), s') ->
  exists e s1 fv, find_directory_entry vi (d_cluster dd) sfn s = (Ok e, s1) /\
    is_directory (e_attr e) = false /\
    vget (e_block e, e_offset e) (ob_mem a) = Some fv /\ fv_name fv = sfn /\
    fst (xstep (XOp (Read hn n)) s') = Ok (XR (RBytes (firstn (N.to_nat n) (fv_bytes fv)))).
Proof.
  intros Hinv Hh Hage Hn Ho Hres Hsfn E.
  assert (Ha0 : age < U32) by (unfold U32 in *; lia).
  assert (Ha1 : age < U32 - 1) by (unfold U32 in *; lia).
  pose proof (handles_ok_fresh age s Ha0 Hh) as Hid.
  (* the model run *)
  assert (Em : open_file_in_dir d name ReadOnly s = (Ok hn, s')).
  { cbn [xstep step] in E. rewrite xlift_run, lift_run in E. cbn [fst snd] in E.
    destruct (open_file_in_dir d name ReadOnly s) as [[x|er| |] sx]; cbn [fst snd omap] in E; try discriminate E.
    injection E as -> ->. reflexivity. }
  destruct (open_ro_resolves s d di dd vi v name sfn hn s' Hres Hsfn Em) as (e & s1 & Hfind & Hd & _ & Ehn & Es').
  (* the observation *)
  destruct (C01x_open_ro fsz vid s a d name hn s' Hinv Hid Hn Ho E) as (a' & p & fv & sfn' & Ho' & Es & Ev & En & Hh' & Hsame).
  rewrite Hsfn in Es. injection Es as <-.
  assert (Ep : p = (e_block e, e_offset e)).
  { destruct Ho' as (vi' & v' & bl' & rch' & T' & Hat' & ->). cbn [obs_at ob_handles] in Hh'.
    pose proof (fi_fids _ _ _ _ _ _ _ _ Hat') as Hnd.
    unfold handles_of in Hh'. rewrite hget_handles_of in Hh'.
    destruct (find (fun f => f_id f =? hn) (s_files s')) as [f|] eqn:Ef; [|discriminate Hh'].
    cbn [option_map] in Hh'. injection Hh' as Hp.
    apply find_some in Ef. destruct Ef as (Hin & Eid). apply N.eqb_eq in Eid.
    set (nf := mk_fileinfo (s_next_id s1) (d_vol dd) 0 (e_cluster e) 0 ReadOnly e false) in *.
    assert (Hnf : In nf (s_files s')) by (rewrite Es'; cbn [s_files set_s_files]; apply in_or_app; right; left; reflexivity).
    assert (f = nf).
    { clear - Hnd Hin Hnf Eid Ehn. assert (X : f_id f = f_id nf) by (subst nf; cbn [f_id]; congruence).
      revert Hnd Hin Hnf X. generalize (s_files s'). induction l as [|g l IH]; intros Hnd Hin Hnf X; [destruct Hin|].
      cbn [map] in Hnd. inversion Hnd as [|? ? Hni Hnd']; subst.
      destruct Hin as [->|Hin], Hnf as [Hg|Hnf'].
      - exact Hg.
      - exfalso. apply Hni. rewrite X. apply in_map. exact Hnf'.
      - exfalso. subst g. apply Hni. rewrite <- X. apply in_map. exact Hin.
      - exact (IH Hnd' Hin Hnf' X). }
    subst f. rewrite <- Hp. reflexivity. }
  subst p.
  destruct (C02s_open_read fsz vid s age a d name hn s' n Hinv Hh Hage Hn Ho E) as (p2 & fv2 & sfn2 & _ & _ & _ & _).
  exists e, s1, fv. split; [exact Hfind|]. split; [exact Hd|]. split; [exact Ev|]. split; [exact En|].
  pose proof (C08x_handles_ok_step age (XOp (OpenFile d name ReadOnly)) s Ha1 I Hh) as Hh1.
  rewrite E in Hh1. cbn [snd] in Hh1.
  assert (Ha2 : age + 1 < U32) by (unfold U32 in *; lia).
  pose proof (handles_ok_fresh (age + 1) s' Ha2 Hh1) as Hid'.
  assert (Ev' : vget (hi_pos (mk_hinfo (e_block e, e_offset e) ReadOnly 0 false)) (ob_mem a') = Some fv).
  { cbn [hi_pos]. rewrite (proj1 (Hsame _)). exact Ev. }
  rewrite (C01x_read_at fsz vid s' a' hn n _ fv (observes_inv _ _ _ _ Ho') Hid' Ho' Hh' Ev'). reflexivity.
Qed.

Print Assumptions open_ro_resolves.
Print Assumptions open_ro_first_match.
Print Assumptions C01x_open_ro_by_name.
