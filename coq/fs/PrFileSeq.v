(* PROOFS: single-file refinement (C01).  One open file, seen through its handle, behaves like a
   plain in-memory byte array with an offset: under the representation invariant file_inv,
   every read / write / seek / length / offset / eof call returns what the byte-array model
   returns and re-establishes the invariant (C01_file_step); hence so does every finite
   sequence of such calls on the handle (C01_file_history).
   The device works (no faults); no other operation is interleaved. *)
From Coq Require Import NArith ZArith List Bool Lia Arith ZifyClasses ZifyInst Zify FMapPositive.
From SdFs Require Import FsTypes FsBase FsFat FsMgr FsLemmas PrBase PrFat PrAlloc PrDir PrSeek PrAllocEffect PrRw PrWrite.
Import ListNotations.
Open Scope N_scope.
Local Arguments N.mul : simpl never.
Local Arguments N.add : simpl never.
Local Arguments N.sub : simpl never.
Local Arguments N.div : simpl never.
Local Arguments N.modulo : simpl never.
Local Arguments N.min : simpl never.
Local Arguments N.max : simpl never.
Local Ltac Zify.zify_post_hook ::= Z.to_euclidean_division_equations.

(* ================================================================== SPEC side: the byte-array model *)
(* the abstract file: its bytes and the current offset *)
Definition afile := (list N * N)%type.
Definition alen (a : afile) : N := N.of_nat (length (fst a)).

Inductive aop :=
  | ARead (n : N) | AWrite (data : list N)
  | ASeekStart (x : N) | ASeekEnd (x : N) | ASeekCur (z : Z)
  | ALen | AOff | AEof.

(* the concrete operation on handle h *)
Definition cop (h : N) (a : aop) : op :=
  match a with
  | ARead n => Read h n | AWrite d => Write h d
  | ASeekStart x => SeekStart h x | ASeekEnd x => SeekEnd h x | ASeekCur z => SeekCur h z
  | ALen => Length h | AOff => Offset h | AEof => Eof h
  end.

Definition aseek (a : afile) (o : option N) : outcome res * afile :=
  match o with Some n => (Ok RUnit, (fst a, n)) | None => (Err InvalidOffset, a) end.

(* what is stored by a write of `data` at offset off: the code clips the request at
   MAX_FILE_SIZE = 2^32 - 1 and reports success (finding D23) *)
Definition clip_write (off : N) (data : list N) : list N :=
  firstn (N.to_nat (N.min (N.of_nat (length data)) (MAX_FILE_SIZE - off))) data.

(* one operation of the byte-array model; w = the handle was opened for writing *)
Definition astep (w : bool) (a : aop) (af : afile) : outcome res * afile :=
  let bytes := fst af in
  let off := snd af in
  match a with
  | ARead n =>
      let m := N.min n (alen af - off) in
      (Ok (RBytes (firstn (N.to_nat m) (skipn (N.to_nat off) bytes))), (bytes, off + m))
  | AWrite data =>
      if w then
        let stored := clip_write off data in
        (Ok RUnit, (spec_write bytes off stored, off + N.of_nat (length stored)))
      else (Err ReadOnlyErr, af)
  | ASeekStart x => aseek af (spec_seek_start (alen af) off x)
  | ASeekEnd x => aseek af (spec_seek_end (alen af) off x)
  | ASeekCur z => aseek af (spec_seek_cur (alen af) off z)
  | ALen => (Ok (RNum (alen af)), af)
  | AOff => (Ok (RNum off), af)
  | AEof => (Ok (RBool (off =? alen af)), af)
  end.

Definition is_write (a : aop) : bool := match a with AWrite _ => true | _ => false end.

(* ================================================================== list facts *)
Lemma firstn_skipn_firstn {A} (l : list A) m off sz : (off + m <= sz)%nat ->
  firstn m (skipn off (firstn sz l)) = firstn m (skipn off l).
Proof.
  intros H. rewrite skipn_firstn_comm, firstn_firstn.
  replace (Nat.min m (sz - off)) with m by lia. reflexivity.
Qed.

Lemma lift_ok' {A} (g : A -> res) (m : M A) s a s' : m s = (Ok a, s') -> lift g m s = (Ok (g a), s').
Proof. intros H. unfold lift. rewrite (bind_ok _ _ _ _ _ H). reflexivity. Qed.
Lemma lift_err' {A} (g : A -> res) (m : M A) s e s' : m s = (Err e, s') -> lift g m s = (Err e, s').
Proof. intros H. unfold lift. rewrite (bind_err _ _ _ _ _ H). reflexivity. Qed.

(* ================================================================== the representation invariant *)
Section OneFile.
  Variable fsz : N.     (* sectors per FAT of the file's volume *)
  Variable w : bool.    (* the handle was opened for writing *)
  Variable h : N.       (* the handle *)

  Record file_rep (s : st) (af : afile) (fi : nat) (f : fileinfo) (vi : nat) (v : vol) (ch : list N) : Prop :=
    mk_file_rep {
    fr_res : PrSeek.resolves s h fi f;
    fr_vol : find_idx (fun w0 => v_id w0 =? f_vol f) (s_vols s) 0 = Some vi;
    fr_pre : alloc_pre s vi v fsz;
    fr_fit : clusters_fit v;
    fr_spc : 0 < v_spc v;
    fr_wf : blocks_wf (s_disk s);
    fr_chain : chain_ok s v f ch;
    fr_off : f_offset f <= e_size (f_entry f);
    fr_size : e_size (f_entry f) <= N.of_nat (length ch) * bytes_per_cluster v;
    fr_u32 : e_size (f_entry f) < U32;
    fr_mode : mode_eqb (f_mode f) ReadOnly = negb w;
    fr_bytes : fst af = firstn (N.to_nat (e_size (f_entry f))) (file_bytes (s_disk s) v ch);
    fr_aoff : snd af = f_offset f
  }.

  Definition file_inv (s : st) (af : afile) : Prop :=
    exists fi f vi v ch, file_rep s af fi f vi v ch.

  Lemma file_rep_len s af fi f vi v ch : file_rep s af fi f vi v ch -> alen af = e_size (f_entry f).
  Proof.
    intros R. unfold alen. rewrite (fr_bytes _ _ _ _ _ _ _ R), firstn_length.
    rewrite (file_bytes_length _ _ _ (fr_wf _ _ _ _ _ _ _ R)).
    pose proof (fr_size _ _ _ _ _ _ _ R) as Hs. unfold bytes_per_cluster in Hs.
    clear - Hs. lia.
  Qed.

  (* a state that differs from s in the record of the file only (disk, volumes, lock the same) *)
  Lemma file_rep_upd s s' af af' fi f f' vi v ch :
    file_rep s af fi f vi v ch ->
    s_disk s' = s_disk s -> s_vols s' = s_vols s -> s_lock s' = s_lock s ->
    s_files s' = list_set (s_files s) fi f' -> no_faults s' -> cache_ok s' ->
    f_id f' = f_id f -> f_vol f' = f_vol f -> f_mode f' = f_mode f -> f_entry f' = f_entry f ->
    (PrRw.cursor_ok v ch (f_cur_off f, f_cur_cluster f) -> PrRw.cursor_ok v ch (f_cur_off f', f_cur_cluster f')) ->
    (f_cur_cluster f < 2 -> f_cur_cluster f' < 2) ->
    f_offset f' <= e_size (f_entry f) ->
    fst af' = fst af -> snd af' = f_offset f' ->
    file_rep s' af' fi f' vi v ch.
  Proof.
    intros [Hres Hvol Hpre Hfit Hspc Hwf Hchain Hoff Hsize H32 Hmode Hbytes Haoff]
           Hd Hv Hl Hfiles Hnf' Hc' Eid Evol Emode Eentry Hcur Hcur0 Hoff' Hfst Hsnd.
    destruct Hres as (R1 & R2 & R3).
    constructor.
    - split; [congruence|]. split; [|rewrite Hfiles; eapply PrSeek.nth_error_list_set_same; exact R3].
      rewrite Hfiles. pose proof (find_idx_list_set (fun g => f_id g =? h) f' _ _ _ R2) as H.
      rewrite Nat.sub_0_r in H. apply H. rewrite Eid.
      apply N.eqb_eq. exact (resolves_id s h fi f (conj R1 (conj R2 R3))).
    - rewrite Hv, Evol. exact Hvol.
    - destruct Hpre as ((_ & _ & Hvi & Hlen) & L & Hh). split; [|split; assumption].
      split; [exact Hnf'|]. split; [exact Hc'|]. split; [rewrite Hv; exact Hvi|]. rewrite Hd. exact Hlen.
    - exact Hfit.
    - exact Hspc.
    - rewrite Hd. exact Hwf.
    - unfold chain_ok in *. rewrite Eentry, Hd.
      destruct Hchain as [(A1 & A2 & A3)|(A1 & A2 & A3)]; [left|right]; auto.
    - rewrite Eentry. exact Hoff'.
    - rewrite Eentry. exact Hsize.
    - rewrite Eentry. exact H32.
    - rewrite Emode. exact Hmode.
    - rewrite Hfst, Eentry, Hd. exact Hbytes.
    - exact Hsnd.
  Qed.

  (* ================================================================ reading at the end of the file *)
  Lemma mgr_read_at_eof s fi f vi n :
    PrSeek.resolves s h fi f -> find_idx (fun w0 => v_id w0 =? f_vol f) (s_vols s) 0 = Some vi ->
    f_offset f = e_size (f_entry f) -> mgr_read h n s = (Ok [], s).
  Proof.
    intros (Hl & Hh & Hfi) Hvid Heof.
    unfold mgr_read, locked, get_file_by_id, get_volume_by_id.
    unfold bind at 1, get at 1. rewrite Hl.
    unfold bind at 1. unfold bind at 1, get at 1. rewrite Hh. unfold ret at 1.
    rewrite (bind_ok _ _ _ _ _ (get_file_some fi f s Hfi)).
    unfold bind at 1. unfold bind at 1, get at 1. rewrite Hvid. unfold ret at 1.
    replace (N.to_nat (n / 512) + 3)%nat with (S (N.to_nat (n / 512) + 2)) by lia.
    cbn [read_loop]. rewrite (bind_ok _ _ _ _ _ (get_file_some fi f s Hfi)).
    unfold f_eof. rewrite Heof, N.eqb_refl, andb_false_r. reflexivity.
  Qed.

  (* ================================================================ the seeks *)
  Lemma seek_case s af fi f vi v ch (m : M unit) o :
    file_rep s af fi f vi v ch -> m s = seek_result s fi f o ->
    (forall n, o = Some n -> n <= e_size (f_entry f)) ->
    exists s', lift (fun _ => RUnit) m s = (fst (aseek af o), s') /\ file_inv s' (snd (aseek af o)).
  Proof.
    intros R Hrun Hok. destruct o as [n|]; cbn [seek_result aseek fst snd] in *.
    - exists (PrSeek.upd_file s fi (set_f_offset f n)). split; [exact (lift_ok' _ _ _ _ _ Hrun)|].
      exists fi, (set_f_offset f n), vi, v, ch.
      pose proof R as [Hres Hvol Hpre Hfit Hspc Hwf Hchain Hoff Hsize H32 Hmode Hbytes Haoff].
      destruct Hpre as ((Hnf & Hc & _) & _).
      apply (file_rep_upd s _ af _ fi f _ vi v ch R); try reflexivity; try assumption.
      + intros Hcur. exact Hcur.
      + intros Hlt. exact Hlt.
      + cbn. apply Hok. reflexivity.
    - exists s. split; [exact (lift_err' _ _ _ _ _ Hrun)|]. exists fi, f, vi, v, ch. exact R.
  Qed.

  (* ================================================================ one operation (no write) *)
  Theorem C01_file_step_ro a s af : is_write a = false -> file_inv s af ->
    exists s', run_op (cop h a) s = (fst (astep w a af), s') /\ file_inv s' (snd (astep w a af)).
  Proof.
    intros Ha (fi & f & vi & v & ch & R).
    pose proof (file_rep_len _ _ _ _ _ _ _ R) as Hlen.
    pose proof R as [Hres Hvol Hpre Hfit Hspc Hwf Hchain Hoff Hsize H32 Hmode Hbytes Haoff].
    unfold run_op. destruct a as [n|data|x|x|z| | |]; cbn [cop step astep is_write] in *; try discriminate.
    - (* read *)
      rewrite Hlen, Haoff.
      destruct Hchain as [(A1 & (fuel0 & A2) & A3)|(A1 & -> & A3)].
      + destruct Hres as (R1 & R2 & R3). destruct Hpre as ((Hnf & Hc & Hvi & Hlenf) & L & Hh).
        destruct (mgr_read_spec v (s_disk s) (e_cluster (f_entry f)) fuel0 ch (fl_vol v fsz L) Hspc A2
                    h n fi vi f s R1 R2 R3 Hvol Hvi eq_refl Hnf Hc Hwf eq_refl A3 Hoff Hsize H32)
          as (s' & f' & Hrun & Hd' & Hfiles' & Hoff' & (I1 & I2 & I3 & I4 & I5) & Hcur' & Hc' & Hnf' & Hsbf).
        cbv zeta in Hrun, Hoff'.
        set (m := N.min n (e_size (f_entry f) - f_offset f)) in *.
        exists s'. split.
        * rewrite (lift_ok' _ _ _ _ _ Hrun). cbn [fst]. do 3 f_equal.
          rewrite Hbytes. symmetry. apply firstn_skipn_firstn. unfold m. clear - Hoff. lia.
        * exists fi, f', vi, v, ch. cbn [snd].
          destruct Hsbf as (S1 & S2 & S3 & S4 & S5 & S6).
          apply (file_rep_upd s s' af _ fi f f' vi v ch R); try assumption; try reflexivity.
          -- intros _. exact Hcur'.
          -- intros Hlt. exfalso. destruct A3 as (k & _ & Hk). cbn [snd] in Hk.
             pose proof (chain_of_range _ _ _ _ _ A2) as Rg. rewrite Forall_forall in Rg.
             pose proof (Rg _ (nth_error_In _ _ Hk)) as (Q & _). clear - Q Hlt. lia.
          -- rewrite Hoff'. unfold m. clear - Hoff. lia.
          -- cbn [snd]. rewrite Hoff'. reflexivity.
      + (* no cluster: the file is empty *)
        cbn [length] in Hsize.
        assert (E0 : e_size (f_entry f) = 0) by (clear - Hsize; lia).
        assert (Eo : f_offset f = 0) by (clear - Hoff E0; lia).
        exists s. split.
        * rewrite (lift_ok' _ _ _ _ _ (mgr_read_at_eof s fi f vi n Hres Hvol ltac:(congruence))).
          cbn [fst]. rewrite E0, Eo.
          replace (N.min n (0 - 0)) with 0 by (clear; lia). reflexivity.
        * exists fi, f, vi, v, []. cbn [snd].
          assert (Em : N.min n (e_size (f_entry f) - f_offset f) = 0) by (rewrite E0, Eo; clear; lia).
          rewrite Em, N.add_0_r.
          destruct R. constructor; try assumption. reflexivity.
    - (* seek from start *)
      rewrite Hlen, Haoff.
      apply (seek_case s af fi f vi v ch _ _ R (file_seek_from_start_spec s h fi f x Hres)).
      intros n. apply spec_seek_start_ok.
    - rewrite Hlen, Haoff.
      apply (seek_case s af fi f vi v ch _ _ R (file_seek_from_end_spec s h fi f x Hres)).
      intros n. apply spec_seek_end_ok.
    - rewrite Hlen, Haoff.
      apply (seek_case s af fi f vi v ch _ _ R (file_seek_from_current_spec s h fi f z Hres)).
      intros n. apply spec_seek_cur_ok.
    - exists s. split; [|exists fi, f, vi, v, ch; exact R].
      rewrite (lift_ok' _ _ _ _ _ (C01_file_length s h fi f Hres)). rewrite Hlen. reflexivity.
    - exists s. split; [|exists fi, f, vi, v, ch; exact R].
      rewrite (lift_ok' _ _ _ _ _ (C01_file_offset s h fi f Hres)). rewrite Haoff. reflexivity.
    - exists s. split; [|exists fi, f, vi, v, ch; exact R].
      rewrite (lift_ok' _ _ _ _ _ (C01_file_eof s h fi f Hres)). rewrite Hlen, Haoff. reflexivity.
  Qed.

  (* ================================================================ the write *)
  Lemma file_rep_mw_pre s af fi f vi v ch : file_rep s af fi f vi v ch -> mw_pre fsz h s fi f vi v ch.
  Proof.
    intros [(R1 & R2 & R3) Hvol Hpre Hfit Hspc Hwf Hchain Hoff Hsize H32 Hmode Hbytes Haoff].
    constructor; assumption.
  Qed.

  Lemma file_rep_of_post s af fi f vi v ch stamped stored s' f' v' ch' :
    file_rep s af fi f vi v ch -> mw_post fsz h s fi f vi v ch stamped stored s' f' v' ch' ->
    file_rep s' (spec_write (fst af) (snd af) stored, snd af + N.of_nat (length stored)) fi f' vi v' ch'.
  Proof.
    intros R Q. pose proof R as [_ _ _ _ _ _ _ _ _ _ Hmode Hbytes Haoff].
    destruct Q as [[Hl Hh Hfi Hvol Hpre Hfit Hspc Hwf Hchain Hoff Hsize H32] F1 (nf & fc & ->) V2 X1 M1 B1 O1 Z1
                   (I1 & I2 & I3 & I4) E1 C1 Fl1 Fr1 Ot1 T1].
    constructor; try assumption.
    - repeat split; assumption.
    - rewrite I3. exact Hmode.
    - cbn [fst]. rewrite Hbytes, Haoff. symmetry. exact B1.
    - cbn [snd]. rewrite Haoff. symmetry. exact O1.
  Qed.

  (* the volume of the file has no free cluster left *)
  Definition file_inv_full (s : st) (af : afile) : Prop :=
    exists fi f vi v ch, file_rep s af fi f vi v ch /\ no_free (s_disk s) v.

  (* ================================================================ one operation *)
  (* Every operation returns what the model returns and re-establishes the invariant for the
     model's new state - except that a write may run out of clusters: then it reports
     DiskFull after storing a strict prefix of the (clipped) data, or NotEnoughSpace when the
     file had no cluster at all and nothing is stored; the invariant then holds for that
     partial result and the volume is full. *)
  Theorem C01_file_step a s af : file_inv s af ->
    exists o s', run_op (cop h a) s = (o, s') /\
      ((o = fst (astep w a af) /\ file_inv s' (snd (astep w a af))) \/
       (exists data, a = AWrite data /\ w = true /\
          ((o = Err DiskFull /\ exists k, (k < length (clip_write (snd af) data))%nat /\
              file_inv_full s' (spec_write (fst af) (snd af) (firstn k (clip_write (snd af) data)),
                                snd af + N.of_nat k)) \/
           (o = Err NotEnoughSpace /\ alen af = 0 /\ file_inv_full s' af)))).
  Proof.
    intros Hinv. destruct (is_write a) eqn:Ha.
    2:{ destruct (C01_file_step_ro a s af Ha Hinv) as (s' & Hrun & Hinv').
        exists (fst (astep w a af)), s'. split; [exact Hrun|]. left. split; [reflexivity|exact Hinv']. }
    destruct a as [n|data|x|x|z| | |]; try discriminate Ha. clear Ha.
    destruct Hinv as (fi & f & vi & v & ch & R).
    pose proof (file_rep_len _ _ _ _ _ _ _ R) as Hlen.
    pose proof (file_rep_mw_pre _ _ _ _ _ _ _ R) as Hmw.
    pose proof R as [(R1 & R2 & R3) Hvol Hpre Hfit Hspc Hwf Hchain Hoff Hsize H32 Hmode Hbytes Haoff].
    unfold run_op. cbn [cop step astep].
    destruct w eqn:Ew; cbn [negb] in Hmode.
    - (* opened for writing *)
      destruct (mgr_write_spec fsz h data s fi f vi v ch Hmw Hmode)
        as (o & s' & Hrun & [(-> & f' & v' & ch' & Q)|[(-> & f' & v' & ch' & k & Hk & Q & Hoffk & Hfull)
                                                     |(-> & Hc0 & Hnone & Hd & Hfiles & Hvols & Htab & Hpre')]]).
      + exists (Ok RUnit), s'. split; [exact (lift_ok' _ _ _ _ _ Hrun)|]. left. split; [reflexivity|].
        exists fi, f', vi, v', ch'. cbn [snd]. unfold clip_write. rewrite Haoff.
        pose proof (file_rep_of_post _ _ _ _ _ _ _ _ _ _ _ _ _ R Q) as R'. rewrite Haoff in R'. exact R'.
      + exists (Err DiskFull), s'. split; [exact (lift_err' _ _ _ _ _ Hrun)|]. right.
        exists data. split; [reflexivity|]. split; [reflexivity|]. left. split; [reflexivity|].
        unfold clip_write. rewrite Haoff. exists k. split; [exact Hk|].
        exists fi, f', vi, v', ch'. split.
        * pose proof (file_rep_of_post _ _ _ _ _ _ _ _ _ _ _ _ _ R Q) as R'.
          rewrite firstn_length in R'. rewrite Haoff in R'.
          replace (N.of_nat (Nat.min k (length (firstn (N.to_nat (N.min (N.of_nat (length data))
                     (MAX_FILE_SIZE - f_offset f))) data)))) with (N.of_nat k) in R' by (clear - Hk; lia).
          exact R'.
        * destruct (mp_vol _ _ _ _ _ _ _ _ _ _ _ _ _ _ Q) as (nf & fc & ->). exact Hfull.
      + exists (Err NotEnoughSpace), s'. split; [exact (lift_err' _ _ _ _ _ Hrun)|]. right.
        exists data. split; [reflexivity|]. split; [reflexivity|]. right. split; [reflexivity|].
        destruct Hchain as [(A1 & _)|(_ & -> & A3)]; [clear - A1 Hc0; lia|].
        split; [rewrite Hlen; cbn [length] in Hsize; clear - Hsize; lia|].
        exists fi, (set_f_dirty f true), vi, v, []. split; [|rewrite Hd; exact Hnone].
        destruct Hpre' as ((Hnf' & Hc' & _) & _).
        destruct Htab as (T1 & T2 & T3 & T4 & T5 & T6 & T7 & T8).
        apply (file_rep_upd s s' af af fi f _ vi v [] R); try assumption; try reflexivity;
          intros Hx; exact Hx.
    - (* opened ReadOnly *)
      exists (Err ReadOnlyErr), s. split.
      + apply lift_err'. apply (mgr_write_read_only h data s fi f vi R1 R2 R3 Hvol Hmode).
      + left. split; [reflexivity|]. exists fi, f, vi, v, ch. exact R.
  Qed.

  (* ================================================================ histories *)
  (* the results of a list of operations on the handle, and the final state *)
  Fixpoint run_ops (ops : list aop) (s : st) : list (outcome res) * st :=
    match ops with
    | [] => ([], s)
    | a :: r => let '(o, s1) := run_op (cop h a) s in
                let '(os, s2) := run_ops r s1 in (o :: os, s2)
    end.
  Fixpoint arun (ops : list aop) (af : afile) : list (outcome res) * afile :=
    match ops with
    | [] => ([], af)
    | a :: r => let '(o, af1) := astep w a af in
                let '(os, af2) := arun r af1 in (o :: os, af2)
    end.

  Definition space_err (o : outcome res) : bool :=
    match o with Err DiskFull | Err NotEnoughSpace => true | _ => false end.

  Lemma astep_no_space_err a af : space_err (fst (astep w a af)) = false.
  Proof.
    destruct a; cbn [astep]; try reflexivity.
    - destruct w; reflexivity.
    - destruct (spec_seek_start (alen af) (snd af) x); reflexivity.
    - destruct (spec_seek_end (alen af) (snd af) x); reflexivity.
    - destruct (spec_seek_cur (alen af) (snd af) z); reflexivity.
  Qed.

  (* C01 for one handle: for every finite sequence of reads, writes, seeks and queries on the
     handle - as long as the volume does not run out of clusters, i.e. no call reports DiskFull
     or NotEnoughSpace - every call returns exactly what the byte-array model returns (bytes
     read, length, offset, end-of-file flag, InvalidOffset / ReadOnly refusals), and the
     invariant holds at the end *)
  Theorem C01_file_history : forall ops s af, file_inv s af ->
    existsb space_err (fst (run_ops ops s)) = false ->
    fst (run_ops ops s) = fst (arun ops af) /\ file_inv (snd (run_ops ops s)) (snd (arun ops af)).
  Proof.
    induction ops as [|a r IH]; intros s af Hinv Hsp; [split; [reflexivity|exact Hinv]|].
    destruct (C01_file_step a s af Hinv) as (o & s1 & Hrun & Hres).
    cbn [run_ops arun] in *. rewrite Hrun in *.
    destruct (astep w a af) as [o' af1] eqn:Ea. cbn [fst snd] in *.
    destruct (run_ops r s1) as [os s2] eqn:Er. cbn [fst snd existsb] in Hsp.
    apply orb_false_iff in Hsp. destruct Hsp as [Hsp1 Hsp2].
    destruct Hres as [(-> & Hinv1)|(data & _ & _ & [(-> & _)|(-> & _)])]; try discriminate Hsp1.
    specialize (IH s1 af1 Hinv1). rewrite Er in IH. cbn [fst snd] in IH.
    destruct (IH Hsp2) as (E1 & E2).
    destruct (arun r af1) as [os' af2]. cbn [fst snd] in *.
    split; [f_equal; exact E1|exact E2].
  Qed.

  (* without writes there is no proviso *)
  Corollary C01_file_history_ro : forall ops s af,
    forallb (fun a => negb (is_write a)) ops = true -> file_inv s af ->
    fst (run_ops ops s) = fst (arun ops af) /\ file_inv (snd (run_ops ops s)) (snd (arun ops af)).
  Proof.
    induction ops as [|a r IH]; intros s af Hro Hinv; [split; [reflexivity|exact Hinv]|].
    cbn [forallb] in Hro. apply andb_true_iff in Hro. destruct Hro as [Ha Hr].
    apply negb_true_iff in Ha.
    destruct (C01_file_step_ro a s af Ha Hinv) as (s1 & Hrun & Hinv1).
    cbn [run_ops arun]. rewrite Hrun.
    destruct (astep w a af) as [o af1] eqn:Ea. cbn [fst snd] in *.
    destruct (IH s1 af1 Hr Hinv1) as (E1 & E2).
    destruct (run_ops r s1) as [os s2]. destruct (arun r af1) as [os' af2]. cbn [fst snd] in *.
    split; [f_equal; exact E1|exact E2].
  Qed.
End OneFile.

(* ================================================================== the hypotheses are satisfiable *)
(* PrRw's example file: 1500 bytes in clusters 2 -> 3 of the FAT16 example volume, open for
   writing with handle 7 at offset 700 *)
Definition exs_afile : afile := (firstn 1500 (file_bytes exd_disk exd_vol [2; 3]), 700).
Definition exs_ops : list aop :=
  [AWrite [1; 2; 3]; ASeekStart 700; ARead 3; AEof; ALen; ASeekEnd 0; AWrite (repeat 5 1000); AOff;
   ASeekCur (-1000); ARead 2; ASeekStart 5000; AEof].

Example file_seq_example :
  file_inv 1 true 7 exr_state exs_afile /\
  (* a history with in-place and extending writes, computed on both sides *)
  fst (run_ops 7 exs_ops exr_state) = fst (arun true exs_ops exs_afile) /\
  fst (arun true exs_ops exs_afile) =
    [Ok RUnit; Ok RUnit; Ok (RBytes [1; 2; 3]); Ok (RBool false); Ok (RNum 1500); Ok RUnit; Ok RUnit;
     Ok (RNum 2500); Ok RUnit; Ok (RBytes [5; 5]); Err InvalidOffset; Ok (RBool false)] /\
  existsb space_err (fst (run_ops 7 exs_ops exr_state)) = false.
Proof.
  split; [|split; [vm_compute; reflexivity|split; vm_compute; reflexivity]].
  exists 0%nat, exr_file, 0%nat, exd_vol, [2; 3].
  destruct write_example as ([Hl Hh Hfi Hvol Hpre Hfit Hspc Hwf Hchain Hoff Hsize H32] & _ & Hmode & _).
  constructor; try assumption; try reflexivity.
  repeat split; assumption.
Qed.

Print Assumptions C01_file_step_ro.
Print Assumptions C01_file_step.
Print Assumptions C01_file_history.
Print Assumptions C01_file_history_ro.
Print Assumptions file_seq_example.
