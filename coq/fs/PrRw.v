(* PROOFS about file data access in the layer-B model (C01): find_data_on_disk, one
   iteration of read_loop / write_loop, mgr_read.
   - SPEC side: file_bytes = the bytes of the clusters of the file's chain (chain_of follows
     the FAT as a reader of the specification would), the cursor invariant cursor_ok;
   - find_data_on_disk maps a byte offset of the file to the block of the chain that holds it
     and leaves a valid cursor (historic regression (ii)); at the very end of the chain it
     answers EndOfFile with the cursor ON THE LAST cluster;
   - one iteration of write_loop on an allocated position changes exactly the bytes
     [boff, boff + to_copy) of exactly that block (historic regression (i)), every other block
     of the device is untouched, hence the bytes of every file with a disjoint chain;
   - one iteration of read_loop, and mgr_read as a whole, return the corresponding slice of
     file_bytes and only read.
   Everything is for ALL inputs; no bounds. *)
From Coq Require Import NArith ZArith List Bool Lia Arith ZifyClasses ZifyInst Zify FMapPositive.
From SdFs Require Import FsTypes FsBase FsFat FsMgr FsLemmas PrBase PrAlloc PrDir.
Import ListNotations.
Open Scope N_scope.
Local Arguments N.mul : simpl never.
Local Arguments N.add : simpl never.
Local Arguments N.sub : simpl never.
Local Arguments N.div : simpl never.
Local Arguments N.modulo : simpl never.
Local Arguments N.land : simpl never.
Local Arguments N.min : simpl never.
Local Ltac Zify.zify_post_hook ::= Z.to_euclidean_division_equations.

(* ------------------------------------------------------------------ SPEC side *)
(* every block of the device has 512 bytes *)
Definition blocks_wf (d : disk) : Prop := forall i, length (disk_get d i) = 512%nat.

(* the bytes of one cluster: its v_spc blocks, in order *)
Definition cluster_bytes (d : disk) (v : vol) (c : N) : list N :=
  flat_map (disk_get d) (cluster_blocks v c).
(* the bytes held by the clusters of a chain: the contents of a file of size sz whose chain is
   ch are `firstn sz (file_bytes d v ch)` *)
Definition file_bytes (d : disk) (v : vol) (ch : list N) : list N :=
  flat_map (cluster_bytes d v) ch.

(* the same, as one concatenation of blocks *)
Lemma file_bytes_blocks d v ch :
  file_bytes d v ch = flat_map (disk_get d) (flat_map (cluster_blocks v) ch).
Proof.
  unfold file_bytes, cluster_bytes. induction ch as [|c ch IH]; [reflexivity|].
  cbn [flat_map]. rewrite flat_map_app, IH. reflexivity.
Qed.

(* the cursor invariant: the cached (offset, cluster) pair names the k-th cluster of the chain
   and the file offset at which that cluster starts *)
Definition cursor_ok (v : vol) (ch : list N) (cur : N * N) : Prop :=
  exists k : nat, fst cur = N.of_nat k * bytes_per_cluster v /\ nth_error ch k = Some (snd cur).

(* ------------------------------------------------------------------ arithmetic *)
Lemma div_sub_mul B d k : 0 < B -> k * B <= d -> (d - k * B) / B = d / B - k.
Proof.
  intros HB Hk.
  assert (Hle : k <= d / B) by (apply N.div_le_lower_bound; [lia|rewrite N.mul_comm; exact Hk]).
  pose proof (N.div_mod d B ltac:(lia)) as E. pose proof (N.mod_lt d B ltac:(lia)) as L.
  symmetry. apply N.div_unique with (r := d mod B); [exact L|].
  rewrite N.mul_sub_distr_l. rewrite (N.mul_comm B k).
  assert (k * B <= B * (d / B)) by (rewrite (N.mul_comm B); apply N.mul_le_mono_r; exact Hle).
  remember (B * (d / B)) as X. remember (k * B) as Y. lia.
Qed.

Lemma sub_div_mul B d : 0 < B -> d - d / B * B = d mod B.
Proof. intros HB. rewrite N.mod_eq by lia. rewrite (N.mul_comm B). reflexivity. Qed.

Lemma div_mul_le B d : 0 < B -> d / B * B <= d.
Proof. intros HB. rewrite N.mul_comm. apply N.mul_div_le. lia. Qed.

Lemma lt_div_mul_add B d : 0 < B -> d < d / B * B + B.
Proof.
  intros HB. pose proof (N.div_mod d B ltac:(lia)) as E. pose proof (N.mod_lt d B ltac:(lia)) as L.
  rewrite (N.mul_comm _ B). remember (B * (d / B)) as X. lia.
Qed.

Lemma div512_lt spc r : r < spc * 512 -> r / 512 < spc.
Proof. intros H. apply N.div_lt_upper_bound; [lia|]. rewrite N.mul_comm. exact H. Qed.

Lemma mod_bpc_mod512 spc d : 0 < spc -> (d mod (spc * 512)) mod 512 = d mod 512.
Proof.
  intros Hs. pose proof (N.div_mod d (spc * 512) ltac:(lia)) as E.
  rewrite (N.mul_comm spc 512), <- N.mul_assoc in E.
  remember (spc * (d / (512 * spc))) as X. remember (d mod (512 * spc)) as r.
  rewrite (N.mul_comm spc 512). rewrite <- Heqr. lia.
Qed.

Lemma of_nat_succ_mul k B : N.of_nat (S k) * B = N.of_nat k * B + B.
Proof. rewrite Nat2N.inj_succ, N.mul_succ_l. reflexivity. Qed.

Lemma of_nat_mul_le a b B : (a <= b)%nat -> N.of_nat a * B <= N.of_nat b * B.
Proof. intros H. apply N.mul_le_mono_r. lia. Qed.

(* ------------------------------------------------------------------ chains, link by link *)
Lemma chain_of_links d v : forall f c l, chain_of d v c f = Some l ->
  forall k ck, nth_error l k = Some ck ->
  2 <= ck /\ ck < v_clusters v + 2 /\
  match nth_error l (S k) with
  | Some c' => next_result v (fat_entry d v ck) = inl c'
  | None => next_result v (fat_entry d v ck) = inr EndOfFile
  end.
Proof.
  induction f as [|f IH]; intros c l H k ck Hk; [discriminate|].
  destruct (chain_of_head _ _ _ _ _ H) as (R1 & R2 & _).
  cbn [chain_of] in H.
  replace ((2 <=? c) && (c <? v_clusters v + 2)) with true in H
    by (symmetry; apply andb_true_iff; split; [apply N.leb_le|apply N.ltb_lt]; assumption).
  cbv zeta in H.
  destruct (fat_entry d v c =? fat_bad v) eqn:Hbad; [discriminate|].
  destruct (fat_eoc_min v <=? fat_entry d v c) eqn:Heoc.
  - inversion H; subst l. destruct k as [|k]; [|destruct k; discriminate].
    cbn in Hk. inversion Hk; subst ck. cbn [nth_error].
    split; [exact R1|]. split; [exact R2|]. apply next_result_end; assumption.
  - destruct (chain_of d v (fat_entry d v c) f) as [l0|] eqn:Hrest; [|discriminate].
    inversion H; subst l. destruct k as [|k].
    + cbn in Hk. inversion Hk; subst ck.
      destruct (chain_of_head _ _ _ _ _ Hrest) as (Q1 & _ & (l' & El)). subst l0.
      cbn [nth_error]. split; [exact R1|]. split; [exact R2|].
      apply next_result_link; assumption.
    + cbn [nth_error] in Hk. exact (IH _ _ Hrest k ck Hk).
Qed.

Lemma chain_of_first d v f c l : chain_of d v c f = Some l -> nth_error l 0 = Some c.
Proof. intros H. destruct (chain_of_head _ _ _ _ _ H) as (_ & _ & (l' & ->)). reflexivity. Qed.

Lemma ro_of s s' : s_disk s' = s_disk s -> cache_ok s' -> no_faults s' -> same_mgr s s' -> ro_step s s'.
Proof. intros H1 H2 H3 H4. split; [exact H1|]. split; [exact H2|]. split; [exact H3|exact H4]. Qed.

(* ------------------------------------------------------------------ monad and table helpers *)
Lemma bind_ret {A C} (a : A) (k : A -> M C) s : bind (ret a) k s = k a s.
Proof. reflexivity. Qed.

Lemma seq_assoc3 {A C} (a : M A) (b c : M unit) (k : M C) s :
  (a ;;; b ;;; c ;;; k) s = ((a ;;; b ;;; c) ;;; k) s.
Proof.
  unfold bind. destruct (a s) as [[x|e| |] s1]; try reflexivity.
  destruct (b s1) as [[y|e| |] s2]; try reflexivity.
Qed.

Definition upd_file (s : st) (fi : nat) (g : fileinfo) : st :=
  set_s_files s (list_set (s_files s) fi g).

Lemma put_file_ok fi g s : put_file fi g s = (Ok tt, upd_file s fi g).
Proof. reflexivity. Qed.

Lemma put_file_ok' {C} fi g (k : M C) s : (put_file fi g ;;; k) s = k (upd_file s fi g).
Proof. reflexivity. Qed.

Lemma get_file_some fi f s : nth_error (s_files s) fi = Some f -> get_file fi s = (Ok f, s).
Proof. intros H. unfold get_file, bind, get. rewrite H. reflexivity. Qed.

Lemma nth_error_list_set_same {A} (l : list A) : forall i x y,
  nth_error l i = Some x -> nth_error (list_set l i y) i = Some y.
Proof.
  induction l as [|a t IH]; intros [|i] x y H; cbn in *; try discriminate; [reflexivity|].
  eapply IH; eauto.
Qed.

Lemma list_set_twice {A} (l : list A) : forall i x y, list_set (list_set l i x) i y = list_set l i y.
Proof. induction l as [|a t IH]; intros [|i] x y; cbn; try reflexivity. rewrite IH. reflexivity. Qed.

Lemma list_set_same {A} (l : list A) : forall i x, nth_error l i = Some x -> list_set l i x = l.
Proof.
  induction l as [|a t IH]; intros [|i] x H; cbn in *; try discriminate.
  - inversion H. reflexivity.
  - rewrite (IH _ _ H). reflexivity.
Qed.

(* everything but the device-side fields and the open-file table is equal *)
Definition same_but_files (s s' : st) : Prop :=
  s_vols s' = s_vols s /\ s_dirs s' = s_dirs s /\
  s_next_id s' = s_next_id s /\ s_clock s' = s_clock s /\ s_lock s' = s_lock s /\
  s_maxv s' = s_maxv s /\ s_maxd s' = s_maxd s /\ s_maxf s' = s_maxf s /\
  s_faults s' = s_faults s.

Lemma sbf_refl s : same_but_files s s.
Proof. unfold same_but_files. repeat split; reflexivity. Qed.
Lemma sbf_of_same_mgr s s' : same_mgr s s' -> same_but_files s s'.
Proof.
  intros (A1 & A2 & A3 & A4 & A5 & A6 & A7 & A8 & A9 & A10). unfold same_but_files.
  repeat split; assumption.
Qed.
Lemma sbf_trans a b c : same_but_files a b -> same_but_files b c -> same_but_files a c.
Proof.
  unfold same_but_files.
  intros (A1 & A2 & A4 & A5 & A6 & A7 & A8 & A9 & A10) (B1 & B2 & B4 & B5 & B6 & B7 & B8 & B9 & B10).
  repeat split; congruence.
Qed.
Lemma sbf_upd s fi g : same_but_files s (upd_file s fi g).
Proof. unfold same_but_files, upd_file. cbn. repeat split; reflexivity. Qed.
Lemma same_mgr_files s s' : same_mgr s s' -> s_files s' = s_files s.
Proof. intros (_ & _ & E & _). exact E. Qed.

(* ------------------------------------------------------------------ one block of file data is written *)
(* the guard of the blank_mut shortcut: it is taken only for a write that covers the WHOLE
   block (historic regression (i): a block-aligned partial write zeroed the rest) *)
Lemma blank_guard boff to_copy bavail :
  bavail = 512 - boff -> (boff =? 0) && (to_copy =? bavail) = true -> boff = 0 /\ to_copy = 512.
Proof.
  intros -> H. apply andb_true_iff in H. destruct H as [H1 H2].
  apply N.eqb_eq in H1. apply N.eqb_eq in H2. subst boff. split; [reflexivity|exact H2].
Qed.

Lemma set_bytes_whole b l : length l = length b -> set_bytes b 0 l = l.
Proof.
  intros H. unfold set_bytes. cbn [N.to_nat firstn app Nat.add]. rewrite H, skipn_all. apply app_nil_r.
Qed.

Lemma blank_modify_write_spec i f s : no_faults s ->
  exists s', (blank_mut i ;;; cache_modify f ;;; write_back) s = (Ok tt, s') /\
    s_disk s' = disk_set (s_disk s) i (f zero_block) /\ s_tag s' = Some i /\
    cache_ok s' /\ no_faults s' /\ same_mgr s s'.
Proof.
  intros Hnf.
  set (s1 := set_s_cache (set_s_tag s (Some i)) zero_block).
  assert (Hb : blank_mut i s = (Ok tt, s1)) by reflexivity.
  rewrite (bind_ok _ _ _ _ _ Hb).
  set (s2 := set_s_cache s1 (f (s_cache s1))).
  assert (Hmod : cache_modify f s1 = (Ok tt, s2)) by reflexivity.
  rewrite (bind_ok _ _ _ _ _ Hmod).
  assert (Ht2 : s_tag s2 = Some i) by reflexivity.
  assert (Hnf2 : no_faults s2) by (apply (no_faults_step s); [reflexivity| cbn; lia | exact Hnf]).
  rewrite (write_back_ok i s2 Ht2 Hnf2).
  eexists. split; [reflexivity|]. subst s2 s1. cbn.
  split; [reflexivity|]. split; [reflexivity|].
  split.
  { intros j Hj. cbn in Hj. inversion Hj; subst. cbn. rewrite disk_get_set_same. reflexivity. }
  split.
  { intros n Hin. cbn in Hin. specialize (Hnf n Hin). cbn. lia. }
  unfold same_mgr. cbn. repeat split; reflexivity.
Qed.

Lemma rmw_shape i f s :
  ((_ <- cache_read i ;; ret tt) ;;; cache_modify f ;;; write_back) s =
  (_ <- cache_read i ;; cache_modify f ;;; write_back) s.
Proof. unfold bind. destruct (cache_read i s) as [[a|e| |] s1]; reflexivity. Qed.

(* the three statements of write_loop that touch the device, in BOTH branches: block blk
   becomes its old contents with the bytes [boff, boff + to_copy) replaced by the data *)
Theorem write_block_step blk boff (data : list N) s :
  no_faults s -> cache_ok s -> length (disk_get (s_disk s) blk) = 512%nat -> boff < 512 ->
  let to_copy := N.min (512 - boff) (N.of_nat (length data)) in
  let chunk := firstn (N.to_nat to_copy) data in
  exists s',
    ((if (boff =? 0) && (to_copy =? 512 - boff) then blank_mut blk
      else _ <- cache_read blk ;; ret tt) ;;;
     cache_modify (fun b => set_bytes b boff chunk) ;;; write_back) s = (Ok tt, s') /\
    s_disk s' = disk_set (s_disk s) blk (set_bytes (disk_get (s_disk s) blk) boff chunk) /\
    s_tag s' = Some blk /\ cache_ok s' /\ no_faults s' /\ same_mgr s s'.
Proof.
  intros Hnf Hc Hlen Hboff to_copy chunk.
  destruct ((boff =? 0) && (to_copy =? 512 - boff)) eqn:Hg.
  - destruct (blank_guard boff to_copy (512 - boff) eq_refl Hg) as (E0 & E512).
    destruct (blank_modify_write_spec blk (fun b => set_bytes b boff chunk) s Hnf)
      as (s' & Hrun & Hd & Ht & Hc' & Hnf' & Hm).
    exists s'. split; [exact Hrun|]. split; [|auto].
    rewrite Hd. f_equal. subst boff.
    assert (Hcl : length chunk = 512%nat).
    { unfold chunk. rewrite firstn_length. unfold to_copy in *. lia. }
    rewrite !set_bytes_whole; [reflexivity|rewrite Hcl, Hlen; reflexivity|].
    rewrite Hcl. unfold zero_block. rewrite repeat_length. reflexivity.
  - rewrite rmw_shape.
    destruct (rmw_spec blk (fun b => set_bytes b boff chunk) s Hnf Hc)
      as (s' & Hrun & Hd & Ht & _ & Hc' & Hnf' & Hm & _).
    exists s'. split; [exact Hrun|]. split; [exact Hd|]. auto.
Qed.

(* ------------------------------------------------------------------ which blocks hold a file *)
Lemma In_blocks_from n : forall i b, In b (blocks_from n i) ->
  exists k, (k < n)%nat /\ b = i + N.of_nat k.
Proof.
  induction n as [|n IH]; intros i b H; [destruct H|]. cbn [blocks_from] in H.
  destruct H as [<-|H].
  - exists 0%nat. split; [lia|]. cbn. lia.
  - destruct (IH _ _ H) as (k & Hk & ->). exists (S k). split; [lia|]. lia.
Qed.

Lemma In_cluster_blocks v c b : In b (cluster_blocks v c) ->
  exists k, k < v_spc v /\ b = cluster_first_block v c + k.
Proof.
  intros H. destruct (In_blocks_from _ _ _ H) as (k & Hk & ->).
  exists (N.of_nat k). split; [lia|reflexivity].
Qed.

(* blocks of different clusters are different blocks *)
Lemma cluster_blocks_apart v c1 c2 b1 b2 :
  c1 <> c2 -> 2 <= c1 -> 2 <= c2 ->
  In b1 (cluster_blocks v c1) -> In b2 (cluster_blocks v c2) -> b1 <> b2.
Proof.
  intros Hne H1 H2 I1 I2.
  destruct (In_cluster_blocks _ _ _ I1) as (k1 & K1 & ->).
  destruct (In_cluster_blocks _ _ _ I2) as (k2 & K2 & ->).
  pose proof (cluster_blocks_disjoint v c1 c2 k1 k2 Hne H1 H2 K1 K2) as Hd.
  unfold cluster_first_block.
  remember ((c1 - 2) * v_spc v) as X1. remember ((c2 - 2) * v_spc v) as X2. lia.
Qed.

Lemma flat_map_ext_in {A C} (f g : A -> list C) l :
  (forall x, In x l -> f x = g x) -> flat_map f l = flat_map g l.
Proof.
  induction l as [|a l IH]; intros H; [reflexivity|]. cbn [flat_map].
  rewrite (H a (or_introl eq_refl)), IH; [reflexivity|]. intros x Hx. apply H. right. exact Hx.
Qed.

(* the bytes of a chain depend only on the blocks of its clusters *)
Lemma file_bytes_frame d d' v ch :
  (forall c b, In c ch -> In b (cluster_blocks v c) -> disk_get d' b = disk_get d b) ->
  file_bytes d' v ch = file_bytes d v ch.
Proof.
  intros H. unfold file_bytes. apply flat_map_ext_in. intros c Hc.
  unfold cluster_bytes. apply flat_map_ext_in. intros b Hb. exact (H c b Hc Hb).
Qed.

(* a write into a block of cluster cj leaves alone the bytes of every chain that does not
   contain cj *)
Lemma file_bytes_other_chain d v cj blk nb ch' :
  2 <= cj -> In blk (cluster_blocks v cj) ->
  Forall (fun c => 2 <= c) ch' -> ~ In cj ch' ->
  file_bytes (disk_set d blk nb) v ch' = file_bytes d v ch'.
Proof.
  intros H2 Hblk Hr Hnot. apply file_bytes_frame. intros c b Hc Hb.
  apply disk_get_set_other.
  rewrite Forall_forall in Hr.
  apply (cluster_blocks_apart v cj c blk b); try assumption.
  - intros E. subst c. contradiction.
  - exact (Hr c Hc).
Qed.

Lemma In_blocks_from_intro n : forall i k, (k < n)%nat -> In (i + N.of_nat k) (blocks_from n i).
Proof.
  induction n as [|n IH]; intros i k Hk; [lia|]. cbn [blocks_from]. destruct k as [|k].
  - left. cbn. lia.
  - right. replace (i + N.of_nat (S k)) with (i + 1 + N.of_nat k) by lia. apply IH. lia.
Qed.

Lemma In_cluster_blocks_intro v c q : q < v_spc v -> In (cluster_first_block v c + q) (cluster_blocks v c).
Proof.
  intros Hq. unfold cluster_blocks.
  replace q with (N.of_nat (N.to_nat q)) by lia. apply In_blocks_from_intro. lia.
Qed.

(* the record of the file after one iteration of write_loop *)
Definition wr_file (f : fileinfo) (cur : N * N) (to_copy : N) : fileinfo :=
  let new_offset := f_offset f + to_copy in
  let e1 := if e_size (f_entry f) <? new_offset then set_e_size (f_entry f) new_offset
            else f_entry f in
  set_f_offset (set_f_entry (set_f_cur_cluster (set_f_cur_off f (fst cur)) (snd cur)) e1) new_offset.
Definition wr_to_copy (off : N) (data : list N) : N :=
  N.min (512 - off mod 512) (N.of_nat (length data)).

(* ------------------------------------------------------------------ locating a block inside file_bytes *)
Lemma nth_error_firstn_skipn {A} (l : list A) : forall i x,
  nth_error l i = Some x -> l = firstn i l ++ x :: skipn (S i) l.
Proof.
  induction l as [|a l IH]; intros [|i] x H; cbn in *; try discriminate.
  - inversion H. reflexivity.
  - f_equal. apply IH. exact H.
Qed.

Lemma flat_map_length_uniform {A} (g : A -> list N) m l :
  (forall x, length (g x) = m) -> length (flat_map g l) = (length l * m)%nat.
Proof.
  intros H. induction l as [|a l IH]; [reflexivity|]. cbn [flat_map length].
  rewrite app_length, H, IH. lia.
Qed.

Lemma blocks_from_length n : forall i, length (blocks_from n i) = n.
Proof. induction n as [|n IH]; intros i; [reflexivity|]. cbn [blocks_from length]. rewrite IH. reflexivity. Qed.

Lemma nth_error_blocks_from n : forall i k, (k < n)%nat ->
  nth_error (blocks_from n i) k = Some (i + N.of_nat k).
Proof.
  induction n as [|n IH]; intros i k Hk; [lia|]. cbn [blocks_from]. destruct k as [|k].
  - cbn. f_equal. lia.
  - cbn [nth_error]. rewrite IH by lia. f_equal. lia.
Qed.

Lemma cluster_bytes_length d v c : blocks_wf d ->
  length (cluster_bytes d v c) = (N.to_nat (v_spc v) * 512)%nat.
Proof.
  intros Hwf. unfold cluster_bytes. rewrite (flat_map_length_uniform _ 512%nat) by exact Hwf.
  unfold cluster_blocks. rewrite blocks_from_length. reflexivity.
Qed.

Lemma file_bytes_length d v ch : blocks_wf d ->
  length (file_bytes d v ch) = (length ch * (N.to_nat (v_spc v) * 512))%nat.
Proof.
  intros Hwf. unfold file_bytes. apply flat_map_length_uniform. intros c.
  apply cluster_bytes_length. exact Hwf.
Qed.

(* the bytes before / after block number q of the j-th cluster cj of the chain *)
Definition fb_prefix (d : disk) (v : vol) (ch : list N) (j : nat) (cj : N) (q : nat) : list N :=
  flat_map (cluster_bytes d v) (firstn j ch) ++ flat_map (disk_get d) (firstn q (cluster_blocks v cj)).
Definition fb_suffix (d : disk) (v : vol) (ch : list N) (j : nat) (cj : N) (q : nat) : list N :=
  flat_map (disk_get d) (skipn (S q) (cluster_blocks v cj)) ++ flat_map (cluster_bytes d v) (skipn (S j) ch).

Lemma file_bytes_locate d v ch j cj q :
  nth_error ch j = Some cj -> (q < N.to_nat (v_spc v))%nat ->
  file_bytes d v ch =
  fb_prefix d v ch j cj q ++ disk_get d (cluster_first_block v cj + N.of_nat q) ++ fb_suffix d v ch j cj q.
Proof.
  intros Hj Hq. unfold file_bytes at 1, fb_prefix, fb_suffix.
  rewrite (nth_error_firstn_skipn ch j cj Hj) at 1.
  rewrite flat_map_app. cbn [flat_map]. unfold cluster_bytes at 2.
  assert (Hb : nth_error (cluster_blocks v cj) q = Some (cluster_first_block v cj + N.of_nat q))
    by (apply nth_error_blocks_from; exact Hq).
  rewrite (nth_error_firstn_skipn _ q _ Hb) at 1.
  rewrite flat_map_app. cbn [flat_map]. rewrite <- !app_assoc. reflexivity.
Qed.

Lemma fb_prefix_length d v ch j cj q : blocks_wf d ->
  nth_error ch j = Some cj -> (q < N.to_nat (v_spc v))%nat ->
  length (fb_prefix d v ch j cj q) = (j * (N.to_nat (v_spc v) * 512) + q * 512)%nat.
Proof.
  intros Hwf Hj Hq. unfold fb_prefix. rewrite app_length.
  rewrite (flat_map_length_uniform _ (N.to_nat (v_spc v) * 512)%nat)
    by (intros c; apply cluster_bytes_length; exact Hwf).
  rewrite (flat_map_length_uniform _ 512%nat) by exact Hwf.
  rewrite !firstn_length. unfold cluster_blocks. rewrite blocks_from_length.
  assert (j < length ch)%nat by (apply nth_error_Some; congruence). lia.
Qed.

Lemma slice_middle (P old S : list N) boff n : (boff + n <= length old)%nat ->
  firstn n (skipn (length P + boff) (P ++ old ++ S)) = firstn n (skipn boff old).
Proof.
  intros H. rewrite skipn_app. rewrite skipn_all2 by lia.
  replace (length P + boff - length P)%nat with boff by lia. cbn [app].
  rewrite skipn_app. replace (boff - length old)%nat with 0%nat by lia. cbn [skipn].
  rewrite firstn_app. rewrite skipn_length.
  replace (n - (length old - boff))%nat with 0%nat by lia. cbn [firstn]. apply app_nil_r.
Qed.

Lemma firstn_add {A} (l : list A) : forall a b, firstn (a + b) l = firstn a l ++ firstn b (skipn a l).
Proof.
  induction l as [|x l IH]; intros [|a] b; cbn [Nat.add firstn skipn app]; try reflexivity.
  - destruct b; reflexivity.
  - rewrite IH. reflexivity.
Qed.

Lemma skipn_add {A} (l : list A) : forall a b, skipn b (skipn a l) = skipn (a + b) l.
Proof.
  induction l as [|x l IH]; intros [|a] b; cbn [Nat.add skipn]; try reflexivity.
  - destruct b; reflexivity.
  - apply IH.
Qed.

(* the fields of an open-file record that reading and seeking never change *)
Definition same_file_id (f f' : fileinfo) : Prop :=
  f_id f' = f_id f /\ f_vol f' = f_vol f /\ f_mode f' = f_mode f /\ f_entry f' = f_entry f /\
  f_dirty f' = f_dirty f.

(* ------------------------------------------------------------------ replacing bytes inside file_bytes *)
Lemma set_bytes_middle (P old S l : list N) off boff :
  N.to_nat off = (length P + N.to_nat boff)%nat -> (N.to_nat boff + length l <= length old)%nat ->
  set_bytes (P ++ old ++ S) off l = P ++ set_bytes old boff l ++ S.
Proof.
  intros E H. unfold set_bytes. rewrite E.
  rewrite firstn_app. rewrite firstn_all2 by lia.
  replace (length P + N.to_nat boff - length P)%nat with (N.to_nat boff) by lia.
  rewrite firstn_app. replace (N.to_nat boff - length old)%nat with 0%nat by lia.
  cbn [firstn]. rewrite app_nil_r.
  rewrite skipn_app. rewrite skipn_all2 by lia.
  replace (length P + N.to_nat boff + length l - length P)%nat with (N.to_nat boff + length l)%nat by lia.
  cbn [app]. rewrite skipn_app.
  replace (N.to_nat boff + length l - length old)%nat with 0%nat by lia. cbn [skipn].
  rewrite <- !app_assoc. reflexivity.
Qed.

Lemma firstn_blocks_from : forall q n i, (q <= n)%nat -> firstn q (blocks_from n i) = blocks_from q i.
Proof.
  induction q as [|q IH]; intros n i H; [reflexivity|]. destruct n as [|n]; [lia|].
  cbn [blocks_from firstn]. rewrite IH by lia. reflexivity.
Qed.

Lemma skipn_blocks_from : forall q n i, skipn q (blocks_from n i) = blocks_from (n - q) (i + N.of_nat q).
Proof.
  induction q as [|q IH]; intros n i.
  - cbn [skipn]. rewrite Nat.sub_0_r. f_equal. cbn. lia.
  - destruct n as [|n]; [reflexivity|]. cbn [blocks_from skipn]. rewrite IH. cbn [Nat.sub]. f_equal. lia.
Qed.

Lemma blocks_wf_set d i b : blocks_wf d -> length b = 512%nat -> blocks_wf (disk_set d i b).
Proof.
  intros H Hb j. destruct (N.eq_dec i j) as [<-|Hne].
  - rewrite disk_get_set_same. exact Hb.
  - rewrite disk_get_set_other by exact Hne. apply H.
Qed.

(* the bytes around block q of cluster cj do not depend on that block *)
Lemma fb_around_frame d d' v ch j cj q :
  NoDup ch -> Forall (fun c => 2 <= c) ch -> nth_error ch j = Some cj ->
  (q < N.to_nat (v_spc v))%nat ->
  (forall b, b <> cluster_first_block v cj + N.of_nat q -> disk_get d' b = disk_get d b) ->
  fb_prefix d' v ch j cj q = fb_prefix d v ch j cj q /\
  fb_suffix d' v ch j cj q = fb_suffix d v ch j cj q.
Proof.
  intros Hnd Hr Hj Hq Hfr.
  assert (Hcj2 : 2 <= cj) by (rewrite Forall_forall in Hr; apply Hr; eapply nth_error_In; exact Hj).
  assert (Hblk : In (cluster_first_block v cj + N.of_nat q) (cluster_blocks v cj))
    by (apply In_blocks_from_intro; exact Hq).
  pose proof (nth_error_firstn_skipn ch j cj Hj) as Esplit.
  assert (Hnot : ~ In cj (firstn j ch ++ skipn (S j) ch))
    by (apply NoDup_remove_2; rewrite <- Esplit; exact Hnd).
  assert (Hother : forall c, In c ch -> c <> cj -> cluster_bytes d' v c = cluster_bytes d v c).
  { intros c Hc Hne. unfold cluster_bytes. apply flat_map_ext_in. intros b Hb. apply Hfr.
    rewrite Forall_forall in Hr.
    intros E. subst b.
    exact (cluster_blocks_apart v c cj _ _ Hne (Hr c Hc) Hcj2 Hb Hblk eq_refl). }
  unfold fb_prefix, fb_suffix. split; f_equal.
  - apply flat_map_ext_in. intros c Hc. apply Hother.
    + rewrite Esplit. apply in_or_app. left. exact Hc.
    + intros E. subst c. apply Hnot. apply in_or_app. left. exact Hc.
  - apply flat_map_ext_in. intros b Hb. apply Hfr.
    unfold cluster_blocks in Hb. rewrite firstn_blocks_from in Hb by lia.
    destruct (In_blocks_from _ _ _ Hb) as (k & Hk & ->). lia.
  - apply flat_map_ext_in. intros b Hb. apply Hfr.
    unfold cluster_blocks in Hb. rewrite skipn_blocks_from in Hb.
    destruct (In_blocks_from _ _ _ Hb) as (k & Hk & ->). lia.
  - apply flat_map_ext_in. intros c Hc. apply Hother.
    + rewrite Esplit. apply in_or_app. right. right. exact Hc.
    + intros E. subst c. apply Hnot. apply in_or_app. right. exact Hc.
Qed.

(* chains depend only on the FAT entries *)
Lemma chain_of_frame d d' v : (forall c, c < v_clusters v + 2 -> fat_entry d' v c = fat_entry d v c) ->
  forall f c, chain_of d' v c f = chain_of d v c f.
Proof.
  intros H. induction f as [|f IH]; intros c; [reflexivity|]. cbn [chain_of].
  destruct ((2 <=? c) && (c <? v_clusters v + 2)) eqn:Hr; [|reflexivity].
  apply andb_true_iff in Hr. destruct Hr as [_ Hr]. apply N.ltb_lt in Hr.
  cbv zeta. rewrite (H c Hr). rewrite IH. reflexivity.
Qed.

(* the sectors of the first FAT copy lie before the data area *)
Definition fat_below_data (v : vol) : Prop :=
  forall c, c < v_clusters v + 2 -> v_fat_start v + (c * fat_w v) / 512 < v_first_data v.

Lemma chain_of_data_write d v cj q nb : fat_below_data v -> 2 <= cj ->
  forall f c, chain_of (disk_set d (cluster_first_block v cj + q) nb) v c f = chain_of d v c f.
Proof.
  intros Hfb H2. apply chain_of_frame. intros c Hc. unfold fat_entry.
  rewrite disk_get_set_other; [reflexivity|].
  specialize (Hfb c Hc). unfold cluster_first_block.
  remember ((cj - 2) * v_spc v) as X. remember (c * fat_w v / 512) as Y. lia.
Qed.

(* ================================================================== the chain of one file *)
Section Chain.
  Variable v : vol.
  Variable D : disk.
  Variable first : N.
  Variable fuel0 : nat.
  Variable ch : list N.
  Hypothesis Hv : vol_ok v.
  Hypothesis Hspc : 0 < v_spc v.
  Hypothesis Hch : chain_of D v first fuel0 = Some ch.

  Let B := bytes_per_cluster v.

  Lemma B_pos : 0 < B.
  Proof. unfold B, bytes_per_cluster. lia. Qed.

  Lemma cursor_ok_first : cursor_ok v ch (0, first).
  Proof. exists 0%nat. split; [reflexivity|]. exact (chain_of_first _ _ _ _ _ Hch). Qed.

  (* ---------------------------------------------------------------- the FAT walk *)
  (* n steps from the k-th cluster, staying inside the chain *)
  Lemma fdod_walk_in : forall n k so sc s,
    s_disk s = D -> no_faults s -> cache_ok s ->
    nth_error ch k = Some sc -> so = N.of_nat k * B ->
    (k + n < length ch)%nat -> N.of_nat (k + n) * B < U32 ->
    exists c' s', nth_error ch (k + n) = Some c' /\
      fdod_walk n v so sc s = (Ok ((N.of_nat (k + n) * B, c'), None), s') /\ ro_step s s'.
  Proof.
    induction n as [|n IH]; intros k so sc s Hd Hnf Hc Hk Hso Hlen Hfit.
    - exists sc, s. rewrite Nat.add_0_r. split; [exact Hk|]. split; [|apply ro_refl; assumption].
      cbn [fdod_walk]. subst so. reflexivity.
    - cbn [fdod_walk].
      destruct (chain_of_links _ _ _ _ _ Hch k sc Hk) as (R1 & R2 & Hl).
      destruct (next_cluster_reads v sc s Hv R2 Hnf Hc) as (s1 & Hnc & Hd1 & Hc1 & Hnf1 & Hm1).
      rewrite (bind_ok _ _ _ _ _ Hnc). rewrite Hd.
      destruct (nth_error ch (S k)) as [c1|] eqn:Hk1.
      2:{ apply nth_error_None in Hk1. lia. }
      rewrite Hl.
      assert (Hadd : so + B = N.of_nat (S k) * B) by (rewrite of_nat_succ_mul; subst so; reflexivity).
      assert (Hle : N.of_nat (S k) * B <= N.of_nat (k + S n) * B) by (apply of_nat_mul_le; lia).
      fold B. rewrite (bind_ok _ _ _ _ _ (add32_ok so B s1 ltac:(rewrite Hadd; lia))).
      destruct (IH (S k) (so + B) c1 s1 ltac:(congruence) Hnf1 Hc1 Hk1 Hadd ltac:(lia)
                  ltac:(replace (S k + n)%nat with (k + S n)%nat by lia; exact Hfit))
        as (c' & s2 & Hn & Hrun & Hro).
      replace (S k + n)%nat with (k + S n)%nat in * by lia.
      exists c', s2. split; [exact Hn|]. split; [exact Hrun|].
      exact (ro_trans _ _ _ (ro_of _ _ Hd1 Hc1 Hnf1 Hm1) Hro).
  Qed.

  (* n steps from the k-th cluster that run past the end of the chain: the walk stops with
     EndOfFile and the cursor on the LAST cluster *)
  Lemma fdod_walk_end : forall n k so sc s,
    s_disk s = D -> no_faults s -> cache_ok s ->
    nth_error ch k = Some sc -> so = N.of_nat k * B ->
    (length ch <= k + n)%nat -> N.of_nat (length ch - 1) * B < U32 ->
    exists cl s', nth_error ch (length ch - 1) = Some cl /\
      fdod_walk n v so sc s = (Ok ((N.of_nat (length ch - 1) * B, cl), Some EndOfFile), s') /\
      ro_step s s'.
  Proof.
    induction n as [|n IH]; intros k so sc s Hd Hnf Hc Hk Hso Hlen Hfit.
    - assert (k < length ch)%nat by (apply nth_error_Some; congruence). lia.
    - cbn [fdod_walk].
      assert (Hkl : (k < length ch)%nat) by (apply nth_error_Some; congruence).
      destruct (chain_of_links _ _ _ _ _ Hch k sc Hk) as (R1 & R2 & Hl).
      destruct (next_cluster_reads v sc s Hv R2 Hnf Hc) as (s1 & Hnc & Hd1 & Hc1 & Hnf1 & Hm1).
      rewrite (bind_ok _ _ _ _ _ Hnc). rewrite Hd.
      destruct (nth_error ch (S k)) as [c1|] eqn:Hk1.
      + rewrite Hl.
        assert (Hk1l : (S k < length ch)%nat) by (apply nth_error_Some; congruence).
        assert (Hadd : so + B = N.of_nat (S k) * B) by (rewrite of_nat_succ_mul; subst so; reflexivity).
        assert (Hle : N.of_nat (S k) * B <= N.of_nat (length ch - 1) * B) by (apply of_nat_mul_le; lia).
        fold B. rewrite (bind_ok _ _ _ _ _ (add32_ok so B s1 ltac:(rewrite Hadd; lia))).
        destruct (IH (S k) (so + B) c1 s1 ltac:(congruence) Hnf1 Hc1 Hk1 Hadd ltac:(lia) Hfit)
          as (cl & s2 & Hn & Hrun & Hro).
        exists cl, s2. split; [exact Hn|]. split; [exact Hrun|].
        exact (ro_trans _ _ _ (ro_of _ _ Hd1 Hc1 Hnf1 Hm1) Hro).
      + rewrite Hl. apply nth_error_None in Hk1.
        assert (Ek : k = (length ch - 1)%nat) by lia.
        exists sc, s1. rewrite <- Ek. split; [exact Hk|]. split; [|exact (ro_of _ _ Hd1 Hc1 Hnf1 Hm1)].
        subst so. reflexivity.
  Qed.

  (* ---------------------------------------------------------------- find_data_on_disk *)
  (* the effective starting point of the walk *)
  Lemma fdod_unfold vi start desired s :
    nth_error (s_vols s) vi = Some v ->
    find_data_on_disk vi start first desired s =
    (let '(so, sc) := if desired <? fst start then (0, first) else start in
     '(st', oe) <- fdod_walk (N.to_nat ((desired - so) / B)) v so sc ;;
     match oe with
     | Some e => ret (st', inr e)
     | None =>
         let '(so', sc') := st' in
         ofc <- sub32 desired so' ;;
         if negb (ofc <? B) then panic else
         cb <- cluster_to_block v sc' ;;
         blk <- add32 cb (ofc / 512) ;;
         ret (st', inl (blk, desired mod 512, 512 - desired mod 512))
     end) s.
  Proof.
    intros Hvi. unfold find_data_on_disk. rewrite (bind_ok _ _ _ _ _ (get_vol_some vi v s Hvi)).
    cbv zeta. fold B.
    assert (E : (B =? 0) = false) by (apply N.eqb_neq; pose proof B_pos; lia).
    destruct (if desired <? fst start then (0, first) else start) as [so sc].
    rewrite E. reflexivity.
  Qed.

  Lemma eff_start start desired :
    cursor_ok v ch start \/ desired < fst start ->
    exists k so sc, (if desired <? fst start then (0, first) else start) = (so, sc) /\
      nth_error ch k = Some sc /\ so = N.of_nat k * B /\ so <= desired.
  Proof.
    intros H. destruct (desired <? fst start) eqn:E.
    - exists 0%nat, 0, first. split; [reflexivity|]. split; [exact (chain_of_first _ _ _ _ _ Hch)|].
      split; [reflexivity|lia].
    - apply N.ltb_ge in E. destruct H as [(k & H1 & H2)|H]; [|lia].
      exists k, (fst start), (snd start). split; [destruct start; reflexivity|].
      split; [exact H2|]. split; [exact H1|exact E].
  Qed.

  (* 2a. an offset inside the chain: the block holding it, the offset in the block, the room
     left in the block; the new cursor is the cluster holding the offset; only reads *)
  Theorem find_data_on_disk_spec vi start desired s :
    nth_error (s_vols s) vi = Some v -> s_disk s = D -> no_faults s -> cache_ok s ->
    cursor_ok v ch start \/ desired < fst start ->
    desired < N.of_nat (length ch) * B -> desired < U32 ->
    exists cj s',
      nth_error ch (N.to_nat (desired / B)) = Some cj /\
      find_data_on_disk vi start first desired s =
        (Ok ((desired / B * B, cj),
             inl (cluster_first_block v cj + (desired mod B) / 512, desired mod 512,
                  512 - desired mod 512)), s') /\
      ro_step s s'.
  Proof.
    intros Hvi Hd Hnf Hc Hcur Hin H32.
    rewrite (fdod_unfold vi start desired s Hvi).
    destruct (eff_start start desired Hcur) as (k & so & sc & -> & Hk & Hso & Hle).
    pose proof B_pos as HB.
    assert (Hdiv : (desired - so) / B = desired / B - N.of_nat k)
      by (subst so; apply div_sub_mul; assumption).
    assert (Hkj : N.of_nat k <= desired / B)
      by (apply N.div_le_lower_bound; [lia|rewrite N.mul_comm; subst so; exact Hle]).
    assert (Hjlen : desired / B < N.of_nat (length ch)).
    { apply N.div_lt_upper_bound; [lia|]. rewrite N.mul_comm. exact Hin. }
    set (n := N.to_nat ((desired - so) / B)).
    assert (Ekn : (k + n)%nat = N.to_nat (desired / B)) by (unfold n; rewrite Hdiv; lia).
    assert (Eof : N.of_nat (k + n) = desired / B) by (rewrite Ekn; lia).
    pose proof (div_mul_le B desired HB) as Hjle.
    destruct (fdod_walk_in n k so sc s Hd Hnf Hc Hk Hso ltac:(lia) ltac:(rewrite Eof; lia))
      as (cj & s1 & Hn & Hrun & Hro).
    rewrite Ekn in Hn. rewrite Eof in Hrun.
    exists cj, s1. split; [exact Hn|]. split; [|exact Hro].
    cbv beta iota. rewrite (bind_ok _ _ _ _ _ Hrun). cbv beta iota.
    rewrite (bind_ok _ _ _ _ _ (sub32_ok desired (desired / B * B) s1 Hjle)).
    rewrite (sub_div_mul B desired HB).
    pose proof (N.mod_lt desired B ltac:(lia)) as Hmod.
    replace (desired mod B <? B) with true by (symmetry; apply N.ltb_lt; exact Hmod).
    cbn [negb].
    assert (Hn0 : nth_error ch (N.to_nat (desired / B)) = Some cj) by exact Hn.
    destruct (chain_of_links _ _ _ _ _ Hch _ cj Hn0) as (R1 & R2 & _).
    destruct (cluster_block_ok v cj s1 Hv R1 R2) as (Hcb & Hcfit).
    rewrite (bind_ok _ _ _ _ _ Hcb).
    assert (Hq : (desired mod B) / 512 < v_spc v) by (apply div512_lt; exact Hmod).
    assert (Hsum : cluster_first_block v cj + (desired mod B) / 512 < U32) by lia.
    rewrite (bind_ok _ _ _ _ _ (add32_ok _ _ s1 Hsum)).
    reflexivity.
  Qed.

  (* the cursor left by a successful lookup is valid and brackets the offset *)
  Corollary find_data_cursor desired cj :
    nth_error ch (N.to_nat (desired / B)) = Some cj ->
    cursor_ok v ch (desired / B * B, cj) /\
    desired / B * B <= desired /\ desired < desired / B * B + B.
  Proof.
    intros Hn. pose proof B_pos as HB. split.
    - exists (N.to_nat (desired / B)). cbn [fst snd]. rewrite N2Nat.id. split; [reflexivity|exact Hn].
    - split; [apply div_mul_le; exact HB|apply lt_div_mul_add; exact HB].
  Qed.

  (* 2b. the offset just past the last cluster: EndOfFile, and the cursor is left ON THE LAST
     cluster of the chain (the extending write links the new cluster after `snd start'`) *)
  Theorem find_data_on_disk_eof vi start desired s :
    nth_error (s_vols s) vi = Some v -> s_disk s = D -> no_faults s -> cache_ok s ->
    cursor_ok v ch start \/ desired < fst start ->
    desired = N.of_nat (length ch) * B -> desired < U32 ->
    exists cl s',
      nth_error ch (length ch - 1) = Some cl /\
      find_data_on_disk vi start first desired s =
        (Ok ((N.of_nat (length ch - 1) * B, cl), inr EndOfFile), s') /\
      ro_step s s'.
  Proof.
    intros Hvi Hd Hnf Hc Hcur Hdes H32.
    rewrite (fdod_unfold vi start desired s Hvi).
    destruct (eff_start start desired Hcur) as (k & so & sc & -> & Hk & Hso & Hle).
    pose proof B_pos as HB.
    assert (Hkl : (k < length ch)%nat) by (apply nth_error_Some; congruence).
    assert (Hdiv : (desired - so) / B = N.of_nat (length ch) - N.of_nat k).
    { subst so. rewrite div_sub_mul by assumption. subst desired. rewrite N.div_mul by lia. reflexivity. }
    set (n := N.to_nat ((desired - so) / B)).
    assert (Ekn : (k + n)%nat = length ch) by (unfold n; rewrite Hdiv; lia).
    assert (Hlast : N.of_nat (length ch - 1) * B < U32).
    { assert (N.of_nat (length ch - 1) * B <= N.of_nat (length ch) * B) by (apply of_nat_mul_le; lia). lia. }
    destruct (fdod_walk_end n k so sc s Hd Hnf Hc Hk Hso ltac:(lia) Hlast)
      as (cl & s1 & Hn & Hrun & Hro).
    exists cl, s1. split; [exact Hn|]. split; [|exact Hro].
    cbv beta iota. rewrite (bind_ok _ _ _ _ _ Hrun). reflexivity.
  Qed.

  Corollary find_data_eof_cursor cl :
    nth_error ch (length ch - 1) = Some cl -> cursor_ok v ch (N.of_nat (length ch - 1) * B, cl).
  Proof. intros H. exists (length ch - 1)%nat. split; [reflexivity|exact H]. Qed.

  (* ---------------------------------------------------------------- one iteration of write_loop *)
  (* 4. on an allocated position (no extension): the iteration writes exactly one block, the
     one find_data_on_disk names; its new contents are the old contents with the bytes
     [boff, boff + to_copy) replaced by the data, in both branches; the file record gets the
     new offset, size and a valid cursor; the loop continues with the rest of the data *)
  Theorem write_one_chunk_in_place fu fi vi f data s :
    nth_error (s_vols s) vi = Some v -> nth_error (s_files s) fi = Some f ->
    s_disk s = D -> no_faults s -> cache_ok s -> blocks_wf D ->
    e_cluster (f_entry f) = first ->
    cursor_ok v ch (f_cur_off f, f_cur_cluster f) \/ f_offset f < f_cur_off f ->
    f_offset f < N.of_nat (length ch) * B -> f_offset f < U32 -> data <> [] ->
    exists cj s',
      nth_error ch (N.to_nat (f_offset f / B)) = Some cj /\
      write_loop (S fu) fi vi data s =
        write_loop fu fi vi (skipn (N.to_nat (wr_to_copy (f_offset f) data)) data) s' /\
      s_disk s' = disk_set D (cluster_first_block v cj + (f_offset f mod B) / 512)
                    (set_bytes (disk_get D (cluster_first_block v cj + (f_offset f mod B) / 512))
                               (f_offset f mod 512)
                               (firstn (N.to_nat (wr_to_copy (f_offset f) data)) data)) /\
      s_files s' = list_set (s_files s) fi
                     (wr_file f (f_offset f / B * B, cj) (wr_to_copy (f_offset f) data)) /\
      cache_ok s' /\ no_faults s' /\ same_but_files s s'.
  Proof.
    intros Hvi Hfi Hd Hnf Hc Hwf Hfirst Hcur Hin H32 Hdata.
    destruct (find_data_on_disk_spec vi (f_cur_off f, f_cur_cluster f) (f_offset f) s
                Hvi Hd Hnf Hc Hcur Hin H32) as (cj & s1 & Hn & Hrun & Hro).
    destruct Hro as (Hd1 & Hc1 & Hnf1 & Hm1).
    exists cj.
    set (off := f_offset f) in *.
    set (blk := cluster_first_block v cj + (off mod B) / 512).
    destruct (write_block_step blk (off mod 512) data s1 Hnf1 Hc1
                ltac:(rewrite Hd1, Hd; apply Hwf) ltac:(lia))
      as (s2 & Hw & Hd2 & _ & Hc2 & Hnf2 & Hm2).
    cbv zeta in Hw, Hd2. fold (wr_to_copy off data) in Hw, Hd2.
    exists (upd_file s2 fi (wr_file f (off / B * B, cj) (wr_to_copy off data))).
    split; [exact Hn|].
    assert (Hfiles2 : s_files s2 = s_files s)
      by (rewrite (same_mgr_files _ _ Hm2), (same_mgr_files _ _ Hm1); reflexivity).
    split.
    { destruct data as [|x t]; [congruence|].
      cbn [write_loop].
      set (data := x :: t) in *.
      rewrite (bind_ok _ _ _ _ _ (get_file_some fi f s Hfi)).
      rewrite Hfirst. fold off. rewrite (bind_ok _ _ _ _ _ Hrun).
      cbv beta iota. rewrite bind_ret. cbv beta iota zeta.
      fold (wr_to_copy off data). fold blk.
      rewrite seq_assoc3. rewrite (bind_ok _ _ _ _ _ Hw).
      rewrite (bind_ok _ _ _ _ _ (get_file_some fi f s2 ltac:(rewrite Hfiles2; exact Hfi))).
      fold off. rewrite put_file_ok'. reflexivity. }
    split; [cbn; rewrite Hd2, Hd1, Hd; reflexivity|].
    split; [cbn; rewrite Hfiles2; reflexivity|].
    split; [exact Hc2|]. split; [exact Hnf2|].
    apply (sbf_trans _ s2); [|apply sbf_upd].
    apply (sbf_trans _ s1); apply sbf_of_same_mgr; assumption.
  Qed.

  (* "writing to one file never changes what any other file reads back", one step: the bytes
     of every chain whose blocks are not blocks of this file - in particular every chain of
     the same volume that shares no cluster with it - are the same after the iteration *)
  Theorem C01_isolation_step fu fi vi f data s :
    nth_error (s_vols s) vi = Some v -> nth_error (s_files s) fi = Some f ->
    s_disk s = D -> no_faults s -> cache_ok s -> blocks_wf D ->
    e_cluster (f_entry f) = first ->
    cursor_ok v ch (f_cur_off f, f_cur_cluster f) \/ f_offset f < f_cur_off f ->
    f_offset f < N.of_nat (length ch) * B -> f_offset f < U32 -> data <> [] ->
    exists s',
      write_loop (S fu) fi vi data s =
        write_loop fu fi vi (skipn (N.to_nat (wr_to_copy (f_offset f) data)) data) s' /\
      (forall j, ~ In j (flat_map (cluster_blocks v) ch) ->
         disk_get (s_disk s') j = disk_get D j) /\
      (forall v' ch',
         (forall c b, In c ch' -> In b (cluster_blocks v' c) -> ~ In b (flat_map (cluster_blocks v) ch)) ->
         file_bytes (s_disk s') v' ch' = file_bytes D v' ch') /\
      (forall ch', Forall (fun c => 2 <= c) ch' -> (forall c, In c ch -> ~ In c ch') ->
         file_bytes (s_disk s') v ch' = file_bytes D v ch').
  Proof.
    intros Hvi Hfi Hd Hnf Hc Hwf Hfirst Hcur Hin H32 Hdata.
    destruct (write_one_chunk_in_place fu fi vi f data s Hvi Hfi Hd Hnf Hc Hwf Hfirst Hcur Hin H32 Hdata)
      as (cj & s' & Hn & Hrun & Hd' & _).
    exists s'. split; [exact Hrun|].
    pose proof B_pos as HB.
    assert (Hq : (f_offset f mod B) / 512 < v_spc v)
      by (apply div512_lt; apply N.mod_lt; lia).
    assert (Hcj : In cj ch) by (eapply nth_error_In; exact Hn).
    assert (Hblk : In (cluster_first_block v cj + (f_offset f mod B) / 512) (cluster_blocks v cj))
      by (apply In_cluster_blocks_intro; exact Hq).
    assert (Hblk' : In (cluster_first_block v cj + (f_offset f mod B) / 512)
                       (flat_map (cluster_blocks v) ch))
      by (apply in_flat_map; exists cj; split; assumption).
    destruct (chain_of_links _ _ _ _ _ Hch _ cj Hn) as (R1 & _ & _).
    rewrite Hd'. split; [|split].
    - intros j Hj. apply disk_get_set_other. intros E. subst j. contradiction.
    - intros v' ch' Hdis. apply file_bytes_frame. intros c b Hc' Hb.
      apply disk_get_set_other. intros E. subst b. exact (Hdis c _ Hc' Hb Hblk').
    - intros ch' Hr Hdis. apply (file_bytes_other_chain D v cj); try assumption.
      apply Hdis. exact Hcj.
  Qed.

  (* ---------------------------------------------------------------- one iteration of read_loop *)
  Lemma offset_split off :
    N.to_nat off = (N.to_nat (off / B) * (N.to_nat (v_spc v) * 512)
                    + N.to_nat ((off mod B) / 512) * 512 + N.to_nat (off mod 512))%nat.
  Proof.
    pose proof B_pos as HB.
    assert (E : off = off / B * (v_spc v * 512) + (off mod B) / 512 * 512 + off mod 512).
    { pose proof (N.div_mod off B ltac:(lia)) as E1.
      pose proof (N.div_mod (off mod B) 512 ltac:(lia)) as E2.
      pose proof (mod_bpc_mod512 (v_spc v) off Hspc) as E3.
      fold (bytes_per_cluster v) in E3. fold B in E3. rewrite E3 in E2.
      fold (bytes_per_cluster v). fold B.
      rewrite (N.mul_comm (off / B) B). rewrite (N.mul_comm _ 512).
      remember (B * (off / B)) as X. remember (512 * (off mod B / 512)) as Y. lia. }
    rewrite E at 1. rewrite !N2Nat.inj_add, !N2Nat.inj_mul. reflexivity.
  Qed.

  (* the bytes of block (off mod B)/512 of the cluster holding offset off, from off mod 512
     on, are the bytes of the file from off on *)
  Lemma file_bytes_slice off cj n : blocks_wf D ->
    nth_error ch (N.to_nat (off / B)) = Some cj -> n <= 512 - off mod 512 ->
    slice (disk_get D (cluster_first_block v cj + (off mod B) / 512)) (off mod 512) n =
    firstn (N.to_nat n) (skipn (N.to_nat off) (file_bytes D v ch)).
  Proof.
    intros Hwf Hn Hle. pose proof B_pos as HB.
    assert (Hq : (off mod B) / 512 < v_spc v) by (apply div512_lt; apply N.mod_lt; lia).
    assert (Hq' : (N.to_nat ((off mod B) / 512) < N.to_nat (v_spc v))%nat) by lia.
    rewrite (file_bytes_locate D v ch _ cj _ Hn Hq'). rewrite N2Nat.id.
    rewrite (offset_split off).
    rewrite <- (fb_prefix_length D v ch _ cj _ Hwf Hn Hq').
    rewrite slice_middle by (rewrite Hwf; lia).
    reflexivity.
  Qed.

  (* 3a. one iteration of read_loop: min(avail, space, left) bytes, the corresponding slice of
     file_bytes, are appended; the offset advances by that amount; the cursor is valid; the
     disk is only read *)
  Theorem read_one_chunk fu fi vi f space acc s :
    nth_error (s_vols s) vi = Some v -> nth_error (s_files s) fi = Some f ->
    s_disk s = D -> no_faults s -> cache_ok s -> blocks_wf D ->
    e_cluster (f_entry f) = first ->
    cursor_ok v ch (f_cur_off f, f_cur_cluster f) \/ f_offset f < f_cur_off f ->
    0 < space -> f_offset f < e_size (f_entry f) ->
    e_size (f_entry f) <= N.of_nat (length ch) * B -> e_size (f_entry f) < U32 ->
    let off := f_offset f in
    let to_copy := N.min (N.min (512 - off mod 512) space) (e_size (f_entry f) - off) in
    exists cj s',
      nth_error ch (N.to_nat (off / B)) = Some cj /\
      read_loop (S fu) fi vi space acc s =
        read_loop fu fi vi (space - to_copy)
          (acc ++ firstn (N.to_nat to_copy) (skipn (N.to_nat off) (file_bytes D v ch))) s' /\
      0 < to_copy /\ s_disk s' = D /\
      s_files s' = list_set (s_files s) fi
                     (set_f_offset (set_f_cur_cluster (set_f_cur_off f (off / B * B)) cj) (off + to_copy)) /\
      cache_ok s' /\ no_faults s' /\ same_but_files s s'.
  Proof.
    intros Hvi Hfi Hd Hnf Hc Hwf Hfirst Hcur Hspace Hlt Hsz H32 off to_copy.
    destruct (find_data_on_disk_spec vi (f_cur_off f, f_cur_cluster f) (f_offset f) s
                Hvi Hd Hnf Hc Hcur ltac:(lia) ltac:(lia)) as (cj & s1 & Hn & Hrun & Hro).
    destruct Hro as (Hd1 & Hc1 & Hnf1 & Hm1).
    fold off in Hn, Hrun.
    set (f1 := set_f_cur_cluster (set_f_cur_off f (off / B * B)) cj).
    set (blk := cluster_first_block v cj + (off mod B) / 512) in *.
    set (s1' := upd_file s1 fi f1).
    assert (Hnf1' : no_faults s1') by exact Hnf1.
    assert (Hc1' : cache_ok s1') by exact Hc1.
    destruct (cache_read_spec blk s1' Hnf1' Hc1') as (s2 & Hr & Hd2 & _ & _ & Hc2 & Hnf2 & Hm2 & _).
    assert (Hdisk1' : s_disk s1' = D) by (cbn; rewrite Hd1; exact Hd).
    rewrite Hdisk1' in Hr.
    assert (Hfiles1 : s_files s1 = s_files s) by exact (same_mgr_files _ _ Hm1).
    assert (Hfiles2 : s_files s2 = list_set (s_files s) fi f1)
      by (rewrite (same_mgr_files _ _ Hm2); cbn; rewrite Hfiles1; reflexivity).
    assert (Hpos : 0 < to_copy) by (unfold to_copy; lia).
    exists cj, (upd_file s2 fi (set_f_offset f1 (off + to_copy))).
    split; [exact Hn|]. split.
    { cbn [read_loop].
      rewrite (bind_ok _ _ _ _ _ (get_file_some fi f s Hfi)).
      replace ((0 <? space) && negb (f_eof f)) with true.
      2:{ symmetry. apply andb_true_iff. split; [apply N.ltb_lt; exact Hspace|].
          apply negb_true_iff. unfold f_eof. apply N.eqb_neq. lia. }
      rewrite Hfirst. fold off. rewrite (bind_ok _ _ _ _ _ Hrun).
      cbv beta iota. cbn [fst snd]. fold f1. rewrite put_file_ok'. fold s1'.
      rewrite (bind_ok _ _ _ _ _ Hr).
      unfold f_left. fold off.
      rewrite (bind_ok _ _ _ _ _ (sub32_ok (e_size (f_entry f)) off s2 ltac:(lia))).
      cbv zeta. fold to_copy.
      replace (to_copy =? 0) with false by (symmetry; apply N.eqb_neq; lia).
      assert (Hg : nth_error (s_files s2) fi = Some f1)
        by (rewrite Hfiles2; eapply nth_error_list_set_same; exact Hfi).
      rewrite (bind_ok _ _ _ _ _ (get_file_some fi f1 s2 Hg)).
      rewrite put_file_ok'.
      unfold blk. rewrite (file_bytes_slice off cj to_copy Hwf Hn ltac:(unfold to_copy; lia)).
      reflexivity. }
    split; [exact Hpos|].
    split; [cbn; rewrite Hd2; exact Hdisk1'|].
    split; [cbn; rewrite Hfiles2, list_set_twice; reflexivity|].
    split; [exact Hc2|]. split; [exact Hnf2|].
    apply (sbf_trans _ s2); [|apply sbf_upd].
    apply (sbf_trans _ s1'); [|apply sbf_of_same_mgr; exact Hm2].
    apply (sbf_trans _ s1); [apply sbf_of_same_mgr; exact Hm1|apply sbf_upd].
  Qed.

  (* ---------------------------------------------------------------- the whole read loop *)
  (* 3b. by induction on the fuel: the loop returns the slice [off, off + min(space, size - off))
     of file_bytes; the fuel n/512 + 3 of mgr_read is enough (every iteration but the last
     fills its block, so `space + off mod 512` drops by 512) *)
  Theorem read_loop_spec fi vi : forall fuel space acc s f,
    nth_error (s_vols s) vi = Some v -> nth_error (s_files s) fi = Some f ->
    s_disk s = D -> no_faults s -> cache_ok s -> blocks_wf D ->
    e_cluster (f_entry f) = first ->
    cursor_ok v ch (f_cur_off f, f_cur_cluster f) ->
    f_offset f <= e_size (f_entry f) ->
    e_size (f_entry f) <= N.of_nat (length ch) * B -> e_size (f_entry f) < U32 ->
    (1 <= fuel)%nat ->
    (0 < space -> f_offset f < e_size (f_entry f) ->
     space + f_offset f mod 512 + 512 < 512 * N.of_nat fuel) ->
    let m := N.min space (e_size (f_entry f) - f_offset f) in
    exists s' f',
      read_loop fuel fi vi space acc s =
        (Ok (acc ++ firstn (N.to_nat m) (skipn (N.to_nat (f_offset f)) (file_bytes D v ch))), s') /\
      s_disk s' = D /\ s_files s' = list_set (s_files s) fi f' /\
      f_offset f' = f_offset f + m /\ same_file_id f f' /\
      cursor_ok v ch (f_cur_off f', f_cur_cluster f') /\
      cache_ok s' /\ no_faults s' /\ same_but_files s s'.
  Proof.
    induction fuel as [|fu IH]; intros space acc s f Hvi Hfi Hd Hnf Hc Hwf Hfirst Hcur Hle Hsz H32 Hf1 Hfuel m;
      [lia|].
    destruct ((0 <? space) && negb (f_eof f)) eqn:Hgo.
    - apply andb_true_iff in Hgo. destruct Hgo as [Hsp Hne].
      apply N.ltb_lt in Hsp. apply negb_true_iff in Hne. unfold f_eof in Hne. apply N.eqb_neq in Hne.
      assert (Hlt : f_offset f < e_size (f_entry f)) by lia.
      specialize (Hfuel Hsp Hlt).
      destruct (read_one_chunk fu fi vi f space acc s Hvi Hfi Hd Hnf Hc Hwf Hfirst (or_introl Hcur)
                  Hsp Hlt Hsz H32) as (cj & s1 & Hn & Hrun & Hpos & Hd1 & Hfiles1 & Hc1 & Hnf1 & Hm1).
      cbv zeta in Hrun, Hpos, Hfiles1.
      set (off := f_offset f) in *. set (sz := e_size (f_entry f)) in *.
      set (t := N.min (N.min (512 - off mod 512) space) (sz - off)) in *.
      set (f1 := set_f_offset (set_f_cur_cluster (set_f_cur_off f (off / B * B)) cj) (off + t)) in *.
      assert (Hfi1 : nth_error (s_files s1) fi = Some f1)
        by (rewrite Hfiles1; eapply nth_error_list_set_same; exact Hfi).
      assert (Hvi1 : nth_error (s_vols s1) vi = Some v) by (rewrite (proj1 Hm1); exact Hvi).
      destruct (find_data_cursor off cj Hn) as (Hcur1 & _ & _).
      assert (Hoff1 : f_offset f1 = off + t) by reflexivity.
      assert (Hent1 : f_entry f1 = f_entry f) by reflexivity.
      destruct (IH (space - t) (acc ++ firstn (N.to_nat t) (skipn (N.to_nat off) (file_bytes D v ch)))
                  s1 f1 Hvi1 Hfi1 Hd1 Hnf1 Hc1 Hwf Hfirst Hcur1
                  ltac:(rewrite Hoff1, Hent1; fold sz; unfold t; lia)
                  ltac:(rewrite Hent1; exact Hsz) ltac:(rewrite Hent1; exact H32)
                  ltac:(unfold t in *; lia)
                  ltac:(rewrite Hoff1, Hent1; fold sz; intros G1 G2; unfold t in *; lia))
        as (s2 & f2 & Hrun2 & Hd2 & Hfiles2 & Hoff2 & Hid2 & Hcur2 & Hc2 & Hnf2 & Hm2).
      cbv zeta in Hrun2, Hoff2. rewrite Hoff1, Hent1 in Hrun2, Hoff2. fold sz in Hrun2, Hoff2.
      exists s2, f2. split.
      { rewrite Hrun, Hrun2. f_equal. f_equal. rewrite <- app_assoc. f_equal.
        unfold m. fold off sz.
        replace (N.to_nat (N.min space (sz - off)))
          with (N.to_nat t + N.to_nat (N.min (space - t) (sz - (off + t))))%nat by (unfold t; lia).
        rewrite firstn_add, skipn_add. f_equal. f_equal. f_equal. lia. }
      split; [exact Hd2|].
      split; [rewrite Hfiles2, Hfiles1, list_set_twice; reflexivity|].
      split; [rewrite Hoff2; unfold m; fold off sz; unfold t; lia|].
      split.
      { destruct Hid2 as (I1 & I2 & I3 & I4 & I5). unfold same_file_id.
        rewrite I1, I2, I3, I4, I5. repeat split; reflexivity. }
      split; [exact Hcur2|]. split; [exact Hc2|]. split; [exact Hnf2|].
      exact (sbf_trans _ _ _ Hm1 Hm2).
    - exists s, f.
      assert (Em : m = 0).
      { apply andb_false_iff in Hgo. destruct Hgo as [Hgo|Hgo].
        - apply N.ltb_ge in Hgo. unfold m. lia.
        - apply negb_false_iff in Hgo. unfold f_eof in Hgo. apply N.eqb_eq in Hgo. unfold m. lia. }
      split.
      { cbn [read_loop]. rewrite (bind_ok _ _ _ _ _ (get_file_some fi f s Hfi)). rewrite Hgo.
        rewrite Em. cbn [N.to_nat firstn]. rewrite app_nil_r. reflexivity. }
      split; [exact Hd|]. split; [symmetry; apply list_set_same; exact Hfi|].
      split; [rewrite Em; lia|]. split; [unfold same_file_id; repeat split; reflexivity|].
      split; [exact Hcur|]. split; [exact Hc|]. split; [exact Hnf|apply sbf_refl].
  Qed.

  (* 3c. C01, the read side: a read of n bytes at offset off of a file of size sz returns exactly
     bytes [off, off + min(n, sz - off)) of the file's contents firstn sz (file_bytes ..), moves
     the offset past them, keeps the cursor valid and does not change the disk *)
  Theorem mgr_read_spec h n fi vi f s :
    s_lock s = false ->
    find_idx (fun g => f_id g =? h) (s_files s) 0 = Some fi -> nth_error (s_files s) fi = Some f ->
    find_idx (fun w => v_id w =? f_vol f) (s_vols s) 0 = Some vi -> nth_error (s_vols s) vi = Some v ->
    s_disk s = D -> no_faults s -> cache_ok s -> blocks_wf D ->
    e_cluster (f_entry f) = first ->
    cursor_ok v ch (f_cur_off f, f_cur_cluster f) ->
    f_offset f <= e_size (f_entry f) ->
    e_size (f_entry f) <= N.of_nat (length ch) * B -> e_size (f_entry f) < U32 ->
    let m := N.min n (e_size (f_entry f) - f_offset f) in
    exists s' f',
      mgr_read h n s =
        (Ok (firstn (N.to_nat m) (skipn (N.to_nat (f_offset f)) (file_bytes D v ch))), s') /\
      s_disk s' = D /\ s_files s' = list_set (s_files s) fi f' /\
      f_offset f' = f_offset f + m /\ same_file_id f f' /\
      cursor_ok v ch (f_cur_off f', f_cur_cluster f') /\
      cache_ok s' /\ no_faults s' /\ same_but_files s s'.
  Proof.
    intros Hl Hh Hfi Hvid Hvi Hd Hnf Hc Hwf Hfirst Hcur Hle Hsz H32 m.
    destruct (read_loop_spec fi vi (N.to_nat (n / 512) + 3) n [] s f Hvi Hfi Hd Hnf Hc Hwf Hfirst Hcur
                Hle Hsz H32 ltac:(lia) ltac:(intros _ _; lia))
      as (s' & f' & Hrun & Hrest).
    exists s', f'. split; [|exact Hrest].
    unfold mgr_read, locked, get_file_by_id, get_volume_by_id.
    unfold bind at 1, get at 1. rewrite Hl.
    unfold bind at 1. unfold bind at 1, get at 1. rewrite Hh. unfold ret at 1.
    rewrite (bind_ok _ _ _ _ _ (get_file_some fi f s Hfi)).
    unfold bind at 1. unfold bind at 1, get at 1. rewrite Hvid. unfold ret at 1.
    exact Hrun.
  Qed.

  (* ---------------------------------------------------------------- the write, at the level of the file *)
  (* replacing bytes [boff, boff + |chunk|) of the block that holds offset off IS replacing
     bytes [off, off + |chunk|) of the file's byte array *)
  Theorem write_chunk_file_bytes off cj chunk : blocks_wf D ->
    nth_error ch (N.to_nat (off / B)) = Some cj -> off mod 512 + N.of_nat (length chunk) <= 512 ->
    file_bytes (disk_set D (cluster_first_block v cj + (off mod B) / 512)
                  (set_bytes (disk_get D (cluster_first_block v cj + (off mod B) / 512)) (off mod 512) chunk))
               v ch
    = set_bytes (file_bytes D v ch) off chunk.
  Proof.
    intros Hwf Hn Hlen. pose proof B_pos as HB.
    assert (Hq : (off mod B) / 512 < v_spc v) by (apply div512_lt; apply N.mod_lt; lia).
    assert (Hq' : (N.to_nat ((off mod B) / 512) < N.to_nat (v_spc v))%nat) by lia.
    set (blk := cluster_first_block v cj + (off mod B) / 512).
    set (nb := set_bytes (disk_get D blk) (off mod 512) chunk).
    assert (Hnd : NoDup ch) by exact (chain_of_nodup _ _ _ _ _ Hch).
    assert (Hr : Forall (fun c => 2 <= c) ch).
    { pose proof (chain_of_range _ _ _ _ _ Hch) as R. rewrite Forall_forall in *.
      intros c Hc. exact (proj1 (R c Hc)). }
    destruct (fb_around_frame D (disk_set D blk nb) v ch _ cj _ Hnd Hr Hn Hq') as (EP & ES).
    { intros b Hb. apply disk_get_set_other. rewrite N2Nat.id in Hb. fold blk in Hb. congruence. }
    rewrite (file_bytes_locate (disk_set D blk nb) v ch _ cj _ Hn Hq').
    rewrite (file_bytes_locate D v ch _ cj _ Hn Hq').
    rewrite EP, ES. rewrite N2Nat.id. fold blk. rewrite disk_get_set_same.
    symmetry. apply set_bytes_middle.
    - rewrite (fb_prefix_length D v ch _ cj _ Hwf Hn Hq'). apply offset_split.
    - rewrite Hwf. lia.
  Qed.

  (* 4, in the words of C01: one iteration of write_loop on an allocated position replaces
     bytes [off, off + to_copy) of the file's byte array by the first to_copy bytes of the
     data, leaves every block outside the file alone, and keeps the device well formed *)
  Theorem C01_write_step_bytes fu fi vi f data s :
    nth_error (s_vols s) vi = Some v -> nth_error (s_files s) fi = Some f ->
    s_disk s = D -> no_faults s -> cache_ok s -> blocks_wf D ->
    e_cluster (f_entry f) = first ->
    cursor_ok v ch (f_cur_off f, f_cur_cluster f) \/ f_offset f < f_cur_off f ->
    f_offset f < N.of_nat (length ch) * B -> f_offset f < U32 -> data <> [] ->
    exists cj s',
      nth_error ch (N.to_nat (f_offset f / B)) = Some cj /\
      write_loop (S fu) fi vi data s =
        write_loop fu fi vi (skipn (N.to_nat (wr_to_copy (f_offset f) data)) data) s' /\
      file_bytes (s_disk s') v ch =
        set_bytes (file_bytes D v ch) (f_offset f)
                  (firstn (N.to_nat (wr_to_copy (f_offset f) data)) data) /\
      blocks_wf (s_disk s') /\
      (fat_below_data v -> forall f0 c0, chain_of (s_disk s') v c0 f0 = chain_of D v c0 f0) /\
      s_files s' = list_set (s_files s) fi
                     (wr_file f (f_offset f / B * B, cj) (wr_to_copy (f_offset f) data)) /\
      cache_ok s' /\ no_faults s' /\ same_but_files s s'.
  Proof.
    intros Hvi Hfi Hd Hnf Hc Hwf Hfirst Hcur Hin H32 Hdata.
    destruct (write_one_chunk_in_place fu fi vi f data s Hvi Hfi Hd Hnf Hc Hwf Hfirst Hcur Hin H32 Hdata)
      as (cj & s' & Hn & Hrun & Hd' & Hrest).
    exists cj, s'. split; [exact Hn|]. split; [exact Hrun|].
    assert (Hcl : f_offset f mod 512 +
                  N.of_nat (length (firstn (N.to_nat (wr_to_copy (f_offset f) data)) data)) <= 512).
    { rewrite firstn_length. unfold wr_to_copy. lia. }
    rewrite Hd'. split; [apply write_chunk_file_bytes; assumption|].
    split.
    { apply blocks_wf_set; [exact Hwf|]. rewrite set_bytes_length; [apply Hwf|]. rewrite Hwf. lia. }
    split; [|exact Hrest].
    intros Hfb. destruct (chain_of_links _ _ _ _ _ Hch _ cj Hn) as (R1 & _ & _).
    apply chain_of_data_write; assumption.
  Qed.

End Chain.

(* ================================================================== 5. the extending write *)
(* the part of one iteration of write_loop after the position has been resolved to
   x = (cursor, (block, offset in block, room in block)) - the text of the model *)
Definition wl_tail (fu fi vi : nat) (data : list N) (x : (N * N) * (N * N * N)) : M unit :=
  let '(cur', (blk, boff, bavail)) := x in
  let to_copy := N.min bavail (N.of_nat (length data)) in
  (if (boff =? 0) && (to_copy =? bavail) then blank_mut blk
   else _ <- cache_read blk ;; ret tt) ;;;
  cache_modify (fun b => set_bytes b boff (firstn (N.to_nat to_copy) data)) ;;;
  write_back ;;;
  f1 <- get_file fi ;;
  let new_offset := f_offset f1 + to_copy in
  let e1 := if e_size (f_entry f1) <? new_offset then set_e_size (f_entry f1) new_offset else f_entry f1 in
  put_file fi (set_f_offset (set_f_entry (set_f_cur_cluster (set_f_cur_off f1 (fst cur')) (snd cur')) e1) new_offset) ;;;
  write_loop fu fi vi (skipn (N.to_nat to_copy) data).

Lemma write_loop_unfold fu fi vi data s : data <> [] ->
  write_loop (S fu) fi vi data s =
  (f <- get_file fi ;;
   let fstart := e_cluster (f_entry f) in
   '(cur, r) <- find_data_on_disk vi (f_cur_off f, f_cur_cluster f) fstart (f_offset f) ;;
   x <- match r with
        | inl vars => ret (cur, vars)
        | inr EndOfFile =>
            a <- try (alloc_cluster vi (Some (snd cur)) false) ;;
            match a with
            | inr _ => fail DiskFull
            | inl _ =>
                '(cur2, r2) <- find_data_on_disk vi cur fstart (f_offset f) ;;
                match r2 with
                | inl vars => ret (cur2, vars)
                | inr _ => fail AllocationError
                end
            end
        | inr e => fail e
        end ;;
   wl_tail fu fi vi data x) s.
Proof. intros H. destruct data as [|x t]; [congruence|]. reflexivity. Qed.

Theorem wl_tail_spec fu fi vi f data cur' blk boff s :
  nth_error (s_files s) fi = Some f -> no_faults s -> cache_ok s ->
  length (disk_get (s_disk s) blk) = 512%nat -> boff < 512 ->
  let tc := N.min (512 - boff) (N.of_nat (length data)) in
  exists s',
    wl_tail fu fi vi data (cur', (blk, boff, 512 - boff)) s =
      write_loop fu fi vi (skipn (N.to_nat tc) data) s' /\
    s_disk s' = disk_set (s_disk s) blk
                  (set_bytes (disk_get (s_disk s) blk) boff (firstn (N.to_nat tc) data)) /\
    s_files s' = list_set (s_files s) fi (wr_file f cur' tc) /\
    cache_ok s' /\ no_faults s' /\ same_but_files s s'.
Proof.
  intros Hfi Hnf Hc Hlen Hboff tc.
  destruct (write_block_step blk boff data s Hnf Hc Hlen Hboff) as (s2 & Hw & Hd2 & _ & Hc2 & Hnf2 & Hm2).
  cbv zeta in Hw, Hd2. fold tc in Hw, Hd2.
  exists (upd_file s2 fi (wr_file f cur' tc)).
  assert (Hfiles2 : s_files s2 = s_files s) by exact (same_mgr_files _ _ Hm2).
  split.
  { unfold wl_tail. cbv beta iota zeta. fold tc.
    rewrite seq_assoc3. rewrite (bind_ok _ _ _ _ _ Hw).
    rewrite (bind_ok _ _ _ _ _ (get_file_some fi f s2 ltac:(rewrite Hfiles2; exact Hfi))).
    rewrite put_file_ok'. reflexivity. }
  split; [cbn; exact Hd2|]. split; [cbn; rewrite Hfiles2; reflexivity|].
  split; [exact Hc2|]. split; [exact Hnf2|].
  apply (sbf_trans _ s2); [apply sbf_of_same_mgr; exact Hm2|apply sbf_upd].
Qed.

(* the volume record after an allocation: same geometry, new free-space bookkeeping *)
Definition vol_rebook (v : vol) (nf fc : option N) : vol := set_v_free (set_v_next_free v nf) fc.

Lemma vol_ok_rebook v nf fc : vol_ok v -> vol_ok (vol_rebook v nf fc).
Proof. intros [H1 H2 H3 H4]. constructor; assumption. Qed.

Lemma chain_of_rebook d v nf fc : forall f c, chain_of d (vol_rebook v nf fc) c f = chain_of d v c f.
Proof. induction f as [|f IH]; intros c; [reflexivity|]. cbn [chain_of]. rewrite IH. reflexivity. Qed.

Lemma file_bytes_snoc d v ch c : file_bytes d v (ch ++ [c]) = file_bytes d v ch ++ cluster_bytes d v c.
Proof. unfold file_bytes. rewrite flat_map_app. cbn [flat_map]. rewrite app_nil_r. reflexivity. Qed.

Definition same_tables (s s' : st) : Prop :=
  s_dirs s' = s_dirs s /\ s_next_id s' = s_next_id s /\ s_clock s' = s_clock s /\
  s_lock s' = s_lock s /\ s_maxv s' = s_maxv s /\ s_maxd s' = s_maxd s /\ s_maxf s' = s_maxf s /\
  s_faults s' = s_faults s.
Lemma same_tables_of_sbf s s' : same_but_files s s' -> same_tables s s'.
Proof. intros (_ & H). exact H. Qed.
Lemma same_tables_trans a b c : same_tables a b -> same_tables b c -> same_tables a c.
Proof.
  unfold same_tables.
  intros (A2 & A4 & A5 & A6 & A7 & A8 & A9 & A10) (B2 & B4 & B5 & B6 & B7 & B8 & B9 & B10).
  repeat split; congruence.
Qed.

(* What the extending write needs from `alloc_cluster vi (Some cl) false` run in s1 and
   returning c in s2 (cl = the last cluster of the chain ch of the file starting at first):
   the chain is now ch ++ [c], no block of the old clusters changed, the volume record differs
   in the free-space bookkeeping only, the state predicates hold.  (PrAllocEffect.v proves the
   effect of alloc_cluster on the FAT - c was free, c is now end-of-chain, cl links to c, every
   other entry and every non-FAT block is unchanged - from which these fields follow.) *)
Record ext_eff (vi : nat) (v : vol) (first : N) (ch : list N) (s1 : st) (c : N) (s2 : st) : Prop :=
  mk_ext_eff {
  xe_vol : exists nf fc, s_vols s2 = list_set (s_vols s1) vi (vol_rebook v nf fc);
  xe_chain : exists fuel, chain_of (s_disk s2) v first fuel = Some (ch ++ [c]);
  xe_nf : no_faults s2;
  xe_cache : cache_ok s2;
  xe_wf : blocks_wf (s_disk s2);
  xe_files : s_files s2 = s_files s1;
  xe_data : forall c0 b, In c0 ch -> In b (cluster_blocks v c0) ->
            disk_get (s_disk s2) b = disk_get (s_disk s1) b;
  xe_tables : same_tables s1 s2
}.

Lemma mul_bpc_mod512 k spc : (k * (spc * 512)) mod 512 = 0.
Proof. rewrite N.mul_assoc. apply N.mod_mul. lia. Qed.

(* 5. one iteration of write_loop at the very end of the chain: EndOfFile from the first
   lookup with the cursor on the LAST cluster cl, alloc_cluster (Some cl), second lookup on
   the extended chain, then the write goes to the first block of the new cluster c *)
Theorem write_one_chunk_extend v D first fuel0 ch fu fi vi f data s cl :
  vol_ok v -> 0 < v_spc v -> chain_of D v first fuel0 = Some ch ->
  nth_error (s_vols s) vi = Some v -> nth_error (s_files s) fi = Some f ->
  s_disk s = D -> no_faults s -> cache_ok s ->
  e_cluster (f_entry f) = first ->
  cursor_ok v ch (f_cur_off f, f_cur_cluster f) \/ f_offset f < f_cur_off f ->
  f_offset f = N.of_nat (length ch) * bytes_per_cluster v -> f_offset f < U32 -> data <> [] ->
  nth_error ch (length ch - 1) = Some cl ->
  (forall s1, ro_step s s1 ->
     exists c s2, alloc_cluster vi (Some cl) false s1 = (Ok c, s2) /\ ext_eff vi v first ch s1 c s2) ->
  let tc := N.min 512 (N.of_nat (length data)) in
  let chunk := firstn (N.to_nat tc) data in
  exists s1 c s2 s',
    ro_step s s1 /\ alloc_cluster vi (Some cl) false s1 = (Ok c, s2) /\ ext_eff vi v first ch s1 c s2 /\
    write_loop (S fu) fi vi data s = write_loop fu fi vi (skipn (N.to_nat tc) data) s' /\
    s_disk s' = disk_set (s_disk s2) (cluster_first_block v c)
                  (set_bytes (disk_get (s_disk s2) (cluster_first_block v c)) 0 chunk) /\
    file_bytes (s_disk s') v (ch ++ [c]) =
      set_bytes (file_bytes (s_disk s2) v (ch ++ [c])) (f_offset f) chunk /\
    file_bytes (s_disk s2) v ch = file_bytes D v ch /\
    s_files s' = list_set (s_files s) fi (wr_file f (f_offset f, c) tc) /\
    cursor_ok v (ch ++ [c]) (f_offset f, c) /\
    s_vols s' = s_vols s2 /\ blocks_wf (s_disk s') /\
    cache_ok s' /\ no_faults s' /\ same_tables s s'.
Proof.
  intros Hv Hspc Hch Hvi Hfi Hd Hnf Hc Hfirst Hcur Hoff H32 Hdata Hcl Halloc tc chunk.
  set (B := bytes_per_cluster v) in *.
  assert (HB : 0 < B) by (unfold B, bytes_per_cluster; lia).
  destruct (find_data_on_disk_eof v D first fuel0 ch Hv Hspc Hch vi (f_cur_off f, f_cur_cluster f)
              (f_offset f) s Hvi Hd Hnf Hc Hcur Hoff H32) as (cl' & s1 & Hn1 & Hrun1 & Hro1).
  rewrite Hcl in Hn1. inversion Hn1; subst cl'. clear Hn1.
  destruct (Halloc s1 Hro1) as (c & s2 & Ha & Heff).
  exists s1, c, s2.
  destruct Heff as [(nf & fc & Hvols2) (fuel2 & Hch2) Hnf2 Hc2 Hwf2 Hfiles2 Hdata2 Htab2].
  pose proof (mk_ext_eff vi v first ch s1 c s2 (ex_intro _ nf (ex_intro _ fc Hvols2))
                (ex_intro _ fuel2 Hch2) Hnf2 Hc2 Hwf2 Hfiles2 Hdata2 Htab2) as Heff.
  set (v' := vol_rebook v nf fc).
  assert (Hvi1 : nth_error (s_vols s1) vi = Some v)
    by (apply (same_mgr_vol s s1); [apply Hro1|exact Hvi]).
  assert (Hvi2 : nth_error (s_vols s2) vi = Some v')
    by (rewrite Hvols2; eapply nth_error_list_set_same; exact Hvi1).
  assert (Hlen : (0 < length ch)%nat) by (assert (length ch - 1 < length ch)%nat by (apply nth_error_Some; congruence); lia).
  assert (Hch2' : chain_of (s_disk s2) v' first fuel2 = Some (ch ++ [c]))
    by (unfold v'; rewrite chain_of_rebook; exact Hch2).
  assert (Hcur2 : cursor_ok v' (ch ++ [c]) (N.of_nat (length ch - 1) * B, cl)).
  { exists (length ch - 1)%nat. split; [reflexivity|]. cbn [snd].
    rewrite nth_error_app1 by lia. exact Hcl. }
  assert (Hin2 : f_offset f < N.of_nat (length (ch ++ [c])) * bytes_per_cluster v').
  { change (bytes_per_cluster v') with B. rewrite app_length. cbn [length].
    replace (length ch + 1)%nat with (S (length ch)) by lia. rewrite of_nat_succ_mul. lia. }
  destruct (find_data_on_disk_spec v' (s_disk s2) first fuel2 (ch ++ [c]) (vol_ok_rebook v nf fc Hv)
              Hspc Hch2' vi (N.of_nat (length ch - 1) * B, cl) (f_offset f) s2 Hvi2 eq_refl Hnf2 Hc2
              (or_introl Hcur2) Hin2 H32) as (cj & s3 & Hn3 & Hrun3 & Hro3).
  change (bytes_per_cluster v') with B in Hn3, Hrun3.
  change (cluster_first_block v' cj) with (cluster_first_block v cj) in Hrun3.
  assert (E1 : f_offset f / B = N.of_nat (length ch)) by (rewrite Hoff; apply N.div_mul; lia).
  assert (E2 : f_offset f mod B = 0) by (rewrite Hoff; apply N.mod_mul; lia).
  assert (E3 : f_offset f mod 512 = 0) by (rewrite Hoff; unfold B, bytes_per_cluster; apply mul_bpc_mod512).
  rewrite E1, Nat2N.id in Hn3. rewrite nth_error_app2, Nat.sub_diag in Hn3 by lia.
  cbn [nth_error] in Hn3. inversion Hn3; subst cj. clear Hn3.
  rewrite E1, E2, E3, <- Hoff in Hrun3.
  change (0 / 512) with 0 in Hrun3. change (512 - 0) with 512 in Hrun3. rewrite N.add_0_r in Hrun3.
  destruct Hro3 as (Hd3 & Hc3 & Hnf3 & Hm3).
  assert (Hfiles3 : s_files s3 = s_files s).
  { rewrite (same_mgr_files _ _ Hm3), Hfiles2. apply same_mgr_files. apply Hro1. }
  destruct (wl_tail_spec fu fi vi f data (f_offset f, c) (cluster_first_block v c) 0 s3
              ltac:(rewrite Hfiles3; exact Hfi) Hnf3 Hc3 ltac:(rewrite Hd3; apply Hwf2) ltac:(lia))
    as (s' & Htail & Hd' & Hfiles' & Hc' & Hnf' & Hm').
  cbv zeta in Htail, Hd', Hfiles'. change (512 - 0) with 512 in Htail, Hd', Hfiles'.
  fold tc in Htail, Hd', Hfiles'. fold chunk in Hd'. rewrite Hd3 in Hd'.
  exists s'. split; [exact Hro1|]. split; [exact Ha|]. split; [exact Heff|].
  split.
  { rewrite (write_loop_unfold fu fi vi data s Hdata).
    rewrite (bind_ok _ _ _ _ _ (get_file_some fi f s Hfi)). cbv zeta. rewrite Hfirst.
    rewrite (bind_ok _ _ _ _ _ Hrun1). cbv beta iota. cbn [snd].
    rewrite bind_bind. rewrite (bind_ok _ _ _ _ _ (try_ok _ _ _ _ Ha)). cbv beta iota.
    fold B. rewrite bind_bind. rewrite (bind_ok _ _ _ _ _ Hrun3). cbv beta iota. rewrite bind_ret.
    exact Htail. }
  split; [exact Hd'|].
  split.
  { rewrite Hd'.
    pose proof (write_chunk_file_bytes v (s_disk s2) first fuel2 (ch ++ [c]) Hspc Hch2
                  (f_offset f) c chunk Hwf2) as W.
    fold B in W. rewrite E1, E2, E3, Nat2N.id in W.
    change (0 / 512) with 0 in W. rewrite N.add_0_r in W.
    apply W.
    - rewrite nth_error_app2, Nat.sub_diag by lia. reflexivity.
    - unfold chunk. rewrite firstn_length. unfold tc. lia. }
  split.
  { apply file_bytes_frame. intros c0 b Hc0 Hb. rewrite (Hdata2 c0 b Hc0 Hb).
    rewrite (proj1 Hro1), Hd. reflexivity. }
  split; [rewrite Hfiles', Hfiles3; reflexivity|].
  split.
  { exists (length ch). cbn [fst snd]. split; [exact Hoff|].
    rewrite nth_error_app2, Nat.sub_diag by lia. reflexivity. }
  split; [rewrite (proj1 Hm'); apply Hm3|].
  split.
  { rewrite Hd'. apply blocks_wf_set; [exact Hwf2|]. rewrite set_bytes_length; [apply Hwf2|].
    rewrite Hwf2. unfold chunk. rewrite firstn_length. unfold tc. cbn [N.to_nat]. lia. }
  split; [exact Hc'|]. split; [exact Hnf'|].
  apply (same_tables_trans _ s3); [|apply same_tables_of_sbf; exact Hm'].
  apply (same_tables_trans _ s2); [|apply same_tables_of_sbf; apply sbf_of_same_mgr; exact Hm3].
  apply (same_tables_trans _ s1); [|exact Htab2].
  apply same_tables_of_sbf. apply sbf_of_same_mgr. apply Hro1.
Qed.

(* ------------------------------------------------------------------ the hypotheses are satisfiable *)
(* PrDir's FAT16 volume (2 blocks per cluster) whose chain 2 -> 3 -> end is now a file of 1500
   bytes, open with handle 7 at offset 700, cursor on the first cluster *)
Definition exr_entry : dirent :=
  mk_dirent exd_name (mk_ts 0 0 0 0 0 0) (mk_ts 0 0 0 0 0 0) 32 2 1500 22 0.
Definition exr_file : fileinfo := mk_fileinfo 7 0 0 2 700 ReadWriteAppend exr_entry false.
Definition exr_state : st :=
  mk_st exd_disk zero_block None [exd_vol] [] [exr_file] 8 0 0 [] [] false 1 1 1.

Lemma exd_disk_wf : blocks_wf exd_disk.
Proof.
  intros i. unfold exd_disk.
  destruct (N.eq_dec 30 i) as [<-|H30]; [rewrite disk_get_set_same; reflexivity|].
  rewrite disk_get_set_other by exact H30.
  destruct (N.eq_dec 11 i) as [<-|H11]; [rewrite disk_get_set_same; reflexivity|].
  rewrite disk_get_set_other by exact H11.
  unfold disk_get. rewrite PositiveMap.gempty. reflexivity.
Qed.

Example rw_example :
  vol_ok exd_vol /\ 0 < v_spc exd_vol /\
  chain_of exd_disk exd_vol 2 (walk_fuel exd_vol) = Some [2; 3] /\
  no_faults exr_state /\ cache_ok exr_state /\ blocks_wf exd_disk /\
  s_lock exr_state = false /\
  find_idx (fun g => f_id g =? 7) (s_files exr_state) 0 = Some 0%nat /\
  nth_error (s_files exr_state) 0 = Some exr_file /\
  find_idx (fun w => v_id w =? f_vol exr_file) (s_vols exr_state) 0 = Some 0%nat /\
  nth_error (s_vols exr_state) 0 = Some exd_vol /\
  e_cluster (f_entry exr_file) = 2 /\
  cursor_ok exd_vol [2; 3] (f_cur_off exr_file, f_cur_cluster exr_file) /\
  f_offset exr_file <= e_size (f_entry exr_file) /\
  e_size (f_entry exr_file) <= N.of_nat (length [2; 3]) * bytes_per_cluster exd_vol /\
  e_size (f_entry exr_file) < U32 /\
  (* and the conclusions, computed: the read crosses a block and a cluster boundary *)
  fst (mgr_read 7 2000 exr_state) = Ok (firstn 800 (skipn 700 (file_bytes exd_disk exd_vol [2; 3]))) /\
  length (firstn 800 (skipn 700 (file_bytes exd_disk exd_vol [2; 3]))) = 800%nat /\
  firstn 12 (file_bytes exd_disk exd_vol [2; 3]) = exd_name ++ [32].
Proof.
  split; [constructor; try (intros _); vm_compute; reflexivity|].
  split; [reflexivity|]. split; [vm_compute; reflexivity|].
  split; [intros n H; destruct H|]. split; [intros i H; discriminate H|].
  split; [exact exd_disk_wf|].
  split; [reflexivity|]. split; [reflexivity|]. split; [reflexivity|]. split; [reflexivity|].
  split; [reflexivity|]. split; [reflexivity|].
  split; [exists 0%nat; split; reflexivity|].
  split; [vm_compute; discriminate|]. split; [vm_compute; discriminate|].
  split; [reflexivity|].
  split; [vm_compute; reflexivity|]. split; vm_compute; reflexivity.
Qed.

(* the allocation premise of write_one_chunk_extend is satisfiable: the same file, full
   (2048 bytes = 2 clusters) with the offset at its end; the model's alloc_cluster run after
   the first lookup hands out cluster 4 and has the effect ext_eff *)
Lemma blocks_wf_elements d :
  forallb (fun p => Nat.eqb (length (snd p)) 512) (PositiveMap.elements d) = true -> blocks_wf d.
Proof.
  intros H i. unfold disk_get. destruct (PositiveMap.find (N.succ_pos i) d) as [b|] eqn:E;
    fold block in E; rewrite E; [|unfold zero_block; apply repeat_length].
  apply PositiveMap.elements_correct in E. rewrite forallb_forall in H.
  specialize (H _ E). apply Nat.eqb_eq in H. exact H.
Qed.

Definition exr_file_end : fileinfo :=
  mk_fileinfo 7 0 0 2 2048 ReadWriteAppend (set_e_size exr_entry 2048) false.
Definition exr_state_end : st :=
  mk_st exd_disk zero_block None [exd_vol] [] [exr_file_end] 8 0 0 [] [] false 1 1 1.
Definition exr_s1 : st := snd (find_data_on_disk 0 (0, 2) 2 2048 exr_state_end).

Example ext_example :
  fst (find_data_on_disk 0 (0, 2) 2 2048 exr_state_end) = Ok ((1024, 3), inr EndOfFile) /\
  fst (alloc_cluster 0 (Some 3) false exr_s1) = Ok 4 /\
  ext_eff 0 exd_vol 2 [2; 3] exr_s1 4 (snd (alloc_cluster 0 (Some 3) false exr_s1)) /\
  fst (write_loop 3 0 0 [1; 2; 3] exr_state_end) = Ok tt /\
  firstn 5 (skipn 2046 (file_bytes (s_disk (snd (write_loop 3 0 0 [1; 2; 3] exr_state_end)))
                           exd_vol [2; 3; 4])) = [0; 0; 1; 2; 3].
Proof.
  split; [vm_compute; reflexivity|]. split; [vm_compute; reflexivity|].
  split; [|split; vm_compute; reflexivity].
  constructor.
  - eexists. eexists. vm_compute. reflexivity.
  - exists 10%nat. vm_compute. reflexivity.
  - intros n H. vm_compute in H. destruct H.
  - intros i H. vm_compute in H. inversion H; subst i. vm_compute. reflexivity.
  - apply blocks_wf_elements. vm_compute. reflexivity.
  - vm_compute. reflexivity.
  - intros c0 b Hc0 Hb.
    destruct Hc0 as [<-|[<-|[]]]; vm_compute in Hb;
      repeat (destruct Hb as [<-|Hb]; [vm_compute; reflexivity|]); destruct Hb.
  - unfold same_tables. vm_compute. repeat split; reflexivity.
Qed.

Print Assumptions find_data_on_disk_spec.
Print Assumptions find_data_on_disk_eof.
Print Assumptions write_block_step.
Print Assumptions write_one_chunk_in_place.
Print Assumptions C01_isolation_step.
Print Assumptions write_chunk_file_bytes.
Print Assumptions C01_write_step_bytes.
Print Assumptions wl_tail_spec.
Print Assumptions write_one_chunk_extend.
Print Assumptions read_one_chunk.
Print Assumptions read_loop_spec.
Print Assumptions mgr_read_spec.
Print Assumptions rw_example.
Print Assumptions ext_example.
