(* PROOFS for the SESSION invariant, part 3: histories over the FULL alphabet - OpenVol, CloseVol and the
   drop of a Volume included - for a manager with room for one volume.
     C03s_history            the session invariant after every history, no panic, no fuel exhaustion,
                             every device write in a region of the volume; handles_ok along the way
     C03s_after_every_call   ... after every prefix
     C03s_mounted / C03s_unmounted   what the session invariant says in the two phases
     C04s_history, C04s_medium_outside   the writes / the blocks outside the regions
     C05s_history            nothing open: the clusters in use are the clusters on live chains (both phases)
     C08s_sessions           after any history: if nothing is mounted OpenVol succeeds (same geometry, the
                             invariant of a mounted volume), if a volume is mounted and nothing on it is open
                             CloseVol / the drop succeed - any number of mount / use / unmount cycles
     C03s_from_init          a fresh manager on a medium that mounts and that the decider accepts
     examples on PrGlobalMount's formatted FAT16 image *)
From Coq Require Import NArith ZArith List Bool Lia Arith FMapPositive Permutation.
From SdFs Require Import FsTypes FsBase FsFat FsMgr FsExt FsLemmas PrBase PrFat PrAlloc PrDir PrRw PrChain PrCount PrWf PrOpenClose.
From SdFs Require PrHandles PrOrder PrBounds PrCrash PrCrashDef PrCrashMount PrCrashMount2.
From SdFs Require Import PrGlobalDef PrGlobalOpen PrGlobal PrGlobalMount.
From SdFs Require Import PrExt PrExt2 PrExt3.
From SdFs Require Import PrSess PrSess2.
Import ListNotations.
Open Scope N_scope.
Local Arguments N.mul : simpl never.
Local Arguments N.add : simpl never.
Local Arguments N.sub : simpl never.

Section Session.
  Variables (fsz idx0 : N) (d0 : disk) (v0 : vol).
  Hypothesis Hwit : mount_witness d0 idx0 v0.

  (* ================================================================== the history theorem *)
  Theorem C03s_history : forall ops s age,
    sess_at fsz d0 v0 s -> PrHandles.handles_ok age s ->
    age + N.of_nat (length ops) < U32 - 1 -> Forall (sop_scope_ok idx0) ops -> xops_guard ops s ->
    let '(rs, s') := xrun_ops ops s in
    sess_at fsz d0 v0 s' /\ PrHandles.handles_ok (age + N.of_nat (length ops)) s' /\
    Forall (fun r => r <> Panic /\ r <> OutOfFuel) rs /\
    exists ws, PrOrder.tsteps s s' ws /\ Forall (PrBounds.in_region v0 fsz) ws.
  Proof.
    induction ops as [|o rest IH]; intros s age Hs Hh Hage Hops Hg.
    - cbn [xrun_ops length]. rewrite N.add_0_r. split; [exact Hs|]. split; [exact Hh|]. split; [constructor|].
      exists []. split; [apply PrOrder.tsteps_refl|constructor].
    - cbn [xrun_ops]. destruct (xstep o s) as [r s1] eqn:Es.
      inversion Hops as [|? ? Ho Hrest]; subst. cbn [length] in Hage |- *.
      cbn [xops_guard] in Hg. rewrite Es in Hg. destruct Hg as (Hg0 & Hg1). cbn [snd] in Hg1.
      assert (Ha1 : age < U32) by (unfold U32 in *; lia).
      assert (Ha2 : age < U32 - 1) by (unfold U32 in *; lia).
      assert (Ha3 : age + 1 + N.of_nat (length rest) < U32 - 1).
      { rewrite Nat2N.inj_succ in Hage. unfold U32 in *. lia. }
      destruct (sess_step_ok fsz idx0 d0 v0 Hwit o s r s1 Hs (handles_ok_fresh age s Ha1 Hh) Ho Hg0 Es)
        as (R1 & R2 & Hs1 & ws1 & Ht1 & Hw1).
      pose proof (C08x_handles_ok_step age o s Ha2 (sop_xremount idx0 o Ho) Hh) as Hh1.
      rewrite Es in Hh1. cbn [snd] in Hh1.
      specialize (IH s1 (age + 1) Hs1 Hh1 Ha3 Hrest Hg1).
      destruct (xrun_ops rest s1) as [rs s'].
      destruct IH as (Hs' & Hh' & Hrs & ws2 & Ht2 & Hw2).
      split; [exact Hs'|]. split.
      { replace (age + N.of_nat (S (length rest))) with (age + 1 + N.of_nat (length rest)) by lia. exact Hh'. }
      split; [constructor; [split; assumption|exact Hrs]|].
      exists (ws1 ++ ws2). split; [exact (PrOrder.tsteps_trans _ _ _ _ _ Ht1 Ht2)|].
      apply Forall_app. split; assumption.
  Qed.

  Lemma sop_guard_app a : forall b s, xops_guard (a ++ b) s -> xops_guard a s.
  Proof. exact (xops_guard_app a). Qed.

  (* ... after EVERY call of the history *)
  Theorem C03s_after_every_call ops1 ops2 s age :
    sess_at fsz d0 v0 s -> PrHandles.handles_ok age s ->
    age + N.of_nat (length (ops1 ++ ops2)) < U32 - 1 -> Forall (sop_scope_ok idx0) (ops1 ++ ops2) ->
    xops_guard (ops1 ++ ops2) s ->
    sess_at fsz d0 v0 (snd (xrun_ops ops1 s)) /\
    PrHandles.handles_ok (age + N.of_nat (length ops1)) (snd (xrun_ops ops1 s)).
  Proof.
    intros Hs Hh Hage Hops Hg.
    assert (Hage1 : age + N.of_nat (length ops1) < U32 - 1).
    { rewrite app_length, Nat2N.inj_add in Hage. lia. }
    assert (Hops1 : Forall (sop_scope_ok idx0) ops1) by (apply Forall_app in Hops; tauto).
    pose proof (C03s_history ops1 s age Hs Hh Hage1 Hops1 (xops_guard_app _ _ _ Hg)) as H.
    destruct (xrun_ops ops1 s) as [rs s']. cbn [snd]. tauto.
  Qed.

  (* ================================================================== what the invariant says *)
  (* a volume is mounted: the global invariant of the one-volume development, for a record of the
     reference geometry (so C03 / C05 / C16 / C10 / C01 ... of PrGlobal / PrExt2..5 apply from here) *)
  Theorem C03s_mounted s w : sess_at fsz d0 v0 s -> s_vols s = [w] ->
    fs_inv fsz (v_id w) s /\ relabel v0 w /\ dirs_tame (v_id w) s.
  Proof.
    intros Hs Ev. destruct (sa_phase _ _ _ _ Hs) as [Hu|(vid & w' & Hinv & Ev' & R & Ht)].
    - destruct (su_fresh _ _ _ Hu) as (Fv & _). rewrite Fv in Ev. discriminate Ev.
    - rewrite Ev in Ev'. injection Ev' as <-.
      destruct (fs_inv_vols fsz vid s Hinv) as (x & Ex & Eid). rewrite Ev in Ex. injection Ex as <-. rewrite Eid.
      split; [exact Hinv|]. split; [exact R|exact Ht].
  Qed.
  (* nothing is mounted: a manager with nothing open but stale root handles, on a medium that holds
     the disk-level invariant for the reference record and mounts again (C08s_sessions) *)
  Theorem C03s_unmounted s : sess_at fsz d0 v0 s -> s_vols s = [] ->
    fresh_mgr s /\ blocks_wf (s_disk s) /\ PrCrashMount.info_sig (s_disk s) v0 /\
    exists bl rch T, disk_inv (s_disk s) v0 bl rch T [].
  Proof.
    intros Hs Ev. destruct (sa_phase _ _ _ _ Hs) as [Hu|(vid & w' & Hinv & Ev' & _)].
    - split; [exact (su_fresh _ _ _ Hu)|]. split; [exact (su_wf _ _ _ Hu)|]. split; [exact (sa_sig _ _ _ _ Hs)|exact (su_disk _ _ _ Hu)].
    - rewrite Ev in Ev'. discriminate Ev'.
  Qed.
  Lemma sess_phase s : sess_at fsz d0 v0 s -> s_vols s = [] \/ exists w, s_vols s = [w].
  Proof.
    intros Hs. destruct (sa_phase _ _ _ _ Hs) as [Hu|(vid & w & _ & Ev & _)]; [left|right; exists w; exact Ev].
    exact (proj1 (su_fresh _ _ _ Hu)).
  Qed.

  (* ================================================================== C04 *)
  Theorem C04s_history ops s age :
    sess_at fsz d0 v0 s -> PrHandles.handles_ok age s ->
    age + N.of_nat (length ops) < U32 - 1 -> Forall (sop_scope_ok idx0) ops -> xops_guard ops s ->
    exists ws, PrOrder.tsteps s (snd (xrun_ops ops s)) ws /\ Forall (PrBounds.in_region v0 fsz) ws.
  Proof.
    intros Hs Hh Hage Hops Hg. pose proof (C03s_history ops s age Hs Hh Hage Hops Hg) as H.
    destruct (xrun_ops ops s) as [rs s']. cbn [snd]. tauto.
  Qed.

  (* in terms of the MEDIUM: whatever sessions happen, every block outside the regions of the volume -
     the master boot record, the boot sector, the other partitions - holds what it held at the start *)
  Theorem C04s_medium_outside ops s age j :
    sess_at fsz d0 v0 s -> PrHandles.handles_ok age s ->
    age + N.of_nat (length ops) < U32 - 1 -> Forall (sop_scope_ok idx0) ops -> xops_guard ops s ->
    ~ PrBounds.in_region v0 fsz j ->
    disk_get (s_disk (snd (xrun_ops ops s))) j = disk_get (s_disk s) j.
  Proof.
    intros Hs Hh Hage Hops Hg Hj. destruct (C04s_history ops s age Hs Hh Hage Hops Hg) as (ws & Ht & Hw).
    apply (tsteps_outside s _ ws j (traced_xrun_ops ops s) Ht). intros Hin.
    rewrite Forall_forall in Hw. exact (Hj (Hw j Hin)).
  Qed.

  (* ================================================================== C05 *)
  Lemma disk_inv_C05 d v bl rch T : disk_inv d v bl rch T [] ->
    Permutation (used_list d v) (rch ++ flat_map node_chain (all_nodes T)).
  Proof.
    intros [Hroot HT _ _ W _]. rewrite app_nil_r in W.
    rewrite (wf_used_perm _ _ _ W). unfold all_chains, heads. rewrite flat_map_app.
    fold (all_chains d v (flat_map node_heads T)). rewrite (all_chains_nodes _ _ _ _ HT).
    replace (flat_map (chain_l d v) (root_heads v)) with rch; [apply Permutation_refl|].
    unfold root_dir in Hroot. unfold root_heads. destruct (v_fat32 v).
    - destruct Hroot as (A & _). cbn [flat_map]. rewrite app_nil_r. symmetry. exact (chain_l_at _ _ _ _ A).
    - destruct Hroot as (-> & _). reflexivity.
  Qed.

  (* after any history of sessions, with no file open - a volume mounted or not -: the clusters marked
     in use on the medium are exactly (a permutation of) the clusters on the chains of the live files
     and directories, for a record of the reference geometry *)
  Theorem C05s_history ops s age :
    sess_at fsz d0 v0 s -> PrHandles.handles_ok age s ->
    age + N.of_nat (length ops) < U32 - 1 -> Forall (sop_scope_ok idx0) ops -> xops_guard ops s ->
    let s' := snd (xrun_ops ops s) in
    s_files s' = [] ->
    exists v bl rch T, relabel v0 v /\ (s_vols s' = [v] \/ (s_vols s' = [] /\ v = v0)) /\
      root_dir (s_disk s') v bl rch /\ tree_rep (s_disk s') v bl T /\
      Permutation (used_list (s_disk s') v) (rch ++ flat_map node_chain (all_nodes T)).
  Proof.
    intros Hs Hh Hage Hops Hg s' Hf.
    pose proof (C03s_history ops s age Hs Hh Hage Hops Hg) as H.
    subst s'. destruct (xrun_ops ops s) as [rs s1]. cbn [snd] in *. destruct H as (Hs1 & _).
    destruct (sa_phase _ _ _ _ Hs1) as [Hu|(vid & w & (vi & v & bl & rch & T & Hat) & Ev & R & _)].
    - destruct (su_disk _ _ _ Hu) as (bl & rch & T & Hdi). exists v0, bl, rch, T.
      split; [apply relabel_refl|]. split; [right; split; [exact (proj1 (su_fresh _ _ _ Hu))|reflexivity]|].
      split; [exact (di_root _ _ _ _ _ _ Hdi)|]. split; [exact (di_tree _ _ _ _ _ _ Hdi)|exact (disk_inv_C05 _ _ _ _ _ Hdi)].
    - assert (v = w) by (pose proof (fi_single _ _ _ _ _ _ _ _ Hat) as X; rewrite Ev in X; congruence). subst v.
      pose proof (fi_disk _ _ _ _ _ _ _ _ Hat) as Hd. exists w, bl, rch, T.
      split; [exact R|]. split; [left; exact Ev|].
      split; [exact (di_root _ _ _ _ _ _ Hd)|]. split; [exact (di_tree _ _ _ _ _ _ Hd)|].
      exact (proj2 (fs_inv_C05 fsz vid s1 vi w bl rch T Hat Hf)).
  Qed.

  (* ================================================================== C08: sessions *)
  (* from any state of the session invariant inside the handle window:
     - nothing mounted: OpenVol of the session's partition SUCCEEDS, returns the counter value, leaves the
       medium as it is, and the mounted state has the global invariant for a record of the reference
       geometry;
     - a volume mounted, no file open, no directory of the volume open: CloseVol of its handle and the
       drop of the Volume wrapper SUCCEED, end in the same state, and nothing is mounted afterwards *)
  Theorem C08s_cycle s age : sess_at fsz d0 v0 s -> PrHandles.handles_ok age s -> age < U32 - 1 ->
    (s_vols s = [] ->
       exists s', xstep (XOp (OpenVol idx0)) s = (Ok (XR (RHandle (s_next_id s))), s') /\
         sess_at fsz d0 v0 s' /\ fs_inv fsz (s_next_id s) s' /\ s_disk s' = s_disk s /\
         exists w, s_vols s' = [w] /\ v_id w = s_next_id s /\ relabel v0 w) /\
    (forall w, s_vols s = [w] -> s_files s = [] -> existsb (fun d => d_vol d =? v_id w) (s_dirs s) = false ->
       exists s', xstep (XOp (CloseVol (v_id w))) s = (Ok (XR RUnit), s') /\
         xstep (XDropVol (v_id w)) s = (Ok (XR RUnit), s') /\
         sess_at fsz d0 v0 s' /\ s_vols s' = [] /\ s_dirs s' = s_dirs s).
  Proof.
    intros Hs Hh Ha. assert (Ha1 : age < U32) by (unfold U32 in *; lia).
    pose proof (handles_ok_fresh age s Ha1 Hh) as Hid. split.
    - intros Ev. destruct (sa_phase _ _ _ _ Hs) as [Hu|(vid & w & _ & Ev' & _)]; [|rewrite Ev in Ev'; discriminate Ev'].
      destruct (xstep (XOp (OpenVol idx0)) s) as [r s'] eqn:E.
      destruct (sess_unmounted_openvol fsz idx0 d0 v0 s r s' Hwit Hs Hu E) as (-> & (_ & _ & Hs' & _) & Hinv).
      exists s'. split; [reflexivity|]. split; [exact Hs'|]. split; [exact Hinv|].
      cbn [xstep] in E. rewrite xlift_run in E.
      destruct (step (OpenVol idx0) s) as [r0 sx] eqn:E0. cbn [fst snd] in E. injection E as Er <-.
      destruct r0 as [x| | |]; cbn [omap] in Er; try discriminate. injection Er as ->.
      destruct (mount_run idx0 s _ sx (su_fresh _ _ _ Hu) E0) as (w & Ew & Eid & _ & _ & Ed & _).
      split; [exact Ed|]. exists w. split; [exact Ew|]. split; [exact Eid|].
      exact (proj1 (proj2 (C03s_mounted sx w Hs' Ew))).
    - intros w Ev Hf Hxd. destruct (C03s_mounted s w Hs Ev) as (Hinv & R & Ht).
      pose proof Hinv as (vi & v & bl & rch & T & Hat).
      assert (Hxf : existsb (fun f => f_vol f =? v_id w) (s_files s) = false) by (rewrite Hf; reflexivity).
      destruct (C08_mount_unmount fsz (v_id w) s vi v bl rch T Hat Hxf Hxd) as (s' & E8 & Ev' & Ed' & _).
      exists s'. assert (Ex : xstep (XOp (CloseVol (v_id w))) s = (Ok (XR RUnit), s')) by (cbn [xstep]; rewrite xlift_run, E8; reflexivity).
      split; [exact Ex|]. split.
      { cbn [xstep]. rewrite xlift_run, drop_volume_is_close. cbn [step] in E8. rewrite lift_run in E8.
        destruct (close_volume (v_id w) s) as [[u|e| |] sx]; cbn [fst snd omap] in E8; try discriminate.
        injection E8 as <-. reflexivity. }
      split; [|split; assumption].
      exact (proj1 (proj2 (proj2 (sess_step_ok fsz idx0 d0 v0 Hwit (XOp (CloseVol (v_id w))) s _ s' Hs Hid I I Ex)))).
  Qed.

  (* ... after any history: any number of mount / use / unmount cycles *)
  Theorem C08s_sessions ops s age :
    sess_at fsz d0 v0 s -> PrHandles.handles_ok age s ->
    age + N.of_nat (length ops) + 1 < U32 - 1 -> Forall (sop_scope_ok idx0) ops -> xops_guard ops s ->
    let s1 := snd (xrun_ops ops s) in
    (s_vols s1 = [] \/ exists w, s_vols s1 = [w]) /\
    (s_vols s1 = [] ->
       exists s', xstep (XOp (OpenVol idx0)) s1 = (Ok (XR (RHandle (s_next_id s1))), s') /\
         sess_at fsz d0 v0 s' /\ fs_inv fsz (s_next_id s1) s' /\ s_disk s' = s_disk s1 /\
         exists w, s_vols s' = [w] /\ v_id w = s_next_id s1 /\ relabel v0 w) /\
    (forall w, s_vols s1 = [w] -> s_files s1 = [] -> existsb (fun d => d_vol d =? v_id w) (s_dirs s1) = false ->
       exists s', xstep (XOp (CloseVol (v_id w))) s1 = (Ok (XR RUnit), s') /\
         xstep (XDropVol (v_id w)) s1 = (Ok (XR RUnit), s') /\
         sess_at fsz d0 v0 s' /\ s_vols s' = [] /\ s_dirs s' = s_dirs s1).
  Proof.
    intros Hs Hh Hage Hops Hg s1.
    assert (Hage' : age + N.of_nat (length ops) < U32 - 1) by lia.
    pose proof (C03s_history ops s age Hs Hh Hage' Hops Hg) as H.
    subst s1. destruct (xrun_ops ops s) as [rs sx]. cbn [snd]. destruct H as (Hs1 & Hh1 & _).
    split; [exact (sess_phase sx Hs1)|]. apply (C08s_cycle sx _ Hs1 Hh1). lia.
  Qed.
End Session.

(* ================================================================== a fresh manager on an accepted medium *)
(* the medium d mounts at partition idx0 (from SOME fresh manager - any limits, any counter) as v0, its
   blocks have 512 bytes and the decider accepts it for the record v0 and FAT size fsz: then a manager
   with room for ONE volume, freshly made on d, is in the session invariant (nothing mounted), inside
   the handle window - every history theorem above applies *)
Theorem C03s_from_init depth fsz d idx0 off' mv' md' mf' vid s1 v0 off md mf :
  blocks_wf d ->
  step (OpenVol idx0) (init_state d off' mv' md' mf' []) = (Ok (RHandle vid), s1) -> s_vols s1 = [v0] ->
  fs_inv_b depth fsz (s_disk s1) v0 [] = true -> off < U32 ->
  mount_witness d idx0 v0 /\ sess_at fsz d v0 (init_state d off 1 md mf []) /\
  PrHandles.handles_ok 0 (init_state d off 1 md mf []).
Proof.
  intros Hwf E Ev Hb Hoff. pose proof (fresh_init d off' mv' md' mf') as F.
  destruct (mount_run idx0 _ vid s1 F E) as (_ & _ & _ & _ & _ & Ed & _). cbn [init_state s_disk] in Ed.
  destruct (fs_inv_b_sound depth fsz _ v0 [] Hb) as ((L & Hdev & _) & bl & rch & T & Hdi).
  split; [exists (init_state d off' mv' md' mf' []), vid, s1; repeat split; try assumption; apply F|].
  split; [|exact (PrHandles.handles_ok_init d off 1 md mf [] Hoff)].
  constructor; try reflexivity.
  - pose proof (PrCrashMount2.mount_info_sig idx0 _ vid s1 v0 F Hwf E Ev) as X. rewrite Ed in X. exact X.
  - left. constructor.
    + apply fresh_init.
    + exact Hwf.
    + exact L.
    + exact Hdev.
    + exists bl, rch, T. rewrite Ed in Hdi. exact Hdi.
Qed.

(* ================================================================== examples *)
(* PrGlobalMount's formatted FAT16 partition (5000 clusters; root: A, D, B): the hypotheses hold of a
   manager with room for one volume *)
Definition sx_s0 : st := init_state mx_disk 0 1 4 4 [].
Example sx_session : exists v0, mount_witness mx_disk 0 v0 /\ sess_at 32 mx_disk v0 sx_s0 /\ PrHandles.handles_ok 0 sx_s0.
Proof.
  destruct mx_mounted as (v & M & _). exists v.
  apply (C03s_from_init 5 32 mx_disk 0 0 4 4 4 0 mx_s1 v 0 4 4).
  - exact mx_disk_wf.
  - exact (mo_open _ _ _ _ _ _ _ _ M).
  - exact (mo_vol _ _ _ _ _ _ _ _ M).
  - exact (mo_b _ _ _ _ _ _ _ _ M).
  - unfold U32. lia.
Qed.

(* two sessions and a third mount: mount (handle 0), open the root (1), list it with long names, cd into D
   (handle 2; 1 is closed), drop the directory, unmount; OpenRoot on the dead volume handle still hands out
   a (stale root) handle 3, a lookup through it is refused (BadHandle), it is dropped; mount again (handle 4),
   a second mount is refused (room for one volume), the Volume wrapper is dropped; mount a third time (5) *)
Definition sx_ops : list xop :=
  [XOp (OpenVol 0); XOp (OpenRoot 0); XIterLfn 1 64; XChangeDir 1 [68]; XDropDir 2; XOp (CloseVol 0);
   XOp (OpenRoot 0); XOp (Find 3 [65]); XDropDir 3;
   XOp (OpenVol 0); XOp (OpenVol 0); XDropVol 4; XOp (OpenVol 0)].

Example sx_scope : Forall (sop_scope_ok 0) sx_ops /\ xops_guard sx_ops sx_s0.
Proof. split; [repeat constructor|cbn [sx_ops xops_guard xop_guard]; tauto]. Qed.

Example sx_history : exists v0, mount_witness mx_disk 0 v0 /\
  let '(rs, s') := xrun_ops sx_ops sx_s0 in
  sess_at 32 mx_disk v0 s' /\ Forall (fun r => r <> Panic /\ r <> OutOfFuel) rs /\
  exists ws, PrOrder.tsteps sx_s0 s' ws /\ Forall (PrBounds.in_region v0 32) ws.
Proof.
  destruct sx_session as (v0 & Hw & Hs & Hh). exists v0. split; [exact Hw|].
  destruct sx_scope as (Hsc & Hg).
  pose proof (C03s_history 32 0 mx_disk v0 Hw sx_ops sx_s0 0 Hs Hh ltac:(cbn; unfold U32; lia) Hsc Hg) as H.
  destruct (xrun_ops sx_ops sx_s0) as [rs s']. tauto.
Qed.

(* what the model answers (0 = Ok with the handle, or 99; 1 = Err: 1 TooManyOpenVolumes, 2 BadHandle) *)
Definition sx_cls (r : outcome xres) : N * N :=
  match r with
  | Ok (XR (RHandle h)) => (0, h) | Ok _ => (0, 99)
  | Err TooManyOpenVolumes => (1, 1) | Err BadHandle => (1, 2) | Err _ => (1, 0)
  | Panic => (2, 0) | OutOfFuel => (3, 0)
  end.
Example sx_results :
  map sx_cls (fst (xrun_ops sx_ops sx_s0)) =
    [(0, 0); (0, 1); (0, 99); (0, 2); (0, 99); (0, 99); (0, 3); (1, 2); (0, 99); (0, 4); (1, 1); (0, 99); (0, 5)] /\
  length (s_vols (snd (xrun_ops sx_ops sx_s0))) = 1%nat.
Proof. vm_compute. split; reflexivity. Qed.

Print Assumptions C03s_history.
Print Assumptions C03s_after_every_call.
Print Assumptions C03s_mounted.
Print Assumptions C03s_unmounted.
Print Assumptions C04s_history.
Print Assumptions C04s_medium_outside.
Print Assumptions C05s_history.
Print Assumptions C08s_cycle.
Print Assumptions C08s_sessions.
Print Assumptions C03s_from_init.
Print Assumptions sx_session.
Print Assumptions sx_history.
