(* PROOFS for the SESSION invariant, part 5: C16 over histories of SESSIONS (OpenVol / CloseVol / the
   drop of a Volume inside, a manager with room for one volume).
     1  sess_case / sess_step_cases: what a call of a session is - a call of the one-volume development
        on the mounted volume, a call that leaves medium and volume table alone, THE mount, THE unmount
     2  shistory_pres: a property kept by every call is kept by every history
     3  C16_close_volume_stores: what a successful CloseVol leaves in the FAT32 information sector
     4  C16s_history, C16s_truthful_across_sessions, C16s_within_session, C16s_mount_reads *)
From Coq Require Import NArith ZArith List Bool Lia Arith FMapPositive Permutation.
From SdFs Require Import FsTypes FsBase FsFat FsMgr FsExt FsLemmas PrBase PrFat PrAlloc PrDir PrRw PrChain PrCount PrWf PrOpenClose.
From SdFs Require PrHandles PrOrder PrBounds PrCrash PrCrashDef PrCrashMount PrCrashMount2 PrMountLayout.
From SdFs Require Import PrGlobalDef PrGlobalOpen PrGlobal PrGlobalMount.
From SdFs Require Import PrC16Def.
From SdFs Require PrC16 PrC16Open PrC16Write PrGlobalOpen2.
From SdFs Require Import PrExt PrExt2 PrExt3.
From SdFs Require Import PrSess PrSess2 PrSess3.
From SdFs Require Import PrSess4.
Import ListNotations.
Open Scope N_scope.
Local Arguments N.mul : simpl never.
Local Arguments N.add : simpl never.
Local Arguments N.sub : simpl never.

(* ================================================================== 3. CloseVol and the information sector *)
(* close_volume's update_info_sector (the close-VOLUME analogue of PrC16.C16_history_flush): only the
   FAT32 information sector is rewritten; no FAT sector changes, so mirroring and the number of free
   entries are what they were; a truthful count is stored (the field is then the number of free entries
   of the medium as it is AFTERWARDS), an unknown count leaves the field alone, likewise the hint *)
Theorem C16_close_volume_stores fsz vid s vi v bl rch T s1 :
  fs_inv_at fsz vid s vi v bl rch T -> update_info_sector 0 s = (Ok tt, s1) ->
  (forall j, j <> v_info v -> disk_get (s_disk s1) j = disk_get (s_disk s) j) /\
  (v_fat32 v = false -> s_disk s1 = s_disk s) /\
  (forall copy k, k < fsz ->
     disk_get (s_disk s1) (fat_copy_sector v copy k) = disk_get (s_disk s) (fat_copy_sector v copy k)) /\
  (fat_mirrored (s_disk s1) v fsz <-> fat_mirrored (s_disk s) v fsz) /\
  free_entries (s_disk s1) v = free_entries (s_disk s) v /\
  (v_fat32 v = true ->
     (truthful (s_disk s) v ->
        le32 (disk_get (s_disk s1) (v_info v)) 488 = N.of_nat (free_entries (s_disk s1) v)) /\
     (v_free v = None ->
        le32 (disk_get (s_disk s1) (v_info v)) 488 = le32 (disk_get (s_disk s) (v_info v)) 488) /\
     (hint_in v -> forall c, v_next_free v = Some c -> le32 (disk_get (s_disk s1) (v_info v)) 492 = c) /\
     (v_next_free v = None ->
        le32 (disk_get (s_disk s1) (v_info v)) 492 = le32 (disk_get (s_disk s) (v_info v)) 492)).
Proof.
  intros Hat Eu.
  destruct (go_facts _ _ _ _ _ _ _ _ Hat) as (_ & Hnf & Hc & _ & _ & Hv0 & Hvok & L & Hwf & _).
  pose proof (fi_layout _ _ _ _ _ _ _ _ Hat) as PL.
  (* the run, case by case *)
  assert (Hrun : (s1 = s /\ (v_fat32 v = false \/ (v_free v = None /\ v_next_free v = None))) \/
     (v_fat32 v = true /\
      (forall j, j <> v_info v -> disk_get (s_disk s1) j = disk_get (s_disk s) j) /\
      le32 (disk_get (s_disk s1) (v_info v)) 488 =
        match v_free v with Some c => c mod 4294967296 | None => le32 (disk_get (s_disk s) (v_info v)) 488 end /\
      le32 (disk_get (s_disk s1) (v_info v)) 492 =
        match v_next_free v with Some c => c mod 4294967296 | None => le32 (disk_get (s_disk s) (v_info v)) 492 end)).
  { destruct (v_fat32 v) eqn:E32.
    2:{ left. rewrite (update_info_sector_fat16 0 s v Hv0 E32) in Eu. injection Eu as <-. split; [reflexivity|left; reflexivity]. }
    destruct (v_free v) as [fc|] eqn:Ef; [|destruct (v_next_free v) as [nx|] eqn:En].
    3:{ left. rewrite (update_info_sector_none 0 s v Hv0 Ef En) in Eu. injection Eu as <-.
        split; [reflexivity|right; split; reflexivity]. }
    - right. split; [reflexivity|].
      destruct (update_info_sector_spec 0 s v Hnf Hc Hv0 E32 ltac:(left; rewrite Ef; discriminate) (Hwf _))
        as (s' & nb & Hr & _ & Hnb & Hoth & _ & _ & H488 & H492 & _).
      rewrite Eu in Hr. injection Hr as <-. rewrite Hnb. rewrite Ef in H488.
      split; [exact Hoth|]. split; [exact H488|exact H492].
    - right. split; [reflexivity|].
      destruct (update_info_sector_spec 0 s v Hnf Hc Hv0 E32 ltac:(right; rewrite En; discriminate) (Hwf _))
        as (s' & nb & Hr & _ & Hnb & Hoth & _ & _ & H488 & H492 & _).
      rewrite Eu in Hr. injection Hr as <-. rewrite Hnb. rewrite Ef in H488. rewrite En in H492.
      split; [exact Hoth|]. split; [exact H488|exact H492]. }
  assert (Hoth : forall j, j <> v_info v -> disk_get (s_disk s1) j = disk_get (s_disk s) j).
  { destruct Hrun as [(-> & _)|(_ & H & _)]; [reflexivity|exact H]. }
  assert (Hfat : forall copy k, k < fsz ->
            disk_get (s_disk s1) (fat_copy_sector v copy k) = disk_get (s_disk s) (fat_copy_sector v copy k)).
  { intros copy k Hk. destruct Hrun as [(-> & _)|(E32 & _)]; [reflexivity|]. apply Hoth.
    apply not_eq_sym. apply (PrC16Write.c16_not_fat v _ fsz (v_info v) PL); [|exact Hk].
    right. split; [exact E32|reflexivity]. }
  assert (Hfe : free_entries (s_disk s1) v = free_entries (s_disk s) v).
  { apply free_entries_iff. intros c C1 C2.
    rewrite (PrAllocEffect.fat_get_same_sector (s_disk s1) (s_disk s) v c); [tauto|].
    symmetry. exact (Hfat 0 _ (PrAllocEffect.layout_sector v fsz c L C2)). }
  split; [exact Hoth|]. split.
  { intros E16. destruct Hrun as [(-> & _)|(E32 & _)]; [reflexivity|congruence]. }
  split; [exact Hfat|]. split.
  { unfold fat_mirrored. split; intros H k Hk; specialize (H k Hk);
      rewrite ?(Hfat 1 k Hk), ?(Hfat 0 k Hk) in *; exact H. }
  split; [exact Hfe|].
  intros E32. destruct Hrun as [(-> & [E16|(Ef & En)])|(_ & _ & H488 & H492)].
  - congruence.
  - split; [intros Tr; unfold truthful in Tr; congruence|]. split; [reflexivity|].
    split; [intros _ c Ec; congruence|reflexivity].
  - split; [|split; [|split]].
    + intros Tr. rewrite H488, Hfe. pose proof (truthful_u32 _ _ Hvok Tr) as U. unfold truthful in Tr.
      rewrite Tr. apply N.mod_small. apply (U _ Tr).
    + intros Ef. rewrite H488, Ef. reflexivity.
    + intros Hh c Ec. rewrite H492, Ec. apply N.mod_small. destruct (Hh c Ec) as (_ & B).
      pose proof (PrAlloc.vo_entries v Hvok) as X. unfold U32 in X. lia.
    + intros En. rewrite H492, En. reflexivity.
Qed.

Section Session.
  Variables (fsz idx0 : N) (d0 : disk) (v0 : vol).
  Hypothesis Hwit : mount_witness d0 idx0 v0.

  (* ================================================================== 1. the four kinds of call *)
  Inductive sess_case (s : st) (o : xop) (r : outcome xres) (s' : st) : Prop :=
  | sc_generic vid w y :
      fs_inv fsz vid s -> s_vols s = [w] -> relabel v0 w -> id_fresh s -> xop_scope_ok o -> xop_guard o s ->
      fs_inv fsz vid s' -> s_vols s' = [y] -> geo_eq w y -> sess_case s o r s'
  | sc_still : ushape s s' -> sess_case s o r s'
  | sc_mount w :
      sess_unmounted fsz v0 s -> o = XOp (OpenVol idx0) -> r = Ok (XR (RHandle (s_next_id s))) ->
      step (OpenVol idx0) s = (Ok (RHandle (s_next_id s)), s') ->
      s_vols s' = [w] -> v_id w = s_next_id s -> relabel v0 w -> s_disk s' = s_disk s ->
      fs_inv fsz (s_next_id s) s' -> sess_case s o r s'
  | sc_unmount vid vi w bl rch T s1 :
      fs_inv_at fsz vid s vi w bl rch T -> relabel v0 w -> (o = XOp (CloseVol vid) \/ o = XDropVol vid) ->
      r = Ok (XR RUnit) ->
      existsb (fun f => f_vol f =? vid) (s_files s) = false ->
      existsb (fun d => d_vol d =? vid) (s_dirs s) = false ->
      update_info_sector 0 s = (Ok tt, s1) -> step (CloseVol vid) s = (Ok RUnit, set_s_vols s1 []) ->
      s' = set_s_vols s1 [] -> sess_case s o r s'.

  Theorem sess_step_cases o s r s' :
    sess_at fsz d0 v0 s -> id_fresh s -> sop_scope_ok idx0 o -> xop_guard o s -> xstep o s = (r, s') ->
    sess_case s o r s'.
  Proof.
    intros Hs Hid Ho Hg E. destruct (sa_phase _ _ _ _ Hs) as [Hu|Hm].
    - (* nothing mounted *)
      assert (Hcase : (exists idx, o = XOp (OpenVol idx)) \/ match o with XOp (OpenVol _) => False | _ => True end).
      { destruct o as [o| | | | | | | |]; try (right; exact I). destruct o; try (right; exact I). left. eexists. reflexivity. }
      destruct Hcase as [(idx & ->)|Hno].
      + cbn [sop_scope_ok] in Ho. subst idx.
        destruct (sess_unmounted_openvol fsz idx0 d0 v0 s r s' Hwit Hs Hu E) as (-> & (_ & _ & Hs' & _) & Hinv).
        cbn [xstep] in E. rewrite xlift_run in E.
        destruct (step (OpenVol idx0) s) as [r0 sx] eqn:E0. cbn [fst snd] in E. injection E as Er <-.
        destruct r0 as [x| | |]; cbn [omap] in Er; try discriminate. injection Er as ->.
        destruct (mount_run idx0 s _ sx (su_fresh _ _ _ Hu) E0) as (w & Ew & Eid & _ & _ & Ed & _).
        apply (sc_mount s _ _ sx w); try assumption; try reflexivity.
        exact (proj1 (proj2 (C03s_mounted fsz d0 v0 sx w Hs' Ew))).
      + destruct (su_fresh _ _ _ Hu) as (Fv & _ & Ff & Fl & _).
        destruct (xstep_unmounted s Fv Ff Fl idx0 o Hno Ho Hg) as (r1 & s1 & E1 & _ & U).
        rewrite E in E1. injection E1 as <- <-. exact (sc_still _ _ _ _ U).
    - (* a volume is mounted *)
      assert (Hcase : (exists idx, o = XOp (OpenVol idx)) \/ (exists h, o = XOp (CloseVol h) \/ o = XDropVol h) \/
                      match o with XOp (OpenVol _) | XOp (CloseVol _) | XDropVol _ => False | _ => True end).
      { destruct o as [o| | | | | | | |]; try (right; right; exact I).
        - destruct o; try (right; right; exact I); [left|right; left]; eexists; [reflexivity|left; reflexivity].
        - right. left. eexists. right. reflexivity. }
      destruct Hcase as [(idx & ->)|[(h & Hh)|Hno]].
      + destruct (sess_mounted_openvol fsz d0 v0 s idx r s' Hs Hm E) as (-> & ->).
        apply sc_still. apply ushape_refl.
      + destruct Hm as (vid & w & Hinv & Ev & R & Ht).
        assert (Hrun : s' = snd (close_volume h s) /\ (fst (close_volume h s) = Ok tt -> r = Ok (XR RUnit))).
        { destruct Hh as [-> | ->]; cbn [xstep step] in E; rewrite xlift_run in E.
          - rewrite lift_run in E. cbn [fst snd] in E. injection E as <- <-. split; [reflexivity|].
            intros ->. reflexivity.
          - rewrite drop_volume_is_close in E.
            destruct (close_volume h s) as [[u|e| |] sx]; cbn [fst snd discard omap] in *;
              injection E as <- <-; (split; [reflexivity|]); intros X; try discriminate X; reflexivity. }
        destruct Hrun as (-> & Hok).
        destruct (close_volume_mounted fsz vid s w h Hinv Ev) as [(e & Ec)|(-> & Hxf & Hxd & s1 & Eu & Ec)].
        * rewrite Ec. cbn [snd]. apply sc_still. apply ushape_refl.
        * rewrite Ec in *. cbn [fst snd] in *.
          destruct Hinv as (vi & v & bl & rch & T & Hat).
          assert (v = w) by (pose proof (fi_single _ _ _ _ _ _ _ _ Hat) as X; rewrite Ev in X; congruence). subst v.
          apply (sc_unmount s o _ _ vid vi w bl rch T s1); try assumption; try reflexivity.
          -- exact (Hok eq_refl).
          -- cbn [step]. rewrite lift_run, Ec. reflexivity.
      + destruct Hm as (vid & w & Hinv & Ev & R & Ht).
        pose proof (sop_xscope idx0 o Ho Hno) as Hsc.
        destruct (all_xsteps_ok fsz vid o s r s' Hinv Hid Hsc Hg E) as (_ & _ & Hinv' & (x & y & Ex & Ey & G) & _).
        rewrite Ev in Ex. injection Ex as <-.
        exact (sc_generic s o r s' vid w y Hinv Ev R Hid Hsc Hg Hinv' Ey G).
  Qed.

  (* ================================================================== 2. properties kept by every call *)
  (* Q restricts the calls of the history (e.g. "no unmount") *)
  Theorem shistory_pres (Q : xop -> Prop) (P : st -> Prop) :
    (forall o s r s', sess_at fsz d0 v0 s -> id_fresh s -> sop_scope_ok idx0 o -> Q o -> xop_guard o s ->
       xstep o s = (r, s') -> sess_at fsz d0 v0 s' -> P s -> P s') ->
    forall ops s age, sess_at fsz d0 v0 s -> PrHandles.handles_ok age s ->
      age + N.of_nat (length ops) < U32 - 1 -> Forall (sop_scope_ok idx0) ops -> Forall Q ops -> xops_guard ops s ->
      P s -> P (snd (xrun_ops ops s)).
  Proof.
    intros Hstep. induction ops as [|o rest IH]; intros s age Hs Hh Hage Hops HQ Hg HP.
    - exact HP.
    - cbn [xrun_ops]. destruct (xstep o s) as [r s1] eqn:Es.
      inversion Hops as [|? ? Ho Hrest]; subst. inversion HQ as [|? ? HQo HQrest]; subst. cbn [length] in Hage.
      cbn [xops_guard] in Hg. rewrite Es in Hg. destruct Hg as (Hg0 & Hg1). cbn [snd] in Hg1.
      assert (Ha1 : age < U32) by (unfold U32 in *; lia).
      assert (Ha2 : age < U32 - 1) by (unfold U32 in *; lia).
      assert (Ha3 : age + 1 + N.of_nat (length rest) < U32 - 1).
      { rewrite Nat2N.inj_succ in Hage. unfold U32 in *. lia. }
      pose proof (handles_ok_fresh age s Ha1 Hh) as Hid.
      destruct (sess_step_ok fsz idx0 d0 v0 Hwit o s r s1 Hs Hid Ho Hg0 Es) as (_ & _ & Hs1 & _).
      pose proof (C08x_handles_ok_step age o s Ha2 (sop_xremount idx0 o Ho) Hh) as Hh1.
      rewrite Es in Hh1. cbn [snd] in Hh1.
      specialize (IH s1 (age + 1) Hs1 Hh1 Ha3 Hrest HQrest Hg1 (Hstep o s r s1 Hs Hid Ho HQo Hg0 Es Hs1 HP)).
      destruct (xrun_ops rest s1) as [rs s']. cbn [snd] in *. exact IH.
  Qed.

  (* ================================================================== 4. C16 over sessions *)
  (* nothing in the C16 vocabulary looks at the handle or the free-space record *)
  Lemma rl_c16 w d : relabel v0 w ->
    (fat_mirrored d w fsz <-> fat_mirrored d v0 fsz) /\ free_entries d w = free_entries d v0 /\
    v_info w = v_info v0 /\ v_fat32 w = v_fat32 v0 /\ v_clusters w = v_clusters v0.
  Proof. intros (i & a & b & ->). repeat split; intros H; exact H. Qed.

  (* MIRROR, on the raw medium, with the reference record: meaningful in both phases *)
  Definition smirror (s : st) : Prop := fat_mirrored (s_disk s) v0 fsz.
  (* TRUTHFUL: mounted - the in-memory count is the number of free FAT entries; not mounted - FAT32 and
     the count stored in the information sector is the number of free FAT entries of the medium *)
  Definition stored_truthful (d : disk) : Prop :=
    v_fat32 v0 = true /\ le32 (disk_get d (v_info v0)) 488 = N.of_nat (free_entries d v0).
  Definition struthful (s : st) : Prop :=
    match s_vols s with [] => stored_truthful (s_disk s) | w :: _ => truthful (s_disk s) w end.

  Lemma smirror_mounted s w : s_vols s = [w] -> relabel v0 w -> (smirror s <-> mirror_inv fsz s).
  Proof.
    intros Ev R. unfold smirror, mirror_inv. rewrite Ev. split.
    - intros H x [<-|[]]. apply (proj1 (rl_c16 w _ R)). exact H.
    - intros H. apply (proj1 (rl_c16 w _ R)). apply H. left. reflexivity.
  Qed.
  Lemma smirror_decide s : mirror_b (s_disk s) v0 fsz = true -> smirror s.
  Proof. apply mirror_b_ok. Qed.

  Lemma ushape_same s s' : ushape s s' -> s_disk s' = s_disk s /\ s_vols s' = s_vols s.
  Proof. intros (n & l & ->). split; reflexivity. Qed.

  Section Step.
    Variables (o : xop) (s : st) (r : outcome xres) (s' : st).
    Hypothesis Hs : sess_at fsz d0 v0 s.
    Hypothesis Hid : id_fresh s.
    Hypothesis Ho : sop_scope_ok idx0 o.
    Hypothesis Hg : xop_guard o s.
    Hypothesis E : xstep o s = (r, s').

    Lemma smirror_step : smirror s -> smirror s'.
    Proof.
      intros H.
      destruct (sess_step_cases o s r s' Hs Hid Ho Hg E)
        as [vid w y Hinv Ev R Hid' Hsc Hg' Hinv' Ey G | U | w Hu Eo Er E0 Ew Eid R Ed Hinv'
            | vid vi w bl rch T s1 Hat R Hoc Er Hxf Hxd Eu E8 Es'].
      - destruct (all_xsteps_c16 fsz vid o s r s' Hinv Hid Hsc Hg E) as (M & _).
        pose proof (relabel_geo_r v0 w y R G) as R'.
        apply (smirror_mounted s' y Ey R'). apply M. apply (smirror_mounted s w Ev R). exact H.
      - unfold smirror. rewrite (proj1 (ushape_same _ _ U)). exact H.
      - unfold smirror. rewrite Ed. exact H.
      - subst s'. unfold smirror. cbn [s_disk set_s_vols].
        destruct (C16_close_volume_stores fsz vid s vi w bl rch T s1 Hat Eu) as (_ & _ & _ & M & _).
        apply (proj1 (rl_c16 w _ R)). apply M. apply (proj1 (rl_c16 w _ R)). exact H.
    Qed.

    Lemma shint_step : hint_inv s -> hint_inv s'.
    Proof.
      intros H.
      destruct (sess_step_cases o s r s' Hs Hid Ho Hg E)
        as [vid w y Hinv Ev R Hid' Hsc Hg' Hinv' Ey G | U | w Hu Eo Er E0 Ew Eid R Ed Hinv'
            | vid vi w bl rch T s1 Hat R Hoc Er Hxf Hxd Eu E8 Es'].
      - exact (proj2 (proj2 (proj2 (all_xsteps_c16 fsz vid o s r s' Hinv Hid Hsc Hg E))) H).
      - unfold hint_inv. rewrite (proj2 (ushape_same _ _ U)). exact H.
      - (* the mount establishes it, whatever the information sector holds *)
        intros x Hx. rewrite Ew in Hx. destruct Hx as [<-|[]]. intros c Ec.
        destruct (v_fat32 w) eqn:E32.
        + destruct (mount_reads_info idx0 s _ s' w (su_fresh _ _ _ Hu) E0 Ew E32) as (_ & Hn).
          rewrite Hn in Ec. unfold dec_hint in Ec.
          destruct (N.eqb_spec (le32 (disk_get (s_disk s) (v_info w)) 492) 4294967295) as [|N1]; [discriminate Ec|].
          destruct (N.eqb_spec (le32 (disk_get (s_disk s) (v_info w)) 492) 0) as [|N2]; [discriminate Ec|].
          destruct (N.eqb_spec (le32 (disk_get (s_disk s) (v_info w)) 492) 1) as [|N3]; [discriminate Ec|].
          destruct (N.leb_spec (v_clusters w + 2) (le32 (disk_get (s_disk s) (v_info w)) 492)) as [|N4]; [discriminate Ec|].
          cbn [orb] in Ec. injection Ec as <-. lia.
        + destruct (mount_run idx0 s _ s' (su_fresh _ _ _ Hu) E0) as (w' & Ew' & _ & _ & _ & _ & _ & _ & _ & _ & _ & _ & _ & MF).
          rewrite Ew in Ew'. injection Ew' as <-.
          destruct (PrMountLayout.mf_16 _ _ _ _ _ _ MF E32) as (_ & _ & _ & _ & En & _). congruence.
      - subst s'. intros x Hx. destruct Hx.
    Qed.

    Lemma struthful_step : v_fat32 v0 = true -> struthful s -> struthful s'.
    Proof.
      intros H32 H.
      destruct (sess_step_cases o s r s' Hs Hid Ho Hg E)
        as [vid w y Hinv Ev R Hid' Hsc Hg' Hinv' Ey G | U | w Hu Eo Er E0 Ew Eid R Ed Hinv'
            | vid vi w bl rch T s1 Hat R Hoc Er Hxf Hxd Eu E8 Es'].
      - destruct (all_xsteps_c16 fsz vid o s r s' Hinv Hid Hsc Hg E) as (_ & Tr & _).
        unfold struthful in *. rewrite Ev in H. rewrite Ey. apply Tr; [|rewrite Ey; left; reflexivity].
        intros x Hx. rewrite Ev in Hx. destruct Hx as [<-|[]]. exact H.
      - destruct (ushape_same _ _ U) as (Ed & Ev). unfold struthful in *. rewrite Ev, Ed. exact H.
      - (* the mount reads the stored count back *)
        destruct (su_fresh _ _ _ Hu) as (Fv & _).
        unfold struthful in *. rewrite Fv in H. rewrite Ew. destruct H as (_ & H488).
        destruct (rl_c16 w (s_disk s) R) as (_ & Efe & Ei & E32 & Ecl).
        rewrite H32 in E32.
        destruct (mount_reads_info idx0 s _ s' w (su_fresh _ _ _ Hu) E0 Ew E32) as (Hf & _).
        rewrite Ei, H488 in Hf. unfold truthful. rewrite Ed, Efe, Hf. unfold dec_free.
        destruct (N.eqb_spec (N.of_nat (free_entries (s_disk s) v0)) 4294967295) as [X|_]; [|reflexivity].
        exfalso. pose proof (free_entries_bound (s_disk s) v0) as B.
        destruct Hinv' as (vi' & v' & bl' & rch' & T' & Hat').
        destruct (go_facts _ _ _ _ _ _ _ _ Hat') as (_ & _ & _ & Ev' & _ & _ & Hvok & _).
        rewrite Ew in Ev'. injection Ev' as <-.
        pose proof (PrAlloc.vo_entries w Hvok) as V. rewrite Ecl in V. unfold U32 in V. lia.
      - (* the unmount stores it *)
        subst s'. unfold struthful in *. rewrite (fi_single _ _ _ _ _ _ _ _ Hat) in H. cbn [s_vols s_disk set_s_vols].
        destruct (rl_c16 w (s_disk s1) R) as (_ & Efe & Ei & E32 & _). rewrite H32 in E32.
        destruct (C16_close_volume_stores fsz vid s vi w bl rch T s1 Hat Eu) as (_ & _ & _ & _ & _ & Hst).
        destruct (Hst E32) as (Ht & _). split; [exact H32|]. rewrite <- Ei, <- Efe. exact (Ht H).
    Qed.
  End Step.

  Definition any_op (o : xop) : Prop := True.
  Lemma all_any ops : Forall any_op ops.
  Proof. apply Forall_forall. intros x _. exact I. Qed.

  (* C16 along any history of sessions.
     MIRROR: copies identical at the start -> identical after every call of every session;
     HINT: after every call the hint of a mounted record is unknown or in range (vacuous at the start
       when nothing is mounted: EVERY mount establishes it, whatever the information sector holds);
     TRUTHFUL, FAT32, ACROSS SESSIONS: mounted with a truthful count or not mounted with a truthful
       stored count -> the same after every call: the unmount stores the count, the next mount reads
       it back.  (On FAT16 every mount leaves the count unknown: C16s_mount_reads.) *)
  Theorem C16s_history ops s age :
    sess_at fsz d0 v0 s -> PrHandles.handles_ok age s ->
    age + N.of_nat (length ops) < U32 - 1 -> Forall (sop_scope_ok idx0) ops -> xops_guard ops s ->
    let s' := snd (xrun_ops ops s) in
    (smirror s -> smirror s') /\ (hint_inv s -> hint_inv s') /\
    (v_fat32 v0 = true -> struthful s -> struthful s').
  Proof.
    intros Hs Hh Hage Hops Hg. cbv zeta. split; [|split].
    - apply (shistory_pres any_op smirror) with (age := age); try assumption; [|apply all_any].
      intros o s0 r s1 A B C _ D F _. exact (smirror_step o s0 r s1 A B C D F).
    - apply (shistory_pres any_op hint_inv) with (age := age); try assumption; [|apply all_any].
      intros o s0 r s1 A B C _ D F _. exact (shint_step o s0 r s1 A B C D F).
    - intros H32. apply (shistory_pres any_op struthful) with (age := age); try assumption; [|apply all_any].
      intros o s0 r s1 A B C _ D F _. exact (struthful_step o s0 r s1 A B C D F H32).
  Qed.

  Theorem C16s_truthful_across_sessions ops s age :
    sess_at fsz d0 v0 s -> PrHandles.handles_ok age s ->
    age + N.of_nat (length ops) < U32 - 1 -> Forall (sop_scope_ok idx0) ops -> xops_guard ops s ->
    v_fat32 v0 = true -> struthful s ->
    let s' := snd (xrun_ops ops s) in
    (forall w, s_vols s' = [w] -> truthful (s_disk s') w) /\
    (s_vols s' = [] ->
       le32 (disk_get (s_disk s') (v_info v0)) 488 = N.of_nat (free_entries (s_disk s') v0)).
  Proof.
    intros Hs Hh Hage Hops Hg H32 H. cbv zeta.
    pose proof (proj2 (proj2 (C16s_history ops s age Hs Hh Hage Hops Hg)) H32 H) as H'.
    unfold struthful in H'. split.
    - intros w Ew. rewrite Ew in H'. exact H'.
    - intros Ev. rewrite Ev in H'. exact (proj2 H').
  Qed.

  (* what a mount finds: from a state of the session invariant with nothing mounted, OpenVol gives a
     record whose count and hint are DECODED FROM THE MEDIUM - fields 488 / 492 of the information
     sector on FAT32, both unknown on FAT16 *)
  Theorem C16s_mount_reads s r s' :
    sess_at fsz d0 v0 s -> s_vols s = [] -> xstep (XOp (OpenVol idx0)) s = (r, s') ->
    exists w, r = Ok (XR (RHandle (s_next_id s))) /\ s_vols s' = [w] /\ relabel v0 w /\ s_disk s' = s_disk s /\
      hint_in w /\
      (v_fat32 v0 = true ->
         v_free w = dec_free (le32 (disk_get (s_disk s) (v_info v0)) 488) /\
         v_next_free w = dec_hint (v_clusters v0) (le32 (disk_get (s_disk s) (v_info v0)) 492)) /\
      (v_fat32 v0 = false -> v_free w = None /\ v_next_free w = None).
  Proof.
    intros Hs Ev E.
    destruct (sa_phase _ _ _ _ Hs) as [Hu|(vid & w & _ & Ev' & _)]; [|rewrite Ev in Ev'; discriminate Ev'].
    destruct (sess_unmounted_openvol fsz idx0 d0 v0 s r s' Hwit Hs Hu E) as (-> & (_ & _ & Hs' & _) & Hinv).
    cbn [xstep] in E. rewrite xlift_run in E.
    destruct (step (OpenVol idx0) s) as [r0 sx] eqn:E0. cbn [fst snd] in E. injection E as Er <-.
    destruct r0 as [x| | |]; cbn [omap] in Er; try discriminate. injection Er as ->.
    destruct (mount_run idx0 s _ sx (su_fresh _ _ _ Hu) E0) as (w & Ew & _ & _ & _ & Ed & _ & _ & _ & _ & _ & _ & _ & MF).
    pose proof (proj1 (proj2 (C03s_mounted fsz d0 v0 sx w Hs' Ew))) as R.
    destruct (rl_c16 w (s_disk s) R) as (_ & _ & Ei & E32 & Ecl).
    exists w. split; [reflexivity|]. split; [exact Ew|]. split; [exact R|]. split; [exact Ed|].
    assert (Hr32 : v_fat32 w = true ->
              v_free w = dec_free (le32 (disk_get (s_disk s) (v_info v0)) 488) /\
              v_next_free w = dec_hint (v_clusters v0) (le32 (disk_get (s_disk s) (v_info v0)) 492)).
    { intros X. rewrite <- Ei, <- Ecl. exact (mount_reads_info idx0 s _ sx w (su_fresh _ _ _ Hu) E0 Ew X). }
    assert (Hr16 : v_fat32 w = false -> v_free w = None /\ v_next_free w = None).
    { intros X. destruct (PrMountLayout.mf_16 _ _ _ _ _ _ MF X) as (_ & _ & _ & A & B & _). split; assumption. }
    split; [|split].
    - intros c Ec. destruct (v_fat32 w) eqn:X.
      + destruct (Hr32 eq_refl) as (_ & Hn). rewrite Hn in Ec. unfold dec_hint in Ec. rewrite <- Ecl in Ec.
        destruct (N.eqb_spec (le32 (disk_get (s_disk s) (v_info v0)) 492) 4294967295) as [|N1]; [discriminate Ec|].
        destruct (N.eqb_spec (le32 (disk_get (s_disk s) (v_info v0)) 492) 0) as [|N2]; [discriminate Ec|].
        destruct (N.eqb_spec (le32 (disk_get (s_disk s) (v_info v0)) 492) 1) as [|N3]; [discriminate Ec|].
        destruct (N.leb_spec (v_clusters w + 2) (le32 (disk_get (s_disk s) (v_info v0)) 492)) as [|N4]; [discriminate Ec|].
        cbn [orb] in Ec. injection Ec as <-. lia.
      + destruct (Hr16 eq_refl) as (_ & Hn). congruence.
    - intros X. apply Hr32. congruence.
    - intros X. apply Hr16. congruence.
  Qed.

  (* WITHIN a session - relative to the record of the last mount: as long as no CloseVol / drop of the
     Volume is called the volume stays mounted, a truthful count stays truthful, an unknown count
     stays unknown (both FAT types) *)
  Definition no_unmount (o : xop) : Prop :=
    match o with XOp (CloseVol _) | XDropVol _ => False | _ => True end.

  Theorem C16s_within_session ops s age w :
    sess_at fsz d0 v0 s -> PrHandles.handles_ok age s ->
    age + N.of_nat (length ops) < U32 - 1 -> Forall (sop_scope_ok idx0) ops -> Forall no_unmount ops ->
    xops_guard ops s -> s_vols s = [w] ->
    let s' := snd (xrun_ops ops s) in
    exists y, s_vols s' = [y] /\
      (truthful (s_disk s) w -> truthful (s_disk s') y) /\ (v_free w = None -> v_free y = None).
  Proof.
    intros Hs Hh Hage Hops Hq Hg Ew. cbv zeta.
    apply (shistory_pres no_unmount
             (fun x => exists y, s_vols x = [y] /\ (truthful (s_disk s) w -> truthful (s_disk x) y) /\
                                 (v_free w = None -> v_free y = None)) ) with (age := age); try assumption.
    2:{ exists w. split; [exact Ew|]. split; intros H; exact H. }
    clear - Hwit. intros o s0 r s1 Hs0 Hid Ho Hq0 Hg0 E _ (y0 & Ey0 & HT & HU).
    destruct (sess_step_cases o s0 r s1 Hs0 Hid Ho Hg0 E)
      as [vid w1 y Hinv Ev R Hid' Hsc Hg' Hinv' Ey G | U | w1 Hu Eo Er E0 Ew1 Eid R Ed Hinv'
          | vid vi w1 bl rch T s2 Hat R Hoc Er Hxf Hxd Eu E8 Es'].
    - rewrite Ev in Ey0. injection Ey0 as <-.
      destruct (all_xsteps_c16 fsz vid o s0 r s1 Hinv Hid Hsc Hg0 E) as (_ & Tr & Un & _).
      exists y. split; [exact Ey|]. split.
      + intros X. apply Tr; [|rewrite Ey; left; reflexivity].
        intros x Hx. rewrite Ev in Hx. destruct Hx as [<-|[]]. exact (HT X).
      + intros X. apply Un; [|rewrite Ey; left; reflexivity].
        intros x Hx. rewrite Ev in Hx. destruct Hx as [<-|[]]. exact (HU X).
    - destruct (ushape_same _ _ U) as (Ed & Ev). exists y0. rewrite Ev, Ed. split; [exact Ey0|]. split; assumption.
    - destruct (su_fresh _ _ _ Hu) as (Fv & _). rewrite Fv in Ey0. discriminate Ey0.
    - destruct Hoc as [-> | ->]; destruct Hq0.
  Qed.
End Session.

Print Assumptions sess_step_cases.
Print Assumptions C16_close_volume_stores.
Print Assumptions C16s_history.
Print Assumptions C16s_truthful_across_sessions.
Print Assumptions C16s_mount_reads.
Print Assumptions C16s_within_session.

