(* C11 for whole histories, foundation: the FIRST device fault of a history.
   1. `arm s i`: the i-th device call from now fails, every other call succeeds; `nf s` (PrFault2): the
      same state with an empty schedule.  `agree s0 s`: equal up to the schedule.
   2. `book m` / `lockstep m`: a run under a pending single fault is, device call for device call, the
      run from `nf s` until the armed call; compositional family `ls_<function>` for every model
      function, `lockstep_step : forall o, lockstep (step o)`.
   3. the per-operation obligation `step_fault` and the statement of the assembly `C11_history`
      (proved in PrFaultDef3.v from `forall o, step_fault fsz vid o`). *)
From Coq Require Import NArith ZArith List Bool Lia Arith FMapPositive.
From SdFs Require Import FsTypes FsBase FsFat FsMgr FsLemmas PrBase PrAllocEffect PrChain PrFault PrGlobalDef.
From SdFs Require PrHandles PrCrash.
From SdFs Require Import PrFault2 PrCrashDef PrCrashDef2 PrCrashDef4.
Import ListNotations.
Open Scope N_scope.

(* ================================================================== 1. arming one fault *)
Definition arm (s : st) (i : N) : st := set_s_faults s [s_ncalls s + i].
Definition clear_faults (s : st) : st := nf s.
(* all fields equal except the schedule *)
Definition agree (s0 s : st) : Prop := nf s0 = nf s.

Lemma nf_arm s i : nf (arm s i) = nf s.
Proof. reflexivity. Qed.
Lemma nf_nf s : nf (nf s) = nf s.
Proof. reflexivity. Qed.
Lemma agree_arm s i : agree (nf s) (arm s i).
Proof. reflexivity. Qed.
Lemma agree_fields s0 s : agree s0 s ->
  s_disk s0 = s_disk s /\ s_cache s0 = s_cache s /\ s_tag s0 = s_tag s /\ s_vols s0 = s_vols s /\
  s_dirs s0 = s_dirs s /\ s_files s0 = s_files s /\ s_next_id s0 = s_next_id s /\ s_clock s0 = s_clock s /\
  s_ncalls s0 = s_ncalls s /\ s_trace s0 = s_trace s /\ s_lock s0 = s_lock s /\
  s_maxv s0 = s_maxv s /\ s_maxd s0 = s_maxd s /\ s_maxf s0 = s_maxf s.
Proof.
  unfold agree, nf, set_s_faults. intros H. injection H as H1 H2 H3 H4 H5 H6 H7 H8 H9 H10 H11 H12 H13 H14.
  repeat split; assumption.
Qed.

(* the fault of the schedule [n] is still to come / has fired *)
Definition pending (n : N) (s : st) : Prop := s_faults s = [n] /\ s_ncalls s <= n.
Definition passed (n : N) (s : st) : Prop := s_faults s = [n] /\ n < s_ncalls s.
Definition is_fail (c : devcall) : Prop :=
  match c with DReadFail _ | DWriteFail _ => True | _ => False end.

Lemma pending_arm s i : pending (s_ncalls s + i) (arm s i).
Proof. split; [reflexivity|]. cbn. lia. Qed.
Lemma passed_no_faults n s : passed n s -> no_faults s.
Proof. intros (F & H) k Hk. rewrite F in Hk. destruct Hk as [<-|[]]. exact H. Qed.

(* ================================================================== 2. lock-step *)
(* bookkeeping of ANY run under ANY schedule: the log grows by one event per device call, the
   schedule is never touched, and no failure is logged from a state whose faults are all behind it *)
Definition book {A} (m : M A) : Prop :=
  forall s r s', m s = (r, s') ->
    exists new, ext s s' new /\ s_ncalls s' = s_ncalls s + N.of_nat (length new) /\
                s_faults s' = s_faults s /\ (no_faults s -> ~ fails new).

(* a run of m under a pending single fault [n]:
   A. the armed call is not reached: result and final state are those of the run without the fault
      (up to the schedule), and the fault is still pending;
   B. it is reached: the log of the armed run is  post ++ fl :: pre  - fl the failed call, the n-th
      device call -, the run without the fault logs  rest0 ++ pre : the same calls before, then (at
      least) the call that failed here.  So the successful writes before the fault, dwr pre, are a
      PREFIX of the writes of the fault-free run (lockstep_media below); no second failure in post. *)
Definition lockstep {A} (m : M A) : Prop :=
  book m /\
  forall n s r s', pending n s -> m s = (r, s') ->
    (pending n s' /\ m (nf s) = (r, nf s'))
    \/ (exists pre fl post r0 s0 rest0,
          s_trace s' = post ++ fl :: pre ++ s_trace s /\ is_fail fl /\ ~ fails post /\
          s_ncalls s + N.of_nat (length pre) = n /\
          m (nf s) = (r0, s0) /\ s_trace s0 = rest0 ++ pre ++ s_trace s /\ rest0 <> []).

(* ================================================================== 3. the per-operation obligation *)
(* the handle tables after a call that hit the fault: the lock is free, the volume and directory
   tables hold the same handles in the same order, and so does the file table - except that CloseFile h has removed h (it always does, PrFault2.C11_close_file_after_fault) *)
Definition files_kept (o : op) (s s' : st) : Prop :=
  match o with
  | CloseFile h => exists i, nth_error (PrHandles.fids s) i = Some h /\
                             PrHandles.fids s' = swap_remove (PrHandles.fids s) i
  | _ => PrHandles.fids s' = PrHandles.fids s
  end.
Definition tables_kept (o : op) (s s' : st) : Prop :=
  s_lock s' = false /\ PrHandles.vids s' = PrHandles.vids s /\ PrHandles.dids s' = PrHandles.dids s /\
  files_kept o s s'.

(* the operations that never write: a call that failed on the (transient) fault can be retried *)
Definition retry_op (o : op) : bool :=
  match o with
  | OpenRoot _ | OpenDir _ _ | CloseDir _ | Find _ _ | Iter _ None | Label _ | HasOpen
  | Length _ | Offset _ | Eof _ | SeekStart _ _ | SeekCur _ _ | SeekEnd _ _ | IoSeek _ _ _ => true
  | _ => false
  end.
Definition read_op (o : op) : bool :=
  match o with Read _ _ | IoRead _ _ => true | _ => false end.
(* the state the failed call left satisfies the invariant again (its fault is behind it), with the
   same medium and the same tables: the same call, repeated, is a call without faults on the same
   file system, so every theorem about fault-free calls applies to it (PrFaultDef7 spells out
   "returns what the call returns when no fault is scheduled" for the lookups) *)
Definition retry_ok (fsz vid : N) (o : op) (s s' : st) : Prop :=
  fs_inv fsz vid s' /\ s_disk s' = s_disk s /\ s_vols s' = s_vols s /\ s_dirs s' = s_dirs s /\
  s_files s' = s_files s.
(* a failed Read may have consumed whole blocks before the fault (the offset advanced, the bytes
   were not delivered): the state is sound, the medium and every file record except the read
   cursor of that file are as before, the new offset lies between the old one and the end of file *)
Definition same_but_cursor (f f' : fileinfo) : Prop :=
  f_id f' = f_id f /\ f_vol f' = f_vol f /\ f_mode f' = f_mode f /\ f_entry f' = f_entry f /\
  f_dirty f' = f_dirty f /\ f_offset f <= f_offset f' <= e_size (f_entry f).
Definition retry_read_ok (fsz vid : N) (o : op) (s s' : st) : Prop :=
  fs_inv fsz vid s' /\ s_disk s' = s_disk s /\ s_vols s' = s_vols s /\
  Forall2 (fun f f' => f' = f \/ (same_but_cursor f f' /\
                                  match o with Read h _ | IoRead h _ => f_id f = h | _ => False end))
          (s_files s) (s_files s').

(* what must hold of a call that hit the armed fault *)
Record fault_outcome (fsz vid : N) (o : op) (s : st) (v : vol) (r : outcome res) (s' : st) : Prop :=
  mk_fault_outcome {
  fo_err : exists e, r = Err e;                                       (* (a) *)
  fo_tables : tables_kept o s s';                                     (* (b) *)
  fo_crash : crash_inv fsz v (s_disk s');                             (* (c) incl. unique names *)
  fo_keep : forall path e bytes, file_on_medium (s_disk s) v path e bytes -> ~ op_targets s v o e ->
              file_on_medium (s_disk s') v path e bytes;              (* (d) *)
  fo_retry : retry_op o = true -> retry_ok fsz vid o s s';            (* (e) *)
  fo_retry_read : read_op o = true -> retry_read_ok fsz vid o s s'
}.

Definition step_fault (fsz vid : N) (o : op) : Prop :=
  forall s i r s' v, fs_inv fsz vid s -> id_fresh s -> op_known_ok o -> s_vols s = [v] ->
    step o (arm s i) = (r, s') -> s_ncalls s + i < s_ncalls s' ->
    fault_outcome fsz vid o s v r s'.

(* ---- the assembly (statement; proved in PrFaultDef3.v) ----
   a history ops1 ++ o :: ops2 from a sound state, run with ONE fault armed at device call
   s_ncalls s + i, where that call belongs to o (in the run without the fault, the calls of ops1
   make at most i device calls and o makes the i-th):
   - every call of ops1 returns what it returns without the fault, the state before o is the
     fault-free one up to the schedule, and the invariant holds there;
   - the call o has the fault outcome (a)-(e) relative to that state. *)
Definition C11_history_stmt (fsz vid : N) : Prop :=
  forall ops1 o ops2 s age v i,
    fs_inv fsz vid s -> PrHandles.handles_ok age s ->
    age + N.of_nat (length (ops1 ++ o :: ops2)) < U32 - 1 -> Forall op_known_ok (ops1 ++ o :: ops2) ->
    s_vols s = [v] ->
    let s1 := snd (run_ops ops1 (nf s)) in                 (* no fault: state before o *)
    let a1 := snd (run_ops ops1 (arm s i)) in              (* armed: state before o *)
    s_ncalls s1 <= s_ncalls s + i < s_ncalls (snd (step o s1)) ->
    fst (run_ops ops1 (arm s i)) = fst (run_ops ops1 (nf s)) /\
    nf a1 = s1 /\ fs_inv fsz vid s1 /\
    exists v1, s_vols s1 = [v1] /\ geo_eq v v1 /\
      fault_outcome fsz vid o s1 v1 (fst (step o a1)) (snd (step o a1)).
