(* PROOFS for the SESSION invariant, part 7: C02 ACROSS a remount - "a completely fresh mount of the raw
   block device, by this library, shows that file with exactly the flushed length and contents".
     disk_view_frame, mem_view_closed   what the two views depend on
     C02_remount_obs          CloseVol, then a mount of the medium: the API of the new session shows, slot by
                              slot, exactly what the MEDIUM showed before the unmount (ob_disk), in both
                              views, with no handle open
     C02s_remount_reads_back  a session: ops1, a Flush / CloseFile / DROP of handle h, ops2 not touching the
                              file, everything closed, CloseVol (or the drop of the Volume), OpenVol again:
                              the new session shows at the file's slot what the API showed at the flush
     C01x_read_at, C01x_open_ro    what Read / a read-only OpenFile return, in terms of the shown map -
                              so the bytes READ through the API after the remount are the flushed bytes *)
From Coq Require Import NArith ZArith List Bool Lia Arith FMapPositive Permutation.
From SdFs Require Import FsTypes FsBase FsFat FsMgr FsExt FsLemmas PrBase PrFat PrAlloc PrDir PrRw PrChain PrCount PrWf PrOpenClose.
From SdFs Require PrHandles PrOrder PrBounds PrCrashDef PrCrashDef4 PrCrashMount PrCrashMount2.
From SdFs Require Import PrGlobalDef PrGlobalOpen PrGlobal PrGlobalMount.
From SdFs Require Import PrExt PrExt2 PrExt3.
From SdFs Require Import PrContentDef PrContentDef2 PrContentDef3.
From SdFs Require Import PrExt4.
From SdFs Require Import PrSess PrSess2 PrSess3.
From SdFs Require PrCrashMount3.
Import ListNotations.
Open Scope N_scope.
Local Arguments N.mul : simpl never.
Local Arguments N.add : simpl never.
Local Arguments N.sub : simpl never.

(* ================================================================== the two views *)
Lemma flat_map_ext_in {A B} (f g : A -> list B) l : (forall x, In x l -> f x = g x) -> flat_map f l = flat_map g l.
Proof.
  induction l as [|a l IH]; intros H; [reflexivity|]. cbn [flat_map].
  rewrite (H a (or_introl eq_refl)), IH; [reflexivity|]. intros x Hx. apply H. right. exact Hx.
Qed.

(* the medium's view depends on the data blocks of the file chains only, and not on handle / free-space
   record of the volume *)
Lemma disk_view_frame d d' v w T : relabel v w ->
  (forall e ch, In (NFile e ch) (all_nodes T) -> forall j, In j (data_blocks v ch) -> disk_get d' j = disk_get d j) ->
  disk_view d' w T = disk_view d v T.
Proof.
  intros R H. unfold disk_view. apply flat_map_ext_in. intros n Hn. destruct n as [e ch|e ch kids]; [|reflexivity].
  cbn [file_item]. unfold disk_fv. cbn [node_entry node_chain].
  rewrite <- (PrCrashDef4.file_bytes_ext d d' v ch (H e ch Hn)).
  destruct R as (i & a & b & ->). reflexivity.
Qed.

(* with no file open the API shows the medium *)
Lemma mem_view_closed s v T : s_files s = [] -> mem_view s v T = disk_view (s_disk s) v T.
Proof.
  intros Hf. unfold mem_view, disk_view. apply flat_map_ext_in. intros n _.
  destruct n as [e ch|e ch kids]; [|reflexivity]. cbn [file_item]. unfold mem_item, open_at. rewrite Hf. reflexivity.
Qed.

(* ================================================================== across CloseVol + a mount *)
(* s: the state before the unmount (invariant, nothing of the volume open); su: after CloseVol; sm: any
   state of the invariant on the medium of su, with a record of the same geometry and no file open -
   the state after the next mount.  Then sm shows - in BOTH views, slot by slot - what the medium of s
   showed. *)
Theorem C02_remount_obs fsz vid s vi w bl rch T su vid2 sm w2 :
  fs_inv_at fsz vid s vi w bl rch T ->
  existsb (fun f => f_vol f =? vid) (s_files s) = false ->
  existsb (fun d => d_vol d =? vid) (s_dirs s) = false ->
  step (CloseVol vid) s = (Ok RUnit, su) ->
  fs_inv fsz vid2 sm -> s_disk sm = s_disk su -> s_vols sm = [w2] -> relabel w w2 -> s_files sm = [] ->
  exists a2, observes fsz vid2 sm a2 /\
    ob_disk a2 = disk_view (s_disk s) w T /\ ob_mem a2 = disk_view (s_disk s) w T /\ ob_handles a2 = [].
Proof.
  intros Hat Hxf Hxd Ec Hinv2 Ed Ev2 R Hf2.
  destruct (C08_mount_unmount fsz vid s vi w bl rch T Hat Hxf Hxd) as
    (s8 & E8 & _ & _ & _ & _ & _ & _ & _ & _ & Hoth & Hsame & Hdi & _).
  rewrite Ec in E8. injection E8 as <-.
  pose proof (fi_disk _ _ _ _ _ _ _ _ Hat) as HD.
  exists (obs_at sm w2 bl T). split.
  - apply (observes_intro fsz vid2 sm w2 bl rch T Hinv2 Ev2); rewrite Ed.
    + exact (rl_root_dir _ w w2 bl rch R (di_root _ _ _ _ _ _ Hdi)).
    + exact (rl_tree_rep _ w w2 bl T R (di_tree _ _ _ _ _ _ Hdi)).
  - assert (Hview : disk_view (s_disk sm) w2 T = disk_view (s_disk s) w T).
    { rewrite Ed. apply (disk_view_frame (s_disk s) (s_disk su) w w2 T R).
      intros e ch Hn j Hj. destruct (v_fat32 w) eqn:E32; [|rewrite (Hsame (or_introl eq_refl)); reflexivity].
      apply Hoth. intros ->. destruct (fi_info _ _ _ _ _ _ _ _ Hat E32) as (_ & I2).
      unfold data_blocks in Hj. apply in_flat_map in Hj. destruct Hj as (c & Hcc & Hjc).
      destruct (all_nodes_rep _ w bl T (di_tree _ _ _ _ _ _ HD) _ Hn) as (t & bl' & Hrep & _).
      apply node_rep_file in Hrep. destruct Hrep as (_ & _ & [(_ & fu & Hc2)|(_ & Ech)]); [|rewrite Ech in Hcc; destruct Hcc].
      exact (I2 c (proj1 (chain_at_mem _ _ _ _ c (chain_at_any _ _ _ _ _ Hc2) Hcc)) Hjc). }
    cbn [obs_at ob_disk ob_mem ob_handles]. split; [exact Hview|]. split.
    + rewrite (mem_view_closed sm w2 T Hf2). exact Hview.
    + unfold handles_of. rewrite Hf2. reflexivity.
Qed.

(* ================================================================== what the API returns, from the shown map *)
(* Read on a handle: the slice at the cursor of the bytes the API shows for the handle's slot *)
Theorem C01x_read_at fsz vid s a hr n hi fv :
  fs_inv fsz vid s -> id_fresh s -> observes fsz vid s a ->
  hget hr (ob_handles a) = Some hi -> vget (hi_pos hi) (ob_mem a) = Some fv ->
  fst (xstep (XOp (Read hr n)) s) = Ok (XR (RBytes (read_slice (fv_bytes fv) (hi_off hi) n))).
Proof.
  intros Hinv Hid Ho Hh Hv. destruct (xstep (XOp (Read hr n)) s) as [r s'] eqn:E. cbn [fst].
  destruct (all_xsteps_content fsz vid (XOp (Read hr n)) s r s' a Hinv Hid (conj (conj I I) I) I E Ho)
    as (a' & _ & r0 & Hc & Hr).
  cbn [xbase content_rel] in Hc. unfold read_content in Hc. cbn [andb] in Hc. rewrite Hh in Hc.
  destruct Hc as (fv' & Ev & Hr0 & _). rewrite Hv in Ev. injection Ev as <-.
  cbn [xres_rel] in Hr. rewrite Hr, Hr0. reflexivity.
Qed.

(* a successful read-only OpenFile: the new handle stands at offset 0 on a slot that shows a file of
   that 8.3 name; nothing shown changes *)
Theorem C01x_open_ro fsz vid s a d name hn s' :
  fs_inv fsz vid s -> id_fresh s -> e5_name name = false -> observes fsz vid s a ->
  xstep (XOp (OpenFile d name ReadOnly)) s = (Ok (XR (RHandle hn)), s') ->
  exists a' p fv sfn, observes fsz vid s' a' /\ sfn_of_str name = Some sfn /\
    vget p (ob_mem a) = Some fv /\ fv_name fv = sfn /\
    hget hn (ob_handles a') = Some (mk_hinfo p ReadOnly 0 false) /\
    forall q, vget q (ob_mem a') = vget q (ob_mem a) /\ vget q (ob_disk a') = vget q (ob_disk a).
Proof.
  intros Hinv Hid Hn Ho E.
  destruct (all_xsteps_content fsz vid (XOp (OpenFile d name ReadOnly)) s _ s' a Hinv Hid (conj (conj I I) Hn) I E Ho)
    as (a' & Ho' & r0 & Hc & Hr).
  cbn [xres_rel] in Hr. destruct r0 as [x|e| |]; cbn [omap] in Hr; try discriminate Hr. injection Hr as <-.
  cbn [xbase content_rel] in Hc. unfold open_content in Hc.
  destruct Hc as (_ & sfn & p & md1 & Es & _ & Emd & _ & Hm).
  cbn [solve_mode_variant] in Emd. subst md1.
  destruct (vget p (ob_mem a)) as [fv|] eqn:Ev.
  - destruct Hm as (En & [(_ & Hsame & _ & Hset)|(X & _)]); [|discriminate X].
    exists a', p, fv, sfn. split; [exact Ho'|]. split; [exact Es|]. split; [exact Ev|]. split; [exact En|].
    split; [|exact Hsame]. rewrite (Hset hn), N.eqb_refl. reflexivity.
  - destruct Hm as (X & _). discriminate X.
Qed.

(* ================================================================== the session *)
Lemma xscope_sop idx0 o : xop_scope_ok o -> sop_scope_ok idx0 o.
Proof.
  destruct o as [o| | | | | | | |]; cbn [xop_scope_ok sop_scope_ok]; try (intros H; exact H); try (intros _; exact I).
  intros ((A & B) & C). destruct o; try destruct B; try exact I; try (split; assumption).
Qed.

Section Session.
  Variables (fsz idx0 : N) (d0 : disk) (v0 : vol).
  Hypothesis Hwit : mount_witness d0 idx0 v0.

  (* C02 across a remount.  A mounted session: ops1, then Flush / CloseFile / the drop of handle h (open
     on the file at slot p), then ops2; afterwards no file is open and no directory of the volume.  Then
     CloseVol (equivalently the drop of the Volume) succeeds, OpenVol of the partition succeeds again, and
     in the new session the API shows - memory view = medium view at every slot, no handle open - at slot
     p exactly what the API showed for the file when the flush was called (name, attribute, times,
     length and bytes), provided no call of ops2 targeted p. *)
  Theorem C02s_remount_reads_back ops1 fl ops2 h s age w a :
    sess_at fsz d0 v0 s -> s_vols s = [w] -> PrHandles.handles_ok age s ->
    age + N.of_nat (length (ops1 ++ fl :: ops2)) + 2 < U32 - 1 ->
    Forall xop_scope_ok (ops1 ++ fl :: ops2) -> xops_guard (ops1 ++ fl :: ops2) s ->
    observes fsz (v_id w) s a -> obs_sync a -> is_flush_of h (xbase fl) ->
    let vid := v_id w in
    let s1 := snd (xrun_ops ops1 s) in
    let s' := snd (xrun_ops (ops1 ++ fl :: ops2) s) in
    s_files s' = [] -> existsb (fun d => d_vol d =? vid) (s_dirs s') = false ->
    exists a1 x tr2 su sm a2,
      observes fsz vid s1 a1 /\ os_pre x = a1 /\ os_op x = xbase fl /\ map os_op tr2 = map xbase ops2 /\
      xstep (XOp (CloseVol vid)) s' = (Ok (XR RUnit), su) /\ xstep (XDropVol vid) s' = (Ok (XR RUnit), su) /\
      s_vols su = [] /\
      xstep (XOp (OpenVol idx0)) su = (Ok (XR (RHandle (s_next_id su))), sm) /\
      sess_at fsz d0 v0 sm /\ fs_inv fsz (s_next_id su) sm /\
      PrHandles.handles_ok (age + N.of_nat (length (ops1 ++ fl :: ops2)) + 2) sm /\
      observes fsz (s_next_id su) sm a2 /\ ob_handles a2 = [] /\ obs_sync a2 /\
      (forall q, vget q (ob_mem a2) = vget q (ob_disk a2)) /\
      forall hi, hget h (ob_handles a1) = Some hi ->
        Forall (fun y => target_of y <> Some (hi_pos hi)) tr2 ->
        os_res x = Ok RUnit /\
        vget (hi_pos hi) (ob_mem a2) = vget (hi_pos hi) (ob_mem a1) /\ vget (hi_pos hi) (ob_mem a1) <> None.
  Proof.
    intros Hs Ew Hh Hage Hops Hg Ho S Hfl vid s1 s' Hf Hxd.
    set (ops := ops1 ++ fl :: ops2) in *.
    destruct (C03s_mounted fsz d0 v0 s w Hs Ew) as (Hinv & _). fold vid in Hinv, Ho.
    assert (Hage0 : age + N.of_nat (length ops) < U32 - 1) by lia.
    destruct (C02x_flushed_stays_model fsz vid ops1 fl ops2 h s age a Hinv Hh Hage0 Hops Hg Ho S Hfl)
      as (a1 & x & tr2 & a' & Ho1 & Ep & Ex & _ & Emap & _ & Ho' & Hfin).
    fold s1 in Ho1. fold ops s' in Ho'.
    assert (Hsops : Forall (sop_scope_ok idx0) ops).
    { apply (Forall_impl _ (xscope_sop idx0)). exact Hops. }
    pose proof (C03s_history fsz idx0 d0 v0 Hwit ops s age Hs Hh Hage0 Hsops Hg) as H3.
    destruct (xrun_ops ops s) as [rs sx] eqn:Erun. cbn [snd] in s'. subst s'.
    destruct H3 as (Hs' & Hh' & _).
    destruct Ho' as (vi' & y & bl & rch & T & Hat' & Ea').
    pose proof (fi_single _ _ _ _ _ _ _ _ Hat') as Ey. pose proof (fi_vid _ _ _ _ _ _ _ _ Hat') as Eyid.
    assert (Ha1 : age + N.of_nat (length ops) < U32 - 1) by lia.
    destruct (proj2 (C08s_cycle fsz idx0 d0 v0 Hwit sx _ Hs' Hh' Ha1) y Ey Hf ltac:(rewrite Eyid; exact Hxd))
      as (su & Ec & Edrop & Hsu & Evu & _).
    rewrite Eyid in Ec, Edrop.
    assert (Hhu : PrHandles.handles_ok (age + N.of_nat (length ops) + 1) su).
    { pose proof (C08x_handles_ok_step _ (XOp (CloseVol vid)) sx Ha1 I Hh') as X. rewrite Ec in X. exact X. }
    assert (Ha2 : age + N.of_nat (length ops) + 1 < U32 - 1) by lia.
    destruct (proj1 (C08s_cycle fsz idx0 d0 v0 Hwit su _ Hsu Hhu Ha2) Evu)
      as (sm & Em & Hsm & Hinvm & Edm & w2 & Ew2 & _ & R2).
    assert (Hhm : PrHandles.handles_ok (age + N.of_nat (length ops) + 2) sm).
    { pose proof (C08x_handles_ok_step _ (XOp (OpenVol idx0)) su Ha2 I Hhu) as X. rewrite Em in X. cbn [snd] in X.
      replace (age + N.of_nat (length ops) + 2) with (age + N.of_nat (length ops) + 1 + 1) by lia. exact X. }
    (* the base-level runs *)
    assert (Hxf : existsb (fun f => f_vol f =? vid) (s_files sx) = false) by (rewrite Hf; reflexivity).
    destruct (C08_mount_unmount fsz vid sx vi' y bl rch T Hat' Hxf Hxd) as (s8 & E8 & _).
    assert (s8 = su).
    { pose proof Ec as X. cbn [xstep] in X. rewrite xlift_run, E8 in X. cbn [fst snd omap] in X. injection X as ->. reflexivity. }
    subst s8.
    assert (Hfm : s_files sm = []).
    { pose proof Em as X. cbn [xstep] in X. rewrite xlift_run in X.
      destruct (step (OpenVol idx0) su) as [r0 sy] eqn:E0. cbn [fst snd] in X. injection X as Er <-.
      destruct r0 as [z| | |]; cbn [omap] in Er; try discriminate Er. injection Er as ->.
      destruct (C03s_unmounted fsz d0 v0 su Hsu Evu) as (Fu & _).
      destruct (mount_run idx0 su _ sy Fu E0) as (_ & _ & _ & _ & _ & _ & _ & X & _). exact X. }
    pose proof (proj1 (proj2 (C03s_mounted fsz d0 v0 sx y Hs' Ey))) as Ry.
    pose proof (relabel_trans _ _ _ (relabel_sym _ _ Ry) R2) as Ryw2.
    destruct (C02_remount_obs fsz vid sx vi' y bl rch T su (s_next_id su) sm w2 Hat' Hxf Hxd E8 Hinvm Edm Ew2 Ryw2 Hfm)
      as (a2 & Ho2 & Ed2 & Em2 & Eh2).
    exists a1, x, tr2, su, sm, a2.
    repeat (split; [assumption|]).
    split; [exact (obs_sync_closed a2 Eh2)|]. split; [intros q; rewrite Em2, Ed2; reflexivity|].
    intros hi Hhi Hu. destruct (Hfin hi Hhi Hu) as (F1 & F2 & F3).
    split; [exact F1|]. split; [|exact F3].
    rewrite Em2. rewrite Ea' in F2. cbn [obs_at ob_disk] in F2. exact F2.
  Qed.

End Session.

(* ... and what is then READ through the API.  In any state of the invariant (in particular the state
   after the remount above, and any state reached from it by calls that leave slot p alone -
   C02x_untouched_history_model): a read-only OpenFile that succeeds, followed by Read of n bytes on
   the new handle, returns the first n bytes the API showed at the slot the name resolved to - a slot
   showing a file of that 8.3 name.  When that slot is p these are the flushed bytes. *)
Theorem C02s_open_read fsz vid s age a d name hn s' n :
  fs_inv fsz vid s -> PrHandles.handles_ok age s -> age + 1 < U32 - 1 -> e5_name name = false ->
  observes fsz vid s a ->
  xstep (XOp (OpenFile d name ReadOnly)) s = (Ok (XR (RHandle hn)), s') ->
  exists p fv sfn, sfn_of_str name = Some sfn /\ vget p (ob_mem a) = Some fv /\ fv_name fv = sfn /\
    fst (xstep (XOp (Read hn n)) s') = Ok (XR (RBytes (firstn (N.to_nat n) (fv_bytes fv)))).
Proof.
  intros Hinv Hh Hage Hn Ho E.
  assert (Ha0 : age < U32) by (unfold U32 in *; lia).
  assert (Ha1 : age < U32 - 1) by (unfold U32 in *; lia).
  pose proof (handles_ok_fresh age s Ha0 Hh) as Hid.
  destruct (C01x_open_ro fsz vid s a d name hn s' Hinv Hid Hn Ho E) as (a' & p & fv & sfn & Ho' & Es & Ev & En & Hh' & Hsame).
  pose proof (C08x_handles_ok_step age (XOp (OpenFile d name ReadOnly)) s Ha1 I Hh) as Hh1.
  rewrite E in Hh1. cbn [snd] in Hh1.
  assert (Ha2 : age + 1 < U32) by (unfold U32 in *; lia).
  pose proof (handles_ok_fresh (age + 1) s' Ha2 Hh1) as Hid'.
  exists p, fv, sfn. split; [exact Es|]. split; [exact Ev|]. split; [exact En|].
  assert (Ev' : vget (hi_pos (mk_hinfo p ReadOnly 0 false)) (ob_mem a') = Some fv).
  { cbn [hi_pos]. rewrite (proj1 (Hsame p)). exact Ev. }
  rewrite (C01x_read_at fsz vid s' a' hn n _ fv (observes_inv _ _ _ _ Ho') Hid' Ho' Hh' Ev'). reflexivity.
Qed.

(* ================================================================== example (computed) *)
(* PrCrashMount3's FAT32 image (65525 clusters, root empty, stored free count 65524 - truthful -, hint 3),
   a manager with room for one volume.  Session 1: mount (handle 0), open the root (1), create E (2),
   write 3 bytes, DROP the file (flush: one cluster allocated), drop the directory, drop the Volume
   (the information sector now holds 65523 / 4).  Session 2: mount (3) - the record carries the count
   65523 read back from the medium -, open the root (4), open E read-only (5), read: the three bytes. *)
Definition fy_s0 : st := init_state PrCrashMount3.fx_disk 0 1 4 4 [].
Definition fy_ops : list xop :=
  [XOp (OpenVol 0); XOp (OpenRoot 0); XOp (OpenFile 1 [69] ReadWriteCreate); XOp (Write 2 [1; 2; 3]);
   XDropFile 2; XDropDir 1; XDropVol 0;
   XOp (OpenVol 0); XOp (OpenRoot 3); XOp (OpenFile 4 [69] ReadOnly); XOp (Read 5 10)].
Definition fy_cls (r : outcome xres) : N * list N :=
  match r with
  | Ok (XR (RHandle h)) => (0, [h]) | Ok (XR (RBytes b)) => (0, b) | Ok _ => (0, [99])
  | Err _ => (1, []) | Panic => (2, []) | OutOfFuel => (3, [])
  end.
Example fy_remount_reads_back :
  map fy_cls (fst (xrun_ops fy_ops fy_s0)) =
    [(0, [0]); (0, [1]); (0, [2]); (0, [99]); (0, [99]); (0, [99]); (0, [99]);
     (0, [3]); (0, [4]); (0, [5]); (0, [1; 2; 3])] /\
  (let su := snd (xrun_ops (firstn 7 fy_ops) fy_s0) in
   s_vols su = [] /\ le32 (disk_get (s_disk su) 2049) 488 = 65523 /\ le32 (disk_get (s_disk su) 2049) 492 = 4) /\
  (let s' := snd (xrun_ops fy_ops fy_s0) in
   map (fun w => (v_id w, v_free w, v_next_free w)) (s_vols s') = [(3, Some 65523, Some 4)]).
Proof. vm_compute. repeat split; reflexivity. Qed.

Print Assumptions C02_remount_obs.
Print Assumptions C01x_read_at.
Print Assumptions C01x_open_ro.
Print Assumptions C02s_remount_reads_back.
Print Assumptions C02s_open_read.
Print Assumptions fy_remount_reads_back.
