(* PROOFS (first layer) about the layer-B model: arithmetic of cluster addressing, the
   free-entry scan, the open-object tables, the handle generator, slot scanning, the mode
   table.  Everything here is for ALL inputs; no bounds. *)
From Coq Require Import NArith ZArith List Bool Lia Arith.
From SdFs Require Import FsTypes FsBase FsFat FsMgr.
Import ListNotations.
Open Scope N_scope.

(* ------------------------------------------------------------------ monad basics *)
Lemma bind_ok {A B} (m : M A) (k : A -> M B) s a s' :
  m s = (Ok a, s') -> bind m k s = k a s'.
Proof. intros H. unfold bind. rewrite H. reflexivity. Qed.

Lemma bind_err {A B} (m : M A) (k : A -> M B) s e s' :
  m s = (Err e, s') -> bind m k s = (Err e, s').
Proof. intros H. unfold bind. rewrite H. reflexivity. Qed.

Lemma add32_ok a b s : a + b < U32 -> add32 a b s = (Ok (a + b), s).
Proof. intros H. unfold add32. apply N.ltb_lt in H. rewrite H. reflexivity. Qed.
Lemma sub32_ok a b s : b <= a -> sub32 a b s = (Ok (a - b), s).
Proof. intros H. unfold sub32. apply N.leb_le in H. rewrite H. reflexivity. Qed.
Lemma mul32_ok a b s : a * b < U32 -> mul32 a b s = (Ok (a * b), s).
Proof. intros H. unfold mul32. apply N.ltb_lt in H. rewrite H. reflexivity. Qed.

(* ------------------------------------------------------------------ cluster addressing (C03/C04) *)
(* a data cluster of the volume maps to blocks inside the data area, for both FAT types:
   nothing before the first data block, nothing at or beyond first_data + N * spc *)
Definition data_geom_ok (v : vol) : Prop :=
  v_lba v + v_first_data v + v_clusters v * v_spc v < U32.

Theorem cluster_to_block_in_data (v : vol) (c : N) (s : st) :
  data_geom_ok v -> 2 <= c -> c < v_clusters v + 2 -> c <> CL_ROOT ->
  exists blk, cluster_to_block v c s = (Ok blk, s) /\
    blk = v_lba v + v_first_data v + (c - 2) * v_spc v /\
    v_lba v + v_first_data v <= blk /\
    blk + v_spc v <= v_lba v + v_first_data v + v_clusters v * v_spc v.
Proof.
  unfold data_geom_ok. intros Hg H2 HN Hr.
  assert (Hm : (c - 2) * v_spc v + v_spc v <= v_clusters v * v_spc v).
  { assert (E : (c - 2 + 1) * v_spc v = (c - 2) * v_spc v + v_spc v)
      by (rewrite N.mul_add_distr_r, N.mul_1_l; reflexivity).
    rewrite <- E. apply N.mul_le_mono_r. lia. }
  assert (Hfit : (c - 2) * v_spc v < U32).
  { remember ((c - 2) * v_spc v) as X. remember (v_clusters v * v_spc v) as Y. unfold U32 in *. lia. }
  exists (v_lba v + v_first_data v + (c - 2) * v_spc v).
  remember ((c - 2) * v_spc v) as X eqn:EX. remember (v_clusters v * v_spc v) as Y eqn:EY.
  split; [|split; [reflexivity|split; lia]].
  unfold cluster_to_block.
  assert (Hne : (c =? CL_ROOT) = false) by (apply N.eqb_neq; exact Hr).
  destruct (v_fat32 v); rewrite Hne.
  - rewrite (bind_ok _ _ _ _ _ (sub32_ok c 2 s H2)).
    rewrite (bind_ok _ _ _ _ _ (mul32_ok (c - 2) (v_spc v) s ltac:(rewrite <- EX; exact Hfit))).
    rewrite (bind_ok _ _ _ _ _ (add32_ok (v_lba v) (v_first_data v) s ltac:(unfold U32 in *; lia))).
    rewrite <- EX. rewrite add32_ok by (unfold U32 in *; lia). reflexivity.
  - rewrite (bind_ok _ _ _ _ _ (sub32_ok c 2 s H2)).
    rewrite (bind_ok _ _ _ _ _ (mul32_ok (c - 2) (v_spc v) s ltac:(rewrite <- EX; exact Hfit))).
    rewrite <- EX.
    rewrite (bind_ok _ _ _ _ _ (add32_ok (v_first_data v) X s ltac:(unfold U32 in *; lia))).
    rewrite add32_ok by (unfold U32 in *; lia). f_equal. f_equal. lia.
Qed.

(* distinct clusters never share a block *)
Theorem cluster_blocks_disjoint (v : vol) (c1 c2 k1 k2 : N) :
  c1 <> c2 -> 2 <= c1 -> 2 <= c2 -> k1 < v_spc v -> k2 < v_spc v ->
  (c1 - 2) * v_spc v + k1 <> (c2 - 2) * v_spc v + k2.
Proof.
  intros Hne H1 H2 Hk1 Hk2 E.
  destruct (N.lt_ge_cases c1 c2) as [Hlt|Hge].
  - assert (H : (c1 - 2 + 1) * v_spc v <= (c2 - 2) * v_spc v) by (apply N.mul_le_mono_r; lia).
    rewrite N.mul_add_distr_r, N.mul_1_l in H. lia.
  - assert (H : (c2 - 2 + 1) * v_spc v <= (c1 - 2) * v_spc v) by (apply N.mul_le_mono_r; lia).
    rewrite N.mul_add_distr_r, N.mul_1_l in H. lia.
Qed.

(* ------------------------------------------------------------------ free-entry scan (C03/C04/C05) *)
Definition fat_entry_at (fat32 : bool) (b : block) (off : N) : N :=
  if fat32 then N.land (le32 b off) 268435455 else le16 b off.

(* the per-sector scan only returns a cluster below the end bound whose entry reads zero,
   and the offset it was found at is the offset of that cluster's entry *)
Lemma scan_sector_sound n fat32 : forall b off cur endc c cur',
  scan_sector n fat32 b off cur endc = (Some c, cur') ->
  cur <= c /\ c < endc /\
  fat_entry_at fat32 b (off + (c - cur) * (if fat32 then 4 else 2)) = 0 /\
  off + (c - cur) * (if fat32 then 4 else 2) <= 512 - (if fat32 then 4 else 2).
Proof.
  induction n as [|n IH]; intros b off cur endc c cur' H; [discriminate|].
  cbn [scan_sector] in H.
  destruct ((off <=? 512 - (if fat32 then 4 else 2)) && (cur <? endc)) eqn:Hc; [|discriminate].
  apply andb_true_iff in Hc. destruct Hc as [Ho Hlt].
  apply N.leb_le in Ho. apply N.ltb_lt in Hlt.
  destruct ((if fat32 then N.land (le32 b off) 268435455 else le16 b off) =? 0) eqn:He.
  - injection H as Hc1 Hc2. subst c. apply N.eqb_eq in He.
    replace (cur - cur) with 0 by lia. rewrite N.mul_0_l, N.add_0_r.
    unfold fat_entry_at. repeat split; try lia; assumption.
  - apply IH in H. destruct H as [H1 [H2 [H3 H4]]].
    assert (E : off + (if fat32 then 4 else 2) + (c - (cur + 1)) * (if fat32 then 4 else 2)
                = off + (c - cur) * (if fat32 then 4 else 2)) by (destruct fat32; nia).
    rewrite E in H3, H4. repeat split; try lia; assumption.
Qed.

(* entries skipped by the scan were all non-zero: the scan returns the FIRST free entry *)
Lemma scan_sector_first n fat32 : forall b off cur endc c cur',
  scan_sector n fat32 b off cur endc = (Some c, cur') ->
  forall j, cur <= j -> j < c ->
  fat_entry_at fat32 b (off + (j - cur) * (if fat32 then 4 else 2)) <> 0.
Proof.
  induction n as [|n IH]; intros b off cur endc c cur' H j Hj1 Hj2; [discriminate|].
  cbn [scan_sector] in H.
  destruct ((off <=? 512 - (if fat32 then 4 else 2)) && (cur <? endc)) eqn:Hc; [|discriminate].
  destruct ((if fat32 then N.land (le32 b off) 268435455 else le16 b off) =? 0) eqn:He.
  - injection H as Hc1 Hc2. subst c. lia.
  - destruct (N.eq_dec j cur) as [->|Hne].
    + replace (cur - cur) with 0 by lia. rewrite N.mul_0_l, N.add_0_r.
      unfold fat_entry_at. apply N.eqb_neq. exact He.
    + specialize (IH _ _ _ _ _ _ H j ltac:(lia) Hj2).
      replace (off + (if fat32 then 4 else 2) + (j - (cur + 1)) * (if fat32 then 4 else 2))
        with (off + (j - cur) * (if fat32 then 4 else 2)) in IH by (destruct fat32; nia).
      exact IH.
Qed.

(* when the scan finds nothing it stops at the end bound or at the end of the sector *)
Lemma scan_sector_none n fat32 : forall b off cur endc cur',
  scan_sector n fat32 b off cur endc = (None, cur') -> cur <= cur' /\ cur' <= N.max cur endc.
Proof.
  induction n as [|n IH]; intros b off cur endc cur' H.
  - inversion H; subst. lia.
  - cbn [scan_sector] in H.
    destruct ((off <=? 512 - (if fat32 then 4 else 2)) && (cur <? endc)) eqn:Hc.
    + apply andb_true_iff in Hc. destruct Hc as [_ Hlt]. apply N.ltb_lt in Hlt.
      destruct ((if fat32 then N.land (le32 b off) 268435455 else le16 b off) =? 0); [discriminate|].
      apply IH in H. lia.
    + inversion H; subst. lia.
Qed.

(* ------------------------------------------------------------------ tables (C08) *)
Lemma list_set_length {A} (l : list A) i x : length (list_set l i x) = length l.
Proof. revert i; induction l as [|h t IH]; intros [|i]; cbn; auto. Qed.

Lemma swap_remove_length {A} (l : list A) i :
  (i < length l)%nat -> length (swap_remove l i) = (length l - 1)%nat.
Proof.
  intros Hi. unfold swap_remove.
  destruct (rev l) as [|last r] eqn:Hr.
  - assert (length (rev l) = 0%nat) by (rewrite Hr; reflexivity). rewrite rev_length in H. lia.
  - destruct (Nat.eqb i (length l - 1)).
    + rewrite firstn_length. lia.
    + rewrite firstn_length, list_set_length. lia.
Qed.

Lemma In_list_set {A} (l : list A) i x y : In y (list_set l i x) -> y = x \/ In y l.
Proof.
  revert i; induction l as [|h t IH]; intros [|i] H; cbn in *; auto.
  - destruct H; auto.
  - destruct H as [->|H]; auto. apply IH in H. destruct H; auto.
Qed.

Lemma In_firstn {A} n (l : list A) y : In y (firstn n l) -> In y l.
Proof.
  revert l; induction n as [|n IH]; intros [|h t] H; cbn in *; try contradiction.
  destruct H as [H|H]; [left; exact H | right; apply IH; exact H].
Qed.

(* closing never invents an entry: what remains was there before *)
Lemma swap_remove_subset {A} (l : list A) i y : In y (swap_remove l i) -> In y l.
Proof.
  unfold swap_remove. destruct (rev l) as [|last r] eqn:Hr; [auto|].
  assert (Hlast : In last l) by (apply in_rev; rewrite Hr; left; reflexivity).
  destruct (Nat.eqb i (length l - 1)); intros H.
  - eapply In_firstn; eauto.
  - apply In_firstn in H. apply In_list_set in H. destruct H as [->|H]; auto.
Qed.

(* the handle generator: every call returns the counter and advances it modulo 2^32 *)
Lemma generate_spec s :
  generate s = (Ok (s_next_id s), set_s_next_id s ((s_next_id s + 1) mod U32)).
Proof. reflexivity. Qed.

(* A handle issued `age` generations ago (0 < age < 2^32) differs from the next one.
   This is the arithmetic heart of handle freshness; without the age bound it is false
   (the counter wraps) - see C08_wrap_refuted. *)
Theorem window_fresh (next age h : N) :
  next < U32 -> h < U32 -> 0 < age -> age < U32 ->
  (h + age) mod U32 = next -> h <> next.
Proof.
  unfold U32. intros Hn Hh Ha1 Ha2 E Heq. subst h.
  destruct (N.lt_ge_cases (next + age) 4294967296) as [Hlt|Hge].
  - rewrite N.mod_small in E by exact Hlt. lia.
  - assert (E2 : (next + age) mod 4294967296 = next + age - 4294967296).
    { symmetry. apply N.mod_unique with (q := 1); lia. }
    lia.
Qed.

Theorem C08_wrap_refuted_arith : exists next age h : N,
  next < U32 /\ h < U32 /\ 0 < age /\ (h + age) mod U32 = next /\ h = next.
Proof. exists 5, U32, 5. repeat split; try reflexivity. Qed.

(* ------------------------------------------------------------------ slot scanning (C06) *)
Fixpoint slots_from (n : nat) (b : block) (i : N) : list (N * list N) :=
  match n with O => [] | S n' => (i, slot b i) :: slots_from n' b (i + 1) end.

Fixpoint before_end (l : list (N * list N)) : list (N * list N) :=
  match l with
  | [] => []
  | (i, sl) :: t => if is_end sl then [] else (i, sl) :: before_end t
  end.

(* lookup returns the FIRST slot before the end marker whose 11 name bytes match *)
Theorem find_in_slots_spec n fat32 b blk name : forall i,
  find_in_slots n fat32 b blk i name =
  match find (fun p => matches (snd p) name) (before_end (slots_from n b i)) with
  | Some (j, sl) => Some (get_entry fat32 sl blk (j * 32))
  | None => None
  end.
Proof.
  induction n as [|n IH]; intros i; cbn [find_in_slots slots_from before_end find]; [reflexivity|].
  destruct (is_end (slot b i)) eqn:He; [reflexivity|].
  cbn [find snd]. destruct (matches (slot b i) name); [reflexivity|]. apply IH.
Qed.

(* listing reports exactly the valid slots before the end marker, in order *)
Theorem iter_slots_spec n fat32 b blk : forall i acc,
  snd (iter_slots n fat32 b blk i acc) =
  rev (map (fun p => get_entry fat32 (snd p) blk (fst p * 32))
           (filter (fun p => is_valid (snd p)) (before_end (slots_from n b i)))) ++ acc.
Proof.
  induction n as [|n IH]; intros i acc; cbn [iter_slots slots_from before_end]; [reflexivity|].
  destruct (is_end (slot b i)) eqn:He; [reflexivity|].
  cbn [filter snd fst]. destruct (is_valid (slot b i)) eqn:Hv.
  - rewrite IH. cbn [map rev]. rewrite <- app_assoc. reflexivity.
  - apply IH.
Qed.

Theorem iter_slots_stop n fat32 b blk : forall i acc,
  fst (iter_slots n fat32 b blk i acc) = existsb (fun p => is_end (snd p)) (slots_from n b i).
Proof.
  induction n as [|n IH]; intros i acc; cbn [iter_slots slots_from existsb]; [reflexivity|].
  cbn [snd]. destruct (is_end (slot b i)) eqn:He; [reflexivity|].
  destruct (is_valid (slot b i)); apply IH.
Qed.

(* a deleted slot (0xE5) or the end marker is never valid; an LFN fragment is valid and is
   filtered by attribute at the manager level *)
Lemma deleted_not_valid sl : get8 sl 0 = 229 -> is_valid sl = false.
Proof. intros H. unfold is_valid. rewrite H. cbn. apply andb_false_r. Qed.
Lemma end_not_valid sl : get8 sl 0 = 0 -> is_valid sl = false.
Proof. intros H. unfold is_valid, is_end. rewrite H. reflexivity. Qed.

(* ------------------------------------------------------------------ open modes (C07) *)
Theorem solve_mode_table m present :
  solve_mode_variant m present =
  match m, present with
  | ReadWriteCreateOrAppend, true => ReadWriteAppend
  | ReadWriteCreateOrAppend, false => ReadWriteCreate
  | ReadWriteCreateOrTruncate, true => ReadWriteTruncate
  | ReadWriteCreateOrTruncate, false => ReadWriteCreate
  | m, _ => m
  end.
Proof. destruct m, present; reflexivity. Qed.

Theorem creating_iff m :
  creating m = true <-> (m = ReadWriteCreate \/ m = ReadWriteCreateOrTruncate \/ m = ReadWriteCreateOrAppend).
Proof. destruct m; cbn; split; intros H; try discriminate; auto; destruct H as [H|[H|H]]; discriminate. Qed.

(* ------------------------------------------------------------------ misc *)
Lemma from_bytes_spec n : from_bytes n = (n + 511) / 512.
Proof.
  unfold from_bytes.
  pose proof (N.div_mod n 512 ltac:(lia)) as Hd. pose proof (N.mod_lt n 512 ltac:(lia)) as Hl.
  remember (n / 512) as q. remember (n mod 512) as r.
  destruct (N.eqb_spec (q * 512) n) as [E|E].
  - apply N.div_unique with (r := 511); lia.
  - apply N.div_unique with (r := r - 1); lia.
Qed.
