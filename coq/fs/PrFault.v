(* PROOFS for C11: a failed block-device call inside an operation makes the operation return
   an error - never success, never a panic.

   The device log `s_trace` (newest event first) only grows.  `fails new` says that the events
   `new` added by a computation contain a failed read or write.  The central notion is

     rep P np m  :=  whenever `m` runs from s to s' with result r, the trace of s' extends the
                     trace of s by some `new`, and IF `new` contains a failure THEN r is `Err e`
                     with `P e`  (when np = true, Panic / OutOfFuel are tolerated as well).

   `rep (fun _ => True) false m` gives the property as stated (`reports m`);
   `rep (eq DeviceError) false m` is the stronger "the error is DeviceError itself".
   rep is compositional over bind, and over `try` provided the handler maps the caught
   DeviceError to an error again - which is exactly what has to be examined at each catch site. *)
From Coq Require Import NArith ZArith List Bool Lia Arith.
From SdFs Require Import FsTypes FsBase FsFat FsMgr FsLemmas PrBase.
Import ListNotations.
Open Scope N_scope.

(* ------------------------------------------------------------------ definitions *)
Definition fails (new : list devcall) : Prop :=
  exists i, In (DReadFail i) new \/ In (DWriteFail i) new.

(* the trace of s' is the trace of s with `new` pushed on top *)
Definition ext (s s' : st) (new : list devcall) : Prop := s_trace s' = new ++ s_trace s.

Definition trace_extends (s s' : st) : Prop := exists new, ext s s' new.

(* a device failure was logged between s and s' *)
Definition fault_fired (s s' : st) : Prop := exists new, ext s s' new /\ fails new.

Definition reports {A} (m : M A) : Prop :=
  forall s r s', m s = (r, s') -> fault_fired s s' -> exists e, r = Err e.

Definition reports_device_error {A} (m : M A) : Prop :=
  forall s r s', m s = (r, s') -> fault_fired s s' -> r = Err DeviceError.

(* "never success" alone *)
Definition never_ok_on_fault {A} (m : M A) : Prop :=
  forall s r s', m s = (r, s') -> fault_fired s s' -> forall a, r <> Ok a.

Lemma fails_nil : ~ fails [].
Proof. intros [i [H|H]]; inversion H. Qed.

Lemma fails_app a b : fails (a ++ b) -> fails a \/ fails b.
Proof.
  intros [i [H|H]]; apply in_app_or in H; destruct H as [H|H];
    [left|right|left|right]; exists i; auto.
Qed.

Lemma ext_refl s : ext s s [].
Proof. reflexivity. Qed.

Lemma ext_trans s s1 s2 n1 n2 : ext s s1 n1 -> ext s1 s2 n2 -> ext s s2 (n2 ++ n1).
Proof. unfold ext. intros H1 H2. rewrite H2, H1, app_assoc. reflexivity. Qed.

Lemma ext_unique s s' n1 n2 : ext s s' n1 -> ext s s' n2 -> n1 = n2.
Proof. unfold ext. intros H1 H2. rewrite H1 in H2. apply app_inv_tail in H2. exact H2. Qed.

(* ------------------------------------------------------------------ the general invariant *)
Definition repG {A} (B : outcome A -> Prop) (m : M A) : Prop :=
  forall s r s', m s = (r, s') -> exists new, ext s s' new /\ (fails new -> B r).

Definition always {A} (B : outcome A -> Prop) (m : M A) : Prop :=
  forall s r s', m s = (r, s') -> B r.

Definition bad (P : err -> Prop) (np : bool) {A} (r : outcome A) : Prop :=
  match r with
  | Ok _ => False
  | Err e => P e
  | Panic | OutOfFuel => np = true
  end.

Definition rep (P : err -> Prop) (np : bool) {A} (m : M A) : Prop := repG (bad P np) m.

Definition cast {A B} (r : outcome A) : outcome B :=
  match r with Ok _ => Panic | Err e => Err e | Panic => Panic | OutOfFuel => OutOfFuel end.

Lemma bind_not_ok {A B} (m : M A) (k : A -> M B) s r s1 :
  m s = (r, s1) -> (forall a, r <> Ok a) -> bind m k s = (cast r, s1).
Proof.
  intros H Hn. unfold bind. rewrite H. destruct r; try reflexivity. exfalso. eapply Hn. reflexivity.
Qed.

(* the composition lemma: if every step reports, the sequence reports.  B1 may allow some Ok
   values (errors caught as values by `try`); then the continuation must always turn those
   into something B2 accepts. *)
Lemma repG_bind {A B} (B1 : outcome A -> Prop) (B2 : outcome B -> Prop) (m : M A) (k : A -> M B) :
  repG B1 m ->
  (forall a, repG B2 (k a)) ->
  (forall a, B1 (Ok a) -> always B2 (k a)) ->
  (forall r, (forall a, r <> Ok a) -> B1 r -> B2 (cast r)) ->
  repG B2 (bind m k).
Proof.
  intros Hm Hk Hok Hbad s r s' H.
  destruct (m s) as [r1 s1] eqn:E1.
  destruct (Hm _ _ _ E1) as (n1 & X1 & F1).
  destruct r1 as [a| e | |].
  - rewrite (bind_ok _ _ _ _ _ E1) in H.
    destruct (Hk a _ _ _ H) as (n2 & X2 & F2).
    exists (n2 ++ n1). split; [eapply ext_trans; eauto|].
    intros Hf. apply fails_app in Hf. destruct Hf as [Hf|Hf]; [auto|].
    eapply Hok; eauto.
  - rewrite (bind_not_ok _ _ _ _ _ E1) in H by discriminate. inversion H; subst.
    exists n1. split; [exact X1|]. intros Hf. apply (Hbad (Err e)); [discriminate|auto].
  - rewrite (bind_not_ok _ _ _ _ _ E1) in H by discriminate. inversion H; subst.
    exists n1. split; [exact X1|]. intros Hf. apply (Hbad Panic); [discriminate|auto].
  - rewrite (bind_not_ok _ _ _ _ _ E1) in H by discriminate. inversion H; subst.
    exists n1. split; [exact X1|]. intros Hf. apply (Hbad OutOfFuel); [discriminate|auto].
Qed.

Lemma bad_cast P np {A B} (r : outcome A) : (forall a, r <> Ok a) -> bad P np r -> bad P np (@cast A B r).
Proof. destruct r; cbn; auto. Qed.

Lemma rep_bind P np {A B} (m : M A) (k : A -> M B) :
  rep P np m -> (forall a, rep P np (k a)) -> rep P np (bind m k).
Proof.
  intros Hm Hk. unfold rep. apply (repG_bind (bad P np)); auto.
  - intros a [].
  - intros r Hn Hb. apply bad_cast; assumption.
Qed.

(* what `try` does to a reporting computation: the error becomes a value *)
Definition tbad (Q : err -> Prop) (np : bool) {A} (r : outcome (A + err)) : Prop :=
  match r with
  | Ok (inr e) => Q e
  | Ok (inl _) => False
  | Err _ => False
  | Panic | OutOfFuel => np = true
  end.

Lemma repG_try Q np {A} (m : M A) : rep Q np m -> repG (tbad Q np) (try m).
Proof.
  intros Hm s r s' H. unfold try in H. destruct (m s) as [r1 s1] eqn:E1.
  destruct (Hm _ _ _ E1) as (n1 & X1 & F1).
  destruct r1; inversion H; subst; exists n1; (split; [exact X1|]); intros Hf; apply F1 in Hf; exact Hf.
Qed.

(* the catch-site lemma: `match m { Ok(a) => k(inl a), Err(e) => k(inr e) }` reports when m
   reports with errors in Q, every branch reports, and the handler of an error in Q always
   yields an error again *)
Lemma rep_try_bind (Q : err -> Prop) P np {A B} (m : M A) (k : A + err -> M B) :
  rep Q np m ->
  (forall x, rep P np (k x)) ->
  (forall e, Q e -> always (bad P np) (k (inr e))) ->
  rep P np (bind (try m) k).
Proof.
  intros Hm Hk Hh. unfold rep. apply (repG_bind (tbad Q np)).
  - apply repG_try. exact Hm.
  - exact Hk.
  - intros [a|e]; unfold tbad; [intros []|]. apply Hh.
  - intros r Hn. destruct r as [[a|e]| | |]; unfold tbad, cast, bad; auto.
    all: try (intros []).
    all: exfalso; eapply Hn; reflexivity.
Qed.

Lemma rep_weaken (P Q : err -> Prop) (np nq : bool) {A} (m : M A) :
  (forall e, P e -> Q e) -> (np = true -> nq = true) -> rep P np m -> rep Q nq m.
Proof.
  intros HPQ Hn Hm s r s' H. destruct (Hm _ _ _ H) as (n & X & F).
  exists n. split; [exact X|]. intros Hf. specialize (F Hf). destruct r; cbn in *; auto.
Qed.

(* ------------------------------------------------------------------ from rep to the stated forms *)
Lemma rep_trace_extends P np {A} (m : M A) : rep P np m ->
  forall s r s', m s = (r, s') -> trace_extends s s'.
Proof. intros Hm s r s' H. destruct (Hm _ _ _ H) as (n & X & _). exists n. exact X. Qed.

Lemma rep_reports P {A} (m : M A) : rep P false m -> reports m.
Proof.
  intros Hm s r s' H (n & X & Hf). destruct (Hm _ _ _ H) as (n' & X' & F).
  rewrite (ext_unique _ _ _ _ X X') in Hf. specialize (F Hf).
  destruct r; cbn in F; try contradiction; try discriminate. eauto.
Qed.

Lemma rep_reports_device_error {A} (m : M A) : rep (eq DeviceError) false m -> reports_device_error m.
Proof.
  intros Hm s r s' H (n & X & Hf). destruct (Hm _ _ _ H) as (n' & X' & F).
  rewrite (ext_unique _ _ _ _ X X') in Hf. specialize (F Hf).
  destruct r; cbn in F; try contradiction; try discriminate. congruence.
Qed.

Lemma rep_never_ok P np {A} (m : M A) : rep P np m -> never_ok_on_fault m.
Proof.
  intros Hm s r s' H (n & X & Hf) a ->. destruct (Hm _ _ _ H) as (n' & X' & F).
  rewrite (ext_unique _ _ _ _ X X') in Hf. exact (F Hf).
Qed.

(* ------------------------------------------------------------------ computations that do not touch the device *)
Lemma rep_quiet P np {A} (m : M A) :
  (forall s r s', m s = (r, s') -> s_trace s' = s_trace s) -> rep P np m.
Proof.
  intros Hq s r s' H. exists []. split; [unfold ext; cbn; eauto|]. intros Hf. destruct (fails_nil Hf).
Qed.

Lemma rep_ret P np {A} (a : A) : rep P np (ret a).
Proof. apply rep_quiet. intros s r s' H. inversion H; reflexivity. Qed.
Lemma rep_fail P np {A} e : rep P np (@fail A e).
Proof. apply rep_quiet. intros s r s' H. inversion H; reflexivity. Qed.
Lemma rep_panic P np {A} : rep P np (@panic A).
Proof. apply rep_quiet. intros s r s' H. inversion H; reflexivity. Qed.
Lemma rep_out_of_fuel P np {A} : rep P np (@out_of_fuel A).
Proof. apply rep_quiet. intros s r s' H. inversion H; reflexivity. Qed.
Lemma rep_get P np : rep P np get.
Proof. apply rep_quiet. intros s r s' H. inversion H; reflexivity. Qed.
Lemma rep_modify P np f : (forall s, s_trace (f s) = s_trace s) -> rep P np (modify f).
Proof. intros Hf. apply rep_quiet. intros s r s' H. inversion H; subst. apply Hf. Qed.

(* ------------------------------------------------------------------ automation *)
Create HintDb rep discriminated.
#[export] Hint Resolve rep_ret rep_fail rep_panic rep_out_of_fuel rep_get : rep.

Ltac rep_step :=
  lazymatch goal with
  | |- rep _ _ (bind (try _) _) => fail "catch site"
  | |- rep _ _ (bind _ _) => apply rep_bind; [|intros ?]
  | |- rep _ _ (ret _) => apply rep_ret
  | |- rep _ _ (fail _) => apply rep_fail
  | |- rep _ _ panic => apply rep_panic
  | |- rep _ _ out_of_fuel => apply rep_out_of_fuel
  | |- rep _ _ get => apply rep_get
  | |- rep _ _ (modify _) => apply rep_modify; intros ?; reflexivity
  | |- rep _ _ (if ?c then _ else _) => destruct c
  | |- rep _ _ (match ?x with _ => _ end) => destruct x
  | |- rep _ _ _ => solve [eauto with rep]
  end.
Ltac rep_auto := repeat rep_step.

(* `always` for handlers *)
Lemma always_fail (P : err -> Prop) np {A} e : P e -> always (bad P np) (@fail A e).
Proof. intros HP s r s' H. inversion H; subst. exact HP. Qed.

Lemma always_bind_err {A B} (Bd : outcome B -> Prop) (m : M A) (k : A -> M B) e :
  (forall s, m s = (Err e, s)) -> Bd (Err e) -> always Bd (bind m k).
Proof. intros Hm HB s r s' H. rewrite (bind_err _ _ _ _ _ (Hm s)) in H. inversion H; subst. exact HB. Qed.

Lemma always_modify_bind {B} (Bd : outcome B -> Prop) f (k : unit -> M B) :
  always Bd (k tt) -> always Bd (bind (modify f) k).
Proof. intros Hk s r s' H. unfold bind, modify in H. eapply Hk; eauto. Qed.

(* ------------------------------------------------------------------ arithmetic and table helpers *)
Section Pure.
Variable P : err -> Prop.
Variable np : bool.

Lemma rep_add32 a b : rep P np (add32 a b).
Proof. unfold add32. rep_auto. Qed.
Lemma rep_sub32 a b : rep P np (sub32 a b).
Proof. unfold sub32. rep_auto. Qed.
Lemma rep_mul32 a b : rep P np (mul32 a b).
Proof. unfold mul32. rep_auto. Qed.
Hint Resolve rep_add32 rep_sub32 rep_mul32 : rep.

Lemma rep_get_vol vi : rep P np (get_vol vi).
Proof. unfold get_vol. rep_auto. Qed.
Lemma rep_put_vol vi v : rep P np (put_vol vi v).
Proof. unfold put_vol. rep_auto. Qed.
Lemma rep_fat_block v a b : rep P np (fat_block v a b).
Proof. unfold fat_block. rep_auto. Qed.
Lemma rep_cluster_to_block v c : rep P np (cluster_to_block v c).
Proof. unfold cluster_to_block. rep_auto. Qed.
Lemma rep_cache_modify f : rep P np (cache_modify f).
Proof. unfold cache_modify. rep_auto. Qed.
Lemma rep_blank_mut i : rep P np (blank_mut i).
Proof. unfold blank_mut. rep_auto. Qed.
Lemma rep_ts_to_fat t : rep P np (ts_to_fat t).
Proof. unfold ts_to_fat. rep_auto. Qed.
Hint Resolve rep_ts_to_fat : rep.
Lemma rep_serialize b e : rep P np (serialize b e).
Proof. unfold serialize. rep_auto. Qed.
Lemma rep_get_timestamp : rep P np get_timestamp.
Proof. unfold get_timestamp. rep_auto. Qed.
Hint Resolve rep_get_vol rep_put_vol : rep.
Lemma rep_bump_free vi : rep P np (bump_free vi).
Proof. unfold bump_free. rep_auto. Qed.
End Pure.
#[export] Hint Resolve rep_add32 rep_sub32 rep_mul32 rep_get_vol rep_put_vol rep_fat_block
  rep_cluster_to_block rep_cache_modify rep_blank_mut rep_ts_to_fat rep_serialize
  rep_get_timestamp rep_bump_free : rep.

(* ------------------------------------------------------------------ the device *)
(* dev_read / dev_write push exactly one event; the event is a failure exactly when the
   result is Err DeviceError, and otherwise the result is Ok *)
Theorem dev_read_outcome i s r s' : dev_read i s = (r, s') ->
  (r = Err DeviceError /\ s_trace s' = DReadFail i :: s_trace s) \/
  (r = Ok (disk_get (s_disk s) i) /\ s_trace s' = DRead i :: s_trace s).
Proof.
  unfold dev_read. destruct (faulty s); intros H; inversion H; subst; [left|right]; split; reflexivity.
Qed.

Theorem dev_write_outcome i b s r s' : dev_write i b s = (r, s') ->
  (r = Err DeviceError /\ s_trace s' = DWriteFail i :: s_trace s) \/
  (r = Ok tt /\ s_trace s' = DWrite i b :: s_trace s).
Proof.
  unfold dev_write. destruct (faulty s); intros H; inversion H; subst; [left|right]; split; reflexivity.
Qed.

Lemma fails_single d : fails [d] -> (exists i, d = DReadFail i) \/ (exists i, d = DWriteFail i).
Proof. intros [i [[H|[]]|[H|[]]]]; [left|right]; exists i; auto. Qed.

Theorem C11_dev_read_iff i s r s' : dev_read i s = (r, s') ->
  trace_extends s s' /\ (r = Err DeviceError <-> fault_fired s s') /\
  (~ fault_fired s s' -> exists b, r = Ok b).
Proof.
  intros H. destruct (dev_read_outcome _ _ _ _ H) as [[-> Ht]|[-> Ht]].
  - assert (X : ext s s' [DReadFail i]) by exact Ht.
    assert (F : fault_fired s s') by (exists [DReadFail i]; split; [exact X|exists i; left; left; reflexivity]).
    split; [eexists; exact X|]. split; [tauto|]. intros Hn. contradiction.
  - assert (X : ext s s' [DRead i]) by exact Ht.
    assert (F : ~ fault_fired s s').
    { intros (n & Xn & Hf). rewrite (ext_unique _ _ _ _ Xn X) in Hf.
      apply fails_single in Hf. destruct Hf as [[j Hj]|[j Hj]]; discriminate. }
    split; [eexists; exact X|]. split; [split; [discriminate|tauto]|]. intros _. eauto.
Qed.

Theorem C11_dev_write_iff i b s r s' : dev_write i b s = (r, s') ->
  trace_extends s s' /\ (r = Err DeviceError <-> fault_fired s s') /\
  (~ fault_fired s s' -> r = Ok tt).
Proof.
  intros H. destruct (dev_write_outcome _ _ _ _ _ H) as [[-> Ht]|[-> Ht]].
  - assert (X : ext s s' [DWriteFail i]) by exact Ht.
    assert (F : fault_fired s s') by (exists [DWriteFail i]; split; [exact X|exists i; right; left; reflexivity]).
    split; [eexists; exact X|]. split; [tauto|]. intros Hn. contradiction.
  - assert (X : ext s s' [DWrite i b]) by exact Ht.
    assert (F : ~ fault_fired s s').
    { intros (n & Xn & Hf). rewrite (ext_unique _ _ _ _ Xn X) in Hf.
      apply fails_single in Hf. destruct Hf as [[j Hj]|[j Hj]]; discriminate. }
    split; [eexists; exact X|]. split; [split; [discriminate|tauto]|]. intros _. reflexivity.
Qed.

(* the failure schedule decides: the call fails iff its index is scheduled *)
Theorem dev_read_fails_iff_scheduled i s :
  (faulty s = true <-> fst (dev_read i s) = Err DeviceError) /\
  (faulty s = false <-> exists b, fst (dev_read i s) = Ok b).
Proof.
  unfold dev_read. destruct (faulty s); cbn; split; split; intros H; try discriminate; eauto.
  destruct H as [b H]. discriminate.
Qed.

Section Device.
Variable P : err -> Prop.
Variable np : bool.
Hypothesis PD : P DeviceError.

Lemma rep_dev_read i : rep P np (dev_read i).
Proof.
  intros s r s' H. destruct (dev_read_outcome _ _ _ _ H) as [[-> Ht]|[-> Ht]].
  - exists [DReadFail i]. split; [exact Ht|]. intros _. exact PD.
  - exists [DRead i]. split; [exact Ht|]. intros Hf.
    apply fails_single in Hf. destruct Hf as [[j Hj]|[j Hj]]; discriminate.
Qed.

Lemma rep_dev_write i b : rep P np (dev_write i b).
Proof.
  intros s r s' H. destruct (dev_write_outcome _ _ _ _ _ H) as [[-> Ht]|[-> Ht]].
  - exists [DWriteFail i]. split; [exact Ht|]. intros _. exact PD.
  - exists [DWrite i b]. split; [exact Ht|]. intros Hf.
    apply fails_single in Hf. destruct Hf as [[j Hj]|[j Hj]]; discriminate.
Qed.
Hint Resolve rep_dev_read rep_dev_write : rep.

(* ---- the cache: the first catch site.  The handler scribbles the buffer and re-raises. *)
Lemma rep_cache_read i : rep P np (cache_read i).
Proof.
  unfold cache_read. rep_step. { rep_auto. } rep_step. { rep_auto. }
  rep_step. { rep_auto. }
  apply (rep_try_bind P).
  - apply rep_dev_read.
  - intros [b|e]; rep_auto.
  - intros e He. apply always_modify_bind. apply always_fail. exact He.
Qed.

(* ---- write_back: the second catch site.  The handler drops the tag and re-raises. *)
Lemma rep_write_back : rep P np write_back.
Proof.
  unfold write_back. rep_step. { rep_auto. } rep_step; [|rep_auto].
  apply (rep_try_bind P).
  - apply rep_dev_write.
  - intros [u|e]; rep_auto.
  - intros e He. apply always_modify_bind. apply always_fail. exact He.
Qed.

Lemma rep_write_back_with_duplicate d : rep P np (write_back_with_duplicate d).
Proof.
  unfold write_back_with_duplicate. rep_step. { rep_auto. } rep_step; [|rep_auto].
  apply (rep_try_bind P).
  - apply rep_dev_write.
  - intros [u|e]; rep_auto.
  - intros e He. apply always_modify_bind. apply always_fail. exact He.
Qed.
Hint Resolve rep_cache_read rep_write_back rep_write_back_with_duplicate : rep.

(* ---- FAT functions *)
Lemma rep_update_fat vi c x : rep P np (update_fat vi c x).
Proof. unfold update_fat. rep_auto. Qed.

Lemma rep_next_cluster v c : rep P np (next_cluster v c).
Proof. unfold next_cluster. rep_auto. Qed.

Lemma rep_write_entry_to_disk v e : rep P np (write_entry_to_disk v e).
Proof. unfold write_entry_to_disk. rep_auto. Qed.

Lemma rep_update_info_sector vi : rep P np (update_info_sector vi).
Proof. unfold update_info_sector. rep_auto. Qed.

Lemma rep_for_blocks_from {R} (body : N -> M (option R)) :
  (forall i, rep P np (body i)) -> forall n i, rep P np (for_blocks_from n i body).
Proof.
  intros Hb. induction n as [|n IH]; intros i; cbn [for_blocks_from]; rep_auto.
Qed.

Lemma rep_for_blocks {R} (body : N -> M (option R)) first size :
  (forall i, rep P np (body i)) -> rep P np (for_blocks first size body).
Proof. intros Hb. unfold for_blocks. rep_auto. apply rep_for_blocks_from. exact Hb. Qed.

Lemma rep_zero_cluster v c : rep P np (zero_cluster v c).
Proof.
  unfold zero_cluster. rep_step. { rep_auto. } rep_step; [|rep_auto].
  apply rep_for_blocks. intros i. rep_auto.
Qed.

Lemma rep_find_next_free_loop v endc : forall fuel cur, rep P np (find_next_free_loop fuel v cur endc).
Proof.
  induction fuel as [|f IH]; intros cur; cbn [find_next_free_loop]; rep_auto.
Qed.

Lemma rep_find_next_free_cluster v a b : rep P np (find_next_free_cluster v a b).
Proof. unfold find_next_free_cluster. apply rep_find_next_free_loop. Qed.
End Device.

#[export] Hint Resolve rep_dev_read rep_dev_write rep_cache_read rep_write_back
  rep_write_back_with_duplicate rep_update_fat rep_next_cluster rep_write_entry_to_disk
  rep_update_info_sector rep_zero_cluster rep_find_next_free_cluster : rep.

(* the stated forms for the device/cache layer and the FAT functions *)
Theorem C11_cache_read i : reports_device_error (cache_read i).
Proof. apply rep_reports_device_error, rep_cache_read. reflexivity. Qed.
Theorem C11_write_back : reports_device_error write_back.
Proof. apply rep_reports_device_error, rep_write_back. reflexivity. Qed.
Theorem C11_write_back_with_duplicate d : reports_device_error (write_back_with_duplicate d).
Proof. apply rep_reports_device_error, rep_write_back_with_duplicate. reflexivity. Qed.
Theorem C11_update_fat vi c x : reports_device_error (update_fat vi c x).
Proof. apply rep_reports_device_error, rep_update_fat. reflexivity. Qed.
Theorem C11_next_cluster v c : reports_device_error (next_cluster v c).
Proof. apply rep_reports_device_error, rep_next_cluster. reflexivity. Qed.
Theorem C11_write_entry_to_disk v e : reports_device_error (write_entry_to_disk v e).
Proof. apply rep_reports_device_error, rep_write_entry_to_disk. reflexivity. Qed.
Theorem C11_update_info_sector vi : reports_device_error (update_info_sector vi).
Proof. apply rep_reports_device_error, rep_update_info_sector. reflexivity. Qed.
Theorem C11_zero_cluster v c : reports_device_error (zero_cluster v c).
Proof. apply rep_reports_device_error, rep_zero_cluster. reflexivity. Qed.
Theorem C11_find_next_free_cluster v a b : reports_device_error (find_next_free_cluster v a b).
Proof. apply rep_reports_device_error, rep_find_next_free_cluster. reflexivity. Qed.

Lemma reports_device_error_reports {A} (m : M A) : reports_device_error m -> reports m.
Proof. intros H s r s' E F. exists DeviceError. eapply H; eauto. Qed.

(* ------------------------------------------------------------------ catch sites, automated *)
(* A catch site `r <- try m ;; k r` is handled with the error class Q of m:
   - Q = nothing, when m does not touch the device (then the handler is irrelevant);
   - Q = {DeviceError} otherwise; then the handler of DeviceError must always yield an error:
     it is `fail DeviceError`, or starts with `fail DeviceError`, or is `modify ..;;; fail ..`. *)
Ltac always_tac :=
  first [ apply always_fail; assumption
        | apply always_bind_err with (e := DeviceError); [reflexivity|assumption]
        | apply always_modify_bind; apply always_fail; assumption ].

Ltac rep_step2 :=
  cbn beta iota;
  lazymatch goal with
  | |- rep _ _ (bind (try _) _) =>
      first [ apply (rep_try_bind (fun _ => False));
                [ solve [eauto with rep] | intros [?|?] | intros ? [] ]
            | apply (rep_try_bind (eq DeviceError));
                [ solve [eauto with rep] | intros [?|?] | intros ? <-; cbn beta iota; try always_tac ] ]
  | |- _ => rep_step
  end.
Ltac rep_auto2 := repeat rep_step2.

Section Catch.
Variable P : err -> Prop.
Variable np : bool.
Hypothesis PD : P DeviceError.

Lemma rep_alloc_cluster vi prev zero : rep P np (alloc_cluster vi prev zero).
Proof. unfold alloc_cluster. rep_auto2. Qed.
Hint Resolve rep_alloc_cluster : rep.

Lemma rep_truncate_loop vi : forall fuel next, rep P np (truncate_loop fuel vi next).
Proof. induction fuel as [|f IH]; intros next; cbn [truncate_loop]; rep_auto2. Qed.
Hint Resolve rep_truncate_loop : rep.

Lemma rep_truncate_cluster_chain vi c : rep P np (truncate_cluster_chain vi c).
Proof. unfold truncate_cluster_chain. rep_auto2. Qed.
Hint Resolve rep_truncate_cluster_chain : rep.

Lemma rep_free_cluster_chain vi c : rep P np (free_cluster_chain vi c).
Proof. unfold free_cluster_chain. rep_auto2. Qed.
Hint Resolve rep_free_cluster_chain : rep.

Lemma rep_walk_dir {R} vi grow (body : N -> M (option R)) :
  (forall i, rep P np (body i)) -> forall fuel cluster, rep P np (walk_dir fuel vi cluster grow body).
Proof.
  intros Hb. induction fuel as [|f IH]; intros cluster; cbn [walk_dir]; rep_auto2.
  all: try (apply rep_for_blocks; exact Hb).
Qed.
End Catch.
#[export] Hint Resolve rep_alloc_cluster rep_truncate_loop rep_truncate_cluster_chain
  rep_free_cluster_chain : rep.

Section Dirs.
Variable P : err -> Prop.
Variable np : bool.
Hypothesis PD : P DeviceError.

Lemma rep_find_directory_entry vi dc name : rep P np (find_directory_entry vi dc name).
Proof.
  unfold find_directory_entry. rep_step2; [rep_auto2|]. rep_step2; [|rep_auto2].
  apply rep_walk_dir; [exact PD|]. intros i. rep_auto2.
Qed.

Lemma rep_iter_blocks fat32 : forall n i acc, rep P np (iter_blocks n fat32 i acc).
Proof. induction n as [|n IH]; intros i acc; cbn [iter_blocks]; rep_auto2. Qed.
Hint Resolve rep_iter_blocks : rep.

Lemma rep_iter_walk vi : forall fuel cluster acc, rep P np (iter_walk fuel vi cluster acc).
Proof. induction fuel as [|f IH]; intros cluster acc; cbn [iter_walk]; rep_auto2. Qed.
Hint Resolve rep_iter_walk : rep.

Lemma rep_iterate_dir_all vi dc : rep P np (iterate_dir_all vi dc).
Proof. unfold iterate_dir_all. rep_auto2. Qed.

Lemma rep_delete_directory_entry vi dc name : rep P np (delete_directory_entry vi dc name).
Proof.
  unfold delete_directory_entry. rep_step2; [rep_auto2|]. rep_step2; [|rep_auto2].
  apply rep_walk_dir; [exact PD|]. intros i. rep_auto2.
Qed.

Lemma rep_write_new_directory_entry vi dc name attr fc : rep P np (write_new_directory_entry vi dc name attr fc).
Proof.
  unfold write_new_directory_entry. rep_step2; [rep_auto2|]. rep_step2; [|rep_auto2].
  apply rep_walk_dir; [exact PD|]. intros i. rep_auto2.
Qed.
End Dirs.
#[export] Hint Resolve rep_find_directory_entry rep_iter_blocks rep_iter_walk rep_iterate_dir_all
  rep_delete_directory_entry rep_write_new_directory_entry : rep.

(* make_dir: the handler of a failed write_new_directory_entry first releases the cluster
   (free_cluster_chain) and then re-raises.  The result is never Ok; it is the caught error
   unless free_cluster_chain itself stops with another error or a panic. *)
Lemma always_then_fail {A B} (m : M A) e :
  always (bad (fun _ => True) true) (m ;;; @fail B e).
Proof.
  intros s r s' H. unfold bind in H. destruct (m s) as [[a|e'| |] s1]; inversion H; subst; cbn; auto.
Qed.

Lemma rep_make_dir vi parent sfn att : rep (fun _ => True) true (make_dir vi parent sfn att).
Proof.
  unfold make_dir. rep_auto2.
  all: try (apply rep_for_blocks_from; intros; rep_auto2).
  apply always_then_fail.
Qed.
#[export] Hint Resolve rep_make_dir : rep.

(* ------------------------------------------------------------------ the manager's table helpers *)
Section MgrPure.
Variable P : err -> Prop.
Variable np : bool.

Lemma rep_locked {A} (m : M A) : rep P np m -> rep P np (locked m).
Proof. intros Hm. unfold locked. rep_auto. Qed.
Lemma rep_generate : rep P np generate.
Proof. unfold generate. rep_auto. Qed.
Lemma rep_get_volume_by_id id : rep P np (get_volume_by_id id).
Proof. unfold get_volume_by_id. rep_auto. Qed.
Lemma rep_get_dir_by_id id : rep P np (get_dir_by_id id).
Proof. unfold get_dir_by_id. rep_auto. Qed.
Lemma rep_get_file_by_id id : rep P np (get_file_by_id id).
Proof. unfold get_file_by_id. rep_auto. Qed.
Lemma rep_get_dir i : rep P np (get_dir i).
Proof. unfold get_dir. rep_auto. Qed.
Lemma rep_get_file i : rep P np (get_file i).
Proof. unfold get_file. rep_auto. Qed.
Lemma rep_put_file i f : rep P np (put_file i f).
Proof. unfold put_file. rep_auto. Qed.
Lemma rep_file_is_open v e : rep P np (file_is_open v e).
Proof. unfold file_is_open. rep_auto. Qed.
Lemma rep_push_dir d : rep P np (push_dir d).
Proof. unfold push_dir. rep_auto. Qed.
Lemma rep_push_file f : rep P np (push_file f).
Proof. unfold push_file. rep_auto. Qed.
Lemma rep_f_left f : rep P np (f_left f).
Proof. unfold f_left. rep_auto. Qed.
Lemma rep_has_open_handles : rep P np has_open_handles.
Proof. unfold has_open_handles. rep_auto. Qed.
Lemma rep_remount id : rep P np (remount id).
Proof. unfold remount. rep_auto. Qed.
Lemma rep_bpb_create b : rep P np (bpb_create b).
Proof. unfold bpb_create. rep_auto. Qed.
End MgrPure.
#[export] Hint Resolve rep_locked rep_generate rep_get_volume_by_id rep_get_dir_by_id rep_get_file_by_id
  rep_get_dir rep_get_file rep_put_file rep_file_is_open rep_push_dir rep_push_file rep_f_left
  rep_has_open_handles rep_remount rep_bpb_create : rep.

Lemma rep_open_root_dir P np v : rep P np (open_root_dir v).
Proof. unfold open_root_dir. apply rep_locked. rep_auto. Qed.
Lemma rep_close_dir P np d : rep P np (close_dir d).
Proof. unfold close_dir. apply rep_locked. rep_auto. Qed.
Lemma rep_with_file P np {A} h (k : nat -> fileinfo -> M A) :
  (forall fi f, rep P np (k fi f)) -> rep P np (with_file h k).
Proof. intros Hk. unfold with_file. apply rep_locked. rep_auto. Qed.
#[export] Hint Resolve rep_open_root_dir rep_close_dir : rep.

(* the cursor operations never touch the device: they report vacuously, with any error class *)
Lemma rep_file_eof P np h : rep P np (file_eof h).
Proof. unfold file_eof. apply rep_with_file. intros. rep_auto. Qed.
Lemma rep_file_length P np h : rep P np (file_length h).
Proof. unfold file_length. apply rep_with_file. intros. rep_auto. Qed.
Lemma rep_file_offset P np h : rep P np (file_offset h).
Proof. unfold file_offset. apply rep_with_file. intros. rep_auto. Qed.
Lemma rep_file_seek_from_start P np h x : rep P np (file_seek_from_start h x).
Proof. unfold file_seek_from_start. apply rep_with_file. intros. rep_auto. Qed.
Lemma rep_file_seek_from_end P np h x : rep P np (file_seek_from_end h x).
Proof. unfold file_seek_from_end. apply rep_with_file. intros. rep_auto. Qed.
Lemma rep_file_seek_from_current P np h x : rep P np (file_seek_from_current h x).
Proof. unfold file_seek_from_current. apply rep_with_file. intros. cbv zeta. rep_auto. Qed.
#[export] Hint Resolve rep_file_eof rep_file_length rep_file_offset rep_file_seek_from_start
  rep_file_seek_from_end rep_file_seek_from_current : rep.

(* io_seek: the catch site maps an error of file_offset to a panic, but file_offset does not
   touch the device, so no device failure can reach that handler *)
Lemma rep_io_seek P np h w x : rep P np (io_seek h w x).
Proof. unfold io_seek. rep_auto2. Qed.

(* ------------------------------------------------------------------ find_data_on_disk: errors as values *)
(* fdod_walk / find_data_on_disk catch the error of next_cluster and RETURN it as a value next
   to the updated position; the callers then match on it.  So the reporting invariant for these
   two speaks about the returned value. *)
Definition bad_fdod (Q : err -> Prop) (np : bool) {X} (r : outcome (X * option err)) : Prop :=
  match r with
  | Ok (_, Some e) => Q e
  | Ok (_, None) => False
  | Err e => Q e
  | Panic | OutOfFuel => np = true
  end.

Definition bad_fdd (Q : err -> Prop) (np : bool) {X Y} (r : outcome (X * (Y + err))) : Prop :=
  match r with
  | Ok (_, inr e) => Q e
  | Ok (_, inl _) => False
  | Err e => Q e
  | Panic | OutOfFuel => np = true
  end.

Lemma repG_quiet {A} (B : outcome A -> Prop) (m : M A) : rep (fun _ => False) false m -> repG B m.
Proof.
  intros Hm s r s' H. destruct (Hm _ _ _ H) as (n & X & F). exists n. split; [exact X|].
  intros Hf. specialize (F Hf). destruct r; cbn in F; try contradiction; discriminate.
Qed.

Section Fdod.
Variable Q : err -> Prop.
Variable np : bool.
Hypothesis QD : Q DeviceError.

Lemma repG_fdod_walk v : forall n so sc, repG (bad_fdod Q np) (fdod_walk n v so sc).
Proof.
  induction n as [|n IH]; intros so sc; cbn [fdod_walk].
  - apply repG_quiet. rep_auto.
  - apply (repG_bind (tbad (eq DeviceError) np)).
    + apply repG_try. apply rep_next_cluster. reflexivity.
    + intros [c|e].
      * apply (repG_bind (bad Q np)).
        -- apply rep_add32.
        -- intros so'. apply IH.
        -- intros a [].
        -- intros r Hn Hb. destruct r; cbn in *; auto. exfalso. eapply Hn. reflexivity.
      * apply repG_quiet. rep_auto.
    + intros [c|e]; cbn; [intros []|]. intros <- s r s' H. inversion H; subst. exact QD.
    + intros r Hn. destruct r as [[c|e]| | |]; cbn; auto; try (intros []).
      exfalso. eapply Hn. reflexivity.
Qed.

Lemma repG_find_data_on_disk vi start fs desired :
  repG (bad_fdd Q np) (find_data_on_disk vi start fs desired).
Proof.
  unfold find_data_on_disk.
  apply (repG_bind (bad Q np)).
  - apply rep_get_vol.
  - intros v. cbv zeta.
    destruct (if desired <? fst start then (0, fs) else start) as [so sc].
    destruct (bytes_per_cluster v =? 0); [apply repG_quiet; rep_auto|].
    apply (repG_bind (bad_fdod Q np)).
    + apply repG_fdod_walk.
    + intros [[so' sc'] [e|]]; apply repG_quiet; rep_auto.
    + intros [[so' sc'] [e|]]; cbn; [|intros []]. intros He s r s' H. inversion H; subst. exact He.
    + intros r Hn Hb. destruct r as [[x [e|]]| | |]; cbn in *; auto; exfalso; eapply Hn; reflexivity.
  - intros a [].
  - intros r Hn Hb. destruct r; cbn in *; auto. exfalso. eapply Hn. reflexivity.
Qed.
End Fdod.

(* stated plainly: if a device failure is logged inside find_data_on_disk, the call returns
   DeviceError, either as its error or as the error value next to the position *)
Theorem C11_find_data_on_disk vi start fs desired s r s' :
  find_data_on_disk vi start fs desired s = (r, s') -> fault_fired s s' ->
  r = Err DeviceError \/ exists st', r = Ok (st', inr DeviceError).
Proof.
  intros H (n & X & Hf).
  destruct (repG_find_data_on_disk (eq DeviceError) false eq_refl _ _ _ _ _ _ _ H) as (n' & X' & F).
  rewrite (ext_unique _ _ _ _ X X') in Hf. specialize (F Hf).
  destruct r as [[st' [y|e]]|e| |]; cbn in F; try contradiction; try discriminate; subst; eauto.
Qed.

(* ------------------------------------------------------------------ read, write, flush, close *)
Section Files.
Variable P : err -> Prop.
Variable np : bool.
Hypothesis PD : P DeviceError.

Lemma rep_read_loop fi vi : forall fuel space acc, rep P np (read_loop fuel fi vi space acc).
Proof.
  induction fuel as [|fu IH]; intros space acc; cbn [read_loop]; [rep_auto|].
  rep_step; [rep_auto|]. rep_step; [|rep_auto].
  unfold rep. apply (repG_bind (bad_fdd (eq DeviceError) np)).
  - apply repG_find_data_on_disk. reflexivity.
  - intros [cur [[[blk boff] bavail]|e]]; fold (rep P np (A:=list N)); rep_auto2.
  - intros [cur [x|e]]; cbn; [intros []|]. intros <-. apply always_fail. exact PD.
  - intros r Hn Hb. destruct r as [[x [y|e]]|e| |]; cbn in *; auto; try (exfalso; eapply Hn; reflexivity).
    subst. exact PD.
Qed.

Lemma rep_mgr_read h n : rep P np (mgr_read h n).
Proof. unfold mgr_read. apply rep_locked. rep_auto2. apply rep_read_loop. Qed.

Lemma rep_flush_file h : rep P np (flush_file h).
Proof. unfold flush_file. apply rep_locked. rep_auto2. Qed.
End Files.
