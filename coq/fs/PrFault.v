(* PROOFS for C11: a failed block-device call inside an operation makes the operation return
   an error - never success, never a panic.

   The device log `s_trace` (newest event first) only grows.  `fails new` says that the events
   `new` added by a computation contain a failed read or write.  The central notion is

     rep P np m  :=  whenever `m` runs from s to s' with result r, the trace of s' extends the
                     trace of s by some `new`, and IF `new` contains a failure THEN r is `Err e`
                     with `P e`  (when np = true, Panic / OutOfFuel are tolerated as well).

   `rep (fun _ => True) false m` gives the property as stated (`reports m`);
   `rep (eq DeviceError) false m` is the stronger "the error is DeviceError itself".
   rep is compositional over bind, and over `try` provided the handler maps the caught
   DeviceError to an error again - which is exactly what has to be examined at each catch site. *)
From Coq Require Import NArith ZArith List Bool Lia Arith FMapPositive.
From SdFs Require Import FsTypes FsBase FsFat FsMgr FsLemmas PrBase.
Import ListNotations.
Open Scope N_scope.

(* ------------------------------------------------------------------ definitions *)
Definition fails (new : list devcall) : Prop :=
  exists i, In (DReadFail i) new \/ In (DWriteFail i) new.

(* the trace of s' is the trace of s with `new` pushed on top *)
Definition ext (s s' : st) (new : list devcall) : Prop := s_trace s' = new ++ s_trace s.

Definition trace_extends (s s' : st) : Prop := exists new, ext s s' new.

(* a device failure was logged between s and s' *)
Definition fault_fired (s s' : st) : Prop := exists new, ext s s' new /\ fails new.

Definition reports {A} (m : M A) : Prop :=
  forall s r s', m s = (r, s') -> fault_fired s s' -> exists e, r = Err e.

Definition reports_device_error {A} (m : M A) : Prop :=
  forall s r s', m s = (r, s') -> fault_fired s s' -> r = Err DeviceError.

(* "never success" alone *)
Definition never_ok_on_fault {A} (m : M A) : Prop :=
  forall s r s', m s = (r, s') -> fault_fired s s' -> forall a, r <> Ok a.

Lemma fails_nil : ~ fails [].
Proof. intros [i [H|H]]; inversion H. Qed.

Lemma fails_app a b : fails (a ++ b) -> fails a \/ fails b.
Proof.
  intros [i [H|H]]; apply in_app_or in H; destruct H as [H|H];
    [left|right|left|right]; exists i; auto.
Qed.

Lemma ext_refl s : ext s s [].
Proof. reflexivity. Qed.

Lemma ext_trans s s1 s2 n1 n2 : ext s s1 n1 -> ext s1 s2 n2 -> ext s s2 (n2 ++ n1).
Proof. unfold ext. intros H1 H2. rewrite H2, H1, app_assoc. reflexivity. Qed.

Lemma ext_unique s s' n1 n2 : ext s s' n1 -> ext s s' n2 -> n1 = n2.
Proof. unfold ext. intros H1 H2. rewrite H1 in H2. apply app_inv_tail in H2. exact H2. Qed.

(* ------------------------------------------------------------------ the general invariant *)
Definition repG {A} (B : outcome A -> Prop) (m : M A) : Prop :=
  forall s r s', m s = (r, s') -> exists new, ext s s' new /\ (fails new -> B r).

Definition always {A} (B : outcome A -> Prop) (m : M A) : Prop :=
  forall s r s', m s = (r, s') -> B r.

Definition bad (P : err -> Prop) (np : bool) {A} (r : outcome A) : Prop :=
  match r with
  | Ok _ => False
  | Err e => P e
  | Panic | OutOfFuel => np = true
  end.

Definition rep (P : err -> Prop) (np : bool) {A} (m : M A) : Prop := repG (bad P np) m.

Definition cast {A B} (r : outcome A) : outcome B :=
  match r with Ok _ => Panic | Err e => Err e | Panic => Panic | OutOfFuel => OutOfFuel end.

Lemma bind_not_ok {A B} (m : M A) (k : A -> M B) s r s1 :
  m s = (r, s1) -> (forall a, r <> Ok a) -> bind m k s = (cast r, s1).
Proof.
  intros H Hn. unfold bind. rewrite H. destruct r; try reflexivity. exfalso. eapply Hn. reflexivity.
Qed.

(* the composition lemma: if every step reports, the sequence reports.  B1 may allow some Ok
   values (errors caught as values by `try`); then the continuation must always turn those
   into something B2 accepts. *)
Lemma repG_bind {A B} (B1 : outcome A -> Prop) (B2 : outcome B -> Prop) (m : M A) (k : A -> M B) :
  repG B1 m ->
  (forall a, repG B2 (k a)) ->
  (forall a, B1 (Ok a) -> always B2 (k a)) ->
  (forall r, (forall a, r <> Ok a) -> B1 r -> B2 (cast r)) ->
  repG B2 (bind m k).
Proof.
  intros Hm Hk Hok Hbad s r s' H.
  destruct (m s) as [r1 s1] eqn:E1.
  destruct (Hm _ _ _ E1) as (n1 & X1 & F1).
  destruct r1 as [a| e | |].
  - rewrite (bind_ok _ _ _ _ _ E1) in H.
    destruct (Hk a _ _ _ H) as (n2 & X2 & F2).
    exists (n2 ++ n1). split; [eapply ext_trans; eauto|].
    intros Hf. apply fails_app in Hf. destruct Hf as [Hf|Hf]; [auto|].
    eapply Hok; eauto.
  - rewrite (bind_not_ok _ _ _ _ _ E1) in H by discriminate. inversion H; subst.
    exists n1. split; [exact X1|]. intros Hf. apply (Hbad (Err e)); [discriminate|auto].
  - rewrite (bind_not_ok _ _ _ _ _ E1) in H by discriminate. inversion H; subst.
    exists n1. split; [exact X1|]. intros Hf. apply (Hbad Panic); [discriminate|auto].
  - rewrite (bind_not_ok _ _ _ _ _ E1) in H by discriminate. inversion H; subst.
    exists n1. split; [exact X1|]. intros Hf. apply (Hbad OutOfFuel); [discriminate|auto].
Qed.

Lemma bad_cast P np {A B} (r : outcome A) : (forall a, r <> Ok a) -> bad P np r -> bad P np (@cast A B r).
Proof. destruct r; cbn; auto. Qed.

Lemma rep_bind P np {A B} (m : M A) (k : A -> M B) :
  rep P np m -> (forall a, rep P np (k a)) -> rep P np (bind m k).
Proof.
  intros Hm Hk. unfold rep. apply (repG_bind (bad P np)); auto.
  - intros a [].
  - intros r Hn Hb. apply bad_cast; assumption.
Qed.

(* what `try` does to a reporting computation: the error becomes a value *)
Definition tbad (Q : err -> Prop) (np : bool) {A} (r : outcome (A + err)) : Prop :=
  match r with
  | Ok (inr e) => Q e
  | Ok (inl _) => False
  | Err _ => False
  | Panic | OutOfFuel => np = true
  end.

Lemma repG_try Q np {A} (m : M A) : rep Q np m -> repG (tbad Q np) (try m).
Proof.
  intros Hm s r s' H. unfold try in H. destruct (m s) as [r1 s1] eqn:E1.
  destruct (Hm _ _ _ E1) as (n1 & X1 & F1).
  destruct r1; inversion H; subst; exists n1; (split; [exact X1|]); intros Hf; apply F1 in Hf; exact Hf.
Qed.

(* the catch-site lemma: `match m { Ok(a) => k(inl a), Err(e) => k(inr e) }` reports when m
   reports with errors in Q, every branch reports, and the handler of an error in Q always
   yields an error again *)
Lemma rep_try_bind (Q : err -> Prop) P np {A B} (m : M A) (k : A + err -> M B) :
  rep Q np m ->
  (forall x, rep P np (k x)) ->
  (forall e, Q e -> always (bad P np) (k (inr e))) ->
  rep P np (bind (try m) k).
Proof.
  intros Hm Hk Hh. unfold rep. apply (repG_bind (tbad Q np)).
  - apply repG_try. exact Hm.
  - exact Hk.
  - intros [a|e]; unfold tbad; [intros []|]. apply Hh.
  - intros r Hn. destruct r as [[a|e]| | |]; unfold tbad, cast, bad; auto.
    all: try (intros []).
    all: exfalso; eapply Hn; reflexivity.
Qed.

Lemma rep_weaken (P Q : err -> Prop) (np nq : bool) {A} (m : M A) :
  (forall e, P e -> Q e) -> (np = true -> nq = true) -> rep P np m -> rep Q nq m.
Proof.
  intros HPQ Hn Hm s r s' H. destruct (Hm _ _ _ H) as (n & X & F).
  exists n. split; [exact X|]. intros Hf. specialize (F Hf). destruct r; cbn in *; auto.
Qed.

(* ------------------------------------------------------------------ from rep to the stated forms *)
Lemma rep_trace_extends P np {A} (m : M A) : rep P np m ->
  forall s r s', m s = (r, s') -> trace_extends s s'.
Proof. intros Hm s r s' H. destruct (Hm _ _ _ H) as (n & X & _). exists n. exact X. Qed.

Lemma rep_reports P {A} (m : M A) : rep P false m -> reports m.
Proof.
  intros Hm s r s' H (n & X & Hf). destruct (Hm _ _ _ H) as (n' & X' & F).
  rewrite (ext_unique _ _ _ _ X X') in Hf. specialize (F Hf).
  destruct r; cbn in F; try contradiction; try discriminate. eauto.
Qed.

Lemma rep_reports_device_error {A} (m : M A) : rep (eq DeviceError) false m -> reports_device_error m.
Proof.
  intros Hm s r s' H (n & X & Hf). destruct (Hm _ _ _ H) as (n' & X' & F).
  rewrite (ext_unique _ _ _ _ X X') in Hf. specialize (F Hf).
  destruct r; cbn in F; try contradiction; try discriminate. congruence.
Qed.

Lemma rep_never_ok P np {A} (m : M A) : rep P np m -> never_ok_on_fault m.
Proof.
  intros Hm s r s' H (n & X & Hf) a ->. destruct (Hm _ _ _ H) as (n' & X' & F).
  rewrite (ext_unique _ _ _ _ X X') in Hf. exact (F Hf).
Qed.

(* ------------------------------------------------------------------ computations that do not touch the device *)
Lemma rep_quiet P np {A} (m : M A) :
  (forall s r s', m s = (r, s') -> s_trace s' = s_trace s) -> rep P np m.
Proof.
  intros Hq s r s' H. exists []. split; [unfold ext; cbn; eauto|]. intros Hf. destruct (fails_nil Hf).
Qed.

Lemma rep_ret P np {A} (a : A) : rep P np (ret a).
Proof. apply rep_quiet. intros s r s' H. inversion H; reflexivity. Qed.
Lemma rep_fail P np {A} e : rep P np (@fail A e).
Proof. apply rep_quiet. intros s r s' H. inversion H; reflexivity. Qed.
Lemma rep_panic P np {A} : rep P np (@panic A).
Proof. apply rep_quiet. intros s r s' H. inversion H; reflexivity. Qed.
Lemma rep_out_of_fuel P np {A} : rep P np (@out_of_fuel A).
Proof. apply rep_quiet. intros s r s' H. inversion H; reflexivity. Qed.
Lemma rep_get P np : rep P np get.
Proof. apply rep_quiet. intros s r s' H. inversion H; reflexivity. Qed.
Lemma rep_modify P np f : (forall s, s_trace (f s) = s_trace s) -> rep P np (modify f).
Proof. intros Hf. apply rep_quiet. intros s r s' H. inversion H; subst. apply Hf. Qed.

(* ------------------------------------------------------------------ automation *)
Create HintDb rep discriminated.
#[export] Hint Resolve rep_ret rep_fail rep_panic rep_out_of_fuel rep_get : rep.

Ltac rep_step :=
  lazymatch goal with
  | |- rep _ _ (bind (try _) _) => fail "catch site"
  | |- rep _ _ (bind _ _) => apply rep_bind; [|intros ?]
  | |- rep _ _ (ret _) => apply rep_ret
  | |- rep _ _ (fail _) => apply rep_fail
  | |- rep _ _ panic => apply rep_panic
  | |- rep _ _ out_of_fuel => apply rep_out_of_fuel
  | |- rep _ _ get => apply rep_get
  | |- rep _ _ (modify _) => apply rep_modify; intros ?; reflexivity
  | |- rep _ _ (if ?c then _ else _) => destruct c
  | |- rep _ _ (match ?x with _ => _ end) => destruct x
  | |- rep _ _ _ => solve [eauto with rep]
  end.
Ltac rep_auto := repeat rep_step.

(* `always` for handlers *)
Lemma always_fail (P : err -> Prop) np {A} e : P e -> always (bad P np) (@fail A e).
Proof. intros HP s r s' H. inversion H; subst. exact HP. Qed.

Lemma always_bind_err {A B} (Bd : outcome B -> Prop) (m : M A) (k : A -> M B) e :
  (forall s, m s = (Err e, s)) -> Bd (Err e) -> always Bd (bind m k).
Proof. intros Hm HB s r s' H. rewrite (bind_err _ _ _ _ _ (Hm s)) in H. inversion H; subst. exact HB. Qed.

Lemma always_modify_bind {B} (Bd : outcome B -> Prop) f (k : unit -> M B) :
  always Bd (k tt) -> always Bd (bind (modify f) k).
Proof. intros Hk s r s' H. unfold bind, modify in H. eapply Hk; eauto. Qed.

(* ------------------------------------------------------------------ arithmetic and table helpers *)
Section Pure.
Variable P : err -> Prop.
Variable np : bool.

Lemma rep_add32 a b : rep P np (add32 a b).
Proof. unfold add32. rep_auto. Qed.
Lemma rep_sub32 a b : rep P np (sub32 a b).
Proof. unfold sub32. rep_auto. Qed.
Lemma rep_mul32 a b : rep P np (mul32 a b).
Proof. unfold mul32. rep_auto. Qed.
Hint Resolve rep_add32 rep_sub32 rep_mul32 : rep.

Lemma rep_get_vol vi : rep P np (get_vol vi).
Proof. unfold get_vol. rep_auto. Qed.
Lemma rep_put_vol vi v : rep P np (put_vol vi v).
Proof. unfold put_vol. rep_auto. Qed.
Lemma rep_fat_block v a b : rep P np (fat_block v a b).
Proof. unfold fat_block. rep_auto. Qed.
Lemma rep_cluster_to_block v c : rep P np (cluster_to_block v c).
Proof. unfold cluster_to_block. rep_auto. Qed.
Lemma rep_cache_modify f : rep P np (cache_modify f).
Proof. unfold cache_modify. rep_auto. Qed.
Lemma rep_blank_mut i : rep P np (blank_mut i).
Proof. unfold blank_mut. rep_auto. Qed.
Lemma rep_ts_to_fat t : rep P np (ts_to_fat t).
Proof. unfold ts_to_fat. rep_auto. Qed.
Hint Resolve rep_ts_to_fat : rep.
Lemma rep_serialize b e : rep P np (serialize b e).
Proof. unfold serialize. rep_auto. Qed.
Lemma rep_get_timestamp : rep P np get_timestamp.
Proof. unfold get_timestamp. rep_auto. Qed.
Hint Resolve rep_get_vol rep_put_vol : rep.
Lemma rep_bump_free vi : rep P np (bump_free vi).
Proof. unfold bump_free. rep_auto. Qed.
End Pure.
#[export] Hint Resolve rep_add32 rep_sub32 rep_mul32 rep_get_vol rep_put_vol rep_fat_block
  rep_cluster_to_block rep_cache_modify rep_blank_mut rep_ts_to_fat rep_serialize
  rep_get_timestamp rep_bump_free : rep.

(* ------------------------------------------------------------------ the device *)
(* dev_read / dev_write push exactly one event; the event is a failure exactly when the
   result is Err DeviceError, and otherwise the result is Ok *)
Theorem dev_read_outcome i s r s' : dev_read i s = (r, s') ->
  (r = Err DeviceError /\ s_trace s' = DReadFail i :: s_trace s) \/
  (r = Ok (disk_get (s_disk s) i) /\ s_trace s' = DRead i :: s_trace s).
Proof.
  unfold dev_read. destruct (faulty s); intros H; inversion H; subst; [left|right]; split; reflexivity.
Qed.

Theorem dev_write_outcome i b s r s' : dev_write i b s = (r, s') ->
  (r = Err DeviceError /\ s_trace s' = DWriteFail i :: s_trace s) \/
  (r = Ok tt /\ s_trace s' = DWrite i b :: s_trace s).
Proof.
  unfold dev_write. destruct (faulty s); intros H; inversion H; subst; [left|right]; split; reflexivity.
Qed.

Lemma fails_single d : fails [d] -> (exists i, d = DReadFail i) \/ (exists i, d = DWriteFail i).
Proof. intros [i [[H|[]]|[H|[]]]]; [left|right]; exists i; auto. Qed.

Theorem C11_dev_read_iff i s r s' : dev_read i s = (r, s') ->
  trace_extends s s' /\ (r = Err DeviceError <-> fault_fired s s') /\
  (~ fault_fired s s' -> exists b, r = Ok b).
Proof.
  intros H. destruct (dev_read_outcome _ _ _ _ H) as [[-> Ht]|[-> Ht]].
  - assert (X : ext s s' [DReadFail i]) by exact Ht.
    assert (F : fault_fired s s') by (exists [DReadFail i]; split; [exact X|exists i; left; left; reflexivity]).
    split; [eexists; exact X|]. split; [tauto|]. intros Hn. contradiction.
  - assert (X : ext s s' [DRead i]) by exact Ht.
    assert (F : ~ fault_fired s s').
    { intros (n & Xn & Hf). rewrite (ext_unique _ _ _ _ Xn X) in Hf.
      apply fails_single in Hf. destruct Hf as [[j Hj]|[j Hj]]; discriminate. }
    split; [eexists; exact X|]. split; [split; [discriminate|tauto]|]. intros _. eauto.
Qed.

Theorem C11_dev_write_iff i b s r s' : dev_write i b s = (r, s') ->
  trace_extends s s' /\ (r = Err DeviceError <-> fault_fired s s') /\
  (~ fault_fired s s' -> r = Ok tt).
Proof.
  intros H. destruct (dev_write_outcome _ _ _ _ _ H) as [[-> Ht]|[-> Ht]].
  - assert (X : ext s s' [DWriteFail i]) by exact Ht.
    assert (F : fault_fired s s') by (exists [DWriteFail i]; split; [exact X|exists i; right; left; reflexivity]).
    split; [eexists; exact X|]. split; [tauto|]. intros Hn. contradiction.
  - assert (X : ext s s' [DWrite i b]) by exact Ht.
    assert (F : ~ fault_fired s s').
    { intros (n & Xn & Hf). rewrite (ext_unique _ _ _ _ Xn X) in Hf.
      apply fails_single in Hf. destruct Hf as [[j Hj]|[j Hj]]; discriminate. }
    split; [eexists; exact X|]. split; [split; [discriminate|tauto]|]. intros _. reflexivity.
Qed.

(* the failure schedule decides: the call fails iff its index is scheduled *)
Theorem dev_read_fails_iff_scheduled i s :
  (faulty s = true <-> fst (dev_read i s) = Err DeviceError) /\
  (faulty s = false <-> exists b, fst (dev_read i s) = Ok b).
Proof.
  unfold dev_read. destruct (faulty s); cbn; split; split; intros H; try discriminate; eauto.
  destruct H as [b H]. discriminate.
Qed.

Section Device.
Variable P : err -> Prop.
Variable np : bool.
Hypothesis PD : P DeviceError.

Lemma rep_dev_read i : rep P np (dev_read i).
Proof.
  intros s r s' H. destruct (dev_read_outcome _ _ _ _ H) as [[-> Ht]|[-> Ht]].
  - exists [DReadFail i]. split; [exact Ht|]. intros _. exact PD.
  - exists [DRead i]. split; [exact Ht|]. intros Hf.
    apply fails_single in Hf. destruct Hf as [[j Hj]|[j Hj]]; discriminate.
Qed.

Lemma rep_dev_write i b : rep P np (dev_write i b).
Proof.
  intros s r s' H. destruct (dev_write_outcome _ _ _ _ _ H) as [[-> Ht]|[-> Ht]].
  - exists [DWriteFail i]. split; [exact Ht|]. intros _. exact PD.
  - exists [DWrite i b]. split; [exact Ht|]. intros Hf.
    apply fails_single in Hf. destruct Hf as [[j Hj]|[j Hj]]; discriminate.
Qed.
Hint Resolve rep_dev_read rep_dev_write : rep.

(* ---- the cache: the first catch site.  The handler scribbles the buffer and re-raises. *)
Lemma rep_cache_read i : rep P np (cache_read i).
Proof.
  unfold cache_read. rep_step. { rep_auto. } rep_step. { rep_auto. }
  rep_step. { rep_auto. }
  apply (rep_try_bind P).
  - apply rep_dev_read.
  - intros [b|e]; rep_auto.
  - intros e He. apply always_modify_bind. apply always_fail. exact He.
Qed.

(* ---- write_back: the second catch site.  The handler drops the tag and re-raises. *)
Lemma rep_write_back : rep P np write_back.
Proof.
  unfold write_back. rep_step. { rep_auto. } rep_step; [|rep_auto].
  apply (rep_try_bind P).
  - apply rep_dev_write.
  - intros [u|e]; rep_auto.
  - intros e He. apply always_modify_bind. apply always_fail. exact He.
Qed.

Lemma rep_write_back_with_duplicate d : rep P np (write_back_with_duplicate d).
Proof.
  unfold write_back_with_duplicate. rep_step. { rep_auto. } rep_step; [|rep_auto].
  apply (rep_try_bind P).
  - apply rep_dev_write.
  - intros [u|e]; rep_auto.
  - intros e He. apply always_modify_bind. apply always_fail. exact He.
Qed.
Hint Resolve rep_cache_read rep_write_back rep_write_back_with_duplicate : rep.

(* ---- FAT functions *)
Lemma rep_update_fat vi c x : rep P np (update_fat vi c x).
Proof. unfold update_fat. rep_auto. Qed.

Lemma rep_next_cluster v c : rep P np (next_cluster v c).
Proof. unfold next_cluster. rep_auto. Qed.

Lemma rep_write_entry_to_disk v e : rep P np (write_entry_to_disk v e).
Proof. unfold write_entry_to_disk. rep_auto. Qed.

Lemma rep_update_info_sector vi : rep P np (update_info_sector vi).
Proof. unfold update_info_sector. rep_auto. Qed.

Lemma rep_for_blocks_from {R} (body : N -> M (option R)) :
  (forall i, rep P np (body i)) -> forall n i, rep P np (for_blocks_from n i body).
Proof.
  intros Hb. induction n as [|n IH]; intros i; cbn [for_blocks_from]; rep_auto.
Qed.

Lemma rep_for_blocks {R} (body : N -> M (option R)) first size :
  (forall i, rep P np (body i)) -> rep P np (for_blocks first size body).
Proof. intros Hb. unfold for_blocks. rep_auto. apply rep_for_blocks_from. exact Hb. Qed.

Lemma rep_zero_cluster v c : rep P np (zero_cluster v c).
Proof.
  unfold zero_cluster. rep_step. { rep_auto. } rep_step; [|rep_auto].
  apply rep_for_blocks. intros i. rep_auto.
Qed.

Lemma rep_find_next_free_loop v endc : forall fuel cur, rep P np (find_next_free_loop fuel v cur endc).
Proof.
  induction fuel as [|f IH]; intros cur; cbn [find_next_free_loop]; rep_auto.
Qed.

Lemma rep_find_next_free_cluster v a b : rep P np (find_next_free_cluster v a b).
Proof. unfold find_next_free_cluster. apply rep_find_next_free_loop. Qed.
End Device.

#[export] Hint Resolve rep_dev_read rep_dev_write rep_cache_read rep_write_back
  rep_write_back_with_duplicate rep_update_fat rep_next_cluster rep_write_entry_to_disk
  rep_update_info_sector rep_zero_cluster rep_find_next_free_cluster : rep.

(* the stated forms for the device/cache layer and the FAT functions *)
Theorem C11_cache_read i : reports_device_error (cache_read i).
Proof. apply rep_reports_device_error, rep_cache_read. reflexivity. Qed.
Theorem C11_write_back : reports_device_error write_back.
Proof. apply rep_reports_device_error, rep_write_back. reflexivity. Qed.
Theorem C11_write_back_with_duplicate d : reports_device_error (write_back_with_duplicate d).
Proof. apply rep_reports_device_error, rep_write_back_with_duplicate. reflexivity. Qed.
Theorem C11_update_fat vi c x : reports_device_error (update_fat vi c x).
Proof. apply rep_reports_device_error, rep_update_fat. reflexivity. Qed.
Theorem C11_next_cluster v c : reports_device_error (next_cluster v c).
Proof. apply rep_reports_device_error, rep_next_cluster. reflexivity. Qed.
Theorem C11_write_entry_to_disk v e : reports_device_error (write_entry_to_disk v e).
Proof. apply rep_reports_device_error, rep_write_entry_to_disk. reflexivity. Qed.
Theorem C11_update_info_sector vi : reports_device_error (update_info_sector vi).
Proof. apply rep_reports_device_error, rep_update_info_sector. reflexivity. Qed.
Theorem C11_zero_cluster v c : reports_device_error (zero_cluster v c).
Proof. apply rep_reports_device_error, rep_zero_cluster. reflexivity. Qed.
Theorem C11_find_next_free_cluster v a b : reports_device_error (find_next_free_cluster v a b).
Proof. apply rep_reports_device_error, rep_find_next_free_cluster. reflexivity. Qed.

Lemma reports_device_error_reports {A} (m : M A) : reports_device_error m -> reports m.
Proof. intros H s r s' E F. exists DeviceError. eapply H; eauto. Qed.

(* ------------------------------------------------------------------ catch sites, automated *)
(* A catch site `r <- try m ;; k r` is handled with the error class Q of m:
   - Q = nothing, when m does not touch the device (then the handler is irrelevant);
   - Q = {DeviceError} otherwise; then the handler of DeviceError must always yield an error:
     it is `fail DeviceError`, or starts with `fail DeviceError`, or is `modify ..;;; fail ..`. *)
Ltac always_tac :=
  first [ apply always_fail; assumption
        | apply always_bind_err with (e := DeviceError); [reflexivity|assumption]
        | apply always_modify_bind; apply always_fail; assumption ].

Ltac rep_step2 :=
  cbn beta iota;
  lazymatch goal with
  | |- rep _ _ (bind (try _) _) =>
      first [ apply (rep_try_bind (fun _ => False));
                [ solve [eauto with rep] | intros [?|?] | intros ? [] ]
            | apply (rep_try_bind (eq DeviceError));
                [ solve [eauto with rep] | intros [?|?] | intros ? <-; cbn beta iota; try always_tac ] ]
  | |- _ => rep_step
  end.
Ltac rep_auto2 := repeat rep_step2.

Section Catch.
Variable P : err -> Prop.
Variable np : bool.
Hypothesis PD : P DeviceError.

Lemma rep_alloc_cluster vi prev zero : rep P np (alloc_cluster vi prev zero).
Proof. unfold alloc_cluster. rep_auto2. Qed.
Hint Resolve rep_alloc_cluster : rep.

Lemma rep_truncate_loop vi : forall fuel next, rep P np (truncate_loop fuel vi next).
Proof. induction fuel as [|f IH]; intros next; cbn [truncate_loop]; rep_auto2. Qed.
Hint Resolve rep_truncate_loop : rep.

Lemma rep_truncate_cluster_chain vi c : rep P np (truncate_cluster_chain vi c).
Proof. unfold truncate_cluster_chain. rep_auto2. Qed.
Hint Resolve rep_truncate_cluster_chain : rep.

Lemma rep_free_cluster_chain vi c : rep P np (free_cluster_chain vi c).
Proof. unfold free_cluster_chain. rep_auto2. Qed.
Hint Resolve rep_free_cluster_chain : rep.

Lemma rep_walk_dir {R} vi grow (body : N -> M (option R)) :
  (forall i, rep P np (body i)) -> forall fuel cluster, rep P np (walk_dir fuel vi cluster grow body).
Proof.
  intros Hb. induction fuel as [|f IH]; intros cluster; cbn [walk_dir]; rep_auto2.
  all: try (apply rep_for_blocks; exact Hb).
Qed.
End Catch.
#[export] Hint Resolve rep_alloc_cluster rep_truncate_loop rep_truncate_cluster_chain
  rep_free_cluster_chain : rep.

Section Dirs.
Variable P : err -> Prop.
Variable np : bool.
Hypothesis PD : P DeviceError.

Lemma rep_find_directory_entry vi dc name : rep P np (find_directory_entry vi dc name).
Proof.
  unfold find_directory_entry. rep_step2; [rep_auto2|]. rep_step2; [|rep_auto2].
  apply rep_walk_dir; [exact PD|]. intros i. rep_auto2.
Qed.

Lemma rep_iter_blocks fat32 : forall n i acc, rep P np (iter_blocks n fat32 i acc).
Proof. induction n as [|n IH]; intros i acc; cbn [iter_blocks]; rep_auto2. Qed.
Hint Resolve rep_iter_blocks : rep.

Lemma rep_iter_walk vi : forall fuel cluster acc, rep P np (iter_walk fuel vi cluster acc).
Proof. induction fuel as [|f IH]; intros cluster acc; cbn [iter_walk]; rep_auto2. Qed.
Hint Resolve rep_iter_walk : rep.

Lemma rep_iterate_dir_all vi dc : rep P np (iterate_dir_all vi dc).
Proof. unfold iterate_dir_all. rep_auto2. Qed.

Lemma rep_delete_directory_entry vi dc name : rep P np (delete_directory_entry vi dc name).
Proof.
  unfold delete_directory_entry. rep_step2; [rep_auto2|]. rep_step2; [|rep_auto2].
  apply rep_walk_dir; [exact PD|]. intros i. rep_auto2.
Qed.

Lemma rep_write_new_directory_entry vi dc name attr fc : rep P np (write_new_directory_entry vi dc name attr fc).
Proof.
  unfold write_new_directory_entry. rep_step2; [rep_auto2|]. rep_step2; [|rep_auto2].
  apply rep_walk_dir; [exact PD|]. intros i. rep_auto2.
Qed.
End Dirs.
#[export] Hint Resolve rep_find_directory_entry rep_iter_blocks rep_iter_walk rep_iterate_dir_all
  rep_delete_directory_entry rep_write_new_directory_entry : rep.

(* make_dir: the handler of a failed write_new_directory_entry first releases the cluster
   (free_cluster_chain) and then re-raises.  The result is never Ok; it is the caught error
   unless free_cluster_chain itself stops with another error or a panic. *)
Lemma always_then_fail {A B} (m : M A) e :
  always (bad (fun _ => True) true) (m ;;; @fail B e).
Proof.
  intros s r s' H. unfold bind in H. destruct (m s) as [[a|e'| |] s1]; inversion H; subst; cbn; auto.
Qed.

Lemma rep_make_dir vi parent sfn att : rep (fun _ => True) true (make_dir vi parent sfn att).
Proof.
  unfold make_dir. rep_auto2.
  all: try (apply rep_for_blocks_from; intros; rep_auto2).
  apply always_then_fail.
Qed.
#[export] Hint Resolve rep_make_dir : rep.

(* ------------------------------------------------------------------ the manager's table helpers *)
Section MgrPure.
Variable P : err -> Prop.
Variable np : bool.

Lemma rep_locked {A} (m : M A) : rep P np m -> rep P np (locked m).
Proof. intros Hm. unfold locked. rep_auto. Qed.
Lemma rep_generate : rep P np generate.
Proof. unfold generate. rep_auto. Qed.
Lemma rep_get_volume_by_id id : rep P np (get_volume_by_id id).
Proof. unfold get_volume_by_id. rep_auto. Qed.
Lemma rep_get_dir_by_id id : rep P np (get_dir_by_id id).
Proof. unfold get_dir_by_id. rep_auto. Qed.
Lemma rep_get_file_by_id id : rep P np (get_file_by_id id).
Proof. unfold get_file_by_id. rep_auto. Qed.
Lemma rep_get_dir i : rep P np (get_dir i).
Proof. unfold get_dir. rep_auto. Qed.
Lemma rep_get_file i : rep P np (get_file i).
Proof. unfold get_file. rep_auto. Qed.
Lemma rep_put_file i f : rep P np (put_file i f).
Proof. unfold put_file. rep_auto. Qed.
Lemma rep_file_is_open v e : rep P np (file_is_open v e).
Proof. unfold file_is_open. rep_auto. Qed.
Lemma rep_push_dir d : rep P np (push_dir d).
Proof. unfold push_dir. rep_auto. Qed.
Lemma rep_push_file f : rep P np (push_file f).
Proof. unfold push_file. rep_auto. Qed.
Lemma rep_f_left f : rep P np (f_left f).
Proof. unfold f_left. rep_auto. Qed.
Lemma rep_has_open_handles : rep P np has_open_handles.
Proof. unfold has_open_handles. rep_auto. Qed.
Lemma rep_remount id : rep P np (remount id).
Proof. unfold remount. rep_auto. Qed.
Lemma rep_bpb_create b : rep P np (bpb_create b).
Proof. unfold bpb_create. rep_auto. Qed.
End MgrPure.
#[export] Hint Resolve rep_locked rep_generate rep_get_volume_by_id rep_get_dir_by_id rep_get_file_by_id
  rep_get_dir rep_get_file rep_put_file rep_file_is_open rep_push_dir rep_push_file rep_f_left
  rep_has_open_handles rep_remount rep_bpb_create : rep.

Lemma rep_open_root_dir P np v : rep P np (open_root_dir v).
Proof. unfold open_root_dir. apply rep_locked. rep_auto. Qed.
Lemma rep_close_dir P np d : rep P np (close_dir d).
Proof. unfold close_dir. apply rep_locked. rep_auto. Qed.
Lemma rep_with_file P np {A} h (k : nat -> fileinfo -> M A) :
  (forall fi f, rep P np (k fi f)) -> rep P np (with_file h k).
Proof. intros Hk. unfold with_file. apply rep_locked. rep_auto. Qed.
#[export] Hint Resolve rep_open_root_dir rep_close_dir : rep.

(* the cursor operations never touch the device: they report vacuously, with any error class *)
Lemma rep_file_eof P np h : rep P np (file_eof h).
Proof. unfold file_eof. apply rep_with_file. intros. rep_auto. Qed.
Lemma rep_file_length P np h : rep P np (file_length h).
Proof. unfold file_length. apply rep_with_file. intros. rep_auto. Qed.
Lemma rep_file_offset P np h : rep P np (file_offset h).
Proof. unfold file_offset. apply rep_with_file. intros. rep_auto. Qed.
Lemma rep_file_seek_from_start P np h x : rep P np (file_seek_from_start h x).
Proof. unfold file_seek_from_start. apply rep_with_file. intros. rep_auto. Qed.
Lemma rep_file_seek_from_end P np h x : rep P np (file_seek_from_end h x).
Proof. unfold file_seek_from_end. apply rep_with_file. intros. rep_auto. Qed.
Lemma rep_file_seek_from_current P np h x : rep P np (file_seek_from_current h x).
Proof. unfold file_seek_from_current. apply rep_with_file. intros. cbv zeta. rep_auto. Qed.
#[export] Hint Resolve rep_file_eof rep_file_length rep_file_offset rep_file_seek_from_start
  rep_file_seek_from_end rep_file_seek_from_current : rep.

(* io_seek: the catch site maps an error of file_offset to a panic, but file_offset does not
   touch the device, so no device failure can reach that handler *)
Lemma rep_io_seek P np h w x : rep P np (io_seek h w x).
Proof. unfold io_seek. rep_auto2. Qed.

(* ------------------------------------------------------------------ find_data_on_disk: errors as values *)
(* fdod_walk / find_data_on_disk catch the error of next_cluster and RETURN it as a value next
   to the updated position; the callers then match on it.  So the reporting invariant for these
   two speaks about the returned value. *)
Definition bad_fdod (Q : err -> Prop) (np : bool) {X} (r : outcome (X * option err)) : Prop :=
  match r with
  | Ok (_, Some e) => Q e
  | Ok (_, None) => False
  | Err e => Q e
  | Panic | OutOfFuel => np = true
  end.

Definition bad_fdd (Q : err -> Prop) (np : bool) {X Y} (r : outcome (X * (Y + err))) : Prop :=
  match r with
  | Ok (_, inr e) => Q e
  | Ok (_, inl _) => False
  | Err e => Q e
  | Panic | OutOfFuel => np = true
  end.

Lemma repG_quiet {A} (B : outcome A -> Prop) (m : M A) : rep (fun _ => False) false m -> repG B m.
Proof.
  intros Hm s r s' H. destruct (Hm _ _ _ H) as (n & X & F). exists n. split; [exact X|].
  intros Hf. specialize (F Hf). destruct r; cbn in F; try contradiction; discriminate.
Qed.

Section Fdod.
Variable Q : err -> Prop.
Variable np : bool.
Hypothesis QD : Q DeviceError.

Lemma repG_fdod_walk v : forall n so sc, repG (bad_fdod Q np) (fdod_walk n v so sc).
Proof.
  induction n as [|n IH]; intros so sc; cbn [fdod_walk].
  - apply repG_quiet. rep_auto.
  - apply (repG_bind (tbad (eq DeviceError) np)).
    + apply repG_try. apply rep_next_cluster. reflexivity.
    + intros [c|e].
      * apply (repG_bind (bad Q np)).
        -- apply rep_add32.
        -- intros so'. apply IH.
        -- intros a [].
        -- intros r Hn Hb. destruct r; cbn [bad cast bad_fdod] in *; auto.
      * apply repG_quiet. rep_auto.
    + intros [c|e]; cbn; [intros []|]. intros <- s r s' H. inversion H; subst. exact QD.
    + intros r Hn. destruct r as [[c|e]| | |]; cbn; auto; try (intros []).
      exfalso. eapply Hn. reflexivity.
Qed.

Lemma repG_find_data_on_disk vi start fs desired :
  repG (bad_fdd Q np) (find_data_on_disk vi start fs desired).
Proof.
  unfold find_data_on_disk.
  apply (repG_bind (bad Q np)).
  - apply rep_get_vol.
  - intros v. cbv zeta.
    destruct (if desired <? fst start then (0, fs) else start) as [so sc].
    destruct (bytes_per_cluster v =? 0); [apply repG_quiet; rep_auto|].
    apply (repG_bind (bad_fdod Q np)).
    + apply repG_fdod_walk.
    + intros [[so' sc'] [e|]]; apply repG_quiet; rep_auto.
    + intros [[so' sc'] [e|]]; cbn; [|intros []]. intros He s r s' H. inversion H; subst. exact He.
    + intros r Hn Hb. destruct r as [[x [e|]]| | |]; cbn [bad cast bad_fdd bad_fdod] in *; auto; exfalso; eapply Hn; reflexivity.
  - intros a [].
  - intros r Hn Hb. destruct r; cbn [bad cast bad_fdd] in *; auto.
Qed.
End Fdod.

(* stated plainly: if a device failure is logged inside find_data_on_disk, the call returns
   DeviceError, either as its error or as the error value next to the position *)
Theorem C11_find_data_on_disk vi start fs desired s r s' :
  find_data_on_disk vi start fs desired s = (r, s') -> fault_fired s s' ->
  r = Err DeviceError \/ exists st', r = Ok (st', inr DeviceError).
Proof.
  intros H (n & X & Hf).
  destruct (repG_find_data_on_disk (eq DeviceError) false eq_refl _ _ _ _ _ _ _ H) as (n' & X' & F).
  rewrite (ext_unique _ _ _ _ X X') in Hf. specialize (F Hf).
  destruct r as [[st' [y|e]]|e| |]; cbn in F; try contradiction; try discriminate; subst; eauto.
Qed.

(* ------------------------------------------------------------------ read, write, flush, close *)
Ltac to_rep := match goal with |- repG (bad ?P ?np) ?m => change (rep P np m) end.

Section Files.
Variable P : err -> Prop.
Variable np : bool.
Hypothesis PD : P DeviceError.

Lemma rep_read_loop fi vi : forall fuel space acc, rep P np (read_loop fuel fi vi space acc).
Proof.
  induction fuel as [|fu IH]; intros space acc; cbn [read_loop]; [rep_auto|].
  rep_step; [rep_auto|]. rep_step; [|rep_auto].
  unfold rep. apply (repG_bind (bad_fdd (eq DeviceError) np)).
  - apply repG_find_data_on_disk. reflexivity.
  - intros [cur [[[blk boff] bavail]|e]]; to_rep; rep_auto2.
  - intros [cur [x|e]]; cbn; [intros []|]. intros <-. apply always_fail. exact PD.
  - intros r Hn Hb. destruct r as [[x [y|e]]|e| |]; cbn [bad cast bad_fdd] in *; auto; try (exfalso; eapply Hn; reflexivity).
    subst. exact PD.
Qed.

Lemma rep_mgr_read h n : rep P np (mgr_read h n).
Proof. unfold mgr_read. apply rep_locked. rep_auto2. apply rep_read_loop. Qed.

Lemma rep_flush_file h : rep P np (flush_file h).
Proof. unfold flush_file. apply rep_locked. rep_auto2. Qed.
End Files.
#[export] Hint Resolve rep_read_loop rep_mgr_read rep_flush_file : rep.

(* write_loop maps a caught allocation error to DiskFull and a failed second lookup to
   AllocationError: still errors, but other ones than DeviceError *)
Section Write.
Variable P : err -> Prop.
Variable np : bool.
Hypothesis PD : P DeviceError.
Hypothesis PF : P DiskFull.
Hypothesis PA : P AllocationError.

Lemma rep_find_again vi cur fstart off :
  rep P np ('(cur2, r2) <- find_data_on_disk vi cur fstart off ;;
            match r2 with
            | inl vars => ret (cur2, vars)
            | inr _ => @fail ((N * N) * (N * N * N)) AllocationError
            end).
Proof.
  unfold rep. apply (repG_bind (bad_fdd (eq DeviceError) np)).
  - apply repG_find_data_on_disk. reflexivity.
  - intros [cur2 [vars|e]]; to_rep; rep_auto.
  - intros [cur2 [x|e]]; cbn [bad_fdd]; [intros []|]. intros _. apply always_fail. exact PA.
  - intros r Hn Hb. destruct r as [[x [y|e]]|e| |]; cbn [bad cast bad_fdd] in *; auto;
      try (exfalso; eapply Hn; reflexivity). subst. exact PD.
Qed.

Lemma rep_write_loop fi vi : forall fuel data, rep P np (write_loop fuel fi vi data).
Proof.
  induction fuel as [|fu IH]; intros data; cbn [write_loop]; [rep_auto|].
  destruct data as [|d0 data']; [rep_auto|].
  rep_step; [rep_auto|]. cbv zeta.
  unfold rep. apply (repG_bind (bad_fdd (eq DeviceError) np)).
  - apply repG_find_data_on_disk. reflexivity.
  - intros [cur [vars|e]]; to_rep.
    + rep_auto2.
    + rep_step; [|rep_auto2].
      destruct e; try (rep_auto; fail).
      apply (rep_try_bind (eq DeviceError)).
      * apply rep_alloc_cluster. reflexivity.
      * intros [c|e]; [apply rep_find_again|rep_auto].
      * intros e _. apply always_fail. exact PF.
  - intros [cur [x|e]]; cbn [bad_fdd]; [intros []|]. intros <-.
    apply always_bind_err with (e := DeviceError); [reflexivity|exact PD].
  - intros r Hn Hb. destruct r as [[x [y|e]]|e| |]; cbn [bad cast bad_fdd] in *; auto;
      try (exfalso; eapply Hn; reflexivity). subst. exact PD.
Qed.

Lemma rep_mgr_write h data : rep P np (mgr_write h data).
Proof. unfold mgr_write. apply rep_locked. rep_auto2. apply rep_write_loop. Qed.

Lemma rep_io_write h data : rep P np (io_write h data).
Proof. unfold io_write. destruct data; rep_auto. apply rep_mgr_write. Qed.
End Write.

(* close_file: flush, then remove the handle whatever flush said, then re-raise flush's error.
   After a device failure in flush the result is an error: the flush error itself, or
   LockError / BadHandle from the second half (which cannot happen after a flush that got as
   far as the device, but is an error in any case). *)
Lemma always_close_tail (r : unit + err) file e : r = inr e ->
  always (bad (fun _ => True) false)
    (locked (fi <- get_file_by_id file ;;
             modify (fun s => set_s_files s (swap_remove (s_files s) fi)) ;;;
             match r with inl _ => ret tt | inr e => fail e end)).
Proof.
  intros -> s r0 s' H. unfold locked, get_file_by_id, bind, get, modify, fail in H.
  destruct (s_lock s); [inversion H; subst; exact I|].
  destruct (find_idx (fun f : fileinfo => f_id f =? file) (s_files s) 0); inversion H; subst; exact I.
Qed.

Lemma rep_close_file h : rep (fun _ => True) false (close_file h).
Proof.
  unfold close_file. apply (rep_try_bind (eq DeviceError)).
  - apply rep_flush_file. reflexivity.
  - intros x. apply rep_locked. rep_auto.
  - intros e _. apply (always_close_tail (inr e) h e). reflexivity.
Qed.

(* mgr_iterate runs `inner` (the user's callback) between taking and releasing the lock and
   returns its outcome as a VALUE.  It reports provided the callback itself logs no device
   failure - e.g. the trivial callback, or any manager call (which fails with LockError
   before reaching the device, see `locked`). *)
Lemma rep_mgr_iterate (P : err -> Prop) np {R} d (inner : M R) : P DeviceError ->
  rep (fun _ => False) np inner -> rep P np (mgr_iterate d inner).
Proof.
  intros PD Hi. unfold mgr_iterate. apply rep_locked. rep_auto2.
Qed.

Section Ops.
Variable P : err -> Prop.
Variable np : bool.
Hypothesis PD : P DeviceError.

Lemma rep_open_file_in_dir d name md : rep P np (open_file_in_dir d name md).
Proof. unfold open_file_in_dir. apply rep_locked. rep_auto2. Qed.

Lemma rep_delete_file_in_dir d name : rep P np (delete_file_in_dir d name).
Proof. unfold delete_file_in_dir. apply rep_locked. rep_auto2. Qed.

Lemma rep_open_dir d name : rep P np (open_dir d name).
Proof. unfold open_dir. apply rep_locked. rep_auto2. Qed.

Lemma rep_mgr_find d name : rep P np (mgr_find d name).
Proof. unfold mgr_find. apply rep_locked. rep_auto2. Qed.

Lemma rep_close_volume v : rep P np (close_volume v).
Proof. unfold close_volume. apply rep_locked. rep_auto2. Qed.

Lemma rep_parse_volume id idx lba nb : rep P np (parse_volume id idx lba nb).
Proof. unfold parse_volume. rep_auto2. Qed.
Hint Resolve rep_parse_volume : rep.

Lemma rep_open_raw_volume idx : rep P np (open_raw_volume idx).
Proof. unfold open_raw_volume. apply rep_locked. rep_auto2. Qed.

Lemma rep_io_read h n : rep P np (io_read h n).
Proof. unfold io_read. rep_auto2. Qed.

(* get_root_volume_label: two catch sites.  The error of the listing is kept while the
   directory handle is closed (close_dir: no device access, its own error is dropped) and then
   re-raised. *)
Lemma always_label_tail rd : always (bad P np) (_ <- try (close_dir rd) ;; @fail (option (list N)) DeviceError).
Proof.
  intros s r s' H. unfold close_dir, locked, get_dir_by_id, try, bind, get, modify, fail in H.
  destruct (s_lock s); [inversion H; subst; exact PD|].
  destruct (find_idx (fun d0 : dirinfo => d_id d0 =? rd) (s_dirs s) 0); inversion H; subst; exact PD.
Qed.

Lemma rep_get_root_volume_label v : rep P np (get_root_volume_label v).
Proof.
  unfold get_root_volume_label. apply rep_locked.
  rep_step; [rep_auto|]. rep_step; [rep_auto|]. rep_step; [|rep_auto].
  rep_step; [rep_auto|].
  apply (rep_try_bind (eq DeviceError)).
  - apply rep_mgr_iterate; [reflexivity|apply rep_ret].
  - intros x. rep_auto2.
  - intros e <-. apply always_label_tail.
Qed.
End Ops.

(* make_dir_in_dir inherits make_dir's weaker guarantee (never Ok) *)
Lemma rep_make_dir_in_dir d name : rep (fun _ => True) true (make_dir_in_dir d name).
Proof. unfold make_dir_in_dir. apply rep_locked. pose proof I as PD. rep_auto2. Qed.

(* ------------------------------------------------------------------ callbacks run under the lock *)
Lemma locked_true {A} (m : M A) s : s_lock s = true -> locked m s = (Err LockError, s).
Proof. intros Hl. unfold locked, bind, get. rewrite Hl. reflexivity. Qed.

Lemma lift_err {A} (f : A -> res) (m : M A) s e : m s = (Err e, s) -> lift f m s = (Err e, s).
Proof. intros H. unfold lift. apply bind_err. exact H. Qed.

(* quiet: the call leaves the trace alone when started with the lock held *)
Definition quiet_locked {A} (m : M A) : Prop :=
  forall s r s', s_lock s = true -> m s = (r, s') -> s_trace s' = s_trace s.

Lemma quiet_locked_err {A} (m : M A) :
  (forall s, s_lock s = true -> m s = (Err LockError, s)) -> quiet_locked m.
Proof. intros Hm s r s' Hl H. rewrite (Hm s Hl) in H. inversion H; reflexivity. Qed.

Lemma with_file_true {A} h (k : nat -> fileinfo -> M A) s :
  s_lock s = true -> with_file h k s = (Err LockError, s).
Proof. intros Hl. unfold with_file. apply locked_true. exact Hl. Qed.

Lemma close_file_true h s : s_lock s = true -> close_file h s = (Err LockError, s).
Proof.
  intros Hl. unfold close_file.
  assert (Ht : try (flush_file h) s = (Ok (inr LockError), s))
    by (unfold try, flush_file; rewrite (locked_true _ _ Hl); reflexivity).
  rewrite (bind_ok _ _ _ _ _ Ht). apply locked_true. exact Hl.
Qed.

Lemma io_seek_quiet_locked h w x : quiet_locked (io_seek h w x).
Proof.
  intros s r s' Hl H. unfold io_seek in H.
  assert (E : forall (m : M unit), (m = fail InvalidOffset \/ m s = (Err LockError, s)) ->
              (m ;;; r0 <- try (file_offset h) ;; match r0 with inl o => ret o | inr _ => panic end) s = (r, s') ->
              s_trace s' = s_trace s).
  { intros m [->|Hm] Hb.
    - inversion Hb; reflexivity.
    - rewrite (bind_err _ _ _ _ _ Hm) in Hb. inversion Hb; reflexivity. }
  eapply E; [|exact H]. destruct w.
  - destruct (_ || _); [left; reflexivity|right; apply with_file_true; exact Hl].
  - destruct (x =? _)%Z; [left; reflexivity|]. cbv zeta.
    destruct (_ || _); [left; reflexivity|right; apply with_file_true; exact Hl].
  - destruct (_ || _); [left; reflexivity|right; apply with_file_true; exact Hl].
Qed.

Lemma step_quiet_locked o : quiet_locked (step o).
Proof.
  destruct o; cbn [step];
    try (apply quiet_locked_err; intros s Hl; apply lift_err;
         first [ apply locked_true; exact Hl | apply with_file_true; exact Hl | apply close_file_true; exact Hl ]).
  - (* HasOpen *) intros s r s' Hl H. unfold lift, has_open_handles, bind, get, ret in H. inversion H; reflexivity.
  - (* IoSeek *) intros s r s' Hl H. unfold lift, bind in H.
    destruct (io_seek f w x s) as [r1 s1] eqn:E. apply (io_seek_quiet_locked _ _ _ _ _ _ Hl) in E.
    destruct r1; inversion H; subst; exact E.
  - (* IoRead *) unfold io_read. destruct (n =? 0).
    + intros s r s' Hl H. unfold lift, bind, ret in H. inversion H; reflexivity.
    + apply quiet_locked_err. intros s Hl. apply lift_err. apply locked_true. exact Hl.
  - (* IoWrite *) unfold io_write. destruct data.
    + intros s r s' Hl H. unfold lift, bind, ret in H. inversion H; reflexivity.
    + apply quiet_locked_err. intros s Hl. apply lift_err. apply bind_err. apply locked_true. exact Hl.
  - (* Remount *) intros s r s' Hl H. unfold lift, remount, bind, modify, ret in H. inversion H; reflexivity.
Qed.

(* mgr_iterate with a callback that is quiet under the lock (every `step o` is) *)
Lemma rep_iter_callback P np {R X} (inner : M R) (shown : X) :
  quiet_locked inner ->
  rep P np (modify (fun s => set_s_lock s true) ;;;
            r <- try inner ;;
            modify (fun s => set_s_lock s false) ;;;
            ret (shown, Some r)).
Proof.
  intros Hq. apply rep_quiet. intros s r s' H.
  unfold bind, modify, try in H. cbv beta iota in H.
  destruct (inner (set_s_lock s true)) as [r1 s1] eqn:E.
  apply Hq in E; [|reflexivity]. cbn in E.
  destruct r1; inversion H; subst; cbn; exact E.
Qed.

Lemma rep_mgr_iterate_cb (P : err -> Prop) np {R} d (inner : M R) : P DeviceError ->
  quiet_locked inner -> rep P np (mgr_iterate d inner).
Proof.
  intros PD Hq. unfold mgr_iterate. apply rep_locked.
  rep_step; [rep_auto|]. rep_step; [rep_auto|]. rep_step; [rep_auto|]. rep_step; [rep_auto|].
  cbv zeta. rep_step; [rep_auto|]. apply rep_iter_callback. exact Hq.
Qed.

(* ------------------------------------------------------------------ the whole API *)
Definition is_mkdir (o : op) : bool := match o with Mkdir _ _ => true | _ => false end.

Lemma rep_lift P np {A} (f : A -> res) (m : M A) : rep P np m -> rep P np (lift f m).
Proof. intros Hm. unfold lift. rep_auto. Qed.

Theorem rep_step_op o : is_mkdir o = false -> rep (fun _ => True) false (step o).
Proof.
  intros Hm. pose proof I as PD.
  destruct o; try discriminate; cbn [step]; try (apply rep_lift).
  - apply rep_open_raw_volume; exact I.
  - apply rep_close_volume; exact I.
  - rep_auto.
  - apply rep_open_dir; exact I.
  - rep_auto.
  - apply rep_mgr_find; exact I.
  - apply rep_mgr_iterate_cb; [exact I|].
    destruct inner as [o'|]; [apply step_quiet_locked|intros s r s' _ H; inversion H; reflexivity].
  - apply rep_open_file_in_dir; exact I.
  - apply rep_close_file.
  - apply rep_flush_file; exact I.
  - apply rep_mgr_read; exact I.
  - apply rep_mgr_write; exact I.
  - rep_auto.
  - rep_auto.
  - rep_auto.
  - rep_auto.
  - rep_auto.
  - rep_auto.
  - apply rep_delete_file_in_dir; exact I.
  - apply rep_get_root_volume_label; exact I.
  - rep_auto.
  - apply rep_io_seek.
  - apply rep_io_read; exact I.
  - apply rep_io_write; exact I.
  - rep_auto.
Qed.

Theorem rep_step_any o : rep (fun _ => True) true (step o).
Proof.
  destruct (is_mkdir o) eqn:E.
  - destruct o; try discriminate. cbn [step]. apply rep_lift. apply rep_make_dir_in_dir.
  - eapply rep_weaken; [| |apply rep_step_op; exact E]; auto.
Qed.

(* C11 for every operation of the API except mkdir: if any block-device read or write fails
   during the call, the call returns an error - not success, not a panic, not a hang *)
Theorem C11_api_reports o : is_mkdir o = false -> reports (run_op o).
Proof. intros H. unfold run_op. eapply rep_reports. apply rep_step_op. exact H. Qed.

(* C11, "never success" half, for every operation including mkdir *)
Theorem C11_api_never_ok o : never_ok_on_fault (run_op o).
Proof. unfold run_op. eapply rep_never_ok. apply rep_step_any. Qed.

(* the stronger per-function forms: the error is DeviceError itself *)
Theorem C11_alloc_cluster vi prev zero : reports_device_error (alloc_cluster vi prev zero).
Proof. apply rep_reports_device_error, rep_alloc_cluster. reflexivity. Qed.
Theorem C11_truncate_cluster_chain vi c : reports_device_error (truncate_cluster_chain vi c).
Proof. apply rep_reports_device_error, rep_truncate_cluster_chain. reflexivity. Qed.
Theorem C11_free_cluster_chain vi c : reports_device_error (free_cluster_chain vi c).
Proof. apply rep_reports_device_error, rep_free_cluster_chain. reflexivity. Qed.
Theorem C11_find_directory_entry vi dc name : reports_device_error (find_directory_entry vi dc name).
Proof. apply rep_reports_device_error, rep_find_directory_entry. reflexivity. Qed.
Theorem C11_iterate_dir_all vi dc : reports_device_error (iterate_dir_all vi dc).
Proof. apply rep_reports_device_error, rep_iterate_dir_all. reflexivity. Qed.
Theorem C11_delete_directory_entry vi dc name : reports_device_error (delete_directory_entry vi dc name).
Proof. apply rep_reports_device_error, rep_delete_directory_entry. reflexivity. Qed.
Theorem C11_write_new_directory_entry vi dc name attr fc :
  reports_device_error (write_new_directory_entry vi dc name attr fc).
Proof. apply rep_reports_device_error, rep_write_new_directory_entry. reflexivity. Qed.
Theorem C11_mgr_read h n : reports_device_error (mgr_read h n).
Proof. apply rep_reports_device_error, rep_mgr_read. reflexivity. Qed.
Theorem C11_flush_file h : reports_device_error (flush_file h).
Proof. apply rep_reports_device_error, rep_flush_file. reflexivity. Qed.
Theorem C11_open_file_in_dir d name md : reports_device_error (open_file_in_dir d name md).
Proof. apply rep_reports_device_error, rep_open_file_in_dir. reflexivity. Qed.
Theorem C11_delete_file_in_dir d name : reports_device_error (delete_file_in_dir d name).
Proof. apply rep_reports_device_error, rep_delete_file_in_dir. reflexivity. Qed.
Theorem C11_open_raw_volume idx : reports_device_error (open_raw_volume idx).
Proof. apply rep_reports_device_error, rep_open_raw_volume. reflexivity. Qed.
Theorem C11_close_volume v : reports_device_error (close_volume v).
Proof. apply rep_reports_device_error, rep_close_volume. reflexivity. Qed.
Theorem C11_get_root_volume_label v : reports_device_error (get_root_volume_label v).
Proof. apply rep_reports_device_error, rep_get_root_volume_label. reflexivity. Qed.
Theorem C11_close_file h : reports (close_file h).
Proof. eapply rep_reports, rep_close_file. Qed.
Theorem C11_make_dir_never_ok vi parent sfn att : never_ok_on_fault (make_dir vi parent sfn att).
Proof. eapply rep_never_ok, rep_make_dir. Qed.

(* mgr_write: the error is DeviceError, or DiskFull / AllocationError where write_loop maps a
   caught error *)
Theorem C11_mgr_write h data s r s' : mgr_write h data s = (r, s') -> fault_fired s s' ->
  r = Err DeviceError \/ r = Err DiskFull \/ r = Err AllocationError.
Proof.
  intros H (n & X & Hf).
  destruct (rep_mgr_write (fun e => e = DeviceError \/ e = DiskFull \/ e = AllocationError) false
              (or_introl eq_refl) (or_intror (or_introl eq_refl)) (or_intror (or_intror eq_refl))
              h data _ _ _ H) as (n' & X' & F).
  rewrite (ext_unique _ _ _ _ X X') in Hf. specialize (F Hf).
  destruct r; cbn in F; try contradiction; try discriminate.
  destruct F as [ -> | [ -> | -> ] ]; auto.
Qed.

(* ------------------------------------------------------------------ the hypotheses are satisfiable *)
Definition ex_faulty : st := init_state (PositiveMap.empty block) 0 1 4 4 [0].

Example ex_fault_fires : fault_fired ex_faulty (snd (cache_read 5 ex_faulty)) /\
                         fst (cache_read 5 ex_faulty) = Err DeviceError.
Proof.
  split; [|reflexivity]. exists [DReadFail 5]. split; [reflexivity|]. exists 5. left. left. reflexivity.
Qed.

Example ex_open_volume_reports : fst (run_op (OpenVol 0) ex_faulty) = Err DeviceError /\
                                 fault_fired ex_faulty (snd (run_op (OpenVol 0) ex_faulty)).
Proof.
  split; [reflexivity|]. exists [DReadFail 0]. split; [reflexivity|]. exists 0. left. left. reflexivity.
Qed.

(* what is missing for the full statement on make_dir, made explicit: if the clean-up
   free_cluster_chain cannot panic or run out of fuel, make_dir reports like everything else *)
Definition no_panic {A} (r : outcome A) : Prop := r <> Panic /\ r <> OutOfFuel.

Lemma always_then_fail_np {A B} (m : M A) e : always no_panic m ->
  always (bad (fun _ => True) false) (m ;;; @fail B e).
Proof.
  intros Hm s r s' H. unfold bind in H. destruct (m s) as [[a|e'| |] s1] eqn:E; inversion H; subst; cbn; auto.
  - destruct (Hm _ _ _ E) as [X _]. congruence.
  - destruct (Hm _ _ _ E) as [_ X]. congruence.
Qed.

Theorem C11_make_dir_conditional vi parent sfn att :
  (forall c, always no_panic (free_cluster_chain vi c)) ->
  reports (make_dir vi parent sfn att).
Proof.
  intros Hnp. eapply rep_reports with (P := fun _ => True). pose proof I as PD.
  unfold make_dir. rep_auto2.
  all: try (apply rep_for_blocks_from; intros; rep_auto2).
  apply always_then_fail_np. apply Hnp.
Qed.

(* The error KIND can be masked: in write_loop a device failure inside alloc_cluster is
   reported as DiskFull (the crate: `if self.alloc_cluster(..).is_err() { return
   Err(Error::DiskFull) }`).  Concrete witness: FAT16 volume, a one-cluster file positioned at
   its end, the second device call (the FAT write of the allocation) fails. *)
Definition wx_vol : vol :=
  mk_vol 1 0 100 70000 [] 4 200 10 (Some 100) None None 5000 false 512 190 0 0.
Definition wx_entry : dirent :=
  mk_dirent [] (mk_ts 0 0 0 0 0 0) (mk_ts 0 0 0 0 0 0) 0 2 2048 290 0.
Definition wx_file : fileinfo := mk_fileinfo 9 1 0 2 2048 ReadWriteAppend wx_entry false.
Definition wx_disk : disk := disk_set (PositiveMap.empty block) 110 (set_bytes zero_block 4 [255; 255]).
Definition wx_state : st :=
  set_s_files (set_s_vols (init_state wx_disk 0 1 4 4 [1]) [wx_vol]) [wx_file].

Example C11_write_masks_error_kind :
  fst (mgr_write 9 [7] wx_state) = Err DiskFull /\
  fault_fired wx_state (snd (mgr_write 9 [7] wx_state)).
Proof.
  split; [vm_compute; reflexivity|].
  exists [DWriteFail 110; DRead 110]. split; [vm_compute; reflexivity|].
  exists 110. right. left. reflexivity.
Qed.

Print Assumptions C11_dev_read_iff.
Print Assumptions C11_dev_write_iff.
Print Assumptions C11_cache_read.
Print Assumptions C11_write_back.
Print Assumptions C11_write_back_with_duplicate.
Print Assumptions repG_bind.
Print Assumptions rep_try_bind.
Print Assumptions C11_update_fat.
Print Assumptions C11_next_cluster.
Print Assumptions C11_write_entry_to_disk.
Print Assumptions C11_update_info_sector.
Print Assumptions C11_zero_cluster.
Print Assumptions C11_find_next_free_cluster.
Print Assumptions C11_alloc_cluster.
Print Assumptions C11_truncate_cluster_chain.
Print Assumptions C11_free_cluster_chain.
Print Assumptions C11_find_directory_entry.
Print Assumptions C11_iterate_dir_all.
Print Assumptions C11_delete_directory_entry.
Print Assumptions C11_write_new_directory_entry.
Print Assumptions C11_find_data_on_disk.
Print Assumptions C11_mgr_read.
Print Assumptions C11_mgr_write.
Print Assumptions C11_flush_file.
Print Assumptions C11_close_file.
Print Assumptions C11_open_file_in_dir.
Print Assumptions C11_delete_file_in_dir.
Print Assumptions C11_open_raw_volume.
Print Assumptions C11_close_volume.
Print Assumptions C11_get_root_volume_label.
Print Assumptions C11_make_dir_never_ok.
Print Assumptions C11_make_dir_conditional.
Print Assumptions C11_write_masks_error_kind.
Print Assumptions C11_api_reports.
Print Assumptions C11_api_never_ok.
