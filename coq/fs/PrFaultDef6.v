(* C11 for whole histories: the assembly.  From `forall o, step_fault fsz vid o`: in any history run with
   ONE armed device fault, the calls before the one that hits the fault return exactly what they return
   without the fault (lock-step), the invariant holds before that call, and that call has the fault
   outcome (a)-(e) of PrFaultDef.  Afterwards every handle can be closed (PrFault2, any state). *)
From Coq Require Import NArith ZArith List Bool Lia Arith FMapPositive.
From SdFs Require Import FsTypes FsBase FsFat FsMgr FsLemmas PrBase PrAllocEffect PrChain PrFault PrGlobalDef.
From SdFs Require PrHandles PrCrash PrGlobal PrCrashAll.
From SdFs Require Import PrFault2 PrCrashDef PrCrashDef2 PrCrashDef4 PrFaultDef PrFaultDef2 PrFaultDef3.
Import ListNotations.
Open Scope N_scope.

Lemma run_ops_cons o rest s :
  run_ops (o :: rest) s = (fst (step o s) :: fst (run_ops rest (snd (step o s))), snd (run_ops rest (snd (step o s)))).
Proof. cbn [run_ops]. destruct (step o s) as [r s1]. cbn [fst snd]. destruct (run_ops rest s1); reflexivity. Qed.

Lemma step_ncalls_mono o s : s_ncalls s <= s_ncalls (snd (step o s)).
Proof.
  destruct (step o s) as [r s1] eqn:E. destruct (proj1 (lockstep_step o) _ _ _ E) as (new & _ & C & _).
  cbn [snd]. lia.
Qed.
Lemma run_ops_ncalls_mono : forall ops s, s_ncalls s <= s_ncalls (snd (run_ops ops s)).
Proof.
  induction ops as [|o rest IH]; intros s; [cbn; lia|]. rewrite run_ops_cons. cbn [snd].
  pose proof (step_ncalls_mono o s). pose proof (IH (snd (step o s))). lia.
Qed.

(* lock-step over a history: as long as the run without the fault stays below the armed index, the armed
   run returns the same results and is in the same state up to the schedule *)
Theorem run_ops_lockstep : forall ops n s, pending n s ->
  s_ncalls (snd (run_ops ops (nf s))) <= n ->
  fst (run_ops ops s) = fst (run_ops ops (nf s)) /\
  nf (snd (run_ops ops s)) = snd (run_ops ops (nf s)) /\ pending n (snd (run_ops ops s)).
Proof.
  induction ops as [|o rest IH]; intros n s Hp Hn.
  - cbn. split; [reflexivity|]. split; [reflexivity|exact Hp].
  - rewrite !run_ops_cons in *. cbn [fst snd] in *.
    destruct (step o s) as [r s1] eqn:E.
    destruct (proj2 (lockstep_step o) n s r s1 Hp E)
      as [(Hp1 & N1)|(pre & fl & post & r0 & s0 & rest0 & T & Hfl & NP & Cn & N0 & T0 & R0)].
    + rewrite N1 in *. cbn [fst snd] in *. destruct (IH n s1 Hp1 Hn) as (A1 & A2 & A3).
      split; [f_equal; exact A1|]. split; [exact A2|exact A3].
    + exfalso. rewrite N0 in Hn. cbn [snd] in Hn.
      pose proof (run_ops_ncalls_mono rest s0) as Hm.
      destruct (proj1 (lockstep_step o) _ _ _ N0) as (new0 & X0 & C0 & _). unfold ext in X0.
      change (s_trace (nf s)) with (s_trace s) in X0. rewrite X0 in T0.
      assert (new0 = rest0 ++ pre) by (apply (app_inv_tail (s_trace s)); rewrite T0, <- app_assoc; reflexivity).
      subst new0. rewrite app_length, Nat2N.inj_add in C0. change (s_ncalls (nf s)) with (s_ncalls s) in C0.
      destruct rest0 as [|x rest0]; [exact (R0 eq_refl)|]. cbn [length] in C0. rewrite Nat2N.inj_succ in C0. lia.
Qed.

Lemma handles_ok_run : forall ops s age, PrHandles.handles_ok age s ->
  age + N.of_nat (length ops) < U32 - 1 -> Forall op_known_ok ops ->
  PrHandles.handles_ok (age + N.of_nat (length ops)) (snd (run_ops ops s)).
Proof.
  induction ops as [|o rest IH]; intros s age Hh Hage Hops.
  - cbn. rewrite N.add_0_r. exact Hh.
  - rewrite run_ops_cons. cbn [snd]. inversion Hops as [|? ? Ho Hrest]; subst. cbn [length] in Hage |- *.
    rewrite Nat2N.inj_succ in Hage |- *.
    assert (Ha2 : age < U32 - 1) by (unfold U32 in *; lia).
    pose proof (PrHandles.C08_handles_ok_step age o s Ha2 (no_remount_ok o (proj1 (proj1 Ho))) Hh) as Hh1.
    replace (age + N.succ (N.of_nat (length rest))) with (age + 1 + N.of_nat (length rest)) by lia.
    apply IH; [exact Hh1| unfold U32 in *; lia|exact Hrest].
Qed.

Lemma handles_ok_nf age s : PrHandles.handles_ok age s -> PrHandles.handles_ok age (nf s).
Proof. intros H. exact H. Qed.

Theorem C11_history fsz vid : (forall o, step_fault fsz vid o) -> C11_history_stmt fsz vid.
Proof.
  intros Hall ops1 o ops2 s age v i Hinv Hh Hage Hops Hv s1 a1 (Hlo & Hhi). subst s1 a1.
  assert (Hage1 : age + N.of_nat (length ops1) < U32 - 1).
  { rewrite app_length, Nat2N.inj_add in Hage. lia. }
  assert (Hops1 : Forall op_known_ok ops1) by (apply Forall_app in Hops; tauto).
  assert (Ho : op_known_ok o).
  { apply Forall_app in Hops. destruct Hops as (_ & H). inversion H; assumption. }
  destruct (run_ops_lockstep ops1 (s_ncalls s + i) (arm s i) (pending_arm s i)) as (R1 & R2 & R3).
  { rewrite nf_arm. exact Hlo. }
  rewrite nf_arm in R1, R2. remember (snd (run_ops ops1 (arm s i))) as a1 eqn:Ea1. clear Ea1.
  split; [exact R1|]. split; [exact R2|].
  pose proof (PrGlobal.C03_history fsz vid ops1 (nf s) age (fs_inv_nf _ _ _ Hinv) (handles_ok_nf _ _ Hh) Hage1 Hops1) as H3.
  pose proof (handles_ok_run ops1 (nf s) age (handles_ok_nf _ _ Hh) Hage1 Hops1) as Hh1.
  destruct (run_ops ops1 (nf s)) as [rs sx] eqn:Er. cbn [snd] in *.
  destruct H3 as (Hinv1 & (v0 & v1 & Ev0 & Ev1 & G) & _).
  split; [exact Hinv1|].
  change (s_vols (nf s)) with (s_vols s) in Ev0. rewrite Hv in Ev0. injection Ev0 as <-.
  exists v1. split; [exact Ev1|]. split; [exact G|].
  (* the armed state before o is the fault-free one with the fault still pending at the same index *)
  assert (Ha1 : a1 = arm sx (s_ncalls s + i - s_ncalls sx)).
  { destruct R3 as (F & C). unfold arm. rewrite <- R2.
    assert (Hn : s_ncalls (nf a1) + (s_ncalls s + i - s_ncalls (nf a1)) = s_ncalls s + i).
    { change (s_ncalls (nf a1)) with (s_ncalls a1). lia. }
    rewrite Hn. rewrite <- F. destruct a1; reflexivity. }
  assert (Hfresh : id_fresh sx).
  { apply (handles_ok_fresh (age + N.of_nat (length ops1)) sx); [unfold U32 in *; lia|exact Hh1]. }
  destruct (step o a1) as [r s'] eqn:Es. cbn [fst snd].
  rewrite Ha1 in Es.
  apply (Hall o sx (s_ncalls s + i - s_ncalls sx) r s' v1 Hinv1 Hfresh Ho Ev1 Es).
  (* reached: otherwise the armed run is the fault-free run of o, whose counter passes the index *)
  destruct (N.le_gt_cases (s_ncalls s') (s_ncalls sx + (s_ncalls s + i - s_ncalls sx))) as [Hle|Hgt]; [|exact Hgt].
  exfalso.
  destruct (ls_not_reached (step o) _ _ r s' (lockstep_step o) (pending_arm sx _) Es Hle) as (_ & N1).
  rewrite nf_arm in N1.
  assert (Esx : nf sx = sx).
  { rewrite <- R2. reflexivity. }
  rewrite Esx in N1. rewrite N1 in Hhi. cbn [snd] in Hhi. change (s_ncalls (nf s')) with (s_ncalls s') in Hhi. lia.
Qed.

(* afterwards: the lock is free and the tables are well-formed whatever happened (C11_not_wedged), so
   every file handle can be closed (C11_close_file_whatever: removed from the table, Ok or Err) and
   every directory handle can be closed (C11_close_dir_after_fault: always Ok, no device call) *)
Theorem C11_handles_closable : forall age o s, age < U32 - 1 -> PrHandles.remount_ok o ->
  tables_ok age s -> s_lock (snd (step o s)) = false ->
  let s' := snd (step o s) in
  tables_ok (age + 1) s' /\
  (forall h, In h (PrHandles.dids s') ->
     exists s'', step (CloseDir h) s' = (Ok RUnit, s'') /\ PrHandles.no_dir h s'' /\ s_disk s'' = s_disk s') /\
  (forall h out s'', In h (PrHandles.fids s') -> Forall file_rec_ok (s_files s') ->
     step (CloseFile h) s' = (out, s'') ->
     (out = Ok RUnit \/ exists e, out = Err e) /\ PrHandles.no_file h s'' /\ s_lock s'' = false).
Proof.
  intros age o s Ha Hr Ht Hl s'.
  pose proof (C11_not_wedged age o s Ha Hr Ht) as Ht'. fold s' in Ht'.
  split; [exact Ht'|].
  destruct Ht' as ((_ & _ & Hnd & Hnf) & _).
  split.
  - intros h Hin. destruct (C11_close_dir_after_fault h s' Hl Hnd Hin) as (s'' & E & A & _ & _ & _ & _ & _ & D & _).
    exists s''. repeat split; assumption.
  - intros h out s'' Hin Hok E.
    destruct (C11_close_file_whatever h s' out s'' Hl Hnf Hin Hok E) as (A & _ & B & _ & _ & _ & C & _).
    repeat split; assumption.
Qed.

Print Assumptions run_ops_lockstep.
Print Assumptions C11_history.
Print Assumptions C11_handles_closable.
