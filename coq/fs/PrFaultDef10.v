(* PROOFS: the retry clause of a failed Read.  Under ANY fault schedule the read loop leaves the medium
   alone, keeps the cache coherent and changes only the read cursor / offset of the one file record, the
   cursor staying on the chain and the offset inside the file: a sub-call that succeeded was, call for
   call, the fault-free sub-call (PrFaultDef9.pfxG_find_data_on_disk, case A), so the fault-free
   specification PrRw.find_data_on_disk_spec describes its result. *)
From Coq Require Import NArith ZArith List Bool Lia Arith FMapPositive.
From SdFs Require Import FsTypes FsBase FsFat FsMgr FsLemmas PrBase PrAlloc PrDir PrAllocEffect PrChain PrFault PrRw PrWrite PrGlobalDef.
From SdFs Require PrHandles PrCrash PrGlobal PrCrashAll PrGlobalWrite PrSeek.
From SdFs Require Import PrModes PrFault2 PrCrashDef PrCrashDef2 PrCrashDef4.
From SdFs Require Import PrFaultDef PrFaultDef2 PrFaultDef3 PrFaultDef4 PrFaultDef5 PrFaultDef7 PrFaultDef8 PrFaultDef9.
Import ListNotations.
Open Scope N_scope.
Local Arguments N.mul : simpl never.
Local Arguments N.add : simpl never.
Local Arguments N.sub : simpl never.
Local Arguments N.div : simpl never.
Local Arguments N.modulo : simpl never.
Local Arguments N.min : simpl never.

Lemma ro_fdod_walk v : forall n so sc, ro (fdod_walk n v so sc).
Proof. induction n as [|n IH]; intros so sc; cbn [fdod_walk]; pose proof ro_next_cluster; pose proof ro_add32; ro_go. Qed.
Lemma ro_find_data_on_disk vi start fs desired : ro (find_data_on_disk vi start fs desired).
Proof.
  unfold find_data_on_disk. pose proof ro_fdod_walk. pose proof ro_sub32. pose proof ro_add32. pose proof ro_cluster_to_block.
  ro_go.
Qed.
Lemma cok_fdod_walk v : forall n so sc, cok (fdod_walk n v so sc).
Proof. induction n as [|n IH]; intros so sc; cbn [fdod_walk]; pose proof cok_next_cluster; pose proof cok_add32; cok_go. Qed.
Lemma cok_find_data_on_disk vi start fs desired : cok (find_data_on_disk vi start fs desired).
Proof.
  unfold find_data_on_disk. pose proof cok_fdod_walk. pose proof cok_sub32. pose proof cok_add32. pose proof cok_cluster_to_block.
  pose proof cok_get_vol. cok_go.
Qed.

Section RChain.
  Variable v : vol.
  Variable D : disk.
  Variable first : N.
  Variable fuel0 : nat.
  Variable ch : list N.
  Hypothesis Hv : vol_ok v.
  Hypothesis Hspc : 0 < v_spc v.
  Hypothesis Hch : chain_of D v first fuel0 = Some ch.

  Local Notation B := (bytes_per_cluster v).

  (* what a run of the read loop - any outcome, any schedule - does to the state *)
  Definition rl_post (fi : nat) (s : st) (f : fileinfo) (s' : st) : Prop :=
    exists f', s_disk s' = D /\ s_files s' = list_set (s_files s) fi f' /\ same_file_id f f' /\
      f_offset f <= f_offset f' <= e_size (f_entry f) /\
      cursor_ok v ch (f_cur_off f', f_cur_cluster f') /\ cache_ok s' /\ same_but_files s s'.

  Lemma rl_post_same fi s f : nth_error (s_files s) fi = Some f -> s_disk s = D -> cache_ok s ->
    cursor_ok v ch (f_cur_off f, f_cur_cluster f) -> f_offset f <= e_size (f_entry f) -> rl_post fi s f s.
  Proof.
    intros Hfi Hd Hc Hcur Hle. exists f. split; [exact Hd|]. split; [symmetry; apply list_set_same; exact Hfi|].
    split; [repeat split|]. split; [lia|]. split; [exact Hcur|]. split; [exact Hc|apply sbf_refl].
  Qed.

  Theorem read_loop_any fi vi : forall fuel space acc s f r s',
    nth_error (s_vols s) vi = Some v -> nth_error (s_files s) fi = Some f ->
    s_disk s = D -> cache_ok s ->
    e_cluster (f_entry f) = first ->
    cursor_ok v ch (f_cur_off f, f_cur_cluster f) ->
    f_offset f <= e_size (f_entry f) ->
    e_size (f_entry f) <= N.of_nat (length ch) * B -> e_size (f_entry f) < U32 ->
    read_loop fuel fi vi space acc s = (r, s') -> rl_post fi s f s'.
  Proof.
    induction fuel as [|fu IH]; intros space acc s f r s' Hvi Hfi Hd Hc Hfirst Hcur Hle Hsz H32 E.
    { cbn [read_loop] in E. injection E as _ <-. apply rl_post_same; assumption. }
    cbn [read_loop] in E. rewrite (bind_ok _ _ _ _ _ (get_file_some fi f s Hfi)) in E.
    destruct ((0 <? space) && negb (f_eof f)) eqn:Hgo.
    2:{ injection E as _ <-. apply rl_post_same; assumption. }
    apply andb_true_iff in Hgo. destruct Hgo as [Hsp Hne].
    apply negb_true_iff in Hne. unfold f_eof in Hne. apply N.eqb_neq in Hne.
    assert (Hlt : f_offset f < e_size (f_entry f)) by lia.
    unfold bind at 1 in E.
    destruct (find_data_on_disk vi (f_cur_off f, f_cur_cluster f) (e_cluster (f_entry f)) (f_offset f) s)
      as [r1 s1] eqn:E1.
    destruct (ro_find_data_on_disk _ _ _ _ _ _ _ E1) as (Hm1 & Hd1 & _).
    pose proof (cok_find_data_on_disk _ _ _ _ _ _ _ E1 Hc) as Hc1.
    assert (Hpost1 : rl_post fi s f s1).
    { exists f. split; [congruence|]. split; [rewrite (same_mgr_files _ _ Hm1); symmetry; apply list_set_same; exact Hfi|].
      split; [repeat split|]. split; [lia|]. split; [exact Hcur|]. split; [exact Hc1|apply sbf_of_same_mgr; exact Hm1]. }
    destruct (pfxG_find_data_on_disk _ _ _ _ _ _ _ E1) as (ws & X & [A|(Tt & _)]).
    2:{ destruct Tt as [(st & ->)| ->].
        - destruct st as [a b]. cbv beta iota in E. injection E as _ <-. exact Hpost1.
        - injection E as _ <-. exact Hpost1. }
    (* the lookup succeeded as it does without faults *)
    rewrite Hfirst in A.
    destruct (find_data_on_disk_spec v D first fuel0 ch Hv Hspc Hch vi (f_cur_off f, f_cur_cluster f) (f_offset f) (nf s)
                Hvi Hd (nf_no_faults s) Hc (or_introl Hcur) ltac:(lia) ltac:(lia)) as (cj & s1x & Hn & Hrun & _).
    rewrite Hrun in A. injection A as <- _.
    cbv beta iota in E. cbn [fst snd] in E.
    set (off := f_offset f) in *.
    set (fcur := set_f_cur_cluster (set_f_cur_off f (off / B * B)) cj) in *.
    destruct (find_data_cursor v ch Hspc off cj Hn) as (Hcurj & _ & _).
    rewrite put_file_ok' in E.
    set (s2 := upd_file s1 fi fcur) in *.
    assert (Hfi1 : nth_error (s_files s1) fi = Some f) by (rewrite (same_mgr_files _ _ Hm1); exact Hfi).
    assert (Hpost2 : forall s3, same_mgr s2 s3 -> s_disk s3 = s_disk s2 -> cache_ok s3 -> rl_post fi s fcur s3 /\
                       nth_error (s_files s3) fi = Some fcur).
    { intros s3 Hm3 Hd3 Hc3. split.
      - exists fcur. split; [rewrite Hd3; unfold s2; cbn [s_disk upd_file set_s_files]; congruence|].
        split; [rewrite (same_mgr_files _ _ Hm3); unfold s2, upd_file; cbn [s_files set_s_files];
                rewrite (same_mgr_files _ _ Hm1); reflexivity|].
        split; [repeat split|]. split; [unfold fcur; cbn; lia|]. split; [exact Hcurj|]. split; [exact Hc3|].
        apply (sbf_trans _ s1); [apply sbf_of_same_mgr; exact Hm1|].
        apply (sbf_trans _ s2); [apply sbf_upd|apply sbf_of_same_mgr; exact Hm3].
      - rewrite (same_mgr_files _ _ Hm3). unfold s2, upd_file. cbn [s_files set_s_files].
        eapply nth_error_list_set_same. exact Hfi1. }
    assert (Hweak : forall s3, rl_post fi s fcur s3 -> rl_post fi s f s3).
    { intros s3 (f' & P1 & P2 & P3 & P4 & P5 & P6 & P7). exists f'. split; [exact P1|]. split; [exact P2|].
      split; [exact P3|]. split; [exact P4|]. split; [exact P5|]. split; [exact P6|exact P7]. }
    unfold bind at 1 in E.
    destruct (cache_read (cluster_first_block v cj + off mod B / 512) s2) as [rb s3] eqn:E3.
    destruct (ro_cache_read _ _ _ _ E3) as (Hm3 & Hd3 & _).
    assert (Hc2 : cache_ok s2) by exact Hc1.
    pose proof (cok_cache_read _ _ _ _ E3 Hc2) as Hc3.
    destruct (Hpost2 s3 Hm3 Hd3 Hc3) as (Hp3 & Hfi3).
    destruct rb as [b|e| |]; try (injection E as _ <-; exact (Hweak _ Hp3)).
    unfold f_left in E. fold off in E. rewrite (bind_ok _ _ _ _ _ (sub32_ok _ _ s3 Hle)) in E.
    set (tc := N.min (N.min (512 - off mod 512) space) (e_size (f_entry f) - off)) in *.
    destruct (tc =? 0) eqn:Htc; [injection E as _ <-; exact (Hweak _ Hp3)|].
    rewrite (bind_ok _ _ _ _ _ (get_file_some fi fcur s3 Hfi3)) in E. rewrite put_file_ok' in E.
    set (f4 := set_f_offset fcur (f_offset fcur + tc)) in *.
    set (s4 := upd_file s3 fi f4) in *.
    assert (Hfi4 : nth_error (s_files s4) fi = Some f4).
    { unfold s4, upd_file. cbn [s_files set_s_files]. eapply nth_error_list_set_same. exact Hfi3. }
    assert (Hvi4 : nth_error (s_vols s4) vi = Some v).
    { unfold s4, upd_file. cbn [s_vols set_s_files]. rewrite (proj1 Hm3). unfold s2, upd_file. cbn [s_vols set_s_files].
      rewrite (proj1 Hm1). exact Hvi. }
    assert (Hd4 : s_disk s4 = D).
    { unfold s4, upd_file. cbn [s_disk set_s_files]. rewrite Hd3. unfold s2, upd_file. cbn [s_disk set_s_files]. congruence. }
    destruct (IH _ _ s4 f4 r s' Hvi4 Hfi4 Hd4 Hc3 Hfirst Hcurj
                ltac:(unfold f4, fcur, tc; cbn; lia) Hsz H32 E)
      as (f' & P1 & P2 & (I1 & I2 & I3 & I4 & I5) & P4 & P5 & P6 & P7).
    destruct Hp3 as (f3 & Q1 & Q2 & _ & _ & _ & _ & Q7).
    exists f'. split; [exact P1|].
    split.
    { rewrite P2. unfold s4, upd_file. cbn [s_files set_s_files]. rewrite list_set_twice, Q2, list_set_twice. reflexivity. }
    split; [unfold same_file_id; rewrite I1, I2, I3, I4, I5; repeat split|].
    split; [unfold f4, fcur in P4; cbn in P4; fold off in P4; lia|].
    split; [exact P5|]. split; [exact P6|].
    apply (sbf_trans _ s3); [exact Q7|]. apply (sbf_trans _ s4); [apply sbf_upd|exact P7].
  Qed.
End RChain.

Lemma Forall2_list_set {A} (R : A -> A -> Prop) : forall (l : list A) i x y,
  (forall a, R a a) -> nth_error l i = Some x -> R x y -> Forall2 R l (list_set l i y).
Proof.
  induction l as [|a l IH]; intros [|i] x y Hr Hi Hxy; cbn [nth_error] in Hi; try discriminate.
  - injection Hi as ->. cbn [list_set]. constructor; [exact Hxy|].
    clear - Hr. induction l; constructor; auto.
  - cbn [list_set]. constructor; [apply Hr|]. exact (IH i x y Hr Hi Hxy).
Qed.

(* a mgr_read that returned an error under the armed fault *)
Lemma mgr_read_fault fsz vid h n s i e s' :
  fs_inv fsz vid s -> mgr_read h n (arm s i) = (Err e, s') -> s_ncalls s + i < s_ncalls s' ->
  fs_inv fsz vid s' /\ s_disk s' = s_disk s /\ s_vols s' = s_vols s /\
  Forall2 (fun f f' => f' = f \/ (same_but_cursor f f' /\ f_id f = h)) (s_files s) (s_files s').
Proof.
  intros Hinv E Hreach. pose proof (fs_inv_lock _ _ _ Hinv) as Hl.
  destruct (file_handle_cases s h Hl) as [(fi & f & Hr)|Hno].
  2:{ exfalso. destruct (PrHandles.C08_stale_file_handle h (arm s i) Hl Hno) as (Hc & _).
      specialize (Hc n). cbn [step] in Hc. unfold lift, bind in Hc.
      destruct (mgr_read h n (arm s i)) as [[a|e1| |] sx]; try discriminate.
      injection Hc as _ Hsx. injection E as _ Hs'. subst sx s'. cbn in Hreach. lia. }
  destruct Hinv as (vi & v & bl & rch & T & Hat).
  destruct (PrGlobalWrite.gw_vol_facts _ _ _ _ _ _ _ _ Hat) as (_ & Hpre & Hfit & Hspc & Hwf & Hvid & Hnf & Hc & Hvi & L & Hvok).
  destruct (PrGlobalWrite.gw_file_facts _ _ _ _ _ _ _ _ h fi f Hat Hr) as (O & Hfvol).
  pose proof O as [O1 O2 O3 O4 O5 O6 O7 O8 O9].
  pose proof Hr as (_ & Hfind & Hfi).
  destruct O5 as [(A1 & (fuel0 & A2) & A3)|(A1 & A2 & A3)].
  2:{ exfalso. rewrite A2 in O6. cbn [length] in O6.
      assert (E0 : f_offset f = e_size (f_entry f)) by (clear - O6 O7; lia).
      assert (Hr' : PrSeek.resolves (arm s i) h fi f) by exact Hr.
      rewrite (PrFileSeq.mgr_read_at_eof h (arm s i) fi f vi n Hr' Hfvol E0) in E. discriminate. }
  (* the run *)
  unfold mgr_read in E. rewrite (PrHandles.locked_free _ (arm s i) Hl) in E.
  unfold bind at 1 in E. rewrite PrHandles.get_file_by_id_eq in E.
  change (s_files (arm s i)) with (s_files s) in E. rewrite Hfind in E.
  unfold bind at 1 in E. rewrite PrHandles.get_file_eq in E.
  change (s_files (arm s i)) with (s_files s) in E. rewrite Hfi in E.
  unfold bind at 1 in E. rewrite PrHandles.get_volume_by_id_eq in E.
  change (s_vols (arm s i)) with (s_vols s) in E. rewrite Hfvol in E.
  destruct (read_loop_any v (s_disk s) (e_cluster (f_entry f)) fuel0 (fchain (s_disk s) v f) Hvok Hspc A2
              fi vi _ n [] (arm s i) f (Err e) s' Hvi Hfi eq_refl Hc eq_refl A3 O7 O6 O8 E)
    as (f' & P1 & P2 & (I1 & I2 & I3 & I4 & I5) & P4 & P5 & P6 & (S1 & S2 & _ & _ & S5 & _ & _ & _ & S9)).
  change (s_files (arm s i)) with (s_files s) in P2.
  change (s_vols (arm s i)) with (s_vols s) in S1. change (s_dirs (arm s i)) with (s_dirs s) in S2.
  change (s_lock (arm s i)) with (s_lock s) in S5.
  assert (Hnf' : no_faults s').
  { apply (passed_no_faults (s_ncalls s + i)). split; [exact S9|exact Hreach]. }
  split.
  { exists vi, v, bl, rch, T.
    apply (PrGlobalWrite.gw_new_record fsz vid s s' vi v bl rch T fi f f' Hat Hfi P1 S1 S2); try assumption; try congruence.
    - left. rewrite I4. split; [exact A1|]. split; [exists fuel0; exact A2|exact P5].
    - lia. }
  split; [exact P1|]. split; [exact S1|].
  rewrite P2. apply (Forall2_list_set _ (s_files s) fi f f'); [intros a; left; reflexivity|exact Hfi|].
  right. split.
  - unfold same_but_cursor. repeat split; try assumption; lia.
  - destruct (PrHandles.find_idx_some _ _ _ _ Hfind) as (_ & _ & x & Hx & Hpx). rewrite Nat.sub_0_r in Hx.
    rewrite Hfi in Hx. injection Hx as <-. apply N.eqb_eq. exact Hpx.
Qed.

Theorem step_fault_Read fsz vid h n : step_fault fsz vid (Read h n).
Proof.
  apply step_fault_Read_of. intros s i e s' v Hinv Hid Hv E Hreach Hd.
  cbn [step] in E. apply lift_err_inv in E.
  exact (mgr_read_fault fsz vid h n s i e s' Hinv E Hreach).
Qed.

Theorem step_fault_IoRead fsz vid h n : step_fault fsz vid (IoRead h n).
Proof.
  apply step_fault_IoRead_of. intros s i e s' v Hinv Hid Hv E Hreach Hd.
  cbn [step] in E. apply lift_err_inv in E. unfold io_read in E.
  destruct (n =? 0); [discriminate|].
  exact (mgr_read_fault fsz vid h n s i e s' Hinv E Hreach).
Qed.

Print Assumptions step_fault_Read.
Print Assumptions step_fault_IoRead.
