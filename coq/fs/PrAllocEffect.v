(* PROOFS: the EFFECT of alloc_cluster (FsFat.v / src/fat/volume.rs) on the FAT, the data area,
   the volume record and the device trace, for ALL inputs (C03, C05, C10, C16).
   Sections: 0 write lists of a trace; 1 layout hypotheses (alloc_pre); 2 one update_fat step;
   3 zero_cluster; 4 the free-entry searches (read-only, with trace); 5 alloc_cluster, total
   description; 6 the theorems asked for; 7 example; 8 assumptions. *)
From Coq Require Import NArith ZArith List Bool Lia Arith ZifyClasses ZifyInst Zify FMapPositive.
From SdFs Require Import FsTypes FsBase FsFat FsMgr FsLemmas PrBase PrFat PrAlloc PrDir.
Import ListNotations.
Open Scope N_scope.
Local Arguments N.mul : simpl never.
Local Arguments N.add : simpl never.
Local Arguments N.sub : simpl never.
Local Arguments N.div : simpl never.
Local Arguments N.modulo : simpl never.
Local Arguments N.land : simpl never.
Local Arguments N.lor : simpl never.
Local Ltac Zify.zify_post_hook ::= Z.to_euclidean_division_equations.

(* ================================================================== 0. write lists *)
(* the successful device writes of a trace (the trace is newest first, so is the result) *)
Fixpoint dwr (t : list devcall) : list (N * block) :=
  match t with
  | [] => []
  | DWrite i b :: r => (i, b) :: dwr r
  | _ :: r => dwr r
  end.
(* block indices only *)
Definition dwrites (t : list devcall) : list N := map fst (dwr t).

(* a device on which the writes ws (oldest first) are performed *)
Definition apply_ws (ws : list (N * block)) (d : disk) : disk :=
  fold_left (fun d p => disk_set d (fst p) (snd p)) ws d.

(* s' extends s by device calls whose successful writes are, oldest first, ws; and the disk
   of s' is the disk of s with exactly these writes applied in that order *)
Definition tr_ext (s s' : st) (ws : list (N * block)) : Prop :=
  exists new, s_trace s' = new ++ s_trace s /\ rev (dwr new) = ws /\
              s_disk s' = apply_ws ws (s_disk s).

Lemma dwr_app a b : dwr (a ++ b) = dwr a ++ dwr b.
Proof.
  induction a as [|x a IH]; [reflexivity|].
  destruct x; cbn [app dwr]; rewrite IH; reflexivity.
Qed.

Lemma apply_ws_app w1 w2 d : apply_ws (w1 ++ w2) d = apply_ws w2 (apply_ws w1 d).
Proof. unfold apply_ws. apply fold_left_app. Qed.

Lemma tr_ext_refl s : tr_ext s s [].
Proof. exists []. repeat split. Qed.

Lemma tr_ext_trans a b c w1 w2 : tr_ext a b w1 -> tr_ext b c w2 -> tr_ext a c (w1 ++ w2).
Proof.
  intros (n1 & T1 & W1 & D1) (n2 & T2 & W2 & D2). exists (n2 ++ n1).
  split; [rewrite T2, T1, app_assoc; reflexivity|].
  split; [rewrite dwr_app, rev_app_distr, W1, W2; reflexivity|].
  rewrite apply_ws_app, <- D1. exact D2.
Qed.

Lemma tr_ext_nil_trans a b c w : tr_ext a b [] -> tr_ext b c w -> tr_ext a c w.
Proof. intros H1 H2. exact (tr_ext_trans a b c [] w H1 H2). Qed.

Lemma tr_ext_trans_nil a b c w : tr_ext a b w -> tr_ext b c [] -> tr_ext a c w.
Proof. intros H1 H2. pose proof (tr_ext_trans a b c w [] H1 H2) as H. rewrite app_nil_r in H. exact H. Qed.

Lemma tr_ext_read s s' i : s_disk s' = s_disk s ->
  (s_trace s' = s_trace s \/ s_trace s' = DRead i :: s_trace s) -> tr_ext s s' [].
Proof.
  intros Hd [H|H]; [exists []|exists [DRead i]]; (split; [exact H|split; [reflexivity|exact Hd]]).
Qed.

(* a state that differs only in the tables has the same device side *)
Lemma tr_ext_disk s s' ws : tr_ext s s' ws -> s_disk s' = apply_ws ws (s_disk s).
Proof. intros (n & _ & _ & D). exact D. Qed.

(* ================================================================== 1. hypotheses *)
(* static layout of the volume: the arithmetic side conditions (vol_ok), the FAT copies do
   not overlap (fat_geom_ok), each copy has fsz sectors that hold all clusters + 2 entries,
   the second copy has 32-bit block numbers, and both copies lie before the data area *)
Record fat_layout (v : vol) (fsz : N) : Prop := mk_fat_layout {
  fl_vol : vol_ok v;
  fl_geom : fat_geom_ok v fsz;
  fl_cover : ((v_clusters v + 1) * fat_width v) / 512 < fsz;
  fl_second : forall sf, v_second_fat v = Some sf -> v_lba v + (sf + fsz) <= U32;
  fl_data1 : v_fat_start v + fsz <= v_first_data v;
  fl_data2 : forall sf, v_second_fat v = Some sf -> sf + fsz <= v_first_data v
}.

(* the state: the device works, the cache is coherent, volume vi is v, and every sector of
   the first FAT copy is a 512-byte block *)
Definition st_ok (vi : nat) (v : vol) (fsz : N) (s : st) : Prop :=
  no_faults s /\ cache_ok s /\ nth_error (s_vols s) vi = Some v /\
  forall k, k < fsz -> length (disk_get (s_disk s) (fat_copy_sector v 0 k)) = 512%nat.

Definition alloc_pre (s : st) (vi : nat) (v : vol) (fsz : N) : Prop :=
  st_ok vi v fsz s /\ fat_layout v fsz /\ hint_ok v.

(* ---- the two spec-side readings of a FAT entry agree ---- *)
Lemma fat_entry_get d v c : PrAlloc.fat_entry d v c = fat_get d v 0 c.
Proof. rewrite fat_entry_assoc. reflexivity. Qed.

(* ---- consequences of the layout ---- *)
Lemma layout_sector v fsz c : fat_layout v fsz -> c < v_clusters v + 2 -> (c * fat_width v) / 512 < fsz.
Proof.
  intros L Hc. pose proof (fl_cover v fsz L) as H.
  destruct (fat_width_cases v) as [E|E]; rewrite E in *; lia.
Qed.

Lemma layout_addr v fsz c : fat_layout v fsz -> c < v_clusters v + 2 -> fat_addr_ok v c.
Proof.
  intros L Hc. pose proof (layout_sector v fsz c L Hc) as Hq.
  destruct (fl_vol v fsz L) as [H1 H2 _ _].
  assert (Hmul : c * fat_width v < U32)
    by (destruct (fat_width_cases v) as [E|E]; rewrite E; unfold U32 in *; lia).
  assert (H0 : fat_sector v 0 c < U32).
  { unfold fat_sector, fat_copy_sector, fat_copy_start. change (0 =? 0) with true. cbv iota.
    assert (Hle : (c * fat_width v) / 512 <= ((v_clusters v + 2) * 4) / 512)
      by (destruct (fat_width_cases v) as [E|E]; rewrite E; lia).
    remember ((c * fat_width v) / 512) as q. remember (((v_clusters v + 2) * 4) / 512) as q'.
    unfold U32 in *. lia. }
  split; [exact Hmul|]. split; [exact H0|].
  destruct (v_second_fat v) as [sf|] eqn:E.
  - pose proof (fl_second v fsz L sf E) as H3.
    unfold fat_sector, fat_copy_sector, fat_copy_start. change (1 =? 0) with false. cbv iota. rewrite E.
    remember ((c * fat_width v) / 512) as q. unfold U32 in *. lia.
  - rewrite (fat_sector_1_none v c E). exact H0.
Qed.

(* FAT sectors of either copy are not data blocks *)
Lemma fat_sector_not_data v fsz copy k c j : fat_layout v fsz -> k < fsz -> 2 <= c ->
  fat_copy_sector v copy k <> cluster_first_block v c + j.
Proof.
  intros L Hk Hc. pose proof (fl_data1 v fsz L) as D1. pose proof (fl_data2 v fsz L) as D2.
  unfold fat_copy_sector, fat_copy_start, cluster_first_block.
  remember ((c - 2) * v_spc v) as X.
  destruct (copy =? 0); [lia|].
  destruct (v_second_fat v) as [sf|]; [specialize (D2 sf eq_refl)|]; lia.
Qed.

(* ================================================================== 2. one update_fat step *)
(* the device writes of update_fat on entry c: the sector of c in the first copy, then the
   same sector of the second copy when there is one *)
Definition fat_writes (v : vol) (c : N) : list N :=
  match v_second_fat v with
  | Some _ => [fat_sector v 0 c; fat_sector v 1 c]
  | None => [fat_sector v 0 c]
  end.

Lemma update_fat_step vi v fsz c x s :
  fat_layout v fsz -> st_ok vi v fsz s -> c < v_clusters v + 2 ->
  let nb := fat_put_block v (disk_get (s_disk s) (fat_sector v 0 c)) c x in
  exists s', update_fat vi c x s = (Ok tt, s') /\
    st_ok vi v fsz s' /\ same_mgr s s' /\
    (forall c', (c' * fat_width v) / 512 < fsz ->
       fat_get (s_disk s') v 0 c' = if c' =? c then enc v x else fat_get (s_disk s) v 0 c') /\
    (forall j, j <> fat_sector v 0 c -> j <> fat_sector v 1 c ->
       disk_get (s_disk s') j = disk_get (s_disk s) j) /\
    disk_get (s_disk s') (fat_sector v 0 c) = nb /\
    (fat_mirrored (s_disk s) v fsz -> fat_mirrored (s_disk s') v fsz) /\
    tr_ext s s' (map (fun i => (i, nb)) (fat_writes v c)).
Proof.
  intros L (Hnf & Hc & Hv & Hlen) Hr nb.
  pose proof (layout_sector v fsz c L Hr) as Hq.
  pose proof (layout_addr v fsz c L Hr) as Hok.
  pose proof (fl_geom v fsz L) as Hg.
  assert (Hl : length (disk_get (s_disk s) (fat_sector v 0 c)) = 512%nat) by (apply Hlen; exact Hq).
  destruct (update_fat_exec vi c x s v Hnf Hc Hv Hok)
    as (s' & Hrun & Hd & Ht & Hcc & Hc' & Hnf' & Hm & pre & Hpre & Htr).
  destruct (update_fat_get_geom vi c x s v fsz Hnf Hc Hv Hok Hl Hg Hq) as (s2 & Hrun2 & Hget).
  rewrite Hrun in Hrun2. inversion Hrun2; subst s2. clear Hrun2.
  destruct (C16_mirror_step vi c x s v fsz Hnf Hc Hv Hok Hg Hq) as (s3 & Hrun3 & _ & Hoth & Hmir).
  rewrite Hrun in Hrun3. inversion Hrun3; subst s3. clear Hrun3.
  fold nb in Hd, Htr.
  fold (fat_disk_after (v_second_fat v) (s_disk s) (fat_sector v 0 c) (fat_sector v 1 c) nb) in Hd.
  assert (Hthis : disk_get (s_disk s') (fat_sector v 0 c) = nb) by (rewrite Hd; apply fat_disk_after_this).
  exists s'. split; [exact Hrun|]. split.
  { split; [exact Hnf'|]. split; [exact Hc'|]. split; [exact (same_mgr_vol s s' vi v Hm Hv)|].
    intros k Hk. destruct (N.eq_dec k ((c * fat_width v) / 512)) as [->|Hne].
    - change (length (disk_get (s_disk s') (fat_sector v 0 c)) = 512%nat).
      rewrite Hthis. apply fat_put_block_length. exact Hl.
    - destruct (Hoth k Hk Hne) as [E0 _]. rewrite E0. apply Hlen. exact Hk. }
  split; [exact Hm|]. split; [exact Hget|].
  split; [intros j H1 H2; rewrite Hd; apply fat_disk_after_other; assumption|].
  split; [exact Hthis|]. split; [exact Hmir|].
  unfold tr_ext, fat_writes. unfold fat_disk_after in Hd.
  destruct (v_second_fat v) as [sf|].
  - destruct Hpre as [->| ->].
    + exists [DWrite (fat_sector v 1 c) nb; DWrite (fat_sector v 0 c) nb].
      split; [exact Htr|]. split; [reflexivity|exact Hd].
    + exists [DWrite (fat_sector v 1 c) nb; DWrite (fat_sector v 0 c) nb; DRead (fat_sector v 0 c)].
      split; [exact Htr|]. split; [reflexivity|exact Hd].
  - destruct Hpre as [->| ->].
    + exists [DWrite (fat_sector v 0 c) nb]. split; [exact Htr|]. split; [reflexivity|exact Hd].
    + exists [DWrite (fat_sector v 0 c) nb; DRead (fat_sector v 0 c)].
      split; [exact Htr|]. split; [reflexivity|exact Hd].
Qed.

(* ================================================================== 3. zero_cluster *)
Lemma zero_loop : forall n i s, no_faults s -> cache_ok s ->
  exists s', for_blocks_from n i (fun i => blank_mut i ;;; write_back ;;; ret (@None unit)) s
             = (Ok None, s') /\
    no_faults s' /\ cache_ok s' /\ same_mgr s s' /\
    (forall j, i <= j -> j < i + N.of_nat n -> disk_get (s_disk s') j = zero_block) /\
    (forall j, j < i \/ i + N.of_nat n <= j -> disk_get (s_disk s') j = disk_get (s_disk s) j) /\
    tr_ext s s' (map (fun i => (i, zero_block)) (blocks_from n i)).
Proof.
  induction n as [|n IH]; intros i s Hnf Hc.
  - exists s. split; [reflexivity|]. split; [exact Hnf|]. split; [exact Hc|].
    split; [apply same_mgr_refl|]. split; [intros; lia|]. split; [reflexivity|apply tr_ext_refl].
  - cbn [for_blocks_from].
    destruct (blank_write_spec i s Hnf) as (s1 & Hr & Hd & _ & _ & Hc1 & Hnf1 & Hm1 & Htr).
    assert (Hb : (blank_mut i ;;; write_back ;;; ret (@None unit)) s = (Ok None, s1)).
    { transitivity (bind (bind (blank_mut i) (fun _ => write_back)) (fun _ => ret (@None unit)) s);
        [symmetry; apply bind_bind|].
      rewrite (bind_ok _ _ _ _ _ Hr). reflexivity. }
    rewrite (bind_ok _ _ _ _ _ Hb). cbv beta iota.
    destruct (IH (i + 1) s1 Hnf1 Hc1) as (s' & Hrun & Hnf' & Hc' & Hm' & Hz & Hfr & Htr').
    exists s'. split; [exact Hrun|]. split; [exact Hnf'|]. split; [exact Hc'|].
    split; [exact (same_mgr_trans _ _ _ Hm1 Hm')|].
    split; [|split].
    + intros j Hj1 Hj2. destruct (N.eq_dec j i) as [->|Hne].
      * rewrite Hfr by lia. rewrite Hd. apply disk_get_set_same.
      * apply Hz; lia.
    + intros j Hj. rewrite Hfr by lia. rewrite Hd. apply disk_get_set_other. lia.
    + cbn [blocks_from map].
      apply (tr_ext_trans s s1 s' [(i, zero_block)]); [|exact Htr'].
      exists [DWrite i zero_block]. split; [exact Htr|]. split; [reflexivity|exact Hd].
Qed.

Lemma zero_cluster_spec v c s : vol_ok v -> 2 <= c -> c < v_clusters v + 2 ->
  no_faults s -> cache_ok s ->
  exists s', zero_cluster v c s = (Ok tt, s') /\
    no_faults s' /\ cache_ok s' /\ same_mgr s s' /\
    (forall k, k < v_spc v -> disk_get (s_disk s') (cluster_first_block v c + k) = zero_block) /\
    (forall j, j < cluster_first_block v c \/ cluster_first_block v c + v_spc v <= j ->
       disk_get (s_disk s') j = disk_get (s_disk s) j) /\
    tr_ext s s' (map (fun i => (i, zero_block)) (cluster_blocks v c)).
Proof.
  intros Hv H1 H2 Hnf Hc. unfold zero_cluster.
  destruct (cluster_block_ok v c s Hv H1 H2) as (Hcb & Hfit).
  rewrite (bind_ok _ _ _ _ _ Hcb).
  destruct (zero_loop (N.to_nat (v_spc v)) (cluster_first_block v c) s Hnf Hc)
    as (s' & Hrun & Hnf' & Hc' & Hm' & Hz & Hfr & Htr').
  rewrite N2Nat.id in Hz, Hfr.
  assert (Hfb : for_blocks (cluster_first_block v c) (v_spc v)
                  (fun i => blank_mut i ;;; write_back ;;; ret (@None unit)) s = (Ok None, s')).
  { unfold for_blocks. rewrite (bind_ok _ _ _ _ _ (add32_ok _ _ s Hfit)). exact Hrun. }
  rewrite (bind_ok _ _ _ _ _ Hfb).
  exists s'. split; [reflexivity|]. split; [exact Hnf'|]. split; [exact Hc'|]. split; [exact Hm'|].
  split; [intros k Hk; apply Hz; lia|]. split; [exact Hfr|exact Htr'].
Qed.

(* ================================================================== 4. the searches *)
Lemma mul32_state a b s o s' : mul32 a b s = (o, s') -> s' = s.
Proof. unfold mul32. destruct (a * b <? U32); intros H; inversion H; reflexivity. Qed.
Lemma add32_state a b s o s' : add32 a b s = (o, s') -> s' = s.
Proof. unfold add32. destruct (a + b <? U32); intros H; inversion H; reflexivity. Qed.
Lemma fat_block_state v fs fo s o s' : fat_block v fs fo s = (o, s') -> s' = s.
Proof.
  unfold fat_block, bind. destruct (add32 fs (fo / 512) s) as [[a|e| |] s1] eqn:E;
    pose proof (add32_state _ _ _ _ _ E) as ->; intros H;
    try (inversion H; reflexivity). exact (add32_state _ _ _ _ _ H).
Qed.

(* the search performs no device write (whatever its outcome) *)
Lemma find_loop_trace v endc : forall fuel cur s o s', no_faults s -> cache_ok s ->
  find_next_free_loop fuel v cur endc s = (o, s') -> tr_ext s s' [].
Proof.
  induction fuel as [|f IH]; intros cur s o s' Hnf Hc H.
  - inversion H; subst. apply tr_ext_refl.
  - cbn [find_next_free_loop] in H.
    destruct (cur <? endc); [|inversion H; subst; apply tr_ext_refl].
    unfold bind at 1 in H.
    destruct (mul32 cur (if v_fat32 v then 4 else 2) s) as [[fo|e| |] s1] eqn:E1;
      pose proof (mul32_state _ _ _ _ _ E1) as ->;
      [|inversion H; subst; apply tr_ext_refl ..].
    unfold bind at 1 in H.
    destruct (fat_block v (v_fat_start v) fo s) as [[this|e| |] s1] eqn:E2;
      pose proof (fat_block_state _ _ _ _ _ _ E2) as ->;
      [|inversion H; subst; apply tr_ext_refl ..].
    destruct (cache_read_spec this s Hnf Hc) as (s1 & Hr & Hd & _ & _ & Hc1 & Hnf1 & _ & Htr).
    rewrite (bind_ok _ _ _ _ _ Hr) in H.
    pose proof (tr_ext_read s s1 this Hd Htr) as T1.
    destruct (scan_sector 257 (v_fat32 v) (disk_get (s_disk s) this) (fo mod 512) cur endc) as [[c|] cur'].
    + inversion H; subst. exact T1.
    + exact (tr_ext_nil_trans _ _ _ _ T1 (IH _ _ _ _ Hnf1 Hc1 H)).
Qed.

(* the search, with everything the callers need; entries read through fat_get *)
Lemma find_step vi v fsz start s :
  fat_layout v fsz -> st_ok vi v fsz s -> start <= v_clusters v + 2 ->
  exists o s', find_next_free_cluster v start (v_clusters v + 2) s = (o, s') /\
    st_ok vi v fsz s' /\ same_mgr s s' /\ s_disk s' = s_disk s /\ tr_ext s s' [] /\
    ((exists c, o = Ok c /\ start <= c /\ c < v_clusters v + 2 /\ fat_get (s_disk s) v 0 c = 0)
     \/ (o = Err NotEnoughSpace /\
         forall j, start <= j -> j < v_clusters v + 2 -> fat_get (s_disk s) v 0 j <> 0)).
Proof.
  intros L (Hnf & Hc & Hv & Hlen) Hs.
  destruct (find_next_free_cluster_spec v start (v_clusters v + 2) s (fl_vol v fsz L) Hs (N.le_refl _) Hnf Hc)
    as (o & s' & Hrun & Hd & Hc' & Hnf' & Hm & Hres).
  exists o, s'. split; [exact Hrun|]. split.
  { split; [exact Hnf'|]. split; [exact Hc'|]. split; [exact (same_mgr_vol s s' vi v Hm Hv)|].
    rewrite Hd. exact Hlen. }
  split; [exact Hm|]. split; [exact Hd|].
  split; [exact (find_loop_trace _ _ _ _ _ _ _ Hnf Hc Hrun)|].
  destruct Hres as [(c & Eo & R1 & R2 & R3 & _)|(Eo & Hnone)].
  - left. exists c. rewrite <- fat_entry_get. repeat split; assumption.
  - right. split; [exact Eo|]. intros j J1 J2. rewrite <- fat_entry_get. apply Hnone; assumption.
Qed.

(* ================================================================== 5. alloc_cluster *)
Definition in_cluster (v : vol) (c j : N) : Prop :=
  cluster_first_block v c <= j /\ j < cluster_first_block v c + v_spc v.

(* the free count after one allocation, as the code computes it *)
Definition dec_free (o : option N) : option N :=
  match o with Some n => if 1 <=? n then Some (n - 1) else None | None => None end.

(* the sector images written: nb1 = sector of c with entry c := end-of-chain;
   nb2 = sector of p (as it is after the first write) with entry p := c *)
Definition alloc_nb1 (v : vol) (D : disk) (c : N) : block :=
  fat_put_block v (disk_get D (fat_sector v 0 c)) c CL_EOF.
Definition alloc_nb2 (v : vol) (D : disk) (c p : N) : block :=
  fat_put_block v (if fat_sector v 0 p =? fat_sector v 0 c then alloc_nb1 v D c
                   else disk_get D (fat_sector v 0 p)) p c.
(* all device writes of a successful alloc_cluster, oldest first *)
Definition alloc_writes (v : vol) (D : disk) (prev : option N) (zero : bool) (c : N) : list (N * block) :=
  map (fun i => (i, alloc_nb1 v D c)) (fat_writes v c)
  ++ (if zero then map (fun i => (i, zero_block)) (cluster_blocks v c) else [])
  ++ match prev with
     | Some p => map (fun i => (i, alloc_nb2 v D c p)) (fat_writes v p)
     | None => []
     end.

(* step C: the optional zeroing *)
Lemma alloc_zero_step vi v fsz c (zero : bool) s :
  fat_layout v fsz -> st_ok vi v fsz s -> 2 <= c -> c < v_clusters v + 2 ->
  exists s', (if zero then zero_cluster v c else ret tt) s = (Ok tt, s') /\
    st_ok vi v fsz s' /\ same_mgr s s' /\
    (zero = true -> forall k, k < v_spc v ->
       disk_get (s_disk s') (cluster_first_block v c + k) = zero_block) /\
    (forall j, (zero = true -> ~ in_cluster v c j) -> disk_get (s_disk s') j = disk_get (s_disk s) j) /\
    tr_ext s s' (if zero then map (fun i => (i, zero_block)) (cluster_blocks v c) else []).
Proof.
  intros L (Hnf & Hc & Hv & Hlen) H1 H2. destruct zero.
  - destruct (zero_cluster_spec v c s (fl_vol v fsz L) H1 H2 Hnf Hc)
      as (s' & Hrun & Hnf' & Hc' & Hm & Hz & Hfr & Htr).
    exists s'. split; [exact Hrun|]. split.
    { split; [exact Hnf'|]. split; [exact Hc'|]. split; [exact (same_mgr_vol s s' vi v Hm Hv)|].
      intros k Hk. rewrite Hfr; [apply Hlen; exact Hk|].
      destruct (N.lt_ge_cases (fat_copy_sector v 0 k) (cluster_first_block v c)) as [Hlt|Hge]; [left; exact Hlt|].
      right. destruct (N.lt_ge_cases (fat_copy_sector v 0 k) (cluster_first_block v c + v_spc v)) as [Hlt2|Hge2];
        [|exact Hge2].
      exfalso. apply (fat_sector_not_data v fsz 0 k c (fat_copy_sector v 0 k - cluster_first_block v c) L Hk H1). lia. }
    split; [exact Hm|]. split; [intros _; exact Hz|].
    split; [|exact Htr].
    intros j Hj. apply Hfr. specialize (Hj eq_refl). unfold in_cluster in Hj. lia.
  - exists s. split; [reflexivity|]. split; [repeat split; assumption|]. split; [apply same_mgr_refl|].
    split; [intros E; discriminate E|]. split; [reflexivity|apply tr_ext_refl].
Qed.

(* step D: the optional link from the previous cluster *)
Lemma alloc_link_step vi v fsz c prev s :
  fat_layout v fsz -> st_ok vi v fsz s -> (forall p, prev = Some p -> p < v_clusters v + 2) ->
  exists s', (match prev with Some p => update_fat vi p c | None => ret tt end) s = (Ok tt, s') /\
    st_ok vi v fsz s' /\ same_mgr s s' /\
    (forall c', (c' * fat_width v) / 512 < fsz ->
       fat_get (s_disk s') v 0 c' =
       match prev with
       | Some p => if c' =? p then enc v c else fat_get (s_disk s) v 0 c'
       | None => fat_get (s_disk s) v 0 c'
       end) /\
    (forall j, (forall p, prev = Some p -> j <> fat_sector v 0 p /\ j <> fat_sector v 1 p) ->
       disk_get (s_disk s') j = disk_get (s_disk s) j) /\
    (fat_mirrored (s_disk s) v fsz -> fat_mirrored (s_disk s') v fsz) /\
    tr_ext s s' (match prev with
                 | Some p => map (fun i => (i, fat_put_block v (disk_get (s_disk s) (fat_sector v 0 p)) p c))
                                 (fat_writes v p)
                 | None => []
                 end).
Proof.
  intros L Hst Hprev. destruct prev as [p|].
  - destruct (update_fat_step vi v fsz p c s L Hst (Hprev p eq_refl))
      as (s' & Hrun & Hst' & Hm & Hget & Hfr & _ & Hmir & Htr).
    exists s'. split; [exact Hrun|]. split; [exact Hst'|]. split; [exact Hm|]. split; [exact Hget|].
    split; [|split; [exact Hmir|exact Htr]].
    intros j Hj. destruct (Hj p eq_refl) as [J1 J2]. apply Hfr; assumption.
  - exists s. split; [reflexivity|]. split; [exact Hst|]. split; [apply same_mgr_refl|].
    split; [reflexivity|]. split; [reflexivity|]. split; [exact (fun H => H)|apply tr_ext_refl].
Qed.

(* step E: the search for the next hint *)
Lemma alloc_hint_step vi v fsz c s :
  fat_layout v fsz -> st_ok vi v fsz s -> 2 <= c -> c < v_clusters v + 2 ->
  exists nf s',
    (r2 <- try (find_next_free_cluster v c (v_clusters v + 2)) ;;
     match r2 with
     | inl c => ret (Some c)
     | inr NotEnoughSpace =>
         if RESERVED_ENTRIES <? c then
           r3 <- try (find_next_free_cluster v RESERVED_ENTRIES (v_clusters v + 2)) ;;
           match r3 with
           | inl c => ret (Some c)
           | inr NotEnoughSpace => ret None
           | inr e => fail e
           end
         else ret None
     | inr e => fail e
     end) s = (Ok nf, s') /\
    st_ok vi v fsz s' /\ same_mgr s s' /\ s_disk s' = s_disk s /\ tr_ext s s' [] /\
    match nf with
    | Some h => 2 <= h /\ h < v_clusters v + 2 /\ fat_get (s_disk s) v 0 h = 0
    | None => forall j, 2 <= j -> j < v_clusters v + 2 -> fat_get (s_disk s) v 0 j <> 0
    end.
Proof.
  intros L Hst H1 H2.
  destruct (find_step vi v fsz c s L Hst ltac:(lia)) as (o1 & s1 & Hf1 & Hst1 & Hm1 & Hd1 & T1 & Hres1).
  destruct Hres1 as [(h & -> & R1 & R2 & R3)|(-> & Hnone1)].
  - rewrite (bind_ok _ _ _ _ _ (try_ok _ _ _ _ Hf1)). cbv beta iota.
    exists (Some h), s1. split; [reflexivity|]. repeat (split; [assumption|]).
    split; [lia|]. split; assumption.
  - rewrite (bind_ok _ _ _ _ _ (try_err _ _ _ _ Hf1)). cbv beta iota. unfold RESERVED_ENTRIES.
    destruct (2 <? c) eqn:E2.
    + destruct (find_step vi v fsz 2 s1 L Hst1 ltac:(lia)) as (o2 & s2 & Hf2 & Hst2 & Hm2 & Hd2 & T2 & Hres2).
      rewrite Hd1 in Hres2.
      destruct Hres2 as [(h & -> & R1 & R2 & R3)|(-> & Hnone2)].
      * rewrite (bind_ok _ _ _ _ _ (try_ok _ _ _ _ Hf2)). cbv beta iota.
        exists (Some h), s2. split; [reflexivity|]. split; [exact Hst2|].
        split; [exact (same_mgr_trans _ _ _ Hm1 Hm2)|]. split; [congruence|].
        split; [exact (tr_ext_nil_trans _ _ _ _ T1 T2)|]. repeat split; assumption.
      * rewrite (bind_ok _ _ _ _ _ (try_err _ _ _ _ Hf2)). cbv beta iota.
        exists None, s2. split; [reflexivity|]. split; [exact Hst2|].
        split; [exact (same_mgr_trans _ _ _ Hm1 Hm2)|]. split; [congruence|].
        split; [exact (tr_ext_nil_trans _ _ _ _ T1 T2)|]. exact Hnone2.
    + apply N.ltb_ge in E2.
      exists None, s1. split; [reflexivity|]. repeat (split; [assumption|]).
      intros j J1 J2. apply Hnone1; lia.
Qed.

(* FAT sectors are outside every data cluster *)
Lemma fat_not_in_cluster v fsz copy k c : fat_layout v fsz -> k < fsz -> 2 <= c ->
  ~ in_cluster v c (fat_copy_sector v copy k).
Proof.
  intros L Hk Hc [I1 I2].
  apply (fat_sector_not_data v fsz copy k c (fat_copy_sector v copy k - cluster_first_block v c) L Hk Hc). lia.
Qed.

Lemma fat_get_same_sector D1 D2 v c :
  disk_get D2 (fat_sector v 0 c) = disk_get D1 (fat_sector v 0 c) -> fat_get D2 v 0 c = fat_get D1 v 0 c.
Proof. intros H. unfold fat_get. rewrite H. reflexivity. Qed.

(* the complete effect of a successful alloc_cluster returning c *)
Record alloc_eff (vi : nat) (v : vol) (fsz : N) (prev : option N) (zero : bool)
                 (s : st) (c : N) (s' : st) : Prop := mk_alloc_eff {
  (* the cluster handed out is a data cluster and was free *)
  ae_range : 2 <= c /\ c < v_clusters v + 2 /\ fat_get (s_disk s) v 0 c = 0;
  (* (a) it is now the end of a chain *)
  ae_new : prev <> Some c -> fat_get (s_disk s') v 0 c = enc v CL_EOF;
  (* (b) the previous cluster links to it *)
  ae_prev : forall p, prev = Some p -> fat_get (s_disk s') v 0 p = enc v c;
  (* (c) every other entry of the FAT is as before *)
  ae_other : forall c', (c' * fat_width v) / 512 < fsz -> c' <> c -> prev <> Some c' ->
             fat_get (s_disk s') v 0 c' = fat_get (s_disk s) v 0 c';
  (* (d) identical FAT copies stay identical *)
  ae_mirror : fat_mirrored (s_disk s) v fsz -> fat_mirrored (s_disk s') v fsz;
  (* (e) the volume record: free count decremented (unknown stays unknown; a known 0 becomes
     unknown), the hint is a free in-range entry of the new FAT or unknown - and unknown only
     when no entry at all is free; all other fields and all other tables unchanged *)
  ae_vol : exists nf,
     s_vols s' = list_set (s_vols s) vi (set_v_free (set_v_next_free v nf) (dec_free (v_free v))) /\
     match nf with
     | Some h => 2 <= h /\ h < v_clusters v + 2 /\ fat_get (s_disk s') v 0 h = 0
     | None => forall j, 2 <= j -> j < v_clusters v + 2 -> fat_get (s_disk s') v 0 j <> 0
     end;
  ae_tables : s_dirs s' = s_dirs s /\ s_files s' = s_files s /\ s_next_id s' = s_next_id s /\
              s_clock s' = s_clock s /\ s_lock s' = s_lock s /\ s_maxv s' = s_maxv s /\
              s_maxd s' = s_maxd s /\ s_maxf s' = s_maxf s /\ s_faults s' = s_faults s;
  (* (f) blocks: only the FAT sectors of c and of prev (both copies) and, when zeroing, the
     blocks of cluster c can differ; the latter are all zero *)
  ae_frame : forall j, j <> fat_sector v 0 c -> j <> fat_sector v 1 c ->
             (forall p, prev = Some p -> j <> fat_sector v 0 p /\ j <> fat_sector v 1 p) ->
             (zero = true -> ~ in_cluster v c j) ->
             disk_get (s_disk s') j = disk_get (s_disk s) j;
  ae_zero : zero = true -> forall k, k < v_spc v ->
            disk_get (s_disk s') (cluster_first_block v c + k) = zero_block;
  (* (g) state invariants *)
  ae_inv : no_faults s' /\ cache_ok s' /\
           forall k, k < fsz -> length (disk_get (s_disk s') (fat_copy_sector v 0 k)) = 512%nat;
  (* the device writes, in order, with their contents; the new disk is the old one with
     exactly these writes applied *)
  ae_trace : tr_ext s s' (alloc_writes v (s_disk s) prev zero c)
}.

Lemma alloc_rest_spec vi v fsz prev (zero : bool) c s :
  fat_layout v fsz -> st_ok vi v fsz s -> (forall p, prev = Some p -> p < v_clusters v + 2) ->
  2 <= c -> c < v_clusters v + 2 -> fat_get (s_disk s) v 0 c = 0 ->
  exists s',
    (update_fat vi c CL_EOF ;;;
     (if zero then zero_cluster v c else ret tt) ;;;
     match prev with Some p => update_fat vi p c | None => ret tt end ;;;
     r2 <- try (find_next_free_cluster v c (v_clusters v + 2)) ;;
     nf <- match r2 with
           | inl c => ret (Some c)
           | inr NotEnoughSpace =>
               if RESERVED_ENTRIES <? c then
                 r3 <- try (find_next_free_cluster v RESERVED_ENTRIES (v_clusters v + 2)) ;;
                 match r3 with
                 | inl c => ret (Some c)
                 | inr NotEnoughSpace => ret None
                 | inr e => fail e
                 end
               else ret None
           | inr e => fail e
           end ;;
     v1 <- get_vol vi ;;
     let fc := match v_free v1 with
               | Some n => if 1 <=? n then Some (n - 1) else None
               | None => None end in
     put_vol vi (set_v_free (set_v_next_free v1 nf) fc) ;;;
     ret c) s = (Ok c, s') /\
    alloc_eff vi v fsz prev zero s c s'.
Proof.
  intros L Hst Hprev H1 H2 Hfree.
  pose proof (layout_sector v fsz c L H2) as Hqc.
  (* B *)
  destruct (update_fat_step vi v fsz c CL_EOF s L Hst H2)
    as (sB & HrunB & HstB & HmB & HgetB & HfrB & HthisB & HmirB & TB).
  rewrite (bind_ok _ _ _ _ _ HrunB).
  (* C *)
  destruct (alloc_zero_step vi v fsz c zero sB L HstB H1 H2)
    as (sC & HrunC & HstC & HmC & HzC & HfrC & TC).
  rewrite (bind_ok _ _ _ _ _ HrunC).
  (* D *)
  destruct (alloc_link_step vi v fsz c prev sC L HstC Hprev)
    as (sD & HrunD & HstD & HmD & HgetD & HfrD & HmirD & TD).
  rewrite (bind_ok _ _ _ _ _ HrunD).
  (* E *)
  destruct (alloc_hint_step vi v fsz c sD L HstD H1 H2)
    as (nf & sE & HrunE & HstE & HmE & HdE & TE & Hnf).
  rewrite <- bind_bind. rewrite (bind_ok _ _ _ _ _ HrunE).
  (* F *)
  destruct HstE as (HnfE & HcE & HvE & HlenE).
  rewrite (bind_ok _ _ _ _ _ (get_vol_ok vi v sE HvE)). cbv zeta.
  fold (dec_free (v_free v)).
  set (v' := set_v_free (set_v_next_free v nf) (dec_free (v_free v))).
  set (sF := set_s_vols sE (list_set (s_vols sE) vi v')).
  assert (HrunF : put_vol vi v' sE = (Ok tt, sF)) by reflexivity.
  rewrite (bind_ok _ _ _ _ _ HrunF).
  exists sF. split; [reflexivity|].
  assert (HdF : s_disk sF = s_disk sD) by exact HdE.
  (* FAT sectors are not touched by the zeroing *)
  assert (HsecC : forall copy k, k < fsz ->
            disk_get (s_disk sC) (fat_copy_sector v copy k) = disk_get (s_disk sB) (fat_copy_sector v copy k)).
  { intros copy k Hk. apply HfrC. intros _. exact (fat_not_in_cluster v fsz copy k c L Hk H1). }
  assert (HgetC : forall c', (c' * fat_width v) / 512 < fsz ->
            fat_get (s_disk sC) v 0 c' = fat_get (s_disk sB) v 0 c').
  { intros c' Hq. apply fat_get_same_sector. apply (HsecC 0). exact Hq. }
  assert (HmirC : fat_mirrored (s_disk sB) v fsz -> fat_mirrored (s_disk sC) v fsz).
  { intros Hmir k Hk. rewrite !HsecC by exact Hk. apply Hmir. exact Hk. }
  (* all entries of the final FAT *)
  assert (Hget : forall c', (c' * fat_width v) / 512 < fsz ->
            fat_get (s_disk sF) v 0 c' =
            match prev with
            | Some p => if c' =? p then enc v c
                        else if c' =? c then enc v CL_EOF else fat_get (s_disk s) v 0 c'
            | None => if c' =? c then enc v CL_EOF else fat_get (s_disk s) v 0 c'
            end).
  { intros c' Hq. rewrite HdF, (HgetD c' Hq), (HgetC c' Hq), (HgetB c' Hq).
    destruct prev as [p|]; reflexivity. }
  destruct HmB as (B1 & B2 & B3 & B4 & B5 & B6 & B7 & B8 & B9 & B10).
  destruct HmC as (C1 & C2 & C3 & C4 & C5 & C6 & C7 & C8 & C9 & C10).
  destruct HmD as (D1 & D2 & D3 & D4 & D5 & D6 & D7 & D8 & D9 & D10).
  destruct HmE as (E1 & E2 & E3 & E4 & E5 & E6 & E7 & E8 & E9 & E10).
  constructor.
  - repeat split; assumption.
  - intros Hne. rewrite (Hget c Hqc). rewrite N.eqb_refl. destruct prev as [p|]; [|reflexivity].
    destruct (N.eqb_spec c p) as [->|_]; [contradiction Hne; reflexivity|reflexivity].
  - intros p ->. rewrite (Hget p (layout_sector v fsz p L (Hprev p eq_refl))). rewrite N.eqb_refl. reflexivity.
  - intros c' Hq Hc' Hp. rewrite (Hget c' Hq).
    destruct (N.eqb_spec c' c) as [->|_]; [contradiction Hc'; reflexivity|].
    destruct prev as [p|]; [|reflexivity].
    destruct (N.eqb_spec c' p) as [->|_]; [contradiction Hp; reflexivity|reflexivity].
  - intros Hmir. change (fat_mirrored (s_disk sE) v fsz). rewrite HdE. auto.
  - exists nf. split; [unfold sF, v'; cbn [s_vols set_s_vols]; congruence|].
    change (s_disk sF) with (s_disk sE). rewrite HdE. exact Hnf.
  - unfold sF. cbn [s_dirs s_files s_next_id s_clock s_lock s_maxv s_maxd s_maxf s_faults set_s_vols].
    repeat split; congruence.
  - intros j J1 J2 J3 J4. rewrite HdF, (HfrD j J3), (HfrC j J4). apply HfrB; assumption.
  - intros Hz k Hk. rewrite HdF. rewrite HfrD; [apply HzC; assumption|].
    intros p Hp. pose proof (layout_sector v fsz p L (Hprev p Hp)) as Hqp.
    split; intros E.
    + apply (fat_sector_not_data v fsz 0 ((p * fat_width v) / 512) c k L Hqp H1). symmetry. exact E.
    + apply (fat_sector_not_data v fsz 1 ((p * fat_width v) / 512) c k L Hqp H1). symmetry. exact E.
  - split; [exact HnfE|]. split; [exact HcE|]. exact HlenE.
  - (* the writes *)
    assert (TF : tr_ext sE sF []) by (exists []; repeat split).
    pose proof (tr_ext_trans_nil _ _ _ _ (tr_ext_trans_nil _ _ _ _ TD TE) TF) as TDF.
    pose proof (tr_ext_trans _ _ _ _ _ TB (tr_ext_trans _ _ _ _ _ TC TDF)) as T.
    unfold alloc_writes. fold (alloc_nb1 v (s_disk s) c) in T, HthisB.
    destruct prev as [p|]; [|exact T].
    assert (Enb : disk_get (s_disk sC) (fat_sector v 0 p)
                  = if fat_sector v 0 p =? fat_sector v 0 c then alloc_nb1 v (s_disk s) c
                    else disk_get (s_disk s) (fat_sector v 0 p)).
    { pose proof (layout_sector v fsz p L (Hprev p eq_refl)) as Hqp.
      change (fat_sector v 0 p) with (fat_copy_sector v 0 ((p * fat_width v) / 512)) at 1.
      rewrite (HsecC 0 _ Hqp). change (fat_copy_sector v 0 ((p * fat_width v) / 512)) with (fat_sector v 0 p).
      destruct (N.eqb_spec (fat_sector v 0 p) (fat_sector v 0 c)) as [E|E].
      - rewrite E. exact HthisB.
      - apply HfrB; [exact E|].
        destruct (geom_no_clobber v fsz c p (fl_geom v fsz L) Hqc Hqp) as [G|G]; [contradiction|exact G]. }
    unfold alloc_nb2. rewrite <- Enb. exact T.
Qed.

(* the effect is stated relative to the state before the read-only search for c *)
Lemma alloc_eff_pre vi v fsz prev zero s s1 c s' :
  s_disk s1 = s_disk s -> same_mgr s s1 -> tr_ext s s1 [] ->
  alloc_eff vi v fsz prev zero s1 c s' -> alloc_eff vi v fsz prev zero s c s'.
Proof.
  intros Hd (M1 & M2 & M3 & M4 & M5 & M6 & M7 & M8 & M9 & M10) T [A1 A2 A3 A4 A5 A6 A7 A8 A9 A10 A11].
  rewrite Hd in *. destruct A7 as (T1 & T2 & T3 & T4 & T5 & T6 & T7 & T8 & T9).
  constructor; try assumption.
  - destruct A6 as (nf & E & Hnf). exists nf. split; [congruence|exact Hnf].
  - repeat split; congruence.
  - exact (tr_ext_nil_trans _ _ _ _ T A11).
Qed.

(* TOTAL description: under alloc_pre, alloc_cluster never panics, never runs out of fuel and
   reports no device error; it either fails with NotEnoughSpace - then no entry of the volume
   is free and nothing was written - or succeeds with the effect alloc_eff. *)
Theorem alloc_cluster_total vi v fsz prev (zero : bool) s :
  alloc_pre s vi v fsz -> (forall p, prev = Some p -> p < v_clusters v + 2) ->
  exists o s', alloc_cluster vi prev zero s = (o, s') /\
    ((o = Err NotEnoughSpace /\
      (forall j, 2 <= j -> j < v_clusters v + 2 -> fat_get (s_disk s) v 0 j <> 0) /\
      s_disk s' = s_disk s /\ same_mgr s s' /\ tr_ext s s' [] /\ st_ok vi v fsz s')
     \/ (exists c, o = Ok c /\ alloc_eff vi v fsz prev zero s c s')).
Proof.
  intros (Hst & L & Hh) Hprev.
  pose proof Hst as (Hnf & Hc & Hv & Hlen).
  unfold alloc_cluster.
  rewrite (bind_ok _ _ _ _ _ (get_vol_ok vi v s Hv)).
  assert (He : v_clusters v + RESERVED_ENTRIES < U32).
  { destruct (fl_vol v fsz L) as [H1 _ _ _]. unfold U32, RESERVED_ENTRIES in *. lia. }
  rewrite (bind_ok _ _ _ _ _ (add32_ok _ _ s He)). cbv zeta. unfold RESERVED_ENTRIES.
  remember (match v_next_free v with
            | Some c0 => if c0 <? v_clusters v + 2 then c0 else 2
            | None => 2 end) as start eqn:Estart.
  assert (Hs : 2 <= start /\ start <= v_clusters v + 2).
  { subst start. destruct (v_next_free v) as [c0|] eqn:En; [|lia].
    destruct (c0 <? v_clusters v + 2) eqn:E; [|lia]. apply N.ltb_lt in E.
    specialize (Hh c0 En). lia. }
  destruct Hs as (Hs1 & Hs2).
  destruct (find_step vi v fsz start s L Hst Hs2) as (o1 & s1 & Hf1 & Hst1 & Hm1 & Hd1 & T1 & Hres1).
  destruct Hres1 as [(c & -> & R1 & R2 & R3)|(-> & Hnone1)].
  - rewrite (bind_ok _ _ _ _ _ (try_ok _ _ _ _ Hf1)). cbv beta iota.
    rewrite (bind_ok _ _ _ _ _ (eq_refl : ret c s1 = (Ok c, s1))).
    rewrite <- Hd1 in R3.
    destruct (alloc_rest_spec vi v fsz prev zero c s1 L Hst1 Hprev ltac:(lia) R2 R3) as (s' & Hrun & Heff).
    exists (Ok c), s'. split; [exact Hrun|]. right. exists c. split; [reflexivity|].
    exact (alloc_eff_pre _ _ _ _ _ _ _ _ _ Hd1 Hm1 T1 Heff).
  - rewrite (bind_ok _ _ _ _ _ (try_err _ _ _ _ Hf1)). cbv beta iota.
    destruct (2 <? start) eqn:E2.
    + destruct (find_step vi v fsz 2 s1 L Hst1 ltac:(lia)) as (o2 & s2 & Hf2 & Hst2 & Hm2 & Hd2 & T2 & Hres2).
      destruct Hres2 as [(c & -> & R1 & R2 & R3)|(-> & Hnone2)].
      * rewrite (bind_ok _ _ _ _ _ Hf2).
        rewrite <- Hd2 in R3.
        destruct (alloc_rest_spec vi v fsz prev zero c s2 L Hst2 Hprev R1 R2 R3) as (s' & Hrun & Heff).
        exists (Ok c), s'. split; [exact Hrun|]. right. exists c. split; [reflexivity|].
        apply (alloc_eff_pre _ _ _ _ _ _ s2); [congruence|exact (same_mgr_trans _ _ _ Hm1 Hm2)|
          exact (tr_ext_nil_trans _ _ _ _ T1 T2)|exact Heff].
      * rewrite (bind_err _ _ _ _ _ Hf2).
        exists (Err NotEnoughSpace), s2. split; [reflexivity|]. left. split; [reflexivity|].
        rewrite Hd1 in Hnone2. split; [exact Hnone2|]. split; [congruence|].
        split; [exact (same_mgr_trans _ _ _ Hm1 Hm2)|]. split; [exact (tr_ext_nil_trans _ _ _ _ T1 T2)|exact Hst2].
    + apply N.ltb_ge in E2.
      exists (Err NotEnoughSpace), s1. split; [reflexivity|]. left. split; [reflexivity|].
      split; [intros j J1 J2; apply Hnone1; lia|]. repeat (split; [assumption|]). exact Hst1.
Qed.

(* ================================================================== 6. the theorems *)
(* ---- 1. effect of a successful allocation ---- *)
Theorem alloc_cluster_effect vi v fsz prev (zero : bool) s c s' :
  alloc_pre s vi v fsz -> (forall p, prev = Some p -> p < v_clusters v + 2) ->
  alloc_cluster vi prev zero s = (Ok c, s') ->
  alloc_eff vi v fsz prev zero s c s'.
Proof.
  intros Hpre Hprev H.
  destruct (alloc_cluster_total vi v fsz prev zero s Hpre Hprev) as (o & s2 & Hrun & Hres).
  rewrite H in Hrun. inversion Hrun; subst o s2. clear Hrun.
  destruct Hres as [(E & _)|(c2 & E & Heff)]; [discriminate E|].
  inversion E; subst c2. exact Heff.
Qed.

(* when the previous cluster is in use (its entry is not 0) it differs from the new one, so
   (a) holds without a side condition *)
Corollary alloc_cluster_effect_inuse vi v fsz prev (zero : bool) s c s' :
  alloc_pre s vi v fsz ->
  (forall p, prev = Some p -> p < v_clusters v + 2 /\ fat_get (s_disk s) v 0 p <> 0) ->
  alloc_cluster vi prev zero s = (Ok c, s') ->
  alloc_eff vi v fsz prev zero s c s' /\ prev <> Some c /\
  fat_get (s_disk s') v 0 c = enc v CL_EOF.
Proof.
  intros Hpre Hprev H.
  pose proof (alloc_cluster_effect vi v fsz prev zero s c s' Hpre (fun p Hp => proj1 (Hprev p Hp)) H) as Heff.
  assert (Hne : prev <> Some c).
  { intros E. destruct (Hprev c E) as [_ Hu]. destruct (ae_range _ _ _ _ _ _ _ _ Heff) as (_ & _ & F). contradiction. }
  split; [exact Heff|]. split; [exact Hne|]. exact (ae_new _ _ _ _ _ _ _ _ Heff Hne).
Qed.

(* the end-of-chain value, concretely *)
Lemma enc_eof v : enc v CL_EOF = if v_fat32 v then 268435455 else 65535.
Proof. unfold enc. destruct (v_fat32 v); reflexivity. Qed.

(* a data cluster number is stored unchanged in the link (the FAT type limits the count) *)
Lemma enc_cluster v c : c < v_clusters v + 2 ->
  v_clusters v + 2 <= (if v_fat32 v then 268435456 else 65536) -> enc v c = c.
Proof. intros Hc Hw. rewrite enc_mod. apply N.mod_small. destruct (v_fat32 v); lia. Qed.

(* ---- list_set / nth_error ---- *)
Lemma ls_nth_same {A} (l : list A) : forall i x y,
  nth_error l i = Some x -> nth_error (list_set l i y) i = Some y.
Proof. induction l as [|h t IH]; intros [|i] x y H; cbn in *; try discriminate; [reflexivity|eauto]. Qed.

Lemma ls_nth_other {A} (l : list A) : forall i j y, i <> j ->
  nth_error (list_set l i y) j = nth_error l j.
Proof.
  induction l as [|h t IH]; intros [|i] [|j] y H; cbn; try reflexivity; try contradiction.
  apply IH. congruence.
Qed.

Lemma ls_twice {A} (l : list A) : forall i x y, list_set (list_set l i x) i y = list_set l i y.
Proof. induction l as [|h t IH]; intros [|i] x y; cbn; try reflexivity. rewrite IH. reflexivity. Qed.

(* the layout does not depend on the free count and the hint *)
Lemma fat_layout_free v fsz nf fc :
  fat_layout v fsz -> fat_layout (set_v_free (set_v_next_free v nf) fc) fsz.
Proof.
  intros [[V1 V2 V3 V4] G C S D1 D2].
  constructor; [constructor|..]; assumption.
Qed.

(* C03: the hypotheses hold again after the allocation, for the new volume record *)
Theorem alloc_cluster_keeps_pre vi v fsz prev (zero : bool) s c s' :
  alloc_pre s vi v fsz -> (forall p, prev = Some p -> p < v_clusters v + 2) ->
  alloc_cluster vi prev zero s = (Ok c, s') ->
  exists v', nth_error (s_vols s') vi = Some v' /\ alloc_pre s' vi v' fsz /\
    (forall j, j <> vi -> nth_error (s_vols s') j = nth_error (s_vols s) j) /\
    v_free v' = dec_free (v_free v) /\
    set_v_free (set_v_next_free v' (v_next_free v)) (v_free v) = set_v_free (set_v_next_free v (v_next_free v)) (v_free v).
Proof.
  intros Hpre Hprev H.
  pose proof (alloc_cluster_effect vi v fsz prev zero s c s' Hpre Hprev H) as Heff.
  destruct Hpre as ((_ & _ & Hv & _) & L & Hh).
  destruct (ae_vol _ _ _ _ _ _ _ _ Heff) as (nf & Evols & Hnf).
  destruct (ae_inv _ _ _ _ _ _ _ _ Heff) as (I1 & I2 & I3).
  set (v' := set_v_free (set_v_next_free v nf) (dec_free (v_free v))) in *.
  assert (Hv' : nth_error (s_vols s') vi = Some v') by (rewrite Evols; exact (ls_nth_same _ _ _ _ Hv)).
  exists v'. split; [exact Hv'|]. split; [|split; [|split]].
  - split; [|split].
    + split; [exact I1|]. split; [exact I2|]. split; [exact Hv'|exact I3].
    + apply fat_layout_free. exact L.
    + intros h Eh. cbn in Eh. subst nf. destruct Hnf as (N1 & _). exact N1.
  - intros j Hj. rewrite Evols. apply ls_nth_other. congruence.
  - reflexivity.
  - reflexivity.
Qed.

(* (f) in the words of the property: a block that is no FAT sector (of either copy) and - when
   zeroing - no block of cluster c is unchanged; without zeroing the blocks of c are unchanged *)
Corollary alloc_cluster_data_frame vi v fsz prev (zero : bool) s c s' :
  alloc_pre s vi v fsz -> (forall p, prev = Some p -> p < v_clusters v + 2) ->
  alloc_cluster vi prev zero s = (Ok c, s') ->
  (forall j, (forall copy k, k < fsz -> j <> fat_copy_sector v copy k) ->
             (zero = true -> ~ in_cluster v c j) ->
             disk_get (s_disk s') j = disk_get (s_disk s) j) /\
  (zero = true -> forall k, k < v_spc v ->
     disk_get (s_disk s') (cluster_first_block v c + k) = zero_block) /\
  (zero = false -> forall k, k < v_spc v ->
     disk_get (s_disk s') (cluster_first_block v c + k) = disk_get (s_disk s) (cluster_first_block v c + k)).
Proof.
  intros Hpre Hprev H.
  pose proof (alloc_cluster_effect vi v fsz prev zero s c s' Hpre Hprev H) as Heff.
  destruct Hpre as (_ & L & _).
  destruct (ae_range _ _ _ _ _ _ _ _ Heff) as (R1 & R2 & _).
  pose proof (layout_sector v fsz c L R2) as Hqc.
  assert (Hfr : forall j, (forall copy k, k < fsz -> j <> fat_copy_sector v copy k) ->
             (zero = true -> ~ in_cluster v c j) -> disk_get (s_disk s') j = disk_get (s_disk s) j).
  { intros j Hj Hz. apply (ae_frame _ _ _ _ _ _ _ _ Heff).
    - exact (Hj 0 _ Hqc).
    - exact (Hj 1 _ Hqc).
    - intros p Hp. pose proof (layout_sector v fsz p L (Hprev p Hp)) as Hqp.
      split; [exact (Hj 0 _ Hqp)|exact (Hj 1 _ Hqp)].
    - exact Hz. }
  split; [exact Hfr|]. split; [exact (ae_zero _ _ _ _ _ _ _ _ Heff)|].
  intros Hz k Hk. apply Hfr.
  - intros copy q Hq E. exact (fat_sector_not_data v fsz copy q c k L Hq R1 (eq_sym E)).
  - intros E. rewrite Hz in E. discriminate E.
Qed.

(* ---- 2. the order of the device writes (C10) ---- *)
Lemma dwrites_alloc v D prev zero c :
  map fst (alloc_writes v D prev zero c) =
  fat_writes v c ++ (if zero then cluster_blocks v c else [])
  ++ match prev with Some p => fat_writes v p | None => [] end.
Proof.
  unfold alloc_writes. rewrite !map_app, !map_map. cbn [fst]. rewrite map_id.
  f_equal. f_equal.
  - destruct zero; [rewrite map_map; cbn [fst]; apply map_id|reflexivity].
  - destruct prev; [rewrite map_map; cbn [fst]; apply map_id|reflexivity].
Qed.

(* the block indices of the successful device writes added to the trace, oldest first:
   FAT sector(s) of the new cluster c (first copy, then second copy), then - only when
   zeroing - the blocks of cluster c, then - only with a previous cluster p - the FAT
   sector(s) of p.  So the new cluster is marked end-of-chain and zeroed BEFORE anything
   points to it. *)
Theorem alloc_cluster_write_order vi v fsz prev (zero : bool) s c s' :
  alloc_pre s vi v fsz -> (forall p, prev = Some p -> p < v_clusters v + 2) ->
  alloc_cluster vi prev zero s = (Ok c, s') ->
  exists new, s_trace s' = new ++ s_trace s /\
    rev (dwrites new) =
      fat_writes v c ++ (if zero then cluster_blocks v c else [])
      ++ match prev with Some p => fat_writes v p | None => [] end.
Proof.
  intros Hpre Hprev H.
  pose proof (alloc_cluster_effect vi v fsz prev zero s c s' Hpre Hprev H) as Heff.
  destruct (ae_trace _ _ _ _ _ _ _ _ Heff) as (new & T & W & _).
  exists new. split; [exact T|]. unfold dwrites. rewrite <- map_rev, W. apply dwrites_alloc.
Qed.

(* the blocks of a cluster are written in ascending order: the k-th is first + k *)
Lemma blocks_from_nth : forall n i k, (k < n)%nat -> nth_error (blocks_from n i) k = Some (i + N.of_nat k).
Proof.
  induction n as [|n IH]; intros i k Hk; [lia|]. destruct k as [|k]; cbn [blocks_from nth_error].
  - f_equal. lia.
  - rewrite IH by lia. f_equal. lia.
Qed.

Lemma blocks_from_length n i : length (blocks_from n i) = n.
Proof. revert i; induction n as [|n IH]; intros i; cbn [blocks_from length]; [reflexivity|]. rewrite IH. reflexivity. Qed.

(* with contents: what each write stores.  The first FAT write stores c = end-of-chain; the
   second stores p -> c and, when c and p share a sector, still c = end-of-chain *)
Theorem alloc_cluster_write_contents vi v fsz prev (zero : bool) s c s' :
  alloc_pre s vi v fsz -> (forall p, prev = Some p -> p < v_clusters v + 2) ->
  alloc_cluster vi prev zero s = (Ok c, s') ->
  tr_ext s s' (alloc_writes v (s_disk s) prev zero c) /\
  PrFat.fat_entry v (alloc_nb1 v (s_disk s) c) c = enc v CL_EOF /\
  (forall c', c' <> c -> fat_sector v 0 c' = fat_sector v 0 c ->
     PrFat.fat_entry v (alloc_nb1 v (s_disk s) c) c' = fat_get (s_disk s) v 0 c') /\
  (forall p, prev = Some p ->
     PrFat.fat_entry v (alloc_nb2 v (s_disk s) c p) p = enc v c /\
     (p <> c -> fat_sector v 0 p = fat_sector v 0 c ->
      PrFat.fat_entry v (alloc_nb2 v (s_disk s) c p) c = enc v CL_EOF)).
Proof.
  intros Hpre Hprev H.
  pose proof (alloc_cluster_effect vi v fsz prev zero s c s' Hpre Hprev H) as Heff.
  destruct Hpre as ((_ & _ & _ & Hlen) & L & _).
  destruct (ae_range _ _ _ _ _ _ _ _ Heff) as (R1 & R2 & _).
  pose proof (layout_sector v fsz c L R2) as Hqc.
  assert (Hl1 : length (disk_get (s_disk s) (fat_sector v 0 c)) = 512%nat) by (apply Hlen; exact Hqc).
  split; [exact (ae_trace _ _ _ _ _ _ _ _ Heff)|].
  split; [apply fat_put_block_same; exact Hl1|].
  split.
  { intros c' Hne Es. unfold alloc_nb1. rewrite fat_put_block_other; [|exact Hl1|exact Hne|apply (fat_sector_quot v 0); exact Es].
    unfold fat_get. rewrite Es. reflexivity. }
  intros p Hp. pose proof (layout_sector v fsz p L (Hprev p Hp)) as Hqp.
  assert (Hl2 : length (if fat_sector v 0 p =? fat_sector v 0 c then alloc_nb1 v (s_disk s) c
                        else disk_get (s_disk s) (fat_sector v 0 p)) = 512%nat).
  { destruct (fat_sector v 0 p =? fat_sector v 0 c).
    - apply fat_put_block_length. exact Hl1.
    - apply Hlen. exact Hqp. }
  split; [apply fat_put_block_same; exact Hl2|].
  intros Hne Es. unfold alloc_nb2.
  rewrite fat_put_block_other; [|exact Hl2|congruence|apply (fat_sector_quot v 0); symmetry; exact Es].
  rewrite Es, N.eqb_refl. apply fat_put_block_same. exact Hl1.
Qed.

(* ---- 1, failure direction (C05): NotEnoughSpace only when nothing is free ---- *)
Theorem alloc_cluster_nospace vi v fsz prev (zero : bool) s s' :
  alloc_pre s vi v fsz -> (forall p, prev = Some p -> p < v_clusters v + 2) ->
  alloc_cluster vi prev zero s = (Err NotEnoughSpace, s') ->
  (forall j, 2 <= j -> j < v_clusters v + 2 -> fat_get (s_disk s) v 0 j <> 0) /\
  s_disk s' = s_disk s /\ same_mgr s s' /\
  (exists new, s_trace s' = new ++ s_trace s /\ dwrites new = []) /\
  alloc_pre s' vi v fsz.
Proof.
  intros Hpre Hprev H.
  destruct (alloc_cluster_total vi v fsz prev zero s Hpre Hprev) as (o & s2 & Hrun & Hres).
  rewrite H in Hrun. inversion Hrun; subst o s2. clear Hrun.
  destruct Hres as [(_ & Hnone & Hd & Hm & T & Hst)|(c2 & E & _)]; [|discriminate E].
  split; [exact Hnone|]. split; [exact Hd|]. split; [exact Hm|]. split.
  - destruct T as (new & T & W & _). exists new. split; [exact T|].
    unfold dwrites. destruct (dwr new) as [|x l]; [reflexivity|].
    apply (f_equal (@length _)) in W. rewrite rev_length in W. discriminate W.
  - destruct Hpre as (_ & L & Hh). split; [exact Hst|]. split; assumption.
Qed.

(* and conversely: with a free entry the allocation succeeds - no other outcome exists *)
Theorem alloc_cluster_succeeds vi v fsz prev (zero : bool) s j :
  alloc_pre s vi v fsz -> (forall p, prev = Some p -> p < v_clusters v + 2) ->
  2 <= j -> j < v_clusters v + 2 -> fat_get (s_disk s) v 0 j = 0 ->
  exists c s', alloc_cluster vi prev zero s = (Ok c, s').
Proof.
  intros Hpre Hprev J1 J2 J3.
  destruct (alloc_cluster_total vi v fsz prev zero s Hpre Hprev) as (o & s2 & Hrun & Hres).
  destruct Hres as [(_ & Hnone & _)|(c & -> & _)].
  - exfalso. exact (Hnone j J1 J2 J3).
  - exists c, s2. exact Hrun.
Qed.

(* ================================================================== 7. examples *)
(* alloc_pre is satisfiable: PrAlloc's FAT32 and FAT16 example volumes (20000 clusters of 8
   blocks, two FAT copies of 200 sectors at 32 and 400, data area at 1000) on a blank device *)
Lemma alloc_pre_blank v fsz :
  fat_layout v fsz -> hint_ok v -> alloc_pre (PrAlloc.ex_state v) 0 v fsz.
Proof.
  intros L Hh. split; [|split; assumption].
  destruct (ex_state_ok v) as (A & B). split; [exact A|]. split; [exact B|]. split; [reflexivity|].
  intros k _. unfold disk_get. cbn [s_disk PrAlloc.ex_state]. rewrite PositiveMap.gempty. reflexivity.
Qed.

Lemma ex_layout fat32 hint : fat_layout (ex_vol fat32 hint) 200.
Proof.
  constructor.
  - destruct fat32; constructor; try (intros _); vm_compute; reflexivity.
  - intros sf E. inversion E; subst sf. cbn. lia.
  - destruct fat32; vm_compute; reflexivity.
  - intros sf E. inversion E; subst sf. vm_compute. discriminate.
  - cbn. lia.
  - intros sf E. inversion E; subst sf. cbn. lia.
Qed.

Example alloc_pre_example :
  alloc_pre (PrAlloc.ex_state (ex_vol true (Some 5))) 0 (ex_vol true (Some 5)) 200 /\
  alloc_pre (PrAlloc.ex_state (ex_vol false None)) 0 (ex_vol false None) 200.
Proof.
  split; (apply alloc_pre_blank; [apply ex_layout|]).
  - intros c H. inversion H; subst. lia.
  - intros c H. discriminate H.
Qed.

(* and the model really runs there: cluster 5 (the hint) is handed out and linked from
   cluster 2; the writes are FAT sector 2080 and its copy 2448 (5 := end of chain), the eight
   blocks 3072..3079 of cluster 5, then 2080 and 2448 again (2 -> 5); the new hint is 6 *)
Example alloc_run_example :
  match alloc_cluster 0 (Some 2) true (PrAlloc.ex_state (ex_vol true (Some 5))) with
  | (Ok c, s') =>
      c = 5 /\
      rev (dwrites (s_trace s')) =
        [2080; 2448; 3072; 3073; 3074; 3075; 3076; 3077; 3078; 3079; 2080; 2448] /\
      fat_get (s_disk s') (ex_vol true (Some 5)) 0 5 = 268435455 /\
      fat_get (s_disk s') (ex_vol true (Some 5)) 0 2 = 5 /\
      option_map v_next_free (nth_error (s_vols s') 0) = Some (Some 6)
  | _ => False
  end.
Proof. vm_compute. repeat split; reflexivity. Qed.

(* ================================================================== 8. assumptions *)
Print Assumptions alloc_cluster_total.
Print Assumptions alloc_cluster_effect.
Print Assumptions alloc_cluster_effect_inuse.
Print Assumptions alloc_cluster_keeps_pre.
Print Assumptions alloc_cluster_data_frame.
Print Assumptions alloc_cluster_write_order.
Print Assumptions alloc_cluster_write_contents.
Print Assumptions alloc_cluster_nospace.
Print Assumptions alloc_cluster_succeeds.
Print Assumptions alloc_pre_example.
