(* C04, second sentence (end): the BYTES a write stores, both FAT copies, the example.
     write_range       Write / IoWrite through a writable handle on a file that has clusters: read as one
                       byte string, the OLD clusters of the file hold afterwards the old bytes with a prefix
                       `stored` of the request put at the offset - byte i is stored[i - offset] inside
                       [offset, offset + |stored|) and is the OLD byte everywhere else, up to the end of the
                       last old cluster (the slack behind the end of the file included);
     fat_frame_copies  with identical FAT copies before the call (PrC16Def.mirror_inv): every entry of the
                       SECOND copy has after the call the value of the first, so (a) / (b) of
                       PrFrameHist4.fat_frame hold for it as well;
     frame_example     PrGlobalDef's example state, a Write of 1200 bytes through the handle whose chain is
                       the pending cluster 6: exactly the FAT entries 6 (the end of that chain) and 7 (the
                       cluster allocated) differ, of all 256 entries of the FAT sector; exactly the blocks 38,
                       39 (cluster 6) and 40 (cluster 7) differ, of all blocks of the volume; the hypotheses
                       of the frame theorems hold and their conclusions say so. *)
From Coq Require Import NArith ZArith List Bool Lia Arith ZifyClasses ZifyInst Zify Permutation.
From SdFs Require Import FsTypes FsBase FsFat FsMgr FsLemmas PrBase PrFat PrAlloc PrDir PrSeek PrAllocEffect
  PrRw PrWrite PrFileSeq PrMulti PrEntry PrChain PrCount PrWf PrOpenClose PrGlobalDef PrGlobalWrite
  PrFrameHist PrFrameHist4.
From SdFs Require PrModes PrHandles PrCrash PrBounds PrOrder PrGlobal PrGlobalOpen2 PrC16Def PrC16.
Import ListNotations.
Open Scope N_scope.
Local Arguments N.mul : simpl never.
Local Arguments N.add : simpl never.
Local Arguments N.sub : simpl never.
Local Arguments N.div : simpl never.
Local Arguments N.modulo : simpl never.
Local Arguments N.land : simpl never.
Local Arguments N.lor : simpl never.
Local Arguments N.min : simpl never.
Local Arguments N.max : simpl never.
Local Ltac Zify.zify_post_hook ::= Z.to_euclidean_division_equations.

(* ================================================================== 1. the bytes of the old clusters *)
Lemma file_bytes_app d v a b : file_bytes d v (a ++ b) = file_bytes d v a ++ file_bytes d v b.
Proof. unfold file_bytes. apply flat_map_app. Qed.

Lemma get8_app_l (a b : list N) i : (N.to_nat i < length a)%nat -> get8 (a ++ b) i = get8 a i.
Proof. intros H. unfold get8. apply app_nth1. exact H. Qed.

(* a prefix of a prefix *)
Lemma firstn_firstn_ex {A} k n (l : list A) : exists m, firstn k (firstn n l) = firstn m l.
Proof. exists (Nat.min k n). apply firstn_firstn. Qed.

Theorem ff_write_bytes fsz h data s fi f vi v ch o s' :
  mw_pre fsz h s fi f vi v ch -> mode_eqb (f_mode f) ReadOnly = false -> mgr_write h data s = (o, s') ->
  exists stored, (exists k, stored = firstn k data) /\
    forall i, i < N.of_nat (length (file_bytes (s_disk s) v ch)) ->
      get8 (file_bytes (s_disk s') v ch) i =
      if (f_offset f <=? i) && (i <? f_offset f + N.of_nat (length stored))
      then get8 stored (i - f_offset f) else get8 (file_bytes (s_disk s) v ch) i.
Proof.
  intros Hmw Hmode Hrun.
  pose proof Hmw as [Hl Hh Hfi Hvol Hpre Hfit Hspc Hwf Hchain Hoff Hsize H32].
  rewrite (mgr_write_unfold h data s fi f vi Hl Hh Hfi Hvol), Hmode in Hrun.
  destruct (mw_prepare fsz h data s fi f vi v ch Hmw)
    as [(sD & fD & vD & chD & Prep & Hrun')|(s1 & Hrun' & _ & _ & Hd & _)].
  2:{ (* NotEnoughSpace: nothing written *)
      rewrite Hrun' in Hrun. injection Hrun as _ <-. exists []. split; [exists 0%nat; reflexivity|].
      intros i Hi. cbn [length]. rewrite Hd.
      replace ((f_offset f <=? i) && (i <? f_offset f + N.of_nat 0)) with false; [reflexivity|].
      symmetry. apply andb_false_iff. destruct (N.leb_spec (f_offset f) i); [right; apply N.ltb_ge; lia|left; reflexivity]. }
  cbv zeta in Hrun'. rewrite Hrun' in Hrun. clear Hrun'.
  set (tw := N.min (N.of_nat (length data)) (MAX_FILE_SIZE - f_offset f)) in *.
  set (clip := firstn (N.to_nat tw) data) in *.
  assert (Hclip_len : N.of_nat (length clip) = tw) by (unfold clip; rewrite firstn_length; unfold tw; lia).
  pose proof (pr_off _ _ _ _ _ _ _ _ _ _ _ Prep) as PoffD.
  assert (HtwM : f_offset f + tw <= MAX_FILE_SIZE) by (unfold tw, MAX_FILE_SIZE, U32 in *; clear - Hoff H32; lia).
  destruct (write_loop_spec fsz vi fi (e_cluster (f_entry fD)) (N.to_nat (tw / 512) + 3) clip vD chD fD sD
              (pr_inv _ _ _ _ _ _ _ _ _ _ _ Prep))
    as (o1 & s1 & v1 & ch1 & f1 & stored & Hloop & P & Hres).
  { rewrite PoffD, Hclip_len. unfold MAX_FILE_SIZE, U32 in *. clear - HtwM. lia. }
  { clear. lia. }
  { intros _. rewrite PoffD, Hclip_len. clear. lia. }
  (* the device after the call is the device after the loop *)
  assert (Ed : s_disk s' = s_disk s1).
  { unfold bind in Hrun. rewrite Hloop in Hrun. destruct o1 as [u|e| |].
    - exact (ff_mw_tail fi s1 o s' Hrun).
    - injection Hrun as _ <-. reflexivity.
    - injection Hrun as _ <-. reflexivity.
    - injection Hrun as _ <-. reflexivity. }
  assert (Hst : exists k, stored = firstn k data).
  { destruct Hres as [(_ & ->)|(_ & k & _ & -> & _)]; [exists (N.to_nat tw); reflexivity|].
    unfold clip. apply firstn_firstn_ex. }
  exists stored. split; [exact Hst|]. intros i Hi.
  destruct (pr_chain _ _ _ _ _ _ _ _ _ _ _ Prep) as [(EchD & EdD)|(Ech0 & _)].
  2:{ subst ch. cbn [file_bytes flat_map length] in Hi. lia. }
  subst chD.
  destruct (pr_vol _ _ _ _ _ _ _ _ _ _ _ Prep) as (nf0 & fc0 & EvD). subst vD.
  destruct P as [I1 (nf1 & fc1 & Ev1) (e1 & Ee1) _ (pad & Lp & FB) O1 _ _ _ _ _ _ _]. subst v1 ch1.
  rewrite !file_bytes_rebook in FB. rewrite EdD in FB. rewrite PoffD in FB, O1.
  change (v_spc (vol_rebook v nf0 fc0)) with (v_spc v) in Lp.
  set (X := (N.to_nat (v_spc v) * 512)%nat) in *.
  set (A0 := file_bytes (s_disk s) v ch) in *.
  assert (HlA0 : length A0 = (length ch * X)%nat) by (apply file_bytes_length; exact Hwf).
  assert (HlA1 : length (file_bytes (s_disk s1) v ch) = (length ch * X)%nat)
    by (apply file_bytes_length; exact (wi_wf _ _ _ _ _ _ _ _ I1)).
  assert (Hlen1 : length (A0 ++ pad) = (length (ch ++ e1) * X)%nat).
  { rewrite app_length, HlA0, Lp, !app_length.
    replace (length ch + length e1 - length ch)%nat with (length e1) by lia. lia. }
  assert (Hb1 : (N.to_nat (f_offset f) + length stored <= length (ch ++ e1) * X)%nat).
  { pose proof (wi_off _ _ _ _ _ _ _ _ I1) as P1. pose proof (wi_size _ _ _ _ _ _ _ _ I1) as P2.
    change (bytes_per_cluster (vol_rebook (vol_rebook v nf0 fc0) nf1 fc1)) with (v_spc v * 512) in P2.
    rewrite O1 in P1. unfold X. clear - P1 P2. lia. }
  rewrite Ed. rewrite file_bytes_app in FB.
  assert (Hi' : (N.to_nat i < length ch * X)%nat) by (rewrite <- HlA0; clear - Hi; lia).
  rewrite <- (get8_app_l (file_bytes (s_disk s1) v ch) (file_bytes (s_disk s1) v e1) i) by (rewrite HlA1; exact Hi').
  rewrite FB.
  destruct (N.leb_spec (f_offset f) i) as [Hle|Hlt]; cbn [andb].
  - destruct (N.ltb_spec i (f_offset f + N.of_nat (length stored))) as [Hin|Hout].
    + replace i with (f_offset f + N.of_nat (N.to_nat (i - f_offset f))) at 1 by lia.
      rewrite get8_set_bytes_inside; [|rewrite Hlen1; exact Hb1|lia].
      unfold get8. reflexivity.
    + rewrite get8_set_bytes_outside; [|rewrite Hlen1; exact Hb1|right; exact Hout].
      apply get8_app_l. rewrite HlA0. exact Hi'.
  - rewrite get8_set_bytes_outside; [|rewrite Hlen1; exact Hb1|left; exact Hlt].
    apply get8_app_l. rewrite HlA0. exact Hi'.
Qed.

(* at the level of the API call *)
Theorem write_range fsz vid h data s r s' vi v bl rch T fi f :
  fs_inv_at fsz vid s vi v bl rch T -> PrSeek.resolves s h fi f -> mode_eqb (f_mode f) ReadOnly = false ->
  step (Write h data) s = (r, s') \/ (data <> [] /\ step (IoWrite h data) s = (r, s')) ->
  let ch := fchain (s_disk s) v f in
  exists stored, (exists k, stored = firstn k data) /\
    forall i, i < N.of_nat (length (file_bytes (s_disk s) v ch)) ->
      get8 (file_bytes (s_disk s') v ch) i =
      if (f_offset f <=? i) && (i <? f_offset f + N.of_nat (length stored))
      then get8 stored (i - f_offset f) else get8 (file_bytes (s_disk s) v ch) i.
Proof.
  intros Hat Hr Hmode Hs ch.
  pose proof (gw_mw_pre fsz vid s vi v bl rch T Hat h fi f Hr) as Hmw.
  assert (Hrun : exists o s1, mgr_write h data s = (o, s1) /\ s' = s1).
  { destruct Hs as [Hs|(Hne & Hs)]; cbn [step] in Hs.
    - unfold lift, bind in Hs. destruct (mgr_write h data s) as [o s1]. exists o, s1. split; [reflexivity|].
      destruct o; injection Hs as _ <-; reflexivity.
    - unfold io_write in Hs. destruct data as [|x t]; [contradiction|].
      unfold lift, bind in Hs. destruct (mgr_write h (x :: t) s) as [o s1]. exists o, s1. split; [reflexivity|].
      destruct o; injection Hs as _ <-; reflexivity. }
  destruct Hrun as (o & s1 & Hrun & ->).
  exact (ff_write_bytes fsz h data s fi f vi v _ o s1 Hmw Hmode Hrun).
Qed.

(* ================================================================== 2. both FAT copies *)
(* identical copies stay identical (PrC16.all_steps_c16): every entry of the second copy has, after the
   call, the value the first copy has - the frame of the first copy is the frame of both *)
Theorem fat_frame_copies fsz vid o s r s' vi v bl rch T :
  fs_inv_at fsz vid s vi v bl rch T -> id_fresh s -> op_known_ok o -> step o s = (r, s') ->
  fat_mirrored (s_disk s) v fsz ->
  forall c, fidx v fsz c ->
    fat_get (s_disk s) v 1 c = fat_get (s_disk s) v 0 c /\ fat_get (s_disk s') v 1 c = fat_get (s_disk s') v 0 c.
Proof.
  intros Hat Hid Hk Hs Hm c Hc.
  assert (Hinv : fs_inv fsz vid s) by (exists vi, v, bl, rch, T; exact Hat).
  pose proof (fi_single _ _ _ _ _ _ _ _ Hat) as Ev.
  destruct (PrC16.all_steps_c16 fsz vid o s r s' Hinv Hid Hk Hs) as (Km & _).
  assert (Hmi : PrC16Def.mirror_inv fsz s) by (intros w Hw; rewrite Ev in Hw; destruct Hw as [<-|[]]; exact Hm).
  specialize (Km Hmi).
  destruct (inv_at_after fsz vid o s r s' vi v bl rch T Hat Hid Hk Hs) as (vi' & v' & bl' & rch' & T' & Hat' & G).
  assert (Hm' : fat_mirrored (s_disk s') v fsz).
  { specialize (Km v' ltac:(rewrite (fi_single _ _ _ _ _ _ _ _ Hat'); left; reflexivity)).
    destruct G as (a & b & ->). exact Km. }
  split; [exact (proj1 (fat_mirrored_get _ v fsz c Hm Hc))|exact (proj1 (fat_mirrored_get _ v fsz c Hm' Hc))].
Qed.

(* ================================================================== 3. the example *)
Fixpoint nrange (n : nat) (from : N) : list N :=
  match n with O => [] | S k => from :: nrange k (from + 1) end.

Definition ex_op : op := Write 7 (repeat 9 1200).
Definition ex_s' : st := snd (step ex_op gx_state).
(* all 256 entries of the one FAT sector / all blocks of the device up to the end of the partition *)
Definition ex_changed_entries : list N :=
  filter (fun c => negb (fat_get (s_disk ex_s') exd_vol 0 c =? fat_get (s_disk gx_state) exd_vol 0 c)) (nrange 256 0).
Definition ex_changed_blocks : list N :=
  filter (fun j => negb (list_eqb (disk_get (s_disk ex_s') j) (disk_get (s_disk gx_state) j))) (nrange 1100 0).

Example frame_example :
  step ex_op gx_state = (Ok RUnit, ex_s') /\
  (* exactly the entries of the end of the target's chain and of the new cluster differ *)
  ex_changed_entries = [6; 7] /\
  (* the FAT sector, the two blocks of cluster 6, the first block of cluster 7 *)
  ex_changed_blocks = [11; 38; 39; 40] /\
  chain_l (s_disk gx_state) exd_vol 6 = [6] /\ chain_l (s_disk ex_s') exd_vol 6 = [6; 7] /\
  free_cl (s_disk gx_state) exd_vol 7 /\
  cluster_blocks exd_vol 6 = [38; 39] /\ cluster_blocks exd_vol 7 = [40; 41] /\
  (* the hypotheses of fat_frame_all / data_frame_all hold, 6 is a target and a (pending) head *)
  id_fresh gx_state /\ op_known_ok ex_op /\ targets gx_state exd_vol ex_op 6 /\
  (exists vi bl rch T, fs_inv_at 1 0 gx_state vi exd_vol bl rch T /\
     In 6 (heads exd_vol T ++ pend_of gx_state exd_vol)) /\
  (* and their conclusions, instantiated *)
  (forall c, fidx exd_vol 1 c -> fat_get (s_disk ex_s') exd_vol 0 c <> fat_get (s_disk gx_state) exd_vol 0 c ->
     2 <= c /\ c < v_clusters exd_vol + 2) /\
  (forall j, PrGlobalOpen2.off_fat exd_vol 1 j -> disk_get (s_disk ex_s') j <> disk_get (s_disk gx_state) j ->
     (exists h, targets gx_state exd_vol ex_op h /\ In j (data_blocks exd_vol (chain_l (s_disk gx_state) exd_vol h))) \/
     (exists c, free_cl (s_disk gx_state) exd_vol c /\ In j (cluster_blocks exd_vol c))).
Proof.
  assert (E : step ex_op gx_state = (Ok RUnit, ex_s')) by (vm_compute; reflexivity).
  split; [exact E|].
  split; [vm_compute; reflexivity|]. split; [vm_compute; reflexivity|].
  split; [vm_compute; reflexivity|]. split; [vm_compute; reflexivity|].
  split; [repeat split; vm_compute; congruence|].
  split; [vm_compute; reflexivity|]. split; [vm_compute; reflexivity|].
  split; [exact PrGlobalOpen2.gx_fresh|]. split; [repeat split|].
  assert (Ht : targets gx_state exd_vol ex_op 6).
  { cbn [targets ex_op]. exists gx_fileB. split; [split; [left; reflexivity|reflexivity]|reflexivity]. }
  split; [exact Ht|].
  destruct (proj1 fs_inv_example) as (vi & v & bl & rch & T & Hat).
  assert (Ev : v = exd_vol).
  { pose proof (fi_single _ _ _ _ _ _ _ _ Hat) as Es. change (s_vols gx_state) with [exd_vol] in Es. injection Es as <-. reflexivity. }
  subst v.
  assert (H6 : In 6 (heads exd_vol T ++ pend_of gx_state exd_vol)).
  { apply in_or_app. right. rewrite (proj2 fs_inv_example). left. reflexivity. }
  split; [exists vi, bl, rch, T; split; [exact Hat|exact H6]|].
  split.
  - intros c Hc Hne.
    destruct (fat_frame_all 1 0 ex_op gx_state _ ex_s' vi exd_vol bl rch T Hat PrGlobalOpen2.gx_fresh ltac:(repeat split) E)
      as (vi' & v' & bl' & rch' & T' & _ & _ & Ha & _).
    destruct (Ha c Hc Hne) as (C1 & C2 & _). split; assumption.
  - intros j Hj Hne.
    destruct (data_frame_all 1 0 ex_op gx_state _ ex_s' vi exd_vol bl rch T Hat PrGlobalOpen2.gx_fresh ltac:(repeat split) E) as (Ha & _).
    destruct (Ha j Hj Hne) as [(_ & h & _ & Hth & Hin)|[H|[(off & b & (tg & wch & Hown) & _)|(Hi & _)]]].
    + left. exists h. split; assumption.
    + right. exact H.
    + cbn [op_owns ex_op] in Hown. destruct Hown as (Hsl & _). discriminate Hsl.
    + discriminate Hi.
Qed.

Print Assumptions write_range.
Print Assumptions fat_frame_copies.
Print Assumptions frame_example.
