(* PROOFS about the second part of the API model (FsExt.v), part 1: facts that need no invariant.

   1  T1  iterate_dir_raw simulates iterate_dir_all (same final state, outcome mapped with map fst)
   2  T2  what the raw walk delivers (raw_slots_valid); lfn_fold versus LfnModel.listing_from
   3  T3  VolumeManager::iterate_dir_lfn versus iterate_dir (C06_iterate_lfn_entries and friends)
   4  T7  the RAII wrappers: drop = close with the result discarded; File::length/offset/is_eof
          succeed on an open handle with the lock free, and PANIC on a stale handle or under the lock

   Everything is for ALL states and inputs.  The model files are untouched. *)
From Coq Require Import NArith ZArith List Bool Lia Arith FMapPositive.
From SdFs Require Import FsTypes FsBase FsFat FsMgr FsExt FsLemmas PrBase PrAlloc PrDir.
From SdFs Require PrHandles PrSeek PrModes PrFault2.
From SdLfn Require LfnModel LfnSpec LfnListing.
Import ListNotations.
Open Scope N_scope.
Local Arguments N.mul : simpl never.
Local Arguments N.add : simpl never.
Local Arguments N.sub : simpl never.
Local Arguments N.div : simpl never.
Local Arguments N.modulo : simpl never.
Local Arguments N.land : simpl never.
Local Arguments N.lor : simpl never.

(* ================================================================== 0. outcomes, simulation of computations *)
Definition omap {A B} (f : A -> B) (o : outcome A) : outcome B :=
  match o with Ok a => Ok (f a) | Err e => Err e | Panic => Panic | OutOfFuel => OutOfFuel end.

(* m is m' with f applied to the result: same final state from every state, every outcome *)
Definition osim {A B} (f : A -> B) (m' : M A) (m : M B) : Prop :=
  forall s, m s = (omap f (fst (m' s)), snd (m' s)).

Lemma osim_ret {A B} (f : A -> B) a : osim f (ret a) (ret (f a)).
Proof. intros s. reflexivity. Qed.
Lemma osim_fail {A B} (f : A -> B) e : osim f (fail e) (fail e).
Proof. intros s. reflexivity. Qed.
Lemma osim_panic {A B} (f : A -> B) : osim f panic panic.
Proof. intros s. reflexivity. Qed.
Lemma osim_oof {A B} (f : A -> B) : osim f out_of_fuel out_of_fuel.
Proof. intros s. reflexivity. Qed.

Lemma osim_bind2 {A' A B' B} (g : A' -> A) (f : B' -> B) (m' : M A') (m : M A) (k' : A' -> M B') (k : A -> M B) :
  osim g m' m -> (forall a', osim f (k' a') (k (g a'))) -> osim f (bind m' k') (bind m k).
Proof.
  intros Hm Hk s. unfold bind. rewrite (Hm s). destruct (m' s) as [[a'|e| |] s1]; cbn [omap fst snd]; try reflexivity.
  apply Hk.
Qed.

Lemma osim_bind {A B' B} (f : B' -> B) (m : M A) (k' : A -> M B') (k : A -> M B) :
  (forall a, osim f (k' a) (k a)) -> osim f (bind m k') (bind m k).
Proof.
  intros Hk s. unfold bind. destruct (m s) as [[a|e| |] s1]; cbn [omap fst snd]; try reflexivity. apply Hk.
Qed.

(* ================================================================== 1. T1: the raw walk simulates the walk *)
Definition pmap (p : bool * list rawent) : bool * list dirent := (fst p, map fst (snd p)).

Lemma iter_slots_raw_sim n fat32 b blk : forall i acc,
  iter_slots n fat32 b blk i (map fst acc) = pmap (iter_slots_raw n fat32 b blk i acc).
Proof.
  induction n as [|n IH]; intros i acc; cbn [iter_slots iter_slots_raw]; [reflexivity|]. cbv zeta.
  destruct (is_end (slot b i)); [reflexivity|].
  destruct (is_valid (slot b i)); [|apply IH].
  rewrite <- IH. reflexivity.
Qed.

Lemma iter_blocks_raw_sim fat32 : forall n i acc,
  osim pmap (iter_blocks_raw n fat32 i acc) (iter_blocks n fat32 i (map fst acc)).
Proof.
  induction n as [|n IH]; intros i acc; cbn [iter_blocks iter_blocks_raw]; [apply (osim_ret pmap (false, acc))|].
  apply osim_bind. intros b. rewrite iter_slots_raw_sim.
  destruct (iter_slots_raw 16 fat32 b i 0 acc) as [[|] acc']; cbn [pmap fst snd].
  - apply (osim_ret pmap (true, acc')).
  - apply IH.
Qed.

Lemma iter_walk_raw_sim vi : forall fuel c acc,
  osim (map fst) (iter_walk_raw fuel vi c acc) (iter_walk fuel vi c (map fst acc)).
Proof.
  induction fuel as [|f IH]; intros c acc; cbn [iter_walk iter_walk_raw]; [apply osim_oof|].
  apply osim_bind. intros v. apply osim_bind. intros first. cbv zeta. apply osim_bind. intros _.
  apply (osim_bind2 pmap); [apply iter_blocks_raw_sim|]. intros [stop acc']. cbn [pmap fst snd].
  destruct stop; [apply osim_ret|].
  destruct (negb (v_fat32 v) && (c =? CL_ROOT)); [apply osim_ret|].
  apply osim_bind. intros nc. destruct nc as [n|e]; [apply IH|].
  destruct e; try apply osim_ret. apply osim_fail.
Qed.

Lemma iterate_dir_raw_osim vi c : osim (map fst) (iterate_dir_raw vi c) (iterate_dir_all vi c).
Proof.
  unfold iterate_dir_raw, iterate_dir_all. apply osim_bind. intros v.
  apply (osim_bind2 (map fst)); [exact (iter_walk_raw_sim vi (walk_fuel v) _ [])|].
  intros r s. unfold ret. cbn [fst snd omap]. rewrite map_rev. reflexivity.
Qed.

(* T1.  From every state: the two walks end in the SAME state, and the outcome of iterate_dir_all
   is the outcome of iterate_dir_raw with the raw slots dropped (Ok l |-> Ok (map fst l); Err,
   Panic and OutOfFuel identical). *)
Theorem iterate_dir_raw_sim : forall vi c s,
  iterate_dir_all vi c s = (omap (map fst) (fst (iterate_dir_raw vi c s)), snd (iterate_dir_raw vi c s)).
Proof. intros vi c s. apply iterate_dir_raw_osim. Qed.

Corollary iterate_dir_raw_ok vi c s raw s' : iterate_dir_raw vi c s = (Ok raw, s') ->
  iterate_dir_all vi c s = (Ok (map fst raw), s').
Proof. intros E. rewrite iterate_dir_raw_sim, E. reflexivity. Qed.

Corollary iterate_dir_raw_state vi c s : snd (iterate_dir_raw vi c s) = snd (iterate_dir_all vi c s).
Proof. rewrite iterate_dir_raw_sim. reflexivity. Qed.

(* ================================================================== 2. T2: what the raw walk delivers *)
(* one delivered pair: the slot is a valid one (not the end marker, not deleted) and the entry is
   the slot decoded (with the position of the slot) *)
Definition raw_ok (fat32 : bool) (r : rawent) : Prop :=
  is_valid (snd r) = true /\ is_end (snd r) = false /\
  exists blk off, fst r = get_entry fat32 (snd r) blk off.

Lemma slot_valid_not_end sl : is_valid sl = true -> is_end sl = false.
Proof. unfold is_valid. intros H. apply andb_true_iff in H. destruct H as [H _]. apply negb_true_iff in H. exact H. Qed.

Lemma raw_ok_fields fat32 r : raw_ok fat32 r ->
  e_name (fst r) = firstn 11 (snd r) /\ e_attr (fst r) = get8 (snd r) 11 /\
  fst r = get_entry fat32 (snd r) (e_block (fst r)) (e_offset (fst r)).
Proof. intros (_ & _ & blk & off & E). rewrite E. repeat split; reflexivity. Qed.

Lemma iter_slots_raw_ok n fat32 b blk : forall i acc, Forall (raw_ok fat32) acc ->
  Forall (raw_ok fat32) (snd (iter_slots_raw n fat32 b blk i acc)).
Proof.
  induction n as [|n IH]; intros i acc Hacc; cbn [iter_slots_raw]; [exact Hacc|]. cbv zeta.
  destruct (is_end (slot b i)) eqn:He; [exact Hacc|].
  destruct (is_valid (slot b i)) eqn:Hv; [|apply IH; exact Hacc].
  apply IH. constructor; [|exact Hacc]. split; [exact Hv|]. split; [exact He|]. exists blk, (i * 32). reflexivity.
Qed.

Lemma xbind_ok_inv {A B} (m : M A) (k : A -> M B) s b s' : bind m k s = (Ok b, s') ->
  exists a s1, m s = (Ok a, s1) /\ k a s1 = (Ok b, s').
Proof.
  unfold bind. destruct (m s) as [[a|e| |] s1]; intros E; try discriminate. exists a, s1. split; [reflexivity|exact E].
Qed.

Lemma iter_blocks_raw_ok fat32 : forall n i acc s p s', Forall (raw_ok fat32) acc ->
  iter_blocks_raw n fat32 i acc s = (Ok p, s') -> Forall (raw_ok fat32) (snd p).
Proof.
  induction n as [|n IH]; intros i acc s p s' Hacc E; cbn [iter_blocks_raw] in E.
  - injection E as <- _. exact Hacc.
  - apply xbind_ok_inv in E. destruct E as (b & s1 & _ & E).
    pose proof (iter_slots_raw_ok 16 fat32 b i 0 acc Hacc) as H1.
    destruct (iter_slots_raw 16 fat32 b i 0 acc) as [[|] acc']; cbn [snd] in H1.
    + injection E as <- _. exact H1.
    + exact (IH _ _ _ _ _ H1 E).
Qed.

(* the walk leaves the three tables alone *)
Import PrHandles.
Lemma fixes_add32 a b : fixes the_tables (add32 a b).
Proof. unfold add32. repeat fixes_step. Qed.
Lemma fixes_sub32 a b : fixes the_tables (sub32 a b).
Proof. unfold sub32. repeat fixes_step. Qed.
Lemma fixes_mul32 a b : fixes the_tables (mul32 a b).
Proof. unfold mul32. repeat fixes_step. Qed.
Lemma fixes_cluster_to_block v c : fixes the_tables (cluster_to_block v c).
Proof.
  pose proof fixes_add32. pose proof fixes_sub32. pose proof fixes_mul32.
  unfold cluster_to_block. repeat fixes_step.
Qed.
Lemma fixes_next_cluster v c : fixes the_tables (next_cluster v c).
Proof.
  pose proof fixes_add32. pose proof fixes_cache_read.
  unfold next_cluster, fat_block. repeat fixes_step.
Qed.
Lemma fixes_iter_blocks_raw fat32 : forall n i acc, fixes the_tables (iter_blocks_raw n fat32 i acc).
Proof.
  pose proof fixes_cache_read.
  induction n as [|n IH]; intros i acc; cbn [iter_blocks_raw]; repeat fixes_step; try apply IH.
Qed.

Lemma tables_vols s s' : the_tables s' = the_tables s -> s_vols s' = s_vols s.
Proof. unfold the_tables. intros E. injection E as E _ _. exact E. Qed.

Lemma iter_walk_raw_ok vi v : forall fuel c acc s l s', nth_error (s_vols s) vi = Some v ->
  Forall (raw_ok (v_fat32 v)) acc ->
  iter_walk_raw fuel vi c acc s = (Ok l, s') -> Forall (raw_ok (v_fat32 v)) l.
Proof.
  induction fuel as [|f IH]; intros c acc s l s' Hvi Hacc E; cbn [iter_walk_raw] in E; [discriminate|].
  apply xbind_ok_inv in E. destruct E as (v0 & s1 & E0 & E).
  rewrite get_vol_eq, Hvi in E0. injection E0 as <- <-.
  apply xbind_ok_inv in E. destruct E as (first & s1 & E1 & E). cbv zeta in E.
  pose proof (tables_vols _ _ (fixes_cluster_to_block _ _ _ _ _ E1)) as V1.
  apply xbind_ok_inv in E. destruct E as (x & s2 & E2 & E).
  pose proof (tables_vols _ _ (fixes_add32 _ _ _ _ _ E2)) as V2.
  apply xbind_ok_inv in E. destruct E as ([stop acc'] & s3 & E3 & E).
  pose proof (tables_vols _ _ (fixes_iter_blocks_raw _ _ _ _ _ _ _ E3)) as V3.
  pose proof (iter_blocks_raw_ok _ _ _ _ _ _ _ Hacc E3) as H3. cbn [snd] in H3.
  destruct stop; [injection E as <- _; exact H3|].
  destruct (negb (v_fat32 v) && (c =? CL_ROOT)); [injection E as <- _; exact H3|].
  apply xbind_ok_inv in E. destruct E as (nc & s4 & E4 & E).
  assert (V4 : s_vols s4 = s_vols s3).
  { unfold try in E4. destruct (next_cluster v c s3) as [o5 s5] eqn:E5.
    pose proof (tables_vols _ _ (fixes_next_cluster _ _ _ _ _ E5)) as V5.
    destruct o5; inversion E4; subst; exact V5. }
  destruct nc as [n|e].
  - apply (IH n acc' s4 l s'); [congruence|exact H3|exact E].
  - destruct e; try (injection E as <- _; exact H3); discriminate.
Qed.

(* T2.  Every pair (e, sl) delivered by a successful raw walk: sl is a valid slot (first byte
   neither 0x00 nor 0xE5), e is sl decoded with the FAT type of the volume record at index vi at the
   position (e_block e, e_offset e) of the slot; hence its 11 name bytes and its attribute byte are
   those of the slot. *)
Theorem raw_slots_valid : forall vi v c s raw s',
  nth_error (s_vols s) vi = Some v -> iterate_dir_raw vi c s = (Ok raw, s') ->
  Forall (fun r : rawent =>
    is_valid (snd r) = true /\ is_end (snd r) = false /\
    (exists blk off, fst r = get_entry (v_fat32 v) (snd r) blk off) /\
    e_name (fst r) = firstn 11 (snd r) /\ e_attr (fst r) = get8 (snd r) 11) raw.
Proof.
  intros vi v c s raw s' Hvi E. unfold iterate_dir_raw in E.
  apply xbind_ok_inv in E. destruct E as (v0 & s1 & E0 & E).
  rewrite get_vol_eq, Hvi in E0. injection E0 as <- <-.
  apply xbind_ok_inv in E. destruct E as (r & s2 & E1 & E). injection E as <- _.
  pose proof (iter_walk_raw_ok vi v _ _ [] s r s2 Hvi (Forall_nil _) E1) as H.
  apply Forall_rev. apply (Forall_impl _ (P := raw_ok (v_fat32 v))); [|exact H].
  intros a Ha. pose proof (raw_ok_fields _ _ Ha) as (F1 & F2 & _). destruct Ha as (A1 & A2 & A3). auto.
Qed.

(* the same without naming the volume record: enough for everything about names and attributes *)
Definition raw_wf (r : rawent) : Prop :=
  is_valid (snd r) = true /\ is_end (snd r) = false /\
  e_name (fst r) = firstn 11 (snd r) /\ e_attr (fst r) = get8 (snd r) 11.

Corollary raw_slots_wf vi c s raw s' : iterate_dir_raw vi c s = (Ok raw, s') -> Forall raw_wf raw.
Proof.
  intros E. pose proof E as E'. unfold iterate_dir_raw in E'.
  apply xbind_ok_inv in E'. destruct E' as (v & s1 & E0 & _).
  rewrite get_vol_eq in E0. destruct (nth_error (s_vols s) vi) as [v0|] eqn:Hvi; [|discriminate].
  apply (Forall_impl _ (P := fun r : rawent =>
    is_valid (snd r) = true /\ is_end (snd r) = false /\
    (exists blk off, fst r = get_entry (v_fat32 v0) (snd r) blk off) /\
    e_name (fst r) = firstn 11 (snd r) /\ e_attr (fst r) = get8 (snd r) 11));
    [|exact (raw_slots_valid vi v0 c s raw s' Hvi E)].
  intros a (A1 & A2 & _ & A4 & A5). repeat split; assumption.
Qed.

(* ---- the bridge between the two transcriptions of OnDiskDirEntry ---- *)
Lemma is_end_bridge sl : LfnModel.is_end sl = is_end sl.
Proof. reflexivity. Qed.
Lemma is_valid_bridge sl : LfnModel.is_valid sl = is_valid sl.
Proof. reflexivity. Qed.
Lemma is_lfn_bridge sl : LfnModel.is_lfn sl = is_lfn (get8 sl 11).
Proof. reflexivity. Qed.
Lemma slot_is_lfnb_bridge sl : LfnSpec.slot_is_lfnb sl = is_lfn (get8 sl 11).
Proof. reflexivity. Qed.

(* a block of bytes gives 32-byte slots of bytes *)
Lemma slot_is_slot b i : is_block b -> i < 16 -> LfnModel.is_slot (slot b i).
Proof.
  intros (Hlen & Hb) Hi. unfold slot, slice, LfnModel.is_slot. split.
  - rewrite firstn_length, skipn_length, Hlen. lia.
  - apply Forall_forall. intros x Hx. rewrite Forall_forall in Hb. apply Hb.
    apply In_firstn in Hx. clear - Hx. revert Hx. generalize (N.to_nat (i * 32)) as k. intros k. revert b.
    induction k as [|k IH]; intros b Hx; [exact Hx|]. destruct b as [|a b]; [destruct Hx|]. right. apply IH. exact Hx.
Qed.

(* what one call of the closure emits: nothing for a long-name slot, exactly one report - carrying
   the 11 name bytes of the slot - for every other slot *)
Lemma closure_out_shape ss st d ss' st' out : LfnModel.closure ss st d = LfnModel.Ok (ss', st', out) ->
  (LfnModel.is_lfn d = true /\ out = []) \/
  (LfnModel.is_lfn d = false /\ exists r, out = [(firstn 11 d, r)]).
Proof.
  unfold LfnModel.closure, LfnModel.lfn_contents. destruct (LfnModel.is_lfn d).
  - destruct (LfnModel.seq_update _ _ _ _ _ _) as [|[a b]]; [discriminate|]. intros E. injection E as _ _ <-. left. auto.
  - intros E. right. split; [reflexivity|]. destruct ss as [| |cs].
    + injection E as _ _ <-. eexists. reflexivity.
    + injection E as _ _ <-. eexists. reflexivity.
    + destruct (cs =? LfnModel.csum (firstn 11 d)).
      * destruct (LfnModel.lfn_as_str st); [discriminate|]. injection E as _ _ <-. eexists. reflexivity.
      * injection E as _ _ <-. eexists. reflexivity.
Qed.

(* T2, second half.  lfn_fold over the delivered pairs is the slot loop of the lfn group over the
   delivered slots: it fails (None = the closure panicked) exactly when listing_from panics, and
   otherwise reports the same (11 name bytes, long name) pairs, each next to its decoded entry. *)
Theorem lfn_fold_listing : forall raw ss st, Forall raw_wf raw ->
  match lfn_fold raw ss st, LfnModel.listing_from (map snd raw) ss st with
  | None, LfnModel.Panic => True
  | Some l, LfnModel.Ok outs => map (fun r : lfn_report => (e_name (fst r), snd r)) l = outs
  | _, _ => False
  end.
Proof.
  induction raw as [|[e sl] raw IH]; intros ss st Hraw; [reflexivity|].
  inversion Hraw as [|? ? (Hv & He & Hn & _) Hrest]; subst. cbn [fst snd] in *.
  cbn [lfn_fold map LfnModel.listing_from snd].
  rewrite is_end_bridge, is_valid_bridge, He, Hv.
  destruct (LfnModel.closure ss st sl) as [|[[ss' st'] out]] eqn:Ec; [exact I|].
  specialize (IH ss' st' Hrest).
  destruct (lfn_fold raw ss' st') as [outs|]; destruct (LfnModel.listing_from (map snd raw) ss' st') as [|outs'];
    try contradiction; [|exact I].
  subst outs'. rewrite map_app. f_equal. rewrite map_map. cbn [fst snd].
  destruct (closure_out_shape _ _ _ _ _ _ Ec) as [(_ & ->)|(_ & r & ->)]; [reflexivity|].
  cbn [map snd]. rewrite Hn. reflexivity.
Qed.

Corollary lfn_fold_none_iff raw ss st : Forall raw_wf raw ->
  (lfn_fold raw ss st = None <-> LfnModel.listing_from (map snd raw) ss st = LfnModel.Panic).
Proof.
  intros H. pose proof (lfn_fold_listing raw ss st H) as L.
  destruct (lfn_fold raw ss st); destruct (LfnModel.listing_from (map snd raw) ss st); try contradiction;
    split; intros; try discriminate; reflexivity.
Qed.

(* the delivered slots are a fixed point of the delivery filter of the specification side *)
Lemma delivered_raw raw : Forall raw_wf raw -> LfnSpec.delivered (map snd raw) = map snd raw.
Proof.
  induction 1 as [|[e sl] raw (Hv & He & _) _ IH]; [reflexivity|]. cbn [map snd LfnSpec.delivered] in *.
  unfold is_valid in Hv. apply andb_true_iff in Hv. destruct Hv as [_ Hv]. apply negb_true_iff in Hv.
  change (LfnSpec.slot_first sl =? 0) with (is_end sl). rewrite He.
  change (LfnSpec.slot_first sl =? 229) with (get8 sl 0 =? 229). rewrite Hv, IH. reflexivity.
Qed.

(* the entries reported: exactly the delivered entries that are no long-name slots, in order *)
Theorem lfn_fold_entries : forall raw ss st l, Forall raw_wf raw -> lfn_fold raw ss st = Some l ->
  map fst l = filter (fun e => negb (is_lfn (e_attr e))) (map fst raw).
Proof.
  induction raw as [|[e sl] raw IH]; intros ss st l Hraw E; cbn [lfn_fold] in E.
  - injection E as <-. reflexivity.
  - inversion Hraw as [|? ? (_ & _ & _ & Ha) Hrest]; subst. cbn [fst snd] in *.
    destruct (LfnModel.closure ss st sl) as [|[[ss' st'] out]] eqn:Ec; [discriminate|].
    destruct (lfn_fold raw ss' st') as [outs|] eqn:Ef; [|discriminate]. injection E as <-.
    rewrite map_app, (IH ss' st' outs Hrest Ef). cbn [map filter fst]. rewrite Ha, <- is_lfn_bridge.
    destruct (closure_out_shape _ _ _ _ _ _ Ec) as [(-> & ->)|(-> & r & ->)]; reflexivity.
Qed.

(* ================================================================== 3. T3: iterate_dir_lfn versus iterate_dir *)
(* the listing part of iterate_dir_lfn: resolve the handle, walk the directory *)
Definition raw_listing (d : N) : M (list rawent) :=
  di <- get_dir_by_id d ;;
  dd <- get_dir di ;;
  vi <- get_volume_by_id (d_vol dd) ;;
  iterate_dir_raw vi (d_cluster dd).

Definition shown_of (raw : list rawent) : list dirent :=
  filter (fun e => negb (is_lfn (e_attr e))) (map fst raw).

Lemma raw_listing_osim d : osim shown_of (raw_listing d) (iter_listing d).
Proof.
  unfold raw_listing, iter_listing. apply osim_bind. intros di. apply osim_bind. intros dd. apply osim_bind. intros vi.
  intros s. unfold bind. rewrite iterate_dir_raw_sim.
  destruct (iterate_dir_raw vi (d_cluster dd) s) as [[raw|e| |] s1]; reflexivity.
Qed.

Lemma raw_listing_wf d s raw s' : raw_listing d s = (Ok raw, s') -> Forall raw_wf raw.
Proof.
  unfold raw_listing. intros E.
  apply xbind_ok_inv in E. destruct E as (di & s1 & _ & E).
  apply xbind_ok_inv in E. destruct E as (dd & s2 & _ & E).
  apply xbind_ok_inv in E. destruct E as (vi & s3 & _ & E).
  exact (raw_slots_wf _ _ _ _ _ E).
Qed.

Lemma raw_listing_shape d s o s' : raw_listing d s = (o, s') -> same_tables_shape s s'.
Proof.
  intros E. pose proof (raw_listing_osim d s) as H. rewrite E in H. cbn [fst snd] in H.
  exact (keeps_frame _ (fun s0 => keeps_iter_listing s0 d) _ _ _ H).
Qed.

(* the buffer the caller hands in: nbytes bytes of storage *)
Definition lfn_buf (nbytes : N) : LfnModel.lfn := LfnModel.lfn_new (repeat 0 (N.to_nat nbytes)).

(* iterate_dir_lfn, spelled out: LockError under the lock; otherwise the listing, then the fold *)
Definition lfn_outcome (nbytes : N) (r : outcome (list rawent) * st) : outcome (list lfn_report) * st :=
  match r with
  | (Ok raw, s1) => match lfn_fold raw LfnModel.Waiting (lfn_buf nbytes) with
                    | Some l => (Ok l, s1)
                    | None => (Panic, s1)
                    end
  | (Err e, s1) => (Err e, s1)
  | (Panic, s1) => (Panic, s1)
  | (OutOfFuel, s1) => (OutOfFuel, s1)
  end.

Lemma mgr_iterate_lfn_eq d n s : s_lock s = false ->
  mgr_iterate_lfn d n s = lfn_outcome n (raw_listing d s).
Proof.
  intros Hl. unfold mgr_iterate_lfn, raw_listing. rewrite (locked_free _ s Hl). unfold lfn_outcome, bind, lfn_buf.
  destruct (get_dir_by_id d s) as [[di| | |] s1]; try reflexivity.
  destruct (get_dir di s1) as [[dd| | |] s2]; try reflexivity.
  destruct (get_volume_by_id (d_vol dd) s2) as [[vi| | |] s3]; try reflexivity.
  destruct (iterate_dir_raw vi (d_cluster dd) s3) as [[raw| | |] s4]; try reflexivity.
  destruct (lfn_fold raw LfnModel.Waiting _); reflexivity.
Qed.

Lemma mgr_iterate_lfn_locked d n s : s_lock s = true -> mgr_iterate_lfn d n s = (Err LockError, s).
Proof. intros Hl. unfold mgr_iterate_lfn. apply locked_held. exact Hl. Qed.

Lemma set_lock_twice s : s_lock s = false -> set_s_lock (set_s_lock s true) false = s.
Proof. intros H. destruct s. cbn in *. subst. reflexivity. Qed.

(* iterate_dir with the trivial callback, from the raw listing *)
Lemma mgr_iterate_plain_eq d s : s_lock s = false ->
  mgr_iterate d (ret tt) s =
  match raw_listing d s with
  | (Ok raw, s1) => (Ok (shown_of raw, match shown_of raw with [] => None | _ :: _ => Some (inl tt) end), s1)
  | (Err e, s1) => (Err e, s1)
  | (Panic, s1) => (Panic, s1)
  | (OutOfFuel, s1) => (OutOfFuel, s1)
  end.
Proof.
  intros Hl. rewrite (proj1 (C08_iterate_holds_lock _ d (ret tt) s Hl)), (raw_listing_osim d s).
  destruct (raw_listing d s) as [o s1] eqn:E. pose proof (raw_listing_shape _ _ _ _ E) as (_ & _ & _ & _ & L1 & _).
  destruct o as [raw|e| |]; cbn [fst snd omap iterate_outcome]; try reflexivity.
  destruct (shown_of raw) as [|e0 sh]; [reflexivity|]. unfold ret. rewrite set_lock_twice by congruence. reflexivity.
Qed.

(* T3.  A successful iterate_dir_lfn reports, in order, exactly the entries iterate_dir shows (every
   live entry that is no long-name slot, once, in on-disk order - the listing C06_iterate
   characterises), and leaves EXACTLY the state iterate_dir (with a callback that does nothing)
   leaves: iterate_dir sets the lock flag around its callbacks and clears it afterwards, and since the
   flag was clear before (else LockError), the final states are equal, flag included. *)
Theorem C06_iterate_lfn_entries : forall d n s l s1,
  mgr_iterate_lfn d n s = (Ok l, s1) ->
  mgr_iterate d (ret tt) s =
    (Ok (map fst l, match l with [] => None | _ :: _ => Some (inl tt) end), s1) /\
  s_lock s = false /\ s_lock s1 = false.
Proof.
  intros d n s l s1 E. destruct (s_lock s) eqn:Hl; [rewrite (mgr_iterate_lfn_locked d n s Hl) in E; discriminate|].
  rewrite (mgr_iterate_lfn_eq d n s Hl) in E. rewrite (mgr_iterate_plain_eq d s Hl).
  destruct (raw_listing d s) as [o s2] eqn:Er.
  pose proof (raw_listing_shape _ _ _ _ Er) as (_ & _ & _ & _ & L1 & _).
  destruct o as [raw|e| |]; cbn [lfn_outcome] in E; try discriminate.
  destruct (lfn_fold raw LfnModel.Waiting (lfn_buf n)) as [l0|] eqn:Ef; [|discriminate]. injection E as <- <-.
  pose proof (lfn_fold_entries raw _ _ _ (raw_listing_wf _ _ _ _ Er) Ef) as Hm. fold (shown_of raw) in Hm.
  split; [|split; [reflexivity|congruence]]. rewrite <- Hm.
  destruct l0 as [|r0 l0]; reflexivity.
Qed.

(* ... conversely an error of iterate_dir_lfn is the error of iterate_dir, in the same final state *)
Theorem C06_iterate_lfn_err : forall d n s e s1,
  mgr_iterate_lfn d n s = (Err e, s1) -> mgr_iterate d (ret tt) s = (Err e, s1).
Proof.
  intros d n s e s1 E. destruct (s_lock s) eqn:Hl.
  - rewrite (mgr_iterate_lfn_locked d n s Hl) in E. injection E as <- <-.
    unfold mgr_iterate. apply locked_held. exact Hl.
  - rewrite (mgr_iterate_lfn_eq d n s Hl) in E. rewrite (mgr_iterate_plain_eq d s Hl).
    destruct (raw_listing d s) as [[raw|e0| |] s2]; cbn [lfn_outcome] in E; try discriminate.
    + destruct (lfn_fold raw _ _); discriminate.
    + injection E as <- <-. reflexivity.
Qed.

(* ... and the other two outcomes: fuel runs out in both or in neither; a panic of iterate_dir_lfn
   is a panic of the walk (then iterate_dir panics too) or a panic of the closure *)
Theorem C06_iterate_lfn_other : forall d n s s1,
  (mgr_iterate_lfn d n s = (OutOfFuel, s1) <-> mgr_iterate d (ret tt) s = (OutOfFuel, s1)) /\
  (mgr_iterate_lfn d n s = (Panic, s1) ->
     mgr_iterate d (ret tt) s = (Panic, s1) \/
     exists raw, raw_listing d s = (Ok raw, s1) /\ lfn_fold raw LfnModel.Waiting (lfn_buf n) = None).
Proof.
  intros d n s s1. destruct (s_lock s) eqn:Hl.
  - rewrite (mgr_iterate_lfn_locked d n s Hl). unfold mgr_iterate. rewrite (locked_held _ s Hl).
    split; [split; discriminate|discriminate].
  - rewrite (mgr_iterate_lfn_eq d n s Hl), (mgr_iterate_plain_eq d s Hl).
    destruct (raw_listing d s) as [[raw|e0| |] s2]; cbn [lfn_outcome].
    + destruct (lfn_fold raw _ _) eqn:Ef.
      * split; [split; discriminate|discriminate].
      * split; [split; discriminate|]. intros E. injection E as <-. right. exists raw. auto.
    + split; [split; discriminate|discriminate].
    + split; [split; discriminate|]. intros E. left. injection E as <-. reflexivity.
    + split; [split; intros E; injection E as <-; reflexivity|discriminate].
Qed.

(* ================================================================== 3b. the delivered slots are the slots on the medium *)
(* the computations of the walk keep the cache coherent and the medium as it is *)
Definition dk {A} (m : M A) : Prop :=
  forall s o s', m s = (o, s') -> cache_ok s -> cache_ok s' /\ s_disk s' = s_disk s.
Lemma dk_of {A} (m : M A) : PrModes.ro m -> PrFault2.cok m -> dk m.
Proof.
  intros H1 H2 s o s' E Hc. split; [exact (H2 _ _ _ E Hc)|]. destruct (H1 _ _ _ E) as (_ & D & _). exact D.
Qed.
Lemma dk_cache_read i : dk (cache_read i).
Proof. exact (dk_of _ (PrModes.ro_cache_read i) (PrFault2.cok_cache_read i)). Qed.
Lemma dk_cluster_to_block v c : dk (cluster_to_block v c).
Proof. exact (dk_of _ (PrModes.ro_cluster_to_block v c) (PrFault2.cok_cluster_to_block v c)). Qed.
Lemma dk_add32 a b : dk (add32 a b).
Proof. exact (dk_of _ (PrModes.ro_add32 a b) (PrFault2.cok_add32 a b)). Qed.
Lemma dk_try_next_cluster v c : dk (try (next_cluster v c)).
Proof.
  exact (dk_of _ (PrModes.ro_try _ (PrModes.ro_next_cluster v c)) (PrFault2.cok_try _ (PrFault2.cok_next_cluster v c))).
Qed.

(* a successful read through a coherent cache returns the block of the medium *)
Lemma cache_read_value i s b s1 : cache_ok s -> cache_read i s = (Ok b, s1) -> b = disk_get (s_disk s) i.
Proof.
  intros Hc E. unfold cache_read in E. rewrite bind_get in E.
  destruct (opt_eqb (s_tag s) i) eqn:Ho.
  - injection E as <- _. unfold opt_eqb in Ho. destruct (s_tag s) as [j|] eqn:Et; [|discriminate].
    apply N.eqb_eq in Ho. subst j. exact (Hc i Et).
  - unfold bind, modify, try, dev_read, fail, ret in E.
    destruct (faulty (set_s_tag s None)); inversion E; subst. reflexivity.
Qed.

(* one delivered pair: slot i of block blk of the medium d, decoded at that position *)
Definition raw_at (d : disk) (fat32 : bool) (r : rawent) : Prop :=
  exists blk i, i < 16 /\ snd r = slot (disk_get d blk) i /\ fst r = get_entry fat32 (snd r) blk (i * 32).

Lemma iter_slots_raw_at n d fat32 blk : forall i acc, i + N.of_nat n <= 16 ->
  Forall (raw_at d fat32) acc ->
  Forall (raw_at d fat32) (snd (iter_slots_raw n fat32 (disk_get d blk) blk i acc)).
Proof.
  induction n as [|n IH]; intros i acc Hi Hacc; cbn [iter_slots_raw]; [exact Hacc|]. cbv zeta.
  destruct (is_end (slot (disk_get d blk) i)); [exact Hacc|].
  destruct (is_valid (slot (disk_get d blk) i)); apply IH; try lia; [|exact Hacc].
  constructor; [|exact Hacc]. exists blk, i. split; [lia|]. split; reflexivity.
Qed.

Lemma iter_blocks_raw_at fat32 : forall n i acc s p s', cache_ok s ->
  Forall (raw_at (s_disk s) fat32) acc -> iter_blocks_raw n fat32 i acc s = (Ok p, s') ->
  Forall (raw_at (s_disk s) fat32) (snd p) /\ cache_ok s' /\ s_disk s' = s_disk s.
Proof.
  induction n as [|n IH]; intros i acc s p s' Hc Hacc E; cbn [iter_blocks_raw] in E.
  - injection E as <- <-. auto.
  - apply xbind_ok_inv in E. destruct E as (b & s1 & E0 & E).
    pose proof (cache_read_value _ _ _ _ Hc E0) as ->.
    destruct (dk_cache_read i _ _ _ E0 Hc) as (Hc1 & D1).
    pose proof (iter_slots_raw_at 16 (s_disk s) fat32 i 0 acc ltac:(cbn; lia) Hacc) as H1.
    destruct (iter_slots_raw 16 fat32 (disk_get (s_disk s) i) i 0 acc) as [[|] acc']; cbn [snd] in H1.
    + injection E as <- <-. auto.
    + rewrite <- D1 in H1. destruct (IH _ _ _ _ _ Hc1 H1 E) as (A & B & C). rewrite D1 in A, C. auto.
Qed.

Lemma iter_walk_raw_at vi v : forall fuel c acc s l s', nth_error (s_vols s) vi = Some v -> cache_ok s ->
  Forall (raw_at (s_disk s) (v_fat32 v)) acc ->
  iter_walk_raw fuel vi c acc s = (Ok l, s') -> Forall (raw_at (s_disk s) (v_fat32 v)) l.
Proof.
  induction fuel as [|f IH]; intros c acc s l s' Hvi Hc Hacc E; cbn [iter_walk_raw] in E; [discriminate|].
  apply xbind_ok_inv in E. destruct E as (v0 & s1 & E0 & E).
  rewrite get_vol_eq, Hvi in E0. injection E0 as <- <-.
  apply xbind_ok_inv in E. destruct E as (first & s1 & E1 & E). cbv zeta in E.
  pose proof (tables_vols _ _ (fixes_cluster_to_block _ _ _ _ _ E1)) as V1.
  destruct (dk_cluster_to_block _ _ _ _ _ E1 Hc) as (Hc1 & D1).
  apply xbind_ok_inv in E. destruct E as (x & s2 & E2 & E).
  pose proof (tables_vols _ _ (fixes_add32 _ _ _ _ _ E2)) as V2.
  destruct (dk_add32 _ _ _ _ _ E2 Hc1) as (Hc2 & D2).
  apply xbind_ok_inv in E. destruct E as ([stop acc'] & s3 & E3 & E).
  pose proof (tables_vols _ _ (fixes_iter_blocks_raw _ _ _ _ _ _ _ E3)) as V3.
  assert (Hacc2 : Forall (raw_at (s_disk s2) (v_fat32 v)) acc) by (rewrite D2, D1; exact Hacc).
  destruct (iter_blocks_raw_at _ _ _ _ _ _ _ Hc2 Hacc2 E3) as (H3 & Hc3 & D3). cbn [snd] in H3.
  rewrite D2, D1 in H3, D3.
  destruct stop; [injection E as <- _; exact H3|].
  destruct (negb (v_fat32 v) && (c =? CL_ROOT)); [injection E as <- _; exact H3|].
  apply xbind_ok_inv in E. destruct E as (nc & s4 & E4 & E).
  destruct (dk_try_next_cluster _ _ _ _ _ E4 Hc3) as (Hc4 & D4).
  assert (V4 : s_vols s4 = s_vols s3).
  { unfold try in E4. destruct (next_cluster v c s3) as [o5 s5] eqn:E5.
    pose proof (tables_vols _ _ (fixes_next_cluster _ _ _ _ _ E5)) as V5.
    destruct o5; inversion E4; subst; exact V5. }
  destruct nc as [n|e].
  - assert (D : s_disk s4 = s_disk s) by congruence. rewrite <- D.
    apply (IH n acc' s4 l s'); [congruence|exact Hc4|rewrite D; exact H3|exact E].
  - destruct e; try (injection E as <- _; exact H3); discriminate.
Qed.

(* every delivered pair is a slot of a block of the medium (read through the coherent cache),
   decoded at its own position *)
Theorem raw_slots_on_disk : forall vi v c s raw s',
  nth_error (s_vols s) vi = Some v -> cache_ok s -> iterate_dir_raw vi c s = (Ok raw, s') ->
  Forall (raw_at (s_disk s) (v_fat32 v)) raw.
Proof.
  intros vi v c s raw s' Hvi Hc E. unfold iterate_dir_raw in E.
  apply xbind_ok_inv in E. destruct E as (v0 & s1 & E0 & E).
  rewrite get_vol_eq, Hvi in E0. injection E0 as <- <-.
  apply xbind_ok_inv in E. destruct E as (r & s2 & E1 & E). injection E as <- _.
  apply Forall_rev. exact (iter_walk_raw_at vi v _ _ [] s r s2 Hvi Hc (Forall_nil _) E1).
Qed.

Lemma In_tslots_from' n b blk : forall i t, In t (tslots_from n b blk i) ->
  exists j, j < i + N.of_nat n /\ t = (blk, j * 32, slot b j).
Proof.
  induction n as [|n IH]; intros i t H; [destruct H|].
  cbn [tslots_from] in H. destruct H as [<-|H].
  - exists i. split; [lia|reflexivity].
  - destruct (IH _ _ H) as (j & H2 & E). exists j. split; [lia|exact E].
Qed.
Lemma In_slots_of' d bl t : In t (slots_of d bl) ->
  exists b i, In b bl /\ i < 16 /\ t = (b, i * 32, slot (disk_get d b) i).
Proof.
  intros H. unfold slots_of in H. apply in_flat_map in H. destruct H as (b & Hb & H).
  unfold block_slots in H. apply In_tslots_from' in H. destruct H as (j & Hj & ->).
  exists b, j. split; [exact Hb|]. split; [change (N.of_nat 16) with 16 in Hj; lia|reflexivity].
Qed.
Lemma In_before_end_all l t : In t (before_end_all l) -> In t l.
Proof.
  induction l as [|a l IH]; cbn [before_end_all]; [trivial|]. destruct (t_is_end a); [intros []|].
  intros [<-|H]; [left; reflexivity|right; exact (IH H)].
Qed.

(* the decoded entries determine the pairs: the position of an entry is the position of its slot *)
Lemma raw_from_entries d fat32 bl : forall raw L, Forall (raw_at d fat32) raw ->
  (forall t, In t L -> In t (slots_of d bl)) -> map fst raw = map (t_entry fat32) L ->
  raw = map (fun t => (t_entry fat32 t, snd t)) L.
Proof.
  induction raw as [|[e sl] raw IH]; intros [|t L] Hraw HL Hm; cbn [map] in *; try discriminate; [reflexivity|].
  injection Hm as Hh Ht. pose proof (Forall_inv Hraw) as (blk & i & Hi & Hs & He).
  pose proof (Forall_inv_tail Hraw) as Hrest. cbn [fst snd] in *.
  f_equal; [|apply IH; [exact Hrest|intros t0 Ht0; apply HL; right; exact Ht0|exact Ht]].
  destruct (In_slots_of' d bl t (HL t (or_introl eq_refl))) as (b & j & _ & Hj & ->).
  unfold t_entry in *. cbn [fst snd] in *.
  pose proof (f_equal e_block Hh) as Eb. pose proof (f_equal e_offset Hh) as Eo.
  rewrite He in Eb, Eo. cbn [e_block e_offset get_entry] in Eb, Eo. subst blk.
  assert (i = j) by lia. subst j. rewrite Hh, Hs. reflexivity.
Qed.

(* the slots the walk delivers, in the vocabulary of the lfn group: LfnSpec.delivered *)
Lemma delivered_tslots l : map snd (filter t_is_valid (before_end_all l)) = LfnSpec.delivered (map snd l).
Proof.
  induction l as [|a l IH]; [reflexivity|]. cbn [before_end_all map LfnSpec.delivered].
  change (LfnSpec.slot_first (snd a) =? 0) with (t_is_end a).
  change (LfnSpec.slot_first (snd a) =? 229) with (get8 (snd a) 0 =? 229).
  destruct (t_is_end a) eqn:He; [reflexivity|]. cbn [filter]. unfold t_is_valid, is_valid.
  unfold t_is_end in He. rewrite He. cbn [negb andb].
  destruct (get8 (snd a) 0 =? 229); cbn [negb map]; rewrite <- IH; reflexivity.
Qed.

(* C06 for the raw walk: under the hypotheses of PrDir.C06_iterate the raw walk delivers, in on-disk
   order, exactly the valid slots before the first end marker, each with its decoded entry *)
Theorem C06_iterate_lfn_slots : forall vi v dc s bl,
  nth_error (s_vols s) vi = Some v -> vol_ok v -> no_faults s -> cache_ok s ->
  dir_blocks (s_disk s) v dc = Some bl ->
  exists s', iterate_dir_raw vi dc s =
    (Ok (map (fun t => (t_entry (v_fat32 v) t, snd t))
             (filter t_is_valid (before_end_all (slots_of (s_disk s) bl)))), s')
    /\ s_disk s' = s_disk s /\ cache_ok s' /\ no_faults s' /\ same_mgr s s'.
Proof.
  intros vi v dc s bl Hvi Hv Hnf Hc Hbl.
  destruct (C06_iterate vi v dc s bl Hvi Hv Hnf Hc Hbl) as (s' & Ea & Hrest).
  rewrite iterate_dir_raw_sim in Ea.
  destruct (iterate_dir_raw vi dc s) as [[raw|e| |] s1] eqn:Er; cbn [fst snd omap] in Ea; try discriminate.
  injection Ea as Hm ->. exists s'. split; [|exact Hrest]. f_equal. f_equal.
  apply (raw_from_entries (s_disk s) (v_fat32 v) bl); [exact (raw_slots_on_disk _ _ _ _ _ _ Hvi Hc Er)| |exact Hm].
  intros t Ht. apply filter_In in Ht. exact (In_before_end_all _ _ (proj1 Ht)).
Qed.

Corollary C06_iterate_lfn_delivered vi v dc s bl raw s' :
  nth_error (s_vols s) vi = Some v -> vol_ok v -> no_faults s -> cache_ok s ->
  dir_blocks (s_disk s) v dc = Some bl -> iterate_dir_raw vi dc s = (Ok raw, s') ->
  map snd raw = LfnSpec.delivered (map snd (slots_of (s_disk s) bl)).
Proof.
  intros Hvi Hv Hnf Hc Hbl E. destruct (C06_iterate_lfn_slots vi v dc s bl Hvi Hv Hnf Hc Hbl) as (s2 & E2 & _).
  rewrite E in E2. injection E2 as -> _. rewrite map_map. cbn [snd]. apply delivered_tslots.
Qed.

(* blocks of bytes give slots of bytes: the premise `Forall is_slot` of C17_listing / C17_listing_oracle *)
Lemma slots_of_is_slot d bl : (forall i, is_block (disk_get d i)) ->
  Forall LfnModel.is_slot (map snd (slots_of d bl)).
Proof.
  intros Hb. apply Forall_forall. intros x Hx. apply in_map_iff in Hx. destruct Hx as (t & <- & Ht).
  destruct (In_slots_of' d bl t Ht) as (b & i & _ & Hi & ->). cbn [snd]. apply slot_is_slot; [apply Hb|exact Hi].
Qed.

(* listing_from looks at the delivered slots only *)
Lemma listing_from_delivered slots ss st :
  LfnModel.listing_from (LfnSpec.delivered slots) ss st = LfnModel.listing_from slots ss st.
Proof.
  rewrite !LfnListing.listing_from_corest. f_equal. f_equal.
  induction slots as [|d r IH]; [reflexivity|]. cbn [LfnSpec.delivered].
  destruct (LfnSpec.slot_first d =? 0) eqn:E0; [reflexivity|].
  destruct (LfnSpec.slot_first d =? 229) eqn:E1; [exact IH|].
  cbn [LfnSpec.delivered]. rewrite E0, E1, IH. reflexivity.
Qed.

(* END TO END: iterate_dir_lfn on a directory whose blocks are bl reports what the slot loop of the lfn
   group (LfnModel.listing, the object of C17_listing / C17_listing_oracle / C17_arbitrary_dir)
   reports for the slots of those blocks, in on-disk order, each report next to its decoded entry;
   the entries are those iterate_dir shows; only reads happen *)
Theorem C17x_iterate_lfn_listing : forall d n s di dd vi v bl,
  s_lock s = false -> get_dir_by_id d s = (Ok di, s) -> get_dir di s = (Ok dd, s) ->
  get_volume_by_id (d_vol dd) s = (Ok vi, s) ->
  nth_error (s_vols s) vi = Some v -> vol_ok v -> no_faults s -> cache_ok s ->
  dir_blocks (s_disk s) v (d_cluster dd) = Some bl ->
  exists l s', mgr_iterate_lfn d n s = (Ok l, s') /\
    LfnModel.listing (map snd (slots_of (s_disk s) bl)) (lfn_buf n)
      = LfnModel.Ok (map (fun r : lfn_report => (e_name (fst r), snd r)) l) /\
    map fst l = filter (fun e => negb (is_lfn (e_attr e)))
                  (map (t_entry (v_fat32 v)) (filter t_is_valid (before_end_all (slots_of (s_disk s) bl)))) /\
    s_disk s' = s_disk s /\ cache_ok s' /\ no_faults s' /\ same_mgr s s'.
Proof.
  intros d n s di dd vi v bl Hl H1 H2 H3 Hvi Hv Hnf Hc Hbl.
  destruct (C06_iterate_lfn_slots vi v (d_cluster dd) s bl Hvi Hv Hnf Hc Hbl) as (s' & Er & Hrest).
  set (L := filter t_is_valid (before_end_all (slots_of (s_disk s) bl))) in *.
  set (raw := map (fun t => (t_entry (v_fat32 v) t, snd t)) L) in *.
  assert (Erl : raw_listing d s = (Ok raw, s')).
  { unfold raw_listing. rewrite (bind_ok _ _ _ _ _ H1), (bind_ok _ _ _ _ _ H2), (bind_ok _ _ _ _ _ H3). exact Er. }
  pose proof (raw_listing_wf _ _ _ _ Erl) as Hwf.
  assert (Hsnd : map snd raw = LfnSpec.delivered (map snd (slots_of (s_disk s) bl))).
  { subst raw. rewrite map_map. cbn [snd]. apply delivered_tslots. }
  assert (Hfst : map fst raw = map (t_entry (v_fat32 v)) L) by (subst raw; rewrite map_map; reflexivity).
  rewrite (mgr_iterate_lfn_eq d n s Hl), Erl. cbn [lfn_outcome].
  pose proof (lfn_fold_listing raw LfnModel.Waiting (lfn_buf n) Hwf) as Hfl.
  destruct (lfn_fold raw LfnModel.Waiting (lfn_buf n)) as [l|] eqn:Ef.
  - exists l, s'. split; [reflexivity|]. split; [|split; [|exact Hrest]].
    + unfold LfnModel.listing. rewrite <- listing_from_delivered, <- Hsnd.
      destruct (LfnModel.listing_from (map snd raw) LfnModel.Waiting (lfn_buf n)); [contradiction|]. rewrite Hfl. reflexivity.
    + rewrite <- Hfst. exact (lfn_fold_entries raw _ _ l Hwf Ef).
  - exfalso. destruct (LfnListing.listing_total (map snd raw) (lfn_buf n)) as (outs & Eo & _).
    unfold LfnModel.listing in Eo. rewrite Eo in Hfl. exact Hfl.
Qed.

(* ================================================================== 4. T7: the RAII wrappers *)
Definition discard {A} (r : outcome A * st) : outcome unit * st :=
  match r with
  | (Ok _, s') => (Ok tt, s')
  | (Err _, s') => (Ok tt, s')
  | (Panic, s') => (Panic, s')
  | (OutOfFuel, s') => (OutOfFuel, s')
  end.

Lemma drop_is_discard {A} (m : M A) s : (_ <- try m ;; ret tt) s = discard (m s).
Proof. unfold bind, try, discard. destruct (m s) as [[a|e| |] s1]; reflexivity. Qed.

(* Drop for File / Directory / Volume = the close call with the result discarded: same final state,
   Ok and Err both become Ok (), a panic stays a panic *)
Theorem drop_file_is_close f s : drop_file f s = discard (close_file f s).
Proof. apply drop_is_discard. Qed.
Theorem drop_dir_is_close d s : drop_dir d s = discard (close_dir d s).
Proof. apply drop_is_discard. Qed.
Theorem drop_volume_is_close v s : drop_volume v s = discard (close_volume v s).
Proof. apply drop_is_discard. Qed.

Theorem drop_file_eq_close : forall f s,
  fst (close_file f s) <> Panic -> fst (close_file f s) <> OutOfFuel ->
  drop_file f s = (Ok tt, snd (close_file f s)).
Proof.
  intros f s H1 H2. rewrite drop_file_is_close. destruct (close_file f s) as [[a|e| |] s1]; cbn in *; try reflexivity; contradiction.
Qed.
Theorem drop_dir_eq_close : forall d s, drop_dir d s = (Ok tt, snd (close_dir d s)).
Proof.
  intros d s. rewrite drop_dir_is_close. unfold close_dir. destruct (s_lock s) eqn:Hl.
  - rewrite (locked_held _ s Hl). reflexivity.
  - rewrite (locked_free _ s Hl). unfold bind. rewrite get_dir_by_id_eq.
    destruct (find_idx _ _ _); reflexivity.
Qed.
Theorem drop_volume_eq_close : forall v s,
  fst (close_volume v s) <> Panic -> fst (close_volume v s) <> OutOfFuel ->
  drop_volume v s = (Ok tt, snd (close_volume v s)).
Proof.
  intros v s H1 H2. rewrite drop_volume_is_close. destruct (close_volume v s) as [[a|e| |] s1]; cbn in *; try reflexivity; contradiction.
Qed.
Theorem drop_same_state : forall f s,
  snd (drop_file f s) = snd (close_file f s) /\
  (fst (drop_file f s) = Panic <-> fst (close_file f s) = Panic) /\
  (fst (drop_file f s) = OutOfFuel <-> fst (close_file f s) = OutOfFuel).
Proof.
  intros f s. rewrite drop_file_is_close. destruct (close_file f s) as [[a|e| |] s1]; cbn;
    (split; [reflexivity|]); split; split; intros; try discriminate; reflexivity.
Qed.

(* ---- File::length / offset / is_eof ---- *)
Lemma expect_eq {A} (m : M A) s :
  expect m s = match m s with
               | (Ok a, s') => (Ok a, s')
               | (Err _, s') => (Panic, s')
               | (Panic, s') => (Panic, s')
               | (OutOfFuel, s') => (OutOfFuel, s')
               end.
Proof. unfold expect, bind, try. destruct (m s) as [[a|e| |] s1]; reflexivity. Qed.

Lemma handle_resolves f s : s_lock s = false -> In f (map f_id (s_files s)) ->
  exists fi fr, PrSeek.resolves s f fi fr.
Proof.
  intros Hl Hin. apply in_map_iff in Hin. destruct Hin as (x & Hx & Hin).
  destruct (find_idx_exists (fun g => f_id g =? f) (s_files s)
              (ex_intro _ x (conj Hin (proj2 (N.eqb_eq _ _) Hx))) 0) as (j & Hj & _).
  destruct (PrSeek.find_resolves s f j Hl Hj) as (fr & Hr & _). exists j, fr. exact Hr.
Qed.

(* on an open handle, with the lock free, the wrappers return the value and change nothing *)
Theorem w_length_ok : forall f s, s_lock s = false -> In f (map f_id (s_files s)) ->
  exists n, w_length f s = (Ok n, s).
Proof.
  intros f s Hl Hin. destruct (handle_resolves f s Hl Hin) as (fi & fr & Hr).
  exists (PrSeek.flen fr). unfold w_length. rewrite expect_eq, (PrSeek.C01_file_length _ _ _ _ Hr). reflexivity.
Qed.
Theorem w_offset_ok : forall f s, s_lock s = false -> In f (map f_id (s_files s)) ->
  exists n, w_offset f s = (Ok n, s).
Proof.
  intros f s Hl Hin. destruct (handle_resolves f s Hl Hin) as (fi & fr & Hr).
  exists (PrSeek.foff fr). unfold w_offset. rewrite expect_eq, (PrSeek.C01_file_offset _ _ _ _ Hr). reflexivity.
Qed.
Theorem w_is_eof_ok : forall f s, s_lock s = false -> In f (map f_id (s_files s)) ->
  exists b, w_is_eof f s = (Ok b, s).
Proof.
  intros f s Hl Hin. destruct (handle_resolves f s Hl Hin) as (fi & fr & Hr).
  eexists. unfold w_is_eof. rewrite expect_eq, (PrSeek.C01_file_eof _ _ _ _ Hr). reflexivity.
Qed.

(* ... with the values: the record of the handle *)
Theorem w_values : forall f s fi fr, PrSeek.resolves s f fi fr ->
  w_length f s = (Ok (e_size (f_entry fr)), s) /\ w_offset f s = (Ok (f_offset fr), s) /\
  w_is_eof f s = (Ok (f_eof fr), s).
Proof.
  intros f s fi fr Hr. unfold w_length, w_offset, w_is_eof. rewrite !expect_eq.
  rewrite (PrSeek.C01_file_length _ _ _ _ Hr), (PrSeek.C01_file_offset _ _ _ _ Hr), (PrSeek.C01_file_eof _ _ _ _ Hr).
  repeat split; reflexivity.
Qed.

(* REFUTATIONS of "the wrappers never panic" *)
(* (a) a handle that is not in the table: expect("Corrupt file ID") panics *)
Theorem w_length_stale_panics : forall f s, s_lock s = false -> ~ In f (map f_id (s_files s)) ->
  w_length f s = (Panic, s) /\ w_offset f s = (Panic, s) /\ w_is_eof f s = (Panic, s).
Proof.
  intros f s Hl Hno.
  assert (Hnf : no_file f s) by (intros x Hx E; apply Hno; rewrite <- E; apply in_map; exact Hx).
  unfold w_length, w_offset, w_is_eof, file_length, file_offset, file_eof. rewrite !expect_eq.
  rewrite !(with_file_stale f _ s Hl Hnf). repeat split; reflexivity.
Qed.
(* (b) under the lock (the call is made from inside a directory-iteration callback): LockError, and
   the expect panics - whether or not the handle is open *)
Theorem w_length_locked_panics : forall f s, s_lock s = true ->
  w_length f s = (Panic, s) /\ w_offset f s = (Panic, s) /\ w_is_eof f s = (Panic, s).
Proof.
  intros f s Hl. unfold w_length, w_offset, w_is_eof, file_length, file_offset, file_eof, with_file.
  rewrite !expect_eq, !(locked_held _ s Hl). repeat split; reflexivity.
Qed.

(* concrete witnesses *)
Definition exw_file : fileinfo :=
  mk_fileinfo 5 0 0 0 3 ReadOnly (mk_dirent (repeat 65 11) (mk_ts 0 0 0 0 0 0) (mk_ts 0 0 0 0 0 0) 32 0 10 40 64) false.
Definition exw_state (lock : bool) : st :=
  mk_st (PositiveMap.empty block) zero_block None [] [] [exw_file] 6 0 0 [] [] lock 1 4 4.

Example w_wrappers_example :
  w_length 5 (exw_state false) = (Ok 10, exw_state false) /\
  w_offset 5 (exw_state false) = (Ok 3, exw_state false) /\
  w_is_eof 5 (exw_state false) = (Ok false, exw_state false) /\
  (* the same open handle, from inside an iteration callback *)
  w_length 5 (exw_state true) = (Panic, exw_state true) /\
  (* a handle that was never handed out *)
  w_length 9 (exw_state false) = (Panic, exw_state false).
Proof. repeat split; reflexivity. Qed.

(* the unwrapped call in the same two situations reports an error instead *)
Example w_wrappers_vs_raw :
  file_length 5 (exw_state true) = (Err LockError, exw_state true) /\
  file_length 9 (exw_state false) = (Err BadHandle, exw_state false).
Proof. split; reflexivity. Qed.

Print Assumptions iterate_dir_raw_sim.
Print Assumptions raw_slots_valid.
Print Assumptions lfn_fold_listing.
Print Assumptions lfn_fold_entries.
Print Assumptions C06_iterate_lfn_entries.
Print Assumptions C06_iterate_lfn_err.
Print Assumptions C06_iterate_lfn_other.
Print Assumptions raw_slots_on_disk.
Print Assumptions C06_iterate_lfn_slots.
Print Assumptions C06_iterate_lfn_delivered.
Print Assumptions C17x_iterate_lfn_listing.
Print Assumptions drop_file_is_close.
Print Assumptions drop_file_eq_close.
Print Assumptions drop_dir_eq_close.
Print Assumptions drop_volume_eq_close.
Print Assumptions w_length_ok.
Print Assumptions w_offset_ok.
Print Assumptions w_is_eof_ok.
Print Assumptions w_values.
Print Assumptions w_length_stale_panics.
Print Assumptions w_length_locked_panics.
